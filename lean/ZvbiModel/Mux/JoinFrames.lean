import ZvbiModel.Mux.JoinBytes
import ZvbiModel.Demux.JoinStream
/-!
# Accepted frames ascend  (C06 side of the join with C07)

The lines of a frame the multiplexer accepts are in strictly ascending order of their line numbers
(lines with an undefined line number aside), lie on lines 7..23 / 320..335, hence are at most 39.
-/
namespace Zvbi.Mux
open Zvbi.Mux.EnParse Zvbi.Hamm
open Zvbi.Demux (AscFrom lastLineOf firstLine SepFrom FrameLinesOK FrameOut ofLine SrcCfg frameCap_ge)

theorem canon_line (s : Sliced) (l : Line) (h : canon s = some l) : l.line = s.line := by
  unfold canon at h
  repeat' split at h
  all_goals first
    | (cases h; done)
    | (simp only [Option.some.injEq] at h; subst h; rfl)

theorem mem_sent (mask : Nat) (lines : List Sliced) (l : Line) (h : l ∈ sent mask lines) :
    ∃ s ∈ lines, s.id &&& mask ≠ 0 ∧ canon s = some l := by
  unfold sent at h
  rw [List.mem_filterMap] at h
  obtain ⟨s, hs, hc⟩ := h
  rw [List.mem_filter] at hs
  exact ⟨s, hs.1, by simpa using hs.2, hc⟩

/-- line numbers the multiplexer puts into data units when they are defined -/
def VbiLine (n : Nat) : Prop := n ≤ 23 ∨ (320 ≤ n ∧ n ≤ 335)

theorem permitted_line (s : Sliced) (h : Permitted s) : VbiLine s.line := by
  unfold Permitted at h
  unfold VbiLine
  omega

/-- at most 39 defined lines ascend above `x` within 1..23 / 320..335 -/
theorem ascFrom_length : ∀ (ls : List Line) (x : Nat), AscFrom x ls → (∀ l ∈ ls, VbiLine l.line) →
    ls.length ≤ (23 - x) + (335 - max x 319) := by
  intro ls
  induction ls with
  | nil => intro x _ _; simp
  | cons l ls ih =>
    intro x hasc hv
    obtain ⟨hlt, hasc'⟩ := hasc
    have h1 := ih l.line hasc' (fun y hy => hv y (List.mem_cons_of_mem _ hy))
    have h2 : VbiLine l.line := hv l (List.mem_cons_self ..)
    unfold VbiLine at h2
    simp only [List.length_cons]
    omega

/-- the line order check of `insert_sliced_data_units`: when every selected line has a defined line
number, the lines handed to the receiver ascend strictly from `last_line` -/
theorem insertSliced_asc (mask : Nat) (fixed : Bool) (lines : List Sliced) (hwf : ∀ s ∈ lines, Sliced.WF s) :
    ∀ pLeft lastLine lastDu,
      (insertSliced mask fixed pLeft lastLine lastDu lines).err = none →
      (insertSliced mask fixed pLeft lastLine lastDu lines).rest = [] →
      (∀ l ∈ sent mask lines, l.line ≠ 0) → AscFrom lastLine (sent mask lines) := by
  induction lines with
  | nil => intro _ _ _ _ _ _; simp [sent, AscFrom]
  | cons s rest ih =>
    have hwf' : ∀ s ∈ rest, Sliced.WF s := fun x hx => hwf x (List.mem_cons_of_mem _ hx)
    have hs : Sliced.WF s := hwf s (List.mem_cons_self ..)
    intro pLeft lastLine lastDu
    rw [insertSliced]
    by_cases hm : s.id &&& mask = 0
    · rw [if_pos hm, sent_cons_masked mask s rest hm]
      exact ih hwf' pLeft lastLine lastDu
    · rw [if_neg hm]
      by_cases ho : s.line > 0 ∧ s.line ≤ lastLine
      · rw [if_pos ho]; intro he; simp at he
      · rw [if_neg ho]
        simp only []
        cases hd : duSizeOf s.id s.line with
        | error e => simp only []; intro he; simp at he
        | ok du0 =>
          simp only []
          by_cases hfit : (if fixed = true then 46 else du0) > pLeft
          · rw [if_pos hfit]; intro _ hr; simp at hr
          · rw [if_neg hfit]
            cases hl : lofpOf s.line (if s.line > 0 then s.line else lastLine) with
            | error e => simp only []; intro he; simp at he
            | ok lofp =>
              simp only []
              obtain ⟨u, l, hb, hc, _, _, _, _⟩ := line_unit s hs fixed _ du0 lofp hd hl
              rw [hb]
              simp only []
              intro he hr hnz
              rw [sent_cons_kept mask s rest l hm hc] at hnz ⊢
              have hl0 : l.line ≠ 0 := hnz l (List.mem_cons_self ..)
              have hll := canon_line s l hc
              have hpos : s.line > 0 := by omega
              have := ih hwf' _ _ _ he hr (fun y hy => hnz y (List.mem_cons_of_mem _ hy))
              rw [if_pos hpos] at this
              exact ⟨by omega, by rw [hll]; exact this⟩

/-- an accepted frame without undefined-line units: strictly ascending, at most 39 lines -/
theorem generatePes_asc (cfg : Cfg) (lines : List Sliced) (mask pts : Nat)
    (hwf : ∀ s ∈ lines, Sliced.WF s) (hnr : NoRaw lines) (pes : Bytes)
    (hg : generatePes cfg lines mask pts = .ok (pes, [])) (hnz : ∀ l ∈ sent mask lines, l.line ≠ 0) :
    AscFrom 0 (sent mask lines) ∧ (sent mask lines).length ≤ 39 := by
  unfold generatePes at hg
  simp only [] at hg
  cases hgl : genLoop mask (fixedLengthFormat cfg.dataId) (lines.length + 1) (cfg.maxSize - 46) 0 lines with
  | error e => rw [hgl] at hg; simp at hg
  | ok r =>
    obtain ⟨out, lastDu, left⟩ := r
    rw [hgl] at hg
    simp only [] at hg
    split at hg
    · cases hg
    · simp only [Except.ok.injEq, Prod.mk.injEq] at hg
      obtain ⟨_, hleft⟩ := hg
      subst hleft
      obtain ⟨he, hr, _, _⟩ := genLoop_noraw mask _ _ _ lines hnr out lastDu hgl
      have hasc := insertSliced_asc mask _ lines hwf _ 0 0 he hr hnz
      obtain ⟨us, _, _, _, _, _, hperm⟩ := insertSliced_ok mask _ lines hwf _ 0 0 he hr
      have hv : ∀ l ∈ sent mask lines, VbiLine l.line := by
        intro l hl
        obtain ⟨s, hs, hsm, hc⟩ := mem_sent mask lines l hl
        rw [canon_line s l hc]
        exact permitted_line s (hperm s hs hsm)
      refine ⟨hasc, ?_⟩
      have := ascFrom_length _ 0 hasc hv
      omega

/-- every history: each accepted frame whose lines all have defined line numbers ascends strictly
and has at most 39 lines -/
theorem run_asc (ops : List Op) (hops : ∀ op ∈ ops, Op.OK op) :
    ∀ m, ∀ s ∈ (run m ops).2.2, (∀ l ∈ s.lines, l.line ≠ 0) → AscFrom 0 s.lines ∧ s.lines.length ≤ 39 := by
  induction ops with
  | nil => intro m s hs; simp [run] at hs
  | cons op ops ih =>
    intro m s hs
    simp only [run] at hs
    rcases List.mem_append.mp hs with hs | hs
    · cases op with
      | dataId d => simp [step] at hs
      | size a b => simp [step] at hs
      | frame lines mask pts =>
        have hok := hops _ (List.mem_cons_self ..)
        simp only [step] at hs
        cases hacc : (feed m lines mask pts 0).2.ok with
        | false => simp [hacc] at hs
        | true =>
          simp only [hacc, if_true, List.mem_singleton] at hs
          subst hs
          obtain ⟨pes, hg, _, _⟩ := feed_accepted m lines mask pts hacc
          exact generatePes_asc m.cfg lines mask pts hok.1 hok.2 pes hg
    · exact ih (fun o ho => hops o (List.mem_cons_of_mem _ ho)) _ s hs

/-! ## vocabulary of the joined round trip (`Props/C06Join.lean`) -/

/-- the frame the application of the demultiplexer is to receive for a frame the multiplexer sent:
PTS modulo 2^33 and, per line, libzvbi's service id (Teletext B 3, VPS 4, WSS 0x400, Caption 8),
the line number and the payload bits (`Demux.ofLine`) -/
def received (s : Sent) : FrameOut := ⟨s.pts, s.lines.map ofLine⟩

/-- a frame with at least one line, all on defined line numbers -/
def Defined (s : Sent) : Prop := s.lines ≠ [] ∧ ∀ l ∈ s.lines, l.line ≠ 0

/-- consecutive frames begin on a line not beyond the last line of the frame before -/
def Separable : List Sent → Prop
  | [] => True
  | [s] => Defined s
  | s :: t :: r => Defined s ∧ firstLine t.lines ≤ lastLineOf 0 s.lines ∧ Separable (t :: r)

theorem separable_defined : ∀ (ss : List Sent), Separable ss → ∀ s ∈ ss, Defined s := by
  intro ss
  induction ss with
  | nil => intro _ s hs; simp at hs
  | cons a ss ih =>
    intro hsep s hs
    cases ss with
    | nil =>
      simp only [List.mem_singleton] at hs
      subst hs; exact hsep
    | cons b r =>
      obtain ⟨hd, _, hsep'⟩ := hsep
      rcases List.mem_cons.mp hs with rfl | hs
      · exact hd
      · exact ih hsep' s hs

theorem sepFrom_of_separable {cfg : SrcCfg} : ∀ (ss : List Sent) (s : Sent),
    (∀ t ∈ s :: ss, (∀ l ∈ t.lines, l.line ≠ 0) → AscFrom 0 t.lines ∧ t.lines.length ≤ 39) →
    Separable (s :: ss) → FrameLinesOK cfg s.lines ∧ SepFrom cfg (lastLineOf 0 s.lines) (ss.map (·.lines)) := by
  have hcap := frameCap_ge cfg
  intro ss
  induction ss with
  | nil =>
    intro s hasc hsep
    have hd : Defined s := hsep
    obtain ⟨h1, h2⟩ := hasc s (List.mem_cons_self ..) hd.2
    exact ⟨⟨hd.1, h1, by omega⟩, trivial⟩
  | cons t ss ih =>
    intro s hasc hsep
    obtain ⟨hd, hfirst, hsep'⟩ := hsep
    obtain ⟨h1, h2⟩ := hasc s (List.mem_cons_self ..) hd.2
    obtain ⟨h3, h4⟩ := ih t (fun u hu => hasc u (List.mem_cons_of_mem _ hu)) hsep'
    exact ⟨⟨hd.1, h1, by omega⟩, h3, hfirst, h4⟩

theorem map_dropLast {α β : Type} (f : α → β) : ∀ l : List α, (l.map f).dropLast = l.dropLast.map f
  | [] => rfl
  | [_] => rfl
  | a :: b :: l => by
    simp only [List.map_cons, List.dropLast_cons_cons]
    exact congrArg _ (map_dropLast f (b :: l))

instance (s : Sliced) : Decidable (Sliced.WF s) := by unfold Sliced.WF; infer_instance
instance (op : Op) : Decidable (Op.OK op) := by
  cases op <;> unfold Op.OK <;> infer_instance
instance (s : Sent) : Decidable (Defined s) := by unfold Defined; infer_instance
instance decSeparable : ∀ ss : List Sent, Decidable (Separable ss)
  | [] => isTrue trivial
  | [s] => by unfold Separable; infer_instance
  | s :: t :: r => by
    unfold Separable
    exact @instDecidableAnd _ _ _ (@instDecidableAnd _ _ _ (decSeparable (t :: r)))


end Zvbi.Mux
