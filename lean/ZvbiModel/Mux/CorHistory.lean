import ZvbiModel.Mux.CorFeed
/-!
# `vbi_dvb_mux_cor` = `vbi_dvb_mux_feed` over whole histories

An application which converts every frame with the `vbi_dvb_mux_cor` loop (any positive buffer
sizes, chosen per frame) and one which uses `vbi_dvb_mux_feed` with a callback produce the same
byte stream over any history of frames (accepted or rejected) and configuration changes, and end
with the same configuration and continuity counter.  (`cor` requires a non-empty frame: with
`*sliced_left == 0` it returns FALSE by contract, whereas `feed` sends a packet of stuffing.)
-/
namespace Zvbi.Mux
open Zvbi.Mux.EnParse

/-- the callback bytes of an accepted frame: at most 356 TS packets -/
theorem feed_bytes_length_le (m : Mux) (hc : CfgOK m.cfg) (lines : List Sliced)
    (hwf : ∀ s ∈ lines, Sliced.WF s) (hnr : NoRaw lines) (mask pts : Nat)
    (hok : (feed m lines mask pts 0).2.ok = true) :
    (FeedOut.bytes (feed m lines mask pts 0).2).length ≤ 66928 := by
  obtain ⟨pes, hg, hpes, hts⟩ := feed_accepted m lines mask pts hok
  obtain ⟨_, h184, hmin, hmax, _⟩ := generatePes_ok m.cfg hc lines mask pts hwf hnr pes hg
  have hpos : 0 < pes.length := by have := hc.min184; omega
  have hM := hc.max
  by_cases hp : m.cfg.pid = 0
  · have hB : FeedOut.bytes (feed m lines mask pts 0).2 = pes := by simp [FeedOut.bytes, (hpes hp).1]
    rw [hB]; omega
  · have hB : FeedOut.bytes (feed m lines mask pts 0).2 = (tsLoop m.cfg.pid (pes.length / 184) true m.cc pes).flatten := by
      simp only [FeedOut.bytes, (hts hp).1, filterMap_id_map_some]
      rw [tsPackets_eq _ _ _ h184 hpos]
    rw [hB, tsLoop_flatten_length _ _ _ _ _ (by omega)]
    omega

/-- an application step with `vbi_dvb_mux_cor`: a frame with its buffer sizes, or a configuration change -/
def corStep (fuel : Nat) (m : Mux) : Op × List Nat → Mux × Bytes
  | (.frame lines mask pts, sizes) =>
    let r := corAll sizes lines mask pts fuel m 0 []
    (r.1, r.2.2.2.2.2)
  | (.dataId d, _) => ((setDataIdentifier m d).1, [])
  | (.size a b, _) => (setPesPacketSize m a b, [])

def corRun (fuel : Nat) (m : Mux) : List (Op × List Nat) → Mux × Bytes
  | [] => (m, [])
  | op :: ops =>
    let r1 := corStep fuel m op
    let r2 := corRun fuel r1.1 ops
    (r2.1, r1.2 ++ r2.2)

/-- frames as the `cor` API takes them: non-empty, well-formed, no raw lines; buffer sizes positive -/
def CorOpOK : Op × List Nat → Prop
  | (.frame lines _ _, sizes) =>
    lines ≠ [] ∧ (∀ s ∈ lines, Sliced.WF s) ∧ NoRaw lines ∧ sizes ≠ [] ∧ ∀ s ∈ sizes, 0 < s
  | _ => True

/-- one frame through the `cor` loop from an idle state `m1` = one `feed` call on any state `m2` with the
    same configuration and continuity counter -/
theorem corStep_frame (fuel : Nat) (hfuel : 66928 ≤ fuel) (m1 m2 : Mux) (hi : Idle m1) (hcfg : m1.cfg = m2.cfg)
    (hcc : m1.cc = m2.cc) (hc : CfgOK m2.cfg) (lines : List Sliced) (mask pts : Nat) (sizes : List Nat)
    (hok : CorOpOK (.frame lines mask pts, sizes)) :
    (corStep fuel m1 (.frame lines mask pts, sizes)).2 = FeedOut.bytes (feed m2 lines mask pts 0).2
    ∧ Idle (corStep fuel m1 (.frame lines mask pts, sizes)).1
    ∧ (corStep fuel m1 (.frame lines mask pts, sizes)).1.cfg = (feed m2 lines mask pts 0).1.cfg
    ∧ (corStep fuel m1 (.frame lines mask pts, sizes)).1.cc = (feed m2 lines mask pts 0).1.cc := by
  obtain ⟨hl, hwf, hnr, hsz, hpos⟩ := hok
  obtain ⟨e1, e2, e3⟩ := feed_congr m1 m2 hcfg hcc lines mask pts 0
  rw [← e1, ← e2, ← e3]
  have hc1 : CfgOK m1.cfg := by rw [hcfg]; exact hc
  cases hacc : (feed m1 lines mask pts 0).2.ok with
  | true =>
    have hlen := feed_bytes_length_le m1 hc1 lines hwf hnr mask pts hacc
    obtain ⟨m', calls, heq, _, _, hidle, hcfg', hcc'⟩ :=
      corAll_equals_feed m1 hi hc1 lines hl hwf hnr mask pts hacc sizes hsz hpos fuel (by omega)
    obtain ⟨_, _, hfc⟩ := ready_of_feed_ok m1 hi hc1 lines hl hwf hnr mask pts hacc
    simp only [corStep, heq]
    exact ⟨trivial, hidle, by rw [hcfg', hfc], hcc'⟩
  | false =>
    obtain ⟨fuel', rfl⟩ : ∃ f, fuel = f + 1 := ⟨fuel - 1, by omega⟩
    have hlen : 0 < sizes.length := List.length_pos_iff.2 hsz
    have hs : 0 < sizes.getD (0 % sizes.length) 0 := getD_pos sizes hpos _ (Nat.mod_lt _ hlen)
    obtain ⟨r1, r2, r3, r4, r5, r6, r7, _⟩ := cor_rejects_like_feed m1 hi lines mask pts hacc _ hs
    have hcalls : (feed m1 lines mask pts 0).2.calls = [] := (feed_rejected m1 lines mask pts hacc).1
    have hall : corAll sizes lines mask pts (fuel' + 1) m1 0 []
        = ((cor m1 (sizes.getD (0 % sizes.length) 0) lines mask pts).1, false, 1,
           (cor m1 (sizes.getD (0 % sizes.length) 0) lines mask pts).2.slicedLeft,
           (cor m1 (sizes.getD (0 % sizes.length) 0) lines mask pts).2.slicedIdx, []) := by
      rw [corAll]
      simp only [r1, r2, Bool.false_eq_true, false_and, if_false, List.append_nil, Nat.zero_add]
    simp only [corStep, hall, FeedOut.bytes, hcalls, List.filterMap_nil, List.flatten_nil]
    exact ⟨trivial, r3, by rw [r4, r6], by rw [r5, r7]⟩

/-- **whole histories.**  For every history of non-empty frames (each with its own non-empty list of
    positive buffer sizes, used cyclically) and configuration changes, the `vbi_dvb_mux_cor` application
    produces byte for byte the stream of the `vbi_dvb_mux_feed` application, accepted and rejected
    frames alike, and both end with the same configuration and continuity counter. -/
theorem cor_history_equals_feed (fuel : Nat) (hfuel : 66928 ≤ fuel) (ops : List (Op × List Nat))
    (hops : ∀ op ∈ ops, CorOpOK op) :
    ∀ m1 m2 : Mux, Idle m1 → m1.cfg = m2.cfg → m1.cc = m2.cc → CfgOK m2.cfg →
      (corRun fuel m1 ops).2 = (run m2 (ops.map Prod.fst)).2.1
      ∧ Idle (corRun fuel m1 ops).1
      ∧ (corRun fuel m1 ops).1.cfg = (run m2 (ops.map Prod.fst)).1.cfg
      ∧ (corRun fuel m1 ops).1.cc = (run m2 (ops.map Prod.fst)).1.cc := by
  induction ops with
  | nil => intro m1 m2 hi hcfg hcc _; exact ⟨rfl, hi, hcfg, hcc⟩
  | cons op ops ih =>
    intro m1 m2 hi hcfg hcc hc
    have hok := hops op (List.mem_cons_self ..)
    have ih' := ih (fun o ho => hops o (List.mem_cons_of_mem _ ho))
    obtain ⟨o, sizes⟩ := op
    have hc2 : CfgOK (step m2 o).1.cfg := (step_cfg m2 o hc).1
    have key : (corStep fuel m1 (o, sizes)).2 = (step m2 o).2.1
        ∧ Idle (corStep fuel m1 (o, sizes)).1
        ∧ (corStep fuel m1 (o, sizes)).1.cfg = (step m2 o).1.cfg
        ∧ (corStep fuel m1 (o, sizes)).1.cc = (step m2 o).1.cc := by
      cases o with
      | frame lines mask pts => exact corStep_frame fuel hfuel m1 m2 hi hcfg hcc hc lines mask pts sizes hok
      | dataId d =>
        simp only [corStep, step, setDataIdentifier]
        split
        · exact ⟨trivial, hi, by simp only [hcfg], hcc⟩
        · exact ⟨trivial, hi, hcfg, hcc⟩
      | size a b =>
        simp only [corStep, step, setPesPacketSize]
        exact ⟨trivial, hi, by simp only [hcfg], hcc⟩
    obtain ⟨k1, k2, k3, k4⟩ := key
    obtain ⟨j1, j2, j3, j4⟩ := ih' _ _ k2 k3 k4 hc2
    simp only [corRun, List.map_cons, run]
    exact ⟨by rw [k1, j1], j2, j3, j4⟩

/-! non-vacuity: two accepted frames around a rejected one and a configuration change, TS mode -/
example : ((newTs 0x123).map fun m =>
      (corRun 66928 m [(.frame corExLines 0xFFFFFFFF 5, [1, 7, 50]),
        (.frame [⟨3, 8, List.replicate 56 0x15⟩, ⟨3, 7, List.replicate 56 0x15⟩] 0xFFFFFFFF 6, [3]),
        (.dataId 0x99, []), (.frame corExLines 3 7, [188, 5])]).2)
    = (newTs 0x123).map fun m =>
      (run m [.frame corExLines 0xFFFFFFFF 5,
        .frame [⟨3, 8, List.replicate 56 0x15⟩, ⟨3, 7, List.replicate 56 0x15⟩] 0xFFFFFFFF 6,
        .dataId 0x99, .frame corExLines 3 7]).2.1 := by decide +kernel
example : ((newTs 0x123).map fun m =>
      (run m [.frame corExLines 0xFFFFFFFF 5,
        .frame [⟨3, 8, List.replicate 56 0x15⟩, ⟨3, 7, List.replicate 56 0x15⟩] 0xFFFFFFFF 6,
        .dataId 0x99, .frame corExLines 3 7]).2.1.length) = some 376 := by decide +kernel
example : CorOpOK (.frame corExLines 0xFFFFFFFF 5, [1, 7, 50]) := by
  exact ⟨by decide, corEx_wf, corEx_noraw, by decide, by decide⟩

end Zvbi.Mux
