import ZvbiModel.Mux.RawFeed
/-!
# Lemmas: `insert_raw_data_units` for ANY outcome and `vbi_dvb_multiplex_raw`

`insertRawLoop_ok` (`Mux/RawLemmas.lean`) covers the case the multiplexer object needs: stuffing mode, all samples
converted.  `vbi_dvb_multiplex_raw` is an API of its own: the caller chooses the stuffing flag, the video standard,
may pass the tail of a line (`raw_left < n_pixels_total`) and gets back what did not fit.  `insertRawLoop_segs`
describes the units written by the loop in every case through the reader of EN 301 775 4.9 (`RawSpec.unitSeg`).
-/
namespace Zvbi.Mux
open Zvbi.Mux.EnParse Zvbi.Mux.RawSpec

/-- consecutive segments of ONE raw VBI line as EN 301 775 4.9 wants them, from sample position `pos` on:
    every segment on frame line `line`, starting where the one before ended, 1..251 samples,
    first_segment_flag exactly on the segment that starts the line (`pos0`), last_segment_flag exactly on the
    segment that ends it (`pos0 + nTotal`) -/
def SegChain (line pos0 nTotal : Nat) : Nat → List Seg → Prop
  | _, [] => True
  | pos, s :: ss => s.line = line ∧ s.pos = pos ∧ 1 ≤ s.px.length ∧ s.px.length ≤ 251
      ∧ s.first = (pos == pos0) ∧ s.last = (pos + s.px.length == pos0 + nTotal)
      ∧ SegChain line pos0 nTotal (pos + s.px.length) ss

/-- the samples carried by a list of segments, in order -/
def segPx (segs : List Seg) : Bytes := (segs.map (·.px)).flatten

theorem segPx_cons (s : Seg) (ss : List Seg) : segPx (s :: ss) = s.px ++ segPx ss := rfl

/-- bytes the data units of these segments occupy: 46 each in the EN 300 472 compatible format, otherwise 6 bytes of
    header (id, length, flags / line, position [16], n_pixels) plus the samples -/
def segBytes (fixed : Bool) (segs : List Seg) : Nat :=
  if fixed then 46 * segs.length else 6 * segs.length + (segPx segs).length

/-- in the EN 300 472 compatible format a segment has at most 40 samples -/
def SegMax (fixed : Bool) (segs : List Seg) : Prop := fixed = true → ∀ s ∈ segs, s.px.length ≤ 40

/-- the loop of `insert_raw_data_units`, any stuffing flag, any amount of space: units written, their reading as
    segments, what is left -/
theorem insertRawLoop_segs (fixed stuffing par : Bool) (l nTotal pos0 : Nat) (hl7 : 7 ≤ l) (hl : l ≤ 23)
    (hend : pos0 + nTotal ≤ 720) :
    ∀ (fuel pLeft fpp lastDu : Nat) (r : Bytes) (res : RawRes),
      r.length ≤ fuel → fpp + r.length = pos0 + nTotal →
      res = insertRawLoop fixed stuffing ((if par then 0x20 else 0) + l) nTotal fuel pLeft fpp lastDu r →
      ∃ us segs,
        res.out = encUnits us
        ∧ (∀ u ∈ us, GoodItemUnit fixed u)
        ∧ unitsItems us = some (segs.map Item.seg)
        ∧ us.length = segs.length
        ∧ SegChain (if par then l else 313 + l) pos0 nTotal fpp segs
        ∧ SegMax fixed segs
        ∧ segPx segs ++ res.rest = r
        ∧ (encUnits us).length ≤ pLeft
        ∧ res.pLeft = pLeft - (encUnits us).length
        ∧ res.lastDu = (if us = [] then lastDu else lastSize us)
        ∧ (res.rest ≠ [] → pLeft - (encUnits us).length < (if fixed then 46 else 7))
        ∧ (stuffing = true → us ≠ [] → pLeft - (encUnits us).length = 1 → lastSize us ≤ 256)
        ∧ (∀ u ∈ us, u.id = 0xC6)
        ∧ (encUnits us).length = segBytes fixed segs := by
  intro fuel
  induction fuel with
  | zero =>
    intro pLeft fpp lastDu r res hfu _ hres
    have hr : r = [] := List.eq_nil_of_length_eq_zero (by omega)
    subst hr hres
    exact ⟨[], [], by simp [insertRawLoop, encUnits], by simp, rfl, rfl, trivial, (by unfold SegMax; intro _ s hs; cases hs),
      by simp [insertRawLoop, segPx], by simp [encUnits], by simp [insertRawLoop, encUnits], by simp [insertRawLoop],
      by simp [insertRawLoop], by simp, by simp, by cases fixed <;> simp [encUnits, segBytes, segPx]⟩
  | succ fuel ih =>
    intro pLeft fpp lastDu r res hfu hsum hres
    rw [insertRawLoop] at hres
    by_cases hr0 : r.length = 0
    · rw [if_pos hr0] at hres
      have hr : r = [] := List.eq_nil_of_length_eq_zero hr0
      subst hres
      exact ⟨[], [], by simp [encUnits], by simp, rfl, rfl, trivial, (by unfold SegMax; intro _ s hs; cases hs),
        by simp [segPx, hr], by simp [encUnits], by simp [encUnits], by simp, by simp [hr], by simp, by simp,
        by cases fixed <;> simp [encUnits, segBytes, segPx]⟩
    · rw [if_neg hr0] at hres
      simp only [] at hres
      by_cases hmin : (if fixed = true then 46 else 7) > pLeft
      · rw [if_pos hmin] at hres
        subst hres
        exact ⟨[], [], by simp [encUnits], by simp, rfl, rfl, trivial, (by unfold SegMax; intro _ s hs; cases hs),
          by simp [segPx], by simp [encUnits], by simp [encUnits], by simp,
          by intro _; simpa [encUnits] using hmin, by simp, by simp,
          by cases fixed <;> simp [encUnits, segBytes, segPx]⟩
      · rw [if_neg hmin] at hres
        generalize hn : (if fixed = true then min r.length (0x2C - 4)
            else if (if stuffing = true then 2 + 4 + 251 + 1 else 0) = pLeft then min r.length 250
            else min (min r.length 251) (pLeft - 6)) = n at hres
        have hn1 : 1 ≤ n := by
          rw [← hn]; cases fixed
          · simp only [Bool.false_eq_true, if_false] at hmin ⊢
            cases stuffing <;> simp only [Bool.false_eq_true, if_false, if_true] <;> split <;> omega
          · simp only [if_true]; omega
        have hnr : n ≤ r.length := by
          rw [← hn]; cases fixed
          · simp only [Bool.false_eq_true, if_false]
            cases stuffing <;> simp only [Bool.false_eq_true, if_false, if_true] <;> split <;> omega
          · simp only [if_true]; omega
        have hn251 : n ≤ 251 := by
          rw [← hn]; cases fixed
          · simp only [Bool.false_eq_true, if_false]
            cases stuffing <;> simp only [Bool.false_eq_true, if_false, if_true] <;> split <;> omega
          · simp only [if_true]; omega
        have hn40 : fixed = true → n ≤ 40 := by
          intro hf; rw [← hn, hf]; simp only [if_true]; omega
        have hdu : (if fixed = true then 46 else 6 + n) ≤ pLeft := by
          cases fixed
          · simp only [Bool.false_eq_true, if_false] at hmin hn ⊢
            rw [← hn]
            cases stuffing <;> simp only [Bool.false_eq_true, if_false, if_true] <;> split <;> omega
          · simpa using hmin
        -- a full unit is never followed by exactly one byte (stuffing mode)
        have hcrit : stuffing = true → (if fixed = true then 46 else 6 + n) = 257 → pLeft - 257 ≠ 1 := by
          intro hs h257
          cases fixed
          · simp only [Bool.false_eq_true, if_false] at h257 hn
            have : n = 251 := by omega
            rw [this, hs] at hn
            simp only [if_true] at hn
            split at hn <;> omega
          · simp at h257
        have hlen_take : (r.take n).length = n := by rw [List.length_take]; omega
        have hlen_drop : (r.drop n).length = r.length - n := List.length_drop
        obtain ⟨us, segs, h1, h2, h3, h3l, h4, h4m, h5, h6, h7, h8, h9, h10, h11, h12⟩ :=
          ih (pLeft - (if fixed = true then 46 else 6 + n)) (fpp + n) (if fixed = true then 46 else 6 + n) (r.drop n) _
            (by rw [hlen_drop]; omega) (by rw [hlen_drop]; omega) rfl
        have hfirst : (r.length == nTotal) = (fpp == pos0) := by
          rw [Bool.eq_iff_iff]; simp only [beq_iff_eq]; omega
        have hlast : (r.length == n) = (fpp + n == pos0 + nTotal) := by
          rw [Bool.eq_iff_iff]; simp only [beq_iff_eq]; omega
        have hu := rawUnit_eq fixed par l (fpp == pos0) (fpp + n == pos0 + nTotal) fpp (r.take n) hl (by omega)
          (by intro hf; rw [hlen_take]; exact hn40 hf)
        have hseg := unitSeg_rawDU fixed par (fpp == pos0) (fpp + n == pos0 + nTotal) l fpp (r.take n) hl7 hl (by omega)
          (by omega) (by rw [hlen_take]; omega)
        have hpay := rawDU_len fixed (flagByte par l (fpp == pos0) (fpp + n == pos0 + nTotal)) fpp (r.take n)
          (by intro hf; rw [hlen_take]; exact hn40 hf)
        rw [hlen_take] at hpay
        let u := rawDU fixed (flagByte par l (fpp == pos0) (fpp + n == pos0 + nTotal)) fpp (r.take n)
        let sg : Seg := ⟨fpp == pos0, fpp + n == pos0 + nTotal, if par then l else 313 + l, fpp, r.take n⟩
        have huitem : unitItem u = some (.seg sg) := by
          unfold unitItem
          have : u.id = 0xC6 := rfl
          rw [if_pos this]
          show (unitSeg (rawDU fixed _ fpp (r.take n))).map Item.seg = _
          rw [hseg]; rfl
        have hsize : (encUnits [u]).length = (if fixed = true then 46 else 6 + n) := by
          rw [encUnits_single]
          show (u.id :: u.payload.length :: u.payload).length = _
          simp only [List.length_cons]
          show (rawDU fixed _ fpp (r.take n)).payload.length + 1 + 1 = _
          rw [hpay]; cases fixed <;> simp <;> omega
        have hlastu : u.payload.length + 2 = (if fixed = true then 46 else 6 + n) := by
          show (rawDU fixed _ fpp (r.take n)).payload.length + 2 = _
          rw [hpay]; cases fixed <;> simp <;> omega
        have hlenc : (encUnits (u :: us)).length = (if fixed = true then 46 else 6 + n) + (encUnits us).length := by
          show (encUnits ([u] ++ us)).length = _
          rw [encUnits_append, List.length_append, hsize]
        subst hres
        refine ⟨u :: us, sg :: segs, ?_, ?_, ?_, ?_, ?_, ?_, ?_, ?_, ?_, ?_, ?_, ?_, ?_, ?_⟩
        · show rawUnit fixed _ (r.length == nTotal) (r.length == n) fpp (r.take n) ++ _ = _
          rw [hfirst, hlast, hu, h1]
          show encUnits [u] ++ encUnits us = encUnits ([u] ++ us)
          rw [encUnits_append]
        · intro x hx
          rcases List.mem_cons.mp hx with rfl | hx
          · refine ⟨?_, ?_, _, by simp, huitem⟩
            · rw [hlastu]; cases fixed <;> simp <;> omega
            · intro hf
              show (rawDU fixed _ fpp (r.take n)).payload.length = _
              rw [hpay, hf]; rfl
          · exact h2 x hx
        · simp only [unitsItems, huitem, h3, List.map_cons]
        · simp only [List.length_cons, h3l]
        · exact ⟨rfl, rfl, by show 1 ≤ (r.take n).length; omega, by show (r.take n).length ≤ 251; omega, rfl,
            by show _ = (fpp + (r.take n).length == pos0 + nTotal); rw [hlen_take],
            by show SegChain _ _ _ (fpp + (r.take n).length) segs; rw [hlen_take]; exact h4⟩
        · intro hf s hs
          rcases List.mem_cons.mp hs with rfl | hs
          · show (r.take n).length ≤ 40; rw [hlen_take]; exact hn40 hf
          · exact h4m hf s hs
        · rw [segPx_cons, List.append_assoc]
          show r.take n ++ (segPx segs ++ _) = r
          rw [h5, List.take_append_drop]
        · rw [hlenc]; omega
        · show (insertRawLoop fixed stuffing _ nTotal fuel _ _ _ _).pLeft = _
          rw [h7, hlenc]; omega
        · show (insertRawLoop fixed stuffing _ nTotal fuel _ _ _ _).lastDu = _
          rw [h8, lastSize_cons]
          by_cases hus : us = []
          · simp [hus, hlastu]
          · simp [hus]
        · intro hrest
          have := h9 hrest
          rw [hlenc]; omega
        · intro hs _ hone
          rw [lastSize_cons]
          rw [hlenc] at hone
          by_cases hus : us = []
          · rw [if_pos hus, hlastu]
            subst hus
            simp only [encUnits, List.length_nil, Nat.add_zero] at hone
            have h257 : (if fixed = true then 46 else 6 + n) ≤ 257 := by cases fixed <;> simp <;> omega
            by_cases he : (if fixed = true then 46 else 6 + n) = 257
            · have := hcrit hs he; omega
            · omega
          · rw [if_neg hus]
            exact h10 hs hus (by omega)
        · intro x hx
          rcases List.mem_cons.mp hx with rfl | hx
          · rfl
          · exact h11 x hx
        · rw [hlenc, h12]
          unfold segBytes
          rw [segPx_cons, List.length_append]
          show _ = if fixed = true then _ else 6 * _ + ((r.take n).length + _)
          rw [hlen_take]
          cases fixed <;> simp <;> omega

/-! ## insert_raw_data_units -/

/-- the `VBI_ERR_*` conditions of `insert_raw_data_units` (dvb_mux.c:770-800), as the API documents them -/
def RawArgsOK (r : Bytes) (videostd line fpp nTotal : Nat) : Prop :=
  (videostd = VIDEOSTD_625 ∨ videostd = VIDEOSTD_525)
  ∧ r.length ≤ nTotal ∧ fpp + nTotal ≤ 720
  ∧ (if videostd = VIDEOSTD_625 then (7 ≤ line ∧ line ≤ 23) ∨ (320 ≤ line ∧ line ≤ 336)
     else (7 ≤ line ∧ line ≤ 23) ∨ (270 ≤ line ∧ line ≤ 286))

instance (r : Bytes) (videostd line fpp nTotal : Nat) : Decidable (RawArgsOK r videostd line fpp nTotal) := by
  unfold RawArgsOK; infer_instance

/-- frame line the reader is to see: `line_offset` on the first field, `313 + line_offset` on the second, where
    the second field starts at line 313 (625-line systems) or 263 (525-line systems) for the sender -/
def readerLine (videostd line : Nat) : Nat :=
  let f2 := if videostd = VIDEOSTD_625 then 313 else 263
  if line ≥ f2 then 313 + (line - f2) else line

theorem insertRaw_spec (pLeft : Nat) (r : Bytes) (fixed : Bool) (videostd line fpp nTotal : Nat) (stuffing : Bool)
    (hv : videostd < 4) (hfpp : fpp < 2 ^ 32) (hnt : nTotal < 2 ^ 32) (hline : line < 2 ^ 32) :
    (¬ RawArgsOK r videostd line fpp nTotal → ∃ e, insertRaw pLeft r fixed videostd line fpp nTotal stuffing = .error e)
    ∧ (RawArgsOK r videostd line fpp nTotal →
        ∃ res us segs, insertRaw pLeft r fixed videostd line fpp nTotal stuffing = .ok res
          ∧ res.out = encUnits us
          ∧ (∀ u ∈ us, GoodItemUnit fixed u)
          ∧ unitsItems us = some (segs.map Item.seg)
          ∧ us.length = segs.length
          ∧ SegChain (readerLine videostd line) fpp nTotal (fpp + (nTotal - r.length)) segs
          ∧ SegMax fixed segs
          ∧ segPx segs ++ res.rest = r
          ∧ (encUnits us).length ≤ pLeft
          ∧ res.pLeft = pLeft - (encUnits us).length
          ∧ res.lastDu = (if us = [] then 0 else lastSize us)
          ∧ (res.rest ≠ [] → pLeft - (encUnits us).length < (if fixed then 46 else 7))
          ∧ (stuffing = true → us ≠ [] → pLeft - (encUnits us).length = 1 → lastSize us ≤ 256)
          ∧ (∀ u ∈ us, u.id = 0xC6)
          ∧ (encUnits us).length = segBytes fixed segs) := by
  have hvs : videostd = 0 ∨ videostd = 1 ∨ videostd = 2 ∨ videostd = 3 := by omega
  constructor
  · intro hbad
    unfold RawArgsOK at hbad
    unfold insertRaw
    rcases hvs with rfl | rfl | rfl | rfl
    · exact ⟨_, rfl⟩
    · simp only [VIDEOSTD_625, VIDEOSTD_525] at hbad ⊢
      simp only [show (1 &&& 2 ≠ 0) = False by decide, show (1 &&& 1 ≠ 0) = True by decide, if_false, if_true]
      by_cases hA : r.length > nTotal ∨ (fpp + nTotal) % 2 ^ 32 > 720 ∨ (fpp + nTotal) % 2 ^ 32 < nTotal
      · rw [if_pos hA]; exact ⟨_, rfl⟩
      · rw [if_neg hA]
        have hA' : r.length ≤ nTotal ∧ fpp + nTotal ≤ 720 := by
          by_cases hw : fpp + nTotal < 2 ^ 32
          · rw [Nat.mod_eq_of_lt hw] at hA; omega
          · exfalso; apply hA; right; right
            have : (fpp + nTotal) % 2 ^ 32 = fpp + nTotal - 2 ^ 32 := by omega
            omega
        by_cases hl : line ≥ 313
        · simp only [hl, if_true]
          by_cases hB : (line - 313 + 2 ^ 32 - 7) % 2 ^ 32 > 16
          · rw [if_pos hB]; exact ⟨_, rfl⟩
          · exfalso; apply hbad
            refine ⟨by simp, hA'.1, hA'.2, ?_⟩
            simp only [if_true]
            omega
        · simp only [hl, if_false]
          by_cases hB : (line + 2 ^ 32 - 7) % 2 ^ 32 > 16
          · rw [if_pos hB]; exact ⟨_, rfl⟩
          · exfalso; apply hbad
            refine ⟨by simp, hA'.1, hA'.2, ?_⟩
            simp only [if_true]
            omega
    · simp only [VIDEOSTD_625, VIDEOSTD_525] at hbad ⊢
      simp only [show (2 &&& 2 ≠ 0) = True by decide, show (2 &&& 1 ≠ 0) = False by decide, if_false, if_true]
      by_cases hA : r.length > nTotal ∨ (fpp + nTotal) % 2 ^ 32 > 720 ∨ (fpp + nTotal) % 2 ^ 32 < nTotal
      · rw [if_pos hA]; exact ⟨_, rfl⟩
      · rw [if_neg hA]
        have hA' : r.length ≤ nTotal ∧ fpp + nTotal ≤ 720 := by
          by_cases hw : fpp + nTotal < 2 ^ 32
          · rw [Nat.mod_eq_of_lt hw] at hA; omega
          · exfalso; apply hA; right; right
            have : (fpp + nTotal) % 2 ^ 32 = fpp + nTotal - 2 ^ 32 := by omega
            omega
        by_cases hl : line ≥ 263
        · simp only [hl, if_true]
          by_cases hB : (line - 263 + 2 ^ 32 - 7) % 2 ^ 32 > 16
          · rw [if_pos hB]; exact ⟨_, rfl⟩
          · exfalso; apply hbad
            refine ⟨by simp, hA'.1, hA'.2, ?_⟩
            simp only [show (2 : Nat) = 1 ↔ False by decide, if_false]
            omega
        · simp only [hl, if_false]
          by_cases hB : (line + 2 ^ 32 - 7) % 2 ^ 32 > 16
          · rw [if_pos hB]; exact ⟨_, rfl⟩
          · exfalso; apply hbad
            refine ⟨by simp, hA'.1, hA'.2, ?_⟩
            simp only [show (2 : Nat) = 1 ↔ False by decide, if_false]
            omega
    · exact ⟨_, rfl⟩
  · intro hok
    obtain ⟨hstd, hrl, hend, hlr⟩ := hok
    have hA : ¬ (r.length > nTotal ∨ (fpp + nTotal) % 2 ^ 32 > 720 ∨ (fpp + nTotal) % 2 ^ 32 < nTotal) := by
      rw [Nat.mod_eq_of_lt (by omega)]; omega
    have hfp : (fpp + (nTotal - r.length)) % 2 ^ 32 = fpp + (nTotal - r.length) := Nat.mod_eq_of_lt (by omega)
    unfold insertRaw
    rcases hstd with rfl | rfl
    · simp only [VIDEOSTD_625, VIDEOSTD_525] at hlr ⊢
      simp only [show (1 &&& 2 ≠ 0) = False by decide, show (1 &&& 1 ≠ 0) = True by decide, if_false, if_true] at hlr ⊢
      rw [if_neg hA, hfp]
      by_cases hl : line ≥ 313
      · simp only [hl, if_true]
        rw [if_neg (by omega)]
        obtain ⟨us, segs, h⟩ := insertRawLoop_segs fixed stuffing false (line - 313) nTotal fpp (by omega) (by omega) hend
          r.length pLeft (fpp + (nTotal - r.length)) 0 r _ (Nat.le_refl _) (by omega) rfl
        refine ⟨_, us, segs, rfl, ?_⟩
        · have hrl' : readerLine 1 line = 313 + (line - 313) := by simp [readerLine, VIDEOSTD_625, hl]
          rw [hrl']
          simpa using h
      · simp only [hl, if_false]
        rw [if_neg (by omega)]
        obtain ⟨us, segs, h⟩ := insertRawLoop_segs fixed stuffing true line nTotal fpp (by omega) (by omega) hend
          r.length pLeft (fpp + (nTotal - r.length)) 0 r _ (Nat.le_refl _) (by omega) rfl
        refine ⟨_, us, segs, rfl, ?_⟩
        · have hrl' : readerLine 1 line = line := by simp [readerLine, VIDEOSTD_625, hl]
          rw [hrl']
          simpa using h
    · simp only [VIDEOSTD_625, VIDEOSTD_525] at hlr ⊢
      simp only [show (2 &&& 2 ≠ 0) = True by decide, show (2 &&& 1 ≠ 0) = False by decide,
        show ((2 : Nat) = 1) = False by decide, if_false, if_true] at hlr ⊢
      rw [if_neg hA, hfp]
      by_cases hl : line ≥ 263
      · simp only [hl, if_true]
        rw [if_neg (by omega)]
        obtain ⟨us, segs, h⟩ := insertRawLoop_segs fixed stuffing false (line - 263) nTotal fpp (by omega) (by omega) hend
          r.length pLeft (fpp + (nTotal - r.length)) 0 r _ (Nat.le_refl _) (by omega) rfl
        refine ⟨_, us, segs, rfl, ?_⟩
        · have hrl' : readerLine 2 line = 313 + (line - 263) := by simp [readerLine, VIDEOSTD_625, hl]
          rw [hrl']
          simpa using h
      · simp only [hl, if_false]
        rw [if_neg (by omega)]
        obtain ⟨us, segs, h⟩ := insertRawLoop_segs fixed stuffing true line nTotal fpp (by omega) (by omega) hend
          r.length pLeft (fpp + (nTotal - r.length)) 0 r _ (Nat.le_refl _) (by omega) rfl
        refine ⟨_, us, segs, rfl, ?_⟩
        · have hrl' : readerLine 2 line = line := by simp [readerLine, VIDEOSTD_625, hl]
          rw [hrl']
          simpa using h

/-! ## vbi_dvb_multiplex_raw -/

theorem length_padLast : ∀ us : List DataUnit, (padLast us).length = us.length
  | [] => rfl
  | [_] => rfl
  | _ :: b :: c => by simp only [padLast, List.length_cons, length_padLast (b :: c)]


/-- the conditions under which `vbi_dvb_multiplex_raw` is documented to succeed: at least two bytes of space (a multiple
    of 46 in the EN 300 472 compatible format), samples to convert, and the arguments `insert_raw_data_units` admits -/
def MrArgsOK (packetLeft : Nat) (r : Bytes) (dataId videostd line fpp nTotal : Nat) : Prop :=
  2 ≤ packetLeft ∧ (fixedLengthFormat dataId = true → packetLeft % 46 = 0) ∧ r ≠ []
  ∧ RawArgsOK r videostd line fpp nTotal

instance (packetLeft : Nat) (r : Bytes) (dataId videostd line fpp nTotal : Nat) :
    Decidable (MrArgsOK packetLeft r dataId videostd line fpp nTotal) := by unfold MrArgsOK; infer_instance

theorem multiplexRaw_fail (packetLeft : Nat) (r : Bytes) (dataId videostd line fpp nTotal : Nat) (stuffing : Bool)
    (hv : videostd < 4) (hfpp : fpp < 2 ^ 32) (hnt : nTotal < 2 ^ 32) (hline : line < 2 ^ 32)
    (h : ¬ MrArgsOK packetLeft r dataId videostd line fpp nTotal) :
    multiplexRaw packetLeft r dataId videostd line fpp nTotal stuffing
      = .ok { ok := false, out := [], packetLeft, rawLeft := r.length } := by
  unfold MrArgsOK at h
  unfold multiplexRaw
  simp only []
  by_cases h1 : packetLeft < 2
  · rw [if_pos h1]
  · rw [if_neg h1]
    by_cases h2 : fixedLengthFormat dataId = true ∧ packetLeft % 46 > 0
    · rw [if_pos h2]
    · rw [if_neg h2]
      by_cases h3 : r.length = 0
      · rw [if_pos h3]
      · rw [if_neg h3]
        have hbad : ¬ RawArgsOK r videostd line fpp nTotal := by
          intro hok
          apply h
          refine ⟨by omega, ?_, ?_, hok⟩
          · intro hf
            by_cases h0 : packetLeft % 46 = 0
            · exact h0
            · exact absurd ⟨hf, by omega⟩ h2
          · intro hr; rw [hr] at h3; exact h3 rfl
        obtain ⟨e, he⟩ := (insertRaw_spec packetLeft r (fixedLengthFormat dataId) videostd line fpp nTotal stuffing
          hv hfpp hnt hline).1 hbad
        rw [he]

theorem multiplexRaw_ok (packetLeft : Nat) (r : Bytes) (dataId videostd line fpp nTotal : Nat) (stuffing : Bool)
    (hv : videostd < 4) (hfpp : fpp < 2 ^ 32) (hnt : nTotal < 2 ^ 32) (hline : line < 2 ^ 32)
    (h : MrArgsOK packetLeft r dataId videostd line fpp nTotal) :
    ∃ res us segs k, multiplexRaw packetLeft r dataId videostd line fpp nTotal stuffing = .ok res
      ∧ res.ok = true
      ∧ parseUnits res.out = some us
      ∧ unitsItems us = some (segs.map Item.seg ++ List.replicate k Item.stuffing)
      ∧ us.length = segs.length + k
      ∧ SegChain (readerLine videostd line) fpp nTotal (fpp + (nTotal - r.length)) segs
      ∧ SegMax (fixedLengthFormat dataId) segs
      ∧ res.rawLeft ≤ r.length ∧ segPx segs = r.take (r.length - res.rawLeft)
      ∧ res.out.length + res.packetLeft = packetLeft
      ∧ (stuffing = true → res.packetLeft = 0)
      ∧ (stuffing = false → k = 0)
      ∧ segBytes (fixedLengthFormat dataId) segs ≤ packetLeft
      ∧ (res.rawLeft ≠ 0 →
          packetLeft - segBytes (fixedLengthFormat dataId) segs < (if fixedLengthFormat dataId then 46 else 7))
      ∧ (stuffing = false → res.out.length = segBytes (fixedLengthFormat dataId) segs)
      ∧ (∀ u ∈ us, (u.id ≠ 0xFF → u.payload.length ≤ 255) ∧ (fixedLengthFormat dataId = true → u.payload.length = 0x2C)) := by
  obtain ⟨h2, hfx, hrne, hargs⟩ := h
  obtain ⟨res, us, segs, hins, hout, hgood, hitems, hlen, hchain, hmax, hpx, hle, hpl, hld, hstop, hone, hid, hbytes⟩ :=
    (insertRaw_spec packetLeft r (fixedLengthFormat dataId) videostd line fpp nTotal stuffing hv hfpp hnt hline).2 hargs
  have hr0 : ¬ r.length = 0 := fun h0 => hrne (List.eq_nil_of_length_eq_zero h0)
  have hrest : res.rest.length ≤ r.length := by
    rw [← hpx, List.length_append]; omega
  have hpxt : segPx segs = r.take (r.length - res.rest.length) := by
    have hl : (segPx segs).length = r.length - res.rest.length := by
      have := congrArg List.length hpx
      rw [List.length_append] at this; omega
    rw [← hl]
    conv => rhs; rw [← hpx]
    rw [List.take_left']
    rfl
  have hlast : res.lastDu = lastSize us := by
    rw [hld]; split
    · rename_i hus; rw [hus]; rfl
    · rfl
  have hfixlen : fixedLengthFormat dataId = true → (encUnits us).length % 46 = 0 :=
    fun hf => length_encUnits_fixed us (fun u hu => (hgood u hu).2.1 hf)
  have hu255 : ∀ u ∈ us, u.payload.length ≤ 255 ∧ (fixedLengthFormat dataId = true → u.payload.length = 0x2C) :=
    fun u hu => ⟨by have := (hgood u hu).1; omega, (hgood u hu).2.1⟩
  unfold multiplexRaw
  simp only []
  rw [if_neg (by omega), if_neg (by intro hh; have := hfx hh.1; omega), if_neg hr0, hins]
  simp only []
  cases stuffing with
  | false =>
    refine ⟨_, us, segs, 0, rfl, rfl, ?_, ?_, by simpa using hlen, hchain, hmax, hrest, hpxt, ?_, by simp, by simp,
      by rw [← hbytes]; exact hle, ?_, ?_, fun u hu => ⟨fun _ => (hu255 u hu).1, (hu255 u hu).2⟩⟩
    · show parseUnits res.out = _
      rw [hout]; exact parseUnits_encUnits us
    · simpa using hitems
    · show res.out.length + (packetLeft - res.out.length) = packetLeft
      rw [hout]; omega
    · intro hne
      have hrn : res.rest ≠ [] := by intro hh; apply hne; show res.rest.length = 0; rw [hh]; rfl
      rw [← hbytes]; exact hstop hrn
    · intro _; show res.out.length = _; rw [hout, hbytes]
  | true =>
    have hstf := encodeStuffing_spec us (packetLeft - (encUnits us).length) (fixedLengthFormat dataId)
      (by intro hf; have := hfixlen hf; have := hfx hf; omega)
      (by
        intro _ h1
        by_cases hus : us = []
        · rw [hus] at h1; simp [encUnits] at h1; omega
        · exact ⟨hus, hone rfl hus h1⟩)
    obtain ⟨us₁, st, hst, hstlen, hus1, hstuff⟩ := hstf
    rw [hout, hlast, hst]
    have hit1 : unitsItems us₁ = some (segs.map Item.seg) := by
      rcases hus1 with rfl | ⟨_, rfl⟩
      · exact hitems
      · exact unitsItems_padLast _ us _ hgood hitems
    have hl1 : us₁.length = us.length := by
      rcases hus1 with rfl | ⟨_, rfl⟩
      · rfl
      · exact length_padLast us
    refine ⟨_, us₁ ++ st, segs, st.length, rfl, rfl, parseUnits_encUnits _, ?_, ?_, hchain, hmax, hrest, hpxt, ?_,
      fun _ => rfl, (by intro hh; cases hh), by rw [← hbytes]; exact hle, ?_, (by intro hh; cases hh), ?_⟩
    · exact unitsItems_append us₁ st _ _ hit1 (unitsItems_stuffing _ st hstuff)
    · rw [List.length_append, hl1, hlen]
    · show (encUnits (us₁ ++ st)).length + 0 = packetLeft
      rw [hstlen]; omega
    · intro hne
      have hrn : res.rest ≠ [] := by intro hh; apply hne; show res.rest.length = 0; rw [hh]; rfl
      rw [← hbytes]; exact hstop hrn
    · intro u hu
      rcases List.mem_append.mp hu with hu | hu
      · rcases hus1 with rfl | ⟨h1, rfl⟩
        · exact ⟨fun _ => (hu255 u hu).1, (hu255 u hu).2⟩
        · have hnf : fixedLengthFormat dataId = false := by
            cases hf : fixedLengthFormat dataId
            · rfl
            · have := hfixlen hf; have := hfx hf; omega
          have hus : us ≠ [] := by
            intro hus; rw [hus] at h1; simp [encUnits] at h1; omega
          have h256 := hone rfl hus h1
          obtain ⟨init, w, rfl⟩ := exists_concat us hus
          rw [padLast_concat] at hu
          rw [lastSize_concat] at h256
          rcases List.mem_append.mp hu with hu | hu
          · exact ⟨fun _ => (hu255 u (List.mem_append_left _ hu)).1, (hu255 u (List.mem_append_left _ hu)).2⟩
          · rw [List.mem_singleton] at hu
            rw [hu, hnf]
            simp only [List.length_append, List.length_cons, List.length_nil]
            exact ⟨fun _ => by omega, by intro hh; cases hh⟩
      · have hs := hstuff u hu
        exact ⟨fun hid => absurd hs.1 hid, hs.2.2⟩

/-! ## the reader reassembles a complete chain -/

theorem segChain_px_pos (L pos0 nT : Nat) : ∀ (segs : List Seg) (pos : Nat), SegChain L pos0 nT pos segs → segs ≠ [] →
    1 ≤ (segPx segs).length := by
  intro segs pos h hne
  cases segs with
  | nil => exact absurd rfl hne
  | cons s ss =>
    obtain ⟨_, _, h1, _⟩ := h
    rw [segPx_cons, List.length_append]; omega

/-- a chain of segments that covers a whole line is what the reader `RawSpec.assembleGo` reassembles to that line -/
theorem assembleGo_chain (L pos0 nT : Nat) : ∀ (segs : List Seg) (pos : Nat) (pre : Bytes) (tail : List Item),
    SegChain L pos0 nT pos segs → pos = pos0 + pre.length → pos + (segPx segs).length = pos0 + nT → segs ≠ [] →
    assembleGo (curOf L pos0 pre) (segs.map Item.seg ++ tail)
      = (assembleGo none tail).map (Out.raw ⟨L, pos0, pre ++ segPx segs⟩ :: ·) := by
  intro segs
  induction segs with
  | nil => intro _ _ _ _ _ _ hne; exact absurd rfl hne
  | cons s ss ih =>
    intro pos pre tail hch hpos htot _
    obtain ⟨hL, hp, h1, _, hf, hlast, hrest⟩ := hch
    have hfirst : s.first = (pre.length == 0) := by
      rw [hf, Bool.eq_iff_iff]; simp only [beq_iff_eq]; omega
    have hs : s = ⟨pre.length == 0, s.last, L, pos, s.px⟩ := by
      cases s; simp only [Seg.mk.injEq] at *; exact ⟨hfirst, trivial, hL, hp, trivial⟩
    have hpx : s.px ≠ [] := by
      intro h; rw [h] at h1; simp at h1
    rw [List.map_cons, List.cons_append, hs, assembleGo_seg L pos0 pos pre s.px s.last _ hpos hpx]
    rw [segPx_cons, List.length_append] at htot
    cases hl : s.last with
    | true =>
      have : pos + s.px.length = pos0 + nT := by
        have := hlast; rw [hl] at this; simpa using this.symm
      have hss : ss = [] := by
        by_cases hss : ss = []
        · exact hss
        · have := segChain_px_pos L pos0 nT ss _ hrest hss; omega
      subst hss
      simp [segPx]
    | false =>
      have hne : pos + s.px.length ≠ pos0 + nT := by
        have := hlast; rw [hl] at this
        intro h; rw [h] at this; simp at this
      have hss : ss ≠ [] := by
        intro hss; subst hss; simp [segPx] at htot; omega
      simp only [Bool.false_eq_true, if_false]
      rw [ih (pos + s.px.length) (pre ++ s.px) tail hrest (by rw [List.length_append]; omega) (by omega) hss,
        segPx_cons, List.append_assoc]

end Zvbi.Mux
