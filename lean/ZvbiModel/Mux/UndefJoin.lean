import ZvbiModel.Mux.UndefDemux
import ZvbiModel.Mux.JoinFrames
import ZvbiModel.Demux.JoinPacket
/-!
# Joining the multiplexer's packet with `extract_data_units` for frames with undefined line numbers (C06 round 6)

Multiplexer side: the defined line numbers of an accepted frame ascend, undefined ones skipped (`DefAsc`,
`insertSliced_defasc`, `generatePes_defasc`); together with `FieldsAscend` (`Mux/UndefField.lean`) this gives `ContUnits`
(`contUnits_of_fields`), the hypothesis of `Demux.extractLoop_stores_cont`.  Core Lean only.
-/
namespace Zvbi.Mux
open Zvbi.Mux.EnParse
open Zvbi.C06UD (ContUnits undefField)

/-- defined line numbers strictly ascending from `x`, lines with the undefined line number 0 skipped -/
def DefAsc : Nat → List Line → Prop
  | _, [] => True
  | x, l :: ls => if l.line = 0 then DefAsc x ls else x < l.line ∧ DefAsc l.line ls

instance decDefAsc : (x : Nat) → (ls : List Line) → Decidable (DefAsc x ls)
  | _, [] => isTrue trivial
  | x, l :: ls => by
    unfold DefAsc
    by_cases h : l.line = 0
    · rw [if_pos h]; exact decDefAsc x ls
    · rw [if_neg h]; have := decDefAsc l.line ls; exact inferInstance

/-- the line order check of `insert_sliced_data_units` with undefined lines in the frame -/
theorem insertSliced_defasc (mask : Nat) (fixed : Bool) (lines : List Sliced) (hwf : ∀ s ∈ lines, Sliced.WF s) :
    ∀ pLeft lastLine lastDu,
      (insertSliced mask fixed pLeft lastLine lastDu lines).err = none →
      (insertSliced mask fixed pLeft lastLine lastDu lines).rest = [] →
      DefAsc lastLine (sent mask lines) := by
  induction lines with
  | nil => intro _ _ _ _ _; simp [sent, DefAsc]
  | cons s rest ih =>
    have hwf' : ∀ s ∈ rest, Sliced.WF s := fun x hx => hwf x (List.mem_cons_of_mem _ hx)
    have hs : Sliced.WF s := hwf s (List.mem_cons_self ..)
    intro pLeft lastLine lastDu
    rw [insertSliced]
    by_cases hm : s.id &&& mask = 0
    · rw [if_pos hm, sent_cons_masked mask s rest hm]
      exact ih hwf' pLeft lastLine lastDu
    · rw [if_neg hm]
      by_cases ho : s.line > 0 ∧ s.line ≤ lastLine
      · rw [if_pos ho]; intro he; simp at he
      · rw [if_neg ho]
        simp only []
        cases hd : duSizeOf s.id s.line with
        | error e => simp only []; intro he; simp at he
        | ok du0 =>
          simp only []
          by_cases hfit : (if fixed = true then 46 else du0) > pLeft
          · rw [if_pos hfit]; intro _ hr; simp at hr
          · rw [if_neg hfit]
            cases hl : lofpOf s.line (if s.line > 0 then s.line else lastLine) with
            | error e => simp only []; intro he; simp at he
            | ok lofp =>
              simp only []
              obtain ⟨u, l, hb, hc, _, _, _, _⟩ := line_unit s hs fixed _ du0 lofp hd hl
              rw [hb]
              simp only []
              intro he hr
              rw [sent_cons_kept mask s rest l hm hc]
              have hll := canon_line s l hc
              have := ih hwf' _ _ _ he hr
              unfold DefAsc
              by_cases hz : l.line = 0
              · rw [if_pos hz]
                have hs0 : ¬ s.line > 0 := by omega
                rw [if_neg hs0] at this
                exact this
              · rw [if_neg hz]
                have hpos : s.line > 0 := by omega
                rw [if_pos hpos] at this
                exact ⟨by omega, by rw [hll]; exact this⟩

/-- an accepted frame without raw line requests: its defined line numbers ascend strictly -/
theorem generatePes_defasc (cfg : Cfg) (lines : List Sliced) (mask pts : Nat)
    (hwf : ∀ s ∈ lines, Sliced.WF s) (hnr : NoRaw lines) (pes : Bytes)
    (hg : generatePes cfg lines mask pts = .ok (pes, [])) : DefAsc 0 (sent mask lines) := by
  unfold generatePes at hg
  simp only [] at hg
  cases hgl : genLoop mask (fixedLengthFormat cfg.dataId) (lines.length + 1) (cfg.maxSize - 46) 0 lines with
  | error e => rw [hgl] at hg; simp at hg
  | ok r =>
    obtain ⟨out, lastDu, left⟩ := r
    rw [hgl] at hg
    simp only [] at hg
    split at hg
    · cases hg
    · simp only [Except.ok.injEq, Prod.mk.injEq] at hg
      obtain ⟨_, hleft⟩ := hg
      subst hleft
      obtain ⟨he, hr, _, _⟩ := genLoop_noraw mask _ _ _ lines hnr out lastDu hgl
      exact insertSliced_defasc mask _ lines hwf _ 0 0 he hr

/-- the reader's line number of a line unit comes from its first payload byte (reserved / field_parity / line_offset) -/
theorem unitLine_lofp (u : DataUnit) (l : Line) (hu : unitLine u = some (some l)) :
    lofpLine (u.payload.getD 0 0) = some l.line := by
  obtain ⟨id, p⟩ := u
  unfold unitLine at hu
  simp only at hu ⊢
  split at hu
  · split at hu <;> cases hu
  · split at hu
    · split at hu
      · cases hu
      · split at hu
        · cases hu
        · rename_i lv hlv
          split at hu
          · cases hu
          · simp only [Option.some.injEq] at hu
            subst hu
            exact hlv
    · split at hu
      · split at hu
        · cases hu
        · split at hu
          · cases hu
          · rename_i hlv
            simp only [Option.some.injEq] at hu
            subst hu
            simpa using hlv
      · split at hu
        · split at hu
          · cases hu
          · split at hu
            · cases hu
            · rename_i hlv
              simp only [Option.some.injEq] at hu
              subst hu
              simpa using hlv
        · split at hu
          · split at hu
            · cases hu
            · split at hu
              · cases hu
              · rename_i hlv
                simp only [Option.some.injEq] at hu
                subst hu
                simpa using hlv
          · cases hu

/-- a defined line number lies in the first field exactly when the field_parity bit is set -/
theorem lofpLine_field (lofp l : Nat) (h : lofpLine lofp = some l) (h0 : l ≠ 0) : (lofp / 32 % 2 = 1 ↔ l < 313) := by
  unfold lofpLine at h
  split at h
  · cases h
  · simp only [] at h
    split at h
    · simp only [Option.some.injEq] at h; omega
    · split at h
      · simp only [Option.some.injEq] at h
        rename_i hb
        constructor
        · intro _; omega
        · intro _; exact hb
      · simp only [Option.some.injEq] at h
        rename_i hb
        constructor
        · intro hx; exact absurd hx hb
        · intro _; omega

/-- line units whose defined line numbers ascend and whose field parities never go back continue the frame in the sense
of the demultiplexer's `line_address`: `sec` = a second-field unit was seen = `last_field` is 1; an undefined line at the
very start of the packet is allowed only with the field of the frame so far (`st = true ∨` the first line is defined) -/
theorem contUnits_of_fields : ∀ (us : List DataUnit) (ls : List Line) (st sec : Bool) (ll : Nat),
    unitsLines us = some ls → DefAsc ll ls → FieldsAscend sec us → (∀ u ∈ us, u.id ≠ 0xFF) →
    (st = true ∨ ∀ l ∈ ls.head?, l.line ≠ 0) →
    ContUnits st ll (if sec = true then 1 else 0) us := by
  intro us
  induction us with
  | nil => intro _ _ _ _ _ _ _ _ _; trivial
  | cons u us ih =>
    intro ls st sec ll hul hasc hfa hids hst
    have hids' : ∀ x ∈ us, x.id ≠ 0xFF := fun x hx => hids x (List.mem_cons_of_mem _ hx)
    unfold ContUnits
    simp only [unitsLines] at hul
    obtain ⟨hf1, hf2⟩ := hfa
    cases hu : unitLine u with
    | none => rw [hu] at hul; simp at hul
    | some o =>
      cases hrest : unitsLines us with
      | none => rw [hu, hrest] at hul; cases o <;> simp at hul
      | some ls' =>
        rw [hu, hrest] at hul
        cases o with
        | none =>
          exfalso
          have hid : u.id = 0xFF := by
            unfold unitLine at hu
            simp only at hu
            repeat' split at hu
            all_goals first
              | assumption
              | cases hu
          exact hids u (List.mem_cons_self ..) hid
        | some l =>
          simp only [Option.some.injEq] at hul
          subst hul
          simp only []
          unfold DefAsc at hasc
          have hlofp := unitLine_lofp u l hu
          have hff : unitFirstField u = true ↔ u.payload.getD 0 0 / 32 % 2 = 1 := by
            unfold unitFirstField; exact beq_iff_eq
          by_cases h0 : l.line ≠ 0
          · rw [if_pos h0]
            rw [if_neg h0] at hasc
            have hfl : unitFirstField u = true ↔ l.line < 313 := hff.trans (lofpLine_field _ _ hlofp h0)
            generalize unitFirstField u = ff at hf1 hf2 hfl
            refine ⟨hasc.1, ?_⟩
            have hcu := ih ls' true (sec || !ff) l.line hrest hasc.2 hf2 hids' (Or.inl rfl)
            have he : (if (sec || !ff) = true then 1 else 0) = (if l.line < 313 then 0 else 1) := by
              by_cases hlt : l.line < 313
              · have h1 : ff = true := hfl.mpr hlt
                subst h1
                have h2 : sec = false := by
                  cases sec
                  · rfl
                  · exact absurd (hf1 rfl) (by decide)
                subst h2
                simp [hlt]
              · have h1 : ff = false := by
                  cases ff
                  · rfl
                  · exact absurd (hfl.mp rfl) hlt
                subst h1
                simp [hlt]
            rw [he] at hcu
            exact hcu
          · rw [if_neg h0]
            have h0' : l.line = 0 := by omega
            rw [if_pos h0'] at hasc
            have hstt : st = true := by
              rcases hst with h | h
              · exact h
              · exact absurd h0' (h l (by simp))
            have hue : undefField (u.payload.getD 0 0) = if unitFirstField u = true then 0 else 1 := by
              unfold undefField
              by_cases hb : u.payload.getD 0 0 / 32 % 2 = 1
              · rw [if_pos hb, if_pos (hff.mpr hb)]
              · rw [if_neg hb, if_neg (fun h => hb (hff.mp h))]
            rw [hue]
            generalize unitFirstField u = ff at hf1 hf2
            have hcu := ih ls' true (sec || !ff) ll hrest hasc hf2 hids' (Or.inl rfl)
            subst hstt
            cases ff <;> cases sec <;> simp_all

theorem contUnits_append_stuffing (fixed : Bool) : ∀ (us stf : List DataUnit) (st : Bool) (ll lf : Nat),
    ContUnits st ll lf us → (∀ u ∈ stf, IsStuffing fixed u) → ContUnits st ll lf (us ++ stf) := by
  intro us
  induction us with
  | nil =>
    intro stf
    induction stf with
    | nil => intro _ _ _ _ _; trivial
    | cons u stf ih =>
      intro st ll lf _ hs
      have hu := hs u (List.mem_cons_self ..)
      have hul : unitLine u = some none := by unfold unitLine; simp [hu.1, hu.2.1]
      simp only [List.nil_append]
      unfold ContUnits
      rw [hul]
      simp only []
      have := ih st ll lf trivial (fun x hx => hs x (List.mem_cons_of_mem _ hx))
      simpa using this
  | cons u us ih =>
    intro stf st ll lf hc hs
    simp only [List.cons_append]
    unfold ContUnits at hc ⊢
    cases hu : unitLine u with
    | none => rw [hu] at hc; simp only [] at hc ⊢; exact ih stf st ll lf hc hs
    | some o =>
      rw [hu] at hc
      cases o with
      | none => simp only [] at hc ⊢; exact ih stf st ll lf hc hs
      | some l =>
        simp only [] at hc ⊢
        by_cases h0 : l.line ≠ 0
        · rw [if_pos h0] at hc ⊢; exact ⟨hc.1, ih stf _ _ _ hc.2 hs⟩
        · rw [if_neg h0] at hc ⊢; exact ⟨hc.1, ih stf _ _ _ hc.2 hs⟩

theorem head_line_unit (us : List DataUnit) (l : Line) (ls : List Line) (hul : unitsLines us = some (l :: ls))
    (hids : ∀ u ∈ us, u.id ≠ 0xFF) : ∃ u us', us = u :: us' ∧ unitLine u = some (some l) := by
  cases us with
  | nil => simp [unitsLines] at hul
  | cons u us' =>
    refine ⟨u, us', rfl, ?_⟩
    simp only [unitsLines] at hul
    cases hu : unitLine u with
    | none => rw [hu] at hul; simp at hul
    | some o =>
      cases hrest : unitsLines us' with
      | none => rw [hu, hrest] at hul; cases o <;> simp at hul
      | some ls' =>
        rw [hu, hrest] at hul
        cases o with
        | none =>
          exfalso
          have hid : u.id = 0xFF := by
            unfold unitLine at hu
            simp only at hu
            repeat' split at hu
            all_goals first
              | assumption
              | cases hu
          exact hids u (List.mem_cons_self ..) hid
        | some l' =>
          simp only [Option.some.injEq, List.cons.injEq] at hul
          rw [hul.1]

end Zvbi.Mux
