import ZvbiModel.Mux.RawAbort
/-!
# Lemmas: the converse direction with raw lines - every ordered, permitted, fitting frame is accepted
(repaired shape of `generate_pes_packet`)
-/
namespace Zvbi.Mux
open Zvbi.Mux.EnParse Zvbi.Mux.RawSpec

/-- bytes the data units of one raw line of `n` samples take: units of up to 251 samples with 6
    header bytes, or 46-byte units of up to 40 samples in the EN 300 472 compatible format -/
def rawSize (fixed : Bool) (n : Nat) : Nat :=
  if fixed then 46 * ((n + 39) / 40) else n + 6 * ((n + 250) / 251)

/-- bytes the selected lines of a frame need, raw line requests included (`spl` samples each) -/
def frameSize (fixed : Bool) (mask spl : Nat) : List Sliced → Nat
  | [] => 0
  | s :: rest =>
    (if s.id &&& mask = 0 then 0 else if s.id = SL_VBI625 then rawSize fixed spl else unitSize fixed s)
      + frameSize fixed mask spl rest

theorem frameSize_append (fixed : Bool) (mask spl : Nat) (a b : List Sliced) :
    frameSize fixed mask spl (a ++ b) = frameSize fixed mask spl a + frameSize fixed mask spl b := by
  induction a with
  | nil => simp [frameSize]
  | cons s a ih => simp only [List.cons_append, frameSize, ih]; omega

theorem frameSize_noraw (fixed : Bool) (mask spl : Nat) (seg : List Sliced) (h : ∀ s ∈ seg, s.id ≠ SL_VBI625) :
    frameSize fixed mask spl seg = unitsSize fixed mask seg := by
  induction seg with
  | nil => rfl
  | cons s seg ih =>
    simp only [frameSize, unitsSize, ih (fun x hx => h x (List.mem_cons_of_mem _ hx)),
      if_neg (h s (List.mem_cons_self ..))]

/-- what follows in a frame takes no room or at least a whole data unit -/
theorem frameSize_gap (fixed : Bool) (mask spl : Nat) (hspl : 0 < spl) (lines : List Sliced) :
    frameSize fixed mask spl lines = 0 ∨ 5 ≤ frameSize fixed mask spl lines := by
  induction lines with
  | nil => left; rfl
  | cons s rest ih =>
    simp only [frameSize]
    by_cases hm : s.id &&& mask = 0
    · rw [if_pos hm, Nat.zero_add]; exact ih
    · rw [if_neg hm]
      right
      by_cases hr : s.id = SL_VBI625
      · rw [if_pos hr]
        unfold rawSize
        cases fixed
        · simp only [Bool.false_eq_true, if_false]; omega
        · simp only [if_true]; omega
      · rw [if_neg hr]
        unfold unitSize
        cases fixed
        · simp only [Bool.false_eq_true, if_false]; split
          · omega
          · split <;> omega
        · simp only [if_true]; omega

theorem length_rawUnit (fixed : Bool) (lofp : Nat) (first last : Bool) (fpp : Nat) (px : Bytes)
    (hf : fixed = true → px.length ≤ 40) :
    (rawUnit fixed lofp first last fpp px).length = if fixed then 46 else 6 + px.length := by
  unfold rawUnit
  cases fixed
  · simp
    omega
  · have := hf rfl
    simp
    omega

/-- the loop of `insert_raw_data_units` converts all samples when they fit, unless exactly one byte
    would be left behind a full data unit -/
theorem insertRawLoop_accepts (fixed : Bool) (lofp nTotal : Nat) :
    ∀ (fuel pLeft fpp lastDu : Nat) (r : Bytes), r.length ≤ fuel → rawSize fixed r.length ≤ pLeft →
      (fixed = false → pLeft - rawSize false r.length ≠ 1) →
      (insertRawLoop fixed true lofp nTotal fuel pLeft fpp lastDu r).rest = []
      ∧ (insertRawLoop fixed true lofp nTotal fuel pLeft fpp lastDu r).out.length = rawSize fixed r.length
      ∧ (insertRawLoop fixed true lofp nTotal fuel pLeft fpp lastDu r).pLeft = pLeft - rawSize fixed r.length := by
  intro fuel
  induction fuel with
  | zero =>
    intro pLeft fpp lastDu r hfu _ _
    have hr : r = [] := List.eq_nil_of_length_eq_zero (by omega)
    subst hr
    cases fixed <;> simp [insertRawLoop, rawSize]
  | succ fuel ih =>
    intro pLeft fpp lastDu r hfu hfit hslack
    rw [insertRawLoop]
    by_cases hr0 : r.length = 0
    · rw [if_pos hr0]
      have hr : r = [] := List.eq_nil_of_length_eq_zero hr0
      subst hr
      cases fixed <;> simp [rawSize]
    · rw [if_neg hr0]
      simp only []
      have hmin : ¬ (if fixed = true then 46 else 7) > pLeft := by
        unfold rawSize at hfit
        cases fixed
        · simp only [Bool.false_eq_true, if_false] at hfit ⊢; omega
        · simp only [if_true] at hfit ⊢; omega
      rw [if_neg hmin]
      simp only [↓reduceIte]
      cases fixed with
      | true =>
        simp only [if_true]
        have hn : min r.length (44 - 4) ≤ 40 := by omega
        have hlen_take : (r.take (min r.length (44 - 4))).length = min r.length (44 - 4) := by
          rw [List.length_take]; omega
        have hrs : rawSize true r.length = 46 + rawSize true (r.length - min r.length (44 - 4)) := by
          unfold rawSize; simp only [if_true]; omega
        obtain ⟨h1, h2, h3⟩ := ih (pLeft - 46) (fpp + min r.length (44 - 4)) 46 (r.drop (min r.length (44 - 4)))
          (by rw [List.length_drop]; omega) (by rw [List.length_drop]; omega) (by intro h; cases h)
        refine ⟨h1, ?_, ?_⟩
        · rw [List.length_append, length_rawUnit true _ _ _ _ _ (by intro _; rw [hlen_take]; exact hn), h2, List.length_drop]
          simp only [if_true]; omega
        · rw [h3, List.length_drop]; omega
      | false =>
        simp only [Bool.false_eq_true, if_false]
        have hsl := hslack rfl
        unfold rawSize at hfit hsl
        simp only [Bool.false_eq_true, if_false] at hfit hsl
        -- the number of samples is the natural one: min (r_left, 251)
        have hn : (if 2 + 4 + 251 + 1 = pLeft then min r.length 250 else min (min r.length 251) (pLeft - 6))
            = min r.length 251 := by
          split
          · omega
          · omega
        rw [hn]
        have hlen_take : (r.take (min r.length 251)).length = min r.length 251 := by
          rw [List.length_take]; omega
        have hrs : rawSize false r.length = 6 + min r.length 251 + rawSize false (r.length - min r.length 251) := by
          unfold rawSize; simp only [Bool.false_eq_true, if_false]; omega
        obtain ⟨h1, h2, h3⟩ := ih (pLeft - (6 + min r.length 251)) (fpp + min r.length 251) (6 + min r.length 251)
          (r.drop (min r.length 251))
          (by rw [List.length_drop]; omega)
          (by rw [List.length_drop]; unfold rawSize; simp only [Bool.false_eq_true, if_false]; omega)
          (by intro _; rw [List.length_drop]; unfold rawSize; simp only [Bool.false_eq_true, if_false]; omega)
        refine ⟨h1, ?_, ?_⟩
        · rw [List.length_append, length_rawUnit false _ _ _ _ _ (by intro h; cases h), h2, List.length_drop, hlen_take]
          simp only [Bool.false_eq_true, if_false]; omega
        · rw [h3, List.length_drop]; omega

/-- `insert_raw_data_units` as called for a permitted raw line that fits -/
theorem insertRaw_accepts (pLeft : Nat) (fixed : Bool) (line : Nat)
    (hl : (7 ≤ line ∧ line ≤ 23) ∨ (320 ≤ line ∧ line ≤ 336)) (sp : Sp) (hv : validSp sp = true)
    (smp : Bytes) (hlen : smp.length = sp.spl) (hfit : rawSize fixed sp.spl ≤ pLeft)
    (hslack : fixed = false → pLeft - rawSize false sp.spl ≠ 1) :
    ∃ rr, insertRaw pLeft smp fixed VIDEOSTD_625 line ((sp.offset + 2 ^ 32 - BT601_625_OFFSET) % 2 ^ 32) sp.spl true = .ok rr
      ∧ rr.rest = [] ∧ rr.out.length = rawSize fixed sp.spl ∧ rr.pLeft = pLeft - rawSize fixed sp.spl := by
  obtain ⟨ho, hend, hspl⟩ := validSp_bounds sp hv
  have hf0 : (sp.offset + 2 ^ 32 - BT601_625_OFFSET) % 2 ^ 32 = sp.offset - 132 := by
    unfold BT601_625_OFFSET; omega
  rw [hf0]
  unfold insertRaw
  have hstd : (if VIDEOSTD_625 &&& VIDEOSTD_525 ≠ 0 then (if VIDEOSTD_625 &&& VIDEOSTD_625 ≠ 0 then none else some 263)
      else if VIDEOSTD_625 &&& VIDEOSTD_625 ≠ 0 then some 313 else (none : Option Nat)) = some 313 := by decide
  simp only [hstd]
  have hend' : (sp.offset - 132 + sp.spl) % 2 ^ 32 = sp.offset - 132 + sp.spl := Nat.mod_eq_of_lt (by omega)
  rw [hend', if_neg (by omega)]
  by_cases hf : line ≥ 313
  · simp only [hf, if_true]
    rw [if_neg (by omega)]
    refine ⟨_, rfl, ?_⟩
    have := insertRawLoop_accepts fixed (0 + (line - 313)) sp.spl smp.length pLeft
      ((sp.offset - 132 + (sp.spl - smp.length)) % 2 ^ 32) 0 smp (Nat.le_refl _) (by rw [hlen]; exact hfit)
      (by rw [hlen]; exact hslack)
    rw [hlen] at this
    rw [hlen]
    exact this
  · simp only [hf, if_false]
    rw [if_neg (by omega)]
    refine ⟨_, rfl, ?_⟩
    have := insertRawLoop_accepts fixed (0x20 + line) sp.spl smp.length pLeft
      ((sp.offset - 132 + (sp.spl - smp.length)) % 2 ^ 32) 0 smp (Nat.le_refl _) (by rw [hlen]; exact hfit)
      (by rw [hlen]; exact hslack)
    rw [hlen] at this
    rw [hlen]
    exact this

/-- `samples_pointer` finds every line of the raw frame the caller declared -/
theorem samplesPointer_accepts (rawb : Bytes) (sp : Sp) (hv : validSp sp = true)
    (hh : (sp.count0 + sp.count1) * sp.spl ≤ rawb.length) (s : Sliced) (hp : PermittedRaw sp s) :
    ∃ smp, samplesPointer (some rawb) (some sp) s.line = .ok smp := by
  cases h : samplesPointer (some rawb) (some sp) s.line with
  | ok smp => exact ⟨smp, rfl⟩
  | error e =>
    exfalso
    obtain ⟨_, hl, hrange⟩ := hp
    unfold samplesPointer at h
    simp only [] at h
    rw [if_neg (by omega)] at h
    by_cases hf : s.line ≥ 313
    · simp only [hf, if_true] at h hrange
      rw [if_neg (by omega), if_neg (by omega)] at h
      have hrow : (if sp.interlaced = true then (s.line - sp.start1) * 2 + 1 else s.line - sp.start1 + sp.count0) + 1
          ≤ sp.count0 + sp.count1 := by
        cases hi : sp.interlaced
        · simp; omega
        · have := validSp_interlaced sp hv hi; simp; omega
      generalize (if sp.interlaced = true then (s.line - sp.start1) * 2 + 1 else s.line - sp.start1 + sp.count0) = row at h hrow
      have := Nat.le_trans (Nat.mul_le_mul_right sp.spl hrow) hh
      rw [if_neg (by omega)] at h
      cases h
    · simp only [hf, if_false] at h hrange
      rw [if_neg (by omega), if_neg (by omega)] at h
      have hrow : (if sp.interlaced = true then (s.line - sp.start0) * 2 + 0 else s.line - sp.start0) + 1
          ≤ sp.count0 + sp.count1 := by
        cases hi : sp.interlaced
        · simp; omega
        · have := validSp_interlaced sp hv hi; simp; omega
      generalize (if sp.interlaced = true then (s.line - sp.start0) * 2 + 0 else s.line - sp.start0) = row at h hrow
      have := Nat.le_trans (Nat.mul_le_mul_right sp.spl hrow) hh
      rw [if_neg (by omega)] at h
      cases h

/-- a selected line the caller may hand over: a permitted sliced line, or a raw line request
    inside the raw frame on lines 7..23 / 320..336 -/
def Admitted (raw : Option Bytes) (sp : Option Sp) (s : Sliced) : Prop :=
  Permitted s ∨ ((∃ rawb, raw = some rawb) ∧ ∃ sp', sp = some sp' ∧ PermittedRaw sp' s)

/-- the loop of `generate_pes_packet` converts every line of an ordered, admitted frame that fits -/
theorem genLoopR_accepts (keep : Bool) (mask : Nat) (fixed : Bool) (raw : Option Bytes) (sp : Option Sp)
    (hsp : ∀ sp', sp = some sp' → validSp sp' = true) (hraw : RawHolds raw sp) :
    ∀ (fuel pLeft L lastDu : Nat) (st : RawSt) (todo : List Sliced), todo.length < fuel → st.left = 0 →
      (∀ s ∈ todo, Sliced.WF s) → (∀ s ∈ todo, s.id &&& mask ≠ 0 → Admitted raw sp s) → Ordered L todo →
      frameSize fixed mask (sp.getD dfltSp).spl todo ≤ pLeft →
      (fixed = false → pLeft - frameSize false mask (sp.getD dfltSp).spl todo ≠ 1) →
      ∃ out du st', genLoopR keep mask fixed raw sp fuel pLeft L lastDu st todo = .ok (out, du, [], st')
        ∧ out.length = frameSize fixed mask (sp.getD dfltSp).spl todo := by
  intro fuel
  induction fuel with
  | zero => intro pLeft L lastDu st todo h; omega
  | succ fuel ih =>
    intro pLeft L lastDu st todo hfu hst hwf hperm hord hfit hslack
    rw [genLoopR]
    obtain ⟨seg, ll, rest, hs, hoseg, hrest⟩ := scanSeg_ordered todo L hord
    obtain ⟨htodo, hnoraw, hrest2⟩ := scanSeg_spec todo _ _ _ _ hs
    rw [hs]
    simp only []
    have hwfseg : ∀ s ∈ seg, Sliced.WF s := fun x hx => hwf x (by rw [htodo]; exact List.mem_append_left _ hx)
    have hpermseg : ∀ s ∈ seg, s.id &&& mask ≠ 0 → Permitted s := by
      intro x hx hm
      rcases hperm x (by rw [htodo]; exact List.mem_append_left _ hx) hm with h | ⟨_, sp', _, hr, _⟩
      · exact h
      · exact absurd hr (hnoraw x hx)
    rw [htodo, frameSize_append, frameSize_noraw _ _ _ seg hnoraw] at hfit hslack
    obtain ⟨he, hr, hlen⟩ := insertSliced_accepts mask fixed seg hwfseg hpermseg pLeft (segStart L) 0 L (segStart_le L) hoseg (by omega)
    have hpl := insertSliced_pLeft mask fixed seg hwfseg pLeft (segStart L) 0 he hr
    rw [he]
    simp only []
    rw [if_neg (by simp [hr])]
    cases rest with
    | nil =>
      simp only []
      refine ⟨_, _, _, rfl, ?_⟩
      rw [hlen, htodo, frameSize_append, frameSize_noraw _ _ _ seg hnoraw]
      simp [frameSize]
    | cons rawLine rest' =>
      simp only []
      have hrawid : rawLine.id = SL_VBI625 := by
        rcases hrest2 with h | ⟨r, rest'', h, hid⟩
        · cases h
        · injection h with ha hb; rw [ha]; exact hid
      have hord' : Ordered ll rest' := by
        rcases hrest with h | ⟨r, rest'', h, ho⟩
        · cases h
        · injection h with ha hb; rw [hb]; exact ho
      have hfu' : rest'.length < fuel := by
        rw [htodo, List.length_append, List.length_cons] at hfu; omega
      have hwf' : ∀ s ∈ rest', Sliced.WF s := fun x hx => hwf x (by rw [htodo]; simp [hx])
      have hperm' : ∀ s ∈ rest', s.id &&& mask ≠ 0 → Admitted raw sp s := fun x hx => hperm x (by rw [htodo]; simp [hx])
      simp only [frameSize] at hfit hslack
      by_cases hm : mask &&& SL_VBI625 = 0
      · rw [if_pos hm]
        have hmaskraw : rawLine.id &&& mask = 0 := by rw [hrawid, Nat.and_comm]; exact hm
        rw [if_pos hmaskraw, Nat.zero_add] at hfit hslack
        obtain ⟨o, du', st'', hrec, holen⟩ := ih (insertSliced mask fixed pLeft (segStart L) 0 seg).pLeft ll
          (nextLastDu keep lastDu (insertSliced mask fixed pLeft (segStart L) 0 seg).lastDu) st rest' hfu' hst hwf' hperm' hord'
          (by rw [hpl, hlen]; omega) (by intro hf; subst hf; rw [hpl, hlen]; have := hslack rfl; omega)
        rw [hrec]
        simp only []
        refine ⟨_, _, _, rfl, ?_⟩
        rw [List.length_append, hlen, holen, htodo, frameSize_append, frameSize_noraw _ _ _ seg hnoraw]
        simp only [frameSize, hmaskraw, if_true, Nat.zero_add]
      · rw [if_neg hm]
        have hselraw : ¬ rawLine.id &&& mask = 0 := by rw [hrawid, Nat.and_comm]; exact hm
        rw [if_neg hselraw, if_pos hrawid] at hfit hslack
        -- the request is admitted: raw frame and sampling parameters are there
        obtain ⟨rawb, sp', hrawsome, hspsome, hpr⟩ : ∃ rawb sp', raw = some rawb ∧ sp = some sp' ∧ PermittedRaw sp' rawLine := by
          rcases hperm rawLine (by rw [htodo]; simp) hselraw with h | ⟨⟨rawb, h1⟩, sp', h2, h3⟩
          · exact absurd hrawid (permitted_not_raw rawLine h)
          · exact ⟨rawb, sp', h1, h2, h3⟩
        subst hrawsome hspsome
        simp only [Option.getD_some] at hfit hslack ih ⊢
        have hv := hsp sp' rfl
        obtain ⟨ho, hend, hspl⟩ := validSp_bounds sp' hv
        obtain ⟨smp, hsmp⟩ := samplesPointer_accepts rawb sp' hv (hraw rawb sp' rfl rfl) rawLine hpr
        obtain ⟨rawb2, sp2, _, hs2, _, hsmplen, _⟩ := samplesPointer_ok _ _ _ smp hsmp
        injection hs2 with hs2
        subst hs2
        simp only [hst, if_true, hsmp]
        rw [if_neg (by omega)]
        have hgap := frameSize_gap fixed mask sp'.spl hspl rest'
        have hgapf := frameSize_gap false mask sp'.spl hspl rest'
        obtain ⟨rr, hir, hrr1, hrr2, hrr3⟩ := insertRaw_accepts (insertSliced mask fixed pLeft (segStart L) 0 seg).pLeft fixed rawLine.line
          hpr.2.1 sp' hv smp hsmplen (by rw [hpl, hlen]; omega)
          (by intro hf; subst hf; have := hslack rfl; rw [hpl, hlen]; omega)
        rw [hir]
        simp only []
        rw [if_neg (by rw [hrr1]; simp)]
        obtain ⟨o, du', st'', hrec, holen⟩ := ih rr.pLeft ll
          (nextLastDu keep (nextLastDu keep lastDu (insertSliced mask fixed pLeft (segStart L) 0 seg).lastDu) rr.lastDu)
          { st with left := 0 } rest' hfu' rfl hwf' hperm' hord'
          (by rw [hrr3, hpl, hlen]; omega) (by intro hf; subst hf; rw [hrr3, hpl, hlen]; have := hslack rfl; omega)
        rw [hrec]
        simp only []
        refine ⟨_, _, _, rfl, ?_⟩
        rw [List.length_append, List.length_append, hlen, hrr2, holen, htodo, frameSize_append,
          frameSize_noraw _ _ _ seg hnoraw]
        simp only [frameSize]
        rw [if_neg hselraw, if_pos hrawid]
        omega

/-- repaired `vbi_dvb_mux_feed` with `raw` / `sp`: every ordered, admitted frame that fits is accepted -/
theorem feedR_accepts (m : RMux) (hc : CfgOK m.mux.cfg) (hst : m.raw.left = 0) (lines : List Sliced) (mask : Nat)
    (raw : Option Bytes) (sp : Option Sp) (hsp : ∀ sp', sp = some sp' → validSp sp' = true) (hraw : RawHolds raw sp)
    (pts : Nat) (hwf : ∀ s ∈ lines, Sliced.WF s) (hord : Ordered 0 lines)
    (hperm : ∀ s ∈ lines, s.id &&& mask ≠ 0 → Admitted raw sp s)
    (hfit : 46 + frameSize (fixedLengthFormat m.mux.cfg.dataId) mask (sp.getD dfltSp).spl lines ≤ m.mux.cfg.maxSize)
    (hslack : fixedLengthFormat m.mux.cfg.dataId = false →
      46 + frameSize false mask (sp.getD dfltSp).spl lines + 1 ≠ m.mux.cfg.maxSize) :
    (feedR true m lines mask raw sp pts).2.ok = true := by
  obtain ⟨out, du, st', hgl, _⟩ := genLoopR_accepts true mask (fixedLengthFormat m.mux.cfg.dataId) raw sp hsp hraw
    (lines.length + 1) (m.mux.cfg.maxSize - 46) 0 0 m.raw lines (Nat.lt_succ_self _) hst hwf hperm hord (by omega)
    (by intro hf; have := hslack hf; rw [hf] at hfit; omega)
  obtain ⟨pes, hg⟩ := generatePesR_completes m.mux.cfg hc m.raw hst lines mask raw sp hsp pts hwf out du st' hgl
  have hgo : (feedR.go true m lines mask raw sp pts).2.ok = true := by
    unfold feedR.go
    simp only [dropPending_cfg, hg]
    rw [if_neg (by simp)]
    split <;> rfl
  unfold feedR
  cases sp with
  | none => exact hgo
  | some sp' =>
    simp only []
    rw [if_neg (by simp [hsp sp' rfl])]
    exact hgo

end Zvbi.Mux
