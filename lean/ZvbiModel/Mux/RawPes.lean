import ZvbiModel.Mux.RawLemmas
/-!
# Lemmas: `generate_pes_packet` with raw lines, both source shapes
-/
namespace Zvbi.Mux
open Zvbi.Mux.EnParse Zvbi.Mux.RawSpec

/-! ## the outer scan -/

theorem scanSeg_spec (todo : List Sliced) :
    ∀ ll seg ll' rest, scanSeg ll todo = .ok (seg, ll', rest) →
      todo = seg ++ rest ∧ (∀ s ∈ seg, s.id ≠ SL_VBI625)
      ∧ (rest = [] ∨ ∃ r rest', rest = r :: rest' ∧ r.id = SL_VBI625) := by
  induction todo with
  | nil =>
    intro ll seg ll' rest h
    simp only [scanSeg, Except.ok.injEq, Prod.mk.injEq] at h
    obtain ⟨rfl, _, rfl⟩ := h
    exact ⟨rfl, by simp, Or.inl rfl⟩
  | cons s todo ih =>
    intro ll seg ll' rest h
    rw [scanSeg] at h
    by_cases ho : s.line > 0 ∧ s.line ≤ ll
    · rw [if_pos ho] at h; cases h
    · rw [if_neg ho] at h
      simp only [] at h
      by_cases hid : s.id ≠ SL_VBI625
      · rw [if_pos hid] at h
        cases hs : scanSeg (if s.line > 0 then s.line else ll) todo with
        | error off => rw [hs] at h; cases h
        | ok r =>
          obtain ⟨seg', l, r'⟩ := r
          rw [hs] at h
          simp only [Except.ok.injEq, Prod.mk.injEq] at h
          obtain ⟨rfl, _, rfl⟩ := h
          obtain ⟨h1, h2, h3⟩ := ih _ _ _ _ hs
          refine ⟨by rw [h1]; rfl, ?_, h3⟩
          intro x hx
          rcases List.mem_cons.mp hx with rfl | hx
          · exact hid
          · exact h2 x hx
      · rw [if_neg hid] at h
        simp only [Except.ok.injEq, Prod.mk.injEq] at h
        obtain ⟨rfl, _, rfl⟩ := h
        exact ⟨rfl, by simp, Or.inr ⟨s, todo, rfl, by simpa using hid⟩⟩

/-! ## the sender's view -/

theorem sentR_append (mask : Nat) (raw : Bytes) (sp : Sp) (a b : List Sliced) :
    sentR mask raw sp (a ++ b) = sentR mask raw sp a ++ sentR mask raw sp b := by
  induction a with
  | nil => rfl
  | cons s a ih =>
    simp only [List.cons_append, sentR]
    split
    · exact ih
    · split
      · rw [ih]; rfl
      · split
        · rw [ih]; rfl
        · exact ih

theorem sentR_noraw (mask : Nat) (raw : Bytes) (sp : Sp) (seg : List Sliced) (h : ∀ s ∈ seg, s.id ≠ SL_VBI625) :
    sentR mask raw sp seg = (sent mask seg).map Out.line := by
  induction seg with
  | nil => rfl
  | cons s seg ih =>
    have ih := ih (fun x hx => h x (List.mem_cons_of_mem _ hx))
    have hs := h s (List.mem_cons_self ..)
    simp only [sentR]
    by_cases hm : s.id &&& mask = 0
    · rw [if_pos hm, sent_cons_masked mask s seg hm]; exact ih
    · rw [if_neg hm, if_neg hs]
      cases hc : canon s with
      | some l => simp only []; rw [sent_cons_kept mask s seg l hm hc, ih]; rfl
      | none =>
        simp only []
        rw [ih]
        simp [sent, List.filter_cons, hm, hc]

/-! ## samples_pointer / insert_raw_data_units as called by generate_pes_packet -/

theorem samplesPointer_ok (raw : Option Bytes) (sp : Option Sp) (line : Nat) (s : Bytes)
    (h : samplesPointer raw sp line = .ok s) :
    ∃ rawb sp', raw = some rawb ∧ sp = some sp' ∧ s = (rawLineOf rawb sp' line).px ∧ s.length = sp'.spl
      ∧ (if line ≥ 313 then sp'.start1 ≤ line ∧ line < sp'.start1 + sp'.count1
         else sp'.start0 ≤ line ∧ line < sp'.start0 + sp'.count0) := by
  unfold samplesPointer at h
  cases raw with
  | none => simp at h
  | some rawb =>
    cases sp with
    | none => simp at h
    | some sp' =>
      simp only [] at h
      by_cases h0 : line = 0
      · rw [if_pos h0] at h; cases h
      · rw [if_neg h0] at h
        by_cases hf : line ≥ 313
        · simp only [hf, if_true] at h
          by_cases h1 : line < sp'.start1
          · rw [if_pos h1] at h; cases h
          · rw [if_neg h1] at h
            by_cases h2 : line - sp'.start1 ≥ sp'.count1
            · rw [if_pos h2] at h; cases h
            · rw [if_neg h2] at h
              have hpx : (rawLineOf rawb sp' line).px
                  = List.take sp'.spl (List.drop ((if sp'.interlaced = true then (line - sp'.start1) * 2 + 1 else line - sp'.start1 + sp'.count0) * sp'.spl) rawb) := by
                simp [rawLineOf, hf]
              generalize (if sp'.interlaced = true then (line - sp'.start1) * 2 + 1 else line - sp'.start1 + sp'.count0) = row at h hpx
              by_cases h3 : (row + 1) * sp'.spl > rawb.length
              · rw [if_pos h3] at h; cases h
              · rw [if_neg h3] at h
                simp only [Except.ok.injEq] at h
                refine ⟨rawb, sp', rfl, rfl, by rw [hpx, h], ?_, ?_⟩
                · rw [← h, List.length_take, List.length_drop]
                  rw [Nat.add_mul, Nat.one_mul] at h3
                  omega
                · rw [if_pos hf]; omega
        · simp only [hf, if_false] at h
          by_cases h1 : line < sp'.start0
          · rw [if_pos h1] at h; cases h
          · rw [if_neg h1] at h
            by_cases h2 : line - sp'.start0 ≥ sp'.count0
            · rw [if_pos h2] at h; cases h
            · rw [if_neg h2] at h
              have hpx : (rawLineOf rawb sp' line).px
                  = List.take sp'.spl (List.drop ((if sp'.interlaced = true then (line - sp'.start0) * 2 + 0 else line - sp'.start0) * sp'.spl) rawb) := by
                simp [rawLineOf, hf]
              generalize (if sp'.interlaced = true then (line - sp'.start0) * 2 + 0 else line - sp'.start0) = row at h hpx
              by_cases h3 : (row + 1) * sp'.spl > rawb.length
              · rw [if_pos h3] at h; cases h
              · rw [if_neg h3] at h
                simp only [Except.ok.injEq] at h
                refine ⟨rawb, sp', rfl, rfl, by rw [hpx, h], ?_, ?_⟩
                · rw [← h, List.length_take, List.length_drop]
                  rw [Nat.add_mul, Nat.one_mul] at h3
                  omega
                · rw [if_neg hf]; omega

theorem validSp_bounds (sp : Sp) (h : validSp sp = true) : 132 ≤ sp.offset ∧ sp.offset + sp.spl ≤ 852 ∧ 0 < sp.spl := by
  unfold validSp BT601_625_OFFSET at h
  split at h
  · cases h
  · split at h
    · cases h
    · split at h
      · cases h
      · omega

/-- `insert_raw_data_units` as `generate_pes_packet` calls it, all samples of the line converted -/
theorem insertRaw_ok (pLeft : Nat) (fixed : Bool) (line : Nat) (hline : line < 2 ^ 32) (sp : Sp) (hv : validSp sp = true)
    (smp : Bytes) (hlen : smp.length = sp.spl) (rr : RawRes)
    (h : insertRaw pLeft smp fixed VIDEOSTD_625 line ((sp.offset + 2 ^ 32 - BT601_625_OFFSET) % 2 ^ 32) sp.spl true = .ok rr)
    (hrest : rr.rest.length = 0) :
    ((7 ≤ line ∧ line ≤ 23) ∨ (320 ≤ line ∧ line ≤ 336))
    ∧ ∃ us is, rr.out = encUnits us ∧ us ≠ []
      ∧ (∀ u ∈ us, GoodItemUnit fixed u)
      ∧ rr.lastDu = lastSize us
      ∧ (encUnits us).length ≤ pLeft
      ∧ rr.pLeft = pLeft - (encUnits us).length
      ∧ (lastSize us ≥ 257 → pLeft - (encUnits us).length ≠ 1)
      ∧ unitsItems us = some is
      ∧ ∀ tail, assembleGo none (is ++ tail)
          = (assembleGo none tail).map (Out.raw ⟨line, sp.offset - 132, smp⟩ :: ·) := by
  obtain ⟨ho, hend, hspl⟩ := validSp_bounds sp hv
  have hf0 : (sp.offset + 2 ^ 32 - BT601_625_OFFSET) % 2 ^ 32 = sp.offset - 132 := by
    unfold BT601_625_OFFSET; omega
  rw [hf0] at h
  unfold insertRaw at h
  have hstd : (if VIDEOSTD_625 &&& VIDEOSTD_525 ≠ 0 then (if VIDEOSTD_625 &&& VIDEOSTD_625 ≠ 0 then none else some 263)
      else if VIDEOSTD_625 &&& VIDEOSTD_625 ≠ 0 then some 313 else (none : Option Nat)) = some 313 := by decide
  simp only [hstd] at h
  have hend' : (sp.offset - 132 + sp.spl) % 2 ^ 32 = sp.offset - 132 + sp.spl := Nat.mod_eq_of_lt (by omega)
  rw [hend', if_neg (by omega)] at h
  have hfpp : (sp.offset - 132 + (sp.spl - smp.length)) % 2 ^ 32 = sp.offset - 132 := by
    rw [hlen]; omega
  rw [hfpp] at h
  have hsmp : smp ≠ [] := by
    intro hnil; rw [hnil] at hlen; simp at hlen; omega
  by_cases hf : line ≥ 313
  · simp only [hf, if_true] at h
    by_cases hr : (line - 313 + 2 ^ 32 - 7) % 2 ^ 32 > 16
    · rw [if_pos hr] at h; cases h
    · rw [if_neg hr] at h
      simp only [Except.ok.injEq] at h
      have hl7 : 7 ≤ line - 313 := by omega
      have hl23 : line - 313 ≤ 23 := by omega
      refine ⟨Or.inr (by omega), ?_⟩
      rw [← h] at hrest ⊢
      have hlof : (0 : Nat) + (line - 313) = (if false = true then 0x20 else 0) + (line - 313) := by simp
      rw [hlof] at hrest ⊢
      obtain ⟨us, is, h1, h2, h3, h4, h5, h6, h7, h8, h9⟩ :=
        insertRawLoop_ok fixed false (line - 313) sp.spl (sp.offset - 132) hl7 hl23 (by omega)
          smp.length pLeft (sp.offset - 132) 0 smp [] (Nat.le_refl _) (by simpa using hlen) (by simp)
          (List.eq_nil_of_length_eq_zero hrest)
      have hne := h7 hsmp
      refine ⟨us, is, h1, hne, h2, by rw [h3, if_neg hne], h4, h5, h6 hne, h8, ?_⟩
      intro tail
      have := h9 tail hsmp
      simp only [curOf, if_true, Bool.false_eq_true, if_false, List.nil_append] at this
      rw [this]
      have : 313 + (line - 313) = line := by omega
      rw [this]
  · simp only [hf, if_false] at h
    by_cases hr : (line + 2 ^ 32 - 7) % 2 ^ 32 > 16
    · rw [if_pos hr] at h; cases h
    · rw [if_neg hr] at h
      simp only [Except.ok.injEq] at h
      have hl7 : 7 ≤ line := by omega
      have hl23 : line ≤ 23 := by omega
      refine ⟨Or.inl ⟨hl7, hl23⟩, ?_⟩
      rw [← h] at hrest ⊢
      have hlof : (0x20 : Nat) + line = (if true = true then 0x20 else 0) + line := by simp
      rw [hlof] at hrest ⊢
      obtain ⟨us, is, h1, h2, h3, h4, h5, h6, h7, h8, h9⟩ :=
        insertRawLoop_ok fixed true line sp.spl (sp.offset - 132) hl7 hl23 (by omega)
          smp.length pLeft (sp.offset - 132) 0 smp [] (Nat.le_refl _) (by simpa using hlen) (by simp)
          (List.eq_nil_of_length_eq_zero hrest)
      have hne := h7 hsmp
      refine ⟨us, is, h1, hne, h2, by rw [h3, if_neg hne], h4, h5, h6 hne, h8, ?_⟩
      intro tail
      have := h9 tail hsmp
      simp only [curOf, if_true, List.nil_append] at this
      exact this

end Zvbi.Mux
