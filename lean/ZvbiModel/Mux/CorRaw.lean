import ZvbiModel.Mux.CorFeed
import ZvbiModel.Mux.RawFeed
import ZvbiModel.Mux.CorRawModel
/-!
# `vbi_dvb_mux_cor` with raw / sp produces the bytes of `vbi_dvb_mux_feed` with raw / sp

Helper lemmas for `Props/C06CorRaw.lean`.  The output part of the coroutine does not look at the
frame, so the invariant `Pending` / `TsInv` and `corBody_spec` of `Mux/CorFeed.lean` apply as they are;
new here: the entry of `corR` (sampling parameter test on every call, `generatePesR`, raw state).
-/
namespace Zvbi.Mux
open Zvbi.Mux.EnParse

theorem corBodyM_eq (m : Mux) (bufLeft n : Nat) : corBodyM m bufLeft n = corBody m bufLeft n := rfl

/-- `sp == NULL` or `valid_sampling_par (mx, sp)` -/
def SpValid (sp : Option Sp) : Prop := ∀ sp', sp = some sp' → validSp sp' = true

theorem spTest_false (sp : Option Sp) (h : SpValid sp) : ¬ spInvalid sp = true := by
  cases sp with
  | none => simp [spInvalid]
  | some sp' => simp [spInvalid, h sp' rfl]

theorem corR_pending (keep : Bool) (m : RMux) (bufLeft : Nat) (lines : List Sliced) (mask : Nat) (raw : Option Bytes)
    (sp : Option Sp) (pts : Nat) (hb : bufLeft ≠ 0) (hsp : SpValid sp) (hp : ¬ Idle m.mux) :
    corR keep m bufLeft lines mask raw sp pts
      = ({ m with mux := (corBody m.mux bufLeft lines.length).1 }, { res := (corBody m.mux bufLeft lines.length).2 }) := by
  unfold Idle at hp
  unfold corR
  simp only [if_neg hb, if_neg (spTest_false sp hsp), if_neg hp]
  rfl

theorem corR_idle_accept (keep : Bool) (m : RMux) (bufLeft : Nat) (lines : List Sliced) (mask : Nat) (raw : Option Bytes)
    (sp : Option Sp) (pts : Nat) (pes : Bytes) (st' : RawSt) (hb : bufLeft ≠ 0) (hsp : SpValid sp) (hi : Idle m.mux)
    (hl : lines ≠ []) (hg : generatePesR keep m.mux.cfg m.raw lines mask raw sp pts = .ok (pes, [], st')) :
    corR keep m bufLeft lines mask raw sp pts
      = ({ mux := (corBody (start m.mux pes) bufLeft lines.length).1, raw := st' },
         { res := (corBody (start m.mux pes) bufLeft lines.length).2 }) := by
  unfold Idle at hi
  have hn : lines.length ≠ 0 := fun h => hl (List.eq_nil_of_length_eq_zero h)
  unfold corR
  simp only [if_neg hb, if_neg (spTest_false sp hsp), if_pos hi, if_neg hn, hg]
  rfl

/-- a frame `generate_pes_packet` does not convert completely: FALSE, no output, nothing pending, no raw line
    half sent -/
theorem corR_idle_reject (keep : Bool) (m : RMux) (bufLeft : Nat) (lines : List Sliced) (mask : Nat) (raw : Option Bytes)
    (sp : Option Sp) (pts : Nat) (hb : bufLeft ≠ 0) (hsp : SpValid sp) (hi : Idle m.mux) (hl : lines ≠ [])
    (hg : ∀ pes st', generatePesR keep m.mux.cfg m.raw lines mask raw sp pts ≠ .ok (pes, [], st')) :
    ∃ (st' : RawSt) (left idx : Nat) (ab : Option RErr), corR keep m bufLeft lines mask raw sp pts
      = ({ mux := { m.mux with corEnd := 0, packet := [] }, raw := { st' with left := 0 } },
         { res := { ok := false, out := [], slicedLeft := left, slicedIdx := idx }, abort := ab }) := by
  unfold Idle at hi
  have hn : lines.length ≠ 0 := fun h => hl (List.eq_nil_of_length_eq_zero h)
  unfold corR
  simp only [if_neg hb, if_neg (spTest_false sp hsp), if_pos hi, if_neg hn]
  cases hgen : generatePesR keep m.mux.cfg m.raw lines mask raw sp pts with
  | error e =>
    obtain ⟨e1, off⟩ := e
    exact ⟨m.raw, _, _, _, rfl⟩
  | ok r =>
    obtain ⟨pes, left, st'⟩ := r
    by_cases hleft : left = []
    · subst hleft
      exact absurd hgen (hg pes st')
    · simp only [ne_eq, hleft, not_false_eq_true, if_true]
      exact ⟨st', _, _, _, rfl⟩

/-! ## the state between calls -/

/-- the state in which the application calls `vbi_dvb_mux_cor` with the frame `lines`, `raw`, `sp`: output is
    pending and the raw state is already the final one, or nothing is pending and `generate_pes_packet` will
    convert the frame completely, leaving the raw state `stEnd` -/
def ReadyR (keep : Bool) (lines : List Sliced) (mask : Nat) (raw : Option Bytes) (sp : Option Sp) (pts ccEnd : Nat)
    (stEnd : RawSt) (R : Bytes) (m : RMux) : Prop :=
  (¬ Idle m.mux ∧ Pending ccEnd R m.mux ∧ m.raw = stEnd)
  ∨ (Idle m.mux ∧ lines ≠ [] ∧ ∃ pes, generatePesR keep m.mux.cfg m.raw lines mask raw sp pts = .ok (pes, [], stEnd)
      ∧ Pending ccEnd R (start m.mux pes))

/-- one call of `vbi_dvb_mux_cor` -/
theorem corR_ready (keep : Bool) (lines : List Sliced) (mask : Nat) (raw : Option Bytes) (sp : Option Sp) (hsp : SpValid sp)
    (pts ccEnd : Nat) (stEnd : RawSt) (R : Bytes) (m : RMux) (size : Nat)
    (h : ReadyR keep lines mask raw sp pts ccEnd stEnd R m) (hne : R ≠ []) (hs : 0 < size) :
    ∃ m', corR keep m size lines mask raw sp pts
        = (m', { res := { ok := true, out := R.take size,
                          slicedLeft := if R.length ≤ size then 0 else lines.length,
                          slicedIdx := if R.length ≤ size then lines.length else 0 } })
      ∧ Pending ccEnd (R.drop size) m'.mux ∧ m'.mux.cfg = m.mux.cfg ∧ m'.raw = stEnd := by
  rcases h with ⟨hni, hp, hst⟩ | ⟨hi, hl, pes, hg, hp⟩
  · rw [corR_pending keep m size lines mask raw sp pts (by omega) hsp hni]
    obtain ⟨m', h1, h2, h3⟩ := corBody_spec ccEnd R m.mux size lines.length hp hne hs
    exact ⟨{ m with mux := m' }, by rw [h1], h2, h3, hst⟩
  · rw [corR_idle_accept keep m size lines mask raw sp pts pes stEnd (by omega) hsp hi hl hg]
    obtain ⟨m', h1, h2, h3⟩ := corBody_spec ccEnd R (start m.mux pes) size lines.length hp hne hs
    exact ⟨{ mux := m', raw := stEnd }, by rw [h1], h2, h3, rfl⟩

theorem ReadyR.ofPending {keep : Bool} {lines : List Sliced} {mask : Nat} {raw : Option Bytes} {sp : Option Sp}
    {pts ccEnd : Nat} {stEnd : RawSt} {R : Bytes} {m : RMux}
    (h : Pending ccEnd R m.mux) (hst : m.raw = stEnd) (hne : R ≠ []) : ReadyR keep lines mask raw sp pts ccEnd stEnd R m :=
  Or.inl ⟨fun hi => hne (h.idle_iff.1 hi), h, hst⟩

/-! ## an accepted frame -/

/-- what `vbi_dvb_mux_feed (.., raw, sp, ..)` leaves in the multiplexer after an accepted frame -/
theorem feedR_accepted_mux (keep : Bool) (m : RMux) (lines : List Sliced) (mask : Nat) (raw : Option Bytes) (sp : Option Sp)
    (pts : Nat) (h : (feedR keep m lines mask raw sp pts).2.ok = true) (pes : Bytes) (st' : RawSt)
    (hg : generatePesR keep m.mux.cfg m.raw lines mask raw sp pts = .ok (pes, [], st')) :
    (feedR keep m lines mask raw sp pts).1.mux.cfg = m.mux.cfg
    ∧ (m.mux.cfg.pid = 0 → (feedR keep m lines mask raw sp pts).1.mux.cc = m.mux.cc)
    ∧ (m.mux.cfg.pid ≠ 0 → (feedR keep m lines mask raw sp pts).1.mux.cc
          = (m.mux.cc + (tsPackets m.mux.cfg.pid m.mux.cc pes).length) % 2 ^ 32) := by
  have hgo : (feedR.go keep m lines mask raw sp pts).1.mux.cfg = m.mux.cfg
      ∧ (m.mux.cfg.pid = 0 → (feedR.go keep m lines mask raw sp pts).1.mux.cc = m.mux.cc)
      ∧ (m.mux.cfg.pid ≠ 0 → (feedR.go keep m lines mask raw sp pts).1.mux.cc
            = (m.mux.cc + (tsPackets m.mux.cfg.pid m.mux.cc pes).length) % 2 ^ 32) := by
    unfold feedR.go
    simp only [dropPending_cfg, dropPending_cc, hg]
    simp only [ne_eq, not_true_eq_false, if_false]
    by_cases hp : m.mux.cfg.pid = 0
    · simp [hp, dropPending_cfg, dropPending_cc]
    · simp [hp, dropPending_cfg, dropPending_cc]
  unfold feedR at h ⊢
  cases sp with
  | none => exact hgo
  | some sp' =>
    simp only [] at h ⊢
    by_cases hv : ¬ validSp sp' = true
    · rw [if_pos hv] at h; simp at h
    · rw [if_neg hv]; exact hgo

/-- the bytes `vbi_dvb_mux_feed` hands to the callback for an accepted frame with raw lines are what a
    `vbi_dvb_mux_cor` call sequence starting in the idle state has to produce -/
theorem readyR_of_feedR_ok (keep : Bool) (m : RMux) (hi : Idle m.mux) (hc : CfgOK m.mux.cfg) (hraw : m.raw.left = 0)
    (lines : List Sliced) (hl : lines ≠ []) (hwf : ∀ s ∈ lines, Sliced.WF s) (mask : Nat) (raw : Option Bytes)
    (sp : Option Sp) (pts : Nat) (hok : (feedR keep m lines mask raw sp pts).2.ok = true) :
    SpValid sp
    ∧ ReadyR keep lines mask raw sp pts (feedR keep m lines mask raw sp pts).1.mux.cc (feedR keep m lines mask raw sp pts).1.raw
        (feedR keep m lines mask raw sp pts).2.bytes m
    ∧ (feedR keep m lines mask raw sp pts).2.bytes ≠ []
    ∧ (feedR keep m lines mask raw sp pts).1.mux.cfg = m.mux.cfg := by
  obtain ⟨hsp, pes, st', hg, _, hst, hpes, hts⟩ := feedR_accepted keep m lines mask raw sp pts hok
  obtain ⟨_, h184, hmin, _, _⟩ := generatePesR_ok keep m.mux.cfg hc m.raw hraw lines mask raw sp hsp pts hwf pes st' hg
  obtain ⟨hcfg, hcc0, hcc1⟩ := feedR_accepted_mux keep m lines mask raw sp pts hok pes st' hg
  have hpos : 0 < pes.length := by have := hc.min184; omega
  refine ⟨hsp, ?_, ?_, hcfg⟩
  · by_cases hp : m.mux.cfg.pid = 0
    · have hB : (feedR keep m lines mask raw sp pts).2.bytes = pes := by simp [FeedROut.bytes, hpes hp]
      rw [hB, hst, hcc0 hp]
      refine Or.inr ⟨hi, hl, pes, hg, ⟨fun _ => ⟨?_, ?_, rfl⟩, fun hq => absurd hp hq⟩⟩
      · simp [start]
      · simp only [start, List.length_append, List.length_cons, List.length_nil]; omega
    · have hB : (feedR keep m lines mask raw sp pts).2.bytes
          = (tsLoop m.mux.cfg.pid (pes.length / 184) true m.mux.cc pes).flatten := by
        simp only [FeedROut.bytes, hts hp, filterMap_id_map_some]
        rw [tsPackets_eq _ _ _ h184 hpos]
      have hinit := TsInv.init m.mux.cfg.pid m.mux.cc pes (pes.length / 184) (by omega) (by omega)
      rw [hB, hst, hcc1 hp, tsPackets_eq _ _ _ h184 hpos, tsLoop_length]
      exact Or.inr ⟨hi, hl, pes, hg, ⟨fun hq => absurd hq hp, fun _ => hinit⟩⟩
  · by_cases hp : m.mux.cfg.pid = 0
    · have hB : (feedR keep m lines mask raw sp pts).2.bytes = pes := by simp [FeedROut.bytes, hpes hp]
      rw [hB]; intro hn; rw [hn] at hpos; simp at hpos
    · have hB : (feedR keep m lines mask raw sp pts).2.bytes
          = (tsLoop m.mux.cfg.pid (pes.length / 184) true m.mux.cc pes).flatten := by
        simp only [FeedROut.bytes, hts hp, filterMap_id_map_some]
        rw [tsPackets_eq _ _ _ h184 hpos]
      have hinit := TsInv.init m.mux.cfg.pid m.mux.cc pes (pes.length / 184) (by omega) (by omega)
      rw [hB]; intro hn
      have := hinit.nil_iff.1 hn
      omega

/-! ## the application loop -/

/-- the application loop over an explicit list of output buffer sizes (one per `vbi_dvb_mux_cor` call, each call
    with the same frame, `raw`, `sp`): until `*sliced_left == 0`, a failure, or the sizes run out.
    Result: state, last return value, "sizes ran out before the frame was finished", all output, abort. -/
def corSeqR (keep : Bool) (lines : List Sliced) (mask : Nat) (raw : Option Bytes) (sp : Option Sp) (pts : Nat) :
    List Nat → RMux → Bytes → RMux × Bool × Bool × Bytes × Option RErr
  | [], m, acc => (m, true, true, acc, none)
  | s :: ss, m, acc =>
    let r := corR keep m s lines mask raw sp pts
    if r.2.res.ok ∧ r.2.res.slicedLeft > 0 then corSeqR keep lines mask raw sp pts ss r.1 (acc ++ r.2.res.out)
    else (r.1, r.2.res.ok, false, acc ++ r.2.res.out, r.2.abort)

theorem corSeqR_ready (keep : Bool) (lines : List Sliced) (hl : lines ≠ []) (mask : Nat) (raw : Option Bytes)
    (sp : Option Sp) (hsp : SpValid sp) (pts ccEnd : Nat) (stEnd : RawSt) :
    ∀ (sizes : List Nat) (m : RMux) (acc R : Bytes), ReadyR keep lines mask raw sp pts ccEnd stEnd R m → R ≠ [] →
      (∀ s ∈ sizes, 0 < s) →
      ∃ m', m'.mux.cfg = m.mux.cfg
        ∧ (sizes.sum < R.length →
            corSeqR keep lines mask raw sp pts sizes m acc = (m', true, true, acc ++ R.take sizes.sum, none)
            ∧ ReadyR keep lines mask raw sp pts ccEnd stEnd (R.drop sizes.sum) m')
        ∧ (R.length ≤ sizes.sum →
            corSeqR keep lines mask raw sp pts sizes m acc = (m', true, false, acc ++ R, none)
            ∧ Idle m'.mux ∧ m'.mux.cc = ccEnd ∧ m'.raw = stEnd) := by
  intro sizes
  induction sizes with
  | nil =>
    intro m acc R hr hne _
    have hpos : 0 < R.length := List.length_pos_iff.2 hne
    refine ⟨m, rfl, fun _ => ⟨by simp [corSeqR], by simpa using hr⟩, fun h => ?_⟩
    simp only [List.sum_nil] at h; omega
  | cons s ss ih =>
    intro m acc R hr hne hall
    have hs : 0 < s := hall s (List.mem_cons_self ..)
    have hss : ∀ x ∈ ss, 0 < x := fun x hx => hall x (List.mem_cons_of_mem _ hx)
    have hn : 0 < lines.length := List.length_pos_iff.2 hl
    obtain ⟨m1, hcor, hp1, hcfg1, hst1⟩ := corR_ready keep lines mask raw sp hsp pts ccEnd stEnd R m s hr hne hs
    by_cases hfin : R.length ≤ s
    · have hd : R.drop s = [] := List.drop_eq_nil_iff.2 hfin
      rw [hd] at hp1
      refine ⟨m1, hcfg1, fun h => ?_, fun _ => ⟨?_, hp1.idle_iff.2 rfl, hp1.cc_end, hst1⟩⟩
      · simp only [List.sum_cons] at h; omega
      · rw [corSeqR, hcor]
        simp only [if_pos hfin, Nat.lt_irrefl, gt_iff_lt, and_false, if_false, List.take_of_length_le hfin]
    · have hd : R.drop s ≠ [] := fun h => hfin (List.drop_eq_nil_iff.1 h)
      obtain ⟨m2, hcfg2, hA, hB⟩ := ih m1 (acc ++ R.take s) (R.drop s) (ReadyR.ofPending hp1 hst1 hd) hd hss
      have hstep : corSeqR keep lines mask raw sp pts (s :: ss) m acc
          = corSeqR keep lines mask raw sp pts ss m1 (acc ++ R.take s) := by
        rw [corSeqR, hcor]
        simp only [if_neg hfin, gt_iff_lt, hn, and_self, if_true]
      refine ⟨m2, by rw [hcfg2, hcfg1], fun h => ?_, fun h => ?_⟩
      · simp only [List.sum_cons] at h
        obtain ⟨h1, h2⟩ := hA (by rw [List.length_drop]; omega)
        rw [hstep, h1, List.append_assoc, ← List.take_add]
        rw [List.drop_drop] at h2
        exact ⟨by simp only [List.sum_cons], by simpa only [List.sum_cons] using h2⟩
      · simp only [List.sum_cons] at h
        obtain ⟨h1, h2⟩ := hB (by rw [List.length_drop]; omega)
        rw [hstep, h1, List.append_assoc, List.take_append_drop]
        exact ⟨rfl, h2⟩

/-- the correspondence driver's loop `corAllR` from a state in which the rest `R` of the output is due -/
theorem corAllR_ready (keep : Bool) (sizes : List Nat) (hsz : sizes ≠ []) (hpos : ∀ s ∈ sizes, 0 < s)
    (lines : List Sliced) (hl : lines ≠ []) (mask : Nat) (raw : Option Bytes) (sp : Option Sp) (hsp : SpValid sp)
    (pts ccEnd : Nat) (stEnd : RawSt) :
    ∀ (fuel : Nat) (m : RMux) (calls : Nat) (acc R : Bytes), ReadyR keep lines mask raw sp pts ccEnd stEnd R m → R ≠ [] →
      R.length ≤ fuel →
      ∃ m' calls', corAllR keep sizes lines mask raw sp pts fuel m calls acc
          = (m', true, calls', 0, lines.length, acc ++ R, none)
        ∧ calls < calls' ∧ calls' ≤ calls + R.length ∧ Idle m'.mux ∧ m'.mux.cfg = m.mux.cfg ∧ m'.mux.cc = ccEnd
        ∧ m'.raw = stEnd := by
  have hlen : 0 < sizes.length := List.length_pos_iff.2 hsz
  have hn : 0 < lines.length := List.length_pos_iff.2 hl
  intro fuel
  induction fuel with
  | zero =>
    intro m calls acc R _ hne hf
    have : 0 < R.length := List.length_pos_iff.2 hne
    omega
  | succ fuel ih =>
    intro m calls acc R hr hne hf
    have hpR : 0 < R.length := List.length_pos_iff.2 hne
    have hs : 0 < sizes.getD (calls % sizes.length) 0 := getD_pos sizes hpos _ (Nat.mod_lt _ hlen)
    obtain ⟨m1, hcor, hp1, hcfg1, hst1⟩ := corR_ready keep lines mask raw sp hsp pts ccEnd stEnd R m _ hr hne hs
    rw [corAllR, hcor]
    simp only []
    by_cases hfin : R.length ≤ sizes.getD (calls % sizes.length) 0
    · have hd : R.drop (sizes.getD (calls % sizes.length) 0) = [] := List.drop_eq_nil_iff.2 hfin
      rw [hd] at hp1
      refine ⟨m1, calls + 1, ?_, by omega, by omega, hp1.idle_iff.2 rfl, hcfg1, hp1.cc_end, hst1⟩
      simp only [if_pos hfin, Nat.lt_irrefl, gt_iff_lt, and_false, if_false, List.take_of_length_le hfin]
    · have hd : R.drop (sizes.getD (calls % sizes.length) 0) ≠ [] := fun h => hfin (List.drop_eq_nil_iff.1 h)
      obtain ⟨m2, c2, heq, hc1, hc2, hidle, hcfg2, hcc2, hst2⟩ :=
        ih m1 (calls + 1) (acc ++ R.take (sizes.getD (calls % sizes.length) 0)) _ (ReadyR.ofPending hp1 hst1 hd) hd
          (by rw [List.length_drop]; omega)
      refine ⟨m2, c2, ?_, by omega, ?_, hidle, by rw [hcfg2, hcfg1], hcc2, hst2⟩
      · simp only [if_neg hfin, gt_iff_lt, hn, and_self, if_true]
        rw [heq, List.append_assoc, List.take_append_drop]
      · rw [List.length_drop] at hc2; omega

/-! ## a rejected frame -/

theorem feedR_rejected_gen (keep : Bool) (m : RMux) (lines : List Sliced) (mask : Nat) (raw : Option Bytes) (sp : Option Sp)
    (pts : Nat) (hsp : SpValid sp) (hrej : (feedR keep m lines mask raw sp pts).2.ok = false) (pes : Bytes) (st' : RawSt) :
    generatePesR keep m.mux.cfg m.raw lines mask raw sp pts ≠ .ok (pes, [], st') := by
  intro hg
  have hgo : (feedR.go keep m lines mask raw sp pts).2.ok = true := by
    unfold feedR.go
    simp only [dropPending_cfg, hg]
    by_cases hp : m.mux.cfg.pid = 0 <;> simp [hp]
  unfold feedR at hrej
  cases sp with
  | none => simp only [] at hrej; rw [hgo] at hrej; cases hrej
  | some sp' =>
    simp only [] at hrej
    rw [if_neg (by simp [hsp sp' rfl])] at hrej
    rw [hgo] at hrej; cases hrej

/-- invalid sampling parameters: `vbi_dvb_mux_feed` and `vbi_dvb_mux_cor` both return FALSE and touch nothing -/
theorem invalid_sp (keep : Bool) (m : RMux) (lines : List Sliced) (mask : Nat) (raw : Option Bytes) (sp' : Sp)
    (pts : Nat) (h : validSp sp' = false) (size : Nat) :
    feedR keep m lines mask raw (some sp') pts = (m, { ok := false, calls := [] })
    ∧ corR keep m size lines mask raw (some sp') pts
        = (m, { res := { ok := false, out := [], slicedLeft := lines.length, slicedIdx := 0 } }) := by
  constructor
  · unfold feedR; simp [h]
  · unfold corR
    by_cases hb : size = 0
    · simp [hb]
    · simp [hb, spInvalid, h]

end Zvbi.Mux
