import ZvbiModel.Mux.Model
import ZvbiModel.Mux.Spec
/-!
# Lemmas: data unit regions and `encode_stuffing`
-/
namespace Zvbi.Mux
open Zvbi.Mux.EnParse

theorem encUnits_append (a b : List DataUnit) : encUnits (a ++ b) = encUnits a ++ encUnits b := by
  induction a with
  | nil => rfl
  | cons u us ih => simp [encUnits, ih]

theorem encUnits_single (u : DataUnit) : encUnits [u] = u.id :: u.payload.length :: u.payload := by
  simp [encUnits]

/-- the reader recovers exactly the units a region was built from -/
theorem parseUnitsF_encUnits (us : List DataUnit) :
    ∀ f, (encUnits us).length ≤ f → parseUnitsF f (encUnits us) = some us := by
  induction us with
  | nil => intro f _; cases f <;> rfl
  | cons u us ih =>
    intro f hf
    cases f with
    | zero => simp [encUnits] at hf
    | succ f =>
      simp only [encUnits] at hf ⊢
      have hlen : u.payload.length ≤ (u.payload ++ encUnits us).length := by simp
      have h1 : (encUnits us).length ≤ f := by simp at hf; omega
      simp [parseUnitsF, List.drop_append, List.take_append, ih f h1]

theorem parseUnits_encUnits (us : List DataUnit) : parseUnits (encUnits us) = some us :=
  parseUnitsF_encUnits us _ (Nat.le_refl _)

/-- a stuffing data unit of total size `n` -/
def stuffDU (n : Nat) : DataUnit := ⟨0xFF, List.replicate (n - 2) 0xFF⟩

theorem stuffUnit_eq (n : Nat) : stuffUnit n = encUnits [stuffDU n] := by
  simp [stuffUnit, stuffDU, encUnits, DU_STUFF]

theorem flatten_stuffUnits (k n : Nat) :
    (List.replicate k (stuffUnit n)).flatten = encUnits (List.replicate k (stuffDU n)) := by
  induction k with
  | zero => rfl
  | succ k ih =>
    rw [List.replicate_succ, List.flatten_cons, ih, List.replicate_succ, stuffUnit_eq]
    show encUnits [stuffDU n] ++ _ = encUnits ([stuffDU n] ++ List.replicate k (stuffDU n))
    rw [encUnits_append]

theorem length_encUnits_replicate (k n : Nat) (hn : 2 ≤ n) :
    (encUnits (List.replicate k (stuffDU n))).length = k * n := by
  induction k with
  | zero => simp [encUnits]
  | succ k ih =>
    rw [List.replicate_succ]
    show (encUnits ([stuffDU n] ++ List.replicate k (stuffDU n))).length = _
    rw [encUnits_append, List.length_append, ih]
    simp [encUnits, stuffDU]
    rw [Nat.succ_mul]; omega

/-- append one stuffing byte to the last data unit -/
def padLast : List DataUnit → List DataUnit
  | [] => []
  | [u] => [⟨u.id, u.payload ++ [0xFF]⟩]
  | u :: v :: us => u :: padLast (v :: us)

/-- total size of the last data unit (0 if there is none): the C code's `last_du_size` -/
def lastSize : List DataUnit → Nat
  | [] => 0
  | [u] => u.payload.length + 2
  | _ :: v :: us => lastSize (v :: us)

def IsStuffing (fixed : Bool) (u : DataUnit) : Prop :=
  u.id = 0xFF ∧ allFF u.payload = true ∧ (fixed = true → u.payload.length = 0x2C)

theorem allFF_replicate (n : Nat) : allFF (List.replicate n 0xFF) = true := by
  simp [allFF]

theorem isStuffing_stuffDU (n : Nat) : IsStuffing false (stuffDU n) :=
  ⟨rfl, allFF_replicate _, by simp⟩

theorem isStuffing_stuffDU46 (fixed : Bool) : IsStuffing fixed (stuffDU 46) :=
  ⟨rfl, allFF_replicate _, by intro _; simp [stuffDU]⟩

theorem lastSize_concat (init : List DataUnit) (u : DataUnit) :
    lastSize (init ++ [u]) = u.payload.length + 2 := by
  induction init with
  | nil => rfl
  | cons a as ih =>
    cases as with
    | nil => simpa [lastSize] using ih
    | cons b bs => simpa [lastSize] using ih

theorem padLast_concat (init : List DataUnit) (u : DataUnit) :
    padLast (init ++ [u]) = init ++ [⟨u.id, u.payload ++ [0xFF]⟩] := by
  induction init with
  | nil => rfl
  | cons a as ih =>
    cases as with
    | nil => simpa [padLast] using ih
    | cons b bs => simpa [padLast] using ih

theorem exists_concat (us : List DataUnit) (hne : us ≠ []) : ∃ init u, us = init ++ [u] :=
  ⟨us.dropLast, us.getLast hne, (List.dropLast_concat_getLast hne).symm⟩

/-- `p[1 - last_du_size] = last_du_size - 1` plus the byte at `p` : the last unit grows by one stuffing byte -/
theorem poke_padLast (us : List DataUnit) (hne : us ≠ []) (h256 : lastSize us ≤ 256) (site : String) :
    poke site (encUnits us ++ [0xFF]) (encUnits us).length (lastSize us) (lastSize us - 1)
      = .ok (encUnits (padLast us)) := by
  obtain ⟨init, u, rfl⟩ := exists_concat us hne
  rw [lastSize_concat] at h256 ⊢
  rw [padLast_concat, encUnits_append, encUnits_append, encUnits_single, encUnits_single]
  unfold poke
  simp only [List.length_append, List.length_cons]
  rw [if_pos (by constructor <;> omega)]
  have e : (encUnits init).length + (u.payload.length + 1 + 1) + 1 - (u.payload.length + 2)
      = (encUnits init).length + 1 := by omega
  have h1 : (u.payload.length + 2 - 1) % 256 = u.payload.length + 1 := by omega
  rw [e, h1, List.append_assoc, List.set_append_right _ _ (by omega)]
  simp

theorem length_encUnits_append_replicate (us : List DataUnit) (k n : Nat) (hn : 2 ≤ n) :
    (encUnits (us ++ List.replicate k (stuffDU n))).length = (encUnits us).length + k * n := by
  rw [encUnits_append, List.length_append, length_encUnits_replicate k n hn]

theorem mem_replicate_stuffing {fixed : Bool} {k n : Nat} (h : IsStuffing fixed (stuffDU n)) :
    ∀ u ∈ List.replicate k (stuffDU n), IsStuffing fixed u := by
  intro u hu
  rw [List.mem_replicate] at hu
  rw [hu.2]; exact h

theorem poke257_gen (A : Bytes) (n : Nat) (s1 s2 : String) (hn : n < 256) :
    (match poke s1 (A ++ (0xFF :: (n + 1) :: (List.replicate n 0xFF ++ [0xFF])) ++ [0xFF]) (A.length + (n + 3)) (n + 3) n with
     | .error e => (.error e : Except Err Bytes)
     | .ok b => poke s2 b (A.length + (n + 3)) 1 0)
    = .ok (A ++ (0xFF :: n :: List.replicate n 0xFF) ++ [0xFF, 0]) := by
  unfold poke
  have hlen : (A ++ (0xFF :: (n + 1) :: (List.replicate n 0xFF ++ [0xFF])) ++ [0xFF]).length = A.length + (n + 4) := by
    simp only [List.length_append, List.length_cons, List.length_replicate, List.length_nil]; omega
  rw [hlen, if_pos (by constructor <;> omega)]
  simp only []
  rw [List.length_set, hlen, if_pos (by constructor <;> omega)]
  congr 1
  have e1 : A.length + (n + 3) + 1 - (n + 3) = A.length + 1 := by omega
  have e2 : A.length + (n + 3) + 1 - 1 = A.length + (n + 3) := by omega
  have e3 : n % 256 = n := Nat.mod_eq_of_lt hn
  rw [e1, e2, e3, List.append_assoc, List.set_append_right _ _ (by omega)]
  have e4 : A.length + 1 - A.length = 1 := by omega
  rw [e4]
  simp only [List.cons_append, List.set_cons_succ, List.set_cons_zero]
  rw [List.set_append_right _ _ (by omega)]
  have e5 : A.length + (n + 3) - A.length = (n + 2) + 1 := by omega
  rw [e5]
  simp only [List.set_cons_succ]
  have e6 : ∀ (l : Bytes) (k : Nat), l.length = k → (l ++ [255, 255]).set (k + 1) (0 % 256) = l ++ [255, 0] := by
    intro l k hk
    rw [List.set_append_right _ _ (by omega)]
    have : k + 1 - l.length = 1 := by omega
    rw [this]; rfl
  have := e6 (List.replicate n 255) n (by simp)
  simp only [List.append_assoc, List.cons_append, List.nil_append] at this ⊢
  rw [this]

/-- the two pokes of the `257 == last_du_size` branch turn `[FF, 255, FF*255] ++ [FF]` into
    `[FF, 254, FF*254] ++ [FF, 0]` -/
theorem poke257 (A : Bytes) (s1 s2 : String) :
    (match poke s1 (A ++ encUnits [stuffDU 257] ++ [0xFF]) (A ++ encUnits [stuffDU 257]).length 257 (256 - 2) with
     | .error e => (.error e : Except Err Bytes)
     | .ok b => poke s2 b (A ++ encUnits [stuffDU 257]).length 1 (2 - 2))
    = .ok (A ++ encUnits [stuffDU 256, stuffDU 2]) := by
  have h1 : encUnits [stuffDU 257] = 0xFF :: (254 + 1) :: (List.replicate 254 0xFF ++ [0xFF]) := by
    rw [encUnits_single]
    show 0xFF :: (List.replicate (254 + 1) 0xFF).length :: List.replicate (254 + 1) 0xFF = _
    rw [List.length_replicate, List.replicate_succ']
  have h2 : encUnits [stuffDU 256, stuffDU 2] = (0xFF :: 254 :: List.replicate 254 0xFF) ++ [0xFF, 0] := by
    show 0xFF :: (List.replicate 254 0xFF).length :: (List.replicate 254 0xFF ++ (0xFF :: (List.replicate 0 0xFF).length :: (List.replicate 0 0xFF ++ []))) = _
    rw [List.length_replicate, List.length_replicate]
    rfl
  have hl : (A ++ encUnits [stuffDU 257]).length = A.length + (254 + 3) := by
    rw [List.length_append, h1]
    simp only [List.length_append, List.length_cons, List.length_replicate, List.length_nil]
  rw [hl, h1, h2, ← List.append_assoc]
  exact poke257_gen A 254 s1 s2 (by omega)

theorem encodeStuffing_spec (us : List DataUnit) (pLeft : Nat) (fixed : Bool)
    (hfix : fixed = true → pLeft % 46 = 0)
    (hone : fixed = false → pLeft = 1 → us ≠ [] ∧ lastSize us ≤ 256) :
    ∃ us₁ st, encodeStuffing (encUnits us) pLeft (lastSize us) fixed = .ok (encUnits (us₁ ++ st))
      ∧ (encUnits (us₁ ++ st)).length = (encUnits us).length + pLeft
      ∧ (us₁ = us ∨ (pLeft = 1 ∧ us₁ = padLast us))
      ∧ ∀ u ∈ st, IsStuffing fixed u := by
  cases fixed with
  | true =>
    have h0 := hfix rfl
    refine ⟨us, List.replicate (pLeft / 46) (stuffDU 46), ?_, ?_, Or.inl rfl, mem_replicate_stuffing (isStuffing_stuffDU46 true)⟩
    · simp [encodeStuffing, h0, flatten_stuffUnits, encUnits_append]
    · rw [length_encUnits_append_replicate _ _ _ (by omega)]
      have := Nat.div_add_mod pLeft 46
      omega
  | false =>
    have hdm := Nat.div_add_mod pLeft 257
    by_cases hr0 : pLeft % 257 = 0
    · refine ⟨us, List.replicate (pLeft / 257) (stuffDU 257), ?_, ?_, Or.inl rfl, mem_replicate_stuffing (isStuffing_stuffDU _)⟩
      · simp [encodeStuffing, hr0, flatten_stuffUnits, encUnits_append]
      · rw [length_encUnits_append_replicate _ _ _ (by omega)]; omega
    by_cases hr2 : 2 ≤ pLeft % 257
    · refine ⟨us, List.replicate (pLeft / 257) (stuffDU 257) ++ [stuffDU (pLeft % 257)], ?_, ?_, Or.inl rfl, ?_⟩
      · simp only [encodeStuffing, hr0, hr2, flatten_stuffUnits, Bool.false_eq_true, if_false, ge_iff_le, if_true]
        rw [stuffUnit_eq, ← List.append_assoc, encUnits_append, encUnits_append]
      · rw [← List.append_assoc, encUnits_append, List.length_append, length_encUnits_append_replicate _ _ _ (by omega)]
        simp [encUnits, stuffDU]; omega
      · intro u hu
        rw [List.mem_append] at hu
        cases hu with
        | inl h => exact mem_replicate_stuffing (isStuffing_stuffDU _) u h
        | inr h => rw [List.mem_singleton] at h; rw [h]; exact isStuffing_stuffDU _
    have hr1 : pLeft % 257 = 1 := by omega
    by_cases hk : 0 < pLeft / 257
    · -- the last full stuffing unit is shortened by one and a two-byte unit follows
      obtain ⟨k, hk'⟩ : ∃ k, pLeft / 257 = k + 1 := ⟨pLeft / 257 - 1, by omega⟩
      refine ⟨us, List.replicate k (stuffDU 257) ++ [stuffDU 256, stuffDU 2], ?_, ?_, Or.inl rfl, ?_⟩
      · unfold encodeStuffing
        simp only [flatten_stuffUnits, Bool.false_eq_true, if_false]
        rw [hr1, hk']
        have hk0 : (if k + 1 > 0 then 257 else lastSize us) = 257 := if_pos (by omega)
        simp only [hk0]
        rw [if_neg (by omega), if_neg (by omega), if_neg (by omega), if_pos trivial]
        rw [List.replicate_succ', encUnits_append, ← List.append_assoc, ← List.append_assoc, encUnits_append,
          encUnits_append]
        exact poke257 _ _ _
      · rw [← List.append_assoc, encUnits_append, List.length_append, length_encUnits_append_replicate _ _ _ (by omega)]
        have : (encUnits [stuffDU 256, stuffDU 2]).length = 258 := by
          simp only [encUnits, stuffDU, List.length_cons, List.length_append, List.length_replicate, List.length_nil]
        omega
      · intro u hu
        rw [List.mem_append] at hu
        cases hu with
        | inl h => exact mem_replicate_stuffing (isStuffing_stuffDU _) u h
        | inr h =>
          simp only [List.mem_cons, List.not_mem_nil, or_false] at h
          cases h with
          | inl h => rw [h]; exact isStuffing_stuffDU _
          | inr h => rw [h]; exact isStuffing_stuffDU _
    · have hp1 : pLeft = 1 := by omega
      obtain ⟨hne, h256⟩ := hone rfl hp1
      have h2 : 2 ≤ lastSize us := by
        obtain ⟨init, u, rfl⟩ := exists_concat us hne
        rw [lastSize_concat]; omega
      refine ⟨padLast us, [], ?_, ?_, Or.inr ⟨hp1, rfl⟩, by simp⟩
      · subst hp1
        have hne257 : ¬ lastSize us = 257 := by omega
        unfold encodeStuffing
        simp only [flatten_stuffUnits, Bool.false_eq_true, if_false]
        have d0 : 1 / 257 = 0 := by decide
        have m1 : 1 % 257 = 1 := by decide
        rw [d0, m1]
        have hk0 : (if 0 > 0 then 257 else lastSize us) = lastSize us := if_neg (by omega)
        simp only [hk0, List.replicate_zero]
        rw [if_neg (by omega), if_neg (by omega), if_neg (by omega), if_neg hne257]
        show poke _ (encUnits us ++ [] ++ [0xFF]) (encUnits us ++ []).length _ _ = _
        rw [List.append_nil, List.append_nil]
        exact poke_padLast us hne h256 _
      · obtain ⟨init, u, rfl⟩ := exists_concat us hne
        rw [List.append_nil, padLast_concat, encUnits_append, encUnits_append]
        simp [encUnits]; omega

end Zvbi.Mux
