import ZvbiModel.Mux.Model
import ZvbiModel.Generated.MuxFlags
/-!
# Model of the raw (monochrome samples) path of src/dvb_mux.c

`insert_raw_data_units` (dvb_mux.c:730), `vbi_dvb_multiplex_raw` (:989), `samples_pointer` (:1153),
`valid_sampling_par` (:1210, with `_vbi_sampling_par_valid_log` of sampling_par.c for libzvbi 0.2),
`generate_pes_packet` (:1398) with `raw != NULL`, and `vbi_dvb_mux_feed` with `raw` / `sp`.

`generate_pes_packet` exists in two source shapes, selected by `keep`
(`Zvbi.Gen.muxKeepsLastDuSize`, regenerated from the source by translate/gen_muxflags.py on every
run): `keep = false` is the unchanged tree (every insert call writes `last_du_size`, finding F29),
`keep = true` is the tree with fixes/C06-mux-raw-last-stuffing.diff.

Same conventions as `Mux/Model.lean`; the raw VBI frame is a `Bytes`, `sp == NULL` / `raw == NULL`
are `none`.  `abort` values are assertion failures of the C code (the process dies).
-/
namespace Zvbi.Mux
open Zvbi.Hamm

def DU_MONO : Nat := 0xC6
def BT601_625_OFFSET : Nat := 132
def VIDEOSTD_625 : Nat := 1     -- stand-ins for the two `vbi_videostd_set` values the API admits
def VIDEOSTD_525 : Nat := 2

/-- the `VBI_ERR_*` values of the raw path in addition to those of `Mux.Err` -/
inductive RErr
  | base (e : Err)
  | ambiguousVideostd | sampleNumber | samplingPar | rawBufferOverflow | rawDataInterruption
deriving Repr, DecidableEq, Inhabited

def RErr.name : RErr → String
  | .base e => e.name
  | .ambiguousVideostd => "ambiguous_videostd" | .sampleNumber => "sample_number" | .samplingPar => "sampling_par"
  | .rawBufferOverflow => "raw_buffer_overflow" | .rawDataInterruption => "raw_data_interruption"

/-- an `assert` of the C code fired (the process dies), or the model met undefined behaviour -/
def RErr.isAbort : RErr → Bool
  | .base (.assertFail _) => true
  | .base (.oob _) => true
  | _ => false

/-! ## insert_raw_data_units -/

structure RawRes where
  out : Bytes            -- bytes stored from `*packet` on
  pLeft : Nat
  lastDu : Nat           -- `*last_du_size`
  rest : Bytes           -- `*raw` .. end: samples not converted
deriving Repr

/-- one "monochrome 4:2:2 samples" data unit: id, length, flags + field parity + line offset,
    first_pixel_position [16], n_pixels, samples (dvb_mux.c:840-858 / 885-899) -/
def rawUnit (fixed : Bool) (lofp : Nat) (first last : Bool) (fpp : Nat) (px : Bytes) : Bytes :=
  let b2 := lofp + (if first then 0x80 else 0) + (if last then 0x40 else 0)
  if fixed then
    [DU_MONO, 0x2C, b2 % 256, (fpp >>> 8) % 256, fpp % 256, px.length % 256] ++ px
      ++ List.replicate (0x2C - 4 - px.length) 0xFF
  else [DU_MONO, (4 + px.length) % 256, b2 % 256, (fpp >>> 8) % 256, fpp % 256, px.length % 256] ++ px

/-- the `while (r_left > 0)` loop; `r` are the samples left, `fpp` the running first_pixel_position -/
def insertRawLoop (fixed stuffing : Bool) (lofp nTotal : Nat) : Nat → Nat → Nat → Nat → Bytes → RawRes
  | 0, pLeft, _, lastDu, r => { out := [], pLeft, lastDu, rest := r }
  | fuel + 1, pLeft, fpp, lastDu, r =>
    if r.length = 0 then { out := [], pLeft, lastDu, rest := r }
    else
      let minDu := if fixed then 46 else 7
      if minDu > pLeft then { out := [], pLeft, lastDu, rest := r }
      else
        let critPLeft := if stuffing then 2 + 4 + 251 + 1 else 0
        let n :=
          if fixed then min r.length (0x2C - 4)
          else if critPLeft = pLeft then min r.length 250
          else min (min r.length 251) (pLeft - 6)
        let du := if fixed then 46 else 6 + n
        let u := rawUnit fixed lofp (r.length == nTotal) (r.length == n) fpp (r.take n)
        let res := insertRawLoop fixed stuffing lofp nTotal fuel (pLeft - du) (fpp + n) du (r.drop n)
        { res with out := u ++ res.out }

/-- `insert_raw_data_units`: `.error` = the `VBI_ERR_*` returned before anything is stored -/
def insertRaw (pLeft : Nat) (r : Bytes) (fixed : Bool) (videostd line fpp nTotal : Nat) (stuffing : Bool) :
    Except RErr RawRes :=
  let std : Option Nat :=
    if videostd &&& VIDEOSTD_525 ≠ 0 then (if videostd &&& VIDEOSTD_625 ≠ 0 then none else some 263)
    else if videostd &&& VIDEOSTD_625 ≠ 0 then some 313 else none
  match std with
  | none => .error .ambiguousVideostd
  | some f2 =>
    let endPos := (fpp + nTotal) % 2 ^ 32
    if r.length > nTotal ∨ endPos > 720 ∨ endPos < nTotal then .error .sampleNumber
    else
      let (l, lofp) := if line ≥ f2 then (line - f2, 0) else (line, 0x20)
      -- `(unsigned int) line - 7 > 23 - 7`
      if (l + 2 ^ 32 - 7) % 2 ^ 32 > 16 then .error (.base .lineNumber)
      else
        .ok (insertRawLoop fixed stuffing (lofp + l) nTotal r.length pLeft
              ((fpp + (nTotal - r.length)) % 2 ^ 32) 0 r)

/-! ## vbi_dvb_multiplex_raw (`*packet`, `*raw` non-NULL) -/

structure MrResult where
  ok : Bool
  out : Bytes
  packetLeft : Nat
  rawLeft : Nat
deriving Repr

def multiplexRaw (packetLeft : Nat) (r : Bytes) (dataId videostd line fpp nTotal : Nat) (stuffing : Bool) :
    Except Err MrResult :=
  let fail : MrResult := { ok := false, out := [], packetLeft, rawLeft := r.length }
  if packetLeft < 2 then .ok fail
  else
    let fixed := fixedLengthFormat dataId
    if fixed ∧ packetLeft % 46 > 0 then .ok fail
    else if r.length = 0 then .ok fail
    else
      match insertRaw packetLeft r fixed videostd line fpp nTotal stuffing with
      | .error _ => .ok fail
      | .ok res =>
        let left := packetLeft - res.out.length
        if stuffing then do
          let b ← encodeStuffing res.out left res.lastDu fixed
          .ok { ok := true, out := b, packetLeft := 0, rawLeft := res.rest.length }
        else .ok { ok := true, out := res.out, packetLeft := left, rawLeft := res.rest.length }

/-! ## sampling parameters -/

/-- the fields of `vbi_sampling_par` (libzvbi 0.2) the multiplexer looks at; the others are fixed
    by the harness to the only values `valid_sampling_par` admits (scanning 625, YUV420,
    13.5 MHz, synchronous) -/
structure Sp where
  offset : Nat          -- `int`, non-negative here
  spl : Nat             -- bytes_per_line
  start0 : Nat
  count0 : Nat
  start1 : Nat
  count1 : Nat
  interlaced : Bool := false
deriving Repr, DecidableEq

/-- `range_check` of sampling_par.c -/
def rangeCheck (start count mn mx : Nat) : Bool :=
  start ≥ mn && (start + count) % 2 ^ 32 ≤ mx && (start + count) % 2 ^ 32 ≥ start

/-- `valid_sampling_par` (dvb_mux.c:1210) followed by `_vbi_sampling_par_valid_log` -/
def validSp (sp : Sp) : Bool :=
  if sp.offset < BT601_625_OFFSET then false
  else if sp.offset + sp.spl > BT601_625_OFFSET + 720 then false
  else if sp.spl = 0 then false
  else if sp.count0 = 0 ∧ sp.count1 = 0 then false
  else if sp.start0 ≠ 0 ∧ ¬ rangeCheck sp.start0 sp.count0 1 311 then false
  else if sp.start1 ≠ 0 ∧ ¬ rangeCheck sp.start1 sp.count1 312 625 then false
  else if sp.interlaced ∧ (sp.count0 ≠ sp.count1 ∨ sp.count0 = 0) then false
  else true

/-- `samples_pointer`: the `spl` samples of frame line `line` -/
def samplesPointer (raw : Option Bytes) (sp : Option Sp) (line : Nat) : Except RErr Bytes :=
  match raw, sp with
  | none, _ => .error (.base .noRawData)
  | some _, none => .error .samplingPar
  | some raw, some sp =>
    if line = 0 then .error (.base .lineNumber)
    else
      -- field = (line >= 313)
      let start := if line ≥ 313 then sp.start1 else sp.start0
      let count := if line ≥ 313 then sp.count1 else sp.count0
      if line < start then .error .rawBufferOverflow
      else if line - start ≥ count then .error .rawBufferOverflow
      else
        let row := if sp.interlaced then (line - start) * 2 + (if line ≥ 313 then 1 else 0)
                   else if line ≥ 313 then line - start + sp.count0 else line - start
        if (row + 1) * sp.spl > raw.length then .error (.base (.oob "samples_pointer: line outside the raw buffer"))
        else .ok ((raw.drop (row * sp.spl)).take sp.spl)

/-! ## generate_pes_packet with raw lines -/

/-- `mx->raw_samples_left`, `raw_line`, `raw_offset`, `raw_samples_per_line`, `raw_samples[]` -/
structure RawSt where
  left : Nat := 0
  line : Nat := 0
  offset : Nat := 0
  spl : Nat := 0
  samples : Bytes := []
deriving Repr, DecidableEq

/-- how `last_du_size` is updated after an insert call that reported `du`:
    unchanged tree: overwritten; repaired tree: kept when nothing was stored -/
def nextLastDu (keep : Bool) (lastDu du : Nat) : Nat :=
  if keep then (if du > 0 then du else lastDu) else du

/-- the `for (;;)` of `generate_pes_packet`.
    `.ok (bytes, last_du_size, unconverted lines, raw state)`; `.error (err, lines from the offending one on)` -/
def genLoopR (keep : Bool) (mask : Nat) (fixed : Bool) (raw : Option Bytes) (sp : Option Sp) :
    Nat → Nat → Nat → Nat → RawSt → List Sliced →
    Except (RErr × List Sliced) (Bytes × Nat × List Sliced × RawSt)
  | 0, _, _, _, _, todo => .error (.base (.assertFail "model fuel"), todo)
  | fuel + 1, pLeft, lastLine, lastDu, st, todo =>
    match scanSeg lastLine todo with
    | .error off => .error (.base .lineOrder, off)
    | .ok (seg, ll, rest) =>
      let r := insertSliced mask fixed pLeft (segStart lastLine) 0 seg
      match r.err with
      | some e => .error (.base e, r.rest ++ rest)
      | none =>
        let lastDu := nextLastDu keep lastDu r.lastDu
        if r.rest ≠ [] then .ok (r.out, lastDu, r.rest ++ rest, st)
        else
          match rest with
          | [] => .ok (r.out, lastDu, [], st)
          | rawLine :: rest' =>
            if mask &&& SL_VBI625 = 0 then
              match genLoopR keep mask fixed raw sp fuel r.pLeft ll lastDu st rest' with
              | .error e => .error e
              | .ok (o, du, left, st') => .ok (r.out ++ o, du, left, st')
            else
              -- new or continued raw VBI line
              let smp : Except RErr Bytes :=
                if st.left = 0 then samplesPointer raw sp rawLine.line else .ok (st.samples.take st.left)
              match smp, sp with
              | .error e, _ => .error (e, rawLine :: rest')
              | .ok _, none => .error (.base (.oob "sp == NULL dereferenced"), rawLine :: rest')
              | .ok samples, some sp' =>
                -- `mx->raw_samples_left = sp->samples_per_line` for a new line
                let left := if st.left = 0 then sp'.spl else st.left
                if left > 720 then .error (.base (.assertFail "dvb_mux.c:1522 raw_samples_left <= 720"), rawLine :: rest')
                else
                  match insertRaw r.pLeft samples fixed VIDEOSTD_625 rawLine.line
                      ((sp'.offset + 2 ^ 32 - BT601_625_OFFSET) % 2 ^ 32) sp'.spl true with
                  | .error e => .error (e, rawLine :: rest')
                  | .ok rr =>
                    let lastDu := nextLastDu keep lastDu rr.lastDu
                    if rr.rest.length > 0 then
                      -- not enough space: remember the rest for the next packet
                      .ok (r.out ++ rr.out, lastDu, rawLine :: rest',
                           { left := rr.rest.length, line := rawLine.line, offset := sp'.offset, spl := sp'.spl,
                             samples := rr.rest })
                    else
                      match genLoopR keep mask fixed raw sp fuel rr.pLeft ll lastDu { st with left := 0 } rest' with
                      | .error e => .error e
                      | .ok (o, du, left, st') => .ok (r.out ++ rr.out ++ o, du, left, st')

/-- `generate_pes_packet`, source shape "the test `1 == p_left && last_du_size >= 257` follows BOTH size branches"
    (fill up to `min_packet_size` and round up to a multiple of 184), /repo since b15a657:
    `.ok (PES packet bytes, unconverted lines, raw state)` -/
def generatePesRBoth (keep : Bool) (cfg : Cfg) (st : RawSt) (lines : List Sliced) (mask : Nat) (raw : Option Bytes)
    (sp : Option Sp) (pts : Nat) : Except (RErr × List Sliced) (Bytes × List Sliced × RawSt) :=
  let fixed := fixedLengthFormat cfg.dataId
  -- the continuation check (dvb_mux.c:1442)
  let interrupted : Except RErr Bool :=
    if st.left > 0 then
      match lines, sp with
      | [], _ => .ok true
      | s :: _, some sp' => .ok (s.id ≠ SL_VBI625 ∨ st.line ≠ s.line ∨ st.offset ≠ sp'.offset ∨ st.spl ≠ sp'.spl)
      | s :: _, none => if s.id ≠ SL_VBI625 ∨ st.line ≠ s.line then .ok true else .error (.base (.oob "sp == NULL dereferenced"))
    else .ok false
  match interrupted with
  | .error e => .error (e, lines)
  | .ok true => .error (.rawDataInterruption, lines)
  | .ok false =>
    match genLoopR keep mask fixed raw sp (lines.length + 1) (cfg.maxSize - 46) 0 0 st lines with
    | .error e => .error e
    | .ok (out, lastDu, left, st') =>
      let size0 := 46 + out.length
      let pLeft :=
        if size0 < cfg.minSize then cfg.minSize - size0
        else if size0 % 184 > 0 then 184 - size0 % 184 else 0
      -- repaired tree: one byte after a raw unit of maximum size -> one more TS payload
      let pLeft := if keep ∧ pLeft = 1 ∧ lastDu ≥ 257 then pLeft + 184 else pLeft
      let size := size0 + pLeft
      match encodeStuffing out pLeft lastDu fixed with
      | .error e => .error (.base e, left)
      | .ok body => .ok (pesHeader size pts cfg.dataId ++ body, left, st')

/-- `generate_pes_packet`, source shape "the test `1 == p_left && last_du_size >= 257` sits INSIDE the round-up branch
    `if (remainder > 0) { ... }`" and is not applied when the packet is filled up to `min_packet_size` (seeded change C06-e;
    round 6).  Everything else as in `generatePesRBoth`. -/
def generatePesRRound (keep : Bool) (cfg : Cfg) (st : RawSt) (lines : List Sliced) (mask : Nat) (raw : Option Bytes)
    (sp : Option Sp) (pts : Nat) : Except (RErr × List Sliced) (Bytes × List Sliced × RawSt) :=
  let fixed := fixedLengthFormat cfg.dataId
  -- the continuation check (dvb_mux.c:1442)
  let interrupted : Except RErr Bool :=
    if st.left > 0 then
      match lines, sp with
      | [], _ => .ok true
      | s :: _, some sp' => .ok (s.id ≠ SL_VBI625 ∨ st.line ≠ s.line ∨ st.offset ≠ sp'.offset ∨ st.spl ≠ sp'.spl)
      | s :: _, none => if s.id ≠ SL_VBI625 ∨ st.line ≠ s.line then .ok true else .error (.base (.oob "sp == NULL dereferenced"))
    else .ok false
  match interrupted with
  | .error e => .error (e, lines)
  | .ok true => .error (.rawDataInterruption, lines)
  | .ok false =>
    match genLoopR keep mask fixed raw sp (lines.length + 1) (cfg.maxSize - 46) 0 0 st lines with
    | .error e => .error e
    | .ok (out, lastDu, left, st') =>
      let size0 := 46 + out.length
      let pLeft :=
        if size0 < cfg.minSize then cfg.minSize - size0
        else if size0 % 184 > 0 then
          -- the test inside `if (remainder > 0) { p_left = 184 - remainder; ... }`
          (if keep ∧ 184 - size0 % 184 = 1 ∧ lastDu ≥ 257 then 184 - size0 % 184 + 184 else 184 - size0 % 184)
        else 0
      let size := size0 + pLeft
      match encodeStuffing out pLeft lastDu fixed with
      | .error e => .error (.base e, left)
      | .ok body => .ok (pesHeader size pts cfg.dataId ++ body, left, st')

/-- `generate_pes_packet` as it is in the tree under test: `Zvbi.Gen.muxBumpBothPaths` (regenerated from the source by
    translate/gen_muxflags.py on every run) says where the test `1 == p_left && last_du_size >= 257` sits.  The theorems are
    proved through `generatePesR_both` (`Mux/PesShape.lean`), which holds only for the shape of /repo: a tree with the
    test moved into the round-up branch still has a model the driver follows, but the proofs no longer build. -/
def generatePesR (keep : Bool) (cfg : Cfg) (st : RawSt) (lines : List Sliced) (mask : Nat) (raw : Option Bytes)
    (sp : Option Sp) (pts : Nat) : Except (RErr × List Sliced) (Bytes × List Sliced × RawSt) :=
  match Zvbi.Gen.muxBumpBothPaths with
  | true => generatePesRBoth keep cfg st lines mask raw sp pts
  | false => generatePesRRound keep cfg st lines mask raw sp pts

/-! ## vbi_dvb_mux_feed with `raw`, `sp` -/

structure RMux where
  mux : Mux := {}
  raw : RawSt := {}
deriving Repr, DecidableEq

structure FeedROut where
  ok : Bool
  calls : List (Option Bytes)
  abort : Option RErr := none       -- an `assert` of the C code fired (or the model met undefined behaviour)
deriving Repr

def FeedROut.bytes (o : FeedROut) : Bytes := (o.calls.filterMap id).flatten

/-- `vbi_dvb_mux_feed (mx, sliced, n, mask, raw, sp, pts)` with a callback that always returns TRUE -/
def feedR (keep : Bool) (m : RMux) (lines : List Sliced) (mask : Nat) (raw : Option Bytes) (sp : Option Sp)
    (pts : Nat) : RMux × FeedROut :=
  match sp with
  | some sp' =>
    if ¬ validSp sp' then (m, { ok := false, calls := [] }) else go
  | none => go
where
  go : RMux × FeedROut :=
    let mx := dropPending m.mux
    match generatePesR keep mx.cfg m.raw lines mask raw sp pts with
    | .error (e, _) =>
      ({ mux := mx, raw := { m.raw with left := 0 } },
       { ok := false, calls := [], abort := if e.isAbort then some e else none })
    | .ok (pes, left, st') =>
      if left ≠ [] then ({ mux := mx, raw := { st' with left := 0 } }, { ok := false, calls := [] })
      else if mx.cfg.pid = 0 then ({ mux := mx, raw := st' }, { ok := true, calls := [some pes] })
      else
        let pkts := tsPackets mx.cfg.pid mx.cc pes
        ({ mux := { mx with cc := (mx.cc + pkts.length) % 2 ^ 32 }, raw := st' },
         { ok := true, calls := pkts.map some })

end Zvbi.Mux
