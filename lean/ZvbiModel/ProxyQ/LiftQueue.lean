import ZvbiModel.ProxyQ.LiftBasic
/-!
# Lifting, part 2: the queue operations of the daemon model

`Core` / `Settled` on states of the daemon model, and the functions of `Model.lean` that only touch the queue
and the cursors: `releaseOwn`, `closeClient`, `forwardLoop` (send queued frames), `forceLoop` (overflow),
`forwardData` (capture), `releaseAll` (flush).  Each lemma has the form: under the invariant the function does
not fail (no assertion, no dangling, no NULL cursor) and the invariant holds for its result.
-/
namespace Zvbi.ProxyQ
open Zvbi.Gen.ProxyQ

def views (s : State) : List CV := s.clients.map Client.view

def Core (cfg : Cfg) (s : State) : Prop := CoreV cfg s.dev (views s)

def Settled (cfg : Cfg) (s : State) : Prop := SettledV cfg s.dev (views s)

/-- the client at position `i` has left state FORWARD (close pending or done) while it still had services: the
device's service set is stale until `vbi_proxyd_update_services` runs after the client is unlinked -/
def Uns (s : State) (i : Nat) : Prop :=
  ∃ c, s.clients[i]? = some c ∧ (c.state = .closed ∨ c.state = .waitClose) ∧ c.allServices ≠ 0

/-- the client at position `i` is CLOSED and still had services -/
def UnsC (s : State) (i : Nat) : Prop :=
  ∃ c, s.clients[i]? = some c ∧ c.state = .closed ∧ c.allServices ≠ 0

theorem UnsC.toUns {s : State} {i : Nat} (h : UnsC s i) : Uns s i := by
  obtain ⟨c, hc, hst, hne⟩ := h
  exact ⟨c, hc, Or.inl hst, hne⟩

/-- the device record without the queue -/
def devRest (d : Dev) : Dev := { d with q := [], free := 0 }

theorem views_getElem? {s : State} {i : Nat} {c : Client} (h : s.clients[i]? = some c) : (views s)[i]? = some c.view := by
  unfold views; rw [List.getElem?_map, h]; rfl

theorem views_setClient (s : State) (i : Nat) (c : Client) : views (setClient s i c) = (views s).set i c.view := by
  unfold views setClient; simp [List.map_set]

theorem Core.of_eq {cfg : Cfg} {s s' : State} (h : Core cfg s) (hd : s'.dev = s.dev) (hc : s'.clients = s.clients) :
    Core cfg s' := by
  unfold Core views at *; rw [hd, hc]; exact h

theorem Settled.of_eq {cfg : Cfg} {s s' : State} (h : Settled cfg s) (hd : s'.dev = s.dev) (hc : s'.clients = s.clients) :
    Settled cfg s' := by
  unfold Settled views at *; rw [hd, hc]; exact h

theorem SettledV.congr_dev {cfg : Cfg} {d d' : Dev} {vs : List CV} (h : SettledV cfg d vs)
    (ho : d'.opened = d.opened) (ha : d'.allServices = d.allServices)
    (hm : d'.maxLines = d.maxLines := by rfl) (hac : d'.active = d.active := by rfl) : SettledV cfg d' vs :=
  ⟨h.gs, fun hh => h.os (by rw [← ho]; exact hh), fun hh => by rw [ha]; exact h.un (by rw [← ho]; exact hh),
   fun hh => by rw [hm, hac]; exact h.lines (by rw [← ho]; exact hh)⟩

theorem unionV_set {vs : List CV} {i : Nat} {v v' : CV} (hi : vs[i]? = some v) (hc : contrib v' = contrib v) :
    unionV (vs.set i v') = unionV vs := by
  unfold unionV
  rw [List.map_set, hc]
  have : (vs.map contrib)[i]? = some (contrib v) := by rw [List.getElem?_map, hi]; rfl
  rw [set_eq_self_of_getElem? this]

theorem settledV_set {cfg : Cfg} {d : Dev} {vs : List CV} {i : Nat} {v v' : CV} (h : SettledV cfg d vs)
    (hi : vs[i]? = some v) (hc : contrib v' = contrib v)
    (hg : v'.state = .forward → v'.allServices = allOf cfg v'.services) : SettledV cfg d (vs.set i v') :=
  ⟨forall_mem_set h.gs hg, fun ho => by rw [unionV_set hi hc]; exact h.os ho,
   fun ho => by rw [unionV_set hi hc]; exact h.un ho, h.lines⟩

/-- a client whose view does not change -/
theorem Core.setClient_same {cfg : Cfg} {s : State} {i : Nat} {c c' : Client} (h : Core cfg s)
    (hi : s.clients[i]? = some c) (hv : c'.view = c.view) : Core cfg (setClient s i c') := by
  unfold Core; rw [views_setClient, hv]
  have := views_getElem? hi
  rw [set_eq_self_of_getElem? this]; exact h

theorem Settled.setClient_same {cfg : Cfg} {s : State} {i : Nat} {c c' : Client} (h : Settled cfg s)
    (hi : s.clients[i]? = some c) (hv : c'.view = c.view) : Settled cfg (setClient s i c') := by
  unfold Settled; rw [views_setClient, hv]
  have := views_getElem? hi
  rw [set_eq_self_of_getElem? this]; exact h

theorem setClient_getElem? {s : State} {i : Nat} {c c' : Client} (hi : s.clients[i]? = some c) :
    (setClient s i c').clients[i]? = some c' := by
  unfold setClient
  show (s.clients.set i c')[i]? = some c'
  rw [List.getElem?_set_self (lt_of_getElem?_eq hi)]

/-! ## releaseOwn / closeClient -/

theorem releaseOwn_ok {cfg : Cfg} {s : State} {i : Nat} {fate : Fate} (hf : fateOk fate) (h : Core cfg s) :
    ∃ s1, releaseOwn s i fate = .ok s1 ∧ Core cfg s1 ∧ (Settled cfg s → Settled cfg s1) ∧
      devRest s1.dev = devRest s.dev ∧ s1.msgs = s.msgs ∧
      (s.clients[i]? = none → s1 = s) ∧
      (∀ c, s.clients[i]? = some c → ∃ c1, s1.clients[i]? = some c1 ∧ c1.backlog = 0 ∧ c1.state = c.state ∧
        c1.allServices = c.allServices ∧ c1.services = c.services ∧ c1.eof = c.eof ∧ c1.id = c.id) ∧
      s1.clients.length = s.clients.length ∧ (∀ j, j ≠ i → s1.clients[j]? = s.clients[j]?) := by
  cases hi : s.clients[i]? with
  | none =>
    refine ⟨s, by simp [releaseOwn, hi], h, id, rfl, rfl, fun _ => rfl, ?_, rfl, fun _ _ => rfl⟩
    intro c hc; cases hc
  | some c =>
    obtain ⟨q', f', hr, hcore⟩ := coreV_releaseAll fate hf h (views_getElem? hi)
    have hr' : releaseAllQ s.dev.q s.dev.free c.backlog = .ok (q', f') := hr
    let c1 : Client := { c with backlog := 0, done := ((s.dev.q.take c.backlog).map (·.frame)).map (·, fate) ++ c.done }
    refine ⟨setClient { s with dev := { s.dev with q := q', free := f' } } i c1, ?_, ?_, ?_, rfl, rfl, ?_, ?_, ?_, ?_⟩
    · simp only [releaseOwn, hi, hr']; rfl
    · unfold Core; rw [views_setClient]; exact hcore
    · intro hs
      unfold Settled; rw [views_setClient]
      exact settledV_set (hs.congr_dev rfl rfl) (views_getElem? hi) rfl (hs.gs c.view (mem_of_getElem?_eq (views_getElem? hi)))
    · intro hn; cases hn
    · intro c' hc'
      cases hc'
      exact ⟨c1, setClient_getElem? (s := { s with dev := { s.dev with q := q', free := f' } }) hi, rfl, rfl, rfl, rfl, rfl, rfl⟩
    · show (s.clients.set i c1).length = s.clients.length
      simp
    · intro j hj
      show (s.clients.set i c1)[j]? = s.clients[j]?
      rw [List.getElem?_set_ne (fun h => hj h.symm)]

/-- `vbi_proxyd_close`: succeeds; afterwards the client is CLOSED without queued frames; the device's service
set is stale exactly if the client had services -/
theorem closeClient_ok {cfg : Cfg} {s : State} {i : Nat} (h : Core cfg s) (hs : Settled cfg s ∨ Uns s i) :
    ∃ s1, closeClient s i = .ok s1 ∧ Core cfg s1 ∧ (Settled cfg s1 ∨ UnsC s1 i) ∧
      devRest s1.dev = devRest s.dev ∧
      (∀ c, s.clients[i]? = some c → ∃ c1, s1.clients[i]? = some c1 ∧ c1.state = .closed) := by
  cases hi : s.clients[i]? with
  | none =>
    refine ⟨s, by simp [closeClient, hi], h, ?_, rfl, ?_⟩
    · rcases hs with hs | ⟨c, hc, _⟩
      · exact Or.inl hs
      · rw [hi] at hc; cases hc
    · intro c hc; cases hc
  | some c =>
    by_cases hcl : c.state = .closed
    · refine ⟨s, by simp [closeClient, hi, hcl], h, ?_, rfl, ?_⟩
      · rcases hs with hs | ⟨c', hc', _, hne⟩
        · exact Or.inl hs
        · rw [hi] at hc'; cases hc'; exact Or.inr ⟨c, hi, hcl, hne⟩
      · intro c' hc'; cases hc'; exact ⟨c, hi, hcl⟩
    · obtain ⟨s1, hr, hcore1, hset1, hdev1, _, _, hc1, _, _⟩ := releaseOwn_ok (cfg := cfg) (s := s) (i := i) (fate := Fate.closed) trivial h
      obtain ⟨c1, hi1, hb1, hst1, has1, hsv1, heof1, hid1⟩ := hc1 c hi
      let c2 : Client := { c1 with state := .closed, out := none }
      let s2 : State := { setClient s1 i c2 with msgs := if c.eof then s1.msgs else s1.msgs ++ [(c.id, none)] }
      have hne : (c.state == CState.closed) = false := by
        cases hh : c.state <;> simp_all
      have hpc1 := hcore1.pc _ (mem_of_getElem?_eq (views_getElem? hi1))
      have hcore2 : Core cfg (setClient s1 i c2) := by
        unfold Core; rw [views_setClient]
        refine coreV_set hcore1 (views_getElem? hi1) rfl ?_
        refine ⟨fun hp => ?_, fun hf => (by cases hf), fun hf => (by cases hf), fun hsub => ?_, hpc1.gh, hpc1.ov⟩
        · have : c2.view.backlog = 0 := hb1
          omega
        · have : c2.view.subscribed = false := rfl
          rw [this] at hsub; cases hsub
      refine ⟨s2, ?_, hcore2.of_eq rfl rfl, ?_, hdev1, ?_⟩
      · simp only [closeClient, hi, hne, hr, hi1]; rfl
      · -- settled or stale
        by_cases ha : c.allServices = 0
        · left
          have hset : Settled cfg s1 := by
            rcases hs with hs | ⟨c', hc', _, hne0⟩
            · exact hset1 hs
            · rw [hi] at hc'; cases hc'; exact absurd ha hne0
          have : Settled cfg (setClient s1 i c2) := by
            unfold Settled; rw [views_setClient]
            refine settledV_set hset (views_getElem? hi1) ?_ (fun hf => (by cases hf))
            show contrib c2.view = contrib c1.view
            have h0 : c1.allServices = 0 := by rw [has1]; exact ha
            unfold contrib
            show (if CState.closed == CState.forward then c1.allServices else 0) = (if c1.state == CState.forward then c1.allServices else 0)
            rw [h0]; simp
          exact this.of_eq rfl rfl
        · right
          refine ⟨c2, setClient_getElem? hi1, rfl, ?_⟩
          show c1.allServices ≠ 0
          rw [has1]; exact ha
      · intro c' hc'
        exact ⟨c2, setClient_getElem? hi1, rfl⟩

theorem handleWrite_view (c : Client) : (handleWrite c).1.view = c.view := by
  unfold handleWrite
  cases ho : c.out with
  | none => rfl
  | some mr =>
    obtain ⟨m, rem⟩ := mr
    simp only
    split
    · rfl
    · split
      · rfl
      · split <;> rfl

theorem view_eq_iff {c c' : Client} (h : c'.view = c.view) :
    c'.state = c.state ∧ c'.services = c.services ∧ c'.allServices = c.allServices ∧ c'.backlog = c.backlog ∧
    c'.expected = c.expected ∧ c'.done = c.done := by
  unfold Client.view at h
  injection h with h1 h2 h3 h4 h5 h6
  exact ⟨h1, h2, h3, h4, h5, h6⟩

/-! ## forwarding queued frames to one client -/

theorem forwardLoop_ok (cfg : Cfg) : ∀ (fuel : Nat) (s : State) (i : Nat), Core cfg s → Settled cfg s →
    ∃ s', forwardLoop fuel s i = .ok s' ∧ Core cfg s' ∧ (Settled cfg s' ∨ UnsC s' i) ∧
      devRest s'.dev = devRest s.dev := by
  intro fuel
  induction fuel with
  | zero => intro s i h hs; exact ⟨s, rfl, h, Or.inl hs, rfl⟩
  | succ fuel ih =>
    intro s i h hs
    cases hi : s.clients[i]? with
    | none => exact ⟨s, by simp [forwardLoop, hi], h, Or.inl hs, rfl⟩
    | some c =>
      by_cases hb0 : c.backlog = 0
      · exact ⟨s, by simp [forwardLoop, hi, hb0], h, Or.inl hs, rfl⟩
      · have hvi := views_getElem? hi
        have hble : c.backlog ≤ s.dev.q.length :=
          h.q.bound _ (List.mem_map.mpr ⟨c.view, mem_of_getElem?_eq hvi, rfl⟩)
        have hnd : ¬ s.dev.q.length < c.backlog := by omega
        obtain ⟨q', f', hr, hcore⟩ := coreV_release Fate.sent trivial h hvi (by show 0 < c.backlog; omega)
        have hr' : releaseQ s.dev.q s.dev.free c.backlog = .ok (q', f') := hr
        simp only [forwardLoop, hi, hb0, hnd, if_false]
        generalize hw : handleWrite { c with out := some (OutMsg.sliced (s.dev.q.getD (c.backlog - 1) default).frame.seq
            (s.dev.q.getD (c.backlog - 1) default).frame.ts
            (filterLines c.maxLines c.allServices (s.dev.q.getD (c.backlog - 1) default).frame.lines),
            (OutMsg.sliced (s.dev.q.getD (c.backlog - 1) default).frame.seq
            (s.dev.q.getD (c.backlog - 1) default).frame.ts
            (filterLines c.maxLines c.allServices (s.dev.q.getD (c.backlog - 1) default).frame.lines)).size) } = r
        have hv := handleWrite_view { c with out := some (OutMsg.sliced (s.dev.q.getD (c.backlog - 1) default).frame.seq
            (s.dev.q.getD (c.backlog - 1) default).frame.ts
            (filterLines c.maxLines c.allServices (s.dev.q.getD (c.backlog - 1) default).frame.lines),
            (OutMsg.sliced (s.dev.q.getD (c.backlog - 1) default).frame.seq
            (s.dev.q.getD (c.backlog - 1) default).frame.ts
            (filterLines c.maxLines c.allServices (s.dev.q.getD (c.backlog - 1) default).frame.lines)).size) }
        rw [hw] at hv
        obtain ⟨c1, blocked, ok, completed⟩ := r
        simp only
        cases ok with
        | false =>
          obtain ⟨s1, hc, hcore1, hs1, hd1, _⟩ := closeClient_ok (i := i) h (Or.inl hs)
          exact ⟨s1, by simpa using hc, hcore1, hs1, hd1⟩
        | true =>
          simp only [Bool.not_true, Bool.false_eq_true, if_false, hr']
          have hv' : c1.view = c.view := hv
          obtain ⟨e1, e2, e3, e4, e5, e6⟩ := view_eq_iff hv'
          -- the state after the release
          let c2 : Client := { c1 with backlog := c.backlog - 1,
                                       done := ((s.dev.q.getD (c.backlog - 1) default).frame, Fate.sent) :: c1.done }
          let s1 : State := setClient { s with dev := { s.dev with q := q', free := f' } } i c2
          have hc2v : c2.view = CV.mk c.view.state c.view.services c.view.allServices (c.view.backlog - 1) c.view.expected
              (((s.dev.q.getD (c.view.backlog - 1) default).frame, Fate.sent) :: c.view.done) := by
            simp only [Client.view, c2]
            rw [e1, e2, e3, e5, e6]
          have hcore1 : Core cfg s1 := by
            unfold Core; rw [views_setClient, hc2v]; exact hcore
          have hset1 : Settled cfg s1 := by
            unfold Settled; rw [views_setClient, hc2v]
            exact settledV_set (hs.congr_dev rfl rfl) hvi rfl (hs.gs c.view (mem_of_getElem?_eq hvi))
          have hd1 : devRest s1.dev = devRest s.dev := rfl
          cases completed with
          | none =>
            cases blocked with
            | true => exact ⟨s1, rfl, hcore1, Or.inl hset1, hd1⟩
            | false =>
              obtain ⟨s', hf', hc', hs', hd'⟩ := ih s1 i hcore1 hset1
              exact ⟨s', by rw [if_neg Bool.false_ne_true]; exact hf', hc', hs', by rw [hd', hd1]⟩
          | some cm =>
            have hcore2 : Core cfg { s1 with msgs := s1.msgs ++ [(c.id, some cm)] } := hcore1.of_eq rfl rfl
            have hset2 : Settled cfg { s1 with msgs := s1.msgs ++ [(c.id, some cm)] } := hset1.of_eq rfl rfl
            cases blocked with
            | true => exact ⟨_, rfl, hcore2, Or.inl hset2, hd1⟩
            | false =>
              obtain ⟨s', hf', hc', hs', hd'⟩ := ih _ i hcore2 hset2
              exact ⟨s', by rw [if_neg Bool.false_ne_true]; exact hf', hc', hs', by rw [hd']; exact hd1⟩

end Zvbi.ProxyQ
