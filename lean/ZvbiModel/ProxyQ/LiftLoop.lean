import ZvbiModel.ProxyQ.LiftService
/-!
# Lifting, part 5: messages, the client loop, one iteration of the main loop, whole histories

`inv_reachable`: for every device (`Cfg`) and every history of ops, `run` does not fail and the state it
reaches satisfies `Core` and `Settled`.
-/
namespace Zvbi.ProxyQ
open Zvbi.Gen.ProxyQ

theorem setClient_setClient (s : State) (i : Nat) (a b : Client) : setClient (setClient s i a) i b = setClient s i b := by
  unfold setClient; simp

theorem setClient_dev (s : State) (i : Nat) (a : Client) : (setClient s i a).dev = s.dev := rfl

/-- the per-client facts of a client without queued frames that is not (or no longer) subscribed -/
theorem pc_idle {cfg : Cfg} {d : Dev} {v v' : CV} (p : PC cfg d v) (hb : v.backlog = 0) (hb' : v'.backlog = 0)
    (he : v'.expected = v.expected) (hd : v'.done = v.done) (hns : v'.subscribed = false)
    (hw : v'.state = .waitConReq → v'.allServices = 0) : PC cfg d v' := by
  refine ⟨fun hp => (by omega), fun _ => Or.inr hb', hw, fun hs => (by rw [hns] at hs; cases hs), ?_, (by rw [hd]; exact p.ov)⟩
  rw [he, hd, hb']; have := p.gh; rw [hb] at this; exact this

/-! ## `vbi_proxyd_take_service_req` -/

theorem takeServiceReq_ok {cfg : Cfg} {s : State} {i : Nat} {c : Client} (newSv strict : Nat) (h : Core cfg s)
    (hi : s.clients[i]? = some c) (hb : c.backlog = 0) :
    ∃ r, takeServiceReq cfg s i newSv strict = .ok r ∧ Core cfg r.1 ∧ Settled cfg r.1 ∧
      ∃ c', r.1.clients[i]? = some c' ∧ c'.backlog = 0 ∧ c'.state = c.state := by
  unfold takeServiceReq
  simp only [hi]
  generalize hsv : (List.range nStrict).map (fun st =>
      if (st == strict) = true then andNot (c.services.getD st 0) newSv ||| newSv else andNot (c.services.getD st 0) newSv) = sv
  -- the request is stored: only the requester's `services` change, and it has no queued frames
  have hcore0 : Core cfg (setClient s i { c with services := sv }) := by
    unfold Core; rw [views_setClient]
    have pc := h.pc _ (mem_of_getElem?_eq (views_getElem? hi))
    refine coreV_set h (views_getElem? hi) rfl ?_
    exact ⟨pc.sub, fun _ => Or.inr hb, pc.w, pc.so, pc.gh, pc.ov⟩
  obtain ⟨r, hr, hc1, hs1, hk1⟩ := updateServices_ok (some c.id) hcore0
  rw [hr]
  obtain ⟨s1, res⟩ := r
  simp only at hc1 hs1 hk1 ⊢
  obtain ⟨c1, hi1, hb1, hst1, _, _⟩ := hk1.2 i _ (setClient_getElem? (c' := { c with services := sv }) hi)
  simp only [hi1]
  have hsame : (if s1.dev.opened = true then { c1 with maxLines := cfg.count s1.dev.active } else c1).view = c1.view := by
    split <;> rfl
  have hb1' : c1.backlog = 0 := by
    have : c1.backlog ≤ c.backlog := hb1
    omega
  refine ⟨_, rfl, hc1.setClient_same hi1 hsame, hs1.setClient_same hi1 hsame, _, setClient_getElem? hi1, ?_, ?_⟩
  · split <;> exact hb1'
  · split <;> exact hst1

/-! ## the CONNECT_REQ / SERVICE_REQ / CLOSE_REQ arms of `vbi_proxyd_take_message` -/

theorem backlog_zero_of_not_forward {cfg : Cfg} {s : State} {i : Nat} {c : Client} (h : Core cfg s)
    (hi : s.clients[i]? = some c) (hn : c.state ≠ .forward) : c.backlog = 0 := by
  by_cases hb : 0 < c.backlog
  · have := (h.pc _ (mem_of_getElem?_eq (views_getElem? hi))).sub hb
    unfold CV.subscribed at this
    have e : c.view.state = c.state := rfl
    rw [e] at this
    cases hs : c.state <;> simp_all
  · omega

theorem takeMessage_ok {cfg : Cfg} {s : State} {i : Nat} (m : InMsg) (h : Core cfg s) (hs : Settled cfg s) :
    ∃ r, takeMessage cfg s i m = .ok r ∧
      ∀ s', r = some s' → Core cfg s' ∧ (Settled cfg s' ∨ Uns s' i) := by
  cases hi : s.clients[i]? with
  | none =>
    refine ⟨some s, by simp [takeMessage, hi], ?_⟩
    intro s' hs'; cases hs'; exact ⟨h, Or.inl hs⟩
  | some c =>
    have pc := h.pc _ (mem_of_getElem?_eq (views_getElem? hi))
    cases m with
    | connect sv st bc =>
      by_cases hst : c.state = .waitConReq
      · have hne : (c.state != CState.waitConReq) = false := by simp [hst]
        have hb0 : c.backlog = 0 := backlog_zero_of_not_forward h hi (by rw [hst]; intro hh; cases hh)
        have ha0 : c.allServices = 0 := pc.w hst
        -- the client enters state FORWARD
        have hcore0 : Core cfg (setClient s i { c with state := .forward, bufferCount := bc }) := by
          unfold Core; rw [views_setClient]
          refine coreV_set h (views_getElem? hi) rfl ?_
          refine pc_idle pc hb0 hb0 rfl rfl ?_ (fun hh => by cases hh)
          show ((CState.forward == CState.forward) && (c.allServices != 0)) = false
          rw [ha0]; rfl
        obtain ⟨r, hr, hc1, hs1, c1, hi1, hb1, hst1⟩ := takeServiceReq_ok sv st hcore0
          (setClient_getElem? (c' := { c with state := .forward, bufferCount := bc }) hi) hb0
        simp only [takeMessage, hi, hne, Bool.false_eq_true, if_false, hr]
        obtain ⟨s1, ok⟩ := r
        simp only at hc1 hs1 hi1 ⊢
        simp only [hi1]
        cases ok with
        | true =>
          refine ⟨_, rfl, ?_⟩
          intro s' hs'
          cases hs'
          exact ⟨hc1.setClient_same hi1 rfl, Or.inl (hs1.setClient_same hi1 rfl)⟩
        | false =>
          refine ⟨_, rfl, ?_⟩
          intro s' hs'
          simp only [Bool.false_eq_true, if_false, Option.some.injEq] at hs'
          subst hs'
          have pc1 := hc1.pc _ (mem_of_getElem?_eq (views_getElem? hi1))
          constructor
          · unfold Core; rw [views_setClient]
            refine coreV_set hc1 (views_getElem? hi1) rfl ?_
            exact pc_idle pc1 hb1 hb1 rfl rfl rfl (fun hh => by cases hh)
          · by_cases ha : c1.allServices = 0
            · left
              unfold Settled; rw [views_setClient]
              refine settledV_set hs1 (views_getElem? hi1) ?_ (fun hf => (by cases hf))
              unfold contrib
              show (if CState.waitClose == CState.forward then c1.allServices else 0) = (if c1.state == CState.forward then c1.allServices else 0)
              rw [ha]; simp
            · right
              exact ⟨_, setClient_getElem? hi1, Or.inr rfl, ha⟩
      · have hne : (c.state != CState.waitConReq) = true := by simp [hst]
        exact ⟨none, by simp [takeMessage, hi, hne], fun s' hs' => by cases hs'⟩
    | service sv st reset =>
      by_cases hst : c.state = .forward
      · have hne : (c.state != CState.forward) = false := by simp [hst]
        simp only [takeMessage, hi, hne, Bool.false_eq_true, if_false]
        -- the client's own queue is released first (also when `reset` cleared its stored requests before)
        have hrel : ∃ s1, releaseOwn (if reset = true then setClient s i { c with services := List.replicate nStrict 0 } else s) i Fate.svcChange = .ok s1 ∧
            Core cfg s1 ∧ ∃ c1, s1.clients[i]? = some c1 ∧ c1.backlog = 0 ∧ c1.state = c.state := by
          cases reset with
          | false =>
            obtain ⟨s1, hr, hc1, _, _, _, _, hk, _, _⟩ := releaseOwn_ok (cfg := cfg) (s := s) (i := i) (fate := Fate.svcChange) trivial h
            obtain ⟨c1, hi1, hb1, hst1, _⟩ := hk c hi
            exact ⟨s1, by simpa using hr, hc1, c1, hi1, hb1, hst1⟩
          | true =>
            obtain ⟨q', f', hr, hcore⟩ := coreV_releaseAll Fate.svcChange trivial h (views_getElem? hi)
            have hr' : releaseAllQ s.dev.q s.dev.free c.backlog = .ok (q', f') := hr
            let c1 : Client := { c with services := List.replicate nStrict 0, backlog := 0,
                                        done := ((s.dev.q.take c.backlog).map (·.frame)).map (·, Fate.svcChange) ++ c.done }
            let s1 : State := setClient { s with dev := { s.dev with q := q', free := f' } } i c1
            have hi0 : (setClient s i { c with services := List.replicate nStrict 0 }).clients[i]? =
                some { c with services := List.replicate nStrict 0 } := setClient_getElem? hi
            refine ⟨s1, ?_, ?_, c1, setClient_getElem? (s := { s with dev := { s.dev with q := q', free := f' } }) hi, rfl, rfl⟩
            · simp only [if_true, releaseOwn, hi0, setClient_dev, hr']
              show Except.ok (setClient _ i c1) = Except.ok (setClient _ i c1)
              congr 1
              unfold setClient; simp
            · -- first the release on the views, then the cleared requests (no queued frames any more)
              have hv0 : ((views s).set i (CV.mk c.view.state c.view.services c.view.allServices 0 c.view.expected
                    (((s.dev.q.take c.view.backlog).map (·.frame)).map (·, Fate.svcChange) ++ c.view.done)))[i]? =
                  some (CV.mk c.view.state c.view.services c.view.allServices 0 c.view.expected
                    (((s.dev.q.take c.view.backlog).map (·.frame)).map (·, Fate.svcChange) ++ c.view.done)) := by
                rw [List.getElem?_set_self (lt_of_getElem?_eq (views_getElem? hi))]
              have pc0 := hcore.pc _ (mem_of_getElem?_eq hv0)
              have := coreV_set (v' := c1.view) hcore hv0 rfl
                ⟨fun hp => absurd hp (Nat.lt_irrefl 0), fun _ => Or.inr rfl, pc0.w, pc0.so, pc0.gh, pc0.ov⟩
              unfold Core; rw [views_setClient]
              rw [List.set_set] at this
              exact this
        obtain ⟨s1, hr1, hc1, c1, hi1, hb1, hst1⟩ := hrel
        rw [hr1]
        simp only
        obtain ⟨r, hr, hc2, hs2, c2, hi2, _, _⟩ := takeServiceReq_ok sv st hc1 hi1 hb1
        rw [hr]
        obtain ⟨s2, ok⟩ := r
        simp only at hc2 hs2 hi2 ⊢
        simp only [hi2]
        refine ⟨_, rfl, ?_⟩
        intro s' hs'
        cases hs'
        exact ⟨hc2.setClient_same hi2 rfl, Or.inl (hs2.setClient_same hi2 rfl)⟩
      · have hne : (c.state != CState.forward) = true := by simp [hst]
        exact ⟨none, by simp [takeMessage, hi, hne], fun s' hs' => by cases hs'⟩
    | bye =>
      obtain ⟨s1, hr, hc1, hs1, _, _⟩ := closeClient_ok (i := i) h (Or.inl hs)
      refine ⟨some s1, by simp [takeMessage, hi, hr], ?_⟩
      intro s' hs'; cases hs'; exact ⟨hc1, hs1.imp id UnsC.toUns⟩

/-! ## `vbi_proxyd_handle_client_sockets` -/

theorem closeMap_ok {cfg : Cfg} {s : State} {i : Nat} (b : Bool) (h : Core cfg s) (hs : Settled cfg s) :
    ∃ s1, (closeClient s i).map (·, b) = .ok (s1, b) ∧ Core cfg s1 ∧ (Settled cfg s1 ∨ Uns s1 i) := by
  obtain ⟨s1, hr, hc1, hs1, _, _⟩ := closeClient_ok (i := i) h (Or.inl hs)
  exact ⟨s1, by simp [hr, Except.map], hc1, hs1.imp id UnsC.toUns⟩

theorem hcStage1_ok {cfg : Cfg} {s : State} {i : Nat} {c : Client} (h : Core cfg s) (hs : Settled cfg s)
    (hi : s.clients[i]? = some c) :
    ∃ s1 b, hcStage1 cfg s i c = .ok (s1, b) ∧ Core cfg s1 ∧ (Settled cfg s1 ∨ Uns s1 i) := by
  unfold hcStage1
  by_cases h1 : (c.rdReady && c.out.isNone) = true
  · simp only [h1, if_true]
    cases hin : c.inbox with
    | nil =>
      obtain ⟨s1, hr, hc1, hs1, _, _⟩ := closeClient_ok (i := i) h (Or.inl hs)
      exact ⟨s1, false, by simp [hr, Except.map], hc1, hs1.imp id UnsC.toUns⟩
    | cons m rest =>
      have hc0 : Core cfg (setClient s i { c with inbox := rest }) := h.setClient_same hi rfl
      have hs0 : Settled cfg (setClient s i { c with inbox := rest }) := hs.setClient_same hi rfl
      obtain ⟨r, hr, hpost⟩ := takeMessage_ok (i := i) m hc0 hs0
      simp only [hr]
      cases r with
      | some s1 =>
        obtain ⟨hc1, hs1⟩ := hpost s1 rfl
        exact ⟨s1, false, rfl, hc1, hs1⟩
      | none =>
        obtain ⟨s1, hr1, hc1, hs1, _, _⟩ := closeClient_ok (i := i) hc0 (Or.inl hs0)
        exact ⟨s1, false, by simp [hr1, Except.map], hc1, hs1.imp id UnsC.toUns⟩
  · simp only [h1, Bool.false_eq_true, if_false]
    by_cases h2 : (c.wrReady && c.out.isSome) = true
    · simp only [h2, if_true]
      have hv := handleWrite_view c
      generalize handleWrite c = r at hv
      obtain ⟨c1, blocked, ok, completed⟩ := r
      simp only at hv ⊢
      have hc1 : Core cfg (setClient s i c1) := h.setClient_same hi hv
      have hs1 : Settled cfg (setClient s i c1) := hs.setClient_same hi hv
      cases completed with
      | none =>
        cases ok with
        | true => exact ⟨_, blocked, rfl, hc1, Or.inl hs1⟩
        | false =>
          obtain ⟨s3, hr3, hc3, hs3⟩ := closeMap_ok (i := i) blocked hc1 hs1
          exact ⟨s3, blocked, hr3, hc3, hs3⟩
      | some cm =>
        have hc2 : Core cfg { setClient s i c1 with msgs := (setClient s i c1).msgs ++ [(c.id, some cm)] } := hc1.of_eq rfl rfl
        have hs2 : Settled cfg { setClient s i c1 with msgs := (setClient s i c1).msgs ++ [(c.id, some cm)] } := hs1.of_eq rfl rfl
        cases ok with
        | true => exact ⟨_, blocked, rfl, hc2, Or.inl hs2⟩
        | false =>
          obtain ⟨s3, hr3, hc3, hs3⟩ := closeMap_ok (i := i) blocked hc2 hs2
          exact ⟨s3, blocked, hr3, hc3, hs3⟩
    · simp only [h2, Bool.false_eq_true, if_false]
      exact ⟨s, false, rfl, h, Or.inl hs⟩

theorem hcStage2_ok {cfg : Cfg} {s1 : State} {i : Nat} (b : Bool) (h : Core cfg s1) (hs : Settled cfg s1 ∨ Uns s1 i) :
    ∃ s2, hcStage2 s1 i b = .ok s2 ∧ Core cfg s2 ∧ (Settled cfg s2 ∨ UnsC s2 i) := by
  unfold hcStage2
  cases hi : s1.clients[i]? with
  | none =>
    refine ⟨s1, rfl, h, ?_⟩
    rcases hs with hs | ⟨c, hc, _⟩
    · exact Or.inl hs
    · rw [hi] at hc; cases hc
  | some c1 =>
    simp only
    by_cases hwc : c1.state = .waitClose
    · have : (c1.state == CState.waitClose) = true := by simp [hwc]
      simp only [this, if_true]
      obtain ⟨s2, hr, hc2, hs2, _, hk⟩ := closeClient_ok (i := i) h hs
      exact ⟨s2, hr, hc2, hs2⟩
    · have hwc' : (c1.state == CState.waitClose) = false := by simp [hwc]
      simp only [hwc', Bool.false_eq_true, if_false]
      by_cases hcl : c1.state = .closed
      · have : (c1.state == CState.closed) = true := by simp [hcl]
        simp only [this, if_true]
        refine ⟨s1, rfl, h, ?_⟩
        rcases hs with hs | ⟨c', hc', _, hne⟩
        · exact Or.inl hs
        · rw [hi] at hc'; cases hc'
          exact Or.inr ⟨c1, hi, hcl, hne⟩
      · have hcl' : (c1.state == CState.closed) = false := by simp [hcl]
        simp only [hcl', Bool.false_eq_true, if_false]
        -- neither closing nor closed: the state is settled
        have hset : Settled cfg s1 := by
          rcases hs with hs | ⟨c', hc', hst, _⟩
          · exact hs
          · rw [hi] at hc'; cases hc'
            rcases hst with hst | hst
            · exact absurd hst hcl
            · exact absurd hst hwc
        by_cases hout : c1.out.isNone = true
        · simp only [hout, if_true]
          by_cases hchn : c1.chnInd = 0
          · have : (c1.chnInd != 0) = false := by simp [hchn]
            simp only [this, Bool.false_eq_true, if_false]
            cases b with
            | true => exact ⟨s1, rfl, h, Or.inl hset⟩
            | false =>
              obtain ⟨s2, hr, hc2, hs2, _⟩ := forwardLoop_ok cfg (c1.backlog + 1) s1 i h hset
              exact ⟨s2, by simpa using hr, hc2, hs2⟩
          · have : (c1.chnInd != 0) = true := by simp [hchn]
            simp only [this, if_true]
            exact ⟨_, rfl, h.setClient_same hi rfl, Or.inl (hset.setClient_same hi rfl)⟩
        · simp only [hout, Bool.false_eq_true, if_false]
          exact ⟨s1, rfl, h, Or.inl hset⟩

theorem handleClient_ok {cfg : Cfg} {s : State} {i : Nat} (h : Core cfg s) (hs : Settled cfg s) :
    ∃ s2, handleClient cfg s i = .ok s2 ∧ Core cfg s2 ∧ (Settled cfg s2 ∨ UnsC s2 i) := by
  unfold handleClient
  cases hi : s.clients[i]? with
  | none => exact ⟨s, rfl, h, Or.inl hs⟩
  | some c =>
    obtain ⟨s1, b, hr1, hc1, hs1⟩ := hcStage1_ok h hs hi
    simp only [hr1]
    exact hcStage2_ok b hc1 hs1

/-! ## unlinking closed clients -/

theorem orAll_cons (a : Nat) (t : List Nat) : (a :: t).foldl (· ||| ·) 0 = a ||| t.foldl (· ||| ·) 0 := by
  simp only [List.foldl_cons]
  rw [foldl_or_acc]; simp

theorem orAll_eraseIdx : ∀ (l : List Nat) (i : Nat), l[i]? = some 0 → (l.eraseIdx i).foldl (· ||| ·) 0 = l.foldl (· ||| ·) 0 := by
  intro l
  induction l with
  | nil => intro i h; simp at h
  | cons a t ih =>
    intro i h
    cases i with
    | zero =>
      simp only [List.getElem?_cons_zero, Option.some.injEq] at h
      subst h
      rw [List.eraseIdx_cons_zero, orAll_cons]; simp
    | succ i =>
      rw [List.eraseIdx_cons_succ, orAll_cons, orAll_cons, ih i (by simpa using h)]

theorem settledV_erase {cfg : Cfg} {d : Dev} {vs : List CV} {i : Nat} {v : CV} (h : SettledV cfg d vs)
    (hi : vs[i]? = some v) (hc : contrib v = 0) : SettledV cfg d (vs.eraseIdx i) := by
  have hu : unionV (vs.eraseIdx i) = unionV vs := by
    unfold unionV
    rw [map_eraseIdx]
    apply orAll_eraseIdx
    rw [List.getElem?_map, hi, ← hc]; rfl
  exact ⟨fun u hu' => h.gs u (List.mem_of_mem_eraseIdx hu'), fun ho => by rw [hu]; exact h.os ho,
         fun ho => by rw [hu]; exact h.un ho, h.lines⟩

theorem clientLoop_ok (cfg : Cfg) : ∀ (fuel : Nat) (s : State) (i : Nat), Core cfg s → Settled cfg s →
    ∃ s', clientLoop cfg fuel s i = .ok s' ∧ Core cfg s' ∧ Settled cfg s' := by
  intro fuel
  induction fuel with
  | zero => intro s i h hs; exact ⟨s, rfl, h, hs⟩
  | succ fuel ih =>
    intro s i h hs
    by_cases hlen : s.clients.length ≤ i
    · exact ⟨s, by simp [clientLoop, hlen], h, hs⟩
    · obtain ⟨s1, hr1, hc1, hs1⟩ := handleClient_ok (i := i) h hs
      simp only [clientLoop, hlen, if_false, hr1]
      cases hi : s1.clients[i]? with
      | none =>
        refine ⟨s1, rfl, hc1, ?_⟩
        rcases hs1 with hs1 | ⟨c, hc, _⟩
        · exact hs1
        · rw [hi] at hc; cases hc
      | some c =>
        simp only
        by_cases hcl : c.state = .closed
        · have hcl' : (c.state == CState.closed) = true := by simp [hcl]
          simp only [hcl', if_true]
          have hvi := views_getElem? hi
          have hns : c.view.subscribed = false := by
            unfold CV.subscribed
            have e : c.view.state = c.state := rfl
            rw [e, hcl]; rfl
          have hc2 : Core cfg { s1 with clients := s1.clients.eraseIdx i } := by
            unfold Core views
            show CoreV cfg s1.dev ((s1.clients.eraseIdx i).map Client.view)
            rw [map_eraseIdx]
            exact coreV_erase hc1 hvi hns
          by_cases ha : c.allServices = 0
          · have ha' : (c.allServices != 0) = false := by simp [ha]
            simp only [ha', Bool.false_eq_true, if_false]
            have hset1 : Settled cfg s1 := by
              rcases hs1 with hs1 | ⟨c', hc', _, hne⟩
              · exact hs1
              · rw [hi] at hc'; cases hc'; exact absurd ha hne
            have hs2 : Settled cfg { s1 with clients := s1.clients.eraseIdx i } := by
              unfold Settled views
              show SettledV cfg s1.dev ((s1.clients.eraseIdx i).map Client.view)
              rw [map_eraseIdx]
              refine settledV_erase hset1 hvi ?_
              unfold contrib
              have e : c.view.state = c.state := rfl
              rw [e, hcl]; rfl
            exact ih _ i hc2 hs2
          · have ha' : (c.allServices != 0) = true := by simp [ha]
            simp only [ha', if_true]
            obtain ⟨r, hr, hc3, hs3, _⟩ := updateServices_ok (cfg := cfg) none hc2
            rw [hr]
            exact ih _ i hc3 hs3
        · have hcl' : (c.state == CState.closed) = false := by simp [hcl]
          simp only [hcl', Bool.false_eq_true, if_false]
          have hset1 : Settled cfg s1 := by
            rcases hs1 with hs1 | ⟨c', hc', hst, _⟩
            · exact hs1
            · rw [hi] at hc'; cases hc'; exact absurd hst hcl
          exact ih s1 (i + 1) hc1 hset1

/-! ## one iteration of `vbi_proxyd_main_loop`, the ops, whole histories -/

theorem Core.map_same {cfg : Cfg} {s s' : State} (h : Core cfg s) (f : Client → Client) (hf : ∀ c, (f c).view = c.view)
    (hd : s'.dev = s.dev) (hc : s'.clients = s.clients.map f) : Core cfg s' := by
  unfold Core views at *
  rw [hd, hc, List.map_map]
  have : (Client.view ∘ f) = Client.view := by funext c; exact hf c
  rw [this]; exact h

theorem Settled.map_same {cfg : Cfg} {s s' : State} (h : Settled cfg s) (f : Client → Client) (hf : ∀ c, (f c).view = c.view)
    (hd : s'.dev = s.dev) (hc : s'.clients = s.clients.map f) : Settled cfg s' := by
  unfold Settled views at *
  rw [hd, hc, List.map_map]
  have : (Client.view ∘ f) = Client.view := by funext c; exact hf c
  rw [this]; exact h

theorem unionV_append_zero (vs : List CV) (v : CV) (hc : contrib v = 0) : unionV (vs ++ [v]) = unionV vs := by
  unfold unionV
  rw [List.map_append, List.foldl_append]
  simp [hc]

/-- a connection is accepted: the new client is in state WAIT_CON_REQ without services or cursor -/
theorem append_fresh {cfg : Cfg} {s : State} (c : Client) (h : Core cfg s) (hs : Settled cfg s)
    (hv : c.view = ⟨.waitConReq, List.replicate nStrict 0, 0, 0, [], []⟩) :
    Core cfg { s with clients := s.clients ++ [c] } ∧ Settled cfg { s with clients := s.clients ++ [c] } := by
  constructor
  · unfold Core views
    show CoreV cfg s.dev ((s.clients ++ [c]).map Client.view)
    rw [List.map_append]
    refine coreV_append h c.view (by rw [hv]) ?_
    rw [hv]
    exact ⟨fun hp => absurd hp (Nat.lt_irrefl 0), fun hf => (by cases hf), fun _ => rfl, fun hsub => (by cases hsub),
           by simp [pendingOf], fun x hx => (by cases hx)⟩
  · unfold Settled views
    show SettledV cfg s.dev ((s.clients ++ [c]).map Client.view)
    rw [List.map_append]
    have hc0 : contrib c.view = 0 := by rw [hv]; rfl
    refine ⟨?_, fun ho => ?_, fun ho => ?_, hs.lines⟩
    · intro u hu hf
      rcases List.mem_append.mp hu with h1 | h1
      · exact hs.gs u h1 hf
      · simp only [List.map_cons, List.map_nil, List.mem_singleton] at h1
        rw [h1, hv] at hf; cases hf
    · show unionV (_ ++ [c.view]) ≠ 0
      rw [unionV_append_zero _ _ hc0]; exact hs.os ho
    · show s.dev.allServices = unionV (_ ++ [c.view])
      rw [unionV_append_zero _ _ hc0]; exact hs.un ho

theorem selectReady_ok {cfg : Cfg} {s : State} (h : Core cfg s) (hs : Settled cfg s) :
    Core cfg (selectReady s) ∧ Settled cfg (selectReady s) ∧ (selectReady s).dev = s.dev :=
  ⟨h.map_same markReady (fun c => rfl) rfl rfl, hs.map_same markReady (fun c => rfl) rfl rfl, rfl⟩

theorem acceptConn_ok {cfg : Cfg} {s : State} (h : Core cfg s) (hs : Settled cfg s) :
    Core cfg (acceptConn s) ∧ Settled cfg (acceptConn s) ∧ (acceptConn s).dev = s.dev := by
  unfold acceptConn
  cases hbc : s.backlogConns with
  | nil => exact ⟨h, hs, rfl⟩
  | cons c rest =>
    obtain ⟨h1, h2⟩ := append_fresh (cfg := cfg) (s := s) { id := c.id, inbox := c.inbox, eof := c.eof, credit := c.credit } h hs rfl
    exact ⟨h1.of_eq rfl rfl, h2.of_eq rfl rfl, rfl⟩

theorem iterate_ok {cfg : Cfg} {s : State} (h : Core cfg s) (hs : Settled cfg s) :
    ∃ s', iterate cfg s = .ok s' ∧ Core cfg s' ∧ Settled cfg s' := by
  unfold iterate
  simp only
  obtain ⟨ha, hsa, hda⟩ := selectReady_ok h hs
  obtain ⟨hcb, hsb, hdb⟩ := acceptConn_ok ha hsa
  by_cases hready : (s.dev.opened && !s.dev.pend.isEmpty) = true
  · simp only [hready, if_true]
    have hop : (acceptConn (selectReady s)).dev.opened = true := by
      rw [hdb, hda]
      cases ho : s.dev.opened
      · rw [ho] at hready; simp at hready
      · rfl
    obtain ⟨s1, hr1, hc1, hs1⟩ := forwardData_ok hcb hsb hop
    simp only [hr1]
    exact clientLoop_ok cfg _ s1 0 hc1 hs1
  · simp only [hready, Bool.false_eq_true, if_false]
    exact clientLoop_ok cfg _ _ 0 hcb hsb

theorem onClient_ok {cfg : Cfg} {s : State} (k : Nat) (f : Client → Client) (hf : ∀ c, (f c).view = c.view)
    (h : Core cfg s) (hs : Settled cfg s) : Core cfg (onClient s k f) ∧ Settled cfg (onClient s k f) := by
  have hg : ∀ c, (if (c.id == k) = true then f c else c).view = c.view := by
    intro c; split
    · exact hf c
    · rfl
  exact ⟨h.map_same _ hg rfl rfl, hs.map_same _ hg rfl rfl⟩

theorem step_ok {cfg : Cfg} {s : State} (op : Op) (h : Core cfg s) (hs : Settled cfg s) :
    ∃ s', step cfg s op = .ok s' ∧ Core cfg s' ∧ Settled cfg s' := by
  cases op with
  | conn sv st bc => exact ⟨_, rfl, h.of_eq rfl rfl, hs.of_eq rfl rfl⟩
  | svc k sv st reset =>
    obtain ⟨h1, h2⟩ := onClient_ok k (fun c => if c.eof then c else { c with inbox := c.inbox ++ [.service sv st reset] })
      (fun c => by split <;> rfl) h hs
    exact ⟨_, rfl, h1, h2⟩
  | bye k =>
    obtain ⟨h1, h2⟩ := onClient_ok k (fun c => if c.eof then c else { c with inbox := c.inbox ++ [.bye] })
      (fun c => by split <;> rfl) h hs
    exact ⟨_, rfl, h1, h2⟩
  | close k =>
    obtain ⟨h1, h2⟩ := onClient_ok k (fun c => { c with eof := true }) (fun c => rfl) h hs
    exact ⟨_, rfl, h1, h2⟩
  | credit k n =>
    obtain ⟨h1, h2⟩ := onClient_ok k (fun c => { c with credit := min (c.credit + n) creditCap }) (fun c => rfl) h hs
    exact ⟨_, rfl, h1, h2⟩
  | cap ts lines full =>
    refine ⟨_, rfl, ?_, ?_⟩
    · unfold Core; exact CoreV.of_dev_eq h rfl rfl rfl rfl
    · unfold Settled; exact SettledV.congr_dev hs rfl rfl
  | relall =>
    obtain ⟨h1, h2⟩ := releaseAll_ok h hs
    exact ⟨_, rfl, h1, h2⟩
  | iter => exact iterate_ok h hs

theorem init_ok (cfg : Cfg) : Core cfg init ∧ Settled cfg init := by
  constructor
  · exact ⟨QInv_nil [] (fun b hb => (by cases hb)), fun v hv => (by cases hv), rfl, fun ho => (by cases ho)⟩
  · exact ⟨fun v hv => (by cases hv), fun ho => (by cases ho), fun ho => (by cases ho), fun ho => (by cases ho)⟩

/-- THE LIFTING THEOREM: from any state satisfying the invariant, no history of ops fails, and the invariant
holds at the end -/
theorem run_ok (cfg : Cfg) : ∀ (ops : List Op) (s : State), Core cfg s → Settled cfg s →
    ∃ s', run cfg s ops = .ok s' ∧ Core cfg s' ∧ Settled cfg s' := by
  intro ops
  induction ops with
  | nil => intro s h hs; exact ⟨s, rfl, h, hs⟩
  | cons op ops ih =>
    intro s h hs
    obtain ⟨s1, hr1, hc1, hs1⟩ := step_ok op h hs
    obtain ⟨s', hr', hc', hs'⟩ := ih s1 hc1 hs1
    exact ⟨s', by simp only [run, hr1]; exact hr', hc', hs'⟩

theorem inv_reachable (cfg : Cfg) (ops : List Op) :
    ∃ s, run cfg init ops = .ok s ∧ Core cfg s ∧ Settled cfg s :=
  run_ok cfg ops init (init_ok cfg).1 (init_ok cfg).2

/-- a history that ends without error ends in a state that satisfies the invariant -/
theorem reach {cfg : Cfg} {ops : List Op} {s : State} (h : run cfg init ops = .ok s) : Core cfg s ∧ Settled cfg s := by
  obtain ⟨s', hr, hc, hs⟩ := inv_reachable cfg ops
  rw [h] at hr
  cases hr
  exact ⟨hc, hs⟩

theorem views_backlog (s : State) : (views s).map (·.backlog) = s.clients.map (·.backlog) := by
  unfold views; rw [List.map_map]; rfl

end Zvbi.ProxyQ
