import ZvbiModel.ProxyQ.LiftQueue
/-!
# Lifting, part 3: capture (`vbi_proxyd_forward_data` with `vbi_proxy_queue_force_free`) and the flush

The two source facts the translator reads from `daemon/proxyd.c` enter here by `rfl` on the generated
definitions: `forceFreeLiveHead = false` (the release loop of force_free compares with the head saved before the
loop) and `assertLineCountStrict = false` (forward_data asserts `line_count <= max_lines`).  If either repair is
reverted in the C source the generated file changes and these lemmas no longer check.
-/
namespace Zvbi.ProxyQ
open Zvbi.Gen.ProxyQ

/-- source fact (5eee39a): force_free releases only the clients that pointed to the head when the loop started -/
theorem forceFree_saved_head : forceFreeLiveHead = false := rfl

/-- source fact (fd02c6e): a frame that fills all lines of the capture window is accepted -/
theorem lineCount_assert_le : assertLineCountStrict = false := rfl

theorem CoreV.of_dev_eq {cfg : Cfg} {d d' : Dev} {vs : List CV} (h : CoreV cfg d vs) (hq : d'.q = d.q)
    (hf : d'.free = d.free) (ha : d'.allocated = d.allocated) (ho : d'.opened = d.opened) : CoreV cfg d' vs := by
  refine ⟨by rw [hq]; exact h.q, fun v hv => (h.pc v hv).congr_dev hq (fun hh => by rw [ho]; exact hh), ?_, ?_⟩
  · rw [hq, hf, ha]; exact h.alloc
  · intro hh; rw [hq, hf]; exact h.depth (by rw [← ho]; exact hh)

theorem unionV_map {vs : List CV} {g : CV → CV} (hg : ∀ v, contrib (g v) = contrib v) : unionV (vs.map g) = unionV vs := by
  unfold unionV
  rw [List.map_map]
  congr 1
  apply List.map_congr_left
  intro v _; exact hg v

theorem settledV_map {cfg : Cfg} {d d' : Dev} {vs : List CV} {g : CV → CV} (h : SettledV cfg d vs)
    (hg : ∀ v, (g v).state = v.state ∧ (g v).services = v.services ∧ (g v).allServices = v.allServices)
    (ho : d'.opened = d.opened) (ha : d'.allServices = d.allServices)
    (hm : d'.maxLines = d.maxLines := by rfl) (hac : d'.active = d.active := by rfl) : SettledV cfg d' (vs.map g) := by
  have hc : ∀ v, contrib (g v) = contrib v := by
    intro v; obtain ⟨h1, _, h3⟩ := hg v; unfold contrib; rw [h1, h3]
  refine ⟨?_, ?_, ?_, ?_⟩
  · intro u hu hf
    obtain ⟨v, hv, rfl⟩ := List.mem_map.mp hu
    obtain ⟨h1, h2, h3⟩ := hg v
    rw [h2, h3]; exact h.gs v hv (by rw [← h1]; exact hf)
  · intro hh; rw [unionV_map hc]; exact h.os (by rw [← ho]; exact hh)
  · intro hh; rw [unionV_map hc, ha]; exact h.un (by rw [← ho]; exact hh)
  · intro hh; rw [hm, hac]; exact h.lines (by rw [← ho]; exact hh)

/-! ## overflow -/

theorem forceLoop_ok (cfg : Cfg) (len0 : Nat) (hlen : 0 < len0) (hdep : defaultBufferCount ≤ len0) :
    ∀ (fuel : Nat) (s : State) (i : Nat), Core cfg s →
    ∃ s', forceLoopWith false fuel s i len0 = .ok s' ∧ Core cfg s' ∧ (Settled cfg s → Settled cfg s') ∧
      devRest s'.dev = devRest s.dev := by
  intro fuel
  induction fuel with
  | zero => intro s i h; exact ⟨s, rfl, h, id, rfl⟩
  | succ fuel ih =>
    intro s i h
    cases hi : s.clients[i]? with
    | none => exact ⟨s, by simp [forceLoopWith, hi], h, id, rfl⟩
    | some c =>
      by_cases hit : c.backlog = len0
      · have hvi := views_getElem? hi
        have hpos : 0 < c.view.backlog := by show 0 < c.backlog; omega
        obtain ⟨q', f', hr, hcore⟩ := coreV_release (Fate.overflow c.backlog) (by show defaultBufferCount ≤ c.backlog; omega) h hvi hpos
        have hr' : releaseQ s.dev.q s.dev.free c.backlog = .ok (q', f') := hr
        let s1 : State := setClient { s with dev := { s.dev with q := q', free := f' } } i
          { c with backlog := c.backlog - 1, done := ((s.dev.q.getD (c.backlog - 1) default).frame, Fate.overflow c.backlog) :: c.done }
        have hcore1 : Core cfg s1 := by
          unfold Core; rw [views_setClient]; exact hcore
        have hset1 : Settled cfg s → Settled cfg s1 := by
          intro hs
          unfold Settled; rw [views_setClient]
          exact settledV_set (hs.congr_dev rfl rfl) hvi rfl (hs.gs c.view (mem_of_getElem?_eq hvi))
        obtain ⟨s', hf', hc', hs', hd'⟩ := ih s1 (i + 1) hcore1
        refine ⟨s', ?_, hc', fun hs => hs' (hset1 hs), by rw [hd']; rfl⟩
        have hbeq : (c.backlog == len0) = true := by simp [hit]
        simp only [forceLoopWith, hi, hbeq, Bool.false_eq_true, if_false, Bool.not_true]
        rw [hr']
        exact hf'
      · obtain ⟨s', hf', hc', hs', hd'⟩ := ih s (i + 1) h
        refine ⟨s', ?_, hc', hs', hd'⟩
        have : (c.backlog == len0) = false := by simpa using hit
        simp only [forceLoopWith, hi, this, Bool.false_eq_true, if_false, Bool.not_false, if_true]
        exact hf'

/-! ## appending a captured frame -/

def pushV (fr : Frame) (v : CV) : CV :=
  if v.subscribed then { v with backlog := v.backlog + 1, expected := fr :: v.expected }
  else if v.backlog > 0 then { v with backlog := v.backlog + 1 } else v

theorem pushV_backlog (fr : Frame) (vs : List CV) :
    (vs.map (pushV fr)).map (·.backlog) =
      List.zipWith (fun b s => if s || decide (0 < b) then b + 1 else b) (vs.map (·.backlog)) (vs.map CV.subscribed) := by
  induction vs with
  | nil => rfl
  | cons v t ih =>
    simp only [List.map_cons, List.zipWith_cons_cons]
    rw [ih]
    congr 1
    unfold pushV
    cases hs : v.subscribed
    · by_cases hb : v.backlog > 0
      · simp [hb]
      · simp [hb]
    · simp

theorem coreV_push {cfg : Cfg} {d : Dev} {vs : List CV} (fr : Frame) (h : CoreV cfg d vs)
    (hg : ∀ v ∈ vs, v.state = .forward → v.allServices = allOf cfg v.services)
    (hfree : d.free ≠ 0) (hn : (vs.map CV.subscribed).count true ≠ 0) :
    CoreV cfg { d with q := { frame := fr, ref := (vs.map CV.subscribed).count true } :: d.q, free := d.free - 1 }
      (vs.map (pushV fr)) := by
  have hsub : ∀ i, i < (vs.map (·.backlog)).length → 0 < (vs.map (·.backlog)).getD i 0 →
      (vs.map CV.subscribed).getD i false = true := by
    intro i hi hp
    have hi' : i < vs.length := by simpa using hi
    have hv : vs[i]? = some vs[i] := List.getElem?_eq_getElem hi'
    rw [List.getD_eq_getElem?_getD, List.getElem?_map, hv] at hp ⊢
    exact (h.pc _ (List.getElem_mem hi')).sub hp
  have hq := QInv_push (vs.map CV.subscribed) fr h.q (by simp) hsub (by omega)
  refine ⟨?_, ?_, ?_, ?_⟩
  · show QInv _ _
    rw [pushV_backlog]; exact hq
  · intro u hu
    obtain ⟨v, hv, rfl⟩ := List.mem_map.mp hu
    have pv := h.pc v hv
    unfold pushV
    cases hs : v.subscribed with
    | true =>
      simp only [if_true]
      refine ⟨fun _ => hs, fun hf => Or.inl (hg v hv hf), pv.w, fun _ => pv.so hs, ?_, pv.ov⟩
      show fr :: v.expected = pendingOf (_ :: d.q) (v.backlog + 1) ++ _
      rw [pv.gh]; simp [pendingOf]
    | false =>
      have hb0 : v.backlog = 0 := by
        by_cases hb : 0 < v.backlog
        · have := pv.sub hb; rw [hs] at this; cases this
        · omega
      have : ¬ v.backlog > 0 := by omega
      simp only [Bool.false_eq_true, if_false, this]
      refine ⟨pv.sub, pv.gw, pv.w, pv.so, ?_, pv.ov⟩
      show v.expected = pendingOf (_ :: d.q) v.backlog ++ _
      rw [pv.gh, hb0]; simp [pendingOf]
  · show d.free - 1 + (d.q.length + 1) = d.allocated
    have := h.alloc; omega
  · intro ho
    show defaultBufferCount ≤ d.free - 1 + (d.q.length + 1)
    have := h.depth ho; omega

theorem pushV_fields (fr : Frame) (v : CV) :
    (pushV fr v).state = v.state ∧ (pushV fr v).services = v.services ∧ (pushV fr v).allServices = v.allServices := by
  unfold pushV
  split
  · exact ⟨rfl, rfl, rfl⟩
  · split <;> exact ⟨rfl, rfl, rfl⟩

theorem pushV_view (fr : Frame) (c : Client) :
    (if c.subscribed = true then { c with backlog := c.backlog + 1, expected := fr :: c.expected }
     else if c.backlog > 0 then { c with backlog := c.backlog + 1 } else c).view = pushV fr c.view := by
  unfold pushV
  rw [Client.subscribed_view]
  by_cases hsb : c.subscribed = true
  · rw [if_pos hsb, if_pos hsb]; rfl
  · rw [if_neg hsb, if_neg hsb]
    by_cases hb : c.backlog > 0
    · rw [if_pos hb, if_pos (show c.view.backlog > 0 from hb)]; rfl
    · rw [if_neg hb, if_neg (show ¬ c.view.backlog > 0 from hb)]

theorem count_subscribed (cl : List Client) : ((cl.map Client.view).map CV.subscribed).count true = cl.countP (·.subscribed) := by
  induction cl with
  | nil => rfl
  | cons c t ih =>
    simp only [List.map_cons, List.count_cons, List.countP_cons, ih]
    simp [Client.subscribed_view]

theorem take_length_le {α : Type} (l : List α) (n : Nat) : (l.take n).length ≤ n := by
  rw [List.length_take]; omega

/-- `vbi_proxyd_forward_data` on an open device: no assertion, invariant kept -/
theorem forwardData_ok {cfg : Cfg} {s : State} (h : Core cfg s) (hs : Settled cfg s) (ho : s.dev.opened = true) :
    ∃ s', forwardData cfg s = .ok s' ∧ Core cfg s' ∧ Settled cfg s' := by
  -- the overflow part
  have hr : ∃ s1, (if s.dev.free = 0 then
        if s.dev.q.isEmpty then (Except.ok s : Except Err State) else forceLoop s.clients.length s 0 s.dev.q.length
      else .ok s) = .ok s1 ∧ Core cfg s1 ∧ Settled cfg s1 ∧ devRest s1.dev = devRest s.dev := by
    by_cases hf : s.dev.free = 0
    · cases hq : s.dev.q with
      | nil => exact ⟨s, by simp [hf, hq], h, hs, rfl⟩
      | cons e t =>
        have hd := h.depth ho
        rw [hf, hq] at hd
        obtain ⟨s1, h1, hc1, hs1, hd1⟩ := forceLoop_ok cfg (e :: t).length (by simp) (by simpa using hd) s.clients.length s 0 h
        refine ⟨s1, ?_, hc1, hs1 hs, hd1⟩
        simp only [hf, if_true, List.isEmpty_cons, Bool.false_eq_true, if_false]
        unfold forceLoop
        rw [forceFree_saved_head]; exact h1
    · exact ⟨s, by simp [hf], h, hs, rfl⟩
  obtain ⟨s1, hr1, hc1, hs1, hd1⟩ := hr
  have ho1 : s1.dev.opened = true := by
    have := congrArg Dev.opened hd1; simp only [devRest] at this; rw [this]; exact ho
  unfold forwardData
  simp only [hr1]
  by_cases hf1 : s1.dev.free = 0
  · exact ⟨s1, by simp [hf1], hc1, hs1⟩
  · simp only [hf1, if_false]
    cases hp : s1.dev.pend with
    | nil => exact ⟨s1, rfl, hc1, hs1⟩
    | cons fr rest =>
      simp only
      -- the device returns at most count[0]+count[1] lines: the assertion holds
      have hml := hs1.lines ho1
      have hlen : (fr.lines.take (if fr.full = true then cfg.count s1.dev.active else cfg.count s1.dev.active - 1)).length
          ≤ s1.dev.maxLines := by
        rw [hml]
        refine Nat.le_trans (take_length_le _ _) ?_
        split <;> omega
      have hbad : (if assertLineCountStrict = true then
            decide (s1.dev.maxLines ≤ (fr.lines.take (if fr.full = true then cfg.count s1.dev.active else cfg.count s1.dev.active - 1)).length)
          else decide (s1.dev.maxLines < (fr.lines.take (if fr.full = true then cfg.count s1.dev.active else cfg.count s1.dev.active - 1)).length)) = false := by
        rw [lineCount_assert_le]
        simp only [Bool.false_eq_true, if_false, decide_eq_false_iff_not]
        omega
      rw [hbad]
      simp only [Bool.false_eq_true, if_false]
      -- state after the read
      have hc2 : Core cfg { s1 with dev := { s1.dev with pend := rest }, log := s1.log ++ [.read fr.seq] } := by
        unfold Core; exact hc1.of_dev_eq rfl rfl rfl rfl
      have hs2 : Settled cfg { s1 with dev := { s1.dev with pend := rest }, log := s1.log ++ [.read fr.seq] } := by
        unfold Settled; exact hs1.congr_dev rfl rfl
      by_cases hn : s1.clients.countP (·.subscribed) = 0
      · exact ⟨_, by simp [hn], hc2, hs2⟩
      · simp only [hn, if_false]
        have hmap : (s1.clients.map (fun c => if c.subscribed = true then
              { c with backlog := c.backlog + 1,
                       expected := { fr with lines := fr.lines.take (if fr.full = true then cfg.count s1.dev.active else cfg.count s1.dev.active - 1) } :: c.expected }
            else if c.backlog > 0 then { c with backlog := c.backlog + 1 } else c)).map Client.view
            = (s1.clients.map Client.view).map (pushV { fr with lines := fr.lines.take (if fr.full = true then cfg.count s1.dev.active else cfg.count s1.dev.active - 1) }) := by
          rw [List.map_map, List.map_map]
          apply List.map_congr_left
          intro c _
          exact pushV_view _ c
        have hc2' : CoreV cfg { s1.dev with pend := rest } (s1.clients.map Client.view) := hc2
        have hs2' : SettledV cfg { s1.dev with pend := rest } (s1.clients.map Client.view) := hs2
        have key := coreV_push { fr with lines := fr.lines.take (if fr.full = true then cfg.count s1.dev.active else cfg.count s1.dev.active - 1) }
          hc2' hs2'.gs hf1 (by rw [count_subscribed]; exact hn)
        rw [count_subscribed] at key
        refine ⟨_, rfl, ?_, ?_⟩
        · show CoreV cfg _ (List.map Client.view _)
          rw [hmap]; exact key
        · show SettledV cfg _ (List.map Client.view _)
          rw [hmap]
          exact settledV_map hs2' (pushV_fields _) rfl rfl

/-! ## flush -/

theorem releaseAll_ok {cfg : Cfg} {s : State} (h : Core cfg s) (hs : Settled cfg s) :
    Core cfg (releaseAll s) ∧ Settled cfg (releaseAll s) := by
  have hmap : (releaseAll s).clients.map Client.view = (s.clients.map Client.view).map
      (fun v => { v with backlog := 0,
                         done := ((s.dev.q.take v.backlog).map (fun e => (e.frame, Fate.flushed))) ++ v.done }) := by
    unfold releaseAll
    simp only [List.map_map]
    apply List.map_congr_left
    intro c _; rfl
  constructor
  · unfold Core views; rw [hmap]; exact coreV_flush h
  · unfold Settled views; rw [hmap]
    exact settledV_map hs (fun v => ⟨rfl, rfl, rfl⟩) rfl rfl

end Zvbi.ProxyQ
