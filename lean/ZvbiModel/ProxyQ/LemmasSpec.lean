import ZvbiModel.ProxyQ.Spec
import ZvbiModel.ProxyQ.LemmasQueue
/-! # Lemmas about the queue machine and about what a release does to the frames other clients still expect -/
namespace Zvbi.ProxyQ

theorem zero_mem_map_zero {bl : List Nat} : ∀ b ∈ bl.map (fun _ => 0), b = 0 := by
  intro b hb
  obtain ⟨_, _, h⟩ := List.mem_map.mp hb
  exact h.symm

/-- every operation of the queue machine preserves the reference-count invariant -/
theorem qstep_inv {s s' : QState} {op : QOp} (inv : QInv s.q s.bl) (h : qstep s op = some (.ok s')) :
    QInv s'.q s'.bl := by
  cases op with
  | join =>
    simp only [qstep, Option.some.injEq, Except.ok.injEq] at h
    subst h; exact QInv_append inv
  | release i =>
    simp only [qstep] at h
    split at h
    · rename_i hc
      obtain ⟨q', f', hr, inv', _⟩ := releaseQ_ok s.free inv hc.1 rfl hc.2
      rw [hr] at h
      simp only [Option.some.injEq, Except.ok.injEq] at h
      subst h; exact inv'
    · simp at h
  | releaseAll i =>
    simp only [qstep] at h
    split at h
    · rename_i hc
      obtain ⟨q', f', hr, inv', _⟩ := releaseAllQ_ok (s.bl.getD i 0) s.free inv hc rfl
      rw [hr] at h
      simp only [Option.some.injEq, Except.ok.injEq] at h
      subst h; exact inv'
    · simp at h
  | leave i =>
    simp only [qstep] at h
    split at h
    · rename_i hc
      simp only [Option.some.injEq, Except.ok.injEq] at h
      subst h; exact QInv_erase inv hc
    · simp at h
  | push fr sub =>
    simp only [qstep] at h
    split at h
    · rename_i hc
      split at h
      · simp only [Option.some.injEq, Except.ok.injEq] at h
        subst h; exact inv
      · rename_i hn
        simp only [Option.some.injEq, Except.ok.injEq] at h
        subst h
        exact QInv_push sub fr inv hc.1 hc.2 (by omega)
    · simp at h
  | flush =>
    simp only [qstep, Option.some.injEq, Except.ok.injEq] at h
    subst h
    exact QInv_nil _ zero_mem_map_zero

theorem qreach_inv {s : QState} (h : QReach s) : QInv s.q s.bl := by
  induction h with
  | init free => exact QInv_nil [] (by intro b hb; simp at hb)
  | step op _ hs ih => exact qstep_inv ih hs

/-- in a reachable state no enabled operation fails: neither assertion, nor dangling, nor NULL cursor -/
theorem qstep_no_error {s : QState} (h : QReach s) (op : QOp) (e : Err) : qstep s op ≠ some (.error e) := by
  have inv := qreach_inv h
  intro he
  cases op with
  | join => simp [qstep] at he
  | release i =>
    simp only [qstep] at he
    split at he
    · rename_i hc
      obtain ⟨q', f', hr, _⟩ := releaseQ_ok s.free inv hc.1 rfl hc.2
      rw [hr] at he; simp at he
    · simp at he
  | releaseAll i =>
    simp only [qstep] at he
    split at he
    · rename_i hc
      obtain ⟨q', f', hr, _⟩ := releaseAllQ_ok (s.bl.getD i 0) s.free inv hc rfl
      rw [hr] at he; simp at he
    · simp at he
  | leave i =>
    simp only [qstep] at he
    split at he <;> simp at he
  | push fr sub =>
    simp only [qstep] at he
    split at he
    · split at he <;> simp at he
    · simp at he
  | flush => simp [qstep] at he

/-! ## what a release does to the frames the other clients still have to get -/

/-- the frames a client with cursor `b` still has to get, newest first -/
def pendingOf (q : List QElem) (b : Nat) : List Frame := (q.take b).map (·.frame)

theorem decAt_frames : ∀ (q : List QElem) (r : Nat), (decAt q r).map (·.frame) = q.map (·.frame) := by
  intro q
  induction q with
  | nil => intro r; rfl
  | cons e t ih =>
    intro r
    cases r with
    | zero => rfl
    | succ r => simp [decAt, ih]

theorem take_dropLast {α : Type} : ∀ (l : List α) (n : Nat), n ≤ l.length - 1 → l.dropLast.take n = l.take n := by
  intro l
  induction l with
  | nil => intro n _; rfl
  | cons a t ih =>
    intro n hn
    cases t with
    | nil =>
      have : n = 0 := by simpa using hn
      subst this; rfl
    | cons b t2 =>
      cases n with
      | zero => rfl
      | succ n =>
        rw [List.dropLast_cons_cons]
        simp only [List.take_succ_cons]
        rw [ih n (by simp at hn ⊢; omega)]

theorem releaseQ_cases {q q' : List QElem} {free f' b : Nat} (h : releaseQ q free b = .ok (q', f')) :
    q' = decAt q (b - 1) ∨ q' = (decAt q (b - 1)).dropLast := by
  unfold releaseQ at h
  by_cases h0 : b = 0
  · simp [h0] at h
  · by_cases h1 : q.length < b
    · simp [h0, h1] at h
    · by_cases h2 : refAt (decAt q (b - 1)) (b - 1) = 0
      · by_cases h3 : b = q.length
        · subst h3
          simp [h0, h2] at h
          right; exact h.1.symm
        · simp [h0, h1, h2, h3] at h
      · simp [h0, h1, h2] at h
        left; exact h.1.symm

/-- a release never changes which frames lie within `n` buffers of the tail, for `n` up to the new length -/
theorem releaseQ_frames {q q' : List QElem} {free f' b : Nat} (h : releaseQ q free b = .ok (q', f')) :
    ∀ n, n ≤ q'.length → pendingOf q' n = pendingOf q n := by
  intro n hn
  rcases releaseQ_cases h with hq | hq
  · subst hq
    unfold pendingOf
    rw [List.map_take, List.map_take, decAt_frames]
  · subst hq
    have hl : n ≤ (decAt q (b - 1)).length - 1 := by simpa using hn
    unfold pendingOf
    rw [take_dropLast _ n hl, List.map_take, List.map_take, decAt_frames]

theorem releaseQ_len {q q' : List QElem} {free f' b : Nat} (h : releaseQ q free b = .ok (q', f')) : q'.length ≤ q.length := by
  rcases releaseQ_cases h with hq | hq <;> subst hq <;> simp [decAt_length]

theorem releaseAllQ_frames : ∀ (b : Nat) {q q' : List QElem} {free f' : Nat}, releaseAllQ q free b = .ok (q', f') →
    ∀ n, n ≤ q'.length → pendingOf q' n = pendingOf q n := by
  intro b
  induction b with
  | zero =>
    intro q q' free f' h n _
    simp only [releaseAllQ, Except.ok.injEq, Prod.mk.injEq] at h
    rw [h.1]
  | succ b ih =>
    intro q q' free f' h n hn
    simp only [releaseAllQ] at h
    split at h
    · simp at h
    · rename_i q1 f1 h1
      have hl := ih h n hn
      have hlen : q'.length ≤ q1.length := by
        clear hl
        -- lengths only shrink
        have : ∀ (b : Nat) {q q' : List QElem} {free f' : Nat}, releaseAllQ q free b = .ok (q', f') → q'.length ≤ q.length := by
          intro b
          induction b with
          | zero => intro q q' free f' h; simp only [releaseAllQ, Except.ok.injEq, Prod.mk.injEq] at h; rw [h.1]; exact Nat.le_refl _
          | succ b ih2 =>
            intro q q' free f' h
            simp only [releaseAllQ] at h
            split at h
            · simp at h
            · rename_i q2 f2 h2
              exact Nat.le_trans (ih2 h) (releaseQ_len h2)
        exact this b h
      rw [hl, releaseQ_frames h1 n (by omega)]

/-! ## the per-client filter -/

theorem filter_take_all {α : Type} (p : α → Bool) (l : List α) (n : Nat) (h : l.length ≤ n) :
    (l.take n).filter p = l.filter p := by
  rw [List.take_of_length_le h]

end Zvbi.ProxyQ
