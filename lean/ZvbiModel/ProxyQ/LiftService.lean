import ZvbiModel.ProxyQ.LiftCapture
/-!
# Lifting, part 4: service negotiation (`vbi_proxyd_update_services`, `vbi_proxyd_take_service_req`,
the CONNECT_REQ / SERVICE_REQ / CLOSE_REQ arms of `vbi_proxyd_take_message`)

The key facts: the grant of a client that has queued frames is `allOf` of its stored requests, so recomputing
it leaves it unchanged (`allOf_mask`: masking the requests with the grant does not change the grant); the
requesting client has no queued frames when its grant is recomputed (a new client never had any, a SERVICE_REQ
released them first); the device is stopped only when the union of the grants is empty, and then nobody has
queued frames and the queue is empty, so freeing it leaves no cursor dangling.
-/
namespace Zvbi.ProxyQ
open Zvbi.Gen.ProxyQ

/-! ## `vbi_proxy_queue_allocate` -/

theorem foldl_max_ge (cl : List Client) (m : Nat) : m ≤ cl.foldl (fun m c => max m c.bufferCount) m := by
  induction cl generalizing m with
  | nil => exact Nat.le_refl _
  | cons c t ih =>
    simp only [List.foldl_cons]
    exact Nat.le_trans (Nat.le_max_left _ _) (ih _)

theorem allocate_rest (d : Dev) (cl : List Client) : devRest (allocate d cl) = { devRest d with allocated := (allocate d cl).allocated } := by
  unfold allocate devRest
  simp only
  split <;> split <;> rfl

theorem allocate_q (d : Dev) (cl : List Client) : (allocate d cl).q = d.q := by
  have := congrArg Dev.q (allocate_rest d cl); unfold devRest at this
  unfold allocate; simp only; split <;> split <;> rfl

theorem allocate_fields (d : Dev) (cl : List Client) :
    (allocate d cl).opened = d.opened ∧ (allocate d cl).allServices = d.allServices ∧
    (allocate d cl).maxLines = d.maxLines ∧ (allocate d cl).active = d.active := by
  unfold allocate; simp only; split <;> split <;> exact ⟨rfl, rfl, rfl, rfl⟩

theorem allocate_alloc (d : Dev) (cl : List Client) (h : d.free + d.q.length = d.allocated) :
    (allocate d cl).free + (allocate d cl).q.length = (allocate d cl).allocated ∧
    defaultBufferCount ≤ (allocate d cl).free + (allocate d cl).q.length := by
  have hw := foldl_max_ge cl defaultBufferCount
  unfold allocate
  simp only
  split <;> split <;> (try dsimp only at *) <;> omega

/-! ## the per-client update on views -/

def updV (cfg : Cfg) (mask : Bool) (v : CV) : CV :=
  if v.state != .forward then v else
  { v with allServices := allOf cfg v.services,
           services := if mask then maskServices cfg v.services else v.services }

theorem updClient_view (cfg : Cfg) (req : Option Nat) (c : Client) :
    (updClient cfg req c).view = updV cfg (req == some c.id) c.view := by
  unfold updClient updV
  have e : c.view.state = c.state := rfl
  rw [e]
  cases hst : (c.state != CState.forward)
  · simp only [Bool.false_eq_true, if_false]
    cases hr : (req == some c.id) <;> rfl
  · simp

theorem updV_fields (cfg : Cfg) (m : Bool) (v : CV) :
    (updV cfg m v).state = v.state ∧ (updV cfg m v).backlog = v.backlog ∧ (updV cfg m v).expected = v.expected ∧
    (updV cfg m v).done = v.done := by
  unfold updV; split <;> exact ⟨rfl, rfl, rfl, rfl⟩

theorem updV_grant (cfg : Cfg) (m : Bool) (v : CV) (hf : (updV cfg m v).state = .forward) :
    (updV cfg m v).allServices = allOf cfg (updV cfg m v).services := by
  unfold updV at hf ⊢
  split
  · rename_i hn
    rw [if_pos hn] at hf
    rw [hf] at hn; simp at hn
  · cases m
    · rfl
    · show allOf cfg v.services = allOf cfg (maskServices cfg v.services)
      rw [allOf_mask]

/-- a client with queued frames keeps its grant -/
theorem updV_sub {cfg : Cfg} {d : Dev} {v : CV} (m : Bool) (p : PC cfg d v) (hb : 0 < v.backlog) :
    (updV cfg m v).subscribed = true := by
  have hs := p.sub hb
  unfold CV.subscribed at hs
  have hst : v.state = .forward := by
    cases h : v.state <;> simp_all
  have hg : v.allServices = allOf cfg v.services := by
    rcases p.gw hst with h1 | h1
    · exact h1
    · omega
  unfold updV CV.subscribed
  simp only [hst, bne_self_eq_false, Bool.false_eq_true, if_false]
  rw [← hg]
  simpa [hst] using hs

theorem pc_upd {cfg : Cfg} {d d' : Dev} {v : CV} (m : Bool) (p : PC cfg d v) (hq : d'.q = d.q)
    (ho : (updV cfg m v).subscribed = true → d'.opened = true) : PC cfg d' (updV cfg m v) := by
  obtain ⟨h1, h2, h3, h4⟩ := updV_fields cfg m v
  refine ⟨?_, ?_, ?_, ho, ?_, ?_⟩
  · intro hb; rw [h2] at hb; exact updV_sub m p hb
  · intro hf; exact Or.inl (updV_grant cfg m v hf)
  · intro hw
    rw [h1] at hw
    have : updV cfg m v = v := by
      unfold updV; rw [hw]; rfl
    rw [this]; exact p.w hw
  · rw [h2, h3, h4, hq]; exact p.gh
  · rw [h4]; exact p.ov

theorem devUnion_eq_acc (cl : List Client) (acc : Nat) :
    cl.foldl (fun acc c => if c.state == .forward then acc ||| c.allServices else acc) acc
      = ((cl.map Client.view).map contrib).foldl (· ||| ·) acc := by
  induction cl generalizing acc with
  | nil => rfl
  | cons c t ih =>
    simp only [List.foldl_cons, List.map_cons]
    rw [ih]
    congr 1
    unfold contrib
    have e1 : c.view.state = c.state := rfl
    have e2 : c.view.allServices = c.allServices := rfl
    rw [e1, e2]
    split <;> simp

theorem devUnion_eq (cl : List Client) :
    cl.foldl (fun acc c => if c.state == .forward then acc ||| c.allServices else acc) 0 = unionV (cl.map Client.view) :=
  devUnion_eq_acc cl 0

/-! ## `vbi_proxyd_update_services` -/

/-- what the callers need to know about the clients after an update: same positions, same cursors, states, ids -/
def ClientsKept (cl cl' : List Client) : Prop :=
  ∃ F : Client → Client, cl' = cl.map F ∧ ∀ c, (F c).backlog = c.backlog ∧ (F c).state = c.state ∧ (F c).id = c.id ∧
    (F c).eof = c.eof

theorem ClientsKept.refl (cl : List Client) : ClientsKept cl cl := ⟨id, by simp, fun _ => ⟨rfl, rfl, rfl, rfl⟩⟩

theorem ClientsKept.getElem? {cl cl' : List Client} (h : ClientsKept cl cl') {i : Nat} {c : Client} (hi : cl[i]? = some c) :
    ∃ c', cl'[i]? = some c' ∧ c'.backlog = c.backlog ∧ c'.state = c.state ∧ c'.id = c.id ∧ c'.eof = c.eof := by
  obtain ⟨F, rfl, hF⟩ := h
  refine ⟨F c, by rw [List.getElem?_map, hi]; rfl, hF c⟩

theorem updClient_kept (cfg : Cfg) (req : Option Nat) (c : Client) :
    (updClient cfg req c).backlog = c.backlog ∧ (updClient cfg req c).state = c.state ∧ (updClient cfg req c).id = c.id ∧
    (updClient cfg req c).eof = c.eof := by
  unfold updClient
  split
  · exact ⟨rfl, rfl, rfl, rfl⟩
  · simp only; split <;> exact ⟨rfl, rfl, rfl, rfl⟩

/-- second stage, device open: the invariant is re-established whatever `max_lines`/`active` were before -/
theorem updStage2_ok {cfg : Cfg} {s s1 : State} (req : Option Nat) (h : Core cfg s) (hc : s1.clients = s.clients)
    (hq : s1.dev.q = s.dev.q) (ho : s1.dev.opened = true)
    (halloc : s1.dev.free + s1.dev.q.length = s1.dev.allocated) :
    Core cfg (updStage2 cfg s1 req).1 ∧ Settled cfg (updStage2 cfg s1 req).1 ∧
      ClientsKept s.clients (updStage2 cfg s1 req).1.clients := by
  -- the final client list and its views
  let cl := s1.clients.map (updClient cfg req)
  have hviews : ∀ (cl2 : List Client), (cl2 = cl ∨ cl2 = cl.map (fun c => { c with chnInd := c.chnInd ||| chnNorm })) →
      cl2.map Client.view = cl.map Client.view ∧ ClientsKept s.clients cl2 := by
    intro cl2 h2
    rcases h2 with rfl | rfl
    · refine ⟨rfl, updClient cfg req, by rw [← hc], updClient_kept cfg req⟩
    · refine ⟨by rw [List.map_map]; apply List.map_congr_left; intro c _; rfl, ?_⟩
      refine ⟨fun c => { updClient cfg req c with chnInd := (updClient cfg req c).chnInd ||| chnNorm }, ?_, ?_⟩
      · rw [← hc, List.map_map]; rfl
      · intro c; exact updClient_kept cfg req c
  -- views of cl in terms of the old views
  have hmem : ∀ v' ∈ cl.map Client.view, ∃ v ∈ views s, ∃ m, v' = updV cfg m v := by
    intro v' hv'
    obtain ⟨c', hc', rfl⟩ := List.mem_map.mp hv'
    obtain ⟨c, hcm, rfl⟩ := List.mem_map.mp hc'
    refine ⟨c.view, List.mem_map.mpr ⟨c, by rw [← hc]; exact hcm, rfl⟩, _, updClient_view cfg req c⟩
  have hbl : (cl.map Client.view).map (·.backlog) = (views s).map (·.backlog) := by
    unfold views
    rw [← hc, List.map_map, List.map_map, List.map_map]
    apply List.map_congr_left
    intro c _
    show (updClient cfg req c).backlog = c.backlog
    exact (updClient_kept cfg req c).1
  have hunion : cl.foldl (fun acc c => if c.state == .forward then acc ||| c.allServices else acc) 0
      = unionV (cl.map Client.view) := devUnion_eq cl
  unfold updStage2
  simp only
  -- name the pieces
  generalize hcalls : updCalls cfg s1.clients true = calls
  have hcl : s1.clients.map (updClient cfg req) = cl := rfl
  rw [hcl, hunion]
  generalize hdecs : (if calls.isEmpty = true then s1.dev.decScanning else cfg.scanning) = decScanning
  generalize hact : (if calls.isEmpty = true then s1.dev.active else unionV (cl.map Client.view)) = active
  have hcl2 := hviews (if (decScanning != s1.dev.scanning) = true then cl.map (fun c => { c with chnInd := c.chnInd ||| chnNorm }) else cl)
    (by split; exact Or.inr rfl; exact Or.inl rfl)
  generalize (if (decScanning != s1.dev.scanning) = true then cl.map (fun c => { c with chnInd := c.chnInd ||| chnNorm }) else cl) = cl2 at hcl2 ⊢
  obtain ⟨hv2, hk2⟩ := hcl2
  generalize (if (decScanning != s1.dev.scanning) = true then decScanning else s1.dev.scanning) = scanning
  by_cases hz : unionV (cl.map Client.view) = 0
  · -- nobody is granted anything: the device is stopped; nobody has queued frames
    have hne : (unionV (cl.map Client.view) != 0) = false := by simp [hz]
    simp only [hne, Bool.false_eq_true, if_false]
    have hns := unionV_eq_zero.mp hz
    have hb0 : ∀ v ∈ views s, v.backlog = 0 := by
      intro v hv
      by_cases hb : 0 < v.backlog
      · -- its updated view is subscribed: contradiction
        obtain ⟨c, hcm, rfl⟩ := List.mem_map.mp hv
        have hsub := updV_sub (req == some c.id) (h.pc _ hv) hb
        rw [← updClient_view] at hsub
        have : (updClient cfg req c).view ∈ cl.map Client.view :=
          List.mem_map.mpr ⟨_, List.mem_map.mpr ⟨c, by rw [hc]; exact hcm, rfl⟩, rfl⟩
        rw [hns _ this] at hsub; cases hsub
      · omega
    have hq0 : s.dev.q = [] := by
      apply QInv_all_zero h.q
      intro b hb
      obtain ⟨v, hv, rfl⟩ := List.mem_map.mp hb
      exact hb0 v hv
    unfold stopAcq
    simp only [ho, if_true]
    refine ⟨?_, ?_, hk2⟩
    · unfold Core views
      show CoreV cfg _ (cl2.map Client.view)
      rw [hv2]
      refine ⟨?_, ?_, rfl, fun hh => (by cases hh), fun hh => (by cases hh)⟩
      · show QInv [] _
        apply QInv_nil
        intro b hb
        rw [hbl] at hb
        obtain ⟨v, hv, rfl⟩ := List.mem_map.mp hb
        exact hb0 v hv
      · intro v' hv'
        obtain ⟨v, hv, m, rfl⟩ := hmem v' hv'
        refine pc_upd m (h.pc v hv) (by show [] = s.dev.q; rw [hq0]) ?_
        intro hsub; rw [hns _ hv'] at hsub; cases hsub
    · unfold Settled views
      show SettledV cfg _ (cl2.map Client.view)
      rw [hv2]
      refine ⟨?_, fun hh => (by cases hh), fun hh => (by cases hh)⟩
      intro v' hv' hf
      obtain ⟨v, hv, m, rfl⟩ := hmem v' hv'
      exact updV_grant cfg m v hf
  · have hne : (unionV (cl.map Client.view) != 0) = true := by simp [hz]
    simp only [hne, if_true]
    obtain ⟨f1, f2, f3, f4⟩ := allocate_fields
      { s1.dev with active := active, decScanning := decScanning, scanning := scanning,
                    allServices := unionV (cl.map Client.view), maxLines := cfg.count active } cl2
    obtain ⟨a1, a2⟩ := allocate_alloc
      { s1.dev with active := active, decScanning := decScanning, scanning := scanning,
                    allServices := unionV (cl.map Client.view), maxLines := cfg.count active } cl2 halloc
    have aq := allocate_q
      { s1.dev with active := active, decScanning := decScanning, scanning := scanning,
                    allServices := unionV (cl.map Client.view), maxLines := cfg.count active } cl2
    refine ⟨?_, ?_, hk2⟩
    · unfold Core views
      show CoreV cfg (allocate _ cl2) (cl2.map Client.view)
      rw [hv2]
      refine ⟨?_, ?_, a1, ?_, fun _ => a2⟩
      · rw [aq, hbl]; show QInv s1.dev.q _; rw [hq]; exact h.q
      · intro v' hv'
        obtain ⟨v, hv, m, rfl⟩ := hmem v' hv'
        refine pc_upd m (h.pc v hv) (by rw [aq]; exact hq) (fun _ => by rw [f1]; exact ho)
      · intro _; rw [f3, f4]
    · unfold Settled views
      show SettledV cfg (allocate _ cl2) (cl2.map Client.view)
      rw [hv2]
      refine ⟨?_, fun _ => hz, fun _ => by rw [f2]⟩
      intro v' hv' hf
      obtain ⟨v, hv, m, rfl⟩ := hmem v' hv'
      exact updV_grant cfg m v hf

theorem startAcq_facts (cfg : Cfg) (s : State) (h : s.dev.free + s.dev.q.length = s.dev.allocated) :
    (startAcq cfg s).clients = s.clients ∧ (startAcq cfg s).dev.q = s.dev.q ∧ (startAcq cfg s).dev.opened = true ∧
    (startAcq cfg s).dev.free + (startAcq cfg s).dev.q.length = (startAcq cfg s).dev.allocated := by
  unfold startAcq
  refine ⟨rfl, ?_, ?_, ?_⟩
  · show (allocate _ _).q = _; rw [allocate_q]
  · show (allocate _ _).opened = _; rw [(allocate_fields _ _).1]
  · exact (allocate_alloc { s.dev with opened := true, apiKnown := true, active := 0, decScanning := cfg.scanning } s.clients h).1

/-- `vbi_proxyd_update_services`: from `Core` alone it re-establishes `Core` and `Settled` -/
theorem updateServices_ok {cfg : Cfg} {s : State} (req : Option Nat) (h : Core cfg s) :
    Core cfg (updateServices cfg s req).1 ∧ Settled cfg (updateServices cfg s req).1 ∧
      ClientsKept s.clients (updateServices cfg s req).1.clients := by
  unfold updateServices updStage1
  by_cases hop : s.dev.opened = true
  · -- device already open
    simp only [hop, Bool.not_true, Bool.false_eq_true, if_false]
    exact updStage2_ok req h rfl rfl hop h.alloc
  · have hcl : s.dev.opened = false := by simpa using hop
    obtain ⟨hb0, hq0⟩ := h.closed_empty hcl
    simp only [hcl, Bool.not_false, if_true]
    by_cases hany : s.clients.any (fun c => anyServices c.services) = true
    · simp only [hany, if_true]
      obtain ⟨g1, g2, g3, g4⟩ := startAcq_facts cfg s h.alloc
      simp only [g3, Bool.not_true, Bool.false_eq_true, if_false]
      exact updStage2_ok req h g1 g2 g3 g4
    · have hnone : ∀ c ∈ s.clients, anyServices c.services = false := by
        intro c hc
        cases hx : anyServices c.services with
        | false => rfl
        | true => exact absurd (List.any_eq_true.mpr ⟨c, hc, hx⟩) hany
      have hany' : s.clients.any (fun c => anyServices c.services) = false := by simpa using hany
      -- nobody asks for anything: the device stays closed; every grant is 0 = allOf (no requests)
      have hset : ∀ (d : Dev), d.opened = false → SettledV cfg d (views s) := by
        intro d hd
        refine ⟨?_, fun hh => (by rw [hd] at hh; cases hh), fun hh => (by rw [hd] at hh; cases hh)⟩
        intro v hv hf
        obtain ⟨c, hcm, rfl⟩ := List.mem_map.mp hv
        have hz : allOf cfg c.view.services = 0 := allOf_zero cfg _ (hnone c hcm)
        rw [hz]
        by_cases ha : c.view.allServices = 0
        · exact ha
        · have hsub : c.view.subscribed = true := by
            unfold CV.subscribed; rw [hf]; simpa using ha
          have := (h.pc _ hv).so hsub
          rw [hcl] at this; cases this
      simp only [hany', Bool.false_eq_true, if_false]
      by_cases hapi : s.dev.apiKnown = true
      · simp only [hapi, Bool.not_true, Bool.false_eq_true, if_false, hcl, Bool.not_false, if_true]
        exact ⟨h, hset _ hcl, ClientsKept.refl _⟩
      · have hapi' : s.dev.apiKnown = false := by simpa using hapi
        obtain ⟨g1, g2, g3, g4⟩ := startAcq_facts cfg s h.alloc
        have hst : (stopAcq (startAcq cfg s)).dev.opened = false := by
          unfold stopAcq; rw [g3]; rfl
        have hstc : (stopAcq (startAcq cfg s)).clients = s.clients := by
          unfold stopAcq; rw [g3]; exact g1
        have hstq : (stopAcq (startAcq cfg s)).dev.q = [] := by
          unfold stopAcq; rw [g3]; rfl
        have hsta : (stopAcq (startAcq cfg s)).dev.free = 0 ∧ (stopAcq (startAcq cfg s)).dev.allocated = 0 := by
          unfold stopAcq; rw [g3]; exact ⟨rfl, rfl⟩
        simp only [hapi', Bool.not_false, if_true, hst]
        refine ⟨?_, ?_, by rw [hstc]; exact ClientsKept.refl _⟩
        · unfold Core views; rw [hstc]
          refine ⟨?_, ?_, ?_, fun hh => (by rw [hst] at hh; cases hh), fun hh => (by rw [hst] at hh; cases hh)⟩
          · rw [hstq, ← hq0]; exact h.q
          · intro v hv
            exact (h.pc v hv).congr_dev (by rw [hstq, hq0]) (fun hh => by rw [hcl] at hh; cases hh)
          · rw [hstq, hsta.1, hsta.2]; rfl
        · unfold Settled views; rw [hstc]; exact hset _ hst

end Zvbi.ProxyQ
