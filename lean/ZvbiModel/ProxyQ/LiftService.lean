import ZvbiModel.ProxyQ.LiftCapture
/-!
# Lifting, part 4: service negotiation (`vbi_proxyd_update_services`, `vbi_proxyd_take_service_req`,
the CONNECT_REQ / SERVICE_REQ / CLOSE_REQ arms of `vbi_proxyd_take_message`)

The key facts: the grant of a client that has queued frames is `allOf` of its stored requests, so recomputing
it leaves it unchanged (`allOf_mask`: masking the requests with the grant does not change the grant); the
requesting client has no queued frames when its grant is recomputed (a new client never had any, a SERVICE_REQ
released them first); the device is stopped only when the union of the grants is empty, and then nobody has
queued frames and the queue is empty, so freeing it leaves no cursor dangling.
-/
namespace Zvbi.ProxyQ
open Zvbi.Gen.ProxyQ

/-! ## `vbi_proxy_queue_allocate` -/

theorem foldl_max_ge (cl : List Client) (m : Nat) : m ≤ cl.foldl (fun m c => max m c.bufferCount) m := by
  induction cl generalizing m with
  | nil => exact Nat.le_refl _
  | cons c t ih =>
    simp only [List.foldl_cons]
    exact Nat.le_trans (Nat.le_max_left _ _) (ih _)

theorem allocate_rest (d : Dev) (cl : List Client) : devRest (allocate d cl) = { devRest d with allocated := (allocate d cl).allocated } := by
  unfold allocate devRest
  simp only
  split <;> split <;> rfl

theorem allocate_q (d : Dev) (cl : List Client) : (allocate d cl).q = d.q := by
  have := congrArg Dev.q (allocate_rest d cl); unfold devRest at this
  unfold allocate; simp only; split <;> split <;> rfl

theorem allocate_fields (d : Dev) (cl : List Client) :
    (allocate d cl).opened = d.opened ∧ (allocate d cl).allServices = d.allServices ∧
    (allocate d cl).maxLines = d.maxLines ∧ (allocate d cl).active = d.active := by
  unfold allocate; simp only; split <;> split <;> exact ⟨rfl, rfl, rfl, rfl⟩

theorem allocate_alloc (d : Dev) (cl : List Client) (h : d.free + d.q.length = d.allocated) :
    (allocate d cl).free + (allocate d cl).q.length = (allocate d cl).allocated ∧
    defaultBufferCount ≤ (allocate d cl).free + (allocate d cl).q.length := by
  have hw := foldl_max_ge cl defaultBufferCount
  unfold allocate
  simp only
  split <;> split <;> (try dsimp only at *) <;> omega

/-! ## the per-client update on views -/

def updV (cfg : Cfg) (mask : Bool) (v : CV) : CV :=
  if v.state != .forward then v else
  { v with allServices := allOf cfg v.services,
           services := if mask then maskServices cfg v.services else v.services }

theorem updClient_view (cfg : Cfg) (req : Option Nat) (c : Client) :
    (updClient cfg req c).view = updV cfg (req == some c.id) c.view := by
  unfold updClient updV
  have e : c.view.state = c.state := rfl
  rw [e]
  cases hst : (c.state != CState.forward)
  · simp only [Bool.false_eq_true, if_false]
    cases hr : (req == some c.id) <;> rfl
  · simp

theorem updV_fields (cfg : Cfg) (m : Bool) (v : CV) :
    (updV cfg m v).state = v.state ∧ (updV cfg m v).backlog = v.backlog ∧ (updV cfg m v).expected = v.expected ∧
    (updV cfg m v).done = v.done := by
  unfold updV; split <;> exact ⟨rfl, rfl, rfl, rfl⟩

theorem updV_grant (cfg : Cfg) (m : Bool) (v : CV) (hf : (updV cfg m v).state = .forward) :
    (updV cfg m v).allServices = allOf cfg (updV cfg m v).services := by
  unfold updV at hf ⊢
  split
  · rename_i hn
    rw [if_pos hn] at hf
    rw [hf] at hn; simp at hn
  · cases m
    · rfl
    · show allOf cfg v.services = allOf cfg (maskServices cfg v.services)
      rw [allOf_mask]

/-- a client with queued frames keeps its grant -/
theorem updV_sub {cfg : Cfg} {d : Dev} {v : CV} (m : Bool) (p : PC cfg d v) (hb : 0 < v.backlog) :
    (updV cfg m v).subscribed = true := by
  have hs := p.sub hb
  unfold CV.subscribed at hs
  have hst : v.state = .forward := by
    cases h : v.state <;> simp_all
  have hg : v.allServices = allOf cfg v.services := by
    rcases p.gw hst with h1 | h1
    · exact h1
    · omega
  unfold updV CV.subscribed
  simp only [hst, bne_self_eq_false, Bool.false_eq_true, if_false]
  rw [← hg]
  simpa [hst] using hs

theorem pc_upd {cfg : Cfg} {d d' : Dev} {v : CV} (m : Bool) (p : PC cfg d v) (hq : d'.q = d.q)
    (ho : (updV cfg m v).subscribed = true → d'.opened = true) : PC cfg d' (updV cfg m v) := by
  obtain ⟨h1, h2, h3, h4⟩ := updV_fields cfg m v
  refine ⟨?_, ?_, ?_, ho, ?_, ?_⟩
  · intro hb; rw [h2] at hb; exact updV_sub m p hb
  · intro hf; exact Or.inl (updV_grant cfg m v hf)
  · intro hw
    rw [h1] at hw
    have : updV cfg m v = v := by
      unfold updV; rw [hw]; rfl
    rw [this]; exact p.w hw
  · rw [h2, h3, h4, hq]; exact p.gh
  · rw [h4]; exact p.ov

theorem devUnion_eq_acc (cl : List Client) (acc : Nat) :
    cl.foldl (fun acc c => if c.state == .forward then acc ||| c.allServices else acc) acc
      = ((cl.map Client.view).map contrib).foldl (· ||| ·) acc := by
  induction cl generalizing acc with
  | nil => rfl
  | cons c t ih =>
    simp only [List.foldl_cons, List.map_cons]
    rw [ih]
    congr 1
    unfold contrib
    have e1 : c.view.state = c.state := rfl
    have e2 : c.view.allServices = c.allServices := rfl
    rw [e1, e2]
    split <;> simp

theorem devUnion_eq (cl : List Client) :
    cl.foldl (fun acc c => if c.state == .forward then acc ||| c.allServices else acc) 0 = unionV (cl.map Client.view) :=
  devUnion_eq_acc cl 0

/-! ## `vbi_proxyd_update_services` -/

/-- what the callers need to know about the clients after an update: same positions, states, ids; cursors
unchanged or released -/
def Kept (cl cl' : List Client) : Prop :=
  cl'.length = cl.length ∧
  ∀ (i : Nat) (c : Client), cl[i]? = some c → ∃ c' : Client, cl'[i]? = some c' ∧ c'.backlog ≤ c.backlog ∧ c'.state = c.state ∧ c'.id = c.id ∧
    c'.eof = c.eof

/-- the same, and the requests and grants are unchanged too -/
def KeptG (cl cl' : List Client) : Prop :=
  cl'.length = cl.length ∧
  ∀ (i : Nat) (c : Client), cl[i]? = some c → ∃ c' : Client, cl'[i]? = some c' ∧ c'.backlog ≤ c.backlog ∧ c'.state = c.state ∧ c'.id = c.id ∧
    c'.eof = c.eof ∧ c'.services = c.services ∧ c'.allServices = c.allServices

theorem Kept.refl (cl : List Client) : Kept cl cl :=
  ⟨rfl, fun _ c h => ⟨c, h, Nat.le_refl _, rfl, rfl, rfl⟩⟩

theorem KeptG.refl (cl : List Client) : KeptG cl cl :=
  ⟨rfl, fun _ c h => ⟨c, h, Nat.le_refl _, rfl, rfl, rfl, rfl, rfl⟩⟩

theorem KeptG.toKept {cl cl' : List Client} (h : KeptG cl cl') : Kept cl cl' :=
  ⟨h.1, fun i c hi => by
    obtain ⟨c', h1, h2, h3, h4, h5, _, _⟩ := h.2 i c hi
    exact ⟨c', h1, h2, h3, h4, h5⟩⟩

theorem Kept.trans {a b c : List Client} (h1 : Kept a b) (h2 : Kept b c) : Kept a c :=
  ⟨h2.1.trans h1.1, fun i x hi => by
    obtain ⟨y, g1, g2, g3, g4, g5⟩ := h1.2 i x hi
    obtain ⟨z, k1, k2, k3, k4, k5⟩ := h2.2 i y g1
    exact ⟨z, k1, Nat.le_trans k2 g2, k3.trans g3, k4.trans g4, k5.trans g5⟩⟩

theorem KeptG.trans {a b c : List Client} (h1 : KeptG a b) (h2 : KeptG b c) : KeptG a c :=
  ⟨h2.1.trans h1.1, fun i x hi => by
    obtain ⟨y, g1, g2, g3, g4, g5, g6, g7⟩ := h1.2 i x hi
    obtain ⟨z, k1, k2, k3, k4, k5, k6, k7⟩ := h2.2 i y g1
    exact ⟨z, k1, Nat.le_trans k2 g2, k3.trans g3, k4.trans g4, k5.trans g5, k6.trans g6, k7.trans g7⟩⟩

theorem Kept.of_map (cl : List Client) (F : Client → Client)
    (hF : ∀ c, (F c).backlog = c.backlog ∧ (F c).state = c.state ∧ (F c).id = c.id ∧ (F c).eof = c.eof) :
    Kept cl (cl.map F) :=
  ⟨by simp, fun i c hi => by
    obtain ⟨h1, h2, h3, h4⟩ := hF c
    exact ⟨F c, by rw [List.getElem?_map, hi]; rfl, by omega, h2, h3, h4⟩⟩

theorem updClient_kept (cfg : Cfg) (req : Option Nat) (c : Client) :
    (updClient cfg req c).backlog = c.backlog ∧ (updClient cfg req c).state = c.state ∧ (updClient cfg req c).id = c.id ∧
    (updClient cfg req c).eof = c.eof := by
  unfold updClient
  split
  · exact ⟨rfl, rfl, rfl, rfl⟩
  · simp only; split <;> exact ⟨rfl, rfl, rfl, rfl⟩

/-- requests and grants of two client lists agree position by position: same union, same grant facts -/
theorem KeptG.views {cl cl' : List Client} (h : KeptG cl cl') :
    unionV (cl'.map Client.view) = unionV (cl.map Client.view) ∧
    ∀ (P : CState → List Nat → Nat → Prop), (∀ v ∈ cl.map Client.view, P v.state v.services v.allServices) →
      ∀ v ∈ cl'.map Client.view, P v.state v.services v.allServices := by
  refine ⟨?_, ?_⟩
  · unfold unionV
    congr 1
    apply List.ext_getElem?
    intro i
    simp only [List.getElem?_map]
    cases hi : cl[i]? with
    | none =>
      have : cl'[i]? = none := by
        rw [List.getElem?_eq_none_iff] at hi ⊢
        rw [h.1]; exact hi
      rw [this]
    | some c =>
      obtain ⟨c', h1, _, h3, _, _, _, h7⟩ := h.2 i c hi
      rw [h1]
      have hcc : contrib c'.view = contrib c.view := by
        unfold contrib Client.view
        simp only [h3, h7]
      simp only [Option.map_some, hcc]
  · intro P hP v hv
    obtain ⟨c', hc', rfl⟩ := List.mem_map.mp hv
    obtain ⟨i, hi⟩ := List.mem_iff_getElem?.mp hc'
    have hlt : i < cl.length := by rw [← h.1]; exact lt_of_getElem?_eq hi
    have hci : cl[i]? = some cl[i] := List.getElem?_eq_getElem hlt
    obtain ⟨c'', h1, _, h3, _, _, h6, h7⟩ := h.2 i _ hci
    rw [hi] at h1
    cases h1
    have := hP cl[i].view (List.mem_map.mpr ⟨_, List.getElem_mem hlt, rfl⟩)
    show P c'.state c'.services c'.allServices
    rw [h3, h6, h7]; exact this

theorem relLostLoop_ok (cfg : Cfg) : ∀ (fuel : Nat) (s : State) (i : Nat), Core cfg s →
    ∃ s', relLostLoop fuel s i = .ok s' ∧ Core cfg s' ∧ devRest s'.dev = devRest s.dev ∧ KeptG s.clients s'.clients := by
  intro fuel
  induction fuel with
  | zero => intro s i h; exact ⟨s, rfl, h, rfl, KeptG.refl _⟩
  | succ fuel ih =>
    intro s i h
    cases hi : s.clients[i]? with
    | none => exact ⟨s, by simp [relLostLoop, hi], h, rfl, KeptG.refl _⟩
    | some c =>
      by_cases hcond : (c.state == CState.forward && c.allServices == 0) = true
      · obtain ⟨s1, hr, hc1, _, hd1, _, _, hk, hlen, hoth⟩ :=
          releaseOwn_ok (cfg := cfg) (s := s) (i := i) (fate := Fate.grantLost) trivial h
        obtain ⟨s', hr', hc', hd', hk'⟩ := ih s1 (i + 1) hc1
        refine ⟨s', by simp only [relLostLoop, hi, hcond, if_true, hr]; exact hr', hc', by rw [hd', hd1], ?_⟩
        refine KeptG.trans ⟨hlen, ?_⟩ hk'
        intro j x hj
        by_cases hji : j = i
        · subst hji
          rw [hi] at hj; cases hj
          obtain ⟨c1, g1, g2, g3, g4, g5, g6, g7⟩ := hk c hi
          exact ⟨c1, g1, by omega, g3, g7, g6, g5, g4⟩
        · exact ⟨x, by rw [hoth j hji]; exact hj, Nat.le_refl _, rfl, rfl, rfl, rfl, rfl⟩
      · obtain ⟨s', hr', hc', hd', hk'⟩ := ih s (i + 1) h
        refine ⟨s', ?_, hc', hd', hk'⟩
        have : (c.state == CState.forward && c.allServices == 0) = false := by simpa using hcond
        simp only [relLostLoop, hi, this, Bool.false_eq_true, if_false]; exact hr'

theorem relLost_ok {cfg : Cfg} {s : State} (h : Core cfg s) :
    ∃ s', relLost s = .ok s' ∧ Core cfg s' ∧ devRest s'.dev = devRest s.dev ∧ KeptG s.clients s'.clients := by
  unfold relLost
  split
  · exact relLostLoop_ok cfg _ s 0 h
  · exact ⟨s, rfl, h, rfl, KeptG.refl _⟩

theorem Core.started {cfg : Cfg} {s : State} (h : Core cfg s) : Core cfg (startAcq cfg s) := by
  unfold Core views startAcq
  have hal := allocate_alloc { s.dev with opened := true, apiKnown := true, active := 0, decScanning := cfg.scanning } s.clients h.alloc
  have hq := allocate_q { s.dev with opened := true, apiKnown := true, active := 0, decScanning := cfg.scanning } s.clients
  have hf := allocate_fields { s.dev with opened := true, apiKnown := true, active := 0, decScanning := cfg.scanning } s.clients
  refine ⟨?_, ?_, hal.1, fun _ => hal.2⟩
  · show QInv (allocate _ _).q _
    rw [hq]; exact h.q
  · intro v hv
    exact (h.pc v hv).congr_dev hq (fun _ => by rw [hf.1])

/-- with nobody subscribed the acquisition can be stopped: the queue is empty, no cursor is left dangling -/
theorem Core.stopped {cfg : Cfg} {s : State} (h : Core cfg s) (hns : ∀ v ∈ views s, v.subscribed = false) :
    Core cfg (stopAcq s) ∧ (stopAcq s).dev.opened = false ∧ (stopAcq s).clients = s.clients := by
  unfold stopAcq
  by_cases ho : s.dev.opened = true
  · rw [if_pos ho]
    have hb0 : ∀ v ∈ views s, v.backlog = 0 := by
      intro v hv
      by_cases hb : 0 < v.backlog
      · have := (h.pc v hv).sub hb; rw [hns v hv] at this; cases this
      · omega
    have hq0 : s.dev.q = [] := by
      apply QInv_all_zero h.q
      intro b hb
      obtain ⟨v, hv, rfl⟩ := List.mem_map.mp hb
      exact hb0 v hv
    refine ⟨?_, rfl, rfl⟩
    unfold Core
    show CoreV cfg _ (views s)
    refine ⟨?_, ?_, rfl, fun hh => (by cases hh)⟩
    · show QInv [] _
      apply QInv_nil
      intro b hb
      obtain ⟨v, hv, rfl⟩ := List.mem_map.mp hb
      exact hb0 v hv
    · intro v hv
      have p := h.pc v hv
      exact ⟨p.sub, p.gw, p.w, fun hs => (by rw [hns v hv] at hs; cases hs),
             (by show v.expected = pendingOf [] v.backlog ++ _; rw [← hq0]; exact p.gh), p.ov⟩
  · have ho' : s.dev.opened = false := by simpa using ho
    rw [if_neg ho]
    exact ⟨h, ho', rfl⟩


theorem Core.withAlloc {cfg : Cfg} {s : State} (h : Core cfg s) (a m : Nat) :
    Core cfg { s with dev := allocate { s.dev with allServices := a, maxLines := m } s.clients } := by
  unfold Core views
  have hal := allocate_alloc { s.dev with allServices := a, maxLines := m } s.clients h.alloc
  have hq := allocate_q { s.dev with allServices := a, maxLines := m } s.clients
  have hf := allocate_fields { s.dev with allServices := a, maxLines := m } s.clients
  refine ⟨?_, ?_, hal.1, fun _ => hal.2⟩
  · show QInv (allocate _ _).q _
    rw [hq]; exact h.q
  · intro v hv
    exact (h.pc v hv).congr_dev hq (fun hh => by rw [hf.1]; exact hh)

/-- second stage, device open: the invariant is re-established whatever `max_lines`/`active` were before -/
theorem updStage2_ok {cfg : Cfg} {s1 : State} (req : Option Nat) (h : Core cfg s1) (ho : s1.dev.opened = true) :
    ∃ r, updStage2 cfg s1 req = .ok r ∧ Core cfg r.1 ∧ Settled cfg r.1 ∧ Kept s1.clients r.1.clients := by
  -- the client list after the service loop and its views
  let cl := s1.clients.map (updClient cfg req)
  have hviews : ∀ (cl2 : List Client), (cl2 = cl ∨ cl2 = cl.map (fun c => { c with chnInd := c.chnInd ||| chnNorm })) →
      cl2.map Client.view = cl.map Client.view ∧ Kept s1.clients cl2 := by
    intro cl2 h2
    rcases h2 with rfl | rfl
    · exact ⟨rfl, Kept.of_map _ _ (updClient_kept cfg req)⟩
    · refine ⟨by rw [List.map_map]; apply List.map_congr_left; intro c _; rfl, ?_⟩
      have : cl.map (fun c => { c with chnInd := c.chnInd ||| chnNorm }) =
          s1.clients.map (fun c => { updClient cfg req c with chnInd := (updClient cfg req c).chnInd ||| chnNorm }) := by
        rw [List.map_map]; rfl
      rw [this]
      exact Kept.of_map _ _ (fun c => updClient_kept cfg req c)
  have hmem : ∀ v' ∈ cl.map Client.view, ∃ v ∈ views s1, ∃ m, v' = updV cfg m v := by
    intro v' hv'
    obtain ⟨c', hc', rfl⟩ := List.mem_map.mp hv'
    obtain ⟨c, hcm, rfl⟩ := List.mem_map.mp hc'
    exact ⟨c.view, List.mem_map.mpr ⟨c, hcm, rfl⟩, _, updClient_view cfg req c⟩
  have hbl : (cl.map Client.view).map (·.backlog) = (views s1).map (·.backlog) := by
    unfold views
    rw [List.map_map, List.map_map, List.map_map]
    apply List.map_congr_left
    intro c _
    exact (updClient_kept cfg req c).1
  have hunion : cl.foldl (fun acc c => if c.state == .forward then acc ||| c.allServices else acc) 0
      = unionV (cl.map Client.view) := devUnion_eq cl
  unfold updStage2
  simp only
  generalize hcalls : updCalls cfg s1.clients true = calls
  have hcl : s1.clients.map (updClient cfg req) = cl := rfl
  rw [hcl, hunion]
  generalize hdecs : (if calls.isEmpty = true then s1.dev.decScanning else cfg.scanning) = decScanning
  generalize hact : (if calls.isEmpty = true then s1.dev.active else unionV (cl.map Client.view)) = active
  have hcl2 := hviews (if (decScanning != s1.dev.scanning) = true then cl.map (fun c => { c with chnInd := c.chnInd ||| chnNorm }) else cl)
    (by split; exact Or.inr rfl; exact Or.inl rfl)
  generalize (if (decScanning != s1.dev.scanning) = true then cl.map (fun c => { c with chnInd := c.chnInd ||| chnNorm }) else cl) = cl2 at hcl2 ⊢
  obtain ⟨hv2, hk2⟩ := hcl2
  generalize (if (decScanning != s1.dev.scanning) = true then decScanning else s1.dev.scanning) = scanning
  -- the state after the service loop (before the queue is adjusted) satisfies Core
  have hcore2 : Core cfg { s1 with
      clients := cl2,
      dev := { s1.dev with active := active, decScanning := decScanning, scanning := scanning },
      log := s1.log ++ calls } := by
    unfold Core views
    show CoreV cfg _ (cl2.map Client.view)
    rw [hv2]
    refine ⟨?_, ?_, h.alloc, fun _ => h.depth ho⟩
    · show QInv s1.dev.q _
      rw [hbl]; exact h.q
    · intro v' hv'
      obtain ⟨v, hv, m, rfl⟩ := hmem v' hv'
      exact pc_upd m (h.pc v hv) rfl (fun _ => ho)
  have hgs2 : ∀ v ∈ cl2.map Client.view, v.state = .forward → v.allServices = allOf cfg v.services := by
    rw [hv2]
    intro v' hv' hf
    obtain ⟨v, hv, m, rfl⟩ := hmem v' hv'
    exact updV_grant cfg m v hf
  obtain ⟨s3, hr3, hc3, hd3, hk3⟩ := relLost_ok hcore2
  rw [hr3]
  simp only
  obtain ⟨hu3, hP3⟩ := hk3.views
  have hu3' : unionV (views s3) = unionV (cl.map Client.view) := by
    unfold views; rw [hu3]; show unionV (cl2.map Client.view) = _; rw [hv2]
  have hgs3 : ∀ v ∈ views s3, v.state = .forward → v.allServices = allOf cfg v.services :=
    hP3 (fun st sv a => st = .forward → a = allOf cfg sv) hgs2
  have hk13 : Kept s1.clients s3.clients := hk2.trans hk3.toKept
  have ho3 : s3.dev.opened = true := by
    have := congrArg Dev.opened hd3; simp only [devRest] at this; rw [this]; exact ho
  have hact3 : s3.dev.active = active := by
    have := congrArg Dev.active hd3; simp only [devRest] at this; exact this
  by_cases hz : unionV (cl.map Client.view) = 0
  · -- nobody is granted anything: the device is stopped; nobody has queued frames
    have hne : (unionV (cl.map Client.view) != 0) = false := by simp [hz]
    simp only [hne, Bool.false_eq_true, if_false]
    have hns : ∀ v ∈ views s3, v.subscribed = false := unionV_eq_zero.mp (by rw [hu3']; exact hz)
    obtain ⟨hcs, hos, hcls⟩ := hc3.stopped hns
    refine ⟨_, rfl, hcs, ?_, by rw [hcls]; exact hk13⟩
    unfold Settled views
    rw [hcls]
    exact ⟨hgs3, fun hh => (by rw [hos] at hh; cases hh), fun hh => (by rw [hos] at hh; cases hh),
           fun hh => (by rw [hos] at hh; cases hh)⟩
  · have hne : (unionV (cl.map Client.view) != 0) = true := by simp [hz]
    simp only [hne, if_true]
    obtain ⟨f1, f2, f3, f4⟩ := allocate_fields
      { s3.dev with allServices := unionV (cl.map Client.view), maxLines := cfg.count active } s3.clients
    refine ⟨_, rfl, hc3.withAlloc _ _, ?_, hk13⟩
    unfold Settled
    show SettledV cfg (allocate _ s3.clients) (views s3)
    refine ⟨hgs3, fun _ => by rw [hu3']; exact hz, fun _ => by rw [f2, hu3'], fun _ => ?_⟩
    rw [f3, f4]
    show cfg.count active = cfg.count s3.dev.active
    rw [hact3]

/-- `vbi_proxyd_update_services`: from `Core` alone it succeeds and re-establishes `Core` and `Settled` -/
theorem updateServices_ok {cfg : Cfg} {s : State} (req : Option Nat) (h : Core cfg s) :
    ∃ r, updateServices cfg s req = .ok r ∧ Core cfg r.1 ∧ Settled cfg r.1 ∧ Kept s.clients r.1.clients := by
  unfold updateServices updStage1
  by_cases hop : s.dev.opened = true
  · -- device already open
    simp only [hop, Bool.not_true, Bool.false_eq_true, if_false]
    exact updStage2_ok req h hop
  · have hcl : s.dev.opened = false := by simpa using hop
    simp only [hcl, Bool.not_false, if_true]
    have hso : (startAcq cfg s).dev.opened = true := by
      unfold startAcq
      show (allocate _ _).opened = true
      rw [(allocate_fields _ _).1]
    have hsc : (startAcq cfg s).clients = s.clients := rfl
    by_cases hany : s.clients.any (fun c => anyServices c.services) = true
    · simp only [hany, if_true, hso, Bool.not_true, Bool.false_eq_true, if_false]
      have := updStage2_ok req h.started hso
      rw [hsc] at this
      exact this
    · have hnone : ∀ c ∈ s.clients, anyServices c.services = false := by
        intro c hc
        cases hx : anyServices c.services with
        | false => rfl
        | true => exact absurd (List.any_eq_true.mpr ⟨c, hc, hx⟩) hany
      have hany' : s.clients.any (fun c => anyServices c.services) = false := by simpa using hany
      -- nobody asks for anything: the device stays closed; every grant is 0 = allOf (no requests)
      have hnsub : ∀ v ∈ views s, v.subscribed = false := by
        intro v hv
        cases hs : v.subscribed with
        | false => rfl
        | true =>
          have := (h.pc v hv).so hs
          rw [hcl] at this; cases this
      have hset : ∀ (d : Dev), d.opened = false → SettledV cfg d (views s) := by
        intro d hd
        refine ⟨?_, fun hh => (by rw [hd] at hh; cases hh), fun hh => (by rw [hd] at hh; cases hh),
                fun hh => (by rw [hd] at hh; cases hh)⟩
        intro v hv hf
        obtain ⟨c, hcm, rfl⟩ := List.mem_map.mp hv
        have hz : allOf cfg c.view.services = 0 := allOf_zero cfg _ (hnone c hcm)
        rw [hz]
        by_cases ha : c.view.allServices = 0
        · exact ha
        · have hsub : c.view.subscribed = true := by
            unfold CV.subscribed; rw [hf]; simpa using ha
          rw [hnsub _ hv] at hsub; cases hsub
      simp only [hany', Bool.false_eq_true, if_false]
      by_cases hapi : s.dev.apiKnown = true
      · simp only [hapi, Bool.not_true, Bool.false_eq_true, if_false, hcl, Bool.not_false, if_true]
        exact ⟨_, rfl, h, hset _ hcl, Kept.refl _⟩
      · have hapi' : s.dev.apiKnown = false := by simpa using hapi
        obtain ⟨hcs, hos, hcls⟩ := (h.started (cfg := cfg)).stopped (by rw [show views (startAcq cfg s) = views s from rfl]; exact hnsub)
        simp only [hapi', Bool.not_false, if_true, hos]
        refine ⟨_, rfl, hcs, ?_, by rw [hcls]; exact Kept.refl _⟩
        unfold Settled views; rw [hcls]; exact hset _ hos

end Zvbi.ProxyQ
