import ZvbiModel.Generated.ProxyQLayout
/-!
# Model of the sliced-frame queue of the proxy daemon (`daemon/proxyd.c`, property C18)

Follows `vbi_proxy_queue_get_free/add_free/add_tail/release_sliced/release_all/force_free/allocate`
(proxyd.c:311-595), `vbi_proxyd_forward_data` (600-673), `vbi_proxy_start/stop_acquisition` (923-1002),
`vbi_proxyd_update_services` (1008-1144), `vbi_proxyd_take_service_req` (1153-1213), `vbi_proxyd_close`
(1736), `vbi_proxyd_add_connection` (1763), `vbi_proxyd_send_sliced` (1844-1911), the CONNECT_REQ /
SERVICE_REQ / CLOSE_REQ arms of `vbi_proxyd_take_message` (2021), `vbi_proxyd_get_fd_set` (2324),
`vbi_proxyd_handle_client_sockets` (2392-2551) and one iteration of `vbi_proxyd_main_loop` (2793), plus
`vbi_proxy_msg_handle_write` / `vbi_proxy_msg_write` of `src/proxy-msg.c`.

* **Pointers into the queue.**  The C queue `p_sliced` is a singly linked list, new buffers are appended
  at the tail, buffers leave at the head.  The model keeps it as a `List QElem` with the **newest buffer
  first**; a pointer to a queued buffer (`PROXY_CLNT.p_sliced`, the cursor) is the buffer's **distance from
  the tail**: `backlog = 0` is `NULL`, `backlog = b > 0` is the `b`-th newest buffer, i.e. the client still
  has `b` buffers to send.  `p_buf->p_next` is `b - 1`; appending a buffer adds one to every non-NULL
  cursor (the pointer does not move, the tail does); `req->p_sliced == p_proxy_dev->p_sliced` is
  `backlog = q.length`.  A cursor with `backlog > q.length` points to a buffer that already went back to the
  free list (or was freed): using it is the explicit error `Err.dangling`, dereferencing NULL is
  `Err.nullDeref`, and the two `assert`s are `Err.assertFail site`.
* The free list carries no data the property depends on: it is its length `free`.  `allocated` is a ghost
  counter of `malloc`/`free` of queue buffers.  `p_tmp_buf` is non-NULL only inside `forward_data`, which is
  one atomic step of this single-threaded model (the acquisition thread is out of scope, see NOTES/C18.md).
* **The capture device** is a parameter `Cfg`: `supp strict` = the services it can deliver at that strictness
  level (`update_services` grants `services &&& supp strict`), `count active` = `count[0] + count[1]` of its
  decoder for the set of granted services.  The device delivers the scripted frames (`Dev.pend`).
* **The sockets**: what a client wrote and the daemon has not read is `Client.inbox`; how many bytes the
  client's socket accepts before `send` fails with `EAGAIN` is `Client.credit` (an input: op `credit`);
  the message in the daemon's write buffer is `Client.out` with the number of bytes still to write.
* Not modelled: channel tokens and scheduling (C19), raw VBI services (`VBI_RAW_SERVICES`), TCP, more than
  one device, timeouts (the clock is constant), `malloc` failure.
-/
namespace Zvbi.ProxyQ
open Zvbi.Gen.ProxyQ

structure Line where
  id : Nat
  line : Nat
  seed : Nat
deriving Repr, DecidableEq, Inhabited

/-- one captured frame: capture sequence number, timestamp in microseconds, sliced lines -/
structure Frame where
  seq : Nat
  ts : Nat
  lines : List Line
  /-- the device may return `count[0]+count[1]` lines of this frame (its documented contract) instead of
  fewer (what the daemon asserts) -/
  full : Bool := false
deriving Repr, DecidableEq, Inhabited

/-- `PROXY_QUEUE` -/
structure QElem where
  frame : Frame
  ref : Nat
deriving Repr, DecidableEq, Inhabited

inductive Site
  | releaseHead   -- assert(p_proxy_dev->p_sliced == p_buf) in vbi_proxy_queue_release_sliced
  | lineCount     -- assert(p_buf->line_count < p_buf->max_lines) in vbi_proxyd_forward_data
deriving Repr, DecidableEq

inductive Err
  | assertFail (s : Site)
  | dangling        -- a cursor that points to a recycled buffer was used
  | nullDeref       -- release_sliced with a NULL cursor
deriving Repr, DecidableEq

/-! ## the queue proper -/

/-- `if (p_buf->ref_count > 0) p_buf->ref_count -= 1` on the `j`-th newest buffer -/
def decAt : List QElem → Nat → List QElem
  | [], _ => []
  | e :: t, 0 => { e with ref := e.ref - 1 } :: t
  | e :: t, j + 1 => e :: decAt t j

def refAt : List QElem → Nat → Nat
  | [], _ => 0
  | e :: _, 0 => e.ref
  | _ :: t, j + 1 => refAt t j

/-- `vbi_proxy_queue_release_sliced` for a cursor `b` (the caller stores `b - 1` as the new cursor):
new queue and new free count -/
def releaseQ (q : List QElem) (free b : Nat) : Except Err (List QElem × Nat) :=
  if b = 0 then .error .nullDeref
  else if q.length < b then .error .dangling
  else
    let q1 := decAt q (b - 1)
    if refAt q1 (b - 1) = 0 then
      if b = q.length then .ok (q1.dropLast, free + 1)
      else .error (.assertFail .releaseHead)
    else .ok (q1, free)

/-- `while (req->p_sliced != NULL) vbi_proxy_queue_release_sliced(req)` (close, service request) -/
def releaseAllQ (q : List QElem) (free : Nat) : Nat → Except Err (List QElem × Nat)
  | 0 => .ok (q, free)
  | b + 1 =>
    match releaseQ q free (b + 1) with
    | .error e => .error e
    | .ok (q', f') => releaseAllQ q' f' b

/-! ## clients, device, state -/

inductive CState
  | waitConReq | waitClose | forward | closed
deriving Repr, DecidableEq

inductive InMsg
  | connect (services strict bufcnt : Nat)
  | service (services strict : Nat) (reset : Bool)
  | bye
deriving Repr, DecidableEq

inductive OutMsg
  | connectCnf (services count : Nat)
  | connectRej
  | serviceCnf (services count : Nat)
  | serviceRej
  | chnChange (flags scanning : Nat)
  | sliced (seq ts : Nat) (lines : List Line)
deriving Repr, DecidableEq

/-- message length including the header (`vbi_proxy_msg_write`) -/
def OutMsg.size : OutMsg → Nat
  | .connectCnf .. => hdrSize + connectCnfSize
  | .connectRej => hdrSize + connectRejSize
  | .serviceCnf .. => hdrSize + serviceCnfSize
  | .serviceRej => hdrSize + serviceRejSize
  | .chnChange .. => hdrSize + chnChangeIndSize
  | .sliced _ _ ls => hdrSize + slicedIndBase + ls.length * slicedSize

/-- what became of a frame that was queued for a client (ghost) -/
inductive Fate
  | sent | svcChange | closed
  /-- lost to a queue overflow; `lag` = number of frames that were queued and unsent for this client -/
  | overflow (lag : Nat)
  | flushed
  /-- (repaired `vbi_proxyd_update_services` only) the device no longer grants the client anything -/
  | grantLost
deriving Repr, DecidableEq

/-- `PROXY_CLNT` plus the client's end of the socket -/
structure Client where
  id : Nat
  state : CState := .waitConReq
  inbox : List InMsg := []
  eof : Bool := false                 -- the client closed its end
  credit : Nat := 0
  out : Option (OutMsg × Nat) := none -- io.pWriteBuf, io.writeLen - io.writeOff
  services : List Nat := List.replicate nStrict 0
  allServices : Nat := 0
  maxLines : Nat := 0                 -- vbi_count[0] + vbi_count[1]
  bufferCount : Nat := 0
  backlog : Nat := 0                  -- p_sliced, see the header
  chnInd : Nat := 0                   -- chn_status_ind
  rdReady : Bool := false             -- FD_ISSET(fd, rd) of the current iteration
  wrReady : Bool := false
  /-- ghost: the frames captured while the client was subscribed (as read from the device: sequence number,
  capture timestamp, lines), newest first -/
  expected : List Frame := []
  /-- ghost: frames taken from the queue for this client and what became of them, newest first -/
  done : List (Frame × Fate) := []
deriving Repr, DecidableEq

/-- the eligibility test of `vbi_proxyd_forward_data` -/
def Client.subscribed (c : Client) : Bool :=
  c.state == .forward && c.allServices != 0

inductive DevEv
  | opened | closed | flush
  | upd (reset commit : Bool) (services strict grant : Nat)
  | read (seq : Nat)
deriving Repr, DecidableEq

structure Dev where
  opened : Bool := false      -- p_capture != NULL
  apiKnown : Bool := false    -- vbi_api != VBI_API_UNKNOWN
  allServices : Nat := 0
  maxLines : Nat := 0
  scanning : Nat := 0
  q : List QElem := []        -- p_sliced, newest first
  free : Nat := 0             -- length of p_free
  allocated : Nat := 0        -- ghost
  -- the capture device
  active : Nat := 0           -- services the device decodes
  decScanning : Nat := 0      -- p_decoder->scanning
  pend : List Frame := []     -- captured, not yet read by the daemon (oldest first)
  nextSeq : Nat := 0
deriving Repr, DecidableEq

/-- the capture device as a parameter -/
structure Cfg where
  scanning : Nat
  supp : Nat → Nat            -- strictness index 0..nStrict-1 -> deliverable services
  count : Nat → Nat           -- granted services -> count[0] + count[1]

structure State where
  dev : Dev := {}
  clients : List Client := []         -- proxy.p_clnts, in link order
  backlogConns : List Client := []    -- connected, not yet accepted
  nextId : Nat := 0
  log : List DevEv := []              -- device calls since the last audit line (oldest first)
  msgs : List (Nat × Option OutMsg) := []   -- completed messages / EOF seen by clients (oldest first)
deriving Repr, DecidableEq

def init : State := {}

/-! ## services -/

/-- a &&& ~~~b on naturals -/
def andNot (a b : Nat) : Nat := a ^^^ (a &&& b)

/-- what the device grants a client whose per-level requests are `sv` (union over the levels) -/
def allOf (cfg : Cfg) (sv : List Nat) : Nat :=
  (List.range nStrict).foldl (fun acc st => acc ||| (sv.getD st 0 &&& cfg.supp st)) 0

/-- `*VBI_GET_SERVICE_P(req, strict) &= tmp_services` for every level (only for the requesting client) -/
def maskServices (cfg : Cfg) (sv : List Nat) : List Nat :=
  (List.range nStrict).map (fun st => sv.getD st 0 &&& (sv.getD st 0 &&& cfg.supp st))

def anyServices (sv : List Nat) : Bool := sv.any (· != 0)

/-- device calls of one pass of the service loop of `vbi_proxyd_update_services`: for every FORWARD client
and level with services, `update_services(is_first, next_srv == 0, services, strict)` -/
def updCalls (cfg : Cfg) : List Client → Bool → List DevEv
  | [], _ => []
  | c :: rest, first =>
    if c.state != .forward then updCalls cfg rest first else
    let lv := (List.range nStrict).filter (fun st => c.services.getD st 0 != 0)
    let restAny := rest.any (fun w => anyServices w.services)
    let rec go : List Nat → Bool → List DevEv
      | [], _ => []
      | st :: more, f =>
        DevEv.upd f (more.isEmpty && !restAny) (c.services.getD st 0) st (c.services.getD st 0 &&& cfg.supp st)
          :: go more false
    go lv first ++ updCalls cfg rest (first && lv.isEmpty)

/-- `vbi_proxy_queue_allocate` -/
def allocate (d : Dev) (clients : List Client) : Dev :=
  let want := clients.foldl (fun m c => max m c.bufferCount) defaultBufferCount + clients.length
  let used := d.q.length
  let d1 := if d.free + used > want then { d with free := 0, allocated := d.allocated - d.free } else d
  if d1.free + used < want then
    { d1 with free := want - used, allocated := d1.allocated + (want - used - d1.free) }
  else d1

/-- `vbi_proxy_start_acquisition` (the fake device always opens and supports select) -/
def startAcq (cfg : Cfg) (s : State) : State :=
  let d := { s.dev with opened := true, apiKnown := true, active := 0, decScanning := cfg.scanning }
  { s with dev := allocate d s.clients, log := s.log ++ [.opened] }

/-- `vbi_proxy_stop_acquisition`: the queue buffers are freed; client cursors are NOT touched -/
def stopAcq (s : State) : State :=
  if s.dev.opened then
    { s with dev := { s.dev with opened := false, q := [], free := 0, allocated := 0 },
             log := s.log ++ [.closed] }
  else s

def setClient (s : State) (i : Nat) (c : Client) : State :=
  { s with clients := s.clients.set i c }

/-- release every buffer still queued for client `i`, recording `fate` (ghost) -/
def releaseOwn (s : State) (i : Nat) (fate : Fate) : Except Err State :=
  match s.clients[i]? with
  | none => .ok s
  | some c =>
    match releaseAllQ s.dev.q s.dev.free c.backlog with
    | .error e => .error e
    | .ok (q, f) =>
      let seqs := (s.dev.q.take c.backlog).map (·.frame)
      .ok (setClient { s with dev := { s.dev with q := q, free := f } } i
        { c with backlog := 0, done := seqs.map (·, fate) ++ c.done })

/-- (repaired code, commit "grant-lost") the loop added to `vbi_proxyd_update_services`: a FORWARD client that is
granted nothing any more is not referenced by new frames, so it releases everything still queued for it -/
def relLostLoop : Nat → State → Nat → Except Err State
  | 0, s, _ => .ok s
  | fuel + 1, s, i =>
    match s.clients[i]? with
    | none => .ok s
    | some c =>
      if c.state == .forward && c.allServices == 0 then
        match releaseOwn s i .grantLost with
        | .error e => .error e
        | .ok s1 => relLostLoop fuel s1 (i + 1)
      else relLostLoop fuel s (i + 1)

/-- present only if the translator found that loop in the C source -/
def relLost (s : State) : Except Err State :=
  if updReleasesLostGrant then relLostLoop s.clients.length s 0 else .ok s

/-- first part of `vbi_proxyd_update_services`: the device is opened if it is closed and anybody has requests
(or once, to learn the driver API) -/
def updStage1 (cfg : Cfg) (s : State) : State × Bool :=
  if !s.dev.opened then
    if s.clients.any (fun c => anyServices c.services) then (startAcq cfg s, true)
    else if !s.dev.apiKnown then (stopAcq (startAcq cfg s), true)
    else (s, true)
  else (s, false)

/-- what the service loop of `vbi_proxyd_update_services` does to one client; `req` = id of the requesting client -/
def updClient (cfg : Cfg) (req : Option Nat) (c : Client) : Client :=
  if c.state != .forward then c else
  let c1 := { c with allServices := allOf cfg c.services }
  if req == some c.id then { c1 with services := maskServices cfg c.services } else c1

/-- second part (device open): service loop, scanning, `all_services` / `max_lines`, queue allocation or stop -/
def updStage2 (cfg : Cfg) (s1 : State) (req : Option Nat) : Except Err (State × Bool) :=
  let calls := updCalls cfg s1.clients true
  let cl := s1.clients.map (updClient cfg req)
  let devServices := cl.foldl (fun acc c => if c.state == .forward then acc ||| c.allServices else acc) 0
  let decScanning := if calls.isEmpty then s1.dev.decScanning else cfg.scanning
  let active := if calls.isEmpty then s1.dev.active else devServices
  -- vbi_proxyd_update_scanning (dev_idx, NULL, p_decoder->scanning)
  let cl2 := if decScanning != s1.dev.scanning then cl.map (fun c => { c with chnInd := c.chnInd ||| chnNorm }) else cl
  let scanning := if decScanning != s1.dev.scanning then decScanning else s1.dev.scanning
  let d := { s1.dev with active := active, decScanning := decScanning, scanning := scanning }
  match relLost { s1 with clients := cl2, dev := d, log := s1.log ++ calls } with
  | .error e => .error e
  | .ok s3 =>
    if devServices != 0 then
      .ok ({ s3 with dev := allocate { s3.dev with allServices := devServices, maxLines := cfg.count active } s3.clients }, true)
    else
      .ok (stopAcq s3, calls.isEmpty)

/-- `vbi_proxyd_update_services (dev, p_new_req, ...)`; `req` = id of the requesting client -/
def updateServices (cfg : Cfg) (s : State) (req : Option Nat) : Except Err (State × Bool) :=
  let r := updStage1 cfg s
  if !r.1.dev.opened then .ok r else updStage2 cfg r.1 req

/-! ## operations on one client (by position in the client list) -/

/-- `vbi_proxyd_close` -/
def closeClient (s : State) (i : Nat) : Except Err State :=
  match s.clients[i]? with
  | none => .ok s
  | some c =>
    if c.state == .closed then .ok s else
    match releaseOwn s i .closed with
    | .error e => .error e
    | .ok s1 =>
      match s1.clients[i]? with
      | none => .ok s1
      | some c1 =>
        .ok { setClient s1 i { c1 with state := .closed, out := none } with
              msgs := if c.eof then s1.msgs else s1.msgs ++ [(c.id, none)] }

/-- `vbi_proxyd_take_service_req`; returns the result flag -/
def takeServiceReq (cfg : Cfg) (s : State) (i : Nat) (newSv strict : Nat) : Except Err (State × Bool) :=
  match s.clients[i]? with
  | none => .ok (s, false)
  | some c =>
    let sv := (List.range nStrict).map (fun st =>
      let v := andNot (c.services.getD st 0) newSv
      if st == strict then v ||| newSv else v)
    match updateServices cfg (setClient s i { c with services := sv }) (some c.id) with
    | .error e => .error e
    | .ok (s1, res) =>
      match s1.clients[i]? with
      | none => .ok (s1, false)
      | some c1 =>
        let ok := res && !((c1.allServices &&& newSv) == 0 && newSv != 0)
        let c2 := if s1.dev.opened then { c1 with maxLines := cfg.count s1.dev.active } else c1
        .ok (setClient s1 i c2, ok)

def decCount (cfg : Cfg) (s : State) : Nat := if s.dev.opened then cfg.count s.dev.active else 0

/-- the arms of `vbi_proxyd_take_message` a C18 client uses; `none` = message not accepted (connection closed) -/
def takeMessage (cfg : Cfg) (s : State) (i : Nat) (m : InMsg) : Except Err (Option State) :=
  match s.clients[i]? with
  | none => .ok (some s)
  | some c =>
    match m with
    | .connect sv st bc =>
      if c.state != .waitConReq then .ok none else
      let s0 := setClient s i { c with state := .forward, bufferCount := bc }
      (match takeServiceReq cfg s0 i sv st with
       | .error e => .error e
       | .ok (s1, ok) =>
         match s1.clients[i]? with
         | none => .ok (some s1)
         | some c1 =>
           if ok then
             let m := OutMsg.connectCnf c1.allServices (decCount cfg s1)
             .ok (some (setClient s1 i { c1 with out := some (m, m.size) }))
           else
             .ok (some (setClient s1 i { c1 with out := some (.connectRej, OutMsg.connectRej.size), state := .waitClose })))
    | .service sv st reset =>
      if c.state != .forward then .ok none else
      let s0 := if reset then setClient s i { c with services := List.replicate nStrict 0 } else s
      (match releaseOwn s0 i .svcChange with
       | .error e => .error e
       | .ok s1 =>
         match takeServiceReq cfg s1 i sv st with
         | .error e => .error e
         | .ok (s2, ok) =>
           match s2.clients[i]? with
           | none => .ok (some s2)
           | some c2 =>
             let m := if ok then OutMsg.serviceCnf c2.allServices (decCount cfg s2) else OutMsg.serviceRej
             .ok (some (setClient s2 i { c2 with out := some (m, m.size) })))
    | .bye =>
      (match closeClient s i with
       | .error e => .error e
       | .ok s1 => .ok (some s1))

/-- `vbi_proxy_msg_handle_write`: `(client', blocked, ok, completed message)` -/
def handleWrite (c : Client) : Client × Bool × Bool × Option OutMsg :=
  match c.out with
  | none => (c, false, true, none)
  | some (m, rem) =>
    if c.eof then (c, false, false, none)                 -- EPIPE
    else if c.credit = 0 then (c, true, true, none)       -- EAGAIN
    else
      let n := min rem c.credit
      if n ≥ rem then ({ c with credit := c.credit - n, out := none }, false, true, some m)
      else ({ c with credit := c.credit - n, out := some (m, rem - n) }, true, true, none)

/-- the lines `vbi_proxyd_send_sliced` copies into the indication -/
def filterLinesWith (boundsInput : Bool) (maxLines allServices : Nat) (lines : List Line) : List Line :=
  if boundsInput then
    (lines.take maxLines).filter (fun l => l.id &&& allServices != 0)
  else
    ((lines.filter (fun l => l.id &&& allServices != 0))).take maxLines

def filterLines (maxLines allServices : Nat) (lines : List Line) : List Line :=
  filterLinesWith filterBoundsInput maxLines allServices lines

/-- the `while ((req->p_sliced != NULL) && (io_blocked == FALSE))` loop of handle_client_sockets -/
def forwardLoop : Nat → State → Nat → Except Err State
  | 0, s, _ => .ok s
  | fuel + 1, s, i =>
    match s.clients[i]? with
    | none => .ok s
    | some c =>
      if c.backlog = 0 then .ok s else
      if s.dev.q.length < c.backlog then .error .dangling else
      let e := s.dev.q.getD (c.backlog - 1) default
      let m := OutMsg.sliced e.frame.seq e.frame.ts (filterLines c.maxLines c.allServices e.frame.lines)
      let (c1, blocked, ok, completed) := handleWrite { c with out := some (m, m.size) }
      if !ok then closeClient s i else
      match releaseQ s.dev.q s.dev.free c.backlog with
      | .error er => .error er
      | .ok (q, f) =>
        let c2 := { c1 with backlog := c.backlog - 1, done := (e.frame, Fate.sent) :: c1.done }
        let s1 := setClient { s with dev := { s.dev with q := q, free := f } } i c2
        let s2 := match completed with
          | some cm => { s1 with msgs := s1.msgs ++ [(c.id, some cm)] }
          | none => s1
        if blocked then .ok s2 else forwardLoop fuel s2 i

/-- first half of the body of the loop of `vbi_proxyd_handle_client_sockets` for the client `c` at position `i`:
read a message / continue writing; returns the state and `io_blocked` -/
def hcStage1 (cfg : Cfg) (s : State) (i : Nat) (c : Client) : Except Err (State × Bool) :=
  if c.rdReady && c.out.isNone then
    match c.inbox with
    | [] => (closeClient s i).map (·, false)        -- zero read: connection closed by the peer
    | m :: rest =>
      match takeMessage cfg (setClient s i { c with inbox := rest }) i m with
      | .error e => .error e
      | .ok (some s1) => .ok (s1, false)
      | .ok none => (closeClient (setClient s i { c with inbox := rest }) i).map (·, false)
  else if c.wrReady && c.out.isSome then
    let (c1, blocked, ok, completed) := handleWrite c
    let s1 := setClient s i c1
    let s1 := match completed with
      | some cm => { s1 with msgs := s1.msgs ++ [(c.id, some cm)] }
      | none => s1
    if ok then .ok (s1, blocked) else (closeClient s1 i).map (·, blocked)
  else .ok (s, false)

/-- second half: close on WAIT_CLOSE, channel-change indication, forward queued frames -/
def hcStage2 (s1 : State) (i : Nat) (blocked : Bool) : Except Err State :=
  match s1.clients[i]? with
  | none => .ok s1
  | some c1 =>
    if c1.state == .waitClose then closeClient s1 i
    else if c1.state == .closed then .ok s1
    else if c1.out.isNone then
      if c1.chnInd != 0 then
        let m := OutMsg.chnChange c1.chnInd s1.dev.scanning
        .ok (setClient s1 i { c1 with out := some (m, m.size), chnInd := 0 })
      else if blocked then .ok s1
      else forwardLoop (c1.backlog + 1) s1 i
    else .ok s1

/-- body of the loop of `vbi_proxyd_handle_client_sockets` for the client at position `i`, up to (not
including) the removal of a closed client -/
def handleClient (cfg : Cfg) (s : State) (i : Nat) : Except Err State :=
  match s.clients[i]? with
  | none => .ok s
  | some c =>
    match hcStage1 cfg s i c with
    | .error e => .error e
    | .ok (s1, blocked) => hcStage2 s1 i blocked

/-- the whole loop of `vbi_proxyd_handle_client_sockets`: closed clients are unlinked, and
`vbi_proxyd_update_services (dev, NULL, ...)` runs if the client had services -/
def clientLoop (cfg : Cfg) : Nat → State → Nat → Except Err State
  | 0, s, _ => .ok s
  | fuel + 1, s, i =>
    if s.clients.length ≤ i then .ok s else
    match handleClient cfg s i with
    | .error e => .error e
    | .ok s1 =>
      match s1.clients[i]? with
      | none => .ok s1
      | some c =>
        if c.state == .closed then
          let s2 := { s1 with clients := s1.clients.eraseIdx i }
          if c.allServices != 0 then
            match updateServices cfg s2 none with
            | .error e => .error e
            | .ok (s3, _) => clientLoop cfg fuel s3 i
          else clientLoop cfg fuel s2 i
        else clientLoop cfg fuel s1 (i + 1)

/-! ## capture -/

/-- the release loop of `vbi_proxy_queue_force_free` over the clients from position `i` on;
`len0` = length of the queue when the loop started (the saved head of the repaired code);
`live` = the loop compares with the current `p_proxy_dev->p_sliced` (the code as it is) -/
def forceLoopWith (live : Bool) : Nat → State → Nat → Nat → Except Err State
  | 0, s, _, _ => .ok s
  | fuel + 1, s, i, len0 =>
    match s.clients[i]? with
    | none => .ok s
    | some c =>
      let hit := if live then c.backlog == s.dev.q.length else c.backlog == len0
      if !hit then forceLoopWith live fuel s (i + 1) len0 else
      match releaseQ s.dev.q s.dev.free c.backlog with
      | .error e => .error e
      | .ok (q, f) =>
        let fr := (s.dev.q.getD (c.backlog - 1) default).frame
        let s1 := setClient { s with dev := { s.dev with q := q, free := f } } i
          { c with backlog := c.backlog - 1, done := (fr, Fate.overflow c.backlog) :: c.done }
        forceLoopWith live fuel s1 (i + 1) len0

def forceLoop : Nat → State → Nat → Nat → Except Err State := forceLoopWith forceFreeLiveHead

/-- `vbi_proxyd_forward_data` -/
def forwardData (cfg : Cfg) (s : State) : Except Err State :=
  -- get_free, else force_free + get_free
  let r : Except Err State :=
    if s.dev.free = 0 then
      if s.dev.q.isEmpty then .ok s else forceLoop s.clients.length s 0 s.dev.q.length
    else .ok s
  match r with
  | .error e => .error e
  | .ok s1 =>
    if s1.dev.free = 0 then .ok s1 else           -- "forward_data: queue overflow": nothing is read
    match s1.dev.pend with
    | [] => .ok s1                                -- read timeout (not reached: the fd was readable)
    | fr :: rest =>
      -- the device returns at most count[0]+count[1] lines
      let fr := { fr with lines := fr.lines.take (if fr.full then cfg.count s1.dev.active else cfg.count s1.dev.active - 1) }
      let bad := if assertLineCountStrict then decide (s1.dev.maxLines ≤ fr.lines.length)
                 else decide (s1.dev.maxLines < fr.lines.length)
      let s2 := { s1 with dev := { s1.dev with pend := rest }, log := s1.log ++ [.read fr.seq] }
      if bad then .error (.assertFail .lineCount) else
      let nsub := s2.clients.countP (·.subscribed)
      if nsub = 0 then .ok s2 else                -- ref_count 0: back to the free list
      .ok { s2 with
        dev := { s2.dev with q := { frame := fr, ref := nsub } :: s2.dev.q, free := s2.dev.free - 1 },
        clients := s2.clients.map (fun c =>
          if c.subscribed then { c with backlog := c.backlog + 1, expected := fr :: c.expected }
          else if c.backlog > 0 then { c with backlog := c.backlog + 1 } else c) }

/-! ## ops -/

inductive Op
  | conn (services strict bufcnt : Nat)
  | svc (k services strict : Nat) (reset : Bool)
  | bye (k : Nat)
  | close (k : Nat)
  | credit (k n : Nat)
  | cap (ts : Nat) (lines : List Line) (full : Bool)
  | relall
  | iter
deriving Repr, DecidableEq

def creditCap : Nat := 1000000000

/-- apply `f` to the client with id `k`, accepted or not -/
def onClient (s : State) (k : Nat) (f : Client → Client) : State :=
  { s with clients := s.clients.map (fun c => if c.id == k then f c else c),
           backlogConns := s.backlogConns.map (fun c => if c.id == k then f c else c) }

/-- `vbi_proxy_queue_release_all` (what a channel flush does to the queue) -/
def releaseAll (s : State) : State :=
  { s with dev := { s.dev with q := [], free := s.dev.free + s.dev.q.length },
           clients := s.clients.map (fun c =>
             { c with backlog := 0,
                      done := ((s.dev.q.take c.backlog).map (fun e => (e.frame, Fate.flushed))) ++ c.done }) }

/-- `vbi_proxyd_get_fd_set` + `select` for one client socket: reported readable / writable -/
def markReady (c : Client) : Client :=
  let wantWrite := c.out.isSome || c.backlog != 0 || c.chnInd != 0
  { c with rdReady := !wantWrite && (!c.inbox.isEmpty || c.eof),
           wrReady := wantWrite && (c.credit != 0 || c.eof) }

def selectReady (s : State) : State :=
  { s with clients := s.clients.map markReady, log := [], msgs := [] }

/-- `vbi_proxyd_add_connection`: the daemon allocates the PROXY_CLNT (state WAIT_CON_REQ, no services, NULL
cursor) when it accepts -/
def acceptConn (s : State) : State :=
  match s.backlogConns with
  | [] => s
  | c :: rest =>
    { s with clients := s.clients ++ [{ id := c.id, inbox := c.inbox, eof := c.eof, credit := c.credit }],
             backlogConns := rest }

/-- one iteration of `vbi_proxyd_main_loop` -/
def iterate (cfg : Cfg) (s : State) : Except Err State :=
  let devReady := s.dev.opened && !s.dev.pend.isEmpty
  let s := acceptConn (selectReady s)
  match (if devReady then forwardData cfg s else .ok s) with
  | .error e => .error e
  | .ok s1 => clientLoop cfg (2 * s1.clients.length + 1) s1 0

def step (cfg : Cfg) (s : State) : Op → Except Err State
  | .conn sv st bc =>
    .ok { s with backlogConns := s.backlogConns ++ [{ id := s.nextId, inbox := [.connect sv st bc] }],
                 nextId := s.nextId + 1 }
  | .svc k sv st reset => .ok (onClient s k (fun c => if c.eof then c else { c with inbox := c.inbox ++ [.service sv st reset] }))
  | .bye k => .ok (onClient s k (fun c => if c.eof then c else { c with inbox := c.inbox ++ [.bye] }))
  | .close k => .ok (onClient s k (fun c => { c with eof := true }))
  | .credit k n => .ok (onClient s k (fun c => { c with credit := min (c.credit + n) creditCap }))
  | .cap ts lines full =>
    .ok { s with dev := { s.dev with pend := s.dev.pend ++ [{ seq := s.dev.nextSeq, ts := ts, lines := lines, full := full }],
                                     nextSeq := s.dev.nextSeq + 1 } }
  | .relall => .ok (releaseAll s)
  | .iter => iterate cfg s

/-- a whole history; the first error ends it -/
def run (cfg : Cfg) : State → List Op → Except Err State
  | s, [] => .ok s
  | s, op :: ops =>
    match step cfg s op with
    | .error e => .error e
    | .ok s' => run cfg s' ops

end Zvbi.ProxyQ
