import ZvbiModel.ProxyQ.Model
import ZvbiModel.ProxyQ.Spec
import ZvbiModel.ProxyQ.LemmasQueue
import ZvbiModel.ProxyQ.LemmasSpec
/-!
# Lifting the queue-machine lemmas to the daemon model, part 1: the invariant

The invariant of the full daemon model (`Model.lean`) is stated about the device record and the list of
**client views** (`CV`: the fields of a client the C18 statements depend on: connection state, requested
services per strictness level, granted services, cursor, ghost logs).  Everything else in a `Client`
(socket side: inbox, credit, write buffer, ready flags, channel indication) is irrelevant for it.

* `CoreV`: holds in every state the daemon model passes through between two calls of its functions:
  reference counts exact (`QInv`), a client with queued frames is subscribed (state FORWARD and
  `all_services != 0`) and its grant is what the device grants for its stored requests, a subscribed client
  implies an open device, free + queued = allocated, `max_lines` of the device is what its decoder reports,
  the queue has at least `DEFAULT_BUFFER_COUNT` buffers while the device is open, and the ghost logs:
  the frames captured for a client are exactly the frames still queued for it followed by the frames taken
  from the queue for it.
* `SettledV`: holds between two iterations of the client loop (not while a closed client is still linked):
  every FORWARD client's grant is `allOf` of its requests, and the device is open iff the union of the grants
  is non-empty, with `all_services` equal to that union.
-/
namespace Zvbi.ProxyQ
open Zvbi.Gen.ProxyQ

/-! ## list helpers -/

theorem mem_of_getElem?_eq {α : Type} {l : List α} {i : Nat} {a : α} (h : l[i]? = some a) : a ∈ l :=
  List.mem_of_getElem? h

theorem lt_of_getElem?_eq {α : Type} {l : List α} {i : Nat} {a : α} (h : l[i]? = some a) : i < l.length := by
  by_cases hi : i < l.length
  · exact hi
  · rw [List.getElem?_eq_none (by omega)] at h; cases h

theorem mem_set_cases {α : Type} {l : List α} {i : Nat} {a x : α} (hx : x ∈ l.set i a) :
    x = a ∨ ∃ j, j ≠ i ∧ l[j]? = some x := by
  obtain ⟨j, hj⟩ := List.mem_iff_getElem?.mp hx
  by_cases hji : i = j
  · subst hji
    left
    have hlt := lt_of_getElem?_eq hj
    rw [List.getElem?_set_self (by simpa using hlt)] at hj
    exact (Option.some.inj hj).symm
  · right
    rw [List.getElem?_set_ne hji] at hj
    exact ⟨j, fun h => hji h.symm, hj⟩

theorem forall_mem_set {α : Type} {P : α → Prop} {l : List α} {i : Nat} {a : α}
    (h : ∀ x ∈ l, P x) (ha : P a) : ∀ x ∈ l.set i a, P x := by
  intro x hx
  rcases List.mem_or_eq_of_mem_set hx with h1 | h1
  · exact h x h1
  · rw [h1]; exact ha

theorem set_eq_self_of_getElem? {α : Type} {l : List α} {i : Nat} {a : α} (h : l[i]? = some a) : l.set i a = l := by
  apply List.ext_getElem?
  intro j
  by_cases hji : i = j
  · subst hji
    rw [List.getElem?_set_self (lt_of_getElem?_eq h), h]
  · rw [List.getElem?_set_ne hji]

theorem take_map_succ {α β : Type} (f : α → β) (q : List α) (b : Nat) (d : α) (hb : b < q.length) :
    (q.take (b + 1)).map f = (q.take b).map f ++ [f (q.getD b d)] := by
  induction q generalizing b with
  | nil => simp at hb
  | cons e t ih =>
    cases b with
    | zero => simp
    | succ b =>
      have := ih b (by simpa using hb)
      simp only [List.take_succ_cons, List.map_cons, List.getD_cons_succ, List.cons_append]
      rw [this]

theorem map_eraseIdx {α β : Type} (f : α → β) : ∀ (l : List α) (i : Nat), (l.eraseIdx i).map f = (l.map f).eraseIdx i := by
  intro l
  induction l with
  | nil => intro i; rfl
  | cons a t ih =>
    intro i
    cases i with
    | zero => rfl
    | succ i => simp [List.eraseIdx_cons_succ, ih]

/-! ## bit lemmas for the service masks -/

theorem or_eq_zero {a b : Nat} : a ||| b = 0 ↔ a = 0 ∧ b = 0 := by
  constructor
  · intro h
    constructor
    · apply Nat.eq_of_testBit_eq; intro i
      have := congrArg (fun x => x.testBit i) h
      simp only [Nat.testBit_or, Nat.zero_testBit] at this
      simp only [Nat.zero_testBit]
      cases ha : a.testBit i <;> simp_all
    · apply Nat.eq_of_testBit_eq; intro i
      have := congrArg (fun x => x.testBit i) h
      simp only [Nat.testBit_or, Nat.zero_testBit] at this
      simp only [Nat.zero_testBit]
      cases hb : b.testBit i <;> simp_all
  · rintro ⟨rfl, rfl⟩; rfl

theorem and_and_self (a supp : Nat) : (a &&& (a &&& supp)) &&& supp = a &&& supp := by
  apply Nat.eq_of_testBit_eq
  intro i
  simp only [Nat.testBit_and]
  cases a.testBit i <;> cases supp.testBit i <;> rfl

theorem foldl_or_acc (l : List Nat) (acc : Nat) : l.foldl (· ||| ·) acc = acc ||| l.foldl (· ||| ·) 0 := by
  induction l generalizing acc with
  | nil => simp
  | cons a t ih =>
    simp only [List.foldl_cons]
    rw [ih (acc ||| a), ih (0 ||| a)]
    simp [Nat.or_assoc]

theorem foldl_or_eq_zero (l : List Nat) : l.foldl (· ||| ·) 0 = 0 ↔ ∀ x ∈ l, x = 0 := by
  induction l with
  | nil => simp
  | cons a t ih =>
    simp only [List.foldl_cons, List.mem_cons, forall_eq_or_imp]
    rw [foldl_or_acc, or_eq_zero, ih]
    simp

/-- `nStrict` is the generated extent of `PROXY_CLNT.services` -/
theorem range_nStrict : List.range nStrict = [0, 1, 2, 3] := by decide

/-- the grant is not changed by masking the stored requests with what was granted -/
theorem allOf_mask (cfg : Cfg) (sv : List Nat) : allOf cfg (maskServices cfg sv) = allOf cfg sv := by
  simp only [allOf, maskServices, range_nStrict, List.map_cons, List.map_nil, List.foldl_cons, List.foldl_nil,
    List.getD_cons_zero, List.getD_cons_succ]
  rw [and_and_self, and_and_self, and_and_self, and_and_self]

theorem allOf_zero (cfg : Cfg) (sv : List Nat) (h : anyServices sv = false) : allOf cfg sv = 0 := by
  have hz : ∀ st, sv.getD st 0 = 0 := by
    intro st
    rw [List.getD_eq_getElem?_getD]
    cases hx : sv[st]? with
    | none => rfl
    | some x =>
      have hm : x ∈ sv := mem_of_getElem?_eq hx
      simp only [anyServices, List.any_eq_false] at h
      have := h x hm
      simpa using this
  simp only [allOf, range_nStrict, List.foldl_cons, List.foldl_nil, hz]
  simp

/-! ## client views -/

structure CV where
  state : CState
  services : List Nat
  allServices : Nat
  backlog : Nat
  expected : List Frame
  done : List (Frame × Fate)

def Client.view (c : Client) : CV := ⟨c.state, c.services, c.allServices, c.backlog, c.expected, c.done⟩

def CV.subscribed (v : CV) : Bool := v.state == .forward && v.allServices != 0

theorem Client.subscribed_view (c : Client) : c.view.subscribed = c.subscribed := rfl

/-- an overflow may only hit a client that had at least `DEFAULT_BUFFER_COUNT` frames queued and unsent -/
def fateOk : Fate → Prop
  | .overflow n => defaultBufferCount ≤ n
  | _ => True

structure PC (cfg : Cfg) (d : Dev) (v : CV) : Prop where
  sub : 0 < v.backlog → v.subscribed = true
  gw : v.state = .forward → v.allServices = allOf cfg v.services ∨ v.backlog = 0
  w : v.state = .waitConReq → v.allServices = 0
  so : v.subscribed = true → d.opened = true
  gh : v.expected = pendingOf d.q v.backlog ++ v.done.map (·.1)
  ov : ∀ x ∈ v.done, fateOk x.2

structure CoreV (cfg : Cfg) (d : Dev) (vs : List CV) : Prop where
  q : QInv d.q (vs.map (·.backlog))
  pc : ∀ v ∈ vs, PC cfg d v
  alloc : d.free + d.q.length = d.allocated
  depth : d.opened = true → defaultBufferCount ≤ d.free + d.q.length

/-- what a client contributes to the device's service set -/
def contrib (v : CV) : Nat := if v.state == .forward then v.allServices else 0

def unionV (vs : List CV) : Nat := (vs.map contrib).foldl (· ||| ·) 0

structure SettledV (cfg : Cfg) (d : Dev) (vs : List CV) : Prop where
  gs : ∀ v ∈ vs, v.state = .forward → v.allServices = allOf cfg v.services
  os : d.opened = true → unionV vs ≠ 0
  un : d.opened = true → d.allServices = unionV vs
  lines : d.opened = true → d.maxLines = cfg.count d.active

theorem contrib_ne_zero {v : CV} : contrib v ≠ 0 ↔ v.subscribed = true := by
  unfold contrib CV.subscribed
  cases h : (v.state == CState.forward) <;> simp

theorem unionV_eq_zero {vs : List CV} : unionV vs = 0 ↔ ∀ v ∈ vs, v.subscribed = false := by
  unfold unionV
  rw [foldl_or_eq_zero]
  constructor
  · intro h v hv
    have := h (contrib v) (List.mem_map.mpr ⟨v, hv, rfl⟩)
    cases hs : v.subscribed with
    | false => rfl
    | true => exact absurd this (contrib_ne_zero.mpr hs)
  · intro h x hx
    obtain ⟨v, hv, rfl⟩ := List.mem_map.mp hx
    by_cases hc : contrib v = 0
    · exact hc
    · have := contrib_ne_zero.mp hc
      rw [h v hv] at this; cases this

/-- with the device closed nobody has queued frames and the queue is empty -/
theorem CoreV.closed_empty {cfg : Cfg} {d : Dev} {vs : List CV} (h : CoreV cfg d vs) (hc : d.opened = false) :
    (∀ v ∈ vs, v.backlog = 0) ∧ d.q = [] := by
  have h0 : ∀ v ∈ vs, v.backlog = 0 := by
    intro v hv
    by_cases hb : 0 < v.backlog
    · have := (h.pc v hv).so ((h.pc v hv).sub hb)
      rw [hc] at this; cases this
    · omega
  refine ⟨h0, QInv_all_zero h.q ?_⟩
  intro b hb
  obtain ⟨v, hv, rfl⟩ := List.mem_map.mp hb
  exact h0 v hv

theorem PC.congr_dev {cfg : Cfg} {d d' : Dev} {v : CV} (h : PC cfg d v) (hq : d'.q = d.q)
    (ho : d.opened = true → d'.opened = true) : PC cfg d' v :=
  ⟨h.sub, h.gw, h.w, fun hs => ho (h.so hs), by rw [hq]; exact h.gh, h.ov⟩

/-! ## queue operations on the views -/

/-- `vbi_proxy_queue_release_sliced` by the client at position `i` (after sending a frame, or in force_free):
it succeeds and the invariant holds for the state the model builds -/
theorem coreV_release {cfg : Cfg} {d : Dev} {vs : List CV} {i : Nat} {v : CV} (fate : Fate) (hf : fateOk fate)
    (h : CoreV cfg d vs) (hi : vs[i]? = some v) (hpos : 0 < v.backlog) :
    ∃ q' f', releaseQ d.q d.free v.backlog = .ok (q', f') ∧
      CoreV cfg { d with q := q', free := f' }
        (vs.set i { v with backlog := v.backlog - 1,
                           done := ((d.q.getD (v.backlog - 1) default).frame, fate) :: v.done }) := by
  have hil : i < vs.length := lt_of_getElem?_eq hi
  have hi' : i < (vs.map (·.backlog)).length := by simpa using hil
  have hb : (vs.map (·.backlog)).getD i 0 = v.backlog := by
    rw [List.getD_eq_getElem?_getD, List.getElem?_map, hi]; rfl
  obtain ⟨q', f', hr, inv', hsum, hle, hge⟩ := releaseQ_ok d.free h.q hi' hb hpos
  have hvm : v ∈ vs := mem_of_getElem?_eq hi
  have pv := h.pc v hvm
  have hbl : v.backlog ≤ d.q.length := h.q.bound _ (List.mem_map.mpr ⟨v, hvm, rfl⟩)
  have hb1 : v.backlog - 1 ≤ q'.length := inv'.bound _ (List.mem_set hi' _)
  refine ⟨q', f', hr, ⟨?_, ?_, ?_, ?_⟩⟩
  · show QInv q' _
    rw [List.map_set]; exact inv'
  · intro u hu
    rcases mem_set_cases hu with rfl | ⟨j, hj, hjv⟩
    · refine ⟨fun hp => pv.sub hpos, ?_, pv.w, pv.so, ?_, ?_⟩
      · intro hs
        rcases pv.gw hs with h1 | h1
        · exact Or.inl h1
        · omega
      · show v.expected = pendingOf q' (v.backlog - 1) ++ _
        rw [pv.gh, releaseQ_frames hr _ hb1]
        unfold pendingOf
        have := take_map_succ (fun e : QElem => e.frame) d.q (v.backlog - 1) default (by omega)
        have e1 : v.backlog - 1 + 1 = v.backlog := by omega
        rw [e1] at this
        rw [this]; simp
      · intro x hx
        rcases List.mem_cons.mp hx with rfl | hx'
        · exact hf
        · exact pv.ov x hx'
    · have hum : u ∈ vs := mem_of_getElem?_eq hjv
      have pu := h.pc u hum
      have hub : u.backlog ≤ q'.length := by
        apply inv'.bound
        have : ((vs.map (·.backlog)).set i (v.backlog - 1))[j]? = some u.backlog := by
          rw [List.getElem?_set_ne (fun h => hj h.symm), List.getElem?_map, hjv]; rfl
        exact mem_of_getElem?_eq this
      exact ⟨pu.sub, pu.gw, pu.w, pu.so, by show u.expected = pendingOf q' _ ++ _; rw [releaseQ_frames hr _ hub]; exact pu.gh, pu.ov⟩
  · show f' + q'.length = d.allocated
    have := h.alloc; omega
  · intro ho
    show defaultBufferCount ≤ f' + q'.length
    have := h.depth ho; omega

/-- the release loop of SERVICE_REQ / close for the client at position `i` -/
theorem coreV_releaseAll {cfg : Cfg} {d : Dev} {vs : List CV} {i : Nat} {v : CV} (fate : Fate) (hf : fateOk fate)
    (h : CoreV cfg d vs) (hi : vs[i]? = some v) :
    ∃ q' f', releaseAllQ d.q d.free v.backlog = .ok (q', f') ∧
      CoreV cfg { d with q := q', free := f' }
        (vs.set i { v with backlog := 0,
                           done := ((d.q.take v.backlog).map (·.frame)).map (·, fate) ++ v.done }) := by
  have hil : i < vs.length := lt_of_getElem?_eq hi
  have hi' : i < (vs.map (·.backlog)).length := by simpa using hil
  have hb : (vs.map (·.backlog)).getD i 0 = v.backlog := by
    rw [List.getD_eq_getElem?_getD, List.getElem?_map, hi]; rfl
  obtain ⟨q', f', hr, inv', hsum, hle⟩ := releaseAllQ_ok v.backlog d.free h.q hi' hb
  have hvm : v ∈ vs := mem_of_getElem?_eq hi
  have pv := h.pc v hvm
  refine ⟨q', f', hr, ⟨?_, ?_, ?_, ?_⟩⟩
  · show QInv q' _
    rw [List.map_set]; exact inv'
  · intro u hu
    rcases mem_set_cases hu with rfl | ⟨j, hj, hjv⟩
    · refine ⟨fun hp => absurd hp (Nat.lt_irrefl 0), fun _ => Or.inr rfl, pv.w, pv.so, ?_, ?_⟩
      · show v.expected = pendingOf q' 0 ++ _
        rw [pv.gh]
        simp [pendingOf, List.map_map, Function.comp_def]
      · intro x hx
        rcases List.mem_append.mp hx with hx' | hx'
        · obtain ⟨_, _, rfl⟩ := List.mem_map.mp hx'
          exact hf
        · exact pv.ov x hx'
    · have hum : u ∈ vs := mem_of_getElem?_eq hjv
      have pu := h.pc u hum
      have hub : u.backlog ≤ q'.length := by
        apply inv'.bound
        have : ((vs.map (·.backlog)).set i 0)[j]? = some u.backlog := by
          rw [List.getElem?_set_ne (fun h => hj h.symm), List.getElem?_map, hjv]; rfl
        exact mem_of_getElem?_eq this
      exact ⟨pu.sub, pu.gw, pu.w, pu.so, by show u.expected = pendingOf q' _ ++ _; rw [releaseAllQ_frames _ hr _ hub]; exact pu.gh, pu.ov⟩
  · show f' + q'.length = d.allocated
    have := h.alloc; omega
  · intro ho
    show defaultBufferCount ≤ f' + q'.length
    have := h.depth ho; omega

/-- changing fields of the client at position `i` that keep its cursor and ghost logs: the per-client facts
have to be re-established for that client only -/
theorem coreV_set {cfg : Cfg} {d : Dev} {vs : List CV} {i : Nat} {v v' : CV} (h : CoreV cfg d vs)
    (hi : vs[i]? = some v) (hb : v'.backlog = v.backlog) (hp : PC cfg d v') : CoreV cfg d (vs.set i v') := by
  refine ⟨?_, forall_mem_set h.pc hp, h.alloc, h.depth⟩
  rw [List.map_set, hb]
  have : (vs.map (·.backlog))[i]? = some v.backlog := by rw [List.getElem?_map, hi]; rfl
  rw [set_eq_self_of_getElem? this]; exact h.q

/-- a closed (or any not subscribed) client is unlinked -/
theorem coreV_erase {cfg : Cfg} {d : Dev} {vs : List CV} {i : Nat} {v : CV} (h : CoreV cfg d vs)
    (hi : vs[i]? = some v) (hs : v.subscribed = false) : CoreV cfg d (vs.eraseIdx i) := by
  have hvm : v ∈ vs := mem_of_getElem?_eq hi
  have hb0 : v.backlog = 0 := by
    by_cases hb : 0 < v.backlog
    · have := (h.pc v hvm).sub hb; rw [hs] at this; cases this
    · omega
  refine ⟨?_, fun u hu => h.pc u (List.mem_of_mem_eraseIdx hu), h.alloc, h.depth⟩
  have : (vs.eraseIdx i).map (·.backlog) = (vs.map (·.backlog)).eraseIdx i := by
    rw [map_eraseIdx]
  rw [this]
  apply QInv_erase h.q
  rw [List.getD_eq_getElem?_getD, List.getElem?_map, hi]; exact hb0

/-- `vbi_proxyd_add_connection` -/
theorem coreV_append {cfg : Cfg} {d : Dev} {vs : List CV} (h : CoreV cfg d vs) (v : CV) (hb : v.backlog = 0)
    (hp : PC cfg d v) : CoreV cfg d (vs ++ [v]) := by
  refine ⟨?_, ?_, h.alloc, h.depth⟩
  · rw [List.map_append]; simp only [List.map_cons, List.map_nil, hb]; exact QInv_append h.q
  · intro u hu
    rcases List.mem_append.mp hu with h1 | h1
    · exact h.pc u h1
    · simp at h1; rw [h1]; exact hp

/-- `vbi_proxy_queue_release_all` -/
theorem coreV_flush {cfg : Cfg} {d : Dev} {vs : List CV} (h : CoreV cfg d vs) :
    CoreV cfg { d with q := [], free := d.free + d.q.length }
      (vs.map (fun v => { v with backlog := 0,
                                 done := ((d.q.take v.backlog).map (fun e => (e.frame, Fate.flushed))) ++ v.done })) := by
  refine ⟨?_, ?_, ?_, ?_⟩
  · apply QInv_nil
    intro b hb
    simp only [List.map_map, List.mem_map, Function.comp] at hb
    obtain ⟨_, _, rfl⟩ := hb; rfl
  · intro u hu
    obtain ⟨v, hv, rfl⟩ := List.mem_map.mp hu
    have pv := h.pc v hv
    refine ⟨fun hp => absurd hp (Nat.lt_irrefl 0), fun _ => Or.inr rfl, pv.w, pv.so, ?_, ?_⟩
    · show v.expected = pendingOf [] 0 ++ _
      rw [pv.gh]; simp [pendingOf, List.map_map, Function.comp_def]
    · intro x hx
      rcases List.mem_append.mp hx with hx' | hx'
      · obtain ⟨_, _, rfl⟩ := List.mem_map.mp hx'; trivial
      · exact pv.ov x hx'
  · show d.free + d.q.length + 0 = d.allocated
    have := h.alloc; omega
  · intro ho
    show defaultBufferCount ≤ d.free + d.q.length + 0
    have := h.depth ho; omega

end Zvbi.ProxyQ
