import ZvbiModel.ProxyQ.Model
/-!
# Spec side of C18

* `specLines`: what a client is entitled to of one captured frame: the captured lines whose service it was
  granted, in order.
* `QState` / `QOp` / `qstep`: the **queue machine** - the sliced queue together with the cursors of all clients,
  driven by exactly the operations the daemon performs on them, each implemented by the *same functions the
  model of the daemon uses* (`releaseQ`, `releaseAllQ`, consing the new buffer).  Histories of the queue
  machine are arbitrary interleavings of: a client joins, a client releases the buffer at its cursor (after
  sending it, or in `force_free`), a client releases everything queued for it (service request, disconnect),
  a client without queued frames leaves, a frame is captured for an arbitrary set of subscribers, the whole
  queue is flushed.  The one side condition (`push`): a client that still has queued frames is among the
  subscribers of the next frame - in the daemon this is "cursor non-NULL => state FORWARD and all_services != 0",
  which service changes, `all_services == 0` clients and disconnects have to preserve (they do: a service
  request flushes the client's own queue first, and the grants of the other clients are recomputed from
  unchanged requests by the same device).
-/
namespace Zvbi.ProxyQ

/-- the captured lines whose service the client was granted, in capture order -/
def specLines (granted : Nat) (lines : List Line) : List Line :=
  lines.filter (fun l => l.id &&& granted != 0)

structure QState where
  q : List QElem := []      -- newest first
  free : Nat := 0
  bl : List Nat := []       -- cursor of every client, as backlog
deriving Repr, DecidableEq

inductive QOp
  | join                                  -- vbi_proxyd_add_connection
  | release (i : Nat)                     -- vbi_proxy_queue_release_sliced (req) for the client at position i
  | releaseAll (i : Nat)                  -- while (req->p_sliced != NULL) release_sliced (req)
  | leave (i : Nat)                       -- a closed client is unlinked
  | push (fr : Frame) (sub : List Bool)   -- vbi_proxyd_forward_data appends a frame; sub = who is subscribed
  | flush                                 -- vbi_proxy_queue_release_all
deriving Repr, DecidableEq

/-- one operation; `none` = the operation is not enabled in this state (e.g. release with a NULL cursor is
never called by the daemon), `some (.error e)` = the C code fails -/
def qstep (s : QState) : QOp → Option (Except Err QState)
  | .join => some (.ok { s with bl := s.bl ++ [0] })
  | .release i =>
    if i < s.bl.length ∧ 0 < s.bl.getD i 0 then
      some (match releaseQ s.q s.free (s.bl.getD i 0) with
        | .error e => .error e
        | .ok (q, f) => .ok { q := q, free := f, bl := s.bl.set i (s.bl.getD i 0 - 1) })
    else none
  | .releaseAll i =>
    if i < s.bl.length then
      some (match releaseAllQ s.q s.free (s.bl.getD i 0) with
        | .error e => .error e
        | .ok (q, f) => .ok { q := q, free := f, bl := s.bl.set i 0 })
    else none
  | .leave i => if s.bl.getD i 0 = 0 then some (.ok { s with bl := s.bl.eraseIdx i }) else none
  | .push fr sub =>
    if sub.length = s.bl.length ∧ (∀ i, i < s.bl.length → 0 < s.bl.getD i 0 → sub.getD i false = true) then
      if sub.count true = 0 then some (.ok s)      -- ref_count 0: the buffer goes back to the free list
      else some (.ok { q := { frame := fr, ref := sub.count true } :: s.q, free := s.free - 1,
                       bl := List.zipWith (fun b sb => if sb || decide (0 < b) then b + 1 else b) s.bl sub })
    else none
  | .flush => some (.ok { q := [], free := s.free + s.q.length, bl := s.bl.map (fun _ => 0) })

/-- states the queue machine reaches from the empty queue by any history of enabled operations -/
inductive QReach : QState → Prop
  | init (free : Nat) : QReach { q := [], free := free, bl := [] }
  | step {s s' : QState} (op : QOp) : QReach s → qstep s op = some (.ok s') → QReach s'

end Zvbi.ProxyQ
