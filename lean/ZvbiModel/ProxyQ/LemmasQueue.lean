import ZvbiModel.ProxyQ.Model
/-!
# The reference-count invariant of the sliced queue (queue level)

`QInv q bl`: for the queue `q` (newest buffer first) and the cursors `bl` of all clients (as backlogs, see
the header of `Model.lean`)

* the `ref_count` of the `j`-th newest buffer is the number of clients whose cursor is at or before it
  (`backlog > j`),
* no cursor points outside the queue (`backlog ≤ q.length`),
* somebody's cursor is at the head buffer (so every queued buffer has `ref_count ≥ 1`).

The lemmas show that `vbi_proxy_queue_release_sliced` preserves this and can neither hit its assertion nor a
dangling or NULL cursor, that the release loops of close / service change / force_free preserve it, and that
appending a captured frame in `vbi_proxyd_forward_data` preserves it.
-/
namespace Zvbi.ProxyQ

/-- number of cursors at or before the `j`-th newest buffer -/
def cnt (j : Nat) : List Nat → Nat
  | [] => 0
  | b :: t => (if j < b then 1 else 0) + cnt j t

def RefOK : List QElem → Nat → List Nat → Prop
  | [], _, _ => True
  | e :: t, j, bl => e.ref = cnt j bl ∧ RefOK t (j + 1) bl

structure QInv (q : List QElem) (bl : List Nat) : Prop where
  ref : RefOK q 0 bl
  bound : ∀ b ∈ bl, b ≤ q.length
  head : q ≠ [] → 1 ≤ cnt (q.length - 1) bl

theorem getD_of_lt {l : List Nat} {i : Nat} (hi : i < l.length) : l.getD i 0 = l[i] := by
  simp [List.getD_eq_getElem?_getD, hi]

theorem cnt_anti (bl : List Nat) {j j' : Nat} (h : j ≤ j') : cnt j' bl ≤ cnt j bl := by
  induction bl with
  | nil => simp [cnt]
  | cons b t ih =>
    simp only [cnt]
    have : (if j' < b then 1 else 0) ≤ (if j < b then 1 else 0) := by
      by_cases h1 : j' < b
      · have : j < b := by omega
        simp [h1, this]
      · simp [h1]
    omega

theorem cnt_set (j : Nat) : ∀ (bl : List Nat) (i x : Nat), i < bl.length →
    cnt j (bl.set i x) + (if j < bl.getD i 0 then 1 else 0) = cnt j bl + (if j < x then 1 else 0) := by
  intro bl
  induction bl with
  | nil => intro i x h; simp at h
  | cons b t ih =>
    intro i x h
    cases i with
    | zero => simp [cnt]; omega
    | succ i =>
      have h' : i < t.length := by simpa using h
      have := ih i x h'
      simp only [List.set_cons_succ, cnt, List.getD_cons_succ]
      omega

theorem cnt_zero {j : Nat} : ∀ {bl : List Nat}, cnt j bl = 0 → ∀ b ∈ bl, b ≤ j := by
  intro bl
  induction bl with
  | nil => intro _ b hb; simp at hb
  | cons a t ih =>
    intro h b hb
    simp only [cnt] at h
    have h1 : ¬ j < a := by
      intro hlt; simp [hlt] at h
    have h2 : cnt j t = 0 := by omega
    rcases List.mem_cons.mp hb with rfl | hb'
    · omega
    · exact ih h2 b hb'

theorem cnt_pos_of_mem {j : Nat} : ∀ {bl : List Nat} {b : Nat}, b ∈ bl → j < b → 1 ≤ cnt j bl := by
  intro bl
  induction bl with
  | nil => intro b hb; simp at hb
  | cons a t ih =>
    intro b hb hj
    simp only [cnt]
    rcases List.mem_cons.mp hb with rfl | hb'
    · simp [hj]
    · have := ih hb' hj; omega

theorem cnt_all_zero {j : Nat} : ∀ {bl : List Nat}, (∀ b ∈ bl, b = 0) → cnt j bl = 0 := by
  intro bl
  induction bl with
  | nil => intro _; rfl
  | cons a t ih =>
    intro h
    have ha : a = 0 := h a (by simp)
    have := ih (fun b hb => h b (by simp [hb]))
    simp [cnt, ha, this]

theorem RefOK_congr {bl bl' : List Nat} : ∀ (q : List QElem) (j : Nat),
    (∀ k, j ≤ k → cnt k bl' = cnt k bl) → RefOK q j bl → RefOK q j bl' := by
  intro q
  induction q with
  | nil => intro j _ _; trivial
  | cons e t ih =>
    intro j h hr
    exact ⟨by rw [h j (Nat.le_refl j)]; exact hr.1, ih (j + 1) (fun k hk => h k (by omega)) hr.2⟩

theorem RefOK_refAt {bl : List Nat} : ∀ (q : List QElem) (j r : Nat),
    RefOK q j bl → r < q.length → refAt q r = cnt (j + r) bl := by
  intro q
  induction q with
  | nil => intro j r _ h; simp at h
  | cons e t ih =>
    intro j r hr h
    cases r with
    | zero => simpa [refAt] using hr.1
    | succ r =>
      have := ih (j + 1) r hr.2 (by simpa using h)
      simp only [refAt]
      rw [this]; congr 1; omega

theorem decAt_length : ∀ (q : List QElem) (r : Nat), (decAt q r).length = q.length := by
  intro q
  induction q with
  | nil => intro r; rfl
  | cons e t ih =>
    intro r
    cases r with
    | zero => rfl
    | succ r => simp [decAt, ih]

/-- decrementing the buffer the cursor of client `i` points to and moving that cursor one buffer on keeps the counts exact -/
theorem decAt_RefOK {bl : List Nat} {i : Nat} (hi : i < bl.length) : ∀ (q : List QElem) (j r x : Nat),
    RefOK q j bl → r < q.length → bl.getD i 0 = j + r + 1 → x = j + r →
    RefOK (decAt q r) j (bl.set i x) := by
  intro q
  induction q with
  | nil => intro j r x _ h; simp at h
  | cons e t ih =>
    intro j r x hr h hb hx
    cases r with
    | zero =>
      have hxj : x = j := by omega
      rw [hxj]
      have hb' : bl.getD i 0 = j + 1 := by omega
      have hc := cnt_set j bl i j hi
      rw [hb'] at hc
      have e1 : j < j + 1 := by omega
      have e2 : ¬ j < j := by omega
      simp [e1, e2] at hc
      refine ⟨?_, ?_⟩
      · show e.ref - 1 = _
        rw [hr.1]; omega
      · refine RefOK_congr t (j + 1) ?_ hr.2
        intro k hk
        have hc := cnt_set k bl i j hi
        rw [hb'] at hc
        have h1 : ¬ k < j + 1 := by omega
        have h2 : ¬ k < j := by omega
        simp [h1, h2] at hc
        omega
    | succ r =>
      rw [hx]
      have hc := cnt_set j bl i (j + (r + 1)) hi
      rw [hb] at hc
      have h1 : j < j + (r + 1) + 1 := by omega
      have h2 : j < j + (r + 1) := by omega
      simp [h1, h2] at hc
      refine ⟨by show e.ref = _; rw [hr.1, hc], ?_⟩
      have := ih (j + 1) r (j + (r + 1)) hr.2 (by simpa using h) (by rw [hb]; omega) (by omega)
      exact this

theorem RefOK_dropLast {bl : List Nat} : ∀ (q : List QElem) (j : Nat), RefOK q j bl → RefOK q.dropLast j bl := by
  intro q
  induction q with
  | nil => intro j _; trivial
  | cons e t ih =>
    intro j hr
    cases t with
    | nil => trivial
    | cons e2 t2 =>
      rw [List.dropLast_cons_cons]
      exact ⟨hr.1, ih (j + 1) hr.2⟩

theorem mem_set_le {bl : List Nat} {i x n : Nat} (hb : ∀ b ∈ bl, b ≤ n) (hx : x ≤ n) : ∀ b ∈ bl.set i x, b ≤ n := by
  intro b hm
  rcases List.mem_or_eq_of_mem_set hm with h | h
  · exact hb b h
  · omega

theorem getD_mem {bl : List Nat} {i : Nat} (hi : i < bl.length) : bl.getD i 0 ∈ bl := by
  rw [getD_of_lt hi]; exact List.getElem_mem hi

/-- `vbi_proxy_queue_release_sliced` by the client at position `i` (cursor `b`): it succeeds - neither the
assertion nor a dangling or NULL cursor - and the invariant holds with the cursor moved on -/
theorem releaseQ_ok {q : List QElem} {bl : List Nat} {i b : Nat} (free : Nat) (inv : QInv q bl) (hi : i < bl.length)
    (hb : bl.getD i 0 = b) (hpos : 0 < b) :
    ∃ q' f', releaseQ q free b = .ok (q', f') ∧ QInv q' (bl.set i (b - 1)) ∧
      q'.length + f' = q.length + free ∧ q'.length ≤ q.length ∧ q.length ≤ q'.length + 1 := by
  have hble : b ≤ q.length := by rw [← hb]; exact inv.bound _ (getD_mem hi)
  have hr : b - 1 < q.length := by omega
  have hdec := decAt_RefOK hi q 0 (b - 1) (b - 1) inv.ref hr (by rw [hb]; omega) (by omega)
  have hcset := cnt_set (b - 1) bl i (b - 1) hi
  rw [hb] at hcset
  have hlt : b - 1 < b := by omega
  simp [hlt] at hcset
  have hrefAt : refAt (decAt q (b - 1)) (b - 1) = cnt (b - 1) (bl.set i (b - 1)) := by
    have := RefOK_refAt (decAt q (b - 1)) 0 (b - 1) hdec (by rw [decAt_length]; exact hr)
    simpa using this
  have hqne : q ≠ [] := by intro h; rw [h] at hr; simp at hr
  unfold releaseQ
  have h0 : ¬ b = 0 := by omega
  have h1 : ¬ q.length < b := by omega
  simp only [h0, h1, if_false]
  by_cases hz : refAt (decAt q (b - 1)) (b - 1) = 0
  · -- the buffer is recycled: it must be the head
    have hhead : b = q.length := by
      by_cases hb2 : b = q.length
      · exact hb2
      · exfalso
        have hh := inv.head hqne
        have hcs := cnt_set (q.length - 1) bl i (b - 1) hi
        rw [hb] at hcs
        have g1 : ¬ q.length - 1 < b := by omega
        have g2 : ¬ q.length - 1 < b - 1 := by omega
        simp [g1, g2] at hcs
        have := cnt_anti (bl.set i (b - 1)) (j := b - 1) (j' := q.length - 1) (by omega)
        rw [hrefAt] at hz
        omega
    subst hhead
    simp only [hz, ↓reduceIte]
    have hhead : q.length = q.length := rfl
    refine ⟨_, _, rfl, ?_, ?_, ?_, ?_⟩
    · have hz' : cnt (q.length - 1) (bl.set i (q.length - 1)) = 0 := by rw [← hhead, ← hrefAt]; exact hz
      have hlen : (decAt q (q.length - 1)).dropLast.length = q.length - 1 := by simp [decAt_length]
      refine ⟨?_, ?_, ?_⟩
      · rw [← hhead]; exact RefOK_dropLast _ 0 hdec
      · intro x hx
        rw [hlen]
        rw [← hhead] at hz'
        have := cnt_zero hz' x (by rw [← hhead] at hx ⊢; exact hx)
        rw [hhead] at this; exact this
      · intro hne
        rw [hlen]
        have hmem : (q.length - 1) ∈ bl.set i (q.length - 1) := List.mem_set hi _
        have hq2 : 2 ≤ q.length := by
          have : (decAt q (q.length - 1)).dropLast.length ≠ 0 := by
            intro h0; exact hne (List.length_eq_zero_iff.mp h0)
          omega
        exact cnt_pos_of_mem hmem (by omega)
    · simp [decAt_length]; omega
    · simp [decAt_length]
    · simp [decAt_length]; omega
  · simp only [hz, if_false]
    refine ⟨_, _, rfl, ⟨hdec, ?_, ?_⟩, ?_, ?_, ?_⟩
    · rw [decAt_length]; exact mem_set_le inv.bound (by omega)
    · intro _
      rw [decAt_length]
      by_cases hb2 : b = q.length
      · rw [hrefAt] at hz; rw [← hb2]; omega
      · have hh := inv.head hqne
        have hcs := cnt_set (q.length - 1) bl i (b - 1) hi
        rw [hb] at hcs
        have g1 : ¬ q.length - 1 < b := by omega
        have g2 : ¬ q.length - 1 < b - 1 := by omega
        simp [g1, g2] at hcs
        omega
    · simp [decAt_length]
    · simp [decAt_length]
    · simp [decAt_length]

theorem set_set_eq (bl : List Nat) (i a b : Nat) : (bl.set i a).set i b = bl.set i b := by
  simp

theorem getD_set_self {bl : List Nat} {i x : Nat} (hi : i < bl.length) : (bl.set i x).getD i 0 = x := by
  rw [getD_of_lt (by simpa using hi)]; simp

/-- the release loop of close / SERVICE_REQ: all buffers of client `i` are released, nothing can fail -/
theorem releaseAllQ_ok : ∀ (b : Nat) {q : List QElem} {bl : List Nat} {i : Nat} (free : Nat), QInv q bl → i < bl.length →
    bl.getD i 0 = b →
    ∃ q' f', releaseAllQ q free b = .ok (q', f') ∧ QInv q' (bl.set i 0) ∧ q'.length + f' = q.length + free
      ∧ q'.length ≤ q.length := by
  intro b
  induction b with
  | zero =>
    intro q bl i free inv hi hb
    refine ⟨q, free, rfl, ?_, rfl, Nat.le_refl _⟩
    have : bl.set i 0 = bl := by
      apply List.ext_getElem (by simp)
      intro n h1 h2
      by_cases hn : i = n
      · subst hn
        rw [getD_of_lt hi] at hb
        simp [hb]
      · simp [List.getElem_set_ne hn]
    rw [this]; exact inv
  | succ b ih =>
    intro q bl i free inv hi hb
    obtain ⟨q1, f1, h1, inv1, hsum, hle, _⟩ := releaseQ_ok free inv hi hb (by omega)
    have hi1 : i < (bl.set i (b + 1 - 1)).length := by simpa using hi
    obtain ⟨q2, f2, h2, inv2, hsum2, hle2⟩ := ih f1 inv1 hi1 (by rw [getD_set_self hi]; omega)
    refine ⟨q2, f2, ?_, ?_, by omega, by omega⟩
    · simp only [releaseAllQ, h1]; exact h2
    · rw [set_set_eq] at inv2; exact inv2

theorem cnt_eraseIdx (k : Nat) : ∀ (bl : List Nat) (i : Nat), bl.getD i 0 = 0 → cnt k (bl.eraseIdx i) = cnt k bl := by
  intro bl
  induction bl with
  | nil => intro i _; rfl
  | cons a t ih =>
    intro i h0
    cases i with
    | zero =>
      have : a = 0 := by simpa using h0
      simp [cnt, this]
    | succ i =>
      simp only [List.eraseIdx_cons_succ, cnt]
      rw [ih i (by simpa using h0)]

/-- a client without queued frames may leave -/
theorem QInv_erase {q : List QElem} {bl : List Nat} {i : Nat} (inv : QInv q bl) (h0 : bl.getD i 0 = 0) :
    QInv q (bl.eraseIdx i) := by
  refine ⟨RefOK_congr q 0 (fun k _ => cnt_eraseIdx k bl i h0) inv.ref, ?_, ?_⟩
  · intro b hb; exact inv.bound b (List.mem_of_mem_eraseIdx hb)
  · intro hne; rw [cnt_eraseIdx _ bl i h0]; exact inv.head hne

theorem cnt_append (k : Nat) : ∀ (a b : List Nat), cnt k (a ++ b) = cnt k a + cnt k b := by
  intro a
  induction a with
  | nil => intro b; simp [cnt]
  | cons x t ih => intro b; simp only [List.cons_append, cnt, ih]; omega

/-- a new client (NULL cursor) may join -/
theorem QInv_append {q : List QElem} {bl : List Nat} (inv : QInv q bl) : QInv q (bl ++ [0]) := by
  have hc : ∀ k, cnt k (bl ++ [0]) = cnt k bl := by intro k; simp [cnt_append, cnt]
  refine ⟨RefOK_congr q 0 (fun k _ => hc k) inv.ref, ?_, ?_⟩
  · intro b hb
    rcases List.mem_append.mp hb with h | h
    · exact inv.bound b h
    · simp at h; omega
  · intro hne; rw [hc]; exact inv.head hne

/-- with every cursor NULL the queue is empty (so stopping the acquisition frees no buffer a client points to) -/
theorem QInv_all_zero {q : List QElem} {bl : List Nat} (inv : QInv q bl) (h : ∀ b ∈ bl, b = 0) : q = [] := by
  by_cases hq : q = []
  · exact hq
  · have := inv.head hq
    rw [cnt_all_zero h] at this
    omega

theorem QInv_nil (bl : List Nat) (h : ∀ b ∈ bl, b = 0) : QInv [] bl :=
  ⟨trivial, fun b hb => by rw [h b hb]; exact Nat.le_refl _, fun hne => absurd rfl hne⟩

/-- `vbi_proxyd_forward_data` appends a frame: the subscribed clients are counted on it, every non-NULL cursor
keeps pointing where it pointed -/
theorem QInv_push {q : List QElem} {bl : List Nat} (sub : List Bool) (fr : Frame) (inv : QInv q bl)
    (hlen : sub.length = bl.length)
    (hsub : ∀ i, i < bl.length → 0 < bl.getD i 0 → sub.getD i false = true)
    (hn : 0 < sub.count true) :
    QInv ({ frame := fr, ref := sub.count true } :: q)
      (List.zipWith (fun b s => if s || decide (0 < b) then b + 1 else b) bl sub) := by
  -- per-index facts about the new cursor list
  have key : ∀ (bl : List Nat) (sub : List Bool), sub.length = bl.length →
      (∀ i, i < bl.length → 0 < bl.getD i 0 → sub.getD i false = true) →
      (cnt 0 (List.zipWith (fun b s => if s || decide (0 < b) then b + 1 else b) bl sub) = sub.count true) ∧
      (∀ k, cnt (k + 1) (List.zipWith (fun b s => if s || decide (0 < b) then b + 1 else b) bl sub) = cnt k bl) ∧
      (∀ n, (∀ b ∈ bl, b ≤ n) → ∀ b ∈ List.zipWith (fun b s => if s || decide (0 < b) then b + 1 else b) bl sub, b ≤ n + 1) := by
    intro bl
    induction bl with
    | nil => intro sub hl _; cases sub with
      | nil => simp [cnt]
      | cons _ _ => simp at hl
    | cons b t ih =>
      intro sub hl hs
      cases sub with
      | nil => simp at hl
      | cons s st =>
        have hl' : st.length = t.length := by simpa using hl
        have hs' : ∀ i, i < t.length → 0 < t.getD i 0 → st.getD i false = true := by
          intro i hi hp
          have := hs (i + 1) (by simpa using hi) (by simpa using hp)
          simpa using this
        obtain ⟨h1, h2, h3⟩ := ih st hl' hs'
        have hb : 0 < b → s = true := by
          intro hp
          have := hs 0 (by simp) (by simpa using hp)
          simpa using this
        refine ⟨?_, ?_, ?_⟩
        · simp only [List.zipWith_cons_cons, cnt, h1]
          cases s with
          | true => simp [List.count_cons]; omega
          | false =>
            have : b = 0 := by
              by_cases hp : 0 < b
              · have := hb hp; simp at this
              · omega
            simp [this, List.count_cons]
        · intro k
          simp only [List.zipWith_cons_cons, cnt, h2 k]
          cases s with
          | true => simp
          | false =>
            have : b = 0 := by
              by_cases hp : 0 < b
              · have := hb hp; simp at this
              · omega
            simp [this]
        · intro n hbn x hx
          simp only [List.zipWith_cons_cons] at hx
          rcases List.mem_cons.mp hx with rfl | hx'
          · have := hbn b (by simp)
            split <;> omega
          · exact h3 n (fun y hy => hbn y (by simp [hy])) x hx'
  obtain ⟨h1, h2, h3⟩ := key bl sub hlen hsub
  refine ⟨⟨by show sub.count true = _; rw [h1], ?_⟩, ?_, ?_⟩
  · -- the old buffers: index shifts by one, so do the cursors
    have : ∀ (q : List QElem) (j : Nat), RefOK q j bl →
        RefOK q (j + 1) (List.zipWith (fun b s => if s || decide (0 < b) then b + 1 else b) bl sub) := by
      intro q
      induction q with
      | nil => intro j _; trivial
      | cons e t ih => intro j hr; exact ⟨by rw [h2 j]; exact hr.1, ih (j + 1) hr.2⟩
    exact this q 0 inv.ref
  · intro b hb
    have := h3 q.length inv.bound b hb
    simpa using this
  · intro _
    simp only [List.length_cons, Nat.add_sub_cancel]
    cases hq : q with
    | nil => show 1 ≤ cnt 0 _; rw [h1]; exact hn
    | cons e t =>
      have hh := inv.head (by rw [hq]; simp)
      rw [hq] at hh
      simp only [List.length_cons, Nat.add_sub_cancel] at hh ⊢
      rw [h2 t.length]; exact hh

end Zvbi.ProxyQ
