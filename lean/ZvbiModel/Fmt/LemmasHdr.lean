import ZvbiModel.Fmt.LemmasPage
/-!
# Helper lemmas for C02, part 8: the page-number cells of the header row (row 0, columns 0..7)

`vbi_format_vt_page` overwrites the first eight bytes of row 0 by `"\2%x.%02x\7"` (alpha green, page number in
hex, '.', low byte of the sub-code in hex, alpha white).  `QuietSt`: the attribute variables of the row loop are at
their row-start values except the foreground colour; kept by alpha colour codes 0..7 and by all codes >= 0x20.
-/
namespace Zvbi.Fmt
open L1Spec

structure QuietSt (cx : RowCtx) (s : RowSt) (fg : Nat) : Prop where
  fg : s.fg = fg
  bg : s.bg = cx.bgClut + 0
  flash : s.flash = false
  conceal : s.conceal = false
  size : s.size = 0
  opacity : s.opacity = cx.pageOp
  esc : s.esc = false
  hold : s.hold = false
  mosaic : s.mosaic = false
  wide : s.wideChar = false

theorem quiet_init (cx : RowCtx) : QuietSt cx (initRow cx) (cx.fgClut + 7) :=
  ⟨rfl, rfl, rfl, rfl, rfl, rfl, rfl, rfl, rfl, rfl⟩

theorem stepCol_quiet (cx : RowCtx) (s : RowSt) (col fg : Nat) (h : QuietSt cx s fg)
    (hk : cx.code col ≤ 7 ∨ 0x20 ≤ cx.code col) :
    QuietSt cx (stepCol cx s col) (if cx.code col ≤ 7 then cx.fgClut + (cx.code col &&& 7) else fg) := by
  obtain ⟨h1, h2, h3, h4, h5, h6, h7, h8, h9, h10⟩ := h
  generalize hr : cx.code col = raw at hk
  have n : raw ≠ 8 ∧ raw ≠ 9 ∧ raw ≠ 0xA ∧ raw ≠ 0xB ∧ raw ≠ 0xC ∧ raw ≠ 0xD ∧ raw ≠ 0xE ∧ raw ≠ 0xF
      ∧ ¬ (0x10 ≤ raw ∧ raw ≤ 0x17) ∧ raw ≠ 0x18 ∧ raw ≠ 0x1B ∧ raw ≠ 0x1C ∧ raw ≠ 0x1D ∧ raw ≠ 0x1E ∧ raw ≠ 0x1F := by
    omega
  obtain ⟨n8, n9, nA, nB, nC, nD, nE, nF, nM, n18, n1B, n1C, n1D, n1E, n1F⟩ := n
  refine ⟨?_, ?_, ?_, ?_, ?_, ?_, ?_, ?_, ?_, ?_⟩
  · simp only [stepCol, hr, setAfter_fg, emit_fg, charStep_fg, setAt_fg, h1]
    by_cases hc : raw ≤ 7
    · simp [hc]
    · simp [hc, nM]
  · simp only [stepCol, hr, setAfter_bg, emit_bg, charStep_bg, setAt_bg, h2, n1C, n1D, if_false]
  · simp only [stepCol, hr, setAfter_flash, emit_flash, charStep_flash, setAt_flash, h3, n8, n9, if_false]
  · simp only [stepCol, hr, setAfter_conceal, emit_conceal, charStep_conceal, setAt_conceal, h4, n18, if_false]
    by_cases hc : raw ≤ 7
    · simp [hc]
    · simp [hc, nM]
  · simp only [stepCol, hr, setAfter_size, emit_size, charStep_size, setAt_size, h5, nC, nD, nE, nF, if_false]
  · simp only [stepCol, hr, setAfter_opacity, emit_opacity, charStep_opacity, setAt_opacity, h6, nA, nB, if_false]
  · simp only [stepCol, hr, setAfter_esc, emit_esc, charStep_esc, setAt_esc, h7, n1B, if_false]
  · simp only [stepCol, hr, setAfter_hold, emit_hold, charStep_hold, setAt_hold, h8, n1E, n1F, if_false]
  · simp only [stepCol, hr, setAfter_mosaic, emit_mosaic, charStep_mosaic, setAt_mosaic, h9]
    by_cases hc : raw ≤ 7
    · simp [hc]
    · simp [hc, nM]
  · simp only [stepCol, hr, setAfter_wideChar, emit_wideChar, charStep_wideChar, charStep_size, setAt_wideChar,
      setAt_size, h10, h5, nC, if_false]
    simp

/-- the cell the row loop shows at column `c` when the state before it is quiet and the code is an alpha colour
    code or a character -/
theorem rowCell_quiet (cx : RowCtx) (c fg : Nat) (hc : c < 40) (h : QuietSt cx (runCols cx c) fg)
    (hk : cx.code c ≤ 7 ∨ 0x20 ≤ cx.code c) :
    rowCell cx .lib c =
      { unicode := if cx.code c ≤ 7 then 0x20 else teletextUnicode cx.font0.g0 cx.font0.subset (cx.code c),
        fg := fg, bg := cx.bgClut + 0, flash := false, conceal := false, size := 0, opacity := cx.pageOp } := by
  obtain ⟨h1, h2, h3, h4, h5, h6, h7, h8, h9, h10⟩ := h
  have hcov : covered cx c = false := by rw [← wideChar_inv cx c (by omega)]; exact h10
  generalize hr : cx.code c = raw at hk
  have n : raw ≠ 9 ∧ raw ≠ 0xC ∧ raw ≠ 0x18 ∧ raw ≠ 0x1C ∧ raw ≠ 0x1D ∧ raw ≠ 0x1E := by omega
  obtain ⟨n9, nC, n18, n1C, n1D, n1E⟩ := n
  have hsz : sizeAt cx c = 0 := by rw [sizeAt_eq, setAt_size, hr, h5]; simp
  unfold rowCell
  rw [hcov, hsz]
  simp only [Bool.false_eq_true, if_false, Nat.zero_mod, Nat.zero_ne_one, false_and]
  rw [← emitted_eq_baseCell]
  simp only [emitted, RowSt.cell, hr, charStep_unicode, charStep_fg, charStep_bg, charStep_flash, charStep_conceal,
    charStep_size, charStep_opacity, setAt_fg, setAt_bg, setAt_flash, setAt_conceal, setAt_size, setAt_opacity,
    setAt_hold, setAt_mosaic, setAt_held, setAt_esc, setAt_mosaicUnicodes, h1, h2, h3, h4, h5, h6, h7, h8, h9,
    n9, nC, n18, n1C, n1D, n1E, if_false, Bool.false_and, Bool.false_eq_true, Bool.and_false]
  by_cases hc7 : raw ≤ 7
  · have : raw ≤ 0x1F := by omega
    simp [hc7, this]
  · have : ¬ raw ≤ 0x1F := by omega
    simp [hc7, this]

/-! ## the eight header codes -/

/-- `"\2%x.%02x\7"` for a three-digit page number -/
def hdrCodes (pgno subno : Nat) : List Nat :=
  [0x02, hexDigit (pgno / 256), hexDigit (pgno / 16 % 16), hexDigit (pgno % 16), 0x2E,
   hexDigit ((subno &&& 0xff) / 16), hexDigit ((subno &&& 0xff) % 16), 0x07]

theorem hdrBuf_eq (pgno subno : Nat) (h1 : 0x100 ≤ pgno) (h2 : pgno < 0x1000) :
    hdrBuf pgno subno = hdrCodes pgno subno ++ [0] := by
  have a : ¬ pgno < 16 := by omega
  have b : ¬ pgno / 16 < 16 := by omega
  have c : pgno / 256 < 16 := by omega
  simp [hdrBuf, hdrCodes, hexDigits, a, b, c, Nat.div_div_eq_div_mul]

theorem hexDigit_ge (d : Nat) : 0x20 ≤ hexDigit d := by
  unfold hexDigit; split <;> omega

theorem hdrCodes_class (pgno subno c : Nat) (hc : c < 8) :
    (hdrCodes pgno subno).getD c 0 ≤ 7 ∨ 0x20 ≤ (hdrCodes pgno subno).getD c 0 := by
  have : c = 0 ∨ c = 1 ∨ c = 2 ∨ c = 3 ∨ c = 4 ∨ c = 5 ∨ c = 6 ∨ c = 7 := by omega
  rcases this with rfl | rfl | rfl | rfl | rfl | rfl | rfl | rfl
  · left; simp [hdrCodes]
  · right; simpa [hdrCodes] using hexDigit_ge _
  · right; simpa [hdrCodes] using hexDigit_ge _
  · right; simpa [hdrCodes] using hexDigit_ge _
  · right; simp [hdrCodes]
  · right; simpa [hdrCodes] using hexDigit_ge _
  · right; simpa [hdrCodes] using hexDigit_ge _
  · left; simp [hdrCodes]

theorem codeAt_hdr (p : PageIn) (c : Nat) (hc : c < 8) (h1 : 0x100 ≤ p.pgno) (h2 : p.pgno < 0x1000) :
    (rowCtx p 0).code c = (hdrCodes p.pgno p.subno).getD c 0 := by
  show codeAt p 0 c = _
  unfold codeAt
  rw [if_pos ⟨rfl, hc⟩, hdrBuf_eq _ _ h1 h2]
  have hl : (hdrCodes p.pgno p.subno).length = 8 := rfl
  rw [List.getD_eq_getElem?_getD, List.getD_eq_getElem?_getD, List.getElem?_append_left (by omega)]

/-- the state of the row loop before column `c <= 8` of row 0: quiet, foreground white before column 0 and after
    column 7, green in between -/
theorem hdr_quiet (p : PageIn) (h1 : 0x100 ≤ p.pgno) (h2 : p.pgno < 0x1000) : ∀ c, c ≤ 8 →
    QuietSt (rowCtx p 0) (runCols (rowCtx p 0) c)
      (if c = 0 ∨ c = 8 then p.fgClut + 7 else p.fgClut + 2) := by
  intro c
  induction c with
  | zero => intro _; exact quiet_init _
  | succ c ih =>
    intro hc
    have hq := ih (by omega)
    have hcode := codeAt_hdr p c (by omega) h1 h2
    have hcl := hdrCodes_class p.pgno p.subno c (by omega)
    rw [← hcode] at hcl
    have := stepCol_quiet _ _ c _ hq hcl
    rw [← runCols_succ] at this
    have hfg : (if (rowCtx p 0).code c ≤ 7 then (rowCtx p 0).fgClut + ((rowCtx p 0).code c &&& 7)
          else (if c = 0 ∨ c = 8 then p.fgClut + 7 else p.fgClut + 2))
        = (if c + 1 = 0 ∨ c + 1 = 8 then p.fgClut + 7 else p.fgClut + 2) := by
      rw [hcode]
      have hc8 : c = 0 ∨ c = 1 ∨ c = 2 ∨ c = 3 ∨ c = 4 ∨ c = 5 ∨ c = 6 ∨ c = 7 := by omega
      have hg := fun d => hexDigit_ge d
      rcases hc8 with rfl | rfl | rfl | rfl | rfl | rfl | rfl | rfl
      · simp [hdrCodes]; rfl
      · have := hg (p.pgno / 256); simp [hdrCodes]; omega
      · have := hg (p.pgno / 16 % 16); simp [hdrCodes]; omega
      · have := hg (p.pgno % 16); simp [hdrCodes]; omega
      · simp [hdrCodes]
      · have := hg ((p.subno &&& 0xff) / 16); simp [hdrCodes]; omega
      · have := hg ((p.subno &&& 0xff) % 16); simp [hdrCodes]; omega
      · simp [hdrCodes]; rfl
    rw [hfg] at this
    exact this

end Zvbi.Fmt
