import ZvbiModel.Fmt.LemmasPage
/-!
# Helper lemmas for C02, part 6: L1Spec with the standard's held-mosaic reset rule vs. libzvbi's reading.
The two can differ only in the character of a cell, and only by the standard showing the blank mosaic
(U+EE20) where libzvbi shows a held mosaic captured before a mode/size change.
-/
namespace Zvbi.Fmt
open L1Spec

/-- `a` (libzvbi's reading) and `b` (standard) agree except possibly: `b` shows the blank held mosaic -/
def HeldRel (a b : Cell) : Prop :=
  a.fg = b.fg ∧ a.bg = b.bg ∧ a.flash = b.flash ∧ a.conceal = b.conceal ∧ a.size = b.size ∧
  a.opacity = b.opacity ∧ (a.unicode = b.unicode ∨ b.unicode = 0xEE20)

theorem HeldRel.refl (a : Cell) : HeldRel a a := ⟨rfl, rfl, rfl, rfl, rfl, rfl, Or.inl rfl⟩

theorem heldBefore_rel (cx : RowCtx) (c : Nat) :
    attrBefore (heldWAt cx .lib) (heldWAfter cx .lib) 0xEE20 c = attrBefore (heldWAt cx .std) (heldWAfter cx .std) 0xEE20 c
    ∨ attrBefore (heldWAt cx .std) (heldWAfter cx .std) 0xEE20 c = 0xEE20 := by
  induction c with
  | zero => exact Or.inl rfl
  | succ c ih =>
    rw [attrBefore_step, attrBefore_step]
    simp only [heldWAt, heldWAfter]
    by_cases h1 : heldResetAfter cx c = true
    · right; simp [h1]
    · simp only [h1, Bool.false_eq_true, if_false]
      cases hc : heldCapture cx c with
      | some v => left; simp
      | none =>
        by_cases h2 : heldResetAt cx c = true
        · right; simp [h2]
        · simpa [h2] using ih

theorem heldAt_rel (cx : RowCtx) (c : Nat) :
    heldAt cx .lib c = heldAt cx .std c ∨ heldAt cx .std c = 0xEE20 := by
  unfold heldAt
  rw [attrAt_eq, attrAt_eq]
  simp only [heldWAt]
  by_cases h2 : heldResetAt cx c = true
  · right; simp [h2]
  · simpa [h2] using heldBefore_rel cx c

theorem charAt_rel (cx : RowCtx) (c : Nat) :
    charAt cx .lib c = charAt cx .std c ∨ charAt cx .std c = 0xEE20 := by
  unfold charAt
  by_cases h1 : cx.code c ≤ 0x1F
  · simp only [h1, if_true]
    by_cases h2 : (holdAt cx c && mosaicAt cx c) = true
    · simp only [h2, if_true]; exact heldAt_rel cx c
    · simp [h2]
  · simp [h1]

theorem baseCell_rel (cx : RowCtx) (c : Nat) : HeldRel (baseCell cx .lib c) (baseCell cx .std c) :=
  ⟨rfl, rfl, rfl, rfl, rfl, rfl, charAt_rel cx c⟩

theorem rowCell_rel (cx : RowCtx) (c : Nat) : HeldRel (rowCell cx .lib c) (rowCell cx .std c) := by
  unfold rowCell
  have hb := baseCell_rel cx c
  have hb1 := baseCell_rel cx (c - 1)
  unfold HeldRel at *
  repeat' split
  all_goals simp_all

theorem lowerCell_rel (u v : Nat → Cell) (h : ∀ c, HeldRel (u c) (v c)) (c : Nat) :
    HeldRel (lowerCell u c) (lowerCell v c) := by
  unfold lowerCell
  have h0 := h c
  have h1 := h (c - 1)
  unfold HeldRel at *
  have e0 : (u c).size = (v c).size := h0.2.2.2.2.1
  have e1 : (u (c - 1)).size = (v (c - 1)).size := h1.2.2.2.2.1
  rw [e0, e1]
  repeat' split
  all_goals simp_all

theorem cell_rel (p : PageIn) (r c : Nat) : HeldRel (cell .lib p r c) (cell .std p r c) := by
  unfold cell cellCx
  split
  · exact lowerCell_rel _ _ (rowCell_rel _) c
  · exact rowCell_rel _ c

/-- rows in which no mode/size change occurs have the same held mosaic under both rules -/
theorem heldBefore_eq_of_noReset (cx : RowCtx) (c : Nat)
    (h : ∀ j, j < c → heldResetAfter cx j = false ∧ heldResetAt cx j = false) :
    attrBefore (heldWAt cx .std) (heldWAfter cx .std) 0xEE20 c = attrBefore (heldWAt cx .lib) (heldWAfter cx .lib) 0xEE20 c := by
  induction c with
  | zero => rfl
  | succ c ih =>
    rw [attrBefore_step, attrBefore_step, ih (fun j hj => h j (Nat.lt_succ_of_lt hj))]
    have := h c (Nat.lt_succ_self c)
    simp [heldWAt, heldWAfter, this.1, this.2]

theorem charAt_eq_of_noReset (cx : RowCtx) (c : Nat)
    (h : ∀ j, j ≤ c → heldResetAfter cx j = false ∧ heldResetAt cx j = false) :
    charAt cx .std c = charAt cx .lib c := by
  unfold charAt heldAt
  rw [attrAt_eq, attrAt_eq, heldBefore_eq_of_noReset cx c (fun j hj => h j (Nat.le_of_lt hj))]
  have := h c (Nat.le_refl c)
  simp [heldWAt, this.2]

/-- no mode/size change with a held mosaic in force anywhere in the displayed columns of the row -/
def NoHeldReset (cx : RowCtx) : Prop :=
  ∀ j, j < 40 → heldResetAfter cx j = false ∧ heldResetAt cx j = false

theorem baseCell_eq_of_noReset (cx : RowCtx) (h : NoHeldReset cx) (c : Nat) (hc : c < 40) :
    baseCell cx .std c = baseCell cx .lib c := by
  unfold baseCell
  rw [charAt_eq_of_noReset cx c (fun j hj => h j (by omega))]

theorem rowCell_eq_of_noReset (cx : RowCtx) (h : NoHeldReset cx) (c : Nat) (hc : c < 40) :
    rowCell cx .std c = rowCell cx .lib c := by
  unfold rowCell
  rw [baseCell_eq_of_noReset cx h c hc, baseCell_eq_of_noReset cx h (c - 1) (by omega)]

theorem lowerCell_congr (u v : Nat → Cell) (c : Nat) (h0 : u c = v c) (h1 : u (c - 1) = v (c - 1)) :
    lowerCell u c = lowerCell v c := by
  unfold lowerCell; rw [h0, h1]

theorem cell_eq_of_noReset (p : PageIn) (h : ∀ r, r < 25 → NoHeldReset (rowCtx p r)) (r c : Nat)
    (hr : r < 25) (hc : c < 40) : cell .std p r c = cell .lib p r c := by
  unfold cell cellCx
  split
  · exact lowerCell_congr _ _ c (rowCell_eq_of_noReset _ (h (r - 1) (by omega)) c hc)
      (rowCell_eq_of_noReset _ (h (r - 1) (by omega)) (c - 1) (by omega))
  · exact rowCell_eq_of_noReset _ (h r hr) c hc

end Zvbi.Fmt
