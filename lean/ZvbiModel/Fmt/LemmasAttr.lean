import ZvbiModel.Fmt.Spec
/-!
# Helper lemmas for C02, part 1: `lastIdx`, the set-at / set-after recurrences, per-phase views of the model
-/
namespace Zvbi.Fmt.L1Spec
open Zvbi.Fmt

theorem lastIdx_lt {p : Nat → Bool} : ∀ {n j}, lastIdx p n = some j → j < n
  | 0, _, h => by simp [lastIdx] at h
  | n + 1, j, h => by
    unfold lastIdx at h
    split at h
    · cases h; exact Nat.lt_succ_self _
    · exact Nat.lt_succ_of_lt (lastIdx_lt h)

theorem lastIdx_congr {p q : Nat → Bool} : ∀ {n}, (∀ j, j < n → p j = q j) → lastIdx p n = lastIdx q n
  | 0, _ => rfl
  | n + 1, h => by
    unfold lastIdx
    rw [h n (Nat.lt_succ_self n), lastIdx_congr (fun j hj => h j (Nat.lt_succ_of_lt hj))]

/-- `lastIdx` really is "the largest index below `n` satisfying `p`" -/
theorem lastIdx_eq_some_iff {p : Nat → Bool} : ∀ {n j},
    lastIdx p n = some j ↔ (j < n ∧ p j = true ∧ ∀ k, j < k → k < n → p k = false)
  | 0, j => by simp [lastIdx]
  | n + 1, j => by
    unfold lastIdx
    by_cases hp : p n = true
    · simp only [hp, if_true, Option.some.injEq]
      constructor
      · intro h; subst h
        exact ⟨Nat.lt_succ_self _, hp, fun k h1 h2 => absurd h1 (Nat.not_lt.mpr (Nat.le_of_lt_succ h2))⟩
      · intro ⟨h1, _, h3⟩
        rcases Nat.lt_or_ge j n with h | h
        · have := h3 n h (Nat.lt_succ_self _); simp [hp] at this
        · exact (Nat.le_antisymm (Nat.le_of_lt_succ h1) h).symm
    · have hp' : p n = false := by simpa using hp
      simp only [hp', Bool.false_eq_true, ↓reduceIte]
      rw [lastIdx_eq_some_iff]
      constructor
      · intro ⟨h1, h2, h3⟩
        refine ⟨Nat.lt_succ_of_lt h1, h2, fun k hk hk' => ?_⟩
        rcases Nat.lt_or_ge k n with h | h
        · exact h3 k hk h
        · have : k = n := Nat.le_antisymm (Nat.le_of_lt_succ hk') h
          subst this; simpa using hp
      · intro ⟨h1, h2, h3⟩
        have hjn : j ≠ n := by intro h; subst h; exact hp h2
        have : j < n := Nat.lt_of_le_of_ne (Nat.le_of_lt_succ h1) hjn
        exact ⟨this, h2, fun k hk hk' => h3 k hk (Nat.lt_succ_of_lt hk')⟩

theorem lastIdx_eq_none_iff {p : Nat → Bool} : ∀ {n}, lastIdx p n = none ↔ ∀ k, k < n → p k = false
  | 0 => by simp [lastIdx]
  | n + 1 => by
    unfold lastIdx
    by_cases hp : p n = true
    · simp only [hp, if_true]
      constructor
      · intro h; cases h
      · intro h; have := h n (Nat.lt_succ_self _); simp [hp] at this
    · have hp' : p n = false := by simpa using hp
      simp only [hp', Bool.false_eq_true, ↓reduceIte]
      rw [lastIdx_eq_none_iff]
      constructor
      · intro h k hk
        rcases Nat.lt_or_ge k n with h' | h'
        · exact h k h'
        · have : k = n := Nat.le_antisymm (Nat.le_of_lt_succ hk) h'
          subst this; simpa using hp
      · intro h k hk; exact h k (Nat.lt_succ_of_lt hk)

section Rec
variable {α : Type} (wAt wAfter : Nat → Option α) (d : α)

theorem attrBefore_zero : attrBefore wAt wAfter d 0 = d := rfl

/-- set-at: the value at column `c` is what the code of `c` sets at, else what was in force before -/
theorem attrAt_eq (c : Nat) :
    attrAt wAt wAfter d c = (wAt c).getD (attrBefore wAt wAfter d c) := by
  unfold attrAt attrBefore
  rw [lastIdx]
  have hc : ((wAt c).isSome || (decide (c < c) && (wAfter c).isSome)) = (wAt c).isSome := by
    simp
  rw [hc]
  cases hw : wAt c with
  | some v => simp [pick, hw]
  | none =>
    simp only [Option.isSome_none, Bool.false_eq_true, if_false, Option.getD_none]
    have : lastIdx (fun j => (wAt j).isSome || (decide (j < c) && (wAfter j).isSome)) c
        = lastIdx (fun j => (wAt j).isSome || (wAfter j).isSome) c :=
      lastIdx_congr (fun j hj => by simp [hj])
    rw [this]
    cases hl : lastIdx (fun j => (wAt j).isSome || (wAfter j).isSome) c with
    | none => rfl
    | some j => simp [lastIdx_lt hl]

/-- set-after: before column `c+1` the value is what the code of `c` sets after, else the value at `c` -/
theorem attrBefore_succ (c : Nat) :
    attrBefore wAt wAfter d (c + 1) = (wAfter c).getD (attrAt wAt wAfter d c) := by
  rw [attrAt_eq]
  unfold attrBefore
  rw [lastIdx]
  cases h1 : wAfter c with
  | some v => simp [pick, h1]
  | none =>
    cases h2 : wAt c with
    | some v => simp [pick, h1, h2]
    | none => simp [h1, h2]

/-- both recurrences in one step -/
theorem attrBefore_step (c : Nat) :
    attrBefore wAt wAfter d (c + 1) = (wAfter c).getD ((wAt c).getD (attrBefore wAt wAfter d c)) := by
  rw [attrBefore_succ, attrAt_eq]

end Rec

end Zvbi.Fmt.L1Spec
