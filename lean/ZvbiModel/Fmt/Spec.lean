import ZvbiModel.Fmt.Model
/-!
# L1Spec: EN 300 706 section 12.2 (spacing attributes) written declaratively

The implementation (`Model.lean`, following teletext.c) is one left-to-right fold over a row with a
mutable attribute record.  This spec is *not* a fold: every attribute of column `c` is given directly as
"what the last relevant control code sets", where a **set-at** code is relevant for its own column and
all later ones (`j <= c`) and a **set-after** code only for later ones (`j < c`); without a relevant code
the row-start default applies (12.2: white alphanumerics on black, steady, normal size, unboxed,
contiguous, release, not concealed).  `lastIdx` (the largest index below a bound satisfying a predicate)
is characterised in `Lemmas.lean` (`lastIdx_eq_some_iff`), so nothing here depends on how it is computed.

Readings of the standard that are libzvbi's and that this spec adopts (stated, not hidden):
* black foreground (0x00/0x10), double width (0x0E), double size (0x0F) and ESC (0x1B, second G0 set)
  are honoured at Level 1/1.5 as well;
* double height / size are ignored in rows 0, 23, 24; double width / size in column 39; a double-width
  attribute reaching column 39 shows a normal-size character there;
* start box / end box act between two consecutive equal codes (the second one is already boxed / unboxed);
* a byte with wrong parity is displayed as a space (and is not a control code);
* columns 0-7 of row 0 show the library's own page number (`hdrBuf`);
* the blank held mosaic is reported as U+EE20 (G1 contiguous space), not U+0020.

The one place where the standard and libzvbi differ is the **held-mosaic reset rule** (12.2, hold
mosaics: "reset to SPACE at the start of each row, on a change of alphanumeric/mosaics mode or on a
change of size; not reset by reinforcement of the existing size setting").  teletext.c only resets at the
start of a row.  `HeldRule.std` is the standard's rule, `HeldRule.lib` is libzvbi's; see Props/C02.lean.
-/
namespace Zvbi.Fmt.L1Spec
open Zvbi.Fmt Zvbi.Hamm

/-- the largest `j < n` with `p j` -/
def lastIdx (p : Nat → Bool) : Nat → Option Nat
  | 0 => none
  | n + 1 => if p n then some n else lastIdx p n

/-- pick what the code at column `j` sets: the set-after action wins over a set-at action of the same column -/
def pick {α : Type} (wAfter wAt : Option α) (d : α) : α :=
  match wAfter, wAt with
  | some v, _ => v
  | none, some v => v
  | none, none => d

/-- value in force AT column `c` (i.e. for the cell of column `c`): last relevant code, set-at codes up to
    and including `c`, set-after codes strictly before `c` -/
def attrAt {α : Type} (wAt wAfter : Nat → Option α) (d : α) (c : Nat) : α :=
  match lastIdx (fun j => (wAt j).isSome || (decide (j < c) && (wAfter j).isSome)) (c + 1) with
  | none => d
  | some j => pick (if j < c then wAfter j else none) (wAt j) d

/-- value in force just BEFORE column `c` (all codes of columns `< c` have acted) -/
def attrBefore {α : Type} (wAt wAfter : Nat → Option α) (d : α) (c : Nat) : α :=
  match lastIdx (fun j => (wAt j).isSome || (wAfter j).isSome) c with
  | none => d
  | some j => pick (wAfter j) (wAt j) d

inductive HeldRule | std | lib
  deriving DecidableEq, Repr

def noneW {α : Type} : Nat → Option α := fun _ => none

def isAlpha (k : Nat) : Bool := decide (k ≤ 0x07)
def isMosaicCol (k : Nat) : Bool := decide (0x10 ≤ k) && decide (k ≤ 0x17)

section Row
variable (cx : RowCtx)

def rowOK : Bool := decide (0 < cx.row) && decide (cx.row < 23)

/-- foreground: alpha / mosaic colour codes, set-after -/
def fgW (j : Nat) : Option Nat :=
  if isAlpha (cx.code j) || isMosaicCol (cx.code j) then some (cx.fgClut + (cx.code j &&& 7)) else none
def fgAt (c : Nat) : Nat := attrAt noneW (fgW cx) (cx.fgClut + 7) c

/-- background: black background / new background (takes the foreground in force at that column), set-at -/
def bgW (j : Nat) : Option Nat :=
  if cx.code j = 0x1C then some (cx.bgClut + 0)
  else if cx.code j = 0x1D then some (cx.bgClut + (fgAt cx j &&& 7)) else none
def bgAt (c : Nat) : Nat := attrAt (bgW cx) noneW (cx.bgClut + 0) c

/-- flash (set-after) / steady (set-at) -/
def flashWAt (j : Nat) : Option Bool := if cx.code j = 0x09 then some false else none
def flashWAfter (j : Nat) : Option Bool := if cx.code j = 0x08 then some true else none
def flashAt (c : Nat) : Bool := attrAt (flashWAt cx) (flashWAfter cx) false c

/-- conceal (set-at), ended by any colour code (set-after) -/
def concealWAt (j : Nat) : Option Bool := if cx.code j = 0x18 then some true else none
def concealWAfter (j : Nat) : Option Bool :=
  if isAlpha (cx.code j) || isMosaicCol (cx.code j) then some false else none
def concealAt (c : Nat) : Bool := attrAt (concealWAt cx) (concealWAfter cx) false c

/-- mosaics mode (set-after): the mode in which the code of column `c` is interpreted -/
def mosaicW (j : Nat) : Option Bool :=
  if isAlpha (cx.code j) then some false else if isMosaicCol (cx.code j) then some true else none
def mosaicAt (c : Nat) : Bool := attrAt noneW (mosaicW cx) false c

/-- contiguous (U+EE20 block) / separated (U+EE00 block) mosaics, set-at -/
def sepW (j : Nat) : Option Nat :=
  if cx.code j = 0x19 then some 0xEE20 else if cx.code j = 0x1A then some 0xEE00 else none
def sepAt (c : Nat) : Nat := attrAt (sepW cx) noneW 0xEE20 c

/-- hold mosaics (set-at) / release mosaics (set-after) -/
def holdWAt (j : Nat) : Option Bool := if cx.code j = 0x1E then some true else none
def holdWAfter (j : Nat) : Option Bool := if cx.code j = 0x1F then some false else none
def holdAt (c : Nat) : Bool := attrAt (holdWAt cx) (holdWAfter cx) false c

/-- size attribute: normal size (set-at), double height / width / size (set-after) -/
def sizeWAt (j : Nat) : Option Nat := if cx.code j = 0x0C then some 0 else none
def sizeWAfter (j : Nat) : Option Nat :=
  if cx.code j = 0x0D then (if rowOK cx then some 2 else none)
  else if cx.code j = 0x0E then (if j < 39 then some 1 else none)
  else if cx.code j = 0x0F then (if j < 39 ∧ rowOK cx then some 3 else none)
  else none
def sizeAt (c : Nat) : Nat := attrAt (sizeWAt cx) (sizeWAfter cx) 0 c
def sizeBefore (c : Nat) : Nat := attrBefore (sizeWAt cx) (sizeWAfter cx) 0 c

/-- boxing: start box / end box, acting between two consecutive equal codes -/
def opacityW (j : Nat) : Option Nat :=
  if cx.code j = 0x0A then (if j < 39 ∧ cx.nxt j = some 0x0A then some cx.pageOp else none)
  else if cx.code j = 0x0B then (if j < 39 ∧ cx.nxt j = some 0x0B then some cx.boxedOp else none)
  else none
def opacityAt (c : Nat) : Nat := attrAt noneW (opacityW cx) cx.pageOp c

/-- ESC toggles between the two G0 sets (set-after): parity of the number of ESC codes before `c` -/
def escAt (c : Nat) : Bool := ((List.range c).filter (fun j => cx.code j = 0x1B)).length % 2 = 1

/-- a mosaic character with bit 6 set, shown in mosaics mode, becomes the held mosaic (from the next column) -/
def heldCapture (j : Nat) : Option Nat :=
  if mosaicAt cx j && decide (0x20 ≤ cx.code j) && (cx.code j &&& 0x20 != 0)
  then some (sepAt cx j + cx.code j - 0x20) else none

/-- 12.2 reset events (standard only): change of alpha/mosaics mode, change (not reinforcement) of size -/
def heldResetAfter (j : Nat) : Bool :=
  (isAlpha (cx.code j) && mosaicAt cx j) || (isMosaicCol (cx.code j) && !mosaicAt cx j)
  || (match sizeWAfter cx j with | some v => v != sizeAt cx j | none => false)
def heldResetAt (j : Nat) : Bool :=
  match sizeWAt cx j with | some v => v != sizeBefore cx j | none => false

def heldWAfter (r : HeldRule) (j : Nat) : Option Nat :=
  match r with
  | .lib => heldCapture cx j
  | .std => if heldResetAfter cx j then some 0xEE20 else heldCapture cx j
def heldWAt (r : HeldRule) (j : Nat) : Option Nat :=
  match r with
  | .lib => none
  | .std => if heldResetAt cx j then some 0xEE20 else none
/-- the held-mosaic character available at column `c` -/
def heldAt (r : HeldRule) (c : Nat) : Nat := attrAt (heldWAt cx r) (heldWAfter cx r) 0xEE20 c

/-- the character of column `c` -/
def charAt (r : HeldRule) (c : Nat) : Nat :=
  let k := cx.code c
  if k ≤ 0x1F then (if holdAt cx c && mosaicAt cx c then heldAt cx r c else 0x20)
  else if mosaicAt cx c && (k &&& 0x20 != 0) then sepAt cx c + k - 0x20
  else
    let font := if escAt cx c then cx.font1 else cx.font0
    teletextUnicode font.g0 font.subset k

/-- the cell of column `c` as if every column held its own character -/
def baseCell (r : HeldRule) (c : Nat) : Cell :=
  { unicode := charAt cx r c, fg := fgAt cx c, bg := bgAt cx c, flash := flashAt cx c,
    conceal := concealAt cx c, size := sizeAt cx c, opacity := opacityAt cx c }

/-- a double-width character occupies two cells.  Within a maximal run of columns whose size attribute has
    the width bit, the characters at odd offsets are covered by the right half of their left neighbour. -/
def covered (c : Nat) : Bool :=
  let a := match lastIdx (fun j => sizeAt cx j % 2 = 0) c with
    | none => 0
    | some e => e + 1
  (c - a) % 2 = 1

/-- the displayed cell of column `c < 40` of a row that is not the lower half of a double-height row -/
def rowCell (r : HeldRule) (c : Nat) : Cell :=
  if covered cx c then { baseCell cx r (c - 1) with size := 4 }          -- right half: VBI_OVER_TOP
  else if sizeAt cx c % 2 = 1 ∧ c = 39 then { baseCell cx r c with size := 0 }
  else baseCell cx r c

/-- the row contains an effective double height / double size code -/
def hasDH : Bool :=
  (List.range 40).any (fun j => (cx.code j = 0x0D && rowOK cx) || (cx.code j = 0x0F && decide (j < 39) && rowOK cx))

/-- cell `c` of the row below a double-height row whose cells are `u` -/
def lowerCell (u : Nat → Cell) (c : Nat) : Cell :=
  if (u c).size = 2 then { u c with size := 6 }                               -- VBI_DOUBLE_HEIGHT2
  else if (u c).size = 3 then { u c with size := 7 }                          -- VBI_DOUBLE_SIZE2
  else if 0 < c ∧ (u (c - 1)).size = 3 then { u (c - 1) with size := 5 }      -- VBI_OVER_BOTTOM
  else { u c with size := 0, unicode := 0x20 }

end Row

/-- row `r` is the lower half of a double-height row: the row above is displayed and contains double height -/
def isLower (p : PageIn) : Nat → Bool
  | 0 => false
  | r + 1 => !isLower p r && hasDH (rowCtx p r)

/-- a cell given whether its row is a lower half, the context of the row above and of the row itself -/
def cellCx (h : HeldRule) (lower : Bool) (cxAbove cxHere : RowCtx) (col : Nat) : Cell :=
  if lower then lowerCell (rowCell cxAbove h) col else rowCell cxHere h col

/-- L1Spec: the cell at (row, col), `row < 25`, `col < 40` -/
def cell (h : HeldRule) (p : PageIn) (row col : Nat) : Cell :=
  cellCx h (isLower p row) (rowCtx p (row - 1)) (rowCtx p row) col

/-- the whole page as 25 rows of 40 cells -/
def page (h : HeldRule) (p : PageIn) : List (List Cell) :=
  (List.range 25).map (fun r => (List.range 40).map (fun c => cell h p r c))

end Zvbi.Fmt.L1Spec
