import ZvbiModel.Fmt.LemmasInv
/-!
# Helper lemmas for C02, part 4: the cells `acp[0..40]` written by the row loop are L1Spec's `rowCell`s
-/
namespace Zvbi.Fmt
open L1Spec

/-- the `vbi_char` the loop holds in `ac` when it reaches `acp[column] = ac` -/
def emitted (cx : RowCtx) (n : Nat) : Cell :=
  (charStep cx (setAt cx (runCols cx n) (cx.code n)) (cx.code n)).cell

theorem emitted_eq_baseCell (cx : RowCtx) (n : Nat) : emitted cx n = baseCell cx .lib n := by
  simp only [emitted, RowSt.cell, baseCell, charAt, charStep_unicode, charStep_fg, charStep_bg, charStep_flash,
    charStep_conceal, charStep_size, charStep_opacity, setAt_fg, setAt_opacity, setAt_mosaic, setAt_held, setAt_esc,
    fgAt_eq, bgAt_eq, flashAt_eq, concealAt_eq, sizeAt_eq, opacityAt_eq, holdAt_eq, mosaicAt_eq, sepAt_eq,
    heldAt_lib_eq, esc_inv]

theorem acp_length (cx : RowCtx) (n : Nat) : (runCols cx n).acp.length = 41 := by
  induction n with
  | zero => simp [runCols, initRow]
  | succ n ih =>
    rw [runCols_succ]
    simp only [stepCol, setAfter_acp, emit_acp, charStep_acp, charStep_wideChar, charStep_size, setAt_acp, setAt_wideChar]
    repeat' split
    all_goals simp [List.length_set, ih]

/-- a step only writes `acp[col]` and `acp[col+1]` -/
theorem stepCol_acp_lt (cx : RowCtx) (s : RowSt) (col j : Nat) (h : j < col) :
    (stepCol cx s col).acp[j]? = s.acp[j]? := by
  simp only [stepCol, setAfter_acp, emit_acp, charStep_acp, charStep_wideChar, charStep_size, setAt_acp, setAt_wideChar]
  have h1 : col ≠ j := by omega
  have h2 : col + 1 ≠ j := by omega
  repeat' split
  all_goals simp [List.getElem?_set_ne, h1, h2]

theorem runCols_acp_stable (cx : RowCtx) (c m : Nat) (h : c < m) :
    (runCols cx m).acp[c]? = (runCols cx (c + 1)).acp[c]? := by
  induction m with
  | zero => omega
  | succ m ih =>
    by_cases hm : c = m
    · subst hm; rfl
    · rw [runCols_succ, stepCol_acp_lt cx _ m c (by omega), ih (by omega)]

/-- what step `c` leaves in `acp[c]` -/
theorem step_acp_self (cx : RowCtx) (c : Nat) (hc : c < 40) :
    (runCols cx (c + 1)).acp[c]? =
      if (runCols cx c).wideChar then (runCols cx c).acp[c]?
      else some (if sizeAt cx c % 2 = 1 ∧ c = 39 then { emitted cx c with size := 0 } else emitted cx c) := by
  rw [runCols_succ]
  have hl := acp_length cx c
  simp only [stepCol, setAfter_acp, emit_acp, charStep_acp, charStep_wideChar, charStep_size, setAt_acp, setAt_wideChar,
    Nat.and_one_is_mod, ← sizeAt_eq]
  cases hw : (runCols cx c).wideChar
  · simp only [Bool.false_eq_true, if_false]
    by_cases hs : sizeAt cx c % 2 = 1
    · by_cases h39 : c < 39
      · have : ¬ c = 39 := by omega
        simp only [hs, h39, this, if_true, and_false, if_false]
        rw [List.getElem?_set_ne (by omega), List.getElem?_set_self (by omega)]
        rfl
      · have : c = 39 := by omega
        subst this
        simp only [hs, Nat.lt_irrefl, if_true, and_self, if_false]
        rw [List.getElem?_set_self (by omega)]
        rfl
    · simp only [hs, false_and, if_false]
      rw [List.getElem?_set_self (by omega)]
      rfl
  · simp

/-- a double-width character also writes its right half -/
theorem step_acp_next (cx : RowCtx) (c : Nat) (hc : c < 39) (hw : (runCols cx c).wideChar = false)
    (hs : sizeAt cx c % 2 = 1) :
    (runCols cx (c + 1)).acp[c + 1]? = some { emitted cx c with size := 4 } := by
  rw [runCols_succ]
  have hl := acp_length cx c
  simp only [stepCol, setAfter_acp, emit_acp, charStep_acp, charStep_wideChar, charStep_size, setAt_acp, setAt_wideChar,
    Nat.and_one_is_mod, ← sizeAt_eq, hw, hs, hc, Bool.false_eq_true, if_false, if_true]
  rw [List.getElem?_set_self (by simp [List.length_set]; omega)]
  rfl

/-- the row loop's `acp[c]`, `c < 40`, is the declarative cell -/
theorem acp_eq_rowCell (cx : RowCtx) (c : Nat) (hc : c < 40) :
    (runCols cx 40).acp[c]? = some (rowCell cx .lib c) := by
  rw [runCols_acp_stable cx c 40 hc, step_acp_self cx c hc, wideChar_inv cx c (by omega)]
  unfold rowCell
  cases hcov : covered cx c
  · simp only [Bool.false_eq_true, if_false, emitted_eq_baseCell]
  · simp only [if_true]
    cases c with
    | zero => simp [covered_zero] at hcov
    | succ k =>
      rw [covered_succ] at hcov
      simp only [Bool.and_eq_true, Bool.not_eq_true', decide_eq_true_eq] at hcov
      have hw : (runCols cx k).wideChar = false := by rw [wideChar_inv cx k (by omega)]; exact hcov.1
      rw [step_acp_next cx k (by omega) hw hcov.2, emitted_eq_baseCell]
      simp

/-- the artificial 41st column keeps the row-start attributes -/
theorem acp_40 (cx : RowCtx) (n : Nat) (hn : n ≤ 40) : (runCols cx n).acp[40]? = some (initRow cx).cell := by
  induction n with
  | zero => simp [runCols, initRow, List.getElem?_replicate, RowSt.cell]
  | succ n ih =>
    rw [runCols_succ]
    have hl := acp_length cx n
    simp only [stepCol, setAfter_acp, emit_acp, charStep_acp, charStep_wideChar, charStep_size, setAt_acp, setAt_wideChar]
    have h1 : n ≠ 40 := by omega
    repeat' split
    all_goals (try rw [List.getElem?_set_ne (by omega)]) <;> (try rw [List.getElem?_set_ne (by omega)]) <;> exact ih (by omega)

end Zvbi.Fmt
