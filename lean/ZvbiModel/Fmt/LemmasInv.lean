import ZvbiModel.Fmt.LemmasRow
/-!
# Helper lemmas for C02, part 3: every attribute variable of the row loop, after `n` columns, equals the
# declarative "last relevant code" value of L1Spec (induction over the columns)
-/
namespace Zvbi.Fmt
open L1Spec

/-- close an equation between nested `if`s over conditions on a code: split everything, then arithmetic -/
macro "ite_cases" : tactic =>
  `(tactic| ((try simp only [Bool.or_eq_true, Bool.and_eq_true, decide_eq_true_eq] at *) <;> (repeat' split) <;>
      (first | rfl | omega | (simp_all <;> omega) | simp_all)))

theorem decide_eq_not_decide {P Q : Prop} [Decidable P] [Decidable Q] (h : P ↔ ¬Q) :
    decide P = !decide Q := by
  by_cases hq : Q <;> simp [hq, h]

theorem runCols_succ (cx : RowCtx) (n : Nat) : runCols cx (n + 1) = stepCol cx (runCols cx n) n := by
  simp [runCols, List.range_succ, List.foldl_append]

theorem fg_inv (cx : RowCtx) (n : Nat) :
    (runCols cx n).fg = attrBefore noneW (fgW cx) (cx.fgClut + 7) n := by
  induction n with
  | zero => rfl
  | succ n ih =>
    rw [runCols_succ, attrBefore_step, ← ih]
    simp only [stepCol, setAfter_fg, emit_fg, charStep_fg, setAt_fg, fgW, noneW, isAlpha, isMosaicCol]
    ite_cases

theorem flash_inv (cx : RowCtx) (n : Nat) :
    (runCols cx n).flash = attrBefore (flashWAt cx) (flashWAfter cx) false n := by
  induction n with
  | zero => rfl
  | succ n ih =>
    rw [runCols_succ, attrBefore_step, ← ih]
    simp only [stepCol, setAfter_flash, emit_flash, charStep_flash, setAt_flash, flashWAt, flashWAfter]
    ite_cases

theorem conceal_inv (cx : RowCtx) (n : Nat) :
    (runCols cx n).conceal = attrBefore (concealWAt cx) (concealWAfter cx) false n := by
  induction n with
  | zero => rfl
  | succ n ih =>
    rw [runCols_succ, attrBefore_step, ← ih]
    simp only [stepCol, setAfter_conceal, emit_conceal, charStep_conceal, setAt_conceal, concealWAt, concealWAfter,
      isAlpha, isMosaicCol]
    ite_cases

theorem mosaic_inv (cx : RowCtx) (n : Nat) :
    (runCols cx n).mosaic = attrBefore noneW (mosaicW cx) false n := by
  induction n with
  | zero => rfl
  | succ n ih =>
    rw [runCols_succ, attrBefore_step, ← ih]
    simp only [stepCol, setAfter_mosaic, emit_mosaic, charStep_mosaic, setAt_mosaic, mosaicW, noneW, isAlpha, isMosaicCol]
    ite_cases

theorem sep_inv (cx : RowCtx) (n : Nat) :
    (runCols cx n).mosaicUnicodes = attrBefore (sepW cx) noneW 0xEE20 n := by
  induction n with
  | zero => rfl
  | succ n ih =>
    rw [runCols_succ, attrBefore_step, ← ih]
    simp only [stepCol, setAfter_mosaicUnicodes, emit_mosaicUnicodes, charStep_mosaicUnicodes, setAt_mosaicUnicodes,
      sepW, noneW]
    ite_cases

theorem hold_inv (cx : RowCtx) (n : Nat) :
    (runCols cx n).hold = attrBefore (holdWAt cx) (holdWAfter cx) false n := by
  induction n with
  | zero => rfl
  | succ n ih =>
    rw [runCols_succ, attrBefore_step, ← ih]
    simp only [stepCol, setAfter_hold, emit_hold, charStep_hold, setAt_hold, holdWAt, holdWAfter]
    ite_cases

theorem size_inv (cx : RowCtx) (n : Nat) :
    (runCols cx n).size = attrBefore (sizeWAt cx) (sizeWAfter cx) 0 n := by
  induction n with
  | zero => rfl
  | succ n ih =>
    rw [runCols_succ, attrBefore_step, ← ih]
    simp only [stepCol, setAfter_size, emit_size, charStep_size, setAt_size, sizeWAt, sizeWAfter, rowOK]
    ite_cases

theorem opacity_inv (cx : RowCtx) (n : Nat) :
    (runCols cx n).opacity = attrBefore noneW (opacityW cx) cx.pageOp n := by
  induction n with
  | zero => rfl
  | succ n ih =>
    rw [runCols_succ, attrBefore_step, ← ih]
    simp only [stepCol, setAfter_opacity, emit_opacity, charStep_opacity, setAt_opacity, opacityW, noneW]
    ite_cases

/-! ## the value AT a column (after the set-at switch) -/

theorem fgAt_eq (cx : RowCtx) (n : Nat) : fgAt cx n = (runCols cx n).fg := by
  rw [fgAt, attrAt_eq, fg_inv]; rfl

theorem mosaicAt_eq (cx : RowCtx) (n : Nat) : mosaicAt cx n = (runCols cx n).mosaic := by
  rw [mosaicAt, attrAt_eq, mosaic_inv]; rfl

theorem opacityAt_eq (cx : RowCtx) (n : Nat) : opacityAt cx n = (runCols cx n).opacity := by
  rw [opacityAt, attrAt_eq, opacity_inv]; rfl

theorem sepAt_eq (cx : RowCtx) (n : Nat) :
    sepAt cx n = (setAt cx (runCols cx n) (cx.code n)).mosaicUnicodes := by
  rw [sepAt, attrAt_eq, ← sep_inv, setAt_mosaicUnicodes]
  simp only [sepW]; ite_cases

theorem sizeAt_eq (cx : RowCtx) (n : Nat) : sizeAt cx n = (setAt cx (runCols cx n) (cx.code n)).size := by
  rw [sizeAt, attrAt_eq, ← size_inv, setAt_size]
  simp only [sizeWAt]; ite_cases

theorem flashAt_eq (cx : RowCtx) (n : Nat) : flashAt cx n = (setAt cx (runCols cx n) (cx.code n)).flash := by
  rw [flashAt, attrAt_eq, ← flash_inv, setAt_flash]
  simp only [flashWAt]; ite_cases

theorem concealAt_eq (cx : RowCtx) (n : Nat) : concealAt cx n = (setAt cx (runCols cx n) (cx.code n)).conceal := by
  rw [concealAt, attrAt_eq, ← conceal_inv, setAt_conceal]
  simp only [concealWAt]; ite_cases

theorem holdAt_eq (cx : RowCtx) (n : Nat) : holdAt cx n = (setAt cx (runCols cx n) (cx.code n)).hold := by
  rw [holdAt, attrAt_eq, ← hold_inv, setAt_hold]
  simp only [holdWAt]; ite_cases

theorem bg_inv (cx : RowCtx) (n : Nat) :
    (runCols cx n).bg = attrBefore (bgW cx) noneW (cx.bgClut + 0) n := by
  induction n with
  | zero => rfl
  | succ n ih =>
    rw [runCols_succ, attrBefore_step, ← ih]
    simp only [stepCol, setAfter_bg, emit_bg, charStep_bg, setAt_bg, bgW, noneW, fgAt_eq]
    ite_cases

theorem bgAt_eq (cx : RowCtx) (n : Nat) : bgAt cx n = (setAt cx (runCols cx n) (cx.code n)).bg := by
  rw [bgAt, attrAt_eq, ← bg_inv, setAt_bg]
  simp only [bgW, fgAt_eq]; ite_cases

theorem esc_inv (cx : RowCtx) (n : Nat) : (runCols cx n).esc = escAt cx n := by
  induction n with
  | zero => simp [runCols, initRow, escAt]
  | succ n ih =>
    rw [runCols_succ]
    simp only [stepCol, setAfter_esc, emit_esc, charStep_esc, setAt_esc, ih]
    unfold escAt
    rw [List.range_succ, List.filter_append, List.length_append]
    by_cases h : cx.code n = 0x1B
    · simp [h]
      apply decide_eq_not_decide; omega
    · simp [h]

theorem held_inv (cx : RowCtx) (n : Nat) :
    (runCols cx n).held = attrBefore noneW (heldCapture cx) 0xEE20 n := by
  induction n with
  | zero => rfl
  | succ n ih =>
    rw [runCols_succ, attrBefore_step, ← ih]
    simp only [stepCol, setAfter_held, emit_held, charStep_held, setAt_held, setAt_mosaic, heldCapture, noneW,
      mosaicAt_eq, sepAt_eq]
    ite_cases

theorem heldAt_lib_eq (cx : RowCtx) (n : Nat) : heldAt cx .lib n = (runCols cx n).held := by
  rw [heldAt, attrAt_eq, held_inv]; rfl

theorem doubleHeight_inv (cx : RowCtx) (n : Nat) :
    (runCols cx n).doubleHeight =
      (List.range n).any (fun j => (cx.code j = 0x0D && rowOK cx) || (cx.code j = 0x0F && decide (j < 39) && rowOK cx)) := by
  induction n with
  | zero => rfl
  | succ n ih =>
    rw [runCols_succ, List.range_succ, List.any_append, ← ih]
    simp only [stepCol, setAfter_doubleHeight, emit_doubleHeight, charStep_doubleHeight, setAt_doubleHeight, rowOK,
      List.any_cons, List.any_nil, Bool.or_false]
    cases (runCols cx n).doubleHeight <;> ite_cases

theorem covered_zero (cx : RowCtx) : covered cx 0 = false := by simp [covered, lastIdx]

theorem covered_succ (cx : RowCtx) (n : Nat) :
    covered cx (n + 1) = (!covered cx n && decide (sizeAt cx n % 2 = 1)) := by
  unfold covered
  rw [lastIdx]
  by_cases h : sizeAt cx n % 2 = 0
  · simp [h]
  · have h1 : sizeAt cx n % 2 = 1 := by omega
    simp only [h, decide_false, Bool.false_eq_true, if_false, h1, decide_true, Bool.and_true]
    cases hl : lastIdx (fun j => decide (sizeAt cx j % 2 = 0)) n with
    | none => simp; apply decide_eq_not_decide; omega
    | some e =>
      have := lastIdx_lt hl
      simp; apply decide_eq_not_decide; omega

theorem wideChar_inv (cx : RowCtx) (n : Nat) (hn : n ≤ 39) : (runCols cx n).wideChar = covered cx n := by
  induction n with
  | zero => simp [covered_zero, runCols, initRow]
  | succ n ih =>
    rw [runCols_succ, covered_succ, ← ih (by omega), sizeAt_eq]
    simp only [stepCol, setAfter_wideChar, emit_wideChar, charStep_wideChar, charStep_size, setAt_wideChar,
      Nat.and_one_is_mod]
    have : n < 39 := by omega
    simp [this]

end Zvbi.Fmt
