import ZvbiModel.Fmt.Spec
import ZvbiModel.Hamm.Lemmas
/-!
# Helper lemmas for C02, part 7: the FLOF link of packet X/27/0 (EN 300 706 9.6.1) is decoded as sent
-/
namespace Zvbi.Fmt
open Zvbi.Hamm

/-- sender side of one X/27 link: page units and tens, S1, S2 + M1, S3, S4 + M2 + M3, each Hamming 8/4;
    `mrel` = M3 M2 M1 is the magazine of the target relative (XOR) to the packet's magazine -/
def encLink (pu pt s1 s2 s3 s4 mrel : Nat) : List Nat :=
  [ham8 pu, ham8 pt, ham8 s1, ham8 (s2 ||| ((mrel &&& 1) <<< 3)), ham8 s3,
   ham8 (s4 ||| (((mrel >>> 1) &&& 1) <<< 2) ||| (((mrel >>> 2) &&& 1) <<< 3))]

theorem nib3_lt : ∀ s2 < 8, ∀ m < 8, (s2 ||| ((m &&& 1) <<< 3)) < 16 := by decide
theorem nib5_lt : ∀ s4 < 4, ∀ m < 8, (s4 ||| (((m >>> 1) &&& 1) <<< 2) ||| (((m >>> 2) &&& 1) <<< 3)) < 16 := by decide

/-- byte 2 (S1, S2, M1) and byte 3 (S3, S4, M2, M3): the decoder's bit picking returns the fields -/
theorem link_bits : ∀ s1 < 16, ∀ s2 < 8, ∀ s3 < 16, ∀ s4 < 4, ∀ m < 8,
    let b2 := s1 ||| ((s2 ||| ((m &&& 1) <<< 3)) <<< 4)
    let b3 := s3 ||| ((s4 ||| (((m >>> 1) &&& 1) <<< 2) ||| (((m >>> 2) &&& 1) <<< 3)) <<< 4)
    ((b3 >>> 5) &&& 6) + (b2 >>> 7) = m ∧ (b3 * 256 + b2) &&& 0x3f7f = s1 + 16 * s2 + 256 * s3 + 4096 * s4 := by
  decide +kernel

theorem unhamPageLink_encLink (mag pu pt s1 s2 s3 s4 mrel : Nat)
    (hpu : pu < 16) (hpt : pt < 16) (h1 : s1 < 16) (h2 : s2 < 8) (h3 : s3 < 16) (h4 : s4 < 4) (hm : mrel < 8) :
    unhamPageLink (encLink pu pt s1 s2 s3 s4 mrel) mag =
      some ⟨(if mag ^^^ mrel = 0 then 8 else mag ^^^ mrel) * 256 + (pu ||| (pt <<< 4)),
            s1 + 16 * s2 + 256 * s3 + 4096 * s4⟩ := by
  have hb := link_bits s1 h1 s2 h2 s3 h3 s4 h4 mrel hm
  simp only [unhamPageLink, encLink, unham16p, unham8_ham8 pu hpu, unham8_ham8 pt hpt, unham8_ham8 s1 h1,
    unham8_ham8 _ (nib3_lt s2 h2 mrel hm), unham8_ham8 s3 h3, unham8_ham8 _ (nib5_lt s4 h4 mrel hm)]
  simp only [] at hb
  rw [hb.1, hb.2]

end Zvbi.Fmt
