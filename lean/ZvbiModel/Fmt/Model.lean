import ZvbiModel.Hamm.Model
import ZvbiModel.Generated.FmtTables
/-!
# Model of the Level 1 / 1.5 formatter: src/teletext.c `vbi_format_vt_page`, `character_set_designation`,
# src/lang.c `vbi_teletext_unicode`, and the FLOF link path (src/packet.c `unham_page_link`,
# teletext.c navigation block -> `vbi_page.nav_link`)

Conventions (DESIGN.md section 3).  The C variable `ac` (a `vbi_char`) is flattened into the fields of
`RowSt`; `font` is represented by `esc` (the C keeps `font == pg->font[esc]` at all times).  The cached
page is a flat function `raw : Nat -> Nat` (the C walks `vtp->data.lop.raw[0][i++]`), `i = 40*row+col`.
Sizes / opacities / colours are the numeric enum values; `Props/C02.lean` has a guard theorem tying them
to the generated constants (`Generated/FmtTables.lean`), so a changed enum in /repo breaks the build.
Not modelled: Level 2.5/3.5 enhancement (`enhance`, X/26, default objects), `zap_links` (the `link`
bit), TOP navigation, `column_41` (only touches the artificial 41st column which is not compared).
-/
namespace Zvbi.Fmt
open Zvbi.Hamm Zvbi.Gen.Fmt

/-- the attributes of a `vbi_char` the property speaks about -/
structure Cell where
  unicode : Nat := 0x20
  fg : Nat := 7
  bg : Nat := 0
  flash : Bool := false
  conceal : Bool := false
  size : Nat := 0
  opacity : Nat := 3
  deriving DecidableEq, Repr, Inhabited

/-! ## lang.c -/

/-- index of `c` in `national_subset[0][]`, the loop `for (i = 0; i < 13; i++) if (c == national_subset[0][i])` -/
def natSubIdx (c : Nat) : Option Nat :=
  (List.range 13).find? (fun i => nationalSubset i == c)

/-- `vbi_teletext_unicode (s, n, c)` for the G0 sets, `0x20 <= c <= 0x7F`, `n < 14` (the C asserts both) -/
def teletextUnicode (s n c : Nat) : Nat :=
  if s = 1 then                              -- LATIN_G0
    if (0xF8000019 >>> (c &&& 31)) &&& 1 = 1 then
      match (if n > 0 then natSubIdx c else none) with
      | some i => nationalSubset (13 * n + i)
      | none =>
        if c = 0x24 then 0x00A4 else if c = 0x7C then 0x00A6 else if c = 0x7F then 0x25A0 else c
    else c
  else if s = 3 then (if c < 0x40 then c else cyrillic1G0 (c - 0x40))
  else if s = 4 then (if c = 0x26 then 0x044B else if c < 0x40 then c else cyrillic2G0 (c - 0x40))
  else if s = 5 then (if c = 0x26 then 0x00EF else if c < 0x40 then c else cyrillic3G0 (c - 0x40))
  else if s = 7 then
    (if c = 0x3C then 0x00AB else if c = 0x3E then 0x00BB else if c < 0x40 then c else greekG0 (c - 0x40))
  else if s = 9 then arabicG0 (c - 0x20)
  else if s = 11 then (if c < 0x5B then c else hebrewG0 (c - 0x5B))
  else 0      -- other sets are never a `font->G0`; the C would `exit`

/-- `VALID_CHARACTER_SET(n)` -/
def validCharset (n : Nat) : Bool := n < 88 && fontG0 n != 0

/-- one iteration of the loop in `character_set_designation`: index into `vbi_font_descriptors` -/
def charsetDesignation (charsetCode national : Nat) : Nat :=
  let f := if validCharset charsetCode then charsetCode else 0
  let code2 := charsetCode / 8 * 8 + national        -- (charset_code & ~7) + vtp->national
  if validCharset code2 then code2 else f

structure Font where
  g0 : Nat
  subset : Nat
  deriving DecidableEq, Repr

def fontOf (idx : Nat) : Font := ⟨fontG0 idx, fontSubset idx⟩

/-! ## the row loop -/

/-- what the row loop needs from its environment -/
structure RowCtx where
  row : Nat
  fgClut : Nat
  bgClut : Nat
  pageOp : Nat              -- pg->page_opacity[row > 0]
  boxedOp : Nat             -- pg->boxed_opacity[row > 0]
  font0 : Font
  font1 : Font
  code : Nat → Nat          -- the C variable `raw` at each column
  nxt : Nat → Option Nat    -- `vbi_unpar8 (vtp->data.lop.raw[0][i])` after `i++` at that column

structure RowSt where
  unicode : Nat
  fg : Nat
  bg : Nat
  flash : Bool
  conceal : Bool
  size : Nat
  opacity : Nat
  mosaicUnicodes : Nat
  held : Nat
  esc : Bool
  hold : Bool
  mosaic : Bool
  doubleHeight : Bool
  wideChar : Bool
  acp : List Cell           -- acp[0 .. 40]

def RowSt.cell (s : RowSt) : Cell :=
  { unicode := s.unicode, fg := s.fg, bg := s.bg, flash := s.flash, conceal := s.conceal,
    size := s.size, opacity := s.opacity }

def initRow (cx : RowCtx) : RowSt :=
  let s : RowSt :=
    { unicode := 0x20, fg := cx.fgClut + 7, bg := cx.bgClut + 0, flash := false, conceal := false,
      size := 0, opacity := cx.pageOp, mosaicUnicodes := 0xEE20, held := 0xEE20, esc := false,
      hold := false, mosaic := false, doubleHeight := false, wideChar := false, acp := [] }
  { s with acp := List.replicate 41 s.cell }       -- acp[COLUMNS] = ac; the others are overwritten

/-- first `switch (raw)`: set-at spacing attributes -/
def setAt (cx : RowCtx) (s : RowSt) (raw : Nat) : RowSt :=
  if raw = 0x09 then { s with flash := false }
  else if raw = 0x0C then { s with size := 0 }
  else if raw = 0x18 then { s with conceal := true }
  else if raw = 0x19 then { s with mosaicUnicodes := 0xEE20 }
  else if raw = 0x1A then { s with mosaicUnicodes := 0xEE00 }
  else if raw = 0x1C then { s with bg := cx.bgClut + 0 }
  else if raw = 0x1D then { s with bg := cx.bgClut + (s.fg &&& 7) }
  else if raw = 0x1E then { s with hold := true }
  else s

/-- `if (raw <= 0x1F) ... else ...`: the character shown in this cell -/
def charStep (cx : RowCtx) (s : RowSt) (raw : Nat) : RowSt :=
  if raw ≤ 0x1F then { s with unicode := if s.hold && s.mosaic then s.held else 0x20 }
  else if s.mosaic && (raw &&& 0x20 != 0) then
    { s with held := s.mosaicUnicodes + raw - 0x20, unicode := s.mosaicUnicodes + raw - 0x20 }
  else
    let font := if s.esc then cx.font1 else cx.font0
    { s with unicode := teletextUnicode font.g0 font.subset raw }

/-- `if (wide_char) ... else { acp[column] = ac; ... }` -/
def emit (s : RowSt) (col : Nat) : RowSt :=
  if s.wideChar then { s with wideChar := false }
  else
    let ac := s.cell
    if s.size &&& 1 = 1 then                      -- ac.size & VBI_DOUBLE_WIDTH
      if col < 39 then
        { s with acp := (s.acp.set col ac).set (col + 1) { ac with size := 4 }, wideChar := true }
      else
        { s with acp := s.acp.set col { ac with size := 0 }, wideChar := false }
    else { s with acp := s.acp.set col ac, wideChar := false }

/-- second `switch (raw)`: set-after spacing attributes -/
def setAfter (cx : RowCtx) (s : RowSt) (raw col : Nat) : RowSt :=
  if raw ≤ 0x07 then { s with fg := cx.fgClut + (raw &&& 7), conceal := false, mosaic := false }
  else if raw = 0x08 then { s with flash := true }
  else if raw = 0x0A then
    (if col < 39 ∧ cx.nxt col = some 0x0A then { s with opacity := cx.pageOp } else s)
  else if raw = 0x0B then
    (if col < 39 ∧ cx.nxt col = some 0x0B then { s with opacity := cx.boxedOp } else s)
  else if raw = 0x0D then
    (if cx.row ≤ 0 ∨ cx.row ≥ 23 then s else { s with size := 2, doubleHeight := true })
  else if raw = 0x0E then
    (if col < 39 then { s with size := 1 } else s)
  else if raw = 0x0F then
    (if col ≥ 39 ∨ cx.row ≤ 0 ∨ cx.row ≥ 23 then s else { s with size := 3, doubleHeight := true })
  else if 0x10 ≤ raw ∧ raw ≤ 0x17 then
    { s with fg := cx.fgClut + (raw &&& 7), conceal := false, mosaic := true }
  else if raw = 0x1F then { s with hold := false }
  else if raw = 0x1B then { s with esc := !s.esc }
  else s

/-- one iteration of `for (column = 0; column < COLUMNS; ++column)` -/
def stepCol (cx : RowCtx) (s : RowSt) (col : Nat) : RowSt :=
  let raw := cx.code col
  setAfter cx (emit (charStep cx (setAt cx s raw) raw) col) raw col

/-- state after the first `n` columns -/
def runCols (cx : RowCtx) (n : Nat) : RowSt := (List.range n).foldl (stepCol cx) (initRow cx)

/-- the 41 cells of a row and the `double_height` flag -/
def formatRow (cx : RowCtx) : List Cell × Bool :=
  let s := runCols cx 40
  (s.acp, s.doubleHeight)

/-- `if (double_height) for (column = 0; column < EXT_COLUMNS; column++) switch (ac.size) ...`:
    the row below.  (The `[c]` case with size 3 would write one cell further; it is unreachable because
    cell 40 always has size 0 - see `Lemmas`.) -/
def lowerRow : List Cell → List Cell
  | [] => []
  | [c] =>
    if c.size = 2 then [{ c with size := 6 }]
    else if c.size = 3 then [{ c with size := 7 }]
    else [{ c with size := 0, unicode := 0x20 }]
  | c :: d :: rest =>
    if c.size = 2 then { c with size := 6 } :: lowerRow (d :: rest)
    else if c.size = 3 then { c with size := 7 } :: { c with size := 5 } :: lowerRow rest
    else { c with size := 0, unicode := 0x20 } :: lowerRow (d :: rest)

/-! ## the page -/

/-- the inputs of `vbi_format_vt_page` that Level 1 formatting reads -/
structure PageIn where
  pgno : Nat
  subno : Nat
  flags : Nat
  national : Nat
  charset0 : Nat := 0       -- ext->charset_code[0]
  charset1 : Nat := 0       -- ext->charset_code[1]
  fgClut : Nat := 0         -- ext->foreground_clut
  bgClut : Nat := 0         -- ext->background_clut
  raw : Nat → Nat           -- vtp->data.lop.raw[0][i]

def hexDigit (d : Nat) : Nat := if d < 10 then 0x30 + d else 0x61 + (d - 10)

/-- digits of `%x` -/
def hexDigits : Nat → Nat → List Nat
  | 0, _ => []
  | fuel + 1, n => if n < 16 then [hexDigit n] else hexDigits fuel (n / 16) ++ [hexDigit (n % 16)]

/-- `snprintf (buf, 16, "\2%x.%02x\7", vtp->pgno, vtp->subno & 0xff)`, columns 0..7 (for pgno >= 0x100) -/
def hdrBuf (pgno subno : Nat) : List Nat :=
  (0x02 :: hexDigits 8 pgno) ++ [0x2E, hexDigit ((subno &&& 0xff) / 16), hexDigit ((subno &&& 0xff) % 16), 0x07, 0]

def hasFlag (flags bit : Nat) : Bool := flags &&& bit != 0

/-- `pg->page_opacity[1]`, `pg->boxed_opacity[1]` -/
def pageOpacity1 (flags : Nat) : Nat :=
  if hasFlag flags (0x4000 ||| 0x8000 ||| 0x80000) then 0 else 3
def boxedOpacity1 (flags : Nat) : Nat :=
  if hasFlag flags 0x80000 then 0 else 2
/-- index 0 (header row): `C7_SUPPRESS_HEADER` -/
def pageOpacity0 (flags : Nat) : Nat := if hasFlag flags 0x10000 then 0 else pageOpacity1 flags
def boxedOpacity0 (flags : Nat) : Nat := if hasFlag flags 0x10000 then 0 else boxedOpacity1 flags

/-- the C variable `raw` at (row, column) -/
def codeAt (p : PageIn) (row col : Nat) : Nat :=
  if row = 0 ∧ col < 8 then (hdrBuf p.pgno p.subno).getD col 0
  else match unpar8 (p.raw (40 * row + col)) with
    | some v => v
    | none => 0x20

def rowCtx (p : PageIn) (row : Nat) : RowCtx :=
  { row := row, fgClut := p.fgClut, bgClut := p.bgClut,
    pageOp := if row > 0 then pageOpacity1 p.flags else pageOpacity0 p.flags,
    boxedOp := if row > 0 then boxedOpacity1 p.flags else boxedOpacity0 p.flags,
    font0 := fontOf (charsetDesignation p.charset0 p.national),
    font1 := fontOf (charsetDesignation p.charset1 p.national),
    code := codeAt p row,
    nxt := fun col => unpar8 (p.raw (40 * row + col + 1)) }

/-- `for (row = 0; row < display_rows; row++) { ...; if (double_height) { ...; i += COLUMNS; row++; } }`
    with `display_rows = 25`; `fuel` bounds the number of iterations (25 always suffices). -/
def formatFrom (p : PageIn) : Nat → Nat → List (List Cell)
  | 0, _ => []
  | fuel + 1, row =>
    if row ≥ 25 then [] else
    let r := formatRow (rowCtx p row)
    if r.2 then r.1 :: lowerRow r.1 :: formatFrom p fuel (row + 2)
    else r.1 :: formatFrom p fuel (row + 1)

/-- `pg->text` after the Level 1 loop: 25 rows of 41 cells -/
def format (p : PageIn) : List (List Cell) := formatFrom p 25 0

/-- cell (row, col) of the formatted page -/
def cellAt (rows : List (List Cell)) (row col : Nat) : Cell := (rows.getD row []).getD col {}

/-! ## FLOF links -/

structure Link where
  pgno : Nat
  subno : Nat
  deriving DecidableEq, Repr

/-- packet.c `unham_page_link (p, raw, magazine)`; `none` = returns FALSE, `*p` untouched -/
def unhamPageLink (r : List Nat) (magazine : Nat) : Option Link :=
  match r with
  | [r0, r1, r2, r3, r4, r5] =>
    match unham16p r0 r1, unham16p r2 r3, unham16p r4 r5 with
    | some b1, some b2, some b3 =>
      let m := ((b3 >>> 5) &&& 6) + (b2 >>> 7)
      let mg := if magazine ^^^ m = 0 then 8 else magazine ^^^ m
      some ⟨mg * 256 + b1, (b3 * 256 + b2) &&& 0x3f7f⟩
    | _, _, _ => none
  | _ => none

/-- `NO_PAGE(pgno)` -/
def noPage (pgno : Nat) : Bool := pgno &&& 0xFF = 0xFF

/-- the navigation block of `vbi_format_vt_page` for `navigation = TRUE, display_rows = 25`, no TOP:
    `nav_link[0..5]` given the previous content `old` (the caller's memory), `link[0..5]` of the cached
    page, `have_flof`, whether packet 24 was received, the initial page of the network and the formatted
    row 24 (needed by `flof_links`, which assigns a link only to keys whose colour occurs in row 24). -/
def navLinks (old : List Link) (links : List Link) (haveFlof has24 : Bool) (initial : Link)
    (row24 : List Cell) : List Link :=
  let l5 := links.getD 5 ⟨0, 0⟩
  let nav5 := if haveFlof && (decide (l5.pgno ≥ 0x100) && decide (l5.pgno ≤ 0x899) && !noPage l5.pgno) then l5 else initial
  let key (k : Nat) : Link :=
    let lk := links.getD k ⟨0, 0⟩
    if !haveFlof then old.getD k ⟨0, 0⟩
    else if !has24 then lk                            -- flof_navigation_bar
    else                                              -- flof_links
      let colour := [1, 2, 3, 6].getD k 0             -- flof_link_col[k]
      if !noPage lk.pgno && (row24.take 40).any (fun c => c.fg &&& 7 == colour) then lk
      else old.getD k ⟨0, 0⟩
  [key 0, key 1, key 2, key 3, old.getD 4 ⟨0, 0⟩, nav5]

end Zvbi.Fmt
