import ZvbiModel.Fmt.Model
/-!
# Model of the extension selection at the head of `vbi_format_vt_page` (src/teletext.c)

```
mag = (max_level <= VBI_WST_LEVEL_1p5) ? &vbi->vt.default_magazine : cache_network_magazine (vbi->cn, vtp->pgno);
if (vtp->x28_designations & 0x11) ext = &vtp->data.ext_lop.ext; else ext = &mag->extension;
```
At Level 1 / 1.5 the magazine record is the decoder's default magazine, so M/29 packets never reach the formatter;
its `charset_code[]` is `{default_region, 0}` (`vbi_teletext_set_default_region`), both CLUT offsets 0.  A page that
received X/28/0 format 1 or X/28/4 (bits 0 and 4 of `x28_designations`) is formatted with ITS OWN character set codes
and CLUT offsets - also at Level 1.
-/
namespace Zvbi.Fmt

/-- what Level 1 formatting reads of `vtp->x28_designations` / `vtp->data.ext_lop.ext` -/
structure ExtIn where
  x28 : Nat := 0           -- vtp->x28_designations
  cs0 : Nat := 0           -- ext.charset_code[0]
  cs1 : Nat := 0           -- ext.charset_code[1]
  fgClut : Nat := 0        -- ext.foreground_clut
  bgClut : Nat := 0        -- ext.background_clut
  deriving DecidableEq, Repr

/-- the page's own extension is used iff X/28/0 or X/28/4 was received -/
def ownExt (e : ExtIn) : Bool := e.x28 &&& 0x11 != 0

/-- the formatter's inputs at Level 1 / 1.5 for default region `region` -/
def pageInX (region pgno subno flags national : Nat) (e : ExtIn) (raw : Nat → Nat) : PageIn :=
  if ownExt e then
    { pgno := pgno, subno := subno, flags := flags, national := national, charset0 := e.cs0, charset1 := e.cs1,
      fgClut := e.fgClut, bgClut := e.bgClut, raw := raw }
  else
    { pgno := pgno, subno := subno, flags := flags, national := national, charset0 := region, charset1 := 0,
      fgClut := 0, bgClut := 0, raw := raw }

end Zvbi.Fmt
