import ZvbiModel.Fmt.LemmasStd
/-!
# Helper lemmas for C02, part 7: the standard's and libzvbi's held-mosaic readings agree cell by cell
* wherever the standard does not show the blank held mosaic (`cell_eq_of_rel`), and
* in every cell up to (and including) the first column of its row that changes alpha/mosaics mode or size
  (`cell_eq_upto`), whatever happens further right or in other rows.
-/
namespace Zvbi.Fmt
open L1Spec

theorem cell_eq_of_rel (a b : Cell) (h : HeldRel a b) (hb : b.unicode ≠ 0xEE20) : a = b := by
  obtain ⟨h1, h2, h3, h4, h5, h6, h7⟩ := h
  cases a; cases b
  simp only [Cell.mk.injEq]
  simp only [] at h1 h2 h3 h4 h5 h6 h7 hb
  rcases h7 with h7 | h7
  · exact ⟨h7, h1, h2, h3, h4, h5, h6⟩
  · exact absurd h7 hb

/-- every change of mode / size at the columns `0..c` happens before any mosaic character of the row was captured
    (so there is no stale held mosaic the standard would have to blank) -/
def ResetBeforeCapture (cx : RowCtx) (c : Nat) : Prop :=
  ∀ j, j ≤ c → (heldResetAfter cx j = true ∨ heldResetAt cx j = true) → ∀ i, i ≤ j → heldCapture cx i = none

/-- no mode / size change at the columns `0..c` of the row (a special case) -/
def NoResetUpto (cx : RowCtx) (c : Nat) : Prop :=
  ∀ j, j ≤ c → heldResetAfter cx j = false ∧ heldResetAt cx j = false

theorem NoResetUpto.rbc {cx : RowCtx} {c : Nat} (h : NoResetUpto cx c) : ResetBeforeCapture cx c := by
  intro j hj hr
  have := h j hj
  rcases hr with hr | hr
  · rw [this.1] at hr; cases hr
  · rw [this.2] at hr; cases hr

theorem ResetBeforeCapture.mono {cx : RowCtx} {c c' : Nat} (h : ResetBeforeCapture cx c) (hc : c' ≤ c) :
    ResetBeforeCapture cx c' := fun j hj => h j (by omega)

/-- before any capture both rules hold the blank mosaic -/
theorem heldBefore_blank (cx : RowCtx) (r : HeldRule) (c : Nat) (h : ∀ i, i < c → heldCapture cx i = none) :
    attrBefore (heldWAt cx r) (heldWAfter cx r) 0xEE20 c = 0xEE20 := by
  induction c with
  | zero => rfl
  | succ c ih =>
    rw [attrBefore_step, ih (fun i hi => h i (by omega))]
    have hc := h c (by omega)
    cases r with
    | lib => simp [heldWAt, heldWAfter, hc]
    | std =>
      simp only [heldWAt, heldWAfter, hc]
      split <;> split <;> rfl

theorem heldBefore_eq_of_rbc (cx : RowCtx) (c : Nat)
    (h : ∀ j, j < c → (heldResetAfter cx j = true ∨ heldResetAt cx j = true) → ∀ i, i ≤ j → heldCapture cx i = none) :
    attrBefore (heldWAt cx .std) (heldWAfter cx .std) 0xEE20 c = attrBefore (heldWAt cx .lib) (heldWAfter cx .lib) 0xEE20 c := by
  induction c with
  | zero => rfl
  | succ c ih =>
    by_cases hr : heldResetAfter cx c = true ∨ heldResetAt cx c = true
    · have hn := h c (by omega) hr
      rw [heldBefore_blank cx .std (c + 1) (fun i hi => hn i (by omega)),
        heldBefore_blank cx .lib (c + 1) (fun i hi => hn i (by omega))]
    · have h1 : heldResetAfter cx c = false := by
        cases hx : heldResetAfter cx c with
        | false => rfl
        | true => exact absurd (Or.inl hx) hr
      have h2 : heldResetAt cx c = false := by
        cases hx : heldResetAt cx c with
        | false => rfl
        | true => exact absurd (Or.inr hx) hr
      rw [attrBefore_step, attrBefore_step, ih (fun j hj => h j (by omega))]
      simp [heldWAt, heldWAfter, h1, h2]

theorem charAt_eq_of_rbc (cx : RowCtx) (c : Nat) (h : ResetBeforeCapture cx c) :
    charAt cx .std c = charAt cx .lib c := by
  unfold charAt heldAt
  rw [attrAt_eq, attrAt_eq]
  cases hx : heldResetAt cx c with
  | false =>
    rw [heldBefore_eq_of_rbc cx c (fun j hj => h j (by omega))]
    simp [heldWAt, hx]
  | true =>
    have hn := h c (Nat.le_refl c) (Or.inr hx)
    rw [heldBefore_blank cx .lib c (fun i hi => hn i (by omega))]
    simp [heldWAt, hx]

theorem rowCell_eq_of_rbc (cx : RowCtx) (c : Nat) (h : ResetBeforeCapture cx c) : rowCell cx .std c = rowCell cx .lib c := by
  unfold rowCell baseCell
  rw [charAt_eq_of_rbc cx c h, charAt_eq_of_rbc cx (c - 1) (h.mono (by omega))]

/-- the row whose codes decide the cells of row `r`: the row above for the lower half of a double-height row -/
def srcRow (p : PageIn) (r : Nat) : Nat := if isLower p r then r - 1 else r

theorem cell_eq_of_rbc (p : PageIn) (r c : Nat) (h : ResetBeforeCapture (rowCtx p (srcRow p r)) c) :
    cell .std p r c = cell .lib p r c := by
  unfold cell cellCx
  unfold srcRow at h
  split
  · rename_i hl
    rw [if_pos hl] at h
    exact lowerCell_congr _ _ c (rowCell_eq_of_rbc _ c h) (rowCell_eq_of_rbc _ (c - 1) (h.mono (by omega)))
  · rename_i hl
    rw [if_neg hl] at h
    exact rowCell_eq_of_rbc _ c h

end Zvbi.Fmt
