import ZvbiModel.Fmt.LemmasHdr
import ZvbiModel.Fmt.Ext
/-!
# Helper lemmas for C02, part 9: the ESC (0x1B) "G0 switch" spacing attribute

teletext.c `vbi_format_vt_page` keeps `esc` / `font` per row (`font = pg->font[0]; esc = 0;` at the start of every
row, `font = pg->font[esc ^= 1]` in the set-after switch).  `escCount` counts the ESC codes of one row before a
column; a *plain* cell (not lower half, not covered, printable code not shown as a mosaic) displays its code through
the first / second G0 set according to the parity of that count.
-/
namespace Zvbi.Fmt
open L1Spec

/-- number of ESC (0x1B) codes in columns `0 .. c-1` of a row whose codes are `code` -/
def escCount (code : Nat → Nat) (c : Nat) : Nat := ((List.range c).filter (fun j => code j = 0x1B)).length

/-- the same count restricted to columns `lo .. c-1` -/
def escCountFrom (lo : Nat) (code : Nat → Nat) (c : Nat) : Nat :=
  ((List.range c).filter (fun j => decide (lo ≤ j) && decide (code j = 0x1B))).length

theorem escAt_eq_count (cx : RowCtx) (c : Nat) : escAt cx c = decide (escCount cx.code c % 2 = 1) := rfl

/-- the G0 set in force at column `c` of a row with context `cx`: first set after an even number of ESC codes -/
def g0At (cx : RowCtx) (c : Nat) : Font := if escCount cx.code c % 2 = 1 then cx.font1 else cx.font0

/-- a cell that shows its own byte as a character of a G0 set: the row is not the lower half of a double-height row,
    the cell is not the right half of a double-width character, the code is printable and either the row is in
    alphanumerics mode at that column or the code has bit 5 clear (0x40..0x5F: "blast-through" capitals) -/
structure PlainCell (p : PageIn) (row col : Nat) : Prop where
  upper : isLower p row = false
  uncovered : covered (rowCtx p row) col = false
  printable : 0x20 ≤ codeAt p row col
  alpha : mosaicAt (rowCtx p row) col = false ∨ codeAt p row col &&& 0x20 = 0

theorem codeAt_lt (p : PageIn) (h1 : 0x100 ≤ p.pgno) (h2 : p.pgno < 0x1000) (row col : Nat) : codeAt p row col < 0x80 := by
  unfold codeAt
  split
  · rename_i h
    have := codeAt_hdr p col h.2 h1 h2
    rw [hdrBuf_eq _ _ h1 h2]
    have hl : (hdrCodes p.pgno p.subno).length = 8 := rfl
    rw [List.getD_eq_getElem?_getD, List.getElem?_append_left (by omega)]
    have hd : ∀ d, hexDigit d < 0x80 ∨ True := fun _ => Or.inr trivial
    have hc8 : col = 0 ∨ col = 1 ∨ col = 2 ∨ col = 3 ∨ col = 4 ∨ col = 5 ∨ col = 6 ∨ col = 7 := by omega
    have hx : ∀ d, d < 16 → hexDigit d < 0x80 := by
      intro d hd; unfold hexDigit; split <;> omega
    have a1 : p.pgno / 256 < 16 := by omega
    have a2 : p.pgno / 16 % 16 < 16 := by omega
    have a3 : p.pgno % 16 < 16 := by omega
    have a4 : (p.subno &&& 0xff) / 16 < 16 := by
      have : p.subno &&& 0xff ≤ 0xff := Nat.and_le_right
      omega
    have a5 : (p.subno &&& 0xff) % 16 < 16 := by omega
    rcases hc8 with rfl | rfl | rfl | rfl | rfl | rfl | rfl | rfl <;> simp [hdrCodes]
    · exact hx _ a1
    · exact hx _ a2
    · exact hx _ a3
    · exact hx _ a4
    · exact hx _ a5
  · unfold Zvbi.Hamm.unpar8
    split
    · rename_i v hv
      split at hv
      · cases hv
        have : p.raw (40 * row + col) &&& 127 ≤ 127 := Nat.and_le_right
        omega
      · cases hv
    · decide

/-- the character of a plain cell -/
theorem plain_unicode (p : PageIn) (row col : Nat) (hr : row < 25) (hc : col < 40) (h : PlainCell p row col) :
    (cellAt (format p) row col).unicode
      = teletextUnicode (g0At (rowCtx p row) col).g0 (g0At (rowCtx p row) col).subset (codeAt p row col) := by
  obtain ⟨hu, hcov, hk, hm⟩ := h
  rw [format_cellAt p row col hr hc]
  unfold cell cellCx
  rw [hu]
  simp only [Bool.false_eq_true, if_false]
  have hcode : (rowCtx p row).code col = codeAt p row col := rfl
  have hch : (baseCell (rowCtx p row) .lib col).unicode
      = teletextUnicode (g0At (rowCtx p row) col).g0 (g0At (rowCtx p row) col).subset (codeAt p row col) := by
    show charAt (rowCtx p row) .lib col = _
    unfold charAt
    simp only [hcode]
    have h1 : ¬ codeAt p row col ≤ 0x1F := by omega
    rw [if_neg h1]
    have h2 : ¬ ((mosaicAt (rowCtx p row) col && (codeAt p row col &&& 0x20 != 0)) = true) := by
      rcases hm with hm | hm
      · simp [hm]
      · simp [hm]
    rw [if_neg h2]
    unfold g0At
    rw [escAt_eq_count]
    by_cases he : escCount (rowCtx p row).code col % 2 = 1
    · simp [he]
    · simp [he]
  unfold rowCell
  rw [hcov]
  simp only [Bool.false_eq_true, if_false]
  split
  · exact hch
  · exact hch

/-- the codes of row 0, columns 0..7 (the library's own page number text) contain no ESC -/
theorem hdr_no_esc (p : PageIn) (h1 : 0x100 ≤ p.pgno) (h2 : p.pgno < 0x1000) (j : Nat) (hj : j < 8) :
    codeAt p 0 j ≠ 0x1B := by
  have hcode := codeAt_hdr p j hj h1 h2
  have hcl := hdrCodes_class p.pgno p.subno j hj
  have : codeAt p 0 j = (hdrCodes p.pgno p.subno).getD j 0 := hcode
  rw [this]
  omega

theorem escCount_hdr (p : PageIn) (h1 : 0x100 ≤ p.pgno) (h2 : p.pgno < 0x1000) (c : Nat) :
    escCount (codeAt p 0) c = escCountFrom 8 (codeAt p 0) c := by
  unfold escCount escCountFrom
  congr 1
  apply List.filter_congr
  intro j _
  by_cases hj : 8 ≤ j
  · simp [hj]
  · have := hdr_no_esc p h1 h2 j (by omega)
    simp [hj, this]

/-- `escCount` only looks at the codes before the column -/
theorem escCount_congr (f g : Nat → Nat) (c : Nat) (h : ∀ j, j < c → f j = g j) : escCount f c = escCount g c := by
  unfold escCount
  congr 1
  apply List.filter_congr
  intro j hj
  rw [h j (List.mem_range.mp hj)]

theorem escCount_zero_of_none (f : Nat → Nat) (c : Nat) (h : ∀ j, j < c → f j ≠ 0x1B) : escCount f c = 0 := by
  unfold escCount
  rw [List.length_eq_zero_iff, List.filter_eq_nil_iff]
  intro j hj
  simp [h j (List.mem_range.mp hj)]

/-- `character_set_designation`, one loop iteration, read as three cases -/
theorem charsetDesignation_cases (code national : Nat) :
    charsetDesignation code national =
      if validCharset (code / 8 * 8 + national) then code / 8 * 8 + national
      else if validCharset code then code else 0 := by
  unfold charsetDesignation
  simp only

/-- witness for the seeded change C02-h: national option 6 under default region 16, rows 1 and 2 both
    `$ @ ESC $ @` (odd parity bytes 0xA4 0x40 0x9B 0xA4 0x40), everything else blank -/
def escWitness : PageIn :=
  { pgno := 0x150, subno := 0, flags := 0, national := 6, charset0 := 16, charset1 := 0,
    raw := fun i =>
      if i = 40 ∨ i = 80 then 0xA4 else if i = 41 ∨ i = 81 then 0x40 else if i = 42 ∨ i = 82 then 0x9B
      else if i = 43 ∨ i = 83 then 0xA4 else if i = 44 ∨ i = 84 then 0x40 else 0x20 }

end Zvbi.Fmt
