import ZvbiModel.Fmt.LemmasCells
/-!
# Helper lemmas for C02, part 5: the double-height lower row and the row loop with its row skipping
-/
namespace Zvbi.Fmt
open L1Spec

theorem formatRow_dh (cx : RowCtx) : (formatRow cx).2 = hasDH cx := by
  simp only [formatRow, doubleHeight_inv, hasDH]

theorem rowCell_size3 (cx : RowCtx) (h : HeldRule) (c : Nat) (hc : c < 40) (h3 : (rowCell cx h c).size = 3) :
    c < 39 ∧ (rowCell cx h (c + 1)).size = 4 := by
  unfold rowCell at h3
  cases hcov : covered cx c
  · simp only [hcov, Bool.false_eq_true, if_false] at h3
    by_cases h39 : sizeAt cx c % 2 = 1 ∧ c = 39
    · obtain ⟨ho, rfl⟩ := h39
      simp [ho] at h3
    · simp only [h39, if_false, baseCell] at h3
      have hodd : sizeAt cx c % 2 = 1 := by omega
      have hc39 : c < 39 := by
        rcases Nat.lt_or_ge c 39 with h | h
        · exact h
        · exact absurd ⟨hodd, by omega⟩ h39
      refine ⟨hc39, ?_⟩
      have : covered cx (c + 1) = true := by rw [covered_succ, hcov]; simp [hodd]
      simp [rowCell, this]
  · simp [hcov] at h3

/-- `lowerRow` on the suffix of a row starting at absolute column `k` -/
theorem lowerRow_spec (u : Nat → Cell) : ∀ (n : Nat) (l : List Cell) (k : Nat), l.length = n →
    (∀ i, i < l.length → l[i]? = some (u (k + i))) →
    (k = 0 ∨ (u (k - 1)).size ≠ 3) →
    (∀ i, i + 1 < l.length → (u (k + i)).size = 3 → (u (k + i + 1)).size = 4) →
    ∀ i, i < l.length → (lowerRow l)[i]? = some (lowerCell u (k + i)) := by
  intro n
  induction n using Nat.strongRecOn with
  | _ n ih =>
    intro l k hlen hl hprev hH i hi
    have single : ∀ c : Cell, c = u k →
        (if c.size = 2 then ({ c with size := 6 } : Cell) else if c.size = 3 then { c with size := 7 }
          else { c with size := 0, unicode := 0x20 }) = lowerCell u k := by
      intro c hc
      subst hc
      unfold lowerCell
      by_cases h2 : (u k).size = 2
      · simp [h2]
      · by_cases h3 : (u k).size = 3
        · simp [h3]
        · have : ¬ (0 < k ∧ (u (k - 1)).size = 3) := by
            rcases hprev with h | h
            · omega
            · exact fun hh => h hh.2
          simp [h2, h3, this]
    match l, hlen, hl, hH, hi with
    | [], _, _, _, hi => simp at hi
    | [c], _, hl, _, hi =>
      have hi0 : i = 0 := by simpa using hi
      subst hi0
      have hc : c = u k := by simpa using hl 0 (by simp)
      have := single c hc
      unfold lowerRow
      by_cases h2 : c.size = 2
      · simp only [h2, if_true] at this ⊢; simp [this]
      · by_cases h3 : c.size = 3
        · simp only [h3, if_true] at this ⊢; simpa using this
        · simp only [h2, h3, if_false] at this ⊢; simp [this]
    | c :: d :: rest, hlen, hl, hH, hi =>
      have hc : c = u k := by simpa using hl 0 (by simp)
      have hd : d = u (k + 1) := by simpa using hl 1 (by simp)
      have htail : ∀ j, j < (d :: rest).length → (d :: rest)[j]? = some (u (k + 1 + j)) := by
        intro j hj
        have := hl (j + 1) (by simp at hj ⊢; omega)
        simpa [Nat.add_assoc, Nat.add_comm 1 j] using this
      have hHtail : ∀ j, j + 1 < (d :: rest).length → (u (k + 1 + j)).size = 3 → (u (k + 1 + j + 1)).size = 4 := by
        intro j hj h3
        have := hH (j + 1) (by simp at hj ⊢; omega) (by simpa [Nat.add_assoc, Nat.add_comm 1 j] using h3)
        simpa [Nat.add_assoc, Nat.add_comm 1 j] using this
      have hsingle := single c hc
      unfold lowerRow
      by_cases h2 : c.size = 2
      · simp only [h2, if_true] at hsingle ⊢
        cases i with
        | zero => simp [hsingle]
        | succ j =>
          rw [List.getElem?_cons_succ]
          have := ih (d :: rest).length (by simp at hlen ⊢; omega) (d :: rest) (k + 1) rfl htail
            (Or.inr (by simp; rw [← hc, h2]; decide)) hHtail j (by simp at hi ⊢; omega)
          simpa [Nat.add_assoc, Nat.add_comm 1 j] using this
      · by_cases h3 : c.size = 3
        · rw [if_neg h2, if_pos h3] at hsingle
          rw [if_neg h2, if_pos h3]
          have hd4 : (u (k + 1)).size = 4 := by
            have := hH 0 (by simp) (by simpa [← hc] using h3)
            simpa using this
          cases i with
          | zero => simpa using hsingle
          | succ j =>
            rw [List.getElem?_cons_succ]
            cases j with
            | zero =>
              simp only [List.getElem?_cons_zero, Option.some.injEq]
              unfold lowerCell
              have h3' : (u k).size = 3 := by rw [← hc]; exact h3
              simp [hd4, h3', hc]
            | succ m =>
              rw [List.getElem?_cons_succ]
              have hrest : ∀ j, j < rest.length → rest[j]? = some (u (k + 2 + j)) := by
                intro j hj
                have := hl (j + 2) (by simp; omega)
                simpa [Nat.add_assoc, Nat.add_comm 2 j] using this
              have hHrest : ∀ j, j + 1 < rest.length → (u (k + 2 + j)).size = 3 → (u (k + 2 + j + 1)).size = 4 := by
                intro j hj h3
                have := hH (j + 2) (by simp; omega) (by simpa [Nat.add_assoc, Nat.add_comm 2 j] using h3)
                simpa [Nat.add_assoc, Nat.add_comm 2 j] using this
              have := ih rest.length (by simp at hlen; omega) rest (k + 2) rfl hrest
                (Or.inr (by simp; rw [hd4]; decide)) hHrest m (by simp at hi; omega)
              have e : k + 2 + m = k + (m + 1 + 1) := by omega
              rw [e] at this
              exact this
        · simp only [h2, h3, if_false] at hsingle ⊢
          cases i with
          | zero => simp [hsingle]
          | succ j =>
            rw [List.getElem?_cons_succ]
            have := ih (d :: rest).length (by simp at hlen ⊢; omega) (d :: rest) (k + 1) rfl htail
              (Or.inr (by simp; rw [← hc]; exact h3)) hHtail j (by simp at hi ⊢; omega)
            simpa [Nat.add_assoc, Nat.add_comm 1 j] using this

/-- the 41 cells of a formatted row as a function of the column -/
def rowFun (cx : RowCtx) (i : Nat) : Cell := if i < 40 then rowCell cx .lib i else (initRow cx).cell

theorem formatRow_cells (cx : RowCtx) (i : Nat) (hi : i < 41) : (formatRow cx).1[i]? = some (rowFun cx i) := by
  unfold rowFun formatRow
  by_cases h : i < 40
  · simp only [h, if_true]; exact acp_eq_rowCell cx i h
  · have : i = 40 := by omega
    subst this
    simp only [Nat.lt_irrefl, if_false]; exact acp_40 cx 40 (Nat.le_refl _)

theorem formatRow_length (cx : RowCtx) : (formatRow cx).1.length = 41 := acp_length cx 40

theorem lower_cells (cx : RowCtx) (c : Nat) (hc : c < 40) :
    (lowerRow (formatRow cx).1)[c]? = some (lowerCell (rowCell cx .lib) c) := by
  have H : ∀ i, i + 1 < (formatRow cx).1.length → (rowFun cx (0 + i)).size = 3 → (rowFun cx (0 + i + 1)).size = 4 := by
    intro i hi h3
    rw [formatRow_length] at hi
    have hi40 : i < 40 := by omega
    simp only [Nat.zero_add, rowFun, hi40, if_true] at h3 ⊢
    have := rowCell_size3 cx .lib i hi40 h3
    have h2 : i + 1 < 40 := by omega
    simp only [h2, if_true]; exact this.2
  have := lowerRow_spec (rowFun cx) 41 (formatRow cx).1 0 (formatRow_length cx)
    (fun i hi => by rw [Nat.zero_add]; exact formatRow_cells cx i (by rw [formatRow_length] at hi; exact hi))
    (Or.inl rfl) H c (by rw [formatRow_length]; omega)
  rw [this, Nat.zero_add]
  congr 1
  unfold lowerCell rowFun
  have h1 : c - 1 < 40 := by omega
  simp only [hc, h1, if_true]

theorem formatFrom_spec (p : PageIn) : ∀ (fuel row : Nat), 25 ≤ row + fuel → isLower p row = false →
    ∀ r c, row ≤ r → r < 25 → c < 40 →
      ((formatFrom p fuel row)[r - row]?).bind (fun l => l[c]?) = some (cell .lib p r c) := by
  intro fuel
  induction fuel with
  | zero => intro row h _ r c h1 h2 _; omega
  | succ fuel ih =>
    intro row hf hlow r c hr hr25 hc
    unfold formatFrom
    have hrow : ¬ row ≥ 25 := by omega
    simp only [hrow, if_false]
    have hnext : isLower p (row + 1) = hasDH (rowCtx p row) := by simp [isLower, hlow]
    by_cases hdh : (formatRow (rowCtx p row)).2 = true
    · simp only [hdh, if_true]
      have hdh' : hasDH (rowCtx p row) = true := by rw [← formatRow_dh]; exact hdh
      rcases Nat.lt_or_ge r (row + 1) with h | h
      · have : r = row := by omega
        subst this
        simp only [Nat.sub_self, List.getElem?_cons_zero, Option.bind_some, formatRow_cells _ c (by omega), rowFun, hc,
          if_true, cell, cellCx, hlow, Bool.false_eq_true, if_false]
      · rcases Nat.lt_or_ge r (row + 2) with h' | h'
        · have : r = row + 1 := by omega
          subst this
          have e : row + 1 - row = 0 + 1 := by omega
          rw [e, List.getElem?_cons_succ, List.getElem?_cons_zero]
          simp only [Option.bind_some, lower_cells _ c hc, cell, cellCx, hnext, hdh', if_true, Nat.add_sub_cancel]
        · have e : r - row = (r - (row + 2)) + 1 + 1 := by omega
          rw [e, List.getElem?_cons_succ, List.getElem?_cons_succ]
          have hl2 : isLower p (row + 2) = false := by
            show isLower p (row + 1 + 1) = false
            rw [isLower, hnext, hdh']; rfl
          exact ih (row + 2) (by omega) hl2 r c h' hr25 hc
    · have hdhf : (formatRow (rowCtx p row)).2 = false := by simpa using hdh
      simp only [hdhf, Bool.false_eq_true, if_false]
      have hdh' : hasDH (rowCtx p row) = false := by rw [← formatRow_dh]; exact hdhf
      rcases Nat.lt_or_ge r (row + 1) with h | h
      · have : r = row := by omega
        subst this
        simp only [Nat.sub_self, List.getElem?_cons_zero, Option.bind_some, formatRow_cells _ c (by omega), rowFun, hc,
          if_true, cell, cellCx, hlow, Bool.false_eq_true, if_false]
      · have e : r - row = (r - (row + 1)) + 1 := by omega
        rw [e, List.getElem?_cons_succ]
        exact ih (row + 1) (by omega) (by rw [hnext, hdh']) r c h hr25 hc

/-- every cell of the formatted page is the L1Spec cell (libzvbi's held-mosaic reading) -/
theorem format_cellAt (p : PageIn) (r c : Nat) (hr : r < 25) (hc : c < 40) :
    cellAt (format p) r c = cell .lib p r c := by
  have := formatFrom_spec p 25 0 (by omega) rfl r c (Nat.zero_le _) hr hc
  unfold cellAt format
  rw [Nat.sub_zero] at this
  rw [List.getD_eq_getElem?_getD]
  cases hrow : (formatFrom p 25 0)[r]? with
  | none => simp [hrow] at this
  | some l =>
    simp only [hrow, Option.bind_some] at this
    rw [List.getD_eq_getElem?_getD, hrow, Option.getD_some, this, Option.getD_some]

end Zvbi.Fmt
