import ZvbiModel.Fmt.LemmasAttr
/-!
# Helper lemmas for C02, part 2: views of the four phases of one column step, and of `stepCol`
-/
namespace Zvbi.Fmt
open L1Spec

/-! ## fields a phase does not touch (generated list) -/
@[simp] theorem setAt_unicode (cx : RowCtx) (s : RowSt) (raw : Nat) : (setAt cx s raw).unicode = s.unicode := by
  simp only [setAt, apply_ite RowSt.unicode, ite_self]

@[simp] theorem setAt_fg (cx : RowCtx) (s : RowSt) (raw : Nat) : (setAt cx s raw).fg = s.fg := by
  simp only [setAt, apply_ite RowSt.fg, ite_self]

@[simp] theorem setAt_opacity (cx : RowCtx) (s : RowSt) (raw : Nat) : (setAt cx s raw).opacity = s.opacity := by
  simp only [setAt, apply_ite RowSt.opacity, ite_self]

@[simp] theorem setAt_held (cx : RowCtx) (s : RowSt) (raw : Nat) : (setAt cx s raw).held = s.held := by
  simp only [setAt, apply_ite RowSt.held, ite_self]

@[simp] theorem setAt_esc (cx : RowCtx) (s : RowSt) (raw : Nat) : (setAt cx s raw).esc = s.esc := by
  simp only [setAt, apply_ite RowSt.esc, ite_self]

@[simp] theorem setAt_mosaic (cx : RowCtx) (s : RowSt) (raw : Nat) : (setAt cx s raw).mosaic = s.mosaic := by
  simp only [setAt, apply_ite RowSt.mosaic, ite_self]

@[simp] theorem setAt_doubleHeight (cx : RowCtx) (s : RowSt) (raw : Nat) : (setAt cx s raw).doubleHeight = s.doubleHeight := by
  simp only [setAt, apply_ite RowSt.doubleHeight, ite_self]

@[simp] theorem setAt_wideChar (cx : RowCtx) (s : RowSt) (raw : Nat) : (setAt cx s raw).wideChar = s.wideChar := by
  simp only [setAt, apply_ite RowSt.wideChar, ite_self]

@[simp] theorem setAt_acp (cx : RowCtx) (s : RowSt) (raw : Nat) : (setAt cx s raw).acp = s.acp := by
  simp only [setAt, apply_ite RowSt.acp, ite_self]

@[simp] theorem charStep_fg (cx : RowCtx) (s : RowSt) (raw : Nat) : (charStep cx s raw).fg = s.fg := by
  simp only [charStep, apply_ite RowSt.fg, ite_self]

@[simp] theorem charStep_bg (cx : RowCtx) (s : RowSt) (raw : Nat) : (charStep cx s raw).bg = s.bg := by
  simp only [charStep, apply_ite RowSt.bg, ite_self]

@[simp] theorem charStep_flash (cx : RowCtx) (s : RowSt) (raw : Nat) : (charStep cx s raw).flash = s.flash := by
  simp only [charStep, apply_ite RowSt.flash, ite_self]

@[simp] theorem charStep_conceal (cx : RowCtx) (s : RowSt) (raw : Nat) : (charStep cx s raw).conceal = s.conceal := by
  simp only [charStep, apply_ite RowSt.conceal, ite_self]

@[simp] theorem charStep_size (cx : RowCtx) (s : RowSt) (raw : Nat) : (charStep cx s raw).size = s.size := by
  simp only [charStep, apply_ite RowSt.size, ite_self]

@[simp] theorem charStep_opacity (cx : RowCtx) (s : RowSt) (raw : Nat) : (charStep cx s raw).opacity = s.opacity := by
  simp only [charStep, apply_ite RowSt.opacity, ite_self]

@[simp] theorem charStep_mosaicUnicodes (cx : RowCtx) (s : RowSt) (raw : Nat) : (charStep cx s raw).mosaicUnicodes = s.mosaicUnicodes := by
  simp only [charStep, apply_ite RowSt.mosaicUnicodes, ite_self]

@[simp] theorem charStep_esc (cx : RowCtx) (s : RowSt) (raw : Nat) : (charStep cx s raw).esc = s.esc := by
  simp only [charStep, apply_ite RowSt.esc, ite_self]

@[simp] theorem charStep_hold (cx : RowCtx) (s : RowSt) (raw : Nat) : (charStep cx s raw).hold = s.hold := by
  simp only [charStep, apply_ite RowSt.hold, ite_self]

@[simp] theorem charStep_mosaic (cx : RowCtx) (s : RowSt) (raw : Nat) : (charStep cx s raw).mosaic = s.mosaic := by
  simp only [charStep, apply_ite RowSt.mosaic, ite_self]

@[simp] theorem charStep_doubleHeight (cx : RowCtx) (s : RowSt) (raw : Nat) : (charStep cx s raw).doubleHeight = s.doubleHeight := by
  simp only [charStep, apply_ite RowSt.doubleHeight, ite_self]

@[simp] theorem charStep_wideChar (cx : RowCtx) (s : RowSt) (raw : Nat) : (charStep cx s raw).wideChar = s.wideChar := by
  simp only [charStep, apply_ite RowSt.wideChar, ite_self]

@[simp] theorem charStep_acp (cx : RowCtx) (s : RowSt) (raw : Nat) : (charStep cx s raw).acp = s.acp := by
  simp only [charStep, apply_ite RowSt.acp, ite_self]

@[simp] theorem emit_unicode (s : RowSt) (col : Nat) : (emit s col).unicode = s.unicode := by
  simp only [emit, apply_ite RowSt.unicode, ite_self]

@[simp] theorem emit_fg (s : RowSt) (col : Nat) : (emit s col).fg = s.fg := by
  simp only [emit, apply_ite RowSt.fg, ite_self]

@[simp] theorem emit_bg (s : RowSt) (col : Nat) : (emit s col).bg = s.bg := by
  simp only [emit, apply_ite RowSt.bg, ite_self]

@[simp] theorem emit_flash (s : RowSt) (col : Nat) : (emit s col).flash = s.flash := by
  simp only [emit, apply_ite RowSt.flash, ite_self]

@[simp] theorem emit_conceal (s : RowSt) (col : Nat) : (emit s col).conceal = s.conceal := by
  simp only [emit, apply_ite RowSt.conceal, ite_self]

@[simp] theorem emit_size (s : RowSt) (col : Nat) : (emit s col).size = s.size := by
  simp only [emit, apply_ite RowSt.size, ite_self]

@[simp] theorem emit_opacity (s : RowSt) (col : Nat) : (emit s col).opacity = s.opacity := by
  simp only [emit, apply_ite RowSt.opacity, ite_self]

@[simp] theorem emit_mosaicUnicodes (s : RowSt) (col : Nat) : (emit s col).mosaicUnicodes = s.mosaicUnicodes := by
  simp only [emit, apply_ite RowSt.mosaicUnicodes, ite_self]

@[simp] theorem emit_held (s : RowSt) (col : Nat) : (emit s col).held = s.held := by
  simp only [emit, apply_ite RowSt.held, ite_self]

@[simp] theorem emit_esc (s : RowSt) (col : Nat) : (emit s col).esc = s.esc := by
  simp only [emit, apply_ite RowSt.esc, ite_self]

@[simp] theorem emit_hold (s : RowSt) (col : Nat) : (emit s col).hold = s.hold := by
  simp only [emit, apply_ite RowSt.hold, ite_self]

@[simp] theorem emit_mosaic (s : RowSt) (col : Nat) : (emit s col).mosaic = s.mosaic := by
  simp only [emit, apply_ite RowSt.mosaic, ite_self]

@[simp] theorem emit_doubleHeight (s : RowSt) (col : Nat) : (emit s col).doubleHeight = s.doubleHeight := by
  simp only [emit, apply_ite RowSt.doubleHeight, ite_self]

@[simp] theorem setAfter_unicode (cx : RowCtx) (s : RowSt) (raw col : Nat) : (setAfter cx s raw col).unicode = s.unicode := by
  simp only [setAfter, apply_ite RowSt.unicode, ite_self]

@[simp] theorem setAfter_bg (cx : RowCtx) (s : RowSt) (raw col : Nat) : (setAfter cx s raw col).bg = s.bg := by
  simp only [setAfter, apply_ite RowSt.bg, ite_self]

@[simp] theorem setAfter_mosaicUnicodes (cx : RowCtx) (s : RowSt) (raw col : Nat) : (setAfter cx s raw col).mosaicUnicodes = s.mosaicUnicodes := by
  simp only [setAfter, apply_ite RowSt.mosaicUnicodes, ite_self]

@[simp] theorem setAfter_held (cx : RowCtx) (s : RowSt) (raw col : Nat) : (setAfter cx s raw col).held = s.held := by
  simp only [setAfter, apply_ite RowSt.held, ite_self]

@[simp] theorem setAfter_wideChar (cx : RowCtx) (s : RowSt) (raw col : Nat) : (setAfter cx s raw col).wideChar = s.wideChar := by
  simp only [setAfter, apply_ite RowSt.wideChar, ite_self]

@[simp] theorem setAfter_acp (cx : RowCtx) (s : RowSt) (raw col : Nat) : (setAfter cx s raw col).acp = s.acp := by
  simp only [setAfter, apply_ite RowSt.acp, ite_self]

/-! ## fields a phase changes -/

theorem setAt_flash (cx : RowCtx) (s : RowSt) (raw : Nat) :
    (setAt cx s raw).flash = if raw = 0x09 then false else s.flash := by
  simp only [setAt, apply_ite RowSt.flash, ite_self]

theorem setAt_size (cx : RowCtx) (s : RowSt) (raw : Nat) :
    (setAt cx s raw).size = if raw = 0x0C then 0 else s.size := by
  simp only [setAt, apply_ite RowSt.size, ite_self]
  by_cases h : raw = 0xC
  · subst h; simp
  · simp [h]

theorem setAt_conceal (cx : RowCtx) (s : RowSt) (raw : Nat) :
    (setAt cx s raw).conceal = if raw = 0x18 then true else s.conceal := by
  simp only [setAt, apply_ite RowSt.conceal, ite_self]
  by_cases h : raw = 0x18
  · subst h; simp
  · simp [h]

theorem setAt_mosaicUnicodes (cx : RowCtx) (s : RowSt) (raw : Nat) :
    (setAt cx s raw).mosaicUnicodes = if raw = 0x19 then 0xEE20 else if raw = 0x1A then 0xEE00 else s.mosaicUnicodes := by
  simp only [setAt, apply_ite RowSt.mosaicUnicodes, ite_self]
  by_cases h : raw = 0x19
  · subst h; simp
  · by_cases h2 : raw = 0x1A
    · subst h2; simp
    · simp [h, h2]

theorem setAt_bg (cx : RowCtx) (s : RowSt) (raw : Nat) :
    (setAt cx s raw).bg = if raw = 0x1C then cx.bgClut + 0 else if raw = 0x1D then cx.bgClut + (s.fg &&& 7) else s.bg := by
  simp only [setAt, apply_ite RowSt.bg, ite_self]
  by_cases h : raw = 0x1C
  · subst h; simp
  · by_cases h2 : raw = 0x1D
    · subst h2; simp
    · simp [h, h2]

theorem setAt_hold (cx : RowCtx) (s : RowSt) (raw : Nat) :
    (setAt cx s raw).hold = if raw = 0x1E then true else s.hold := by
  simp only [setAt, apply_ite RowSt.hold, ite_self]
  by_cases h : raw = 0x1E
  · subst h; simp
  · simp [h]

theorem charStep_unicode (cx : RowCtx) (s : RowSt) (raw : Nat) :
    (charStep cx s raw).unicode =
      if raw ≤ 0x1F then (if s.hold && s.mosaic then s.held else 0x20)
      else if s.mosaic && (raw &&& 0x20 != 0) then s.mosaicUnicodes + raw - 0x20
      else teletextUnicode (if s.esc then cx.font1 else cx.font0).g0 (if s.esc then cx.font1 else cx.font0).subset raw := by
  simp only [charStep, apply_ite RowSt.unicode]

theorem charStep_held (cx : RowCtx) (s : RowSt) (raw : Nat) :
    (charStep cx s raw).held =
      if ¬ raw ≤ 0x1F ∧ (s.mosaic && (raw &&& 0x20 != 0)) = true then s.mosaicUnicodes + raw - 0x20 else s.held := by
  simp only [charStep, apply_ite RowSt.held]
  by_cases h : raw ≤ 0x1F
  · simp [h]
  · by_cases h2 : (s.mosaic && (raw &&& 0x20 != 0)) = true
    · simp [h, h2]
    · simp [h, h2]

theorem emit_wideChar (s : RowSt) (col : Nat) :
    (emit s col).wideChar = (!s.wideChar && decide (s.size &&& 1 = 1) && decide (col < 39)) := by
  simp only [emit, apply_ite RowSt.wideChar]
  cases hw : s.wideChar <;> by_cases h1 : s.size &&& 1 = 1 <;> by_cases h2 : col < 39 <;> simp [h1, h2]

theorem emit_acp (s : RowSt) (col : Nat) :
    (emit s col).acp =
      if s.wideChar then s.acp
      else if s.size &&& 1 = 1 then
        (if col < 39 then (s.acp.set col s.cell).set (col + 1) { s.cell with size := 4 }
         else s.acp.set col { s.cell with size := 0 })
      else s.acp.set col s.cell := by
  simp only [emit, apply_ite RowSt.acp]

theorem setAfter_fg (cx : RowCtx) (s : RowSt) (raw col : Nat) :
    (setAfter cx s raw col).fg =
      if raw ≤ 7 ∨ (0x10 ≤ raw ∧ raw ≤ 0x17) then cx.fgClut + (raw &&& 7) else s.fg := by
  simp only [setAfter, apply_ite RowSt.fg, ite_self]
  by_cases h1 : raw ≤ 7
  · simp [h1]
  · by_cases h2 : (0x10 ≤ raw ∧ raw ≤ 0x17)
    · have : raw ≠ 8 ∧ raw ≠ 0xA ∧ raw ≠ 0xB ∧ raw ≠ 0xD ∧ raw ≠ 0xE ∧ raw ≠ 0xF := by omega
      simp [h1, h2, this]
    · simp [h1, h2]

theorem setAfter_conceal (cx : RowCtx) (s : RowSt) (raw col : Nat) :
    (setAfter cx s raw col).conceal =
      if raw ≤ 7 ∨ (0x10 ≤ raw ∧ raw ≤ 0x17) then false else s.conceal := by
  simp only [setAfter, apply_ite RowSt.conceal, ite_self]
  by_cases h1 : raw ≤ 7
  · simp [h1]
  · by_cases h2 : (0x10 ≤ raw ∧ raw ≤ 0x17)
    · have : raw ≠ 8 ∧ raw ≠ 0xA ∧ raw ≠ 0xB ∧ raw ≠ 0xD ∧ raw ≠ 0xE ∧ raw ≠ 0xF := by omega
      simp [h1, h2, this]
    · simp [h1, h2]

theorem setAfter_mosaic (cx : RowCtx) (s : RowSt) (raw col : Nat) :
    (setAfter cx s raw col).mosaic =
      if raw ≤ 7 then false else if (0x10 ≤ raw ∧ raw ≤ 0x17) then true else s.mosaic := by
  simp only [setAfter, apply_ite RowSt.mosaic, ite_self]
  by_cases h1 : raw ≤ 7
  · simp [h1]
  · by_cases h2 : (0x10 ≤ raw ∧ raw ≤ 0x17)
    · have : raw ≠ 8 ∧ raw ≠ 0xA ∧ raw ≠ 0xB ∧ raw ≠ 0xD ∧ raw ≠ 0xE ∧ raw ≠ 0xF := by omega
      simp [h1, h2, this]
    · simp [h1, h2]

theorem setAfter_flash (cx : RowCtx) (s : RowSt) (raw col : Nat) :
    (setAfter cx s raw col).flash = if raw = 0x08 then true else s.flash := by
  simp only [setAfter, apply_ite RowSt.flash, ite_self]
  by_cases h : raw = 8
  · subst h; simp
  · simp [h]

theorem setAfter_hold (cx : RowCtx) (s : RowSt) (raw col : Nat) :
    (setAfter cx s raw col).hold = if raw = 0x1F then false else s.hold := by
  simp only [setAfter, apply_ite RowSt.hold, ite_self]
  by_cases h : raw = 0x1F
  · subst h; simp
  · simp [h]

theorem setAfter_esc (cx : RowCtx) (s : RowSt) (raw col : Nat) :
    (setAfter cx s raw col).esc = if raw = 0x1B then !s.esc else s.esc := by
  simp only [setAfter, apply_ite RowSt.esc, ite_self]
  by_cases h : raw = 0x1B
  · subst h; simp
  · simp [h]

theorem setAfter_opacity (cx : RowCtx) (s : RowSt) (raw col : Nat) :
    (setAfter cx s raw col).opacity =
      if raw = 0x0A then (if col < 39 ∧ cx.nxt col = some 0x0A then cx.pageOp else s.opacity)
      else if raw = 0x0B then (if col < 39 ∧ cx.nxt col = some 0x0B then cx.boxedOp else s.opacity)
      else s.opacity := by
  simp only [setAfter, apply_ite RowSt.opacity, ite_self]
  by_cases h : raw = 0xA
  · subst h; simp
  · by_cases h2 : raw = 0xB
    · subst h2; simp
    · simp [h, h2]

theorem setAfter_size (cx : RowCtx) (s : RowSt) (raw col : Nat) :
    (setAfter cx s raw col).size =
      if raw = 0x0D then (if cx.row ≤ 0 ∨ cx.row ≥ 23 then s.size else 2)
      else if raw = 0x0E then (if col < 39 then 1 else s.size)
      else if raw = 0x0F then (if col ≥ 39 ∨ cx.row ≤ 0 ∨ cx.row ≥ 23 then s.size else 3)
      else s.size := by
  simp only [setAfter, apply_ite RowSt.size, ite_self]
  by_cases h : raw = 0xD
  · subst h; simp
  · by_cases h2 : raw = 0xE
    · subst h2; simp
    · by_cases h3 : raw = 0xF
      · subst h3; simp
      · simp [h, h2, h3]

theorem setAfter_doubleHeight (cx : RowCtx) (s : RowSt) (raw col : Nat) :
    (setAfter cx s raw col).doubleHeight =
      if raw = 0x0D then (if cx.row ≤ 0 ∨ cx.row ≥ 23 then s.doubleHeight else true)
      else if raw = 0x0F then (if col ≥ 39 ∨ cx.row ≤ 0 ∨ cx.row ≥ 23 then s.doubleHeight else true)
      else s.doubleHeight := by
  simp only [setAfter, apply_ite RowSt.doubleHeight, ite_self]
  by_cases h : raw = 0xD
  · subst h; simp
  · by_cases h3 : raw = 0xF
    · subst h3; simp
    · simp [h, h3]

end Zvbi.Fmt
