import ZvbiModel.Trig.Lemmas
/-!
# The helpers of trigger.c never read behind the terminating NUL of the string they are given
(`parse_dec`, `parse_hex`, `parse_date`, `parse_time`, `keyword`, the url dissection of parse_eacem), for EVERY string.
-/
namespace Zvbi.Trig

theorem noOob_bind {α β} {x : R α} {f : α → R β} (hx : NoOob x) (hf : ∀ a, x = .ok a → NoOob (f a)) :
    NoOob (x >>= f) := by
  cases x with
  | error e => cases e <;> simp_all [NoOob, bind, Except.bind]
  | ok a => simpa [bind, Except.bind] using hf a rfl

theorem noOob_pure {α} (a : α) : NoOob (pure a : R α) := trivial

theorem cget_ok {site l i} (h : i ≤ l.length) : ∃ c, cget site l i = .ok c ∧ (c ≠ 0 → i < l.length) := by
  unfold cget
  by_cases hi : i < l.length
  · simp [hi]
  · have : i = l.length := by omega
    simp [this]

theorem isDigit_ne_zero {c : Nat} (h : isDigit c = true) : c ≠ 0 := by
  intro h0; subst h0; simp [isDigit] at h

theorem parseDec_spec (site : String) (l : List Nat) :
    ∀ (d off n : Nat), off ≤ l.length →
      ∃ r, parseDec site l off d n = .ok r ∧ (r.isSome → off + d ≤ l.length) := by
  intro d
  induction d with
  | zero => intro off n h; exact ⟨some n, rfl, fun _ => by omega⟩
  | succ d ih =>
    intro off n h
    obtain ⟨c, hc, hlt⟩ := cget_ok (site := site) h
    unfold parseDec
    rw [hc]
    by_cases hd : isDigit c = true
    · simp only [hd, if_true]
      have := hlt (isDigit_ne_zero hd)
      obtain ⟨r, hr, hb⟩ := ih (off + 1) (n * 10 + (c - 48)) (by omega)
      exact ⟨r, hr, fun hs => by have := hb hs; omega⟩
    · simp only [hd, Bool.false_eq_true, if_false]
      exact ⟨none, rfl, fun h => by simp at h⟩

theorem isDigit_le {c : Nat} (h : isDigit c = true) : c - 48 ≤ 9 := by
  simp [isDigit] at h; omega

theorem parseDec_lt (site : String) (l : List Nat) :
    ∀ (d off n v : Nat), parseDec site l off d n = .ok (some v) → v < (n + 1) * 10 ^ d := by
  intro d
  induction d with
  | zero => intro off n v h; simp [parseDec] at h; omega
  | succ d ih =>
    intro off n v h
    unfold parseDec at h
    cases hc : cget site l off with
    | error f => simp [hc] at h
    | ok c =>
      simp only [hc] at h
      by_cases hd : isDigit c = true
      · simp only [hd, if_true] at h
        have := ih (off + 1) (n * 10 + (c - 48)) v h
        have h9 := isDigit_le hd
        calc v < (n * 10 + (c - 48) + 1) * 10 ^ d := this
          _ ≤ ((n + 1) * 10) * 10 ^ d := Nat.mul_le_mul_right _ (by omega)
          _ = (n + 1) * 10 ^ (d + 1) := by rw [Nat.pow_succ, Nat.mul_assoc, Nat.mul_comm 10]
      · simp [hd] at h

theorem parseHex_spec (site : String) (l : List Nat) :
    ∀ (d off n : Nat), off ≤ l.length →
      ∃ r, parseHex site l off d n = .ok r ∧ (r.isSome → off + d ≤ l.length) := by
  intro d
  induction d with
  | zero => intro off n h; exact ⟨some n, rfl, fun _ => by omega⟩
  | succ d ih =>
    intro off n h
    obtain ⟨c, hc, hlt⟩ := cget_ok (site := site) h
    unfold parseHex
    rw [hc]
    by_cases hd : isXDigit c = true
    · simp only [hd, if_true]
      have := hlt (isXDigit_ne_zero hd)
      obtain ⟨r, hr, hb⟩ := ih (off + 1) (n * 16 + hexVal c) (by omega)
      exact ⟨r, hr, fun hs => by have := hb hs; omega⟩
    · simp only [hd, Bool.false_eq_true, if_false]
      exact ⟨none, rfl, fun h => by simp at h⟩

theorem parseDate_noOob (l : List Nat) : NoOob (parseDate l) := by
  unfold parseDate
  obtain ⟨r1, h1, b1⟩ := parseDec_spec "parse_date" l 4 0 0 (by omega)
  rw [h1]
  simp only [bind, Except.bind]
  cases r1 with
  | none => exact noOob_pure _
  | some y =>
  simp only
  obtain ⟨r2, h2, b2⟩ := parseDec_spec "parse_date" l 2 4 0 (by have := b1 rfl; omega)
  rw [h2]
  cases r2 with
  | none => exact noOob_pure _
  | some mo =>
  simp only
  obtain ⟨r3, h3, b3⟩ := parseDec_spec "parse_date" l 2 6 0 (by have := b2 rfl; omega)
  rw [h3]
  cases r3 with
  | none => exact noOob_pure _
  | some d =>
  simp only
  obtain ⟨c8, hc8, hl8⟩ := cget_ok (site := "parse_date") (l := l) (i := 8) (by have := b3 rfl; omega)
  rw [hc8]
  simp only
  by_cases h80 : c8 = 0
  · simp only [h80, if_true]; exact noOob_pure _
  · simp only [h80, if_false]
    by_cases h84 : c8 ≠ 84
    · simp only [h84, if_true, ne_eq, not_false_eq_true]; exact noOob_pure _
    · simp only [h84, if_false]
      obtain ⟨r4, h4, b4⟩ := parseDec_spec "parse_date" l 2 9 0 (by have := hl8 h80; omega)
      rw [h4]
      cases r4 with
      | none => exact noOob_pure _
      | some hh =>
      simp only
      obtain ⟨r5, h5, b5⟩ := parseDec_spec "parse_date" l 2 11 0 (by have := b4 rfl; omega)
      rw [h5]
      cases r5 with
      | none => exact noOob_pure _
      | some mi =>
      simp only
      obtain ⟨c13, hc13, hl13⟩ := cget_ok (site := "parse_date") (l := l) (i := 13) (by have := b5 rfl; omega)
      rw [hc13]
      simp only
      by_cases h130 : c13 = 0
      · simp only [h130, if_true]; exact noOob_pure _
      · simp only [h130, if_false]
        obtain ⟨r6, h6, b6⟩ := parseDec_spec "parse_date" l 2 13 0 (by have := hl13 h130; omega)
        rw [h6]
        cases r6 with
        | none => exact noOob_pure _
        | some sec => exact noOob_pure _

theorem noOob_ovf {α} (s : String) : NoOob (throw (Fault.ovf s) : R α) := trivial

theorem strtoul_end_le (l : List Nat) (base : Nat) : (strtoul l base).2 ≤ l.length := by
  unfold strtoul
  simp only
  split
  · simp
  · exact Nat.sub_le _ _

theorem parseTime_tail_noOob (l : List Nat) (seconds : Int) :
    NoOob (do
      let c ← cget "parse_time" l (strtoul l 10).2
      let fr : Option Nat ← (if c = 0 then pure (some 0) else if c ≠ 70 then pure none
                              else parseDec "parse_time" l ((strtoul l 10).2 + 1) 2 0)
      match fr with
      | none => pure (-1)
      | some frames =>
        if !inI32 (seconds * 25) then throw (.ovf "parse_time") else
        if !inI32 (seconds * 25 + frames) then throw (.ovf "parse_time") else
        pure (seconds * 25 + frames) : R Int) := by
  simp only [bind, Except.bind]
  obtain ⟨c, hc, hlt⟩ := cget_ok (site := "parse_time") (l := l) (i := (strtoul l 10).2) (strtoul_end_le l 10)
  rw [hc]
  simp only
  by_cases h0 : c = 0
  · simp only [h0, if_true, pure, Except.pure]
    split
    · trivial
    · split <;> trivial
  · simp only [h0, if_false]
    by_cases h70 : c ≠ 70
    · simp only [h70, if_true, ne_eq, not_false_eq_true, pure, Except.pure]; trivial
    · simp only [h70, if_false]
      obtain ⟨r, hr, _⟩ := parseDec_spec "parse_time" l 2 ((strtoul l 10).2 + 1) 0 (by have := hlt h0; omega)
      rw [hr]
      simp only
      cases r with
      | none => trivial
      | some fr =>
        simp only
        split
        · trivial
        · split <;> trivial

theorem parseTime_noOob (tm : Option Nat) (l : List Nat) : NoOob (parseTime tm l) := by
  unfold parseTime
  cases tm with
  | none =>
    simp only [Bool.false_eq_true, if_false]
    exact parseTime_tail_noOob l _
  | some m =>
    simp only
    by_cases hm : (strtoul l 10).1 > m
    · simp only [hm, decide_true, if_true]; exact noOob_pure _
    · simp only [hm, decide_false, Bool.false_eq_true, if_false]
      exact parseTime_tail_noOob l _

/-- the relations between loop limits, strlcpy sizes, table counts and the extents which make the parsers safe -/
structure Cfg.BoundsOk (cfg : Cfg) : Prop where
  eUrl : cfg.eUrlLim < cfg.urlSize
  aUrl : cfg.aUrlLim < cfg.urlSize
  eAttr : cfg.eAttrLim + 1 < cfg.eBufSize
  eText : cfg.eTextLim < cfg.eBufSize
  aAttr : cfg.aAttrLim + 1 < cfg.aBufSize
  aText : cfg.aTextLim < cfg.aBufSize
  namePos : 0 < cfg.nameSize
  scriptPos : 0 < cfg.scriptSize
  eName : cfg.eNameN ≤ cfg.nameSize
  aName : cfg.aNameN ≤ cfg.nameSize
  eScript : cfg.eScriptN ≤ cfg.scriptSize
  aScript : cfg.aScriptN ≤ cfg.scriptSize
  eKw : cfg.eKwNum ≤ cfg.eAttrs.length
  aKw : cfg.aKwNum ≤ cfg.aAttrs.length
  aType : cfg.aTypeNum ≤ cfg.typeAttrs.length
  bare : cfg.typeLoopLo + (cfg.typeLoopHi - cfg.typeLoopLo) ≤ cfg.typeAttrs.length
  itv : cfg.itvResetAbove + 1 < cfg.itvBufSize

theorem keywordGo_noOob (site : String) (table : List (List Nat)) (test : List Nat → Bool) :
    ∀ (n i : Nat), i + n ≤ table.length → NoOob (keywordGo site table test i n) := by
  intro n
  induction n with
  | zero => intro i _; trivial
  | succ n ih =>
    intro i h
    unfold keywordGo
    have hi : i < table.length := by omega
    simp only [List.getElem?_eq_getElem hi]
    split
    · trivial
    · exact ih (i + 1) (by omega)

theorem keyword_noOob (site : String) (s : List Nat) (table : List (List Nat)) (num : Nat) (h : num ≤ table.length) :
    NoOob (keyword site s table num) := by
  unfold keyword
  split
  · trivial
  · exact keywordGo_noOob _ _ _ _ _ (by omega)
  · exact keywordGo_noOob _ _ _ _ _ (by omega)

theorem bareType_noOob (cfg : Cfg) (attr : List Nat) :
    ∀ (n i : Nat), i + n ≤ cfg.typeAttrs.length → NoOob (bareType cfg attr i n) := by
  intro n
  induction n with
  | zero => intro i _; trivial
  | succ n ih =>
    intro i h
    unfold bareType
    have hi : i < cfg.typeAttrs.length := by omega
    simp only [List.getElem?_eq_getElem hi]
    split
    · trivial
    · exact ih (i + 1) (by omega)

/-- `strlcpy` + explicit terminator stay inside the array and leave a string that fits with its NUL -/
theorem strlcpyTo_spec (site : String) (size n : Nat) (text : List Nat) (hs : 0 < size) (hn : n ≤ size) :
    ∃ r, strlcpyTo site size n text = .ok r ∧ r.length < size := by
  unfold strlcpyTo
  simp only [bind, Except.bind]
  by_cases h0 : n > 0
  · simp only [h0, if_true]
    rw [store_ok (by omega : min text.length (n - 1) < size), store_ok (by omega : size - 1 < size)]
    refine ⟨_, rfl, ?_⟩
    have : n ≠ 0 := by omega
    simp only [this, if_false, List.length_take]
    omega
  · have : n = 0 := by omega
    subst this
    simp only [Nat.lt_irrefl, if_false, gt_iff_lt]
    rw [store_ok (by omega : size - 1 < size)]
    exact ⟨[], by simp [pure, Except.pure], by simpa using hs⟩

/-- the three strings of the link fit their arrays together with the terminating NUL -/
def LinkOk (cfg : Cfg) (t : Trigger) : Prop :=
  t.link.url.length < cfg.urlSize ∧ t.link.name.length < cfg.nameSize ∧ t.link.script.length < cfg.scriptSize

def GoodT {α} (P : α → Prop) : R (Option α) → Prop
  | .error (.ovf _) => True
  | .error _ => False
  | .ok none => True
  | .ok (some a) => P a

theorem goodT_of_noOob_none {α} {P : α → Prop} {x : R (Option α)} (h : NoOob x) (hn : ∀ a, x ≠ .ok (some a)) : GoodT P x := by
  match x, h, hn with
  | .error (.uaf _), h, _ => exact h.elim
  | .error (.ovf _), _, _ => trivial
  | .ok none, _, _ => trivial
  | .ok (some a), _, hn => exact absurd rfl (hn a)

theorem eacemAttr_good (cfg : Cfg) (hb : cfg.BoundsOk) (now : Int) (t : Trigger) (active : Int) (attr text : List Nat)
    (ht : LinkOk cfg t) : GoodT (fun p => LinkOk cfg p.1) (eacemAttr cfg now t active attr text) := by
  unfold eacemAttr
  simp only [bind, Except.bind]
  have hk := keyword_noOob "keyword:eacem" attr cfg.eAttrs cfg.eKwNum hb.eKw
  revert hk
  generalize keyword "keyword:eacem" attr cfg.eAttrs cfg.eKwNum = kr
  intro hk
  match kr, hk with
  | .error (.uaf _), h => exact h.elim
  | .error (.ovf _), _ => trivial
  | .ok k, _ =>
    simp only
    split
    · have hp := parseTime_noOob cfg.timeMax text
      revert hp; generalize parseTime cfg.timeMax text = pr; intro hp
      match pr, hp with
      | .error (.uaf _), h => exact h.elim
      | .error (.ovf _), _ => trivial
      | .ok a, _ => simp only [pure, Except.pure]; split <;> first | trivial | exact ht
    · have hp := parseTime_noOob cfg.timeMax text
      revert hp; generalize parseTime cfg.timeMax text = pr; intro hp
      match pr, hp with
      | .error (.uaf _), h => exact h.elim
      | .error (.ovf _), _ => trivial
      | .ok a, _ => simp only [pure, Except.pure]; split <;> first | trivial | exact ht
    · exact ht
    · have hp := parseDate_noOob text
      revert hp; generalize parseDate text = pr; intro hp
      match pr, hp with
      | .error (.uaf _), h => exact h.elim
      | .error (.ovf _), _ => trivial
      | .ok a, _ => simp only [pure, Except.pure]; split <;> first | trivial | exact ht
    · obtain ⟨r, hr, hl⟩ := strlcpyTo_spec "name" cfg.nameSize cfg.eNameN text hb.namePos hb.eName
      rw [hr]; exact ⟨ht.1, hl, ht.2.2⟩
    · simp only [pure, Except.pure]; split <;> first | trivial | exact ht
    · obtain ⟨r, hr, hl⟩ := strlcpyTo_spec "script" cfg.scriptSize cfg.eScriptN text hb.scriptPos hb.eScript
      rw [hr]; exact ⟨ht.1, ht.2.1, hl⟩
    · exact ht

theorem atvefAttr_good (cfg : Cfg) (hb : cfg.BoundsOk) (t : Trigger) (attr text : List Nat)
    (ht : LinkOk cfg t) : GoodT (LinkOk cfg) (atvefAttr cfg t attr text) := by
  unfold atvefAttr
  simp only [bind, Except.bind]
  have hk := keyword_noOob "keyword:atvef" attr cfg.aAttrs cfg.aKwNum hb.aKw
  revert hk
  generalize keyword "keyword:atvef" attr cfg.aAttrs cfg.aKwNum = kr
  intro hk
  match kr, hk with
  | .error (.uaf _), h => exact h.elim
  | .error (.ovf _), _ => trivial
  | .ok k, _ =>
    simp only
    split
    · exact ht
    · have hp := parseDate_noOob text
      revert hp; generalize parseDate text = pr; intro hp
      match pr, hp with
      | .error (.uaf _), h => exact h.elim
      | .error (.ovf _), _ => trivial
      | .ok a, _ => simp only [pure, Except.pure]; split <;> first | trivial | exact ht
    · obtain ⟨r, hr, hl⟩ := strlcpyTo_spec "name" cfg.nameSize cfg.aNameN text hb.namePos hb.aName
      rw [hr]; exact ⟨ht.1, hl, ht.2.2⟩
    · obtain ⟨r, hr, hl⟩ := strlcpyTo_spec "script" cfg.scriptSize cfg.aScriptN text hb.scriptPos hb.aScript
      rw [hr]; exact ⟨ht.1, ht.2.1, hl⟩
    · have hp := keyword_noOob "keyword:type" text cfg.typeAttrs cfg.aTypeNum hb.aType
      revert hp; generalize keyword "keyword:type" text cfg.typeAttrs cfg.aTypeNum = pr; intro hp
      match pr, hp with
      | .error (.uaf _), h => exact h.elim
      | .error (.ovf _), _ => trivial
      | .ok a, _ => exact ht
    · have hp := parseDate_noOob text
      revert hp; generalize parseDate text = pr; intro hp
      match pr, hp with
      | .error (.uaf _), h => exact h.elim
      | .error (.ovf _), _ => trivial
      | .ok a, _ => simp only [pure, Except.pure]; split <;> first | trivial | exact ht
    · exact ht
    · exact ht

theorem hasPrefix_len {p l : List Nat} (h : hasPrefix p l = true) : p.length ≤ l.length := by
  unfold hasPrefix at h
  have : (l.take p.length).length = p.length := by
    have := beq_iff_eq.mp h
    rw [this]
  simp only [List.length_take] at this
  omega

theorem linkOk_setType {cfg : Cfg} {t : Trigger} (h : LinkOk cfg t) (ty pg sub nu : Nat) :
    LinkOk cfg { t with link := { t.link with type := ty, pgno := pg, subno := sub, nuid := nu } } := h

theorem eacemFinish_good (cfg : Cfg) (nuid : Nat) (t : Trigger) (active : Int) (ht : LinkOk cfg t) :
    GoodT (LinkOk cfg) (eacemFinish nuid t active) := by
  unfold eacemFinish
  simp only [bind, Except.bind, pure, Except.pure]
  generalize hte : (if t.link.expires ≤ 0 then { t with link := { t.link with expires := t.fire + active } } else t) = t'
  have ht' : LinkOk cfg t' := by
    subst hte; split <;> exact ht
  clear hte ht
  by_cases h1 : hasPrefix sHttp t'.link.url = true
  · simp only [h1, if_true]; exact ht'
  · simp only [h1, Bool.false_eq_true, if_false]
    by_cases h2 : hasPrefix sLid t'.link.url = true
    · simp only [h2, if_true]; exact ht'
    · simp only [h2, Bool.false_eq_true, if_false]
      by_cases h3 : hasPrefix sTw t'.link.url = true
      · simp only [h3, if_true]; exact ht'
      · simp only [h3, Bool.false_eq_true, if_false]
        by_cases h4 : hasPrefix sDummy t'.link.url = true
        · simp only [h4, if_true]
          have hl := hasPrefix_len h4
          have hl5 : 5 ≤ t'.link.url.length := by simpa [sDummy, strBytes] using hl
          obtain ⟨r, hr, hbd⟩ := parseDec_spec "url:dummy" t'.link.url 2 5 0 hl5
          rw [hr]
          cases r with
          | none => trivial
          | some pg =>
            simp only
            obtain ⟨c7, hc7, _⟩ := cget_ok (site := "url:dummy") (l := t'.link.url) (i := 7) (by have := hbd rfl; omega)
            rw [hc7]
            simp only
            split
            · trivial
            · exact ht'
        · simp only [h4, Bool.false_eq_true, if_false]
          by_cases h5 : hasPrefix sTtx t'.link.url = true
          · simp only [h5, if_true]
            have hl := hasPrefix_len h5
            have hl6 : 6 ≤ t'.link.url.length := by simpa [sTtx, strBytes] using hl
            obtain ⟨r, hr, hb1⟩ := parseHex_spec "url:ttx" t'.link.url 4 6 0 hl6
            rw [hr]
            cases r with
            | none => trivial
            | some cni =>
              simp only
              obtain ⟨c10, hc10, hl10⟩ := cget_ok (site := "url:ttx") (l := t'.link.url) (i := 10) (by have := hb1 rfl; omega)
              rw [hc10]
              simp only
              by_cases h47 : c10 ≠ 47
              · simp only [h47, if_true, ne_eq, not_false_eq_true]; trivial
              · simp only [h47, if_false]
                have hc10' : c10 ≠ 0 := by omega
                obtain ⟨r2, hr2, hb2⟩ := parseHex_spec "url:ttx" t'.link.url 3 11 0 (by have := hl10 hc10'; omega)
                rw [hr2]
                cases r2 with
                | none => trivial
                | some pg =>
                  simp only
                  split
                  · trivial
                  · obtain ⟨c14, hc14, hl14⟩ := cget_ok (site := "url:ttx") (l := t'.link.url) (i := 14) (by have := hb2 rfl; omega)
                    rw [hc14]
                    simp only
                    by_cases h47b : c14 ≠ 47
                    · simp only [h47b, if_true, ne_eq, not_false_eq_true]; trivial
                    · simp only [h47b, if_false]
                      have hc14' : c14 ≠ 0 := by omega
                      obtain ⟨r3, hr3, _⟩ := parseHex_spec "url:ttx" t'.link.url 4 15 0 (by have := hl14 hc14'; omega)
                      rw [hr3]
                      cases r3 with
                      | none => trivial
                      | some sub =>
                        simp only
                        split
                        · split
                          · trivial
                          · exact ht'
                        · exact ht'
          · simp only [h5, Bool.false_eq_true, if_false]; trivial

theorem atvefFinish_ok (cfg : Cfg) (t t' : Trigger) (ht : LinkOk cfg t) (h : atvefFinish t = some t') : LinkOk cfg t' := by
  unfold atvefFinish at h
  split at h
  · cases h; exact ht
  · split at h
    · cases h; exact ht
    · cases h
end Zvbi.Trig
