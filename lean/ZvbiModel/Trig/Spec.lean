import ZvbiModel.Trig.Model
/-!
# Sender side of the trigger syntax and the histories the theorems quantify over
-/
namespace Zvbi.Trig

/-- what a caller can do with the trigger machinery of one decoder -/
inductive Op where
  | eacem (bytes : List Nat)     -- vbi_eacem_trigger (Teletext trigger page, 24 x 40 characters)
  | atvef (bytes : List Nat)     -- vbi_atvef_trigger
  | itv (bytes : List Nat)       -- caption text channel T2 characters through itv_separator
  | time (sec : Nat)             -- vbi->time advances
  | tick (sec : Nat)             -- vbi_decode: time, then vbi_deferred_trigger
  | flush                        -- vbi_trigger_flush (channel switch, event handler change, decoder delete)

def stepOp (cfg : Cfg) (st : St) : Op → R (St × List Link)
  | .eacem b => eacemTrigger cfg ((cstr b).length + 1) st (cstr b) []
  | .atvef b => atvefTrigger cfg st (cstr b)
  | .itv b => itvFeed cfg st b []
  | .time n => .ok ({ st with time := n }, [])
  | .tick n => deferred cfg { st with time := n }
  | .flush => .ok (flush st, [])

/-- a history; the first fault ends it (the process is gone) -/
def run (cfg : Cfg) : St → List Op → R St
  | st, [] => .ok st
  | st, op :: ops =>
    match stepOp cfg st op with
    | .error f => .error f
    | .ok (st', _) => run cfg st' ops

/-- plain characters: what a sender may put into an url / attribute value without escaping -/
def plain (c : Nat) : Bool :=
  c ≠ 0 && c ≠ 37 && c ≠ 34 && c ≠ 58 && c ≠ 60 && c ≠ 62 && c ≠ 91 && c ≠ 93 && c ≠ 40 && c ≠ 41

/-- ATVEF sender: `<url>[name:NAME]` followed by the end of the string (the checksum is optional in ATVEF) -/
def sendAtvefName (url name : List Nat) : List Nat :=
  [60] ++ url ++ [62, 91, 110, 97, 109, 101, 58] ++ name ++ [93, 0]

end Zvbi.Trig
