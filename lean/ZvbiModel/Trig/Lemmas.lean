import ZvbiModel.Trig.Model
/-!
# Lemmas about the cursor loops of the trigger parsers (well-formed block, progress, bounds)
-/
namespace Zvbi.Trig

/-- a block handed to a parser: bytes without NUL, then the terminating NUL -/
def Wf (l : List Nat) : Prop := ∃ t, l = t ++ [0] ∧ ∀ x ∈ t, x ≠ 0

theorem Wf.ne_nil {l} (h : Wf l) : l ≠ [] := by
  obtain ⟨t, rfl, _⟩ := h; simp

theorem Wf.tail_of_ne {c : Nat} {r} (h : Wf (c :: r)) (hc : c ≠ 0) : Wf r := by
  obtain ⟨t, ht, hz⟩ := h
  cases t with
  | nil => simp at ht; exact absurd ht.1 hc
  | cons a t' =>
    simp at ht
    exact ⟨t', ht.2, fun x hx => hz x (List.mem_cons_of_mem _ hx)⟩

theorem Wf.tail_nil_of_zero {r} (h : Wf (0 :: r)) : r = [] := by
  obtain ⟨t, ht, hz⟩ := h
  cases t with
  | nil => simp at ht; exact ht
  | cons a t' =>
    simp at ht
    exact absurd ht.1.symm (hz a (List.mem_cons_self ..))

theorem mem_takeWhile_ne_zero : ∀ (b : List Nat) (x : Nat), x ∈ b.takeWhile (· ≠ 0) → x ≠ 0 := by
  intro b
  induction b with
  | nil => intro x hx; simp at hx
  | cons a t ih =>
    intro x hx
    by_cases ha : a = 0
    · simp [List.takeWhile, ha] at hx
    · simp [List.takeWhile, ha] at hx
      rcases hx with rfl | hx
      · exact ha
      · exact ih x (by simpa using hx)

theorem wf_cstr (b : List Nat) : Wf (cstr b) :=
  ⟨b.takeWhile (· ≠ 0), rfl, mem_takeWhile_ne_zero b⟩

/-- no fault except, possibly, the signed overflow of parse_time: no out-of-object access, no freed node touched,
no exhausted loop bound -/
def NoOob {α} : R α → Prop
  | .error (.ovf _) => True
  | .error _ => False
  | .ok _ => True

theorem store_ok {site size d} (h : d < size) : store site size d = .ok () := by simp [store, h]

/-- what every cursor loop guarantees about its result: no bad access; the payload satisfies `P`; a returned cursor
is well-formed and at most `n` long -/
def Good {α} (P : α → Prop) (n : Nat) : R (Option (α × List Nat)) → Prop
  | .error (.ovf _) => True
  | .error _ => False
  | .ok none => True
  | .ok (some (a, rest')) => P a ∧ Wf rest' ∧ rest'.length ≤ n

theorem Good.mono {α} {P : α → Prop} {n m : Nat} {res : R (Option (α × List Nat))} (h : Good P n res) (hnm : n ≤ m) :
    Good P m res := by
  match res, h with
  | .error (.uaf _), h => exact h.elim
  | .error (.ovf _), _ => trivial
  | .ok none, _ => trivial
  | .ok (some (_, _)), hg => exact ⟨hg.1, hg.2.1, Nat.le_trans hg.2.2 hnm⟩

def NZ (l : List Nat) : Prop := ∀ x ∈ l, x ≠ 0

theorem NZ.snoc {l c} (h : NZ l) (hc : c ≠ 0) : NZ (l ++ [c]) := by
  intro x hx
  simp at hx
  rcases hx with hx | rfl
  · exact h x hx
  · exact hc

/-- url copy loop: inside `url[]` for `lim < size`; the cursor it returns is behind the `>` -/
theorem urlLoop_good (lim size : Nat) (hl : lim < size) :
    ∀ (rest acc : List Nat), Wf rest → acc.length ≤ lim → NZ acc →
      Good (fun url => url.length ≤ lim ∧ NZ url) (rest.length - 1) (urlLoop lim size rest acc) := by
  intro rest
  induction rest with
  | nil => intro acc h; exact absurd rfl h.ne_nil
  | cons c r ih =>
    intro acc hw ha hz
    unfold urlLoop
    by_cases h62 : c = 62
    · simp only [h62, if_true]
      rw [store_ok (by omega)]
      have : Wf r := hw.tail_of_ne (by omega)
      exact ⟨⟨ha, hz⟩, this, by simp⟩
    · simp only [h62, if_false]
      by_cases hc : c ≠ 0 ∧ acc.length < lim
      · simp only [hc, and_self, if_true, ne_eq, not_false_eq_true]
        rw [store_ok (by omega)]
        have hwr : Wf r := hw.tail_of_ne hc.1
        exact (ih (acc ++ [c]) hwr (by simp; omega) (hz.snoc hc.1)).mono (by simp)
      · simp only [hc, if_false]; trivial

theorem isXDigit_ne_zero {c : Nat} (h : isXDigit c = true) : c ≠ 0 := by
  intro h0; subst h0; simp [isXDigit, isDigit] at h

theorem hexpair_ne_zero {v : Nat} (h : ¬ v < 32) : v ≠ 0 := by omega

/-- result of the attribute name loop: inside `buf[]`; the cursor it returns stands AT the terminating `:` / delimiter -/
def AttrGood (lim n : Nat) : R (Option (List Nat × Nat × List Nat)) → Prop
  | .error (.ovf _) => True
  | .error _ => False
  | .ok none => True
  | .ok (some (a, t, r)) => a.length ≤ lim ∧ NZ a ∧ Wf r ∧ r.length ≤ n ∧ t ≠ 0 ∧ ∃ r', r = t :: r'

theorem AttrGood.mono {lim n m : Nat} {res} (h : AttrGood lim n res) (hnm : n ≤ m) : AttrGood lim m res := by
  match res, h with
  | .error (.uaf _), h => exact h.elim
  | .error (.ovf _), _ => trivial
  | .ok none, _ => trivial
  | .ok (some (_, _, _)), hg => exact ⟨hg.1, hg.2.1, hg.2.2.1, Nat.le_trans hg.2.2.2.1 hnm, hg.2.2.2.2⟩

theorem attrLoop_good (lim size delim : Nat) (hl : lim < size) (hd : delim ≠ 0) :
    ∀ (n : Nat) (rest acc : List Nat), rest.length ≤ n → Wf rest → acc.length ≤ lim → NZ acc →
      AttrGood lim rest.length (attrLoop lim size delim rest acc) := by
  intro n
  induction n with
  | zero =>
    intro rest acc hn hw
    have := hw.ne_nil
    cases rest with
    | nil => exact absurd rfl this
    | cons _ _ => simp at hn
  | succ n ih =>
    intro rest acc hn hw ha hz
    cases rest with
    | nil => exact absurd rfl hw.ne_nil
    | cons c r =>
      simp only [List.length_cons] at hn
      unfold attrLoop
      by_cases hterm : c = 58 ∨ c = delim
      · simp only [hterm, if_true]
        have hc0 : c ≠ 0 := by rcases hterm with h | h <;> omega
        exact ⟨ha, hz, hw, Nat.le_refl _, hc0, r, rfl⟩
      · simp only [hterm, if_false]
        by_cases h37 : c = 37
        · simp only [h37, if_true]
          have hwr : Wf r := hw.tail_of_ne (by omega)
          cases r with
          | nil => exact absurd rfl hwr.ne_nil
          | cons h1 r1 =>
            simp only
            by_cases hx1 : isXDigit h1 = true
            · simp only [hx1, Bool.not_true, Bool.false_eq_true, if_false]
              have hwr1 : Wf r1 := hwr.tail_of_ne (isXDigit_ne_zero hx1)
              cases r1 with
              | nil => exact absurd rfl hwr1.ne_nil
              | cons h2 r2 =>
                simp only
                by_cases hx2 : isXDigit h2 = true
                · simp only [hx2, Bool.not_true, Bool.false_eq_true, if_false]
                  have hwr2 : Wf r2 := hwr1.tail_of_ne (isXDigit_ne_zero hx2)
                  by_cases hv : hexVal h1 * 16 + hexVal h2 < 32
                  · simp only [hv, if_true]; trivial
                  · simp only [hv, if_false]
                    by_cases hlen : acc.length < lim
                    · simp only [hlen, if_true]
                      rw [store_ok (by omega)]
                      simp only [List.length_cons] at hn ⊢
                      exact (ih r2 (acc ++ [hexVal h1 * 16 + hexVal h2]) (by omega) hwr2 (by simp; omega)
                        (hz.snoc (hexpair_ne_zero hv))).mono (by omega)
                    · simp only [hlen, if_false]; trivial
                · simp only [hx2, Bool.not_false, if_true]; trivial
            · simp only [hx1, Bool.not_false, if_true]; trivial
        · simp only [h37, if_false]
          by_cases hc : c ≠ 0 ∧ acc.length < lim
          · simp only [hc, and_self, if_true, ne_eq, not_false_eq_true]
            rw [store_ok (by omega)]
            exact (ih r (acc ++ [c]) (by omega) (hw.tail_of_ne hc.1) (by simp; omega) (hz.snoc hc.1)).mono (by simp)
          · simp only [hc, if_false]; trivial

/-- what the text loop guarantees about the text it stored behind `buf[d0]` -/
def TextOk (lim d0 : Nat) (text : List Nat) : Prop := NZ text ∧ (text = [] ∨ d0 + text.length ≤ lim)

theorem TextOk.snoc {lim d0 acc c} (h : TextOk lim d0 acc) (hc : c ≠ 0) (hl : d0 + acc.length < lim) :
    TextOk lim d0 (acc ++ [c]) :=
  ⟨h.1.snoc hc, Or.inr (by simp; omega)⟩

/-- repaired text loop: inside `buf[]`, the cursor it returns is behind the delimiter -/
theorem textLoopFix_good (lim size delim d0 : Nat) (hl : lim ≤ size) (hd : delim ≠ 0) :
    ∀ (n : Nat) (rest : List Nat) (quote : Bool) (acc : List Nat), rest.length ≤ n → Wf rest → TextOk lim d0 acc →
      Good (TextOk lim d0) (rest.length - 1) (textLoopFix lim size delim d0 rest quote acc) := by
  intro n
  induction n with
  | zero =>
    intro rest quote acc hn hw
    cases rest with
    | nil => exact absurd rfl hw.ne_nil
    | cons _ _ => simp at hn
  | succ n ih =>
    intro rest quote acc hn hw hz
    cases rest with
    | nil => exact absurd rfl hw.ne_nil
    | cons c r =>
      simp only [List.length_cons] at hn
      unfold textLoopFix
      by_cases hterm : (!quote && c == delim) = true
      · simp only [hterm, if_true]
        have hc : c = delim := by
          simp only [Bool.and_eq_true, beq_iff_eq] at hterm; exact hterm.2
        exact ⟨hz, hw.tail_of_ne (by omega), by simp⟩
      · simp only [hterm, Bool.false_eq_true, if_false]
        by_cases h37 : c = 37
        · simp only [h37, if_true]
          have hwr : Wf r := hw.tail_of_ne (by omega)
          cases r with
          | nil => exact absurd rfl hwr.ne_nil
          | cons h1 r1 =>
            simp only
            by_cases hx1 : isXDigit h1 = true
            · simp only [hx1, Bool.not_true, Bool.false_eq_true, if_false]
              have hwr1 : Wf r1 := hwr.tail_of_ne (isXDigit_ne_zero hx1)
              cases r1 with
              | nil => exact absurd rfl hwr1.ne_nil
              | cons h2 r2 =>
                simp only
                by_cases hx2 : isXDigit h2 = true
                · simp only [hx2, Bool.not_true, Bool.false_eq_true, if_false]
                  have hwr2 : Wf r2 := hwr1.tail_of_ne (isXDigit_ne_zero hx2)
                  by_cases hv : hexVal h1 * 16 + hexVal h2 < 32
                  · simp only [hv, if_true]; trivial
                  · simp only [hv, if_false]
                    by_cases hlen : d0 + acc.length < lim
                    · simp only [hlen, if_true]
                      rw [store_ok (by omega)]
                      simp only [List.length_cons] at hn ⊢
                      exact (ih r2 quote (acc ++ [hexVal h1 * 16 + hexVal h2]) (by omega) hwr2
                        (hz.snoc (hexpair_ne_zero hv) hlen)).mono (by omega)
                    · simp only [hlen, if_false]; trivial
                · simp only [hx2, Bool.not_false, if_true]; trivial
            · simp only [hx1, Bool.not_false, if_true]; trivial
        · simp only [h37, if_false]
          by_cases hc : c ≠ 0 ∧ d0 + acc.length < lim
          · simp only [hc, and_self, if_true, ne_eq, not_false_eq_true]
            rw [store_ok (by omega)]
            exact (ih r _ (acc ++ [c]) (by omega) (hw.tail_of_ne hc.1) (hz.snoc hc.1 hc.2)).mono (by simp)
          · simp only [hc, if_false]; trivial

/-- the whole text step (loop + terminating NUL) in its repaired form -/
theorem textLoop_good (lim size delim d0 : Nat) (hl : lim < size) (h0 : d0 < size) (hd : delim ≠ 0)
    (rest : List Nat) (hw : Wf rest) :
    Good (TextOk lim d0) (rest.length - 1) (textLoop true lim size delim d0 rest) := by
  have h := textLoopFix_good lim size delim d0 (Nat.le_of_lt hl) hd rest.length rest false [] (Nat.le_refl _) hw
    ⟨by intro x hx; simp at hx, Or.inl rfl⟩
  unfold textLoop
  simp only [if_true, bind, Except.bind]
  revert h
  generalize textLoopFix lim size delim d0 rest false [] = res
  intro h
  match res, h with
  | .error (.uaf _), h => exact h.elim
  | .error (.ovf _), _ => trivial
  | .ok none, _ => trivial
  | .ok (some (text, r')), hg =>
    have hidx : d0 + text.length < size := by
      rcases hg.1.2 with h | h
      · subst h; simpa using h0
      · omega
    simp only [store_ok hidx, pure, Except.pure]
    exact hg
end Zvbi.Trig
