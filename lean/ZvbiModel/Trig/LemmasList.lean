import ZvbiModel.Trig.LemmasMain
/-!
# The trigger list (add_trigger, vbi_deferred_trigger, vbi_trigger_flush), vbi_eacem_trigger's loop, itv_separator
-/
namespace Zvbi.Trig

/-- book-keeping invariant: every allocated node is in the list -/
def Inv (st : St) : Prop := st.live = st.list.length

theorem deleteWalk_len (a : Trigger) : ∀ (l : List Trigger) l' n, deleteWalk true a l = .ok (l', n) → l'.length + n = l.length := by
  intro l
  induction l with
  | nil => intro l' n h; simp [deleteWalk] at h; obtain ⟨rfl, rfl⟩ := h; rfl
  | cons t ts ih =>
    intro l' n h
    unfold deleteWalk at h
    cases hr : deleteWalk true a ts with
    | error f => simp [hr] at h
    | ok p =>
      obtain ⟨l2, n2⟩ := p
      have := ih l2 n2 hr
      simp only [hr, if_true] at h
      split at h
      · cases h; simp; omega
      · cases h; simp; omega

theorem deleteWalk_fix_ok (a : Trigger) : ∀ (l : List Trigger), ∃ p, deleteWalk true a l = .ok p := by
  intro l
  induction l with
  | nil => exact ⟨_, rfl⟩
  | cons t ts ih =>
    obtain ⟨p, hp⟩ := ih
    unfold deleteWalk
    simp only [hp, if_true]
    split <;> exact ⟨_, rfl⟩

theorem deferredWalk_len (time : Int) : ∀ (l : List Trigger) l' ev n, deferredWalk true time l = .ok (l', ev, n) →
    l'.length + n = l.length ∧ ev.length = n ∧ ∀ t ∈ l', ¬ t.fire ≤ time := by
  intro l
  induction l with
  | nil => intro l' ev n h; simp [deferredWalk] at h; obtain ⟨rfl, rfl, rfl⟩ := h; simp
  | cons t ts ih =>
    intro l' ev n h
    unfold deferredWalk at h
    cases hr : deferredWalk true time ts with
    | error f => simp [hr] at h
    | ok p =>
      obtain ⟨l2, ev2, n2⟩ := p
      have := ih l2 ev2 n2 hr
      simp only [hr, if_true] at h
      split at h
      · cases h; simp only [List.length_cons]; exact ⟨by omega, by omega, this.2.2⟩
      · rename_i hfire
        cases h
        refine ⟨by simp; omega, this.2.1, ?_⟩
        intro x hx
        simp at hx
        rcases hx with rfl | hx
        · exact hfire
        · exact this.2.2 x hx

theorem deferredWalk_fix_ok (time : Int) : ∀ (l : List Trigger), ∃ p, deferredWalk true time l = .ok p := by
  intro l
  induction l with
  | nil => exact ⟨_, rfl⟩
  | cons t ts ih =>
    obtain ⟨p, hp⟩ := ih
    unfold deferredWalk
    simp only [hp, if_true]
    split <;> exact ⟨_, rfl⟩

/-- add_trigger keeps the book-keeping invariant, the clock and the ITV buffer; with the repaired delete walk it
cannot fail -/
theorem addTrigger_inv (cfg : Cfg) (st : St) (a : Trigger) (hi : Inv st) (hw : cfg.walkFixDelete = true) :
    ∃ st' ev, addTrigger cfg st a = .ok (st', ev) ∧ Inv st' ∧ st'.itv = st.itv ∧ st'.time = st.time ∧ st'.nuid = st.nuid := by
  unfold addTrigger
  split
  · rw [hw]
    obtain ⟨⟨l, n⟩, hp⟩ := deleteWalk_fix_ok a st.list
    have := deleteWalk_len a st.list l n hp
    rw [hp]
    refine ⟨_, _, rfl, ?_, rfl, rfl, rfl⟩
    unfold Inv at hi ⊢
    simp only
    omega
  · split
    · exact ⟨st, [], rfl, hi, rfl, rfl, rfl⟩
    · split
      · exact ⟨st, _, rfl, hi, rfl, rfl, rfl⟩
      · refine ⟨_, _, rfl, ?_, rfl, rfl, rfl⟩
        unfold Inv at hi ⊢
        simp only [List.length_cons]
        omega

theorem deferred_inv (cfg : Cfg) (st : St) (hi : Inv st) (hw : cfg.walkFixDeferred = true) :
    ∃ st' ev, deferred cfg st = .ok (st', ev) ∧ Inv st' ∧ st'.itv = st.itv ∧
      (∀ t ∈ st'.list, ¬ t.fire ≤ (st.time : Int) * 25) ∧ st'.live + ev.length = st.live := by
  unfold deferred
  rw [hw]
  obtain ⟨⟨l, ev, n⟩, hp⟩ := deferredWalk_fix_ok ((st.time : Int) * 25) st.list
  have := deferredWalk_len _ st.list l ev n hp
  rw [hp]
  refine ⟨_, _, rfl, ?_, rfl, this.2.2, ?_⟩
  · unfold Inv at hi ⊢; simp only; omega
  · unfold Inv at hi; simp only; omega

theorem flush_inv (st : St) (hi : Inv st) : Inv (flush st) ∧ (flush st).live = 0 ∧ (flush st).list = [] := by
  unfold Inv at hi
  unfold flush Inv
  simp [hi]

/-- parse_eacem on a block which starts with the NUL returns NULL (the url is empty) -/
theorem parseEacem_nul (cfg : Cfg) (nuid : Nat) (now : Int) (r : List Nat) : parseEacem cfg nuid now (0 :: r) = .ok none := by
  unfold parseEacem
  simp only [List.length_cons]
  unfold eacemLoop
  simp [eacemFinish, hasPrefix, sHttp, sLid, sTw, sDummy, sTtx, strBytes, bind, Except.bind, pure, Except.pure]

/-- result of an op on the decoder state: no bad access, loop bounds suffice, book-keeping invariant kept -/
def GoodSt (st0 : St) : R (St × List Link) → Prop
  | .error (.ovf _) => True
  | .error _ => False
  | .ok (st', _) => Inv st' ∧ st'.itv = st0.itv

theorem eacemTrigger_good (cfg : Cfg) (hb : cfg.BoundsOk) (hq : cfg.eQuoteFix = true) (hwd : cfg.walkFixDelete = true) :
    ∀ (fuel : Nat) (st : St) (mem : List Nat) (evs : List Link), mem.length < fuel → Wf mem → Inv st →
      GoodSt st (eacemTrigger cfg fuel st mem evs) := by
  intro fuel
  induction fuel with
  | zero => intro st mem evs h; omega
  | succ fuel ih =>
    intro st mem evs hf hw hi
    unfold eacemTrigger
    have hg := parseEacem_good cfg hb hq st.nuid ((st.time : Int) * 25) mem hw
    cases mem with
    | nil => exact absurd rfl hw.ne_nil
    | cons c r =>
      by_cases hc : c = 0
      · subst hc
        rw [parseEacem_nul]
        exact ⟨hi, rfl⟩
      · have hB : B (c :: r) = r.length := by simp [B, hc]
        rw [hB] at hg
        revert hg
        generalize parseEacem cfg st.nuid ((st.time : Int) * 25) (c :: r) = pr
        intro hg
        match pr, hg with
        | .error (.uaf _), h => exact h.elim
        | .error (.ovf _), _ => trivial
        | .ok none, _ => exact ⟨hi, rfl⟩
        | .ok (some (t, rest)), hg =>
          simp only
          split
          · exact ⟨hi, rfl⟩
          · obtain ⟨st', ev, hadd, hi', hitv, _, _⟩ := addTrigger_inv cfg st { t with link := { t.link with eacem := 1 } } hi hwd
            rw [hadd]
            simp only
            have := ih st' rest (evs ++ ev) (by simp only [List.length_cons] at hf; have := hg.2.2; omega) hg.2.1 hi'
            revert this
            generalize eacemTrigger cfg fuel st' rest (evs ++ ev) = er
            intro this
            match er, this with
            | .error (.uaf _), h => exact h.elim
            | .error (.ovf _), _ => trivial
            | .ok (st2, _), h2 => exact ⟨h2.1, by rw [h2.2, hitv]⟩

theorem atvefTrigger_good (cfg : Cfg) (hb : cfg.BoundsOk) (hq : cfg.aQuoteFix = true) (hc : cfg.contFix = true)
    (hwd : cfg.walkFixDelete = true) (st : St) (mem : List Nat) (hw : Wf mem) (hi : Inv st) :
    GoodSt st (atvefTrigger cfg st mem) := by
  unfold atvefTrigger
  have hg := parseAtvef_good cfg hb hq hc ((st.time : Int) * 25) mem hw
  revert hg
  generalize parseAtvef cfg ((st.time : Int) * 25) mem = pr
  intro hg
  match pr, hg with
  | .error (.uaf _), h => exact h.elim
  | .error (.ovf _), _ => trivial
  | .ok none, _ => exact ⟨hi, rfl⟩
  | .ok (some (t, rest)), hg =>
    simp only
    split
    · exact ⟨hi, rfl⟩
    · obtain ⟨st', ev, hadd, hi', hitv, _, _⟩ := addTrigger_inv cfg st { t with link := { t.link with eacem := 0 } } hi hwd
      rw [hadd]
      exact ⟨hi', hitv⟩
end Zvbi.Trig
