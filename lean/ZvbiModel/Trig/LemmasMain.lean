import ZvbiModel.Trig.LemmasHelpers
/-!
# The main loops of parse_eacem / parse_atvef: no access outside the block or the buffers, progress, fuel
-/
namespace Zvbi.Trig

/-- bound on the cursor a main loop returns: it moved unless it stood on the NUL -/
def B (rest : List Nat) : Nat := if rest.head? = some 0 then rest.length else rest.length - 1

theorem B_le (rest : List Nat) : B rest ≤ rest.length := by unfold B; split <;> omega

theorem linkOk_url {cfg : Cfg} {t : Trigger} (h : LinkOk cfg t) (url : List Nat) (hu : url.length < cfg.urlSize) :
    LinkOk cfg { t with link := { t.link with url := url } } := ⟨hu, h.2.1, h.2.2⟩

theorem linkOk_itv {cfg : Cfg} {t : Trigger} (h : LinkOk cfg t) (i : Nat) :
    LinkOk cfg { t with link := { t.link with itvType := i } } := h

theorem wf_tail_of_attr {t : Nat} {r r' : List Nat} (hw : Wf r) (hr : r = t :: r') (ht : t ≠ 0) : Wf r.tail := by
  subst hr; exact hw.tail_of_ne ht

theorem eacemLoop_good (cfg : Cfg) (hb : cfg.BoundsOk) (hq : cfg.eQuoteFix = true) (nuid : Nat) (now : Int) (mem : List Nat) :
    ∀ (fuel : Nat) (rest : List Nat) (t : Trigger) (active : Int), rest.length < fuel → Wf rest → LinkOk cfg t →
      Good (LinkOk cfg) (B rest) (eacemLoop cfg nuid now mem fuel rest t active) := by
  intro fuel
  induction fuel with
  | zero => intro rest t active h; omega
  | succ fuel ih =>
    intro rest t active hf hw ht
    cases rest with
    | nil => exact absurd rfl hw.ne_nil
    | cons c r =>
      simp only [List.length_cons] at hf
      unfold eacemLoop
      simp only
      by_cases h60 : c = 60
      · simp only [h60, if_true]
        have hB : B (60 :: r) = r.length := by simp [B]
        split
        · trivial
        · have hg := urlLoop_good cfg.eUrlLim cfg.urlSize hb.eUrl r [] (hw.tail_of_ne (by omega)) (by simp)
            (by intro x hx; simp at hx)
          revert hg
          generalize urlLoop cfg.eUrlLim cfg.urlSize r [] = res
          intro hg
          match res, hg with
          | .error (.uaf _), h => exact h.elim
          | .error (.ovf _), _ => trivial
          | .ok none, _ => trivial
          | .ok (some (url, rest')), hg =>
            simp only
            have := ih rest' { t with link := { t.link with url := url } } active (by have := hg.2.2; omega) hg.2.1
              (linkOk_url ht url (by have := hg.1.1; have := hb.eUrl; omega))
            exact this.mono (by rw [hB]; have := B_le rest'; have := hg.2.2; omega)
      · simp only [h60, if_false]
        by_cases hbr : c = 91 ∨ c = 40
        · simp only [hbr, if_true]
          have hc0 : c ≠ 0 := by rcases hbr with h | h <;> omega
          have hB : B (c :: r) = r.length := by simp [B, hc0]
          have hwr : Wf r := hw.tail_of_ne hc0
          have hdel : (if c = 91 then 93 else 41) ≠ 0 := by split <;> omega
          have hg := attrLoop_good cfg.eAttrLim cfg.eBufSize (if c = 91 then 93 else 41) (by have := hb.eAttr; omega) hdel
            r.length r [] (Nat.le_refl _) hwr (by simp) (by intro x hx; simp at hx)
          revert hg
          generalize attrLoop cfg.eAttrLim cfg.eBufSize (if c = 91 then 93 else 41) r [] = res
          intro hg
          match res, hg with
          | .error (.uaf _), h => exact h.elim
          | .error (.ovf _), _ => trivial
          | .ok none, _ => trivial
          | .ok (some (attr, term, rest1)), hg =>
            simp only
            obtain ⟨hal, _, hw1, hl1, hterm0, r1', hr1⟩ := hg
            rw [store_ok (by have := hb.eAttr; omega)]
            simp only
            split
            · trivial
            · have hw1t : Wf rest1.tail := wf_tail_of_attr hw1 hr1 hterm0
              have hl1t : rest1.tail.length ≤ r.length - 1 := by subst hr1; simp at hl1 ⊢; omega
              by_cases ht58 : term ≠ 58
              · simp only [ht58, if_true, ne_eq, not_false_eq_true]
                split
                · have hfin := eacemFinish_good cfg nuid t active ht
                  revert hfin
                  generalize eacemFinish nuid t active = fr
                  intro hfin
                  match fr, hfin with
                  | .error (.uaf _), h => exact h.elim
                  | .error (.ovf _), _ => trivial
                  | .ok none, _ => trivial
                  | .ok (some t'), hfin => exact ⟨hfin, hw1t, by rw [hB]; omega⟩
                · trivial
              · simp only [ht58, if_false]
                have hgt := textLoop_good cfg.eTextLim cfg.eBufSize (if c = 91 then 93 else 41) (attr.length + 1)
                  hb.eText (by have := hb.eAttr; omega) hdel rest1.tail hw1t
                rw [hq]
                revert hgt
                generalize textLoop true cfg.eTextLim cfg.eBufSize (if c = 91 then 93 else 41) (attr.length + 1) rest1.tail = tr
                intro hgt
                match tr, hgt with
                | .error (.uaf _), h => exact h.elim
                | .error (.ovf _), _ => trivial
                | .ok none, _ => trivial
                | .ok (some (text, rest2)), hgt =>
                  simp only
                  have ha := eacemAttr_good cfg hb now t active attr text ht
                  revert ha
                  generalize eacemAttr cfg now t active attr text = ar
                  intro ha
                  match ar, ha with
                  | .error (.uaf _), h => exact h.elim
                  | .error (.ovf _), _ => trivial
                  | .ok none, _ => trivial
                  | .ok (some (t', active')), ha =>
                    simp only
                    have := ih rest2 t' active' (by have := hgt.2.2; omega) hgt.2.1 ha
                    exact this.mono (by rw [hB]; have := B_le rest2; have := hgt.2.2; omega)
        · simp only [hbr, if_false]
          by_cases h0 : c = 0
          · simp only [h0, if_true]
            have hfin := eacemFinish_good cfg nuid t active ht
            revert hfin
            generalize eacemFinish nuid t active = fr
            intro hfin
            match fr, hfin with
            | .error (.uaf _), h => exact h.elim
            | .error (.ovf _), _ => trivial
            | .ok none, _ => trivial
            | .ok (some t'), hfin =>
              subst h0
              exact ⟨hfin, hw, by simp [B]⟩
          · simp only [h0, if_false]; trivial

theorem atvefLoop_good (cfg : Cfg) (hb : cfg.BoundsOk) (hq : cfg.aQuoteFix = true) (hc : cfg.contFix = true) (mem : List Nat) :
    ∀ (fuel : Nat) (rest : List Nat) (t : Trigger), rest.length < fuel → Wf rest → LinkOk cfg t →
      Good (LinkOk cfg) (B rest) (atvefLoop cfg mem fuel rest t) := by
  intro fuel
  induction fuel with
  | zero => intro rest t h; omega
  | succ fuel ih =>
    intro rest t hf hw ht
    cases rest with
    | nil => exact absurd rfl hw.ne_nil
    | cons c r =>
      simp only [List.length_cons] at hf
      unfold atvefLoop
      simp only
      by_cases h60 : c = 60
      · simp only [h60, if_true]
        have hB : B (60 :: r) = r.length := by simp [B]
        split
        · trivial
        · have hg := urlLoop_good cfg.aUrlLim cfg.urlSize hb.aUrl r [] (hw.tail_of_ne (by omega)) (by simp)
            (by intro x hx; simp at hx)
          revert hg
          generalize urlLoop cfg.aUrlLim cfg.urlSize r [] = res
          intro hg
          match res, hg with
          | .error (.uaf _), h => exact h.elim
          | .error (.ovf _), _ => trivial
          | .ok none, _ => trivial
          | .ok (some (url, rest')), hg =>
            simp only
            have := ih rest' { t with link := { t.link with url := url } } (by have := hg.2.2; omega) hg.2.1
              (linkOk_url ht url (by have := hg.1.1; have := hb.aUrl; omega))
            exact this.mono (by rw [hB]; have := B_le rest'; have := hg.2.2; omega)
      · simp only [h60, if_false]
        by_cases hbr : c = 91
        · simp only [hbr, if_true]
          have hB : B (91 :: r) = r.length := by simp [B]
          subst hbr
          have hwr : Wf r := hw.tail_of_ne (by omega)
          have hg := attrLoop_good cfg.aAttrLim cfg.aBufSize 93 (by have := hb.aAttr; omega) (by omega)
            r.length r [] (Nat.le_refl _) hwr (by simp) (by intro x hx; simp at hx)
          revert hg
          generalize attrLoop cfg.aAttrLim cfg.aBufSize 93 r [] = res
          intro hg
          match res, hg with
          | .error (.uaf _), h => exact h.elim
          | .error (.ovf _), _ => trivial
          | .ok none, _ => trivial
          | .ok (some (attr, term, rest1)), hg =>
            simp only
            obtain ⟨hal, _, hw1, hl1, hterm0, r1', hr1⟩ := hg
            rw [store_ok (by have := hb.aAttr; omega)]
            simp only
            split
            · trivial
            · have hw1t : Wf rest1.tail := wf_tail_of_attr hw1 hr1 hterm0
              have hl1t : rest1.tail.length ≤ r.length - 1 := by subst hr1; simp at hl1 ⊢; omega
              have hr1pos : 1 ≤ r.length := by subst hr1; simp at hl1; omega
              by_cases ht58 : term ≠ 58
              · simp only [ht58, if_true, ne_eq, not_false_eq_true]
                have hbt := bareType_noOob cfg attr (cfg.typeLoopHi - cfg.typeLoopLo) cfg.typeLoopLo hb.bare
                revert hbt
                generalize bareType cfg attr cfg.typeLoopLo (cfg.typeLoopHi - cfg.typeLoopLo) = br
                intro hbt
                match br, hbt with
                | .error (.uaf _), h => exact h.elim
                | .error (.ovf _), _ => trivial
                | .ok (some i), _ =>
                  simp only [hc, if_true]
                  have := ih rest1.tail { t with link := { t.link with itvType := i + 1 } } (by omega) hw1t (linkOk_itv ht _)
                  exact this.mono (by rw [hB]; have := B_le rest1.tail; omega)
                | .ok none, _ =>
                  simp only
                  split
                  · cases hfa : atvefFinish t with
                    | none => trivial
                    | some t' => exact ⟨atvefFinish_ok cfg t t' ht hfa, hw1t, by rw [hB]; omega⟩
                  · trivial
              · simp only [ht58, if_false]
                have hgt := textLoop_good cfg.aTextLim cfg.aBufSize 93 (attr.length + 1)
                  hb.aText (by have := hb.aAttr; omega) (by omega) rest1.tail hw1t
                rw [hq]
                revert hgt
                generalize textLoop true cfg.aTextLim cfg.aBufSize 93 (attr.length + 1) rest1.tail = tr
                intro hgt
                match tr, hgt with
                | .error (.uaf _), h => exact h.elim
                | .error (.ovf _), _ => trivial
                | .ok none, _ => trivial
                | .ok (some (text, rest2)), hgt =>
                  simp only
                  have ha := atvefAttr_good cfg hb t attr text ht
                  revert ha
                  generalize atvefAttr cfg t attr text = ar
                  intro ha
                  match ar, ha with
                  | .error (.uaf _), h => exact h.elim
                  | .error (.ovf _), _ => trivial
                  | .ok none, _ => trivial
                  | .ok (some t'), ha =>
                    simp only
                    have := ih rest2 t' (by have := hgt.2.2; omega) hgt.2.1 ha
                    exact this.mono (by rw [hB]; have := B_le rest2; have := hgt.2.2; omega)
        · simp only [hbr, if_false]
          by_cases h0 : c = 0
          · simp only [h0, if_true]
            cases hfa : atvefFinish t with
            | none => trivial
            | some t' =>
              subst h0
              exact ⟨atvefFinish_ok cfg t t' ht hfa, hw, by simp [B]⟩
          · simp only [h0, if_false]; trivial

theorem linkOk_init (cfg : Cfg) (hb : cfg.BoundsOk) (now : Int) : LinkOk cfg { fire := now } := by
  refine ⟨?_, hb.namePos, hb.scriptPos⟩
  have := hb.eUrl
  show 0 < cfg.urlSize
  omega

/-- parse_eacem on a whole block -/
theorem parseEacem_good (cfg : Cfg) (hb : cfg.BoundsOk) (hq : cfg.eQuoteFix = true) (nuid : Nat) (now : Int)
    (mem : List Nat) (hw : Wf mem) : Good (LinkOk cfg) (B mem) (parseEacem cfg nuid now mem) :=
  eacemLoop_good cfg hb hq nuid now mem (mem.length + 1) mem _ _ (Nat.lt_succ_self _) hw (linkOk_init cfg hb now)

/-- parse_atvef on a whole block -/
theorem parseAtvef_good (cfg : Cfg) (hb : cfg.BoundsOk) (hq : cfg.aQuoteFix = true) (hc : cfg.contFix = true) (now : Int)
    (mem : List Nat) (hw : Wf mem) : Good (LinkOk cfg) (B mem) (parseAtvef cfg now mem) :=
  atvefLoop_good cfg hb hq hc mem (mem.length + 1) mem _ (Nat.lt_succ_self _) hw (linkOk_init cfg hb now)
end Zvbi.Trig
