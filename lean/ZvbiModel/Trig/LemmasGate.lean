import ZvbiModel.Trig.Model
/-! # The checksum gate: a parser accepts a string only at its end or behind a checksum attribute which verified -/
namespace Zvbi.Trig

/-- how an accepted parse ended: the cursor stands on the terminating NUL, or a checksum attribute was verified over
the bytes in front of it -/
def Gate (mem rest' : List Nat) : Prop :=
  rest'.head? = some 0 ∨ ∃ k attr, verifyChecksum (mem.take k) (toI32 (strtoul attr 16).1) = true

def GateR (mem : List Nat) : R (Option (Trigger × List Nat)) → Prop
  | .ok (some (_, rest')) => Gate mem rest'
  | _ => True

theorem atvefLoop_gate (cfg : Cfg) (mem : List Nat) :
    ∀ (fuel : Nat) (rest : List Nat) (t : Trigger), GateR mem (atvefLoop cfg mem fuel rest t) := by
  intro fuel
  induction fuel with
  | zero => intro rest t; trivial
  | succ fuel ih =>
    intro rest t
    cases rest with
    | nil => trivial
    | cons c r =>
      unfold atvefLoop
      simp only
      by_cases h60 : c = 60
      · simp only [h60, if_true]
        split
        · trivial
        · generalize urlLoop cfg.aUrlLim cfg.urlSize r [] = res
          match res with
          | .error _ => trivial
          | .ok none => trivial
          | .ok (some (url, rest')) => exact ih _ _
      · simp only [h60, if_false]
        by_cases hbr : c = 91
        · simp only [hbr, if_true]
          generalize attrLoop cfg.aAttrLim cfg.aBufSize 93 r [] = res
          match res with
          | .error _ => trivial
          | .ok none => trivial
          | .ok (some (attr, term, rest1)) =>
            simp only
            generalize store "attr:nul" cfg.aBufSize attr.length = sr
            match sr with
            | .error _ => trivial
            | .ok _ =>
              simp only
              split
              · trivial
              · split
                · generalize bareType cfg attr cfg.typeLoopLo (cfg.typeLoopHi - cfg.typeLoopLo) = br
                  match br with
                  | .error _ => trivial
                  | .ok (some i) => exact ih _ _
                  | .ok none =>
                    simp only
                    split
                    · rename_i hv
                      cases atvefFinish t with
                      | none => trivial
                      | some t' => exact Or.inr ⟨_, _, hv⟩
                    · trivial
                · generalize textLoop cfg.aQuoteFix cfg.aTextLim cfg.aBufSize 93 (attr.length + 1) rest1.tail = tr
                  match tr with
                  | .error _ => trivial
                  | .ok none => trivial
                  | .ok (some (text, rest2)) =>
                    simp only
                    generalize atvefAttr cfg t attr text = ar
                    match ar with
                    | .error _ => trivial
                    | .ok none => trivial
                    | .ok (some t') => exact ih _ _
        · simp only [hbr, if_false]
          by_cases h0 : c = 0
          · simp only [h0, if_true]
            cases atvefFinish t with
            | none => trivial
            | some t' => exact Or.inl (by simp)
          · simp only [h0, if_false]; trivial

theorem eacemLoop_gate (cfg : Cfg) (nuid : Nat) (now : Int) (mem : List Nat) :
    ∀ (fuel : Nat) (rest : List Nat) (t : Trigger) (active : Int), GateR mem (eacemLoop cfg nuid now mem fuel rest t active) := by
  intro fuel
  induction fuel with
  | zero => intro rest t active; trivial
  | succ fuel ih =>
    intro rest t active
    cases rest with
    | nil => trivial
    | cons c r =>
      unfold eacemLoop
      simp only
      by_cases h60 : c = 60
      · simp only [h60, if_true]
        split
        · trivial
        · generalize urlLoop cfg.eUrlLim cfg.urlSize r [] = res
          match res with
          | .error _ => trivial
          | .ok none => trivial
          | .ok (some (url, rest')) => exact ih _ _ _
      · simp only [h60, if_false]
        by_cases hbr : c = 91 ∨ c = 40
        · simp only [hbr, if_true]
          generalize attrLoop cfg.eAttrLim cfg.eBufSize (if c = 91 then 93 else 41) r [] = res
          match res with
          | .error _ => trivial
          | .ok none => trivial
          | .ok (some (attr, term, rest1)) =>
            simp only
            generalize store "attr:nul" cfg.eBufSize attr.length = sr
            match sr with
            | .error _ => trivial
            | .ok _ =>
              simp only
              split
              · trivial
              · split
                · split
                  · rename_i hv
                    generalize eacemFinish nuid t active = fr
                    match fr with
                    | .error _ => trivial
                    | .ok none => trivial
                    | .ok (some t') => exact Or.inr ⟨_, _, hv⟩
                  · trivial
                · generalize textLoop cfg.eQuoteFix cfg.eTextLim cfg.eBufSize (if c = 91 then 93 else 41) (attr.length + 1) rest1.tail = tr
                  match tr with
                  | .error _ => trivial
                  | .ok none => trivial
                  | .ok (some (text, rest2)) =>
                    simp only
                    generalize eacemAttr cfg now t active attr text = ar
                    match ar with
                    | .error _ => trivial
                    | .ok none => trivial
                    | .ok (some (t', active')) => exact ih _ _ _
        · simp only [hbr, if_false]
          by_cases h0 : c = 0
          · simp only [h0, if_true]
            generalize eacemFinish nuid t active = fr
            match fr with
            | .error _ => trivial
            | .ok none => trivial
            | .ok (some t') => exact Or.inl (by simp)
          · simp only [h0, if_false]; trivial
end Zvbi.Trig
