import ZvbiModel.Trig.LemmasList
import ZvbiModel.Trig.Spec
/-!
# All histories: the ITV buffer index, the book-keeping invariant, no fault
-/
namespace Zvbi.Trig

/-- every fix of fixes/C01-trig-*.diff that concerns memory safety is present -/
structure Cfg.Repaired (cfg : Cfg) : Prop where
  eq : cfg.eQuoteFix = true
  aq : cfg.aQuoteFix = true
  cont : cfg.contFix = true
  wdef : cfg.walkFixDeferred = true
  wdel : cfg.walkFixDelete = true

/-- state invariant over all histories: allocation book-keeping, `itv_count <= sizeof (itv_buf) - 1`, no NUL stored -/
def ItvInv (cfg : Cfg) (st : St) : Prop := Inv st ∧ st.itv.length ≤ cfg.itvResetAbove + 1 ∧ NZ st.itv

def GoodI (cfg : Cfg) : R (St × List Link) → Prop
  | .error (.ovf _) => True
  | .error _ => False
  | .ok (st', _) => ItvInv cfg st'

theorem wf_of_nz {l : List Nat} (h : NZ l) : Wf (l ++ [0]) := ⟨l, rfl, h⟩

theorem goodI_of_goodSt {cfg : Cfg} {st0 : St} {r : R (St × List Link)} (h : GoodSt st0 r)
    (hl : st0.itv.length ≤ cfg.itvResetAbove + 1) (hz : NZ st0.itv) : GoodI cfg r := by
  match r, h with
  | .error (.ovf _), _ => trivial
  | .ok (st', _), h => exact ⟨h.1, by rw [h.2]; exact hl, by rw [h.2]; exact hz⟩

theorem itvStep_good (cfg : Cfg) (hb : cfg.BoundsOk) (hr : cfg.Repaired) (st : St) (c : Nat) (hi : ItvInv cfg st) :
    GoodI cfg (itvStep cfg st c) := by
  obtain ⟨hinv, hlen, hz⟩ := hi
  have hsz := hb.itv
  unfold itvStep
  have hnul : store "itv:nul" cfg.itvBufSize st.itv.length = .ok () := store_ok (by omega)
  have htrig := atvefTrigger_good cfg hb hr.aq hr.cont hr.wdel { st with itv := [] } (st.itv ++ [0]) (wf_of_nz hz) hinv
  split
  · rename_i hc
    split
    · rw [hnul]
      simp only
      revert htrig
      generalize atvefTrigger cfg { st with itv := [] } (st.itv ++ [0]) = tr
      intro htrig
      match tr, htrig with
      | .error (.ovf _), _ => trivial
      | .ok (st', ev), h =>
        simp only
        rw [store_ok (by omega)]
        refine ⟨h.1, by simp, ?_⟩
        intro x hx
        simp at hx
        omega
    · have hcur : (if st.itv.length > cfg.itvResetAbove then [] else st.itv).length ≤ cfg.itvResetAbove := by
        split
        · simp
        · omega
      have hcz : NZ (if st.itv.length > cfg.itvResetAbove then [] else st.itv) := by
        split
        · intro x hx; simp at hx
        · exact hz
      simp only
      rw [store_ok (by omega)]
      exact ⟨hinv, by simp; omega, hcz.snoc (by omega)⟩
  · rw [hnul]
    simp only
    exact goodI_of_goodSt htrig (by simp) (by intro x hx; simp at hx)

theorem itvFeed_good (cfg : Cfg) (hb : cfg.BoundsOk) (hr : cfg.Repaired) :
    ∀ (bytes : List Nat) (st : St) (evs : List Link), ItvInv cfg st → GoodI cfg (itvFeed cfg st bytes evs) := by
  intro bytes
  induction bytes with
  | nil => intro st evs hi; exact hi
  | cons c cs ih =>
    intro st evs hi
    unfold itvFeed
    have := itvStep_good cfg hb hr st c hi
    revert this
    generalize itvStep cfg st c = r
    intro this
    match r, this with
    | .error (.ovf _), _ => trivial
    | .ok (st', ev), h => exact ih st' (evs ++ ev) h

theorem stepOp_good (cfg : Cfg) (hb : cfg.BoundsOk) (hr : cfg.Repaired) (st : St) (op : Op) (hi : ItvInv cfg st) :
    GoodI cfg (stepOp cfg st op) := by
  cases op with
  | eacem b =>
    exact goodI_of_goodSt (eacemTrigger_good cfg hb hr.eq hr.wdel _ st (cstr b) [] (Nat.lt_succ_self _) (wf_cstr b) hi.1) hi.2.1 hi.2.2
  | atvef b =>
    exact goodI_of_goodSt (atvefTrigger_good cfg hb hr.aq hr.cont hr.wdel st (cstr b) (wf_cstr b) hi.1) hi.2.1 hi.2.2
  | itv b => exact itvFeed_good cfg hb hr b st [] hi
  | time n => exact ⟨hi.1, hi.2.1, hi.2.2⟩
  | tick n =>
    obtain ⟨st', ev, hd, hinv, hitv, _, _⟩ := deferred_inv cfg { st with time := n } hi.1 hr.wdef
    show GoodI cfg (deferred cfg { st with time := n })
    rw [hd]
    exact ⟨hinv, by rw [hitv]; exact hi.2.1, by rw [hitv]; exact hi.2.2⟩
  | flush =>
    have := flush_inv st hi.1
    exact ⟨this.1, hi.2.1, hi.2.2⟩

def GoodRun (cfg : Cfg) : R St → Prop
  | .error (.ovf _) => True
  | .error _ => False
  | .ok st => ItvInv cfg st

theorem run_good (cfg : Cfg) (hb : cfg.BoundsOk) (hr : cfg.Repaired) :
    ∀ (ops : List Op) (st : St), ItvInv cfg st → GoodRun cfg (run cfg st ops) := by
  intro ops
  induction ops with
  | nil => intro st hi; exact hi
  | cons op ops ih =>
    intro st hi
    unfold run
    have := stepOp_good cfg hb hr st op hi
    revert this
    generalize stepOp cfg st op = r
    intro this
    match r, this with
    | .error (.ovf _), _ => trivial
    | .ok (st', _), h => exact ih st' h

theorem itvInv_init (cfg : Cfg) : ItvInv cfg {} := ⟨rfl, by simp, by intro x hx; simp at hx⟩
end Zvbi.Trig
