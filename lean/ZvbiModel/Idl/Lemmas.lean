import ZvbiModel.Hamm.Lemmas
import ZvbiModel.Idl.LemmasCrc
/-!
# Lemmas for the IDL demultiplexer (C15): dummy byte round trip, one transmitted packet through
`feed`, and the refinement of a whole transmission to `Spec.expected`.
-/
namespace Zvbi.Idl
open Zvbi.Hamm Zvbi.Gen


theorem unstuff_cons (h n t : Nat) (r : List Nat) : unstuff h n (t :: r) =
    if (t = 0 ∨ t = 0xFF) ∧ t = h then t :: unstuff h (n + 1) r
    else if n = 7 then unstuff t 0 r else t :: unstuff t 0 r := by
  rw [unstuff]

theorem stuff_cons (d h n b : Nat) (r : List Nat) : Spec.stuff d h n (b :: r) =
    if (b = 0 ∨ b = 0xFF) ∧ b = h then
      if n + 1 = 7 then b :: d :: Spec.stuff d d 0 r else b :: Spec.stuff d h (n + 1) r
    else b :: Spec.stuff d b 0 r := by
  rw [Spec.stuff]

theorem unstuff_stuff (d : Nat) (hd0 : d ≠ 0) (hdF : d ≠ 0xFF) (data : List Nat) :
    ∀ h n, n < 7 → unstuff h n (Spec.stuff d h n data) = data := by
  induction data with
  | nil => intro h n _; simp [Spec.stuff, unstuff]
  | cons b r ih =>
    intro h n hn
    rw [stuff_cons]
    by_cases hc : (b = 0 ∨ b = 0xFF) ∧ b = h
    · rw [if_pos hc]
      by_cases h7 : n + 1 = 7
      · rw [if_pos h7]
        have hd : ¬ ((d = 0 ∨ d = 0xFF) ∧ d = h) := by
          intro hh; rcases hh.1 with h0 | hF
          · exact hd0 h0
          · exact hdF hF
        rw [unstuff_cons, if_pos hc, unstuff_cons, if_neg hd, if_pos h7, ih d 0 (by omega)]
      · rw [if_neg h7, unstuff_cons, if_pos hc, ih h (n + 1) (by omega)]
    · have : ¬ n = 7 := by omega
      rw [if_neg hc, unstuff_cons, if_neg hc, if_neg this, ih b 0 (by omega)]

theorem spaOf_map_ham8 (spa : List Nat) (h : ∀ n ∈ spa, n < 16) :
    spaOf (spa.map ham8) = some (Spec.spaVal spa) := by
  induction spa with
  | nil => rfl
  | cons n r ih =>
    have hn : n < 16 := h n (by simp)
    simp only [List.map_cons, spaOf, unham8_ham8 n hn, ih (fun x hx => h x (by simp [hx])), Spec.spaVal]



/-- `idl_a_demux_feed` after the RI byte -/
def feedA3 (s : St) (buf : List Nat) (ft ial ri i : Nat) : St × Bool × Option Cb :=
  let crc := crcOf (buf.drop (4 + i))
  let (ci, i, crc) :=
    if ft &&& ftHaveCi ≠ 0 then (rd buf (4 + i), i + 1, crc)
    else (crc &&& 0xFF, i, crc ^^^ ((crc &&& 0xFF) ||| ((crc &&& 0xFF) <<< 8)))
  if crc ≠ 0 then
    if ri &&& riPacketRepeats = 0 then
      ({ s with ci := none, ri := none, flags := s.flags ||| idlDataLost }, false, none)
    else ({ s with ri := some (ri + 1) }, false, none)
  else deliver s buf ft ial ri ci i

/-- `idl_a_demux_feed` after the address comparison -/
def feedA2 (s : St) (buf : List Nat) (ft ial i : Nat) : St × Bool × Option Cb :=
  let (ri, i) := if ft &&& ftHaveRi ≠ 0 then (rd buf (4 + i), i + 1) else (0, i)
  feedA3 s buf ft ial ri i

theorem feedA_eq (s : St) (buf : List Nat) (ft : Nat) : feedA s buf ft =
    match unham8 (rd buf 3) with
    | none => (s, false, none)
    | some ial =>
      if ial &&& 7 = 7 then (s, true, none) else
      match spaOf ((buf.drop 4).take (ial &&& 7)) with
      | none => (s, false, none)
      | some spa => if spa ≠ s.address then (s, true, none) else feedA2 s buf ft ial (ial &&& 7) := rfl



theorem rd_app (pre : List Nat) (x : Nat) (rest : List Nat) (n : Nat) (h : pre.length = n) :
    rd (pre ++ x :: rest) n = x := by
  subst h; simp [rd]

theorem drop_app (pre rest : List Nat) (n : Nat) (h : pre.length = n) : (pre ++ rest).drop n = rest := by
  subst h; simp

theorem take_app (pre rest : List Nat) (n : Nat) (h : pre.length = n) : (pre ++ rest).take n = pre := by
  subst h; simp

theorem and_3f (n : Nat) (h : n < 64) : n &&& 0x3F = n := by
  have := Nat.and_two_pow_sub_one_eq_mod n 6
  simp at this; omega

/-- the slice of the buffer that `idl_a_demux_feed` runs the dummy byte loop over -/
def payloadSlice (buf : List Nat) (ft i : Nat) : List Nat :=
  if ft &&& ftHaveDl ≠ 0 then (buf.drop (4 + (i + 1))).take (min (rd buf (4 + i) &&& 0x3F) (36 - (i + 1)))
  else (buf.drop (4 + i)).take (36 - i)

/-- `deliver` when no repeat is pending and the packet is a first transmission -/
theorem deliver_first (s : St) (buf : List Nat) (ft ial ri ci i : Nat)
    (hsri : s.ri = none) (hrep : ri &&& 0xF = 0) :
    deliver s buf ft ial ri ci i =
      ({ s with ci := some (ci + 1), flags := (s.flags ||| Spec.lostFlag s.ci ci) &&& 0xFFFFFFFE }, true,
       some ⟨s.flags ||| Spec.lostFlag s.ci ci ||| (ial &&& 8), unstuff ci 0 (payloadSlice buf ft i)⟩) := by
  obtain ⟨ch, addr, sci, sri, fl⟩ := s
  simp only at hsri; subst hsri
  unfold deliver payloadSlice
  by_cases hdl : ft &&& ftHaveDl ≠ 0
  · cases sci with
    | none => simp [hrep, hdl, Spec.lostFlag, idlDependent]
    | some c =>
      by_cases hne : (ci ^^^ c) &&& 0xFF ≠ 0
      · simp [hrep, hdl, Spec.lostFlag, hne, idlDependent, idlDataLost]
      · simp [hrep, hdl, Spec.lostFlag, hne, idlDependent]
  · cases sci with
    | none => simp [hrep, hdl, Spec.lostFlag, idlDependent]
    | some c =>
      by_cases hne : (ci ^^^ c) &&& 0xFF ≠ 0
      · simp [hrep, hdl, Spec.lostFlag, hne, idlDependent, idlDataLost]
      · simp [hrep, hdl, Spec.lostFlag, hne, idlDependent]

/-- the payload slice of a buffer `P ++ [DL] ++ payload ++ pad ++ crc` -/
theorem payloadSlice_valid (P : List Nat) (i ft : Nat) (payload pad C2 : List Nat)
    (hP : P.length = 4 + i)
    (hlen : (if ft &&& 8 ≠ 0 then 1 else 0) + (payload.length + pad.length) = 36 - i) (hi : i ≤ 35)
    (hpad : ft &&& 8 = 0 → pad = []) :
    payloadSlice (P ++ ((if ft &&& 8 ≠ 0 then [payload.length] else []) ++ (payload ++ (pad ++ C2)))) ft i = payload := by
  unfold payloadSlice
  by_cases hdl : ft &&& 8 ≠ 0
  · have hdl' : ft &&& ftHaveDl ≠ 0 := hdl
    rw [if_pos hdl', if_pos hdl]
    rw [if_pos hdl] at hlen
    have hpl : payload.length < 64 := by omega
    have h1 : rd (P ++ ([payload.length] ++ (payload ++ (pad ++ C2)))) (4 + i) = payload.length :=
      rd_app P _ _ _ hP
    have h2 : (P ++ ([payload.length] ++ (payload ++ (pad ++ C2)))).drop (4 + (i + 1)) = payload ++ (pad ++ C2) := by
      have : P ++ ([payload.length] ++ (payload ++ (pad ++ C2))) = (P ++ [payload.length]) ++ (payload ++ (pad ++ C2)) := by simp
      rw [this]; exact drop_app _ _ _ (by simp [hP]; omega)
    rw [h1, h2, and_3f _ hpl]
    have h3 : min payload.length (36 - (i + 1)) = payload.length := by omega
    rw [h3, take_app _ _ _ rfl]
  · have hdl0 : ft &&& 8 = 0 := by omega
    have hdl' : ¬ (ft &&& ftHaveDl ≠ 0) := hdl
    rw [if_neg hdl', if_neg hdl]
    rw [if_neg hdl] at hlen
    have hp := hpad hdl0
    subst hp
    have h2 : (P ++ ([] ++ (payload ++ ([] ++ C2)))).drop (4 + i) = payload ++ C2 := by
      simp only [List.nil_append]; exact drop_app _ _ _ hP
    have h3 : 36 - i = payload.length := by simp at hlen; omega
    rw [h2, h3, take_app _ _ _ rfl]




theorem stuff_lt (d : Nat) (hd : d < 256) (data : List Nat) (hdata : ∀ b ∈ data, b < 256) :
    ∀ h n, ∀ b ∈ Spec.stuff d h n data, b < 256 := by
  induction data with
  | nil => intro h n b hb; simp [Spec.stuff] at hb
  | cons x r ih =>
    intro h n b hb
    have hx : x < 256 := hdata x (by simp)
    have ihr := ih (fun y hy => hdata y (by simp [hy]))
    rw [stuff_cons] at hb
    split at hb
    · split at hb
      · simp only [List.mem_cons] at hb
        rcases hb with rfl | rfl | hb
        · exact hx
        · exact hd
        · exact ihr _ _ b hb
      · simp only [List.mem_cons] at hb
        rcases hb with rfl | hb
        · exact hx
        · exact ihr _ _ b hb
    · simp only [List.mem_cons] at hb
      rcases hb with rfl | hb
      · exact hx
      · exact ihr _ _ b hb

/-- all bytes of the CRC region and the check bytes are bytes -/
theorem region_lt (p : Spec.Pkt) (hs : p.Shape) : ∀ b ∈ p.region ++ [p.crcLo, p.crcHi], b < 256 := by
  intro b hb
  have hpay : ∀ b ∈ p.payload, b < 256 := stuff_lt p.dummy hs.dummy_lt p.data hs.data_lt _ _
  have hlen : p.bytes.length = 42 := hs.length_eq
  have hpl : p.payload.length < 256 := by
    simp [Spec.Pkt.bytes, Spec.Pkt.region] at hlen; omega
  simp only [Spec.Pkt.region, List.mem_append, List.mem_cons, List.mem_nil_iff, or_false] at hb
  rcases hb with ((hb | hb | hb | hb) | rfl | rfl)
  · split at hb
    · simp at hb; subst hb; exact hs.ci_lt
    · simp at hb
  · split at hb
    · simp at hb; subst hb; exact hpl
    · simp at hb
  · exact hpay b hb
  · exact hs.pad_lt b hb
  · exact hs.crcLo_lt
  · exact hs.crcHi_lt


theorem haveCi_iff (p : Spec.Pkt) : p.haveCi = true ↔ p.ft &&& 4 ≠ 0 := by simp [Spec.Pkt.haveCi]
theorem haveRi_iff (p : Spec.Pkt) : p.haveRi = true ↔ p.ft &&& 2 ≠ 0 := by simp [Spec.Pkt.haveRi]
theorem haveDl_iff (p : Spec.Pkt) : p.haveDl = true ↔ p.ft &&& 8 ≠ 0 := by simp [Spec.Pkt.haveDl]

theorem region_cons_ci (p : Spec.Pkt) (h : p.ft &&& 4 ≠ 0) :
    p.region = p.ci :: ((if p.haveDl then [p.payload.length] else []) ++ (p.payload ++ p.pad)) := by
  simp [Spec.Pkt.region, Spec.Pkt.haveCi, h]

/-- CRC test of `idl_a_demux_feed` on an intact packet: passes, and yields the sender's CI -/
theorem feedA3_valid (s : St) (P : List Nat) (i ri : Nat) (p : Spec.Pkt) (hv : p.Valid)
    (hP : P.length = 4 + i) :
    feedA3 s (P ++ (p.region ++ [p.crcLo, p.crcHi])) p.ft p.ial ri i =
      deliver s (P ++ (p.region ++ [p.crcLo, p.crcHi])) p.ft p.ial ri p.ci
        (i + (if p.haveCi then 1 else 0)) := by
  unfold feedA3
  rw [drop_app _ _ _ hP, crcOf_eq _ (region_lt p hv.toShape)]
  have hres : Spec.crc (p.region ++ [p.crcLo, p.crcHi]) = if p.haveCi then 0 else p.ci * 257 := hv.crc_ok
  rw [hres]
  by_cases hci : p.ft &&& 4 ≠ 0
  · have h1 : p.haveCi = true := (haveCi_iff p).2 hci
    have h2 : p.ft &&& ftHaveCi ≠ 0 := hci
    have h3 : rd (P ++ (p.region ++ [p.crcLo, p.crcHi])) (4 + i) = p.ci := by
      rw [region_cons_ci p hci]; exact rd_app P _ _ _ hP
    simp [h1, h2, h3]
  · have h1 : p.haveCi = false := by
      cases h : p.haveCi with
      | false => rfl
      | true => exact absurd ((haveCi_iff p).1 h) hci
    have h2 : ¬ (p.ft &&& ftHaveCi ≠ 0) := hci
    have h4 := implicit_ci p.ci hv.ci_lt
    have h5 : p.ci * 257 ^^^ (p.ci ||| p.ci <<< 8) = 0 := by
      have := h4.2; rw [h4.1] at this; exact this
    simp [h1, h2, h4.1, h5]

theorem eq_of_xor_eq_zero (a b : Nat) (h : a ^^^ b = 0) : a = b := by
  have : a ^^^ b ^^^ b = 0 ^^^ b := by rw [h]
  rwa [Nat.xor_assoc, Nat.xor_self, Nat.xor_zero, Nat.zero_xor] at this

theorem or_shl8_shr8 : ∀ lo < 256, (lo ||| (lo <<< 8)) >>> 8 = lo := by decide +kernel

/-- CRC test on a damaged packet that announces no repeat: refused, loss remembered -/
theorem feedA3_damaged (s : St) (P : List Nat) (i ri : Nat) (p : Spec.Pkt) (hd : p.Damaged)
    (hP : P.length = 4 + i) (hri : ri &&& 0x80 = 0) :
    feedA3 s (P ++ (p.region ++ [p.crcLo, p.crcHi])) p.ft p.ial ri i =
      ({ s with ci := none, ri := none, flags := s.flags ||| 1 }, false, none) := by
  unfold feedA3
  rw [drop_app _ _ _ hP, crcOf_eq _ (region_lt p hd.toShape)]
  have hbad := hd.crc_bad
  have hrlt : Spec.crc (p.region ++ [p.crcLo, p.crcHi]) < 65536 := crc_lt _ (region_lt p hd.toShape)
  have hri' : ri &&& riPacketRepeats = 0 := hri
  by_cases hci : p.ft &&& 4 ≠ 0
  · have h1 : p.haveCi = true := (haveCi_iff p).2 hci
    have h2 : p.ft &&& ftHaveCi ≠ 0 := hci
    rw [h1] at hbad
    simp only [if_true] at hbad
    have hbad' : Spec.crc (p.region ++ [p.crcLo, p.crcHi]) ≠ 0 := hbad
    simp [h2, hbad', hri', idlDataLost]
  · have h1 : p.haveCi = false := by
      cases h : p.haveCi with
      | false => rfl
      | true => exact absurd ((haveCi_iff p).1 h) hci
    have h2 : ¬ (p.ft &&& ftHaveCi ≠ 0) := hci
    rw [h1] at hbad
    simp only [Bool.false_eq_true, if_false] at hbad
    have hbad' : Spec.crc (p.region ++ [p.crcLo, p.crcHi]) &&& 0xFF ≠ Spec.crc (p.region ++ [p.crcLo, p.crcHi]) >>> 8 := hbad
    generalize Spec.crc (p.region ++ [p.crcLo, p.crcHi]) = r at hbad' hrlt
    have hne : r ^^^ ((r &&& 0xFF) ||| ((r &&& 0xFF) <<< 8)) ≠ 0 := by
      intro h0
      have heq : r = (r &&& 0xFF) ||| ((r &&& 0xFF) <<< 8) := eq_of_xor_eq_zero _ _ h0
      have hlo : r &&& 0xFF < 256 := by
        have := Nat.and_two_pow_sub_one_eq_mod r 8
        simp at this; omega
      have := or_shl8_shr8 _ hlo
      rw [← heq] at this
      exact hbad' this.symm
    simp [h2, hne, hri', idlDataLost]


/-- everything before the CRC region: address bytes and the optional RI byte -/
def pktPre (p : Spec.Pkt) : List Nat :=
  [ham8 p.channel, ham8 15, ham8 p.ft, ham8 p.ial] ++ (p.spa.map ham8 ++ (if p.haveRi then [p.ri] else []))

theorem bytes_split (p : Spec.Pkt) : p.bytes = pktPre p ++ (p.region ++ [p.crcLo, p.crcHi]) := by
  simp [Spec.Pkt.bytes, pktPre]

theorem pktPre_length (p : Spec.Pkt) (hs : p.Shape) :
    (pktPre p).length = 4 + ((p.ial &&& 7) + (if p.haveRi then 1 else 0)) := by
  have := hs.spa_len
  unfold pktPre
  split <;> simp <;> omega

/-- header decoding of `vbi_idl_demux_feed` / `idl_a_demux_feed` on a packet of ours, up to the RI byte -/
theorem feed_hdr (s : St) (p : Spec.Pkt) (hs : p.Shape)
    (hch : s.channel = p.channel) (haddr : s.address = Spec.spaVal p.spa) :
    feed s p.bytes = feedA3 s p.bytes p.ft p.ial (if p.haveRi then p.ri else 0)
      ((p.ial &&& 7) + (if p.haveRi then 1 else 0)) := by
  have r0 : rd p.bytes 0 = ham8 p.channel := by simp [Spec.Pkt.bytes, rd]
  have r1 : rd p.bytes 1 = ham8 15 := by simp [Spec.Pkt.bytes, rd]
  have r2 : rd p.bytes 2 = ham8 p.ft := by simp [Spec.Pkt.bytes, rd]
  have r3 : rd p.bytes 3 = ham8 p.ial := by simp [Spec.Pkt.bytes, rd]
  have hsp : (p.bytes.drop 4).take (p.ial &&& 7) = p.spa.map ham8 := by
    have : p.bytes.drop 4 = p.spa.map ham8 ++ ((if p.haveRi then [p.ri] else []) ++ (p.region ++ [p.crcLo, p.crcHi])) := by
      simp [Spec.Pkt.bytes]
    rw [this]; exact take_app _ _ _ (by simp [hs.spa_len])
  unfold feed
  rw [r0, r1, r2, unham8_ham8 _ hs.channel_lt, unham8_ham8 15 (by decide), unham8_ham8 _ hs.ft_lt]
  simp only [ne_eq, not_true_eq_false, hch, false_or, if_false, hs.ft_a, if_true]
  rw [feedA_eq, r3, unham8_ham8 _ hs.ial_lt]
  simp only [hs.spa_len_ne, if_false, hsp, spaOf_map_ham8 _ hs.spa_lt, haddr, ne_eq, not_true_eq_false]
  unfold feedA2
  by_cases hri : p.ft &&& 2 ≠ 0
  · have h1 : p.haveRi = true := (haveRi_iff p).2 hri
    have h2 : p.ft &&& ftHaveRi ≠ 0 := hri
    have h3 : rd p.bytes (4 + (p.ial &&& 7)) = p.ri := by
      have : p.bytes = ([ham8 p.channel, ham8 15, ham8 p.ft, ham8 p.ial] ++ p.spa.map ham8) ++
          (p.ri :: (p.region ++ [p.crcLo, p.crcHi])) := by simp [Spec.Pkt.bytes, h1]
      rw [this]; exact rd_app _ _ _ _ (by simp [hs.spa_len]; omega)
    simp [h1, h2, h3]
  · have h1 : p.haveRi = false := by
      cases h : p.haveRi with
      | false => rfl
      | true => exact absurd ((haveRi_iff p).1 h) hri
    have h2 : ¬ (p.ft &&& ftHaveRi ≠ 0) := hri
    simp [h1, h2]


theorem bytes_split2 (p : Spec.Pkt) :
    p.bytes = (pktPre p ++ (if p.haveCi then [p.ci] else [])) ++
      ((if p.ft &&& 8 ≠ 0 then [p.payload.length] else []) ++ (p.payload ++ (p.pad ++ [p.crcLo, p.crcHi]))) := by
  simp [Spec.Pkt.bytes, pktPre, Spec.Pkt.region, Spec.Pkt.haveDl]

theorem layout_len (p : Spec.Pkt) (hs : p.Shape) :
    (if p.ft &&& 8 ≠ 0 then 1 else 0) + (p.payload.length + p.pad.length) =
      36 - ((p.ial &&& 7) + (if p.haveRi then 1 else 0) + (if p.haveCi then 1 else 0)) ∧
    (p.ial &&& 7) + (if p.haveRi then 1 else 0) + (if p.haveCi then 1 else 0) ≤ 35 := by
  have hlen := hs.length_eq
  have hsp := hs.spa_len
  have hne := hs.spa_len_ne
  have hlt : p.ial &&& 7 < 8 := by
    have := Nat.and_two_pow_sub_one_eq_mod p.ial 3
    simp at this; omega
  rw [bytes_split2] at hlen
  simp only [List.length_append, pktPre, List.length_cons, List.length_nil, List.length_map] at hlen
  cases h1 : p.haveRi <;> cases h2 : p.haveCi <;> by_cases h3 : p.ft &&& 8 ≠ 0 <;>
    simp only [h1, h2, h3, if_true, if_false, Bool.false_eq_true, List.length_cons, List.length_nil,
      not_false_eq_true, ne_eq] at hlen ⊢ <;> omega

/-- **one intact first transmission**: delivered with exactly the sent user data; the expected
    continuity index advances; DATA_LOST iff the index does not continue the previous one -/
theorem feed_data (s : St) (p : Spec.Pkt) (hv : p.Valid)
    (hch : s.channel = p.channel) (haddr : s.address = Spec.spaVal p.spa)
    (hsri : s.ri = none) (hrep : p.haveRi = true → p.ri &&& 0xF = 0) :
    feed s p.bytes =
      ({ s with ci := some (p.ci + 1), flags := (s.flags ||| Spec.lostFlag s.ci p.ci) &&& 0xFFFFFFFE }, true,
       some ⟨s.flags ||| Spec.lostFlag s.ci p.ci ||| (p.ial &&& 8), p.data⟩) := by
  have hs := hv.toShape
  rw [feed_hdr s p hs hch haddr]
  have hsplit := bytes_split p
  rw [hsplit, feedA3_valid s (pktPre p) _ _ p hv (pktPre_length p hs), ← hsplit]
  have hrep' : (if p.haveRi then p.ri else 0) &&& 0xF = 0 := by
    cases h : p.haveRi with
    | false => simp
    | true => simpa using hrep h
  rw [deliver_first s _ _ _ _ _ _ hsri hrep']
  have hl := layout_len p hs
  have hP : (pktPre p ++ (if p.haveCi then [p.ci] else [])).length =
      4 + ((p.ial &&& 7) + (if p.haveRi then 1 else 0) + (if p.haveCi then 1 else 0)) := by
    rw [List.length_append, pktPre_length p hs]
    cases p.haveCi <;> simp <;> omega
  have hpad : p.ft &&& 8 = 0 → p.pad = [] := by
    intro h; apply hs.pad_nil; simp [Spec.Pkt.haveDl, h]
  have hps := payloadSlice_valid _ _ p.ft p.payload p.pad [p.crcLo, p.crcHi] hP hl.1 hl.2 hpad
  rw [← bytes_split2] at hps
  rw [hps]
  have : unstuff p.ci 0 p.payload = p.data :=
    unstuff_stuff p.dummy hs.dummy_ne.1 hs.dummy_ne.2 p.data p.ci 0 (by decide)
  rw [this]


/-- an intact repeat of a packet is discarded when no repeat is awaited -/
theorem feed_rep (s : St) (p : Spec.Pkt) (hv : p.Valid)
    (hch : s.channel = p.channel) (haddr : s.address = Spec.spaVal p.spa)
    (hsri : s.ri = none) (hri : p.haveRi = true) (hrep : p.ri &&& 0xF ≠ 0) :
    feed s p.bytes = (s, true, none) := by
  have hs := hv.toShape
  rw [feed_hdr s p hs hch haddr]
  have hsplit := bytes_split p
  rw [hsplit, feedA3_valid s (pktPre p) _ _ p hv (pktPre_length p hs), ← hsplit]
  unfold deliver
  simp [hsri, hri, hrep]

/-- a damaged packet of ours is refused and the loss is remembered -/
theorem feed_damaged (s : St) (p : Spec.Pkt) (hd : p.Damaged)
    (hch : s.channel = p.channel) (haddr : s.address = Spec.spaVal p.spa) :
    feed s p.bytes = ({ s with ci := none, ri := none, flags := s.flags ||| 1 }, false, none) := by
  have hs := hd.toShape
  rw [feed_hdr s p hs hch haddr]
  have hsplit := bytes_split p
  have hri : (if p.haveRi then p.ri else 0) &&& 0x80 = 0 := by
    cases h : p.haveRi with
    | false => simp
    | true => simpa using hd.no_repeat h
  rw [hsplit, feedA3_damaged s (pktPre p) _ _ p hd (pktPre_length p hs) hri]

theorem spaOf_eq_spaDecode (l : List Nat) : spaOf l = Spec.spaDecode l := by
  induction l with
  | nil => rfl
  | cons b r ih =>
    rw [spaOf, Spec.spaDecode, ih]
    cases unham8 b <;> cases Spec.spaDecode r <;> rfl

/-- packets that are not ours change nothing and deliver nothing -/
theorem feed_foreign (s : St) (buf : List Nat) (h : Spec.NotForUs s.channel s.address buf) :
    (feed s buf).1 = s ∧ (feed s buf).2.2 = none := by
  unfold Spec.NotForUs at h
  unfold feed rd
  cases h0 : unham8 (buf.getD 0 0) with
  | none => simp
  | some c =>
    cases h1 : unham8 (buf.getD 1 0) with
    | none => simp
    | some d =>
      rw [h0, h1] at h
      simp only at h
      by_cases hdc : d ≠ 15 ∨ c ≠ s.channel
      · simp [hdc]
      · simp only [hdc, if_false]
        have h' := h.resolve_left (fun hd => hdc (Or.inl hd)) |>.resolve_left (fun hc => hdc (Or.inr hc))
        cases h2 : unham8 (buf.getD 2 0) with
        | none => simp
        | some ft =>
          rw [h2] at h'
          simp only at h'
          by_cases hft : ft &&& 1 = 0
          · simp only [hft, if_true]
            have h'' := h'.resolve_left (by omega)
            rw [feedA_eq]
            unfold rd
            cases h3 : unham8 (buf.getD 3 0) with
            | none => simp
            | some ial =>
              rw [h3] at h''
              simp only at h''
              by_cases h7 : ial &&& 7 = 7
              · simp [h7]
              · simp only [h7, if_false]
                have h4 := h''.resolve_left h7
                rw [spaOf_eq_spaDecode]
                cases h5 : Spec.spaDecode ((buf.drop 4).take (ial &&& 7)) with
                | none => simp
                | some spa =>
                  rw [h5] at h4
                  have : spa ≠ s.address := fun e => h4 (by rw [e])
                  simp [this]
          · simp only [hft, if_false]
            trivial

/-- callbacks (in order) of feeding the packets in order -/
def run (s : St) : List (List Nat) → List Cb
  | [] => []
  | b :: r => (feed s b).2.2.toList ++ run (feed s b).1 r




/-- **refinement**: feeding any legitimate transmission hands the application exactly
    `Spec.expected` -/
theorem run_refines (txs : List Spec.Tx) (hnr : ∀ t ∈ txs, ∀ p, t ≠ Spec.Tx.damagedRep p) :
    ∀ (s : St), s.ri = none →
    (∀ t ∈ txs, Spec.Tx.Sent s.channel s.address t) →
    (run s (txs.map Spec.Tx.bytes)).map (fun cb => (cb.flags, cb.bytes)) = Spec.expected s.flags s.ci txs := by
  induction txs with
  | nil => intro s _ _; rfl
  | cons t r ih =>
    intro s hsri hall
    have ht := hall t (by simp)
    have hr : ∀ t ∈ r, Spec.Tx.Sent s.channel s.address t := fun x hx => hall x (by simp [hx])
    have ih := ih (fun x hx p => hnr x (by simp [hx]) p)
    cases t with
    | damagedRep p => exact absurd rfl (hnr _ (by simp) p)
    | data p =>
      obtain ⟨hv, hch, haddr, hrep⟩ := ht
      have hf := feed_data s p hv hch.symm haddr.symm hsri hrep
      simp only [List.map_cons, Spec.Tx.bytes, run, hf, Option.toList, List.singleton_append, Spec.expected]
      congr 1
      exact ih _ hsri hr
    | rep p =>
      obtain ⟨hv, hch, haddr, hri, hrep⟩ := ht
      have hf := feed_rep s p hv hch.symm haddr.symm hsri hri hrep
      simp only [List.map_cons, Spec.Tx.bytes, run, hf, Option.toList, List.nil_append, Spec.expected]
      exact ih s hsri hr
    | damaged p =>
      obtain ⟨hd, hch, haddr⟩ := ht
      have hf := feed_damaged s p hd hch.symm haddr.symm
      simp only [List.map_cons, Spec.Tx.bytes, run, hf, Option.toList, List.nil_append, Spec.expected]
      exact ih _ rfl hr
    | foreign b =>
      have hf := feed_foreign s b ht
      simp only [List.map_cons, Spec.Tx.bytes, run, hf.1, hf.2, Option.toList, List.nil_append, Spec.expected]
      exact ih s hsri hr


theorem feedA3_gate (s : St) (buf : List Nat) (ft ial ri i : Nat) (cb : Cb)
    (h : (feedA3 s buf ft ial ri i).2.2 = some cb) :
    (if ft &&& 4 ≠ 0 then crcOf (buf.drop (4 + i)) = 0
     else crcOf (buf.drop (4 + i)) ^^^ ((crcOf (buf.drop (4 + i)) &&& 0xFF) ||| ((crcOf (buf.drop (4 + i)) &&& 0xFF) <<< 8)) = 0) := by
  unfold feedA3 at h
  by_cases hci : ft &&& 4 ≠ 0
  · have h2 : ft &&& ftHaveCi ≠ 0 := hci
    rw [if_pos hci]
    by_cases hc : crcOf (buf.drop (4 + i)) = 0
    · exact hc
    · exfalso
      simp [h2, hc] at h
      split at h <;> simp at h
  · have h2 : ft &&& ftHaveCi = 0 := by
      have : ft &&& 4 = 0 := by omega
      exact this
    rw [if_neg hci]
    by_cases hc : crcOf (buf.drop (4 + i)) ^^^ ((crcOf (buf.drop (4 + i)) &&& 0xFF) ||| ((crcOf (buf.drop (4 + i)) &&& 0xFF) <<< 8)) = 0
    · exact hc
    · exfalso
      simp [h2, hc] at h
      split at h <;> simp at h

theorem and_ff_lt (r : Nat) : r &&& 0xFF < 256 := by
  have := Nat.and_two_pow_sub_one_eq_mod r 8
  simp at this; omega

/-- **CRC / Hamming gate**: whatever the state and whatever the 42 bytes, a callback happens
    only for a packet whose header decodes as ours and whose check sum is acceptable -/
theorem feed_gate (s : St) (buf : List Nat) (cb : Cb) (hb : ∀ b ∈ buf, b < 256)
    (h : (feed s buf).2.2 = some cb) : ¬ Spec.NotForUs s.channel s.address buf ∧ Spec.ChecksumOk buf := by
  refine ⟨fun hn => ?_, ?_⟩
  · have := (feed_foreign s buf hn).2
    rw [this] at h; cases h
  · revert h
    unfold feed rd
    cases h0 : unham8 (buf.getD 0 0) with
    | none => intro h; simp at h
    | some c =>
      cases h1 : unham8 (buf.getD 1 0) with
      | none => intro h; simp at h
      | some d =>
        by_cases hdc : d ≠ 15 ∨ c ≠ s.channel
        · intro h; simp [hdc] at h
        · simp only [hdc, if_false]
          cases h2 : unham8 (buf.getD 2 0) with
          | none => intro h; simp at h
          | some ft =>
            by_cases hft : ft &&& 1 = 0
            · simp only [hft, if_true]
              rw [feedA_eq]
              unfold rd
              cases h3 : unham8 (buf.getD 3 0) with
              | none => intro h; simp at h
              | some ial =>
                by_cases h7 : ial &&& 7 = 7
                · intro h; simp [h7] at h
                · simp only [h7, if_false]
                  cases h5 : spaOf ((buf.drop 4).take (ial &&& 7)) with
                  | none => intro h; simp at h
                  | some spa =>
                    by_cases hsp : spa ≠ s.address
                    · intro h; simp [hsp] at h
                    · simp only [hsp, if_false]
                      unfold feedA2
                      intro h
                      refine ⟨ft, ial, h2, h3, ?_⟩
                      have hdrop : ∀ n, ∀ b ∈ buf.drop n, b < 256 := fun n b hbm => hb b (List.mem_of_mem_drop hbm)
                      by_cases hri : ft &&& 2 ≠ 0
                      · have hri' : ft &&& ftHaveRi ≠ 0 := hri
                        rw [if_pos hri'] at h
                        have g := feedA3_gate _ _ _ _ _ _ _ h
                        rw [if_pos hri]
                        rw [crcOf_eq _ (hdrop _)] at g
                        by_cases hci : ft &&& 4 ≠ 0
                        · rw [if_pos hci] at g ⊢; exact g
                        · rw [if_neg hci] at g ⊢
                          have heq := eq_of_xor_eq_zero _ _ g
                          have := or_shl8_shr8 _ (and_ff_lt (Spec.crc (buf.drop (4 + ((ial &&& 7) + 1)))))
                          rw [← heq] at this
                          exact this.symm
                      · have hri' : ¬ (ft &&& ftHaveRi ≠ 0) := hri
                        rw [if_neg hri'] at h
                        have g := feedA3_gate _ _ _ _ _ _ _ h
                        rw [if_neg hri, Nat.add_zero]
                        rw [crcOf_eq _ (hdrop _)] at g
                        by_cases hci : ft &&& 4 ≠ 0
                        · rw [if_pos hci] at g ⊢; exact g
                        · rw [if_neg hci] at g ⊢
                          have heq := eq_of_xor_eq_zero _ _ g
                          have := or_shl8_shr8 _ (and_ff_lt (Spec.crc (buf.drop (4 + (ial &&& 7)))))
                          rw [← heq] at this
                          exact this.symm
            · intro h; simp only [hft, if_false] at h; cases h



/-- executable version of `Spec.Pkt.Valid` (for concrete instances) -/
def validB (p : Spec.Pkt) : Bool :=
  decide (p.channel < 16) && decide (p.ft < 16) && decide (p.ft &&& 1 = 0) && decide (p.ial < 16) &&
  decide (p.spa.length = p.ial &&& 7) && decide (p.ial &&& 7 ≠ 7) && p.spa.all (· < 16) &&
  decide (p.ri < 256) && decide (p.ci < 256) && p.data.all (· < 256) && decide (p.dummy < 256) &&
  decide (p.dummy ≠ 0 ∧ p.dummy ≠ 0xFF) && p.pad.all (· < 256) && (p.haveDl || decide (p.pad = [])) &&
  decide (p.crcLo < 256) && decide (p.crcHi < 256) && decide (p.bytes.length = 42) &&
  decide (p.residual = if p.haveCi then 0 else p.ci * 257)

theorem valid_of_validB (p : Spec.Pkt) (h : validB p = true) : p.Valid := by
  simp only [validB, Bool.and_eq_true, decide_eq_true_eq, List.all_eq_true, Bool.or_eq_true] at h
  obtain ⟨⟨⟨⟨⟨⟨⟨⟨⟨⟨⟨⟨⟨⟨⟨⟨⟨h1, h2⟩, h3⟩, h4⟩, h5⟩, h6⟩, h7⟩, h8⟩, h9⟩, h10⟩, h11⟩, h12⟩, h13⟩, h14⟩, h15⟩, h16⟩, h17⟩, h18⟩ := h
  exact { channel_lt := h1, ft_lt := h2, ft_a := h3, ial_lt := h4, spa_len := h5, spa_len_ne := h6,
          spa_lt := h7, ri_lt := h8, ci_lt := h9, data_lt := h10, dummy_lt := h11, dummy_ne := h12,
          pad_lt := h13,
          pad_nil := by
            intro hd; rcases h14 with h | h
            · rw [hd] at h; cases h
            · exact h
          crcLo_lt := h15, crcHi_lt := h16, length_eq := h17, crc_ok := h18 }

end Zvbi.Idl
