import ZvbiModel.Hamm.Lemmas
import ZvbiModel.Idl.Model
import ZvbiModel.Idl.Spec
/-!
# CRC lemmas for the IDL demultiplexer (C15): table driven CRC = bit-serial CRC
(the 65536 case `decide` lives here so that it is built once).
-/
namespace Zvbi.Idl
open Zvbi.Hamm Zvbi.Gen

/-! ## CRC -/

/-- every entry of the table computed by `init_crc16_table` is the bit-serial CRC of that byte -/
theorem crcTab_eq_shift8 : ∀ i < 256, crcTab i = Spec.shift8 i := by decide +kernel

theorem shift8_byte_lt : ∀ i < 256, Spec.shift8 i < 65536 := by decide +kernel

theorem shift8_split' : ∀ h < 256, ∀ l < 256, Spec.shift8 (h * 256 + l) = h ^^^ Spec.shift8 l := by
  decide +kernel

/-- eight shifts of a 16 bit register: the high byte moves down, the low byte is reduced -/
theorem shift8_split (w : Nat) (hw : w < 65536) :
    Spec.shift8 w = (w >>> 8) ^^^ Spec.shift8 (w &&& 0xFF) := by
  have h1 : w >>> 8 = w / 256 := by rw [Nat.shiftRight_eq_div_pow]
  have h2 : w &&& 0xFF = w % 256 := Nat.and_two_pow_sub_one_eq_mod w 8
  rw [h1, h2]
  have := shift8_split' (w / 256) (by omega) (w % 256) (by omega)
  rwa [Nat.div_add_mod' w 256] at this

theorem shift8_lt (w : Nat) (hw : w < 65536) : Spec.shift8 w < 65536 := by
  rw [shift8_split w hw]
  have h1 : w >>> 8 < 2 ^ 16 := by rw [Nat.shiftRight_eq_div_pow]; omega
  have h2 : Spec.shift8 (w &&& 0xFF) < 2 ^ 16 := by
    have : w &&& 0xFF < 256 := by
      have := Nat.and_two_pow_sub_one_eq_mod w 8
      simp at this; omega
    exact shift8_byte_lt _ this
  exact Nat.xor_lt_two_pow h1 h2

/-- the table-driven update of `idl_a_demux_feed` is the bit-serial CRC step -/
theorem crcStep_eq (c b : Nat) (hc : c < 65536) (hb : b < 256) : crcStep c b = Spec.crcByte c b := by
  unfold crcStep Spec.crcByte
  have hw : c ^^^ b < 2 ^ 16 := Nat.xor_lt_two_pow (by omega) (by omega)
  rw [shift8_split (c ^^^ b) hw]
  have hb8 : b >>> 8 = 0 := by rw [Nat.shiftRight_eq_div_pow]; omega
  have hbm : b &&& 0xFF = b := by
    have := Nat.and_two_pow_sub_one_eq_mod b 8
    simp at this; omega
  have h1 : (c ^^^ b) >>> 8 = c >>> 8 := by rw [Nat.shiftRight_xor_distrib, hb8, Nat.xor_zero]
  have h2 : (c ^^^ b) &&& 0xFF = (c &&& 0xFF) ^^^ b := by rw [Nat.and_xor_distrib_right, hbm]
  rw [h1, h2]
  have hx : (c &&& 0xFF) ^^^ b < 2 ^ 8 := by
    apply Nat.xor_lt_two_pow
    · have := Nat.and_two_pow_sub_one_eq_mod c 8
      simp at this; omega
    · omega
  rw [crcTab_eq_shift8 _ hx]

theorem crcByte_lt (c b : Nat) (hc : c < 65536) (hb : b < 256) : Spec.crcByte c b < 65536 :=
  shift8_lt _ (Nat.xor_lt_two_pow (n := 16) (by omega) (by omega))

theorem foldl_crc_eq (bytes : List Nat) (hb : ∀ b ∈ bytes, b < 256) (c : Nat) (hc : c < 65536) :
    bytes.foldl crcStep c = bytes.foldl Spec.crcByte c ∧ bytes.foldl Spec.crcByte c < 65536 := by
  induction bytes generalizing c with
  | nil => exact ⟨rfl, hc⟩
  | cons b r ih =>
    have hb0 : b < 256 := hb b (by simp)
    simp only [List.foldl_cons]
    rw [crcStep_eq c b hc hb0]
    exact ih (fun x hx => hb x (by simp [hx])) _ (crcByte_lt c b hc hb0)

/-- the CRC loop of the demultiplexer computes the bit-serial CRC of x^16+x^9+x^7+x^4+1 -/
theorem crcOf_eq (bytes : List Nat) (hb : ∀ b ∈ bytes, b < 256) : crcOf bytes = Spec.crc bytes :=
  (foldl_crc_eq bytes hb 0 (by decide)).1

theorem crc_lt (bytes : List Nat) (hb : ∀ b ∈ bytes, b < 256) : Spec.crc bytes < 65536 :=
  (foldl_crc_eq bytes hb 0 (by decide)).2

/-- the generated polynomial is x^16+x^9+x^7+x^4+1, LSB first -/
theorem poly_spec : idlCrcPoly = 2 ^ 15 + 2 ^ 11 + 2 ^ 8 + 2 ^ 6 := by decide

/-- with an implicit continuity index the remainder `ci * 257` yields `ci` and a zero check -/
theorem implicit_ci : ∀ ci < 256, (ci * 257) &&& 0xFF = ci ∧
    (ci * 257) ^^^ (((ci * 257) &&& 0xFF) ||| (((ci * 257) &&& 0xFF) <<< 8)) = 0 := by decide +kernel

/-- `unshift8 ∘ unshift8` inverts sixteen shifts on the remainders the sender needs -/
theorem shift16_unshift16_zero : Spec.shift8 (Spec.shift8 (Spec.unshift8 (Spec.unshift8 0))) = 0 := by decide +kernel
theorem shift16_unshift16 : ∀ ci < 256,
    Spec.shift8 (Spec.shift8 (Spec.unshift8 (Spec.unshift8 (ci * 257)))) = ci * 257 := by decide +kernel
theorem unshift16_lt : ∀ ci < 256, Spec.unshift8 (Spec.unshift8 (ci * 257)) < 65536 := by decide +kernel

end Zvbi.Idl
