import ZvbiModel.Hamm.Model
/-!
# IdlSender: what a transmitter of EN 300 708 section 6.5 "IDL format A" packets sends

This is the abstract side of property C15 for the IDL demultiplexer.  It is written from the
packet layout (and, for the dummy bytes of 6.5.7.1, from libzvbi's reading, the standard text not
being available offline): a packet is

    ham8 channel, ham8 15, ham8 FT, ham8 IAL, SPA nibbles (ham8 each, low nibble first),
    [RI], { [CI], [DL], payload, padding }, CRC low, CRC high

The braces are the CRC region.  The CRC is the bit-serial CRC of x^16+x^9+x^7+x^4+1 (LSB first,
`shift1`); with an explicit CI the remainder over region+CRC is 0, without it the remainder is
`ci * 257` (the continuity index is folded into the check sum).  The payload is the user data with
a dummy byte inserted after each run of 8 equal bytes 0x00 / 0xFF, the run being counted from the
CI byte.  Nothing here mentions the demultiplexer.
-/
namespace Zvbi.Idl.Spec
open Zvbi.Hamm

/-- one bit of the serial CRC, generator x^16+x^9+x^7+x^4+1, LSB first (reflected: 0x8940) -/
def shift1 (c : Nat) : Nat := (c >>> 1) ^^^ (if c &&& 1 = 1 then 0x8940 else 0)

def shift8 (c : Nat) : Nat := shift1 (shift1 (shift1 (shift1 (shift1 (shift1 (shift1 (shift1 c)))))))

/-- CRC register after one more message byte -/
def crcByte (c b : Nat) : Nat := shift8 (c ^^^ b)

/-- CRC register after a message, starting from 0 -/
def crc (bytes : List Nat) : Nat := bytes.foldl crcByte 0

/-- inverse of `shift1` on 16-bit registers -/
def unshift1 (o : Nat) : Nat :=
  if o &&& 0x8000 ≠ 0 then ((o ^^^ 0x8940) <<< 1) ||| 1 else o <<< 1

def unshift8 (o : Nat) : Nat :=
  unshift1 (unshift1 (unshift1 (unshift1 (unshift1 (unshift1 (unshift1 (unshift1 o)))))))

/-- dummy byte insertion: `hist` is the previous byte (initially CI), `cnt` the number of
    repetitions of `hist` seen so far; after the 8th equal 0x00/0xFF byte the dummy `d` follows -/
def stuff (d : Nat) (hist cnt : Nat) : List Nat → List Nat
  | [] => []
  | b :: r =>
    if (b = 0 ∨ b = 0xFF) ∧ b = hist then
      if cnt + 1 = 7 then b :: d :: stuff d d 0 r
      else b :: stuff d hist (cnt + 1) r
    else b :: stuff d b 0 r

/-- service packet address value of its nibbles (low nibble first) -/
def spaVal : List Nat → Nat
  | [] => 0
  | n :: r => n ||| (spaVal r <<< 4)

/-- one transmitted format A packet -/
structure Pkt where
  channel : Nat
  ft : Nat            -- format type nibble: bit0 = 0 (format A), bit1 RI, bit2 CI, bit3 DL present
  ial : Nat           -- interpretation and address length nibble: bits 0-2 SPA length, bit 3 "dependent"
  spa : List Nat      -- service packet address nibbles
  ri : Nat            -- repeat indicator byte (sent iff FT bit 1)
  ci : Nat            -- continuity indicator (explicit byte iff FT bit 2, else inside the CRC)
  data : List Nat     -- user data bytes
  dummy : Nat         -- value used for dummy bytes
  pad : List Nat      -- bytes after the payload when a DL byte is present
  crcLo : Nat
  crcHi : Nat

namespace Pkt
def haveRi (p : Pkt) : Bool := p.ft &&& 2 ≠ 0
def haveCi (p : Pkt) : Bool := p.ft &&& 4 ≠ 0
def haveDl (p : Pkt) : Bool := p.ft &&& 8 ≠ 0

def payload (p : Pkt) : List Nat := stuff p.dummy p.ci 0 p.data

/-- CI, DL, payload, padding -/
def region (p : Pkt) : List Nat :=
  (if p.haveCi then [p.ci] else []) ++ ((if p.haveDl then [p.payload.length] else []) ++ (p.payload ++ p.pad))

def bytes (p : Pkt) : List Nat :=
  [ham8 p.channel, ham8 15, ham8 p.ft, ham8 p.ial] ++
    (p.spa.map ham8 ++ ((if p.haveRi then [p.ri] else []) ++ (p.region ++ [p.crcLo, p.crcHi])))

/-- layout and value ranges of a format A packet (everything but the check sum) -/
structure Shape (p : Pkt) : Prop where
  channel_lt : p.channel < 16
  ft_lt : p.ft < 16
  ft_a : p.ft &&& 1 = 0
  ial_lt : p.ial < 16
  spa_len : p.spa.length = p.ial &&& 7
  spa_len_ne : p.ial &&& 7 ≠ 7
  spa_lt : ∀ n ∈ p.spa, n < 16
  ri_lt : p.ri < 256
  ci_lt : p.ci < 256
  data_lt : ∀ b ∈ p.data, b < 256
  dummy_lt : p.dummy < 256
  dummy_ne : p.dummy ≠ 0 ∧ p.dummy ≠ 0xFF
  pad_lt : ∀ b ∈ p.pad, b < 256
  pad_nil : p.haveDl = false → p.pad = []
  crcLo_lt : p.crcLo < 256
  crcHi_lt : p.crcHi < 256
  length_eq : p.bytes.length = 42

/-- CRC register after the CRC region and the two check bytes -/
def residual (p : Pkt) : Nat := crc (p.region ++ [p.crcLo, p.crcHi])

/-- the packet is a correct format A packet: with an explicit CI the remainder is 0, otherwise
    the continuity index is the remainder's low and high byte -/
structure Valid (p : Pkt) : Prop extends Shape p where
  crc_ok : p.residual = if p.haveCi then 0 else p.ci * 257

/-- a packet of ours hit by a transmission error in its CRC region that the check sum reveals,
    and that does not announce a repeat -/
structure Damaged (p : Pkt) : Prop extends Shape p where
  crc_bad : if p.haveCi then p.residual ≠ 0 else (p.residual &&& 0xFF) ≠ (p.residual >>> 8)
  no_repeat : p.haveRi = true → p.ri &&& 0x80 = 0
/-- a packet of ours hit by a detectable transmission error that announces a repeat (RI bit 7) -/
structure DamagedRep (p : Pkt) : Prop extends Shape p where
  crc_bad : if p.haveCi then p.residual ≠ 0 else (p.residual &&& 0xFF) ≠ (p.residual >>> 8)
  announces : p.haveRi = true ∧ p.ri &&& 0x80 ≠ 0

/-- repeat indicator as the receiver reads it (0 without an RI byte) -/
def riv (p : Pkt) : Nat := if p.haveRi then p.ri else 0
end Pkt

/-- DATA_LOST bit a receiver expecting continuity index `expected` (if any) owes for a packet with index `ci` -/
def lostFlag (expected : Option Nat) (ci : Nat) : Nat :=
  match expected with
  | some c => if (ci ^^^ c) &&& 0xFF ≠ 0 then 1 else 0
  | none => 0

/-- decode SPA nibbles, `none` on an uncorrectable Hamming error -/
def spaDecode : List Nat → Option Nat
  | [] => some 0
  | b :: r =>
    match unham8 b, spaDecode r with
    | some n, some rest => some (n ||| (rest <<< 4))
    | _, _ => none

/-- a 42 byte Teletext packet that a receiver for `(channel, address)` has to ignore: not packet
    30/31 of that data channel, not format A, reserved address length, another service packet
    address - or one of these header bytes is damaged beyond repair -/
def NotForUs (channel address : Nat) (buf : List Nat) : Prop :=
  match unham8 (buf.getD 0 0), unham8 (buf.getD 1 0) with
  | some c, some d =>
    d ≠ 15 ∨ c ≠ channel ∨
    (match unham8 (buf.getD 2 0) with
     | none => True
     | some ft =>
       ft &&& 1 = 1 ∨
       (match unham8 (buf.getD 3 0) with
        | none => True
        | some ial => ial &&& 7 = 7 ∨ spaDecode ((buf.drop 4).take (ial &&& 7)) ≠ some address))
  | _, _ => True

/-- the check sum of a 42 byte packet read as format A is acceptable: FT and IAL decode, and the
    CRC register over everything after the address (and RI) bytes is 0 (explicit CI) resp. has equal
    low and high byte (CI folded into the check sum) -/
def ChecksumOk (buf : List Nat) : Prop :=
  ∃ ft ial, unham8 (buf.getD 2 0) = some ft ∧ unham8 (buf.getD 3 0) = some ial ∧
    (let r := crc (buf.drop (4 + ((ial &&& 7) + (if ft &&& 2 ≠ 0 then 1 else 0))))
     if ft &&& 4 ≠ 0 then r = 0 else r &&& 0xFF = r >>> 8)

/-- what is on the air, as far as one receiver is concerned -/
inductive Tx
  | data (p : Pkt)          -- first transmission of a packet of ours, intact
  | rep (p : Pkt)           -- intact repeat of a packet (RI low nibble ≠ 0)
  | damaged (p : Pkt)       -- packet of ours with a detectable transmission error, no repeat announced
  | damagedRep (p : Pkt)    -- the same, but announcing a repeat (RI bit 7)
  | foreign (buf : List Nat)

def Tx.bytes : Tx → List Nat
  | .data p => p.bytes
  | .rep p => p.bytes
  | .damaged p => p.bytes
  | .damagedRep p => p.bytes
  | .foreign b => b

/-- `t` is a legitimate transmission as seen by the receiver for `(channel, address)` -/
def Tx.Sent (channel address : Nat) : Tx → Prop
  | .data p => p.Valid ∧ p.channel = channel ∧ spaVal p.spa = address ∧ (p.haveRi = true → p.ri &&& 0xF = 0)
  | .rep p => p.Valid ∧ p.channel = channel ∧ spaVal p.spa = address ∧ p.haveRi = true ∧ p.ri &&& 0xF ≠ 0
  | .damaged p => p.Damaged ∧ p.channel = channel ∧ spaVal p.spa = address
  | .damagedRep p => p.DamagedRep ∧ p.channel = channel ∧ spaVal p.spa = address
  | .foreign b => NotForUs channel address b

/-- what the application must be handed, as (flags, bytes) per callback: every intact first
    transmission, in order, with DATA_LOST iff a packet was damaged or the continuity index jumped
    since the previous delivery, and DEPENDENT from IAL bit 3.  `fl` is the flag word the receiver
    starts with (0 for an initialised one), `eci` the continuity index it expects (if any). -/
def expected (fl : Nat) (eci : Option Nat) : List Tx → List (Nat × List Nat)
  | [] => []
  | .data p :: r =>
    (fl ||| lostFlag eci p.ci ||| (p.ial &&& 8), p.data) ::
      expected ((fl ||| lostFlag eci p.ci) &&& 0xFFFFFFFE) (some (p.ci + 1)) r
  | .rep _ :: r => expected fl eci r
  | .damaged _ :: r => expected (fl ||| 1) none r
  | .damagedRep _ :: r => expected fl eci r
  | .foreign _ :: r => expected fl eci r

/-- what an intact packet with repeat indicator `riv` does to a receiver (flag word `fl`, expected
    CI `eci`, awaited repeat indicator `aw`); `k` continues with the rest of the transmission -/
def intactR (sticky : Bool) (riv ci dep : Nat) (data : List Nat) (fl : Nat) (eci aw : Option Nat)
    (k : Nat → Option Nat → Option Nat → List (Nat × List Nat)) : List (Nat × List Nat) :=
  let emit := fun (f : Nat) (e w : Option Nat) =>
    (f ||| lostFlag e ci ||| dep, data) :: k ((f ||| lostFlag e ci) &&& 0xFFFFFFFE) (some (ci + 1)) w
  match aw with
  | none => if riv &&& 0xF ≠ 0 then k fl eci none else emit fl eci none
  | some a =>
    if (riv ^^^ a) &&& 0xF ≠ 0 then
      (if riv &&& 0xF ≠ 0 then k (fl ||| 1) none none else emit (fl ||| 1) none none)
    else emit fl eci (if sticky then some a else none)

/-- `expected` with the repeat mechanism (6.5.x RI): a damaged packet that announces a repeat makes
    the receiver await repeat number RI+1; the awaited repeat, arriving intact, is delivered in place
    of the damaged packet and nothing is lost; any other intact packet of ours while a repeat is
    awaited means the repeats were lost (DATA_LOST), a first transmission is then delivered, a
    repeat discarded.  Without an awaited repeat, repeats are discarded.
    `sticky = false` is the intended receiver: once the awaited repeat arrived it awaits nothing.
    `sticky = true` describes a receiver that keeps awaiting it (libzvbi before the repair
    `fixes/idl-repeat-recovered.diff`), which flags the next packet although nothing was lost. -/
def expectedR (sticky : Bool) : Nat → Option Nat → Option Nat → List Tx → List (Nat × List Nat)
  | _, _, _, [] => []
  | fl, eci, aw, .data p :: r =>
    intactR sticky p.riv p.ci (p.ial &&& 8) p.data fl eci aw (fun f e w => expectedR sticky f e w r)
  | fl, eci, aw, .rep p :: r =>
    intactR sticky p.riv p.ci (p.ial &&& 8) p.data fl eci aw (fun f e w => expectedR sticky f e w r)
  | fl, _, _, .damaged _ :: r => expectedR sticky (fl ||| 1) none none r
  | fl, eci, _, .damagedRep p :: r => expectedR sticky fl eci (some (p.ri + 1)) r
  | fl, eci, aw, .foreign _ :: r => expectedR sticky fl eci aw r

/-- the sender: fill in the two CRC bytes for the given fields -/
def mkPacket (channel ft ial : Nat) (spa : List Nat) (ri ci : Nat) (data : List Nat) (dummy : Nat)
    (pad : List Nat) : Pkt :=
  let p0 : Pkt := { channel, ft, ial, spa, ri, ci, data, dummy, pad, crcLo := 0, crcHi := 0 }
  let c := crc p0.region
  let target := if p0.haveCi then 0 else ci * 257
  let w := c ^^^ unshift8 (unshift8 target)
  { p0 with crcLo := w &&& 0xFF, crcHi := w >>> 8 }

end Zvbi.Idl.Spec
