import ZvbiModel.Idl.LemmasRepeat
/-!
# The IDL format A sender (C15): `Spec.mkPacket` always produces `Valid` packets, and the
transmissions of a sender that numbers its packets consecutively and repeats packets

* `mkPacket_valid` - for all inputs in range whose stuffed payload fits the packet, the two check
  bytes that `Spec.mkPacket` fills in make the packet `Valid` (so every theorem quantified over
  `Valid` packets applies to everything the sender emits).
* `Msg`, `Ev`, `evTxs`, `want` - a sender that sends messages with consecutive continuity indices
  (modulo 256), what happens to each on the air (arrives / damaged and repaired by its repeat /
  damaged and the repeat lost / a later repeat arrives / damaged without repeat / dropped), and what the application must see.
* `expectedR_events` - `Spec.expectedR false` of such a transmission is `want`.
-/
namespace Zvbi.Idl
open Zvbi.Hamm Zvbi.Gen

/-! ## the check bytes of `mkPacket` -/

theorem xor_cancel3 (a t b : Nat) : (a ^^^ t) ^^^ (a ^^^ b) = b ^^^ t := by
  apply Nat.eq_of_testBit_eq
  intro i
  simp only [Nat.testBit_xor]
  cases a.testBit i <;> cases t.testBit i <;> cases b.testBit i <;> rfl

theorem xor_xor_self_left (c u : Nat) : c ^^^ (c ^^^ u) = u := by
  rw [← Nat.xor_assoc, Nat.xor_self, Nat.zero_xor]

theorem and_ff_of_lt (b : Nat) (hb : b < 256) : b &&& 0xFF = b := by
  have := Nat.and_two_pow_sub_one_eq_mod b 8
  simp at this; omega

theorem shr8_of_lt (b : Nat) (hb : b < 256) : b >>> 8 = 0 := by
  rw [Nat.shiftRight_eq_div_pow]; omega

theorem shr8_lt (w : Nat) (hw : w < 65536) : w >>> 8 < 256 := by
  rw [Nat.shiftRight_eq_div_pow]; omega

/-- appending the two bytes of `c ^^^ u` (low, high) to a message with CRC register `c` leaves the
    register at sixteen shifts of `u` -/
theorem crc_check_bytes (c u : Nat) (hc : c < 65536) (hu : u < 65536) :
    Spec.crcByte (Spec.crcByte c ((c ^^^ u) &&& 0xFF)) ((c ^^^ u) >>> 8) = Spec.shift8 (Spec.shift8 u) := by
  unfold Spec.crcByte
  have hlo : (c ^^^ u) &&& 0xFF < 256 := and_ff_lt _
  have hw : c ^^^ ((c ^^^ u) &&& 0xFF) < 2 ^ 16 := Nat.xor_lt_two_pow (by omega) (by omega)
  rw [shift8_split _ hw]
  have h1 : (c ^^^ ((c ^^^ u) &&& 0xFF)) >>> 8 = c >>> 8 := by
    rw [Nat.shiftRight_xor_distrib, shr8_of_lt _ hlo, Nat.xor_zero]
  have h2 : (c ^^^ ((c ^^^ u) &&& 0xFF)) &&& 0xFF = u &&& 0xFF := by
    rw [Nat.and_xor_distrib_right, Nat.and_assoc, Nat.and_self, ← Nat.and_xor_distrib_right, xor_xor_self_left]
  have h3 : (c ^^^ u) >>> 8 = (c >>> 8) ^^^ (u >>> 8) := Nat.shiftRight_xor_distrib
  rw [h1, h2, h3, xor_cancel3, ← shift8_split u hu]

theorem unshift16_zero : Spec.unshift8 (Spec.unshift8 0) = 0 := by decide

/-- number of bytes available for the stuffed payload and the padding of a format A packet -/
def capacity (ft spaLen : Nat) : Nat :=
  36 - spaLen - (if ft &&& 2 ≠ 0 then 1 else 0) - (if ft &&& 4 ≠ 0 then 1 else 0) - (if ft &&& 8 ≠ 0 then 1 else 0)

theorem mkPacket_fields (channel ft ial : Nat) (spa : List Nat) (ri ci : Nat) (data : List Nat) (dummy : Nat)
    (pad : List Nat) :
    let p := Spec.mkPacket channel ft ial spa ri ci data dummy pad
    p.channel = channel ∧ p.ft = ft ∧ p.ial = ial ∧ p.spa = spa ∧ p.ri = ri ∧ p.ci = ci ∧ p.data = data ∧
    p.dummy = dummy ∧ p.pad = pad := ⟨rfl, rfl, rfl, rfl, rfl, rfl, rfl, rfl, rfl⟩

/-- **the sender's packets are valid.**  For every channel, format type (format A), address
    (length 0..6), repeat and continuity indicator, user data, dummy byte value and padding in range:
    if the stuffed user data and the padding fill the packet exactly, the packet that `Spec.mkPacket`
    completes with its two check bytes is `Valid`. -/
theorem mkPacket_valid (channel ft ial : Nat) (spa : List Nat) (ri ci : Nat) (data : List Nat) (dummy : Nat)
    (pad : List Nat)
    (hch : channel < 16) (hft : ft < 16) (hfta : ft &&& 1 = 0) (hial : ial < 16)
    (hspa : spa.length = ial &&& 7) (hne : ial &&& 7 ≠ 7) (hspalt : ∀ n ∈ spa, n < 16)
    (hri : ri < 256) (hci : ci < 256) (hdata : ∀ b ∈ data, b < 256) (hdummy : dummy < 256)
    (hd0 : dummy ≠ 0 ∧ dummy ≠ 0xFF) (hpad : ∀ b ∈ pad, b < 256) (hpadnil : ft &&& 8 = 0 → pad = [])
    (hfit : (Spec.stuff dummy ci 0 data).length + pad.length = capacity ft (ial &&& 7)) :
    (Spec.mkPacket channel ft ial spa ri ci data dummy pad).Valid := by
  -- the packet without check bytes, and the register after its CRC region
  let p0 : Spec.Pkt := { channel, ft, ial, spa, ri, ci, data, dummy, pad, crcLo := 0, crcHi := 0 }
  have hreg : (Spec.mkPacket channel ft ial spa ri ci data dummy pad).region = p0.region := rfl
  have hpay : (Spec.mkPacket channel ft ial spa ri ci data dummy pad).payload = Spec.stuff dummy ci 0 data := rfl
  have hpay0 : p0.payload = Spec.stuff dummy ci 0 data := rfl
  have hlt7 : ial &&& 7 < 8 := by
    have := Nat.and_two_pow_sub_one_eq_mod ial 3
    simp at this; omega
  have hpl : (Spec.stuff dummy ci 0 data).length ≤ 36 := by unfold capacity at hfit; omega
  have hpayb : ∀ b ∈ Spec.stuff dummy ci 0 data, b < 256 := stuff_lt dummy hdummy data hdata _ _
  have hregb : ∀ b ∈ p0.region, b < 256 := by
    intro b hb
    simp only [Spec.Pkt.region, List.mem_append] at hb
    rcases hb with hb | hb | hb | hb
    · split at hb
      · simp at hb; subst hb; exact hci
      · simp at hb
    · split at hb
      · simp at hb; subst hb; rw [hpay0]; omega
      · simp at hb
    · exact hpayb b hb
    · exact hpad b hb
  have hc : Spec.crc p0.region < 65536 := crc_lt _ hregb
  have hu : Spec.unshift8 (Spec.unshift8 (if p0.haveCi then 0 else ci * 257)) < 65536 := by
    split
    · rw [unshift16_zero]; decide
    · exact unshift16_lt ci hci
  have hlen : (Spec.mkPacket channel ft ial spa ri ci data dummy pad).bytes.length = 42 := by
    have h1 : (Spec.mkPacket channel ft ial spa ri ci data dummy pad).bytes.length =
        4 + (spa.length + ((if ft &&& 2 ≠ 0 then 1 else 0) + ((if ft &&& 4 ≠ 0 then 1 else 0) +
          ((if ft &&& 8 ≠ 0 then 1 else 0) + ((Spec.stuff dummy ci 0 data).length + pad.length)) + 2))) := by
      simp only [Spec.Pkt.bytes, Spec.Pkt.region, Spec.Pkt.haveRi, Spec.Pkt.haveCi, Spec.Pkt.haveDl, hpay,
        List.length_append, List.length_cons, List.length_nil, List.length_map]
      have e1 : (Spec.mkPacket channel ft ial spa ri ci data dummy pad).ft = ft := rfl
      have e2 : (Spec.mkPacket channel ft ial spa ri ci data dummy pad).spa = spa := rfl
      have e3 : (Spec.mkPacket channel ft ial spa ri ci data dummy pad).pad = pad := rfl
      simp only [e1, e2, e3]
      by_cases a : ft &&& 2 ≠ 0 <;> by_cases b : ft &&& 4 ≠ 0 <;> by_cases c : ft &&& 8 ≠ 0 <;>
        simp [a, b, c] <;> omega
    rw [h1, hfit, hspa]
    unfold capacity
    have b1 : (if ft &&& 2 ≠ 0 then 1 else 0) ≤ 1 := by split <;> omega
    have b2 : (if ft &&& 4 ≠ 0 then 1 else 0) ≤ 1 := by split <;> omega
    have b3 : (if ft &&& 8 ≠ 0 then 1 else 0) ≤ 1 := by split <;> omega
    omega
  refine { channel_lt := hch, ft_lt := hft, ft_a := hfta, ial_lt := hial, spa_len := hspa, spa_len_ne := hne,
           spa_lt := hspalt, ri_lt := hri, ci_lt := hci, data_lt := hdata, dummy_lt := hdummy, dummy_ne := hd0,
           pad_lt := hpad, pad_nil := ?_, crcLo_lt := and_ff_lt _, crcHi_lt := ?_, length_eq := hlen, crc_ok := ?_ }
  · intro h
    apply hpadnil
    have : (Spec.mkPacket channel ft ial spa ri ci data dummy pad).haveDl = decide (ft &&& 8 ≠ 0) := rfl
    rw [this] at h
    simpa using h
  · exact shr8_lt _ (Nat.xor_lt_two_pow (n := 16) hc hu)
  · show Spec.crc (p0.region ++ [_, _]) = _
    unfold Spec.crc
    rw [List.foldl_append]
    simp only [List.foldl_cons, List.foldl_nil]
    have elo : (Spec.mkPacket channel ft ial spa ri ci data dummy pad).crcLo =
        (Spec.crc p0.region ^^^ Spec.unshift8 (Spec.unshift8 (if p0.haveCi then 0 else ci * 257))) &&& 0xFF := rfl
    have ehi : (Spec.mkPacket channel ft ial spa ri ci data dummy pad).crcHi =
        (Spec.crc p0.region ^^^ Spec.unshift8 (Spec.unshift8 (if p0.haveCi then 0 else ci * 257))) >>> 8 := rfl
    rw [elo, ehi]
    have := crc_check_bytes (Spec.crc p0.region) _ hc hu
    unfold Spec.crc at this ⊢
    rw [this]
    have e : (Spec.mkPacket channel ft ial spa ri ci data dummy pad).haveCi = p0.haveCi := rfl
    have e2 : (Spec.mkPacket channel ft ial spa ri ci data dummy pad).ci = ci := rfl
    rw [e, e2]
    split
    · exact shift16_unshift16_zero
    · exact shift16_unshift16 ci hci

/-! ## a sender with consecutive continuity indices and repeats, and what reaches the receiver -/

/-- one message the application hands to the sender -/
structure Msg where
  ft : Nat          -- format type nibble (options RI / CI / DL)
  dep : Nat         -- 0 or 8: the "dependent" bit of IAL
  ri : Nat          -- repeat indicator byte of the first transmission (low nibble 0; bit 7: repeats follow)
  data : List Nat
  dummy : Nat
  pad : List Nat

/-- the message can be sent with address length `spaLen` and continuity index `ci` -/
def Msg.Ok (spaLen ci : Nat) (m : Msg) : Prop :=
  m.ft < 16 ∧ m.ft &&& 1 = 0 ∧ (m.dep = 0 ∨ m.dep = 8) ∧ m.ri < 256 ∧ m.ri &&& 0xF = 0 ∧
  (∀ b ∈ m.data, b < 256) ∧ m.dummy < 256 ∧ (m.dummy ≠ 0 ∧ m.dummy ≠ 0xFF) ∧ (∀ b ∈ m.pad, b < 256) ∧
  (m.ft &&& 8 = 0 → m.pad = []) ∧
  (Spec.stuff m.dummy ci 0 m.data).length + m.pad.length = capacity m.ft spaLen

/-- transmission number `j` of message `m` (0 = first transmission, `j >= 1` = repeat number `j`) -/
def pk (channel : Nat) (spa : List Nat) (ci : Nat) (m : Msg) (j : Nat) : Spec.Pkt :=
  Spec.mkPacket channel m.ft (spa.length + m.dep) spa (m.ri + j) ci m.data m.dummy m.pad

/-- what happens on the air to the next message of the sender (or: an unrelated packet) -/
inductive Ev
  /-- the first transmission arrives intact; then the repeats numbered `dups` arrive intact -/
  | intact (m : Msg) (dups : List Nat)
  /-- the first transmission and possibly some repeats arrive damaged (`ds`, then `d`), each announcing
      a(nother) repeat; `d` is transmission number `k - 1`, and repeat `k` arrives intact, then the
      repeats numbered `dups` -/
  | repaired (m : Msg) (ds : List Spec.Pkt) (d : Spec.Pkt) (k : Nat) (dups : List Nat)
  /-- the first transmission and possibly some repeats arrive damaged (`ds`, then `d`), each announcing
      a(nother) repeat; no repeat arrives intact -/
  | unrepaired (ds : List Spec.Pkt) (d : Spec.Pkt)
  /-- as before, but the repeat that arrives intact (number `j`) is not the one announced last: the
      announced one was lost, the receiver cannot know what else it missed -/
  | lateRepeat (m : Msg) (ds : List Spec.Pkt) (d : Spec.Pkt) (j : Nat)
  /-- the first transmission arrives as `d`, damaged, announcing no repeat -/
  | lost (d : Spec.Pkt)
  /-- nothing of this message arrives -/
  | dropped
  /-- a packet of another channel / address / format -/
  | foreign (buf : List Nat)

/-- the event uses up a continuity index -/
def Ev.isMsg : Ev → Bool
  | .foreign _ => false
  | _ => true

def evTxs (channel : Nat) (spa : List Nat) (ci : Nat) : Ev → List Spec.Tx
  | .intact m dups => .data (pk channel spa ci m 0) :: dups.map (fun j => .rep (pk channel spa ci m j))
  | .repaired m ds d k dups =>
    ds.map .damagedRep ++
      (.damagedRep d :: .rep (pk channel spa ci m k) :: dups.map (fun j => .rep (pk channel spa ci m j)))
  | .unrepaired ds d => ds.map .damagedRep ++ [.damagedRep d]
  | .lateRepeat m ds d j => ds.map .damagedRep ++ [.damagedRep d, .rep (pk channel spa ci m j)]
  | .lost d => [.damaged d]
  | .dropped => []
  | .foreign b => [.foreign b]

/-- what the receiver is fed; `c` counts the messages so far, the continuity index is `c % 256` -/
def txsOf (channel : Nat) (spa : List Nat) : Nat → List Ev → List Spec.Tx
  | _, [] => []
  | c, e :: r => evTxs channel spa (c % 256) e ++ txsOf channel spa (if e.isMsg then c + 1 else c) r

def dupsOk (m : Msg) (dups : List Nat) : Prop := (∀ j ∈ dups, 1 ≤ j ∧ j ≤ 15) ∧ (dups ≠ [] → m.ft &&& 2 ≠ 0)

/-- a packet of ours that arrives damaged and announces a repeat -/
def DmgRep (channel : Nat) (spa : List Nat) (d : Spec.Pkt) : Prop :=
  d.DamagedRep ∧ d.channel = channel ∧ Spec.spaVal d.spa = Spec.spaVal spa

def EvOk (channel : Nat) (spa : List Nat) (ci : Nat) : Ev → Prop
  | .intact m dups => m.Ok spa.length ci ∧ dupsOk m dups
  | .repaired m ds d k dups => m.Ok spa.length ci ∧ m.ft &&& 2 ≠ 0 ∧ dupsOk m dups ∧
      (∀ x ∈ ds, DmgRep channel spa x) ∧ DmgRep channel spa d ∧ 1 ≤ k ∧ k ≤ 15 ∧ d.ri &&& 0xF = k - 1
  | .unrepaired ds d => (∀ x ∈ ds, DmgRep channel spa x) ∧ DmgRep channel spa d ∧ d.ri &&& 0xF ≤ 14
  | .lateRepeat m ds d j => m.Ok spa.length ci ∧ m.ft &&& 2 ≠ 0 ∧ (∀ x ∈ ds, DmgRep channel spa x) ∧
      DmgRep channel spa d ∧ 1 ≤ j ∧ j ≤ 15 ∧ (d.ri + 1) &&& 0xF ≠ j
  | .lost d => d.Damaged ∧ d.channel = channel ∧ Spec.spaVal d.spa = Spec.spaVal spa
  | .dropped => True
  | .foreign b => Spec.NotForUs channel (Spec.spaVal spa) b

def EvsOk (channel : Nat) (spa : List Nat) : Nat → List Ev → Prop
  | _, [] => True
  | c, e :: r => EvOk channel spa (c % 256) e ∧ EvsOk channel spa (if e.isMsg then c + 1 else c) r

/-- a gap the continuity index reveals: `g` messages were not delivered since the last delivery,
    and `g` is not a multiple of 256 -/
def gapBad : Option Nat → Bool
  | some g => decide (g % 256 ≠ 0)
  | none => false

/-- **what the application must see**: every message that arrived intact or was repaired by its
    repeat, once, in order; DATA_LOST iff something was lost since the previous delivery (`pend`: a
    damaged packet without repeat; `aw`: an announced repeat never came; `sync = some g`: `g` messages
    missing according to the continuity index). -/
def want : Bool → Option Nat → Bool → List Ev → List (Nat × List Nat)
  | _, _, _, [] => []
  | pend, sync, aw, .intact m _ :: r =>
    ((if (pend || aw || gapBad (if aw then none else sync)) then 1 else 0) ||| m.dep, m.data) ::
      want false (some 0) false r
  | pend, sync, _, .repaired m _ _ _ _ :: r =>
    ((if (pend || gapBad sync) then 1 else 0) ||| m.dep, m.data) :: want false (some 0) false r
  | pend, sync, _, .unrepaired _ _ :: r => want pend (sync.map (· + 1)) true r
  | _, _, _, .lateRepeat _ _ _ _ :: r => want true none false r
  | _, _, _, .lost _ :: r => want true none false r
  | pend, sync, aw, .dropped :: r => want pend (sync.map (· + 1)) aw r
  | pend, sync, aw, .foreign _ :: r => want pend sync aw r

/-! ### the sender's packets are legitimate transmissions -/

theorem ial_facts (n dep : Nat) (hn : n ≤ 6) (hd : dep = 0 ∨ dep = 8) :
    n + dep < 16 ∧ (n + dep) &&& 7 = n ∧ (n + dep) &&& 7 ≠ 7 ∧ (n + dep) &&& 8 = dep := by
  have h0 : ∀ n < 7, n + 0 < 16 ∧ (n + 0) &&& 7 = n ∧ (n + 0) &&& 7 ≠ 7 ∧ (n + 0) &&& 8 = 0 := by decide
  have h8 : ∀ n < 7, n + 8 < 16 ∧ (n + 8) &&& 7 = n ∧ (n + 8) &&& 7 ≠ 7 ∧ (n + 8) &&& 8 = 8 := by decide
  rcases hd with rfl | rfl
  · exact h0 n (by omega)
  · exact h8 n (by omega)

theorem low_nibble_add (x j : Nat) (hx : x &&& 0xF = 0) (hj : j ≤ 15) : (x + j) &&& 0xF = j := by
  have h1 := Nat.and_two_pow_sub_one_eq_mod x 4
  have h2 := Nat.and_two_pow_sub_one_eq_mod (x + j) 4
  simp at h1 h2
  omega

theorem ri_add_lt (x j : Nat) (hx : x &&& 0xF = 0) (hx2 : x < 256) (hj : j ≤ 15) : x + j < 256 := by
  have h1 := Nat.and_two_pow_sub_one_eq_mod x 4
  simp at h1
  omega

theorem pk_valid (channel : Nat) (spa : List Nat) (ci : Nat) (m : Msg) (j : Nat)
    (hch : channel < 16) (hspa : spa.length ≤ 6) (hspalt : ∀ n ∈ spa, n < 16) (hci : ci < 256)
    (hm : m.Ok spa.length ci) (hj : j ≤ 15) : (pk channel spa ci m j).Valid := by
  obtain ⟨h1, h2, h3, h4, h5, h6, h7, h8, h9, h10, h11⟩ := hm
  obtain ⟨i1, i2, i3, _⟩ := ial_facts spa.length m.dep hspa h3
  exact mkPacket_valid channel m.ft (spa.length + m.dep) spa (m.ri + j) ci m.data m.dummy m.pad
    hch h1 h2 i1 i2.symm i3 hspalt (ri_add_lt _ _ h5 h4 hj) hci h6 h7 h8 h9 h10 (by rw [i2]; exact h11)

theorem pk_riv (channel : Nat) (spa : List Nat) (ci : Nat) (m : Msg) (j : Nat) :
    (pk channel spa ci m j).riv = if m.ft &&& 2 ≠ 0 then m.ri + j else 0 := by
  show (if decide (m.ft &&& 2 ≠ 0) = true then m.ri + j else 0) = _
  by_cases h : m.ft &&& 2 ≠ 0 <;> simp [h]

theorem pk_haveRi (channel : Nat) (spa : List Nat) (ci : Nat) (m : Msg) (j : Nat) :
    (pk channel spa ci m j).haveRi = decide (m.ft &&& 2 ≠ 0) := rfl

theorem pk_riv_first (channel : Nat) (spa : List Nat) (ci : Nat) (m : Msg) (hm : m.ri &&& 0xF = 0) :
    (pk channel spa ci m 0).riv &&& 0xF = 0 := by
  rw [pk_riv]; split
  · simpa using hm
  · rfl

/-- every transmission of the event stream is legitimate in the sense of `Spec.Tx.Sent` -/
theorem txs_sent (channel : Nat) (spa : List Nat) (hch : channel < 16) (hspa : spa.length ≤ 6)
    (hspalt : ∀ n ∈ spa, n < 16) (evs : List Ev) : ∀ c, EvsOk channel spa c evs →
    ∀ t ∈ txsOf channel spa c evs, Spec.Tx.Sent channel (Spec.spaVal spa) t := by
  induction evs with
  | nil => intro c _ t ht; simp [txsOf] at ht
  | cons e r ih =>
    intro c hok t ht
    obtain ⟨he, hr⟩ := hok
    have hci : c % 256 < 256 := Nat.mod_lt _ (by decide)
    simp only [txsOf, List.mem_append] at ht
    rcases ht with ht | ht
    · cases e with
      | intact m dups =>
        obtain ⟨hm, hd1, hd2⟩ := he
        simp only [evTxs, List.mem_cons, List.mem_map] at ht
        rcases ht with rfl | ⟨j, hj, rfl⟩
        · refine ⟨pk_valid channel spa _ m 0 hch hspa hspalt hci hm (by omega), rfl, rfl, ?_⟩
          intro _
          have : (pk channel spa (c % 256) m 0).ri = m.ri + 0 := rfl
          rw [this]; simpa using hm.2.2.2.2.1
        · have hj' := hd1 j hj
          have hri : m.ft &&& 2 ≠ 0 := hd2 (List.ne_nil_of_mem hj)
          refine ⟨pk_valid channel spa _ m j hch hspa hspalt hci hm hj'.2, rfl, rfl, ?_, ?_⟩
          · rw [pk_haveRi]; simpa using hri
          · have : (pk channel spa (c % 256) m j).ri = m.ri + j := rfl
            rw [this, low_nibble_add _ _ hm.2.2.2.2.1 hj'.2]; omega
      | repaired m ds d k dups =>
        obtain ⟨hm, hri, ⟨hd1, hd2⟩, hds, hd, hk1, hk2, _⟩ := he
        simp only [evTxs, List.mem_append, List.mem_cons, List.mem_map] at ht
        rcases ht with ⟨x, hx, rfl⟩ | rfl | rfl | ⟨j, hj, rfl⟩
        · exact hds x hx
        · exact hd
        · refine ⟨pk_valid channel spa _ m k hch hspa hspalt hci hm hk2, rfl, rfl, ?_, ?_⟩
          · rw [pk_haveRi]; simpa using hri
          · have : (pk channel spa (c % 256) m k).ri = m.ri + k := rfl
            rw [this, low_nibble_add _ _ hm.2.2.2.2.1 hk2]; omega
        · have hj' := hd1 j hj
          refine ⟨pk_valid channel spa _ m j hch hspa hspalt hci hm hj'.2, rfl, rfl, ?_, ?_⟩
          · rw [pk_haveRi]; simpa using hri
          · have : (pk channel spa (c % 256) m j).ri = m.ri + j := rfl
            rw [this, low_nibble_add _ _ hm.2.2.2.2.1 hj'.2]; omega
      | unrepaired ds d =>
        simp only [evTxs, List.mem_append, List.mem_map, List.mem_cons, List.mem_nil_iff, or_false] at ht
        rcases ht with ⟨x, hx, rfl⟩ | rfl
        · exact he.1 x hx
        · exact he.2.1
      | lateRepeat m ds d j =>
        obtain ⟨hm, hri, hds, hd, hj1, hj2, _⟩ := he
        simp only [evTxs, List.mem_append, List.mem_map, List.mem_cons, List.mem_nil_iff, or_false] at ht
        rcases ht with ⟨x, hx, rfl⟩ | rfl | rfl
        · exact hds x hx
        · exact hd
        · refine ⟨pk_valid channel spa _ m j hch hspa hspalt hci hm hj2, rfl, rfl, ?_, ?_⟩
          · rw [pk_haveRi]; simpa using hri
          · have : (pk channel spa (c % 256) m j).ri = m.ri + j := rfl
            rw [this, low_nibble_add _ _ hm.2.2.2.2.1 hj2]; omega
      | lost d =>
        simp only [evTxs, List.mem_cons, List.mem_nil_iff, or_false] at ht
        subst ht; exact he
      | dropped => simp [evTxs] at ht
      | foreign b =>
        simp only [evTxs, List.mem_cons, List.mem_nil_iff, or_false] at ht
        subst ht; exact he
    · exact ih _ hr t ht

/-! ### `Spec.expectedR false` of the event stream is `want` -/

theorem xor_and_ff_eq_zero_iff (a b : Nat) : (a ^^^ b) &&& 0xFF = 0 ↔ a % 256 = b % 256 := by
  have h := Nat.and_two_pow_sub_one_eq_mod (a ^^^ b) 8
  have hx := @Nat.xor_mod_two_pow a b 8
  simp only [Nat.reducePow, Nat.add_one_sub_one] at h hx
  have h' : (a ^^^ b) &&& 0xFF = (a ^^^ b) % 256 := h
  rw [h', hx]
  constructor
  · exact eq_of_xor_eq_zero _ _
  · intro e; rw [e, Nat.xor_self]

/-- receiver's expected continuity index vs. the number of messages missing since the last delivery -/
def SyncRel (c : Nat) : Option Nat → Option Nat → Prop
  | none, none => True
  | some e, some g => g ≤ c ∧ e % 256 = (c - g) % 256
  | _, _ => False

theorem lostFlag_sync (c : Nat) (eci sync : Option Nat) (h : SyncRel c eci sync) :
    Spec.lostFlag eci (c % 256) = if gapBad sync then 1 else 0 := by
  cases eci with
  | none => cases sync with
    | none => rfl
    | some g => exact absurd h (by simp [SyncRel])
  | some e => cases sync with
    | none => exact absurd h (by simp [SyncRel])
    | some g =>
      obtain ⟨h1, h2⟩ := h
      simp only [Spec.lostFlag, gapBad, decide_eq_true_eq]
      have := xor_and_ff_eq_zero_iff (c % 256) e
      by_cases hg : g % 256 ≠ 0
      · rw [if_pos hg, if_pos]
        intro h0; have := this.1 h0; omega
      · rw [if_neg hg, if_neg]
        intro h0; apply h0; apply this.2; omega

theorem syncRel_succ (c : Nat) (eci sync : Option Nat) (h : SyncRel c eci sync) :
    SyncRel (c + 1) eci (sync.map (· + 1)) := by
  cases eci with
  | none => cases sync with
    | none => trivial
    | some g => exact absurd h (by simp [SyncRel])
  | some e => cases sync with
    | none => exact absurd h (by simp [SyncRel])
    | some g =>
      obtain ⟨h1, h2⟩ := h
      show g + 1 ≤ c + 1 ∧ e % 256 = (c + 1 - (g + 1)) % 256
      refine ⟨by omega, ?_⟩
      have : c + 1 - (g + 1) = c - g := by omega
      rw [this]; exact h2

theorem syncRel_delivered (c : Nat) : SyncRel (c + 1) (some (c % 256 + 1)) (some 0) :=
  ⟨by omega, by omega⟩

/-- awaited repeat indicator of the receiver vs. "a repeat is awaited" -/
def AwRel : Option Nat → Bool → Prop
  | none, false => True
  | some a, true => a &&& 0xF ≠ 0
  | _, _ => False

theorem bits01 : ∀ a < 2, ∀ b < 2, (a ||| b) = (if a = 1 ∨ b = 1 then 1 else 0) ∧
    ((a ||| b) &&& 0xFFFFFFFE) = 0 ∧ (a ||| 1) = 1 := by decide

/-- repeats that arrive while none is awaited change nothing -/
theorem expectedR_dups (channel : Nat) (spa : List Nat) (ci : Nat) (m : Msg) (hri : m.ri &&& 0xF = 0)
    (rest : List Spec.Tx) (fl : Nat) (eci : Option Nat) :
    ∀ dups : List Nat, dupsOk m dups →
    Spec.expectedR false fl eci none (dups.map (fun j => Spec.Tx.rep (pk channel spa ci m j)) ++ rest) =
      Spec.expectedR false fl eci none rest := by
  intro dups
  induction dups with
  | nil => intro _; rfl
  | cons j t ih =>
    intro hd
    have hj := hd.1 j (by simp)
    have hft : m.ft &&& 2 ≠ 0 := hd.2 (by simp)
    have hne : (pk channel spa ci m j).riv &&& 0xF ≠ 0 := by
      rw [pk_riv, if_pos hft, low_nibble_add _ _ hri hj.2]; omega
    simp only [List.map_cons, List.cons_append, Spec.expectedR, Spec.intactR, hne, ne_eq, not_false_eq_true, if_true]
    exact ih ⟨fun x hx => hd.1 x (by simp [hx]), fun _ => hft⟩

/-- damaged packets that announce a repeat only change which repeat is awaited -/
theorem expectedR_dmg (fl : Nat) (eci : Option Nat) (rest : List Spec.Tx) (d : Spec.Pkt) :
    ∀ (ds : List Spec.Pkt) (aw : Option Nat),
    Spec.expectedR false fl eci aw (ds.map Spec.Tx.damagedRep ++ (Spec.Tx.damagedRep d :: rest)) =
      Spec.expectedR false fl eci (some (d.ri + 1)) rest := by
  intro ds
  induction ds with
  | nil => intro aw; rfl
  | cons x t ih => intro aw; simp only [List.map_cons, List.cons_append, Spec.expectedR]; exact ih _

theorem flagNat (pend : Bool) : (if pend then 1 else 0 : Nat) < 2 := by cases pend <;> decide
theorem gapNat (sync : Option Nat) : (if gapBad sync then 1 else 0 : Nat) < 2 := by
  cases gapBad sync <;> decide

/-- **the intended receiver's obligations for a sender stream**: `Spec.expectedR false` of the
    transmission equals `want` -/
theorem expectedR_events (channel : Nat) (spa : List Nat) (hspa : spa.length ≤ 6) (evs : List Ev) :
    ∀ (c : Nat) (eci aw : Option Nat) (pend : Bool) (sync : Option Nat) (awb : Bool),
    EvsOk channel spa c evs → SyncRel c eci sync → AwRel aw awb →
    Spec.expectedR false (if pend then 1 else 0) eci aw (txsOf channel spa c evs) = want pend sync awb evs := by
  induction evs with
  | nil => intro c eci aw pend sync awb _ _ _; rfl
  | cons e r ih =>
    intro c eci aw pend sync awb hok hsync haw
    obtain ⟨he, hr⟩ := hok
    cases e with
    | intact m dups =>
      obtain ⟨hm, hd⟩ := he
      have hri := hm.2.2.2.2.1
      have hdep := (ial_facts spa.length m.dep hspa hm.2.2.1).2.2.2
      have hriv := pk_riv_first channel spa (c % 256) m hri
      have hih := ih (c + 1) (some (c % 256 + 1)) none false (some 0) false hr (syncRel_delivered c) trivial
      have hial : (pk channel spa (c % 256) m 0).ial &&& 8 = m.dep := hdep
      have hci : (pk channel spa (c % 256) m 0).ci = c % 256 := rfl
      have hdata : (pk channel spa (c % 256) m 0).data = m.data := rfl
      simp only [txsOf, evTxs, Ev.isMsg, if_true, List.cons_append, Spec.expectedR, want]
      cases aw with
      | none =>
        cases awb with
        | true => exact absurd haw (by simp [AwRel])
        | false =>
          simp only [Spec.intactR, hriv, ne_eq, not_true_eq_false, if_false, hial, hci, hdata,
            Bool.or_false, Bool.false_eq_true]
          rw [lostFlag_sync c eci sync hsync]
          obtain ⟨b1, b2, _⟩ := bits01 _ (flagNat pend) _ (gapNat sync)
          rw [b2, expectedR_dups channel spa _ m hri _ _ _ dups hd]
          have hih' := hih
          simp only [Bool.false_eq_true, if_false] at hih'
          rw [hih', b1]
          cases pend <;> cases gapBad sync <;> simp
      | some a =>
        cases awb with
        | false => exact absurd haw (by simp [AwRel])
        | true =>
          have ha : a &&& 0xF ≠ 0 := haw
          have hx : ((pk channel spa (c % 256) m 0).riv ^^^ a) &&& 0xF ≠ 0 := by
            rw [Nat.and_xor_distrib_right, hriv, Nat.zero_xor]; exact ha
          simp only [Spec.intactR, hx, hriv, ne_eq, not_true_eq_false, not_false_eq_true, if_true, if_false,
            hial, hci, hdata, Spec.lostFlag, Nat.or_zero, Bool.or_true, Bool.true_or]
          obtain ⟨_, _, b3⟩ := bits01 _ (flagNat pend) 0 (by decide)
          rw [b3]
          rw [expectedR_dups channel spa _ m hri _ _ _ dups hd]
          have hih' := hih
          simp only [Bool.false_eq_true, if_false] at hih'
          have e1 : (1 : Nat) &&& 0xFFFFFFFE = 0 := by decide
          rw [e1, hih']
    | repaired m ds d k dups =>
      obtain ⟨hm, hft, hd, _, _, hk1, hk2, hdri⟩ := he
      have hri := hm.2.2.2.2.1
      have hdep := (ial_facts spa.length m.dep hspa hm.2.2.1).2.2.2
      have hih := ih (c + 1) (some (c % 256 + 1)) none false (some 0) false hr (syncRel_delivered c) trivial
      have hial : (pk channel spa (c % 256) m k).ial &&& 8 = m.dep := hdep
      have hci : (pk channel spa (c % 256) m k).ci = c % 256 := rfl
      have hdata : (pk channel spa (c % 256) m k).data = m.data := rfl
      have hdk : (d.ri + 1) &&& 0xF = k := by
        have h1 := Nat.and_two_pow_sub_one_eq_mod d.ri 4
        have h2 := Nat.and_two_pow_sub_one_eq_mod (d.ri + 1) 4
        simp at h1 h2
        omega
      have hx : ¬ (((pk channel spa (c % 256) m k).riv ^^^ (d.ri + 1)) &&& 0xF ≠ 0) := by
        rw [pk_riv, if_pos hft, Nat.and_xor_distrib_right, low_nibble_add _ _ hri hk2, hdk, Nat.xor_self]
        simp
      simp only [txsOf, evTxs, Ev.isMsg, if_true, List.append_assoc, List.cons_append, want]
      rw [expectedR_dmg]
      simp only [Spec.expectedR, Spec.intactR, hx, if_false, hial, hci, hdata, Bool.false_eq_true]
      rw [lostFlag_sync c eci sync hsync]
      obtain ⟨b1, b2, _⟩ := bits01 _ (flagNat pend) _ (gapNat sync)
      rw [b2, expectedR_dups channel spa _ m hri _ _ _ dups hd]
      have hih' := hih
      simp only [Bool.false_eq_true, if_false] at hih'
      rw [hih', b1]
      cases pend <;> cases gapBad sync <;> simp
    | unrepaired ds d =>
      obtain ⟨_, _, hdri⟩ := he
      have hdk : (d.ri + 1) &&& 0xF ≠ 0 := by
        have h1 := Nat.and_two_pow_sub_one_eq_mod d.ri 4
        have h2 := Nat.and_two_pow_sub_one_eq_mod (d.ri + 1) 4
        simp at h1 h2
        omega
      have hih := ih (c + 1) eci (some (d.ri + 1)) pend (sync.map (· + 1)) true hr (syncRel_succ c eci sync hsync) hdk
      simp only [txsOf, evTxs, Ev.isMsg, if_true, List.append_assoc, List.cons_append, List.nil_append, want]
      rw [expectedR_dmg]
      exact hih
    | lateRepeat m ds d j =>
      obtain ⟨hm, hft, _, _, hj1, hj2, hne⟩ := he
      have hri := hm.2.2.2.2.1
      have hih := ih (c + 1) none none true none false hr trivial trivial
      have hriv : (pk channel spa (c % 256) m j).riv &&& 0xF = j := by
        rw [pk_riv, if_pos hft, low_nibble_add _ _ hri hj2]
      have hx : ((pk channel spa (c % 256) m j).riv ^^^ (d.ri + 1)) &&& 0xF ≠ 0 := by
        rw [Nat.and_xor_distrib_right, hriv]
        intro h0
        exact hne (eq_of_xor_eq_zero _ _ h0).symm
      have hn : (pk channel spa (c % 256) m j).riv &&& 0xF ≠ 0 := by rw [hriv]; omega
      simp only [txsOf, evTxs, Ev.isMsg, if_true, List.append_assoc, List.cons_append, List.nil_append, want]
      rw [expectedR_dmg]
      simp only [Spec.expectedR, Spec.intactR, hx, hn, ne_eq, not_false_eq_true, if_true]
      obtain ⟨_, _, b3⟩ := bits01 _ (flagNat pend) 0 (by decide)
      rw [b3]
      exact hih
    | lost d =>
      have hih := ih (c + 1) none none true none false hr trivial trivial
      simp only [txsOf, evTxs, Ev.isMsg, if_true, List.cons_append, List.nil_append, Spec.expectedR, want]
      obtain ⟨_, _, b3⟩ := bits01 _ (flagNat pend) 0 (by decide)
      rw [b3]
      exact hih
    | dropped =>
      have hih := ih (c + 1) eci aw pend (sync.map (· + 1)) awb hr (syncRel_succ c eci sync hsync) haw
      simp only [txsOf, evTxs, Ev.isMsg, if_true, List.nil_append, want]
      exact hih
    | foreign b =>
      have hih := ih c eci aw pend sync awb hr hsync haw
      simp only [txsOf, evTxs, Ev.isMsg, Bool.false_eq_true, if_false, List.cons_append, List.nil_append,
        Spec.expectedR, want]
      exact hih

/-- **the demultiplexer on a sender stream**: from any state whose flag word, expected continuity
    index and awaited repeat correspond to `(pend, sync, awb)`, the callbacks are exactly `want` -/
theorem run_events (channel : Nat) (spa : List Nat) (hch : channel < 16) (hspa : spa.length ≤ 6)
    (hspalt : ∀ n ∈ spa, n < 16) (evs : List Ev) (c : Nat) (hok : EvsOk channel spa c evs)
    (s : St) (hsc : s.channel = channel) (hsa : s.address = Spec.spaVal spa)
    (pend : Bool) (sync : Option Nat) (awb : Bool)
    (hfl : s.flags = if pend then 1 else 0) (hsync : SyncRel c s.ci sync) (haw : AwRel s.ri awb) :
    (run s ((txsOf channel spa c evs).map Spec.Tx.bytes)).map (fun cb => (cb.flags, cb.bytes)) =
      want pend sync awb evs := by
  have hsent : ∀ t ∈ txsOf channel spa c evs, Spec.Tx.Sent s.channel s.address t := by
    rw [hsc, hsa]; exact txs_sent channel spa hch hspa hspalt evs c hok
  have h := run_refines_R (txsOf channel spa c evs) s hsent
  have hst : (!idlRiClearedOnRecovery) = false := rfl
  rw [h, hst, hfl]
  exact expectedR_events channel spa hspa evs c s.ci s.ri pend sync awb hok hsync haw

/-- the user data of the messages that arrive in a loss-free transmission -/
def cleanPayloads : List Ev → List (Nat × List Nat)
  | [] => []
  | .intact m _ :: r => (m.dep, m.data) :: cleanPayloads r
  | _ :: r => cleanPayloads r

theorem want_clean (evs : List Ev) (hclean : ∀ e ∈ evs, (∃ m d, e = .intact m d) ∨ (∃ b, e = .foreign b)) :
    ∀ sync, gapBad sync = false → want false sync false evs = cleanPayloads evs := by
  induction evs with
  | nil => intro _ _; rfl
  | cons e r ih =>
    intro sync hs
    have ihr := ih (fun x hx => hclean x (by simp [hx]))
    rcases hclean e (by simp) with ⟨m, d, rfl⟩ | ⟨b, rfl⟩
    · simp only [want, cleanPayloads, Bool.false_or, hs, Bool.false_eq_true, if_false, Nat.zero_or]
      rw [ihr (some 0) rfl]
    · simp only [want, cleanPayloads]
      exact ihr sync hs


end Zvbi.Idl
