import ZvbiModel.Hamm.Model
import ZvbiModel.Generated.IdlPfc
/-!
# Model of src/idl_demux.c (IDL format A demultiplexer)

Follows `init_crc16_table`, `vbi_idl_demux_feed`, `idl_a_demux_feed`, `_vbi_idl_demux_init`,
`vbi_idl_demux_reset` statement by statement.

Conventions: a C `int` that is only compared with `< 0` / `>= 0` is an `Option Nat`
(`none` = -1): `dx->ci`, `dx->ri`, results of `vbi_unham8`.  `dx->flags` is an `unsigned int`
(`&= ~1` is `&&& 0xFFFFFFFE`).  The callback always returns TRUE (as in the harness), so the
return value of a delivering `feed` is `true`.  `dupecount` is a `uint8_t` that is incremented at
most 36 times per packet, so it is a plain `Nat` here.  The packet buffer is a `List Nat` of
bytes; `rd` is only used with indices < 14, slices are `drop`/`take` and stay inside 42 bytes.

`dx->flags` is **not assigned** by `vbi_idl_a_demux_new` (`vbi_malloc` + `_vbi_idl_demux_init`):
its initial value is a parameter (`fill`, the byte the allocator left in memory), unless the
translator sees an assignment in the current source (`Gen.idlFlagsInitialised`).
-/
namespace Zvbi.Idl
open Zvbi.Hamm Zvbi.Gen

/-- one `j` iteration of `init_crc16_table` on `(crc, val)`:
    `crc = (crc >> 1) ^ (poly & ((1 & ~(val ^ crc)) - 1)); val >>= 1` -/
def tabStep (poly : Nat) (cv : Nat × Nat) : Nat × Nat :=
  let m := if (cv.2 ^^^ cv.1) &&& 1 = 1 then poly else 0
  ((cv.1 >>> 1) ^^^ m, cv.2 >>> 1)

/-- `table[i]` as computed by `init_crc16_table (table, poly)` -/
def crcTabEntry (poly i : Nat) : Nat :=
  (tabStep poly (tabStep poly (tabStep poly (tabStep poly
    (tabStep poly (tabStep poly (tabStep poly (tabStep poly (0, i))))))))).1

/-- `idl_a_crc_table[i]` -/
def crcTab (i : Nat) : Nat := crcTabEntry idlCrcPoly i

/-- `crc = (crc >> 8) ^ idl_a_crc_table[(crc & 0xFF) ^ buffer[j]]` -/
def crcStep (crc b : Nat) : Nat := (crc >>> 8) ^^^ crcTab ((crc &&& 0xFF) ^^^ b)

/-- the `for (j = 4 + i; j < 42; ++j)` loop over the rest of the packet -/
def crcOf (bytes : List Nat) : Nat := bytes.foldl crcStep 0

structure St where
  channel : Nat
  address : Nat
  ci : Option Nat
  ri : Option Nat
  flags : Nat
deriving Repr, DecidableEq

/-- arguments of one callback invocation -/
structure Cb where
  flags : Nat
  bytes : List Nat
deriving Repr, DecidableEq

/-- state after `vbi_idl_a_demux_new (channel, address, ...)` when the allocator returned memory
    filled with byte `fill`; `none` = NULL (channel >= 16 or address >= 2^24) -/
def new (channel address fill : Nat) : Option St :=
  if channel ≥ 16 then none
  else if address ≥ 2 ^ 24 then none
  else some { channel := channel, address := address, ci := none, ri := none,
              flags := if idlFlagsInitialised then 0 else (fill % 256) * 0x01010101 }

/-- `vbi_idl_demux_reset` -/
def reset (s : St) : St := { s with ci := none, ri := none }

def rd (buf : List Nat) (j : Nat) : Nat := buf.getD j 0

/-- the dummy byte removal loop (`while (dl-- > 0)`) over the payload slice,
    with `histbyte` and `dupecount` -/
def unstuff (hist dupe : Nat) : List Nat → List Nat
  | [] => []
  | t :: r =>
    if (t = 0 ∨ t = 0xFF) ∧ t = hist then t :: unstuff hist (dupe + 1) r
    else if dupe = 7 then unstuff t 0 r
    else t :: unstuff t 0 r

/-- `spa |= vbi_unham8 (buffer[4 + i]) << (4 * i)`; `none` when any nibble fails (spa < 0) -/
def spaOf : List Nat → Option Nat
  | [] => some 0
  | b :: r =>
    match unham8 b, spaOf r with
    | some n, some rest => some (n ||| (rest <<< 4))
    | _, _ => none

/-- the part of `idl_a_demux_feed` after the CRC test (repeat / continuity logic, payload) -/
def deliver (s : St) (buf : List Nat) (ft ial ri ci i : Nat) : St × Bool × Option Cb :=
  -- if (dx->ri >= 0) {...} else if (0 != (ri & 0xF)) return TRUE
  let lost : St := { s with ci := none, ri := none, flags := s.flags ||| idlDataLost }
  let r : Option St :=
    match s.ri with
    | some dri =>
      if (ri ^^^ dri) &&& 0xF ≠ 0 then
        (if ri &&& 0xF ≠ 0 then none else some lost)
      else
        -- the awaited repeat arrived; a repaired source (`Gen.idlRiClearedOnRecovery`) sets dx->ri = -1 here
        some (if idlRiClearedOnRecovery then { s with ri := none } else s)
    | none => if ri &&& 0xF ≠ 0 then none else some s
  match r with
  | none =>
    -- "Discard repeat packet": return TRUE (after the state change when dx->ri >= 0)
    (match s.ri with | some _ => (lost, true, none) | none => (s, true, none))
  | some s1 =>
    let s2 : St :=
      match s1.ci with
      | some dci => if (ci ^^^ dci) &&& 0xFF ≠ 0 then { s1 with flags := s1.flags ||| idlDataLost } else s1
      | none => s1
    let s3 : St := { s2 with ci := some (ci + 1) }
    let (dl, i) :=
      if ft &&& ftHaveDl ≠ 0 then (min (rd buf (4 + i) &&& 0x3F) (36 - (i + 1)), i + 1)
      else (36 - i, i)
    let out := unstuff ci 0 ((buf.drop (4 + i)).take dl)
    let flags := s3.flags ||| (ial &&& idlDependent)
    ({ s3 with flags := s3.flags &&& 0xFFFFFFFE }, true, some { flags := flags, bytes := out })

/-- `idl_a_demux_feed (dx, buffer, ft)` -/
def feedA (s : St) (buf : List Nat) (ft : Nat) : St × Bool × Option Cb :=
  match unham8 (rd buf 3) with
  | none => (s, false, none)
  | some ial =>
    let spaLen := ial &&& 7
    if spaLen = 7 then (s, true, none) else
    match spaOf ((buf.drop 4).take spaLen) with
    | none => (s, false, none)
    | some spa =>
      if spa ≠ s.address then (s, true, none) else
      let i := spaLen
      let (ri, i) := if ft &&& ftHaveRi ≠ 0 then (rd buf (4 + i), i + 1) else (0, i)
      let crc := crcOf (buf.drop (4 + i))
      let (ci, i, crc) :=
        if ft &&& ftHaveCi ≠ 0 then (rd buf (4 + i), i + 1, crc)
        else (crc &&& 0xFF, i, crc ^^^ ((crc &&& 0xFF) ||| ((crc &&& 0xFF) <<< 8)))
      if crc ≠ 0 then
        if ri &&& riPacketRepeats = 0 then
          ({ s with ci := none, ri := none, flags := s.flags ||| idlDataLost }, false, none)
        else ({ s with ri := some (ri + 1) }, false, none)
      else deliver s buf ft ial ri ci i

/-- `vbi_idl_demux_feed (dx, buffer)` for `dx->format == _VBI_IDL_FORMAT_A` -/
def feed (s : St) (buf : List Nat) : St × Bool × Option Cb :=
  match unham8 (rd buf 0), unham8 (rd buf 1) with
  | some channel, some designation =>
    if designation ≠ 15 ∨ channel ≠ s.channel then (s, true, none) else
    (match unham8 (rd buf 2) with
     | none => (s, false, none)
     | some ft => if ft &&& 1 = 0 then feedA s buf ft else (s, true, none))
  | _, _ => (s, false, none)

end Zvbi.Idl
