import ZvbiModel.Idl.Lemmas
/-!
# Lemmas for the IDL demultiplexer (C15): the repeat mechanism (`dx->ri >= 0`)
`intactStep` describes what any intact packet of ours does in any state; `run_refines_R` is the
refinement of whole transmissions, including damaged packets that announce a repeat, to
`Spec.expectedR`.
-/
namespace Zvbi.Idl
open Zvbi.Hamm Zvbi.Gen


/-- delivery of `out` in state `s1` -/
def okStep (s1 : St) (ci ial : Nat) (out : List Nat) : St × Bool × Option Cb :=
  ({ s1 with ci := some (ci + 1), flags := (s1.flags ||| Spec.lostFlag s1.ci ci) &&& 0xFFFFFFFE }, true,
   some ⟨s1.flags ||| Spec.lostFlag s1.ci ci ||| (ial &&& 8), out⟩)

/-- "repeat packet(s) lost" -/
def lostSt (s : St) : St := { s with ci := none, ri := none, flags := s.flags ||| 1 }

/-- what an intact packet of ours with repeat indicator `riv` does, in any state -/
def intactStep (s : St) (riv ci ial : Nat) (out : List Nat) : St × Bool × Option Cb :=
  match s.ri with
  | none => if riv &&& 0xF ≠ 0 then (s, true, none) else okStep s ci ial out
  | some a =>
    if (riv ^^^ a) &&& 0xF ≠ 0 then
      (if riv &&& 0xF ≠ 0 then (lostSt s, true, none) else okStep (lostSt s) ci ial out)
    else okStep (if idlRiClearedOnRecovery then { s with ri := none } else s) ci ial out

/-- the part of `deliver` after the repeat logic chose the state `s1` to continue with -/
theorem deliver_tail (s1 : St) (buf : List Nat) (ft ial ci i : Nat) :
    (let s2 : St :=
      match s1.ci with
      | some dci => if (ci ^^^ dci) &&& 0xFF ≠ 0 then { s1 with flags := s1.flags ||| idlDataLost } else s1
      | none => s1
     let s3 : St := { s2 with ci := some (ci + 1) }
     let (dl, i) :=
       if ft &&& ftHaveDl ≠ 0 then (min (rd buf (4 + i) &&& 0x3F) (36 - (i + 1)), i + 1)
       else (36 - i, i)
     let out := unstuff ci 0 ((buf.drop (4 + i)).take dl)
     let flags := s3.flags ||| (ial &&& idlDependent)
     (({ s3 with flags := s3.flags &&& 0xFFFFFFFE }, true, some { flags := flags, bytes := out }) : St × Bool × Option Cb)) =
    okStep s1 ci ial (unstuff ci 0 (payloadSlice buf ft i)) := by
  obtain ⟨ch, addr, sci, sri, fl⟩ := s1
  unfold okStep payloadSlice
  by_cases hdl : ft &&& ftHaveDl ≠ 0
  · cases sci with
    | none => simp [hdl, Spec.lostFlag, idlDependent]
    | some c =>
      by_cases hne : (ci ^^^ c) &&& 0xFF ≠ 0
      · simp [hdl, Spec.lostFlag, hne, idlDependent, idlDataLost]
      · simp [hdl, Spec.lostFlag, hne, idlDependent]
  · cases sci with
    | none => simp [hdl, Spec.lostFlag, idlDependent]
    | some c =>
      by_cases hne : (ci ^^^ c) &&& 0xFF ≠ 0
      · simp [hdl, Spec.lostFlag, hne, idlDependent, idlDataLost]
      · simp [hdl, Spec.lostFlag, hne, idlDependent]

/-- `deliver` in any state -/
theorem deliver_general (s : St) (buf : List Nat) (ft ial ri ci i : Nat) :
    deliver s buf ft ial ri ci i = intactStep s ri ci ial (unstuff ci 0 (payloadSlice buf ft i)) := by
  unfold deliver intactStep
  cases hsri : s.ri with
  | none =>
    by_cases hn : ri &&& 0xF ≠ 0
    · rw [if_pos hn, if_pos hn]
    · rw [if_neg hn, if_neg hn]
      exact deliver_tail s buf ft ial ci i
  | some a =>
    dsimp only
    by_cases hm : (ri ^^^ a) &&& 0xF ≠ 0
    · by_cases hn : ri &&& 0xF ≠ 0
      · rw [if_pos hm, if_pos hn, if_pos hm, if_pos hn]; rfl
      · rw [if_pos hm, if_neg hn, if_pos hm, if_neg hn]
        exact deliver_tail (lostSt s) buf ft ial ci i
    · rw [if_neg hm, if_neg hm]
      exact deliver_tail _ buf ft ial ci i


/-- CRC test on a damaged packet, general form -/
theorem feedA3_bad (s : St) (P : List Nat) (i ri : Nat) (p : Spec.Pkt) (hs : p.Shape)
    (hbad : if p.haveCi then p.residual ≠ 0 else (p.residual &&& 0xFF) ≠ (p.residual >>> 8))
    (hP : P.length = 4 + i) :
    feedA3 s (P ++ (p.region ++ [p.crcLo, p.crcHi])) p.ft p.ial ri i =
      if ri &&& 0x80 = 0 then ({ s with ci := none, ri := none, flags := s.flags ||| 1 }, false, none)
      else ({ s with ri := some (ri + 1) }, false, none) := by
  unfold feedA3
  rw [drop_app _ _ _ hP, crcOf_eq _ (region_lt p hs)]
  have hrlt : Spec.crc (p.region ++ [p.crcLo, p.crcHi]) < 65536 := crc_lt _ (region_lt p hs)
  by_cases hci : p.ft &&& 4 ≠ 0
  · have h1 : p.haveCi = true := (haveCi_iff p).2 hci
    have h2 : p.ft &&& ftHaveCi ≠ 0 := hci
    rw [h1] at hbad
    simp only [if_true] at hbad
    have hbad' : Spec.crc (p.region ++ [p.crcLo, p.crcHi]) ≠ 0 := hbad
    by_cases hri : ri &&& 0x80 = 0
    · have hri' : ri &&& riPacketRepeats = 0 := hri
      simp [h2, hbad', hri', hri, idlDataLost]
    · have hri' : ¬ (ri &&& riPacketRepeats = 0) := hri
      simp [h2, hbad', hri', hri]
  · have h1 : p.haveCi = false := by
      cases h : p.haveCi with
      | false => rfl
      | true => exact absurd ((haveCi_iff p).1 h) hci
    have h2 : ¬ (p.ft &&& ftHaveCi ≠ 0) := hci
    rw [h1] at hbad
    simp only [Bool.false_eq_true, if_false] at hbad
    have hbad' : Spec.crc (p.region ++ [p.crcLo, p.crcHi]) &&& 0xFF ≠ Spec.crc (p.region ++ [p.crcLo, p.crcHi]) >>> 8 := hbad
    generalize Spec.crc (p.region ++ [p.crcLo, p.crcHi]) = r at hbad' hrlt
    have hne : r ^^^ ((r &&& 0xFF) ||| ((r &&& 0xFF) <<< 8)) ≠ 0 := by
      intro h0
      have heq : r = (r &&& 0xFF) ||| ((r &&& 0xFF) <<< 8) := eq_of_xor_eq_zero _ _ h0
      have := or_shl8_shr8 _ (and_ff_lt r)
      rw [← heq] at this
      exact hbad' this.symm
    by_cases hri : ri &&& 0x80 = 0
    · have hri' : ri &&& riPacketRepeats = 0 := hri
      simp [h2, hne, hri', hri, idlDataLost]
    · have hri' : ¬ (ri &&& riPacketRepeats = 0) := hri
      simp [h2, hne, hri', hri]

/-- **an intact packet of ours in any state** (a repeat may be awaited) -/
theorem feed_intact (s : St) (p : Spec.Pkt) (hv : p.Valid)
    (hch : s.channel = p.channel) (haddr : s.address = Spec.spaVal p.spa) :
    feed s p.bytes = intactStep s p.riv p.ci p.ial p.data := by
  have hs := hv.toShape
  rw [feed_hdr s p hs hch haddr]
  have hsplit := bytes_split p
  rw [hsplit, feedA3_valid s (pktPre p) _ _ p hv (pktPre_length p hs), ← hsplit]
  rw [deliver_general]
  have hl := layout_len p hs
  have hP : (pktPre p ++ (if p.haveCi then [p.ci] else [])).length =
      4 + ((p.ial &&& 7) + (if p.haveRi then 1 else 0) + (if p.haveCi then 1 else 0)) := by
    rw [List.length_append, pktPre_length p hs]
    cases p.haveCi <;> simp <;> omega
  have hpad : p.ft &&& 8 = 0 → p.pad = [] := by
    intro h; apply hs.pad_nil; simp [Spec.Pkt.haveDl, h]
  have hps := payloadSlice_valid _ _ p.ft p.payload p.pad [p.crcLo, p.crcHi] hP hl.1 hl.2 hpad
  rw [← bytes_split2] at hps
  rw [hps]
  have : unstuff p.ci 0 p.payload = p.data :=
    unstuff_stuff p.dummy hs.dummy_ne.1 hs.dummy_ne.2 p.data p.ci 0 (by decide)
  rw [this]; rfl

/-- a damaged packet of ours that announces a repeat: refused, repeat RI+1 awaited -/
theorem feed_damagedRep (s : St) (p : Spec.Pkt) (hd : p.DamagedRep)
    (hch : s.channel = p.channel) (haddr : s.address = Spec.spaVal p.spa) :
    feed s p.bytes = ({ s with ri := some (p.ri + 1) }, false, none) := by
  have hs := hd.toShape
  rw [feed_hdr s p hs hch haddr]
  have hsplit := bytes_split p
  rw [hsplit, feedA3_bad s (pktPre p) _ _ p hs hd.crc_bad (pktPre_length p hs)]
  have h1 : p.haveRi = true := hd.announces.1
  have h2 : ¬ (p.ri &&& 0x80 = 0) := hd.announces.2
  simp [h1, h2]


/-- one intact packet, then the rest: the model's step matches `Spec.intactR` -/
theorem intact_case (s : St) (riv ci ial : Nat) (data : List Nat) (rest : List (List Nat))
    (k : Nat → Option Nat → Option Nat → List (Nat × List Nat))
    (ih : ∀ s' : St, s'.channel = s.channel → s'.address = s.address →
      (run s' rest).map (fun cb => (cb.flags, cb.bytes)) = k s'.flags s'.ci s'.ri) :
    ((intactStep s riv ci ial data).2.2.toList ++ run (intactStep s riv ci ial data).1 rest).map
        (fun cb => (cb.flags, cb.bytes)) =
      Spec.intactR (!idlRiClearedOnRecovery) riv ci (ial &&& 8) data s.flags s.ci s.ri k := by
  have ih2 : ∀ (s' : St) (f : Nat) (e w : Option Nat), s'.channel = s.channel → s'.address = s.address →
      s'.flags = f → s'.ci = e → s'.ri = w →
      (run s' rest).map (fun cb => (cb.flags, cb.bytes)) = k f e w := by
    intro s' f e w h1 h2 hf he hw; subst hf he hw; exact ih s' h1 h2
  unfold intactStep Spec.intactR
  cases hsri : s.ri with
  | none =>
    dsimp only
    by_cases hn : riv &&& 0xF ≠ 0
    · rw [if_pos hn, if_pos hn]
      simp only [Option.toList, List.nil_append]
      exact ih2 _ _ _ _ rfl rfl rfl rfl hsri
    · rw [if_neg hn, if_neg hn]
      simp only [okStep, Option.toList, List.singleton_append, List.map_cons]
      congr 1
      exact ih2 _ _ _ _ rfl rfl rfl rfl hsri
  | some a =>
    dsimp only
    by_cases hm : (riv ^^^ a) &&& 0xF ≠ 0
    · by_cases hn : riv &&& 0xF ≠ 0
      · rw [if_pos hm, if_pos hn, if_pos hm, if_pos hn]
        simp only [Option.toList, List.nil_append]
        exact ih2 _ _ _ _ rfl rfl rfl rfl rfl
      · rw [if_pos hm, if_neg hn, if_pos hm, if_neg hn]
        simp only [okStep, Option.toList, List.singleton_append, List.map_cons]
        congr 1
        exact ih2 _ _ _ _ rfl rfl rfl rfl rfl
    · rw [if_neg hm, if_neg hm]
      simp only [okStep, Option.toList, List.singleton_append, List.map_cons]
      cases hfl : idlRiClearedOnRecovery
      · congr 1
        exact ih2 _ _ _ _ rfl rfl rfl rfl hsri
      · congr 1
        exact ih2 _ _ _ _ rfl rfl rfl rfl rfl

/-- **refinement with the repeat mechanism**: any legitimate transmission, from any state -/
theorem run_refines_R (txs : List Spec.Tx) : ∀ (s : St),
    (∀ t ∈ txs, Spec.Tx.Sent s.channel s.address t) →
    (run s (txs.map Spec.Tx.bytes)).map (fun cb => (cb.flags, cb.bytes)) =
      Spec.expectedR (!idlRiClearedOnRecovery) s.flags s.ci s.ri txs := by
  induction txs with
  | nil => intro s _; rfl
  | cons t r ih =>
    intro s hall
    have ht := hall t (by simp)
    have hr : ∀ (s' : St), s'.channel = s.channel → s'.address = s.address →
        ∀ t ∈ r, Spec.Tx.Sent s'.channel s'.address t := by
      intro s' h1 h2 x hx; rw [h1, h2]; exact hall x (by simp [hx])
    have ih' : ∀ s' : St, s'.channel = s.channel → s'.address = s.address →
        (run s' (r.map Spec.Tx.bytes)).map (fun cb => (cb.flags, cb.bytes)) =
          Spec.expectedR (!idlRiClearedOnRecovery) s'.flags s'.ci s'.ri r :=
      fun s' h1 h2 => ih s' (hr s' h1 h2)
    cases t with
    | data p =>
      obtain ⟨hv, hch, haddr, _⟩ := ht
      simp only [List.map_cons, Spec.Tx.bytes, run, Spec.expectedR]
      rw [feed_intact s p hv hch.symm haddr.symm]
      exact intact_case s p.riv p.ci p.ial p.data _ _ ih'
    | rep p =>
      obtain ⟨hv, hch, haddr, _, _⟩ := ht
      simp only [List.map_cons, Spec.Tx.bytes, run, Spec.expectedR]
      rw [feed_intact s p hv hch.symm haddr.symm]
      exact intact_case s p.riv p.ci p.ial p.data _ _ ih'
    | damaged p =>
      obtain ⟨hd, hch, haddr⟩ := ht
      have hf := feed_damaged s p hd hch.symm haddr.symm
      simp only [List.map_cons, Spec.Tx.bytes, run, hf, Option.toList, List.nil_append, Spec.expectedR]
      exact ih' _ rfl rfl
    | damagedRep p =>
      obtain ⟨hd, hch, haddr⟩ := ht
      have hf := feed_damagedRep s p hd hch.symm haddr.symm
      simp only [List.map_cons, Spec.Tx.bytes, run, hf, Option.toList, List.nil_append, Spec.expectedR]
      exact ih' _ rfl rfl
    | foreign b =>
      have hf := feed_foreign s b ht
      simp only [List.map_cons, Spec.Tx.bytes, run, hf.1, hf.2, Option.toList, List.nil_append, Spec.expectedR]
      exact ih' s rfl rfl


end Zvbi.Idl
