import ZvbiModel.Idl.Model
/-!
# Model of src/idl_demux.c for every value of `dx->format`

`Zvbi.Idl.feed` (Model.lean) is `vbi_idl_demux_feed` for `dx->format == _VBI_IDL_FORMAT_A` only.
This file follows `vbi_idl_demux_feed` and `_vbi_idl_demux_init` statement by statement for all
five `_VBI_IDL_FORMAT_*` values (idl_demux.h: A = 1, B = 2, DATAVIDEO = 4, AUDETEL = 8, LBRA = 16).
In the current source `idl_b_demux_feed`, `datavideo_demux_feed`, `audetel_demux_feed` and
`lbra_demux_feed` are `/* TODO */` stubs that touch nothing and return FALSE.

Any other format value reaches `default: assert (0)` in both functions (assertions are enabled):
that is the explicit result `assertFail`, never a silent acceptance.
-/
namespace Zvbi.Idl
open Zvbi.Hamm Zvbi.Gen

/-- `_VBI_IDL_FORMAT_A` -/
def fmtA : Nat := 1
/-- `_VBI_IDL_FORMAT_B` -/
def fmtB : Nat := 2
/-- `_VBI_IDL_FORMAT_DATAVIDEO` -/
def fmtDatavideo : Nat := 4
/-- `_VBI_IDL_FORMAT_AUDETEL` -/
def fmtAudetel : Nat := 8
/-- `_VBI_IDL_FORMAT_LBRA` -/
def fmtLbra : Nat := 16

/-- `dx->format` is one of the four formats whose sub-demultiplexer is a `/* TODO */` stub
    (B, DATAVIDEO, AUDETEL, LBRA) -/
def UnsupportedFmt (fmt : Nat) : Prop := fmt = 2 ∨ fmt = 4 ∨ fmt = 8 ∨ fmt = 16

instance (fmt : Nat) : Decidable (UnsupportedFmt fmt) := by unfold UnsupportedFmt; exact inferInstance

/-- `struct _vbi_idl_demux` with its `format` field -/
structure StF where
  fmt : Nat
  st : St
deriving Repr, DecidableEq

/-- result of `_vbi_idl_demux_init`: TRUE with the initialised struct, FALSE, or `assert (0)` -/
inductive InitR where
  | ok (s : StF)
  | null
  | assertFail
deriving Repr, DecidableEq

/-- result of `vbi_idl_demux_feed`: returned (new state, return value, callback) or `assert (0)` -/
inductive FeedR where
  | done (s : StF) (ret : Bool) (cb : Option Cb)
  | assertFail
deriving Repr, DecidableEq

/-- the assignments after the `switch` of `_vbi_idl_demux_init`.  `dx->flags` is assigned only if the
    translator saw the assignment in the current source (`Gen.idlFlagsInitialised`), otherwise it keeps
    what the allocator left there (`fill`), exactly as in `Zvbi.Idl.new`.
    `dx->channel` / `dx->address` are `int` fields assigned from `unsigned int` parameters: the model keeps the
    parameter value (the same 32 bits; the driver and the harness print them as unsigned).  Only format A, where
    `address < 2^24` is enforced, ever reads `dx->address`. -/
def initFields (format channel address fill : Nat) : StF :=
  { fmt := format,
    st := { channel := channel, address := address, ci := none, ri := none,
            flags := if idlFlagsInitialised then 0 else (fill % 256) * 0x01010101 } }

/-- `_vbi_idl_demux_init (dx, format, channel, address, ...)` on memory filled with byte `fill` -/
def initF (format channel address fill : Nat) : InitR :=
  -- if (channel >= (1 << 4)) return FALSE;
  if channel ≥ 16 then .null
  -- switch (format)
  else if format = fmtA then
    -- if (address >= (1 << 24)) return FALSE;   (then the CRC table)
    if address ≥ 2 ^ 24 then .null else .ok (initFields format channel address fill)
  else if format = fmtDatavideo ∨ format = fmtB ∨ format = fmtAudetel ∨ format = fmtLbra then
    -- /* TODO */ break;   -- no test of `address`
    .ok (initFields format channel address fill)
  else
    -- default: assert (0);
    .assertFail

/-- `vbi_idl_demux_reset` -/
def resetF (s : StF) : StF := { s with st := reset s.st }

/-- `idl_b_demux_feed (dx, buffer, ft)`: `/* TODO */ return FALSE;` -/
def feedB (s : St) (_buf : List Nat) (_ft : Nat) : St × Bool × Option Cb := (s, false, none)

/-- `datavideo_demux_feed (dx, buffer)`: `/* TODO */ return FALSE;` -/
def feedDatavideo (s : St) (_buf : List Nat) : St × Bool × Option Cb := (s, false, none)

/-- `audetel_demux_feed (dx, buffer)`: `/* TODO */ return FALSE;` -/
def feedAudetel (s : St) (_buf : List Nat) : St × Bool × Option Cb := (s, false, none)

/-- `lbra_demux_feed (dx, buffer)`: `/* TODO */ return FALSE;` -/
def feedLbra (s : St) (_buf : List Nat) : St × Bool × Option Cb := (s, false, none)

/-- a sub-demultiplexer's result put back into the struct -/
def doneOf (s : StF) (r : St × Bool × Option Cb) : FeedR := .done { s with st := r.1 } r.2.1 r.2.2

/-- `vbi_idl_demux_feed (dx, buffer)` -/
def feedF (s : StF) (buf : List Nat) : FeedR :=
  match unham8 (rd buf 0), unham8 (rd buf 1) with
  | some channel, some designation =>
    -- if (15 != designation || channel != dx->channel) return TRUE;
    if designation ≠ 15 ∨ channel ≠ s.st.channel then .done s true none
    -- switch (dx->format)
    else if s.fmt = fmtA then
      (match unham8 (rd buf 2) with
       | none => .done s false none
       | some ft => if ft &&& 1 = 0 then doneOf s (feedA s.st buf ft) else .done s true none)
    else if s.fmt = fmtB then
      (match unham8 (rd buf 2) with
       | none => .done s false none
       | some ft => if ft &&& 3 = 1 then doneOf s (feedB s.st buf ft) else .done s true none)
    else if s.fmt = fmtDatavideo then doneOf s (feedDatavideo s.st buf)
    else if s.fmt = fmtAudetel then doneOf s (feedAudetel s.st buf)
    else if s.fmt = fmtLbra then doneOf s (feedLbra s.st buf)
    else .assertFail
  -- if ((channel | designation) < 0) return FALSE;
  | _, _ => .done s false none

/-- one call of the public interface after construction -/
inductive OpF where
  | feed (buf : List Nat)
  | reset
deriving Repr, DecidableEq

/-- a history of calls: final state and the callbacks in order; `none` = an assertion failed -/
def runF : StF → List OpF → Option (StF × List Cb)
  | s, [] => some (s, [])
  | s, .reset :: r => runF (resetF s) r
  | s, .feed b :: r =>
    match feedF s b with
    | .assertFail => none
    | .done s' _ cb =>
      match runF s' r with
      | none => none
      | some (t, cbs) => some (t, cb.toList ++ cbs)

/-- for `dx->format == _VBI_IDL_FORMAT_A` the general function is the format A model of Model.lean -/
theorem feedF_fmtA (st : St) (buf : List Nat) :
    feedF ⟨fmtA, st⟩ buf =
      .done ⟨fmtA, (feed st buf).1⟩ (feed st buf).2.1 (feed st buf).2.2 := by
  unfold feedF feed
  cases unham8 (rd buf 0) with
  | none => rfl
  | some channel =>
    cases unham8 (rd buf 1) with
    | none => rfl
    | some designation =>
      by_cases hd : designation ≠ 15 ∨ channel ≠ st.channel
      · simp only [hd, if_true]
      · simp only [hd, if_false, if_true]
        cases unham8 (rd buf 2) with
        | none => rfl
        | some ft =>
          by_cases hf : ft &&& 1 = 0
          · simp only [hf, if_true, doneOf]
          · simp only [hf, if_false]

/-- construction with format A is `vbi_idl_a_demux_new` of Model.lean -/
theorem initF_fmtA (channel address fill : Nat) :
    initF fmtA channel address fill =
      (match new channel address fill with
       | some s => .ok ⟨fmtA, s⟩
       | none => .null) := by
  unfold initF new initFields
  by_cases h1 : channel ≥ 16
  · simp [h1]
  · by_cases h2 : address ≥ 2 ^ 24
    · simp [h1, h2]
    · simp [h1, h2]

end Zvbi.Idl
