import ZvbiModel.Idl.RepeatSender
/-!
# IDL format A streams that use RI repeats, fault patterns per transmission (C15, round 5)

`RepeatSender.lean` describes what happens to each *message* by a handful of event shapes.  Here the
unit is the single **transmission**: transmission number `j` (0 = original, `j >= 1` = repeat `j`) of
message number `c` (continuity index `c % 256`) is *received*, *dropped* or arrives *corrupt* (a
detectable error in its CRC region; the header bytes incl. RI as sent).  No relation between the
transmissions of a stream is assumed - any numbers in any order, so every fault pattern over
originals and repeats of a sender that numbers its messages consecutively is an instance
(`senderEvs`).

* `TEv`, `tevTxs`, `TEvOk` - the events, what is on the air, well-formedness.
* `wantT` - the sender-side reading of the property: who is handed over, and DATA_LOST on a
  delivery iff it does not directly continue the previous delivery or a corrupt transmission that
  was not repaired by its announced repeat intervened (`gapFlag`).
* `tev_sent`, `expectedR_tevs`, `run_tevs` - every event stream is a legitimate transmission; the
  intended receiver's obligations (`Spec.expectedR false`) for it are `wantT`; hence the
  demultiplexer's callbacks are `wantT` (by induction over the transmissions).
-/
namespace Zvbi.Idl
open Zvbi.Hamm Zvbi.Gen

/-- what happens to one transmission on the air -/
inductive Fault
  | received
  | dropped
  /-- arrives as `d`: detectable error in the CRC region -/
  | corrupt (d : Spec.Pkt)

/-- one transmission of ours (message number `c`, message `m` whose `ri` field is the repeat
    indicator byte without the repeat number, transmission number `j`), or an unrelated packet -/
inductive TEv
  | tx (c : Nat) (m : Msg) (j : Nat) (f : Fault)
  | foreign (buf : List Nat)

/-- the repeat indicator byte of transmission `j` of `m` announces a(nother) repeat (bit 7) -/
def announces (m : Msg) (j : Nat) : Bool := decide ((m.ri + j) &&& 0x80 ≠ 0)

def tevTxs (channel : Nat) (spa : List Nat) : TEv → List Spec.Tx
  | .foreign b => [.foreign b]
  | .tx _ _ _ .dropped => []
  | .tx _ m j (.corrupt d) => [if announces m j then .damagedRep d else .damaged d]
  | .tx c m j .received =>
    [if j = 0 then .data (pk channel spa (c % 256) m 0) else .rep (pk channel spa (c % 256) m j)]

def txsT (channel : Nat) (spa : List Nat) : List TEv → List Spec.Tx
  | [] => []
  | e :: r => tevTxs channel spa e ++ txsT channel spa r

/-- `d` is transmission `j` of `m` hit by a detectable error in its CRC region -/
def CorruptOk (channel : Nat) (spa : List Nat) (m : Msg) (j : Nat) (d : Spec.Pkt) : Prop :=
  d.Shape ∧ (if d.haveCi then d.residual ≠ 0 else (d.residual &&& 0xFF) ≠ (d.residual >>> 8)) ∧
  d.haveRi = true ∧ d.ri = m.ri + j ∧ d.channel = channel ∧ Spec.spaVal d.spa = Spec.spaVal spa

def TEvOk (channel : Nat) (spa : List Nat) : TEv → Prop
  | .foreign b => Spec.NotForUs channel (Spec.spaVal spa) b
  | .tx c m j f => m.Ok spa.length (c % 256) ∧ m.ft &&& 2 ≠ 0 ∧ j ≤ 14 ∧
      (match f with | .corrupt d => CorruptOk channel spa m j d | _ => True)

/-- DATA_LOST owed by a delivery of message `c`: an unrepaired corrupt transmission intervened
    (`pend`), or the message delivered last was not `c - 1` (modulo 256: the continuity index has 8 bits) -/
def gapFlag (pend : Bool) (last : Option Nat) (c : Nat) : Bool :=
  pend || (match last with | some l => decide ((l + 1) % 256 ≠ c % 256) | none => false)

/-- **what the application must see**, told from the sender's side.  State: `pend` - a corrupt
    transmission that was not repaired by its announced repeat intervened since the last delivery;
    `last` - number of the message delivered last; `aw` - repeat number announced by the corrupt
    transmission that was the last packet of ours to get through.
    * dropped transmissions and unrelated packets leave no trace;
    * a corrupt transmission announcing a repeat makes that repeat number awaited, one announcing
      none is an unrepaired corruption;
    * an intact transmission: the awaited repeat number -> handed over (it repairs the corrupt
      transmission); an original -> handed over (if a repeat was awaited it never came: unrepaired);
      another repeat -> discarded (if a repeat was awaited: unrepaired);
    * every delivery carries DATA_LOST iff `gapFlag`, DEPENDENT as sent, the exact user bytes.
    Honest consequence, visible in the third clause: the receiver identifies the awaited repeat by its number
    only, so after `original received, repeat j corrupt, repeat j+1 received` the message is handed
    over twice (finding C15-R2, `wantT_duplicate`). -/
def wantT : Bool → Option Nat → Option Nat → List TEv → List (Nat × List Nat)
  | _, _, _, [] => []
  | pend, last, aw, .foreign _ :: r => wantT pend last aw r
  | pend, last, aw, .tx _ _ _ .dropped :: r => wantT pend last aw r
  | pend, last, _, .tx _ m j (.corrupt _) :: r =>
    if announces m j then wantT pend last (some (j + 1)) r else wantT true last none r
  | pend, last, aw, .tx c m j .received :: r =>
    match aw with
    | none =>
      if j = 0 then ((if gapFlag pend last c then 1 else 0) ||| m.dep, m.data) :: wantT false (some c) none r
      else wantT pend last none r
    | some a =>
      if a = j then ((if gapFlag pend last c then 1 else 0) ||| m.dep, m.data) :: wantT false (some c) none r
      else if j = 0 then (1 ||| m.dep, m.data) :: wantT false (some c) none r
      else wantT true last none r

/-! ### every event is a legitimate transmission -/

theorem tev_sent (channel : Nat) (spa : List Nat) (hch : channel < 16) (hspa : spa.length ≤ 6)
    (hspalt : ∀ n ∈ spa, n < 16) (e : TEv) (he : TEvOk channel spa e) :
    ∀ t ∈ tevTxs channel spa e, Spec.Tx.Sent channel (Spec.spaVal spa) t := by
  intro t ht
  cases e with
  | foreign b =>
    simp only [tevTxs, List.mem_cons, List.not_mem_nil, or_false] at ht
    subst ht; exact he
  | tx c m j f =>
    obtain ⟨hm, hft, hj, hf⟩ := he
    have hci : c % 256 < 256 := Nat.mod_lt _ (by decide)
    cases f with
    | dropped => simp [tevTxs] at ht
    | received =>
      simp only [tevTxs, List.mem_cons, List.not_mem_nil, or_false] at ht
      subst ht
      by_cases h0 : j = 0
      · subst h0
        rw [if_pos rfl]
        refine ⟨pk_valid channel spa _ m 0 hch hspa hspalt hci hm (by omega), rfl, rfl, ?_⟩
        intro _
        have : (pk channel spa (c % 256) m 0).ri = m.ri + 0 := rfl
        rw [this]; simpa using hm.2.2.2.2.1
      · rw [if_neg h0]
        refine ⟨pk_valid channel spa _ m j hch hspa hspalt hci hm (by omega), rfl, rfl, ?_, ?_⟩
        · rw [pk_haveRi]; simpa using hft
        · have : (pk channel spa (c % 256) m j).ri = m.ri + j := rfl
          rw [this, low_nibble_add _ _ hm.2.2.2.2.1 (by omega)]; exact h0
    | corrupt d =>
      obtain ⟨hs, hbad, hri, hdri, hdc, hda⟩ := hf
      simp only [tevTxs, List.mem_cons, List.not_mem_nil, or_false] at ht
      subst ht
      by_cases ha : announces m j = true
      · rw [if_pos ha]
        have ha' : (m.ri + j) &&& 0x80 ≠ 0 := by simpa [announces] using ha
        exact ⟨{ toShape := hs, crc_bad := hbad, announces := ⟨hri, by rw [hdri]; exact ha'⟩ }, hdc, hda⟩
      · rw [if_neg ha]
        have ha' : (m.ri + j) &&& 0x80 = 0 := by simpa [announces] using ha
        exact ⟨{ toShape := hs, crc_bad := hbad, no_repeat := fun _ => by rw [hdri]; exact ha' }, hdc, hda⟩

def TEvsOk (channel : Nat) (spa : List Nat) (evs : List TEv) : Prop := ∀ e ∈ evs, TEvOk channel spa e

theorem txsT_sent (channel : Nat) (spa : List Nat) (hch : channel < 16) (hspa : spa.length ≤ 6)
    (hspalt : ∀ n ∈ spa, n < 16) (evs : List TEv) (hok : TEvsOk channel spa evs) :
    ∀ t ∈ txsT channel spa evs, Spec.Tx.Sent channel (Spec.spaVal spa) t := by
  induction evs with
  | nil => intro t ht; simp [txsT] at ht
  | cons e r ih =>
    intro t ht
    simp only [txsT, List.mem_append] at ht
    rcases ht with ht | ht
    · exact tev_sent channel spa hch hspa hspalt e (hok e (by simp)) t ht
    · exact ih (fun x hx => hok x (by simp [hx])) t ht

/-! ### `Spec.expectedR false` of an event stream is `wantT` -/

/-- receiver's expected continuity index vs. the sender's knowledge of the last delivery -/
def CiRel (eci : Option Nat) (pend : Bool) (last : Option Nat) : Prop :=
  match eci with
  | none => pend = true ∨ last = none
  | some e => ∃ l, last = some l ∧ e % 256 = (l + 1) % 256

/-- receiver's awaited repeat indicator vs. the announced repeat number -/
def AwRelT : Option Nat → Option Nat → Prop
  | none, none => True
  | some x, some n => x &&& 0xF = n
  | _, _ => False

theorem flag_rel (c : Nat) (eci : Option Nat) (pend : Bool) (last : Option Nat) (h : CiRel eci pend last) :
    (if pend then 1 else 0) ||| Spec.lostFlag eci (c % 256) = if gapFlag pend last c then 1 else 0 := by
  cases eci with
  | none =>
    rcases h with h | h
    · subst h; simp [gapFlag, Spec.lostFlag]
    · subst h; cases pend <;> simp [gapFlag, Spec.lostFlag]
  | some e =>
    obtain ⟨l, hl, he⟩ := h
    subst hl
    have hx := xor_and_ff_eq_zero_iff (c % 256) e
    simp only [Spec.lostFlag, gapFlag]
    by_cases hg : (l + 1) % 256 ≠ c % 256
    · have : (c % 256 ^^^ e) &&& 0xFF ≠ 0 := by
        intro h0; have := hx.1 h0; omega
      rw [if_pos this]
      cases pend <;> simp [hg]
    · have : ¬ ((c % 256 ^^^ e) &&& 0xFF ≠ 0) := by
        intro h0; apply h0; apply hx.2; omega
      rw [if_neg this]
      cases pend <;> simp [hg]

theorem flagBit (b : Bool) : ((if b then 1 else 0 : Nat) &&& 0xFFFFFFFE) = 0 := by cases b <;> decide

theorem pend_or_one (pend : Bool) : ((if pend then 1 else 0 : Nat) ||| 1) = 1 := by cases pend <;> decide

theorem ciRel_delivered (c : Nat) : CiRel (some (c % 256 + 1)) false (some c) :=
  ⟨c, rfl, by omega⟩

theorem nibble_match (x n j ri : Nat) (hx : x &&& 0xF = n) (hri : ri &&& 0xF = 0) (hj : j ≤ 15) :
    ((ri + j) ^^^ x) &&& 0xF ≠ 0 ↔ n ≠ j := by
  rw [Nat.and_xor_distrib_right, low_nibble_add _ _ hri hj, hx]
  constructor
  · intro h e; apply h; rw [e, Nat.xor_self]
  · intro h e; exact h (eq_of_xor_eq_zero _ _ e).symm

/-- **the intended receiver's obligations for a stream of transmissions**: `Spec.expectedR false`
    equals `wantT`; induction over the transmissions -/
theorem expectedR_tevs (channel : Nat) (spa : List Nat) (hspa : spa.length ≤ 6) (evs : List TEv) :
    ∀ (eci awr : Option Nat) (pend : Bool) (last aw : Option Nat),
    TEvsOk channel spa evs → CiRel eci pend last → AwRelT awr aw →
    Spec.expectedR false (if pend then 1 else 0) eci awr (txsT channel spa evs) = wantT pend last aw evs := by
  induction evs with
  | nil => intro _ _ _ _ _ _ _ _; rfl
  | cons e r ih =>
    intro eci awr pend last aw hok hci haw
    have he := hok e (by simp)
    have hr : TEvsOk channel spa r := fun x hx => hok x (by simp [hx])
    cases e with
    | foreign b =>
      simp only [txsT, tevTxs, List.cons_append, List.nil_append, Spec.expectedR, wantT]
      exact ih eci awr pend last aw hr hci haw
    | tx c m j f =>
      obtain ⟨hm, hft, hj, hf⟩ := he
      have hri := hm.2.2.2.2.1
      cases f with
      | dropped =>
        simp only [txsT, tevTxs, List.nil_append, wantT]
        exact ih eci awr pend last aw hr hci haw
      | corrupt d =>
        obtain ⟨_, _, _, hdri, _, _⟩ := hf
        by_cases ha : announces m j = true
        · simp only [txsT, tevTxs, ha, if_true, List.cons_append, List.nil_append, Spec.expectedR, wantT]
          refine ih eci (some (d.ri + 1)) pend last (some (j + 1)) hr hci ?_
          show (d.ri + 1) &&& 0xF = j + 1
          rw [hdri, Nat.add_assoc]
          exact low_nibble_add _ _ hri (by omega)
        · simp only [txsT, tevTxs, ha, if_false, Bool.false_eq_true, List.cons_append, List.nil_append,
            Spec.expectedR, wantT]
          rw [pend_or_one]
          exact ih none none true last none hr (Or.inl rfl) trivial
      | received =>
        have hdep := (ial_facts spa.length m.dep hspa hm.2.2.1).2.2.2
        -- both `.data` and `.rep` are read by `intactR`
        have hstep : ∀ rest, Spec.expectedR false (if pend then 1 else 0) eci awr
            ((if j = 0 then Spec.Tx.data (pk channel spa (c % 256) m 0)
              else Spec.Tx.rep (pk channel spa (c % 256) m j)) :: rest) =
            Spec.intactR false (m.ri + j) (c % 256) m.dep m.data (if pend then 1 else 0) eci awr
              (fun f e w => Spec.expectedR false f e w rest) := by
          intro rest
          by_cases h0 : j = 0
          · subst h0
            rw [if_pos rfl]
            simp only [Spec.expectedR]
            have h1 : (pk channel spa (c % 256) m 0).riv = m.ri + 0 := by rw [pk_riv, if_pos hft]
            have h2 : (pk channel spa (c % 256) m 0).ial &&& 8 = m.dep := hdep
            rw [h1, h2]; rfl
          · rw [if_neg h0]
            simp only [Spec.expectedR]
            have h1 : (pk channel spa (c % 256) m j).riv = m.ri + j := by rw [pk_riv, if_pos hft]
            have h2 : (pk channel spa (c % 256) m j).ial &&& 8 = m.dep := hdep
            rw [h1, h2]; rfl
        have hlow : (m.ri + j) &&& 0xF = j := low_nibble_add _ _ hri (by omega)
        have hihD := ih (some (c % 256 + 1)) none false (some c) none hr (ciRel_delivered c) trivial
        simp only [Bool.false_eq_true, if_false] at hihD
        simp only [txsT, tevTxs, List.cons_append, List.nil_append]
        rw [hstep]
        cases awr with
        | none =>
          cases aw with
          | some n => exact absurd haw (by simp [AwRelT])
          | none =>
            by_cases h0 : j = 0
            · subst h0
              simp only [Spec.intactR, hlow, ne_eq, not_true_eq_false, if_false, wantT, if_true]
              rw [flag_rel c eci pend last hci, flagBit, hihD]
            · have hne : ¬ (j = 0) := h0
              simp only [Spec.intactR, hlow, ne_eq, hne, not_false_eq_true, if_true, wantT, if_false]
              exact ih eci none pend last none hr hci trivial
        | some x =>
          cases aw with
          | none => exact absurd haw (by simp [AwRelT])
          | some n =>
            have hx : x &&& 0xF = n := haw
            have hmm := nibble_match x n j m.ri hx hri (by omega)
            by_cases hnj : n = j
            · have hno : ¬ (((m.ri + j) ^^^ x) &&& 0xF ≠ 0) := fun h => (hmm.1 h) hnj
              simp only [Spec.intactR, hno, if_false, wantT, hnj, if_true, Bool.false_eq_true]
              rw [flag_rel c eci pend last hci, flagBit, hihD]
            · have hyes : ((m.ri + j) ^^^ x) &&& 0xF ≠ 0 := hmm.2 hnj
              by_cases h0 : j = 0
              · subst h0
                simp only [Spec.intactR, hyes, if_true, hlow, ne_eq, not_true_eq_false, not_false_eq_true, if_false, wantT]
                have hnj' : ¬ (n = 0) := hnj
                simp only [hnj', if_false, Spec.lostFlag, Nat.or_zero]
                rw [pend_or_one]
                have e1 : (1 : Nat) &&& 0xFFFFFFFE = 0 := by decide
                rw [e1, hihD]
              · have hne : ¬ (j = 0) := h0
                simp only [Spec.intactR, hyes, if_true, hlow, ne_eq, hne, not_false_eq_true, wantT, hnj, if_false]
                rw [pend_or_one]
                exact ih none none true last none hr (Or.inl rfl) trivial

/-- **the demultiplexer on a stream of transmissions**: from any state whose flag word, expected
    continuity index and awaited repeat correspond to `(pend, last, aw)`, the callbacks are `wantT` -/
theorem run_tevs (channel : Nat) (spa : List Nat) (hch : channel < 16) (hspa : spa.length ≤ 6)
    (hspalt : ∀ n ∈ spa, n < 16) (evs : List TEv) (hok : TEvsOk channel spa evs)
    (s : St) (hsc : s.channel = channel) (hsa : s.address = Spec.spaVal spa)
    (pend : Bool) (last aw : Option Nat)
    (hfl : s.flags = if pend then 1 else 0) (hci : CiRel s.ci pend last) (haw : AwRelT s.ri aw) :
    (run s ((txsT channel spa evs).map Spec.Tx.bytes)).map (fun cb => (cb.flags, cb.bytes)) =
      wantT pend last aw evs := by
  have hsent : ∀ t ∈ txsT channel spa evs, Spec.Tx.Sent s.channel s.address t := by
    rw [hsc, hsa]; exact txsT_sent channel spa hch hspa hspalt evs hok
  have h := run_refines_R (txsT channel spa evs) s hsent
  have hst : (!idlRiClearedOnRecovery) = false := rfl
  rw [h, hst, hfl]
  exact expectedR_tevs channel spa hspa evs s.ci s.ri pend last aw hok hci haw

/-! ### a sender that numbers its messages consecutively and repeats them -/

/-- one transmission as the sender schedules it: the high nibble of its RI byte (bit 3 of it = RI
    bit 7 = "a further repeat follows"), what happens to it, and unrelated packets sent before it -/
structure Slot where
  hi : Nat
  fault : Fault
  before : List (List Nat)

/-- transmissions `j, j+1, ..` of message `c` -/
def slotEvs (c : Nat) (m : Msg) : Nat → List Slot → List TEv
  | _, [] => []
  | j, sl :: r => sl.before.map .foreign ++ (.tx c { m with ri := 16 * sl.hi } j sl.fault :: slotEvs c m (j + 1) r)

/-- the sender: message number `c` first, each message with its list of transmissions -/
def senderEvs : Nat → List (Msg × List Slot) → List TEv
  | _, [] => []
  | c, (m, sls) :: r => slotEvs c m 0 sls ++ senderEvs (c + 1) r

def SlotOk (channel : Nat) (spa : List Nat) (m : Msg) (j : Nat) (sl : Slot) : Prop :=
  sl.hi < 16 ∧ (∀ b ∈ sl.before, Spec.NotForUs channel (Spec.spaVal spa) b) ∧
  (match sl.fault with | .corrupt d => CorruptOk channel spa { m with ri := 16 * sl.hi } j d | _ => True)

def SlotsOk (channel : Nat) (spa : List Nat) (m : Msg) : Nat → List Slot → Prop
  | _, [] => True
  | j, sl :: r => j ≤ 14 ∧ SlotOk channel spa m j sl ∧ SlotsOk channel spa m (j + 1) r

def SenderOk (channel : Nat) (spa : List Nat) : Nat → List (Msg × List Slot) → Prop
  | _, [] => True
  | c, (m, sls) :: r => m.Ok spa.length (c % 256) ∧ m.ft &&& 2 ≠ 0 ∧ SlotsOk channel spa m 0 sls ∧
      SenderOk channel spa (c + 1) r

theorem hi_facts : ∀ hi < 16, 16 * hi < 256 ∧ (16 * hi) &&& 0xF = 0 := by decide

theorem slotEvs_ok (channel : Nat) (spa : List Nat) (c : Nat) (m : Msg) (hm : m.Ok spa.length (c % 256))
    (hft : m.ft &&& 2 ≠ 0) (sls : List Slot) : ∀ j, SlotsOk channel spa m j sls →
    TEvsOk channel spa (slotEvs c m j sls) := by
  induction sls with
  | nil => intro _ _ e he; simp [slotEvs] at he
  | cons sl r ih =>
    intro j hok e he
    obtain ⟨hj, ⟨hhi, hbef, hfault⟩, hr⟩ := hok
    simp only [slotEvs, List.mem_append, List.mem_map, List.mem_cons] at he
    rcases he with ⟨b, hb, rfl⟩ | rfl | he
    · exact hbef b hb
    · obtain ⟨h1, h2, h3, _, _, h6, h7, h8, h9, h10, h11⟩ := hm
      obtain ⟨g1, g2⟩ := hi_facts sl.hi hhi
      exact ⟨⟨h1, h2, h3, g1, g2, h6, h7, h8, h9, h10, h11⟩, hft, hj, hfault⟩
    · exact ih (j + 1) hr e he

theorem senderEvs_ok (channel : Nat) (spa : List Nat) (msgs : List (Msg × List Slot)) :
    ∀ c, SenderOk channel spa c msgs → TEvsOk channel spa (senderEvs c msgs) := by
  induction msgs with
  | nil => intro _ _ e he; simp [senderEvs] at he
  | cons x r ih =>
    intro c hok e he
    obtain ⟨m, sls⟩ := x
    obtain ⟨hm, hft, hs, hr⟩ := hok
    simp only [senderEvs, List.mem_append] at he
    rcases he with he | he
    · exact slotEvs_ok channel spa c m hm hft sls 0 hs e he
    · exact ih (c + 1) hr e he

/-! ### executable version of `Spec.Pkt.Shape` (for concrete instances) -/

def shapeB (p : Spec.Pkt) : Bool :=
  decide (p.channel < 16) && decide (p.ft < 16) && decide (p.ft &&& 1 = 0) && decide (p.ial < 16) &&
  decide (p.spa.length = p.ial &&& 7) && decide (p.ial &&& 7 ≠ 7) && p.spa.all (· < 16) &&
  decide (p.ri < 256) && decide (p.ci < 256) && p.data.all (· < 256) && decide (p.dummy < 256) &&
  decide (p.dummy ≠ 0 ∧ p.dummy ≠ 0xFF) && p.pad.all (· < 256) && (p.haveDl || decide (p.pad = [])) &&
  decide (p.crcLo < 256) && decide (p.crcHi < 256) && decide (p.bytes.length = 42)

theorem shape_of_shapeB (p : Spec.Pkt) (h : shapeB p = true) : p.Shape := by
  simp only [shapeB, Bool.and_eq_true, decide_eq_true_eq, List.all_eq_true, Bool.or_eq_true] at h
  obtain ⟨⟨⟨⟨⟨⟨⟨⟨⟨⟨⟨⟨⟨⟨⟨⟨h1, h2⟩, h3⟩, h4⟩, h5⟩, h6⟩, h7⟩, h8⟩, h9⟩, h10⟩, h11⟩, h12⟩, h13⟩, h14⟩, h15⟩, h16⟩, h17⟩ := h
  exact { channel_lt := h1, ft_lt := h2, ft_a := h3, ial_lt := h4, spa_len := h5, spa_len_ne := h6,
          spa_lt := h7, ri_lt := h8, ci_lt := h9, data_lt := h10, dummy_lt := h11, dummy_ne := h12,
          pad_lt := h13,
          pad_nil := by
            intro hd; rcases h14 with h | h
            · rw [hd] at h; cases h
            · exact h
          crcLo_lt := h15, crcHi_lt := h16, length_eq := h17 }

end Zvbi.Idl
