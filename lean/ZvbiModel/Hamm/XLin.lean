/-!
# XOR-linearity over n-bit inputs

`XLin n f`: `f (a ^^^ b) = f a ^^^ f b ^^^ f 0` for all `a b < 2^n` (affine over GF(2)).
* `bit_induction`: a predicate that holds at 0 and is preserved by flipping any one of the low
  `n` bits holds for every `c < 2^n` (structural: induction on `n`, no enumeration).
* `xlin_of_flip`: a function whose value changes by a constant when one input bit flips is `XLin`
  (this is how a 256-entry table becomes linear from a `256 x 8` table fact).
* `xlin_ext`: two `XLin` functions that agree at 0 and at the `n` unit vectors agree on all of
  `2^n` inputs.
* closure under xor, composition, shift-and-mask, and "parity bit 5 selects a constant".
-/
namespace Zvbi.Hamm

theorem xor_two_pow_of_lt {b i : Nat} (h : b < 2 ^ i) : b ^^^ 2 ^ i = 2 ^ i + b := by
  apply Nat.eq_of_testBit_eq
  intro j
  rw [Nat.testBit_xor, Nat.testBit_two_pow]
  rcases Nat.lt_trichotomy j i with hj | hj | hj
  · rw [Nat.testBit_two_pow_add_gt hj]
    have : ¬ i = j := by omega
    simp [this]
  · subst hj
    rw [Nat.testBit_two_pow_add_eq, Nat.testBit_lt_two_pow h]
    simp
  · have hb : b < 2 ^ j := Nat.lt_of_lt_of_le h (Nat.pow_le_pow_right (by decide) (by omega))
    have hs : 2 ^ i + b < 2 ^ j := by
      have : 2 ^ i + b < 2 ^ (i + 1) := by rw [Nat.pow_succ]; omega
      exact Nat.lt_of_lt_of_le this (Nat.pow_le_pow_right (by decide) (by omega))
    rw [Nat.testBit_lt_two_pow hb, Nat.testBit_lt_two_pow hs]
    have : ¬ i = j := by omega
    simp [this]

/-- every `c < 2^n` is reached from 0 by flipping bits below `n` -/
theorem bit_induction (n : Nat) (P : Nat → Prop) (h0 : P 0)
    (hs : ∀ c, c < 2 ^ n → ∀ k, k < n → P c → P (c ^^^ 1 <<< k)) : ∀ c, c < 2 ^ n → P c := by
  have key : ∀ m, m ≤ n → ∀ c, c < 2 ^ m → P c := by
    intro m
    induction m with
    | zero => intro _ c hc; have : c = 0 := by simpa using hc
              subst this; exact h0
    | succ m ih =>
      intro hm c hc
      by_cases hlt : c < 2 ^ m
      · exact ih (by omega) c hlt
      · have hc' : c - 2 ^ m < 2 ^ m := by rw [Nat.pow_succ] at hc; omega
        have hp := ih (by omega) (c - 2 ^ m) hc'
        have hbig : c - 2 ^ m < 2 ^ n :=
          Nat.lt_of_lt_of_le hc' (Nat.pow_le_pow_right (by decide) (by omega))
        have := hs (c - 2 ^ m) hbig m (by omega) hp
        rw [Nat.shiftLeft_eq, Nat.one_mul, xor_two_pow_of_lt hc'] at this
        have e : 2 ^ m + (c - 2 ^ m) = c := by omega
        rw [e] at this; exact this
  exact key n (Nat.le_refl n)

def XLin (n : Nat) (f : Nat → Nat) : Prop :=
  ∀ a, a < 2 ^ n → ∀ b, b < 2 ^ n → f (a ^^^ b) = f a ^^^ f b ^^^ f 0

theorem one_shl_lt {k n : Nat} (h : k < n) : 1 <<< k < 2 ^ n := by
  rw [Nat.shiftLeft_eq, Nat.one_mul]; exact Nat.pow_lt_pow_right (by decide) h

theorem xlin_of_flip (n : Nat) (f s : Nat → Nat)
    (h : ∀ a, a < 2 ^ n → ∀ k, k < n → f (a ^^^ 1 <<< k) = f a ^^^ s k) : XLin n f := by
  intro a ha b hb
  revert a
  refine bit_induction n (fun b => ∀ a, a < 2 ^ n → f (a ^^^ b) = f a ^^^ f b ^^^ f 0) ?_ ?_ b hb
  · intro a _
    rw [Nat.xor_zero, Nat.xor_assoc, Nat.xor_self, Nat.xor_zero]
  · intro c hc k hk ih a ha
    have hac : a ^^^ c < 2 ^ n := Nat.xor_lt_two_pow ha hc
    rw [← Nat.xor_assoc, h (a ^^^ c) hac k hk, ih a ha, h c hc k hk]
    ac_rfl

theorem xlin_ext (n : Nat) (f g : Nat → Nat) (hf : XLin n f) (hg : XLin n g) (h0 : f 0 = g 0)
    (hb : ∀ k, k < n → f (1 <<< k) = g (1 <<< k)) : ∀ c, c < 2 ^ n → f c = g c := by
  refine bit_induction n (fun c => f c = g c) h0 ?_
  intro c hc k hk ih
  rw [hf c hc _ (one_shl_lt hk), hg c hc _ (one_shl_lt hk), ih, hb k hk, h0]

theorem xlin_xor {n : Nat} {f g : Nat → Nat} (hf : XLin n f) (hg : XLin n g) :
    XLin n (fun c => f c ^^^ g c) := by
  intro a ha b hb
  show f (a ^^^ b) ^^^ g (a ^^^ b) = (f a ^^^ g a) ^^^ (f b ^^^ g b) ^^^ (f 0 ^^^ g 0)
  rw [hf a ha b hb, hg a ha b hb]
  ac_rfl

/-- composition: inner function `n`-bit linear with `m`-bit values, outer `m`-bit linear -/
theorem xlin_comp {n m : Nat} {f g : Nat → Nat} (hf : XLin n f) (hfb : ∀ a, a < 2 ^ n → f a < 2 ^ m)
    (hg : XLin m g) : XLin n (fun c => g (f c)) := by
  intro a ha b hb
  have z : (0 : Nat) < 2 ^ n := Nat.two_pow_pos n
  have e1 : g (f a ^^^ f b ^^^ f 0) = g (f a ^^^ f b) ^^^ g (f 0) ^^^ g 0 :=
    hg _ (Nat.xor_lt_two_pow (hfb a ha) (hfb b hb)) _ (hfb 0 z)
  have e2 := hg _ (hfb a ha) _ (hfb b hb)
  show g (f (a ^^^ b)) = g (f a) ^^^ g (f b) ^^^ g (f 0)
  rw [hf a ha b hb, e1, e2]
  have : g (f a) ^^^ g (f b) ^^^ g 0 ^^^ g (f 0) ^^^ g 0
      = g (f a) ^^^ g (f b) ^^^ g (f 0) ^^^ (g 0 ^^^ g 0) := by ac_rfl
  rw [this, Nat.xor_self, Nat.xor_zero]

/-- `c ↦ (c >>> s) &&& m` -/
theorem xlin_field (n s m : Nat) : XLin n (fun c => (c >>> s) &&& m) := by
  intro a _ b _
  show ((a ^^^ b) >>> s) &&& m = _
  rw [Nat.shiftRight_xor_distrib, Nat.and_xor_distrib_right]
  simp

theorem xlin_shl {n : Nat} {f : Nat → Nat} (hf : XLin n f) (s : Nat) : XLin n (fun c => f c <<< s) := by
  intro a ha b hb
  show f (a ^^^ b) <<< s = _
  rw [hf a ha b hb, Nat.shiftLeft_xor_distrib, Nat.shiftLeft_xor_distrib]

theorem and32_cases (x : Nat) : x &&& 32 = 0 ∨ x &&& 32 = 32 := by
  have h1 : x &&& 32 ≤ 32 := Nat.and_le_right
  have h2 : (x &&& 32) &&& 32 = x &&& 32 := by rw [Nat.and_assoc, Nat.and_self]
  have key : ∀ y, y ≤ 32 → y &&& 32 = y → y = 0 ∨ y = 32 := by decide
  exact key _ h1 h2

/-- selecting between 0x80 and 0 by bit 5 of a linear function is linear -/
theorem xlin_bit5 {n : Nat} {g : Nat → Nat} (hg : XLin n g) (X Y : Nat)
    (hXY : (X = 0 ∧ Y = 0x80) ∨ (X = 0x80 ∧ Y = 0)) :
    XLin n (fun c => if g c &&& 32 != 0 then X else Y) := by
  intro a ha b hb
  show (if g (a ^^^ b) &&& 32 != 0 then X else Y) = _
  rw [hg a ha b hb, Nat.and_xor_distrib_right, Nat.and_xor_distrib_right]
  rcases and32_cases (g a) with h1 | h1 <;> rcases and32_cases (g b) with h2 | h2 <;>
    rcases and32_cases (g 0) with h3 | h3 <;> rcases hXY with ⟨hX, hY⟩ | ⟨hX, hY⟩ <;>
    simp [h1, h2, h3, hX, hY]

end Zvbi.Hamm
