import ZvbiModel.Hamm.Hamm24
import ZvbiModel.Hamm.XLin
/-!
# Hamming 24/18: what `vbi_ham24p` produces is what `vbi_unham24p` accepts

`ham24p_unham24p`: for every 18-bit `c`, `unham24p (ham24p c) = some c`.
Structural proof, no enumeration of the 2^18 values: every stage of the encoder (table look-ups
of byte slices, shifts, masks, the two parity selections P5 / P6) is XOR-linear in `c`
(`XLin 18`), the tables being linear by `256 x 8` single-bit-flip facts lifted with
`xlin_of_flip`; hence syndrome and decoded data are XOR-linear in `c`, and two linear functions
that agree at 0 and at the 18 unit vectors agree everywhere (`xlin_ext`).
-/
namespace Zvbi.Hamm
open Zvbi.Gen

/-! ## table facts -/

theorem fwd0_flip : ∀ a < 256, ∀ k < 8,
    hamm24Fwd0 (a ^^^ 1 <<< k) = hamm24Fwd0 a ^^^ (hamm24Fwd0 (1 <<< k) ^^^ hamm24Fwd0 0) := by
  decide +kernel
theorem fwd1_flip : ∀ a < 256, ∀ k < 8,
    hamm24Fwd1 (a ^^^ 1 <<< k) = hamm24Fwd1 a ^^^ (hamm24Fwd1 (1 <<< k) ^^^ hamm24Fwd1 0) := by
  decide +kernel
theorem fwd2_flip : ∀ a < 4, ∀ k < 2,
    hamm24Fwd2 (a ^^^ 1 <<< k) = hamm24Fwd2 a ^^^ (hamm24Fwd2 (1 <<< k) ^^^ hamm24Fwd2 0) := by
  decide +kernel

theorem fwd0_lt (i : Nat) : hamm24Fwd0 i < 2 ^ 8 := Nat.lt_succ_of_le Nat.and_le_right
theorem fwd1_lt (i : Nat) : hamm24Fwd1 i < 2 ^ 8 := Nat.lt_succ_of_le Nat.and_le_right
theorem fwd2_lt (i : Nat) : hamm24Fwd2 i < 2 ^ 8 := Nat.lt_succ_of_le Nat.and_le_right

theorem xlin_fwd0 : XLin 8 hamm24Fwd0 := xlin_of_flip 8 _ _ fwd0_flip
theorem xlin_fwd1 : XLin 8 hamm24Fwd1 := xlin_of_flip 8 _ _ fwd1_flip
theorem xlin_fwd2 : XLin 2 hamm24Fwd2 := xlin_of_flip 2 _ _ fwd2_flip
theorem xlin_par0 : XLin 8 hamm24InvPar0 := xlin_of_flip 8 _ _ par0_flip
theorem xlin_par1 : XLin 8 hamm24InvPar1 := xlin_of_flip 8 _ _ par1_flip
theorem xlin_par2 : XLin 8 hamm24InvPar2 := xlin_of_flip 8 _ _ par2_flip
theorem xlin_f0 : XLin 8 f0 := xlin_of_flip 8 _ _ f0_flip
theorem xlin_F1 : XLin 8 F1 := xlin_of_flip 8 _ _ F1_flip
theorem xlin_F2 : XLin 8 F2 := xlin_of_flip 8 _ _ F2_flip

/-! ## the encoder, stage by stage -/

def e0 (c : Nat) : Nat :=
  hamm24Fwd0 (c &&& 0xFF) ^^^ hamm24Fwd1 ((c >>> 8) &&& 0xFF) ^^^ hamm24Fwd2 ((c >>> 16) &&& 0x03)
def e5 (c : Nat) : Nat := (c >>> 4) &&& 0x7F
def e12 (c : Nat) : Nat := (c >>> 11) &&& 0x7F
def eP5 (c : Nat) : Nat := if hamm24InvPar0 (e12 c) &&& 32 != 0 then 0 else 0x80
def eP6 (c : Nat) : Nat :=
  if (hamm24InvPar0 (e0 c) ^^^ hamm24InvPar0 (e5 c)) &&& 32 != 0 then 0x80 else 0

theorem ham24p_eq (c : Nat) : ham24p c = (e0 c, e5 c ||| eP5 c, e12 c ||| eP6 c) := rfl

theorem e0_lt (c : Nat) : e0 c < 2 ^ 8 :=
  Nat.xor_lt_two_pow (Nat.xor_lt_two_pow (fwd0_lt _) (fwd1_lt _)) (fwd2_lt _)
theorem e5_lt (c : Nat) : e5 c < 2 ^ 7 := Nat.lt_succ_of_le Nat.and_le_right
theorem e12_lt (c : Nat) : e12 c < 2 ^ 7 := Nat.lt_succ_of_le Nat.and_le_right
theorem eP5_cases (c : Nat) : eP5 c = 0 ∨ eP5 c = 0x80 := by unfold eP5; split <;> simp
theorem eP6_cases (c : Nat) : eP6 c = 0 ∨ eP6 c = 0x80 := by unfold eP6; split <;> simp

theorem or_eq_xor_of_and_zero (a b : Nat) (h : a &&& b = 0) : a ||| b = a ^^^ b := by
  apply Nat.eq_of_testBit_eq
  intro i
  have e := congrArg (fun x => x.testBit i) h
  simp only [Nat.testBit_and, Nat.zero_testBit] at e
  rw [Nat.testBit_or, Nat.testBit_xor]
  cases ha : a.testBit i <;> cases hb : b.testBit i <;> simp_all

theorem and_par_zero (x p : Nat) (hx : x < 2 ^ 7) (hp : p = 0 ∨ p = 0x80) : x &&& p = 0 := by
  rcases hp with rfl | rfl
  · exact Nat.and_zero x
  · exact and_zero_of_bitsIn (bitsIn_of_lt hx)
      (bitsIn_shift (a := 1) (n := 1) (s := 7) (by decide)) (Or.inl (Nat.le_refl _))

theorem par_byte_lt (x p : Nat) (hx : x < 2 ^ 7) (hp : p = 0 ∨ p = 0x80) : x ^^^ p < 2 ^ 8 := by
  apply Nat.xor_lt_two_pow
  · exact Nat.lt_trans hx (by decide)
  · rcases hp with rfl | rfl <;> decide

/-- second and third byte with `|||` replaced by `^^^` (the parity bit is disjoint) -/
def b1 (c : Nat) : Nat := e5 c ^^^ eP5 c
def b2 (c : Nat) : Nat := e12 c ^^^ eP6 c

theorem ham24p_eq' (c : Nat) : ham24p c = (e0 c, b1 c, b2 c) := by
  rw [ham24p_eq, or_eq_xor_of_and_zero _ _ (and_par_zero _ _ (e5_lt c) (eP5_cases c)),
    or_eq_xor_of_and_zero _ _ (and_par_zero _ _ (e12_lt c) (eP6_cases c))]
  rfl

theorem b1_lt (c : Nat) : b1 c < 2 ^ 8 := par_byte_lt _ _ (e5_lt c) (eP5_cases c)
theorem b2_lt (c : Nat) : b2 c < 2 ^ 8 := par_byte_lt _ _ (e12_lt c) (eP6_cases c)

/-! ## every stage is XOR-linear in the 18 data bits -/

theorem xlin_and (n m : Nat) : XLin n (fun c => c &&& m) := by
  intro a _ b _
  show (a ^^^ b) &&& m = _
  rw [Nat.and_xor_distrib_right]; simp

theorem and_lt_of_mask {x m k : Nat} (h : m < 2 ^ k) : x &&& m < 2 ^ k :=
  Nat.lt_of_le_of_lt Nat.and_le_right h

theorem xlin_e0 : XLin 18 e0 :=
  xlin_xor (xlin_xor
    (xlin_comp (xlin_and 18 0xFF) (fun _ _ => and_lt_of_mask (by decide)) xlin_fwd0)
    (xlin_comp (xlin_field 18 8 0xFF) (fun _ _ => and_lt_of_mask (by decide)) xlin_fwd1))
    (xlin_comp (xlin_field 18 16 0x03) (fun _ _ => and_lt_of_mask (by decide)) xlin_fwd2)

theorem xlin_e5 : XLin 18 e5 := xlin_field 18 4 0x7F
theorem xlin_e12 : XLin 18 e12 := xlin_field 18 11 0x7F

theorem xlin_eP5 : XLin 18 eP5 :=
  xlin_bit5 (xlin_comp xlin_e12 (fun c _ => Nat.lt_trans (e12_lt c) (by decide)) xlin_par0) 0 0x80
    (Or.inl ⟨rfl, rfl⟩)

theorem xlin_eP6 : XLin 18 eP6 :=
  xlin_bit5 (xlin_xor (xlin_comp xlin_e0 (fun c _ => e0_lt c) xlin_par0)
    (xlin_comp xlin_e5 (fun c _ => Nat.lt_trans (e5_lt c) (by decide)) xlin_par0)) 0x80 0
    (Or.inr ⟨rfl, rfl⟩)

theorem xlin_b1 : XLin 18 b1 := xlin_xor xlin_e5 xlin_eP5
theorem xlin_b2 : XLin 18 b2 := xlin_xor xlin_e12 xlin_eP6

/-- syndrome of the encoded triplet as a function of the data -/
def encSyn (c : Nat) : Nat :=
  hamm24InvPar0 (e0 c) ^^^ hamm24InvPar1 (b1 c) ^^^ hamm24InvPar2 (b2 c)
/-- decoded data bits of the encoded triplet (with `^^^` for the disjoint `|||`) -/
def encDat (c : Nat) : Nat := f0 (e0 c) ^^^ F1 (b1 c) ^^^ F2 (b2 c)

theorem xlin_encSyn : XLin 18 encSyn :=
  xlin_xor (xlin_xor (xlin_comp xlin_e0 (fun c _ => e0_lt c) xlin_par0)
    (xlin_comp xlin_b1 (fun c _ => b1_lt c) xlin_par1))
    (xlin_comp xlin_b2 (fun c _ => b2_lt c) xlin_par2)

theorem xlin_encDat : XLin 18 encDat :=
  xlin_xor (xlin_xor (xlin_comp xlin_e0 (fun c _ => e0_lt c) xlin_f0)
    (xlin_comp xlin_b1 (fun c _ => b1_lt c) xlin_F1))
    (xlin_comp xlin_b2 (fun c _ => b2_lt c) xlin_F2)

theorem xlin_zero (n : Nat) : XLin n (fun _ => 0) := fun _ _ _ _ => by simp
theorem xlin_id (n : Nat) : XLin n (fun c => c) := fun _ _ _ _ => (Nat.xor_zero _).symm

/-! ## 19 evaluations: the zero word and the 18 unit vectors -/

theorem encSyn_basis : encSyn 0 = 0 ∧ ∀ k < 18, encSyn (1 <<< k) = 0 := by decide +kernel
theorem encDat_basis : encDat 0 = 0 ∧ ∀ k < 18, encDat (1 <<< k) = 1 <<< k := by decide +kernel

theorem encSyn_zero (c : Nat) (hc : c < 2 ^ 18) : encSyn c = 0 :=
  xlin_ext 18 encSyn (fun _ => 0) xlin_encSyn (xlin_zero 18) encSyn_basis.1 encSyn_basis.2 c hc

theorem encDat_id (c : Nat) (hc : c < 2 ^ 18) : encDat c = c :=
  xlin_ext 18 encDat (fun c => c) xlin_encDat (xlin_id 18) encDat_basis.1 encDat_basis.2 c hc

/-! ## the round trip -/

theorem triD_xor (p0 p1 p2 : Nat) (h0 : p0 < 256) : triD p0 p1 p2 = f0 p0 ^^^ F1 p1 ^^^ F2 p2 := by
  have hf0 := bitsIn_of_lt (f0_lt p0 h0)
  rw [triD_eq,
    or_eq_xor_of_and_zero (f0 p0) (F1 p1) (and_zero_of_bitsIn hf0 (F1_bits p1) (Or.inl (Nat.le_refl _))),
    or_eq_xor_of_and_zero _ (F2 p2)]
  have h01 : BitsIn (f0 p0 ^^^ F1 p1) 0 11 := by
    have a : BitsIn (f0 p0) 0 11 := fun i hi => ⟨Nat.zero_le _, by have := (hf0 i hi).2; omega⟩
    have b : BitsIn (F1 p1) 0 11 := fun i hi => ⟨Nat.zero_le _, (F1_bits p1 i hi).2⟩
    exact bitsIn_xor a b
  exact and_zero_of_bitsIn h01 (F2_bits p2) (Or.inl (Nat.le_refl _))

/-- the three bytes `vbi_ham24p` stores are bytes, have zero syndrome and carry the data -/
theorem ham24p_valid (c : Nat) (hc : c < 2 ^ 18) :
    (ham24p c).1 < 256 ∧ (ham24p c).2.1 < 256 ∧ (ham24p c).2.2 < 256 ∧
    triSyn (ham24p c).1 (ham24p c).2.1 (ham24p c).2.2 = 0 ∧
    triD (ham24p c).1 (ham24p c).2.1 (ham24p c).2.2 = c := by
  rw [ham24p_eq']
  refine ⟨e0_lt c, b1_lt c, b2_lt c, encSyn_zero c hc, ?_⟩
  show triD (e0 c) (b1 c) (b2 c) = c
  rw [triD_xor _ _ _ (e0_lt c)]
  exact encDat_id c hc

/-- `vbi_unham24p (vbi_ham24p c) = c` for every 18-bit value -/
theorem ham24p_unham24p : ham24p_unham24p_statement := by
  intro c hc
  obtain ⟨_, _, _, hs, hd⟩ := ham24p_valid c hc
  rw [unham24p_valid _ _ _ hs, hd]

/-! ## bit errors in a transmitted triplet -/

/-- flip bit `k` (0..23, transmission order: bit `k % 8` of byte `k / 8`) of a triplet -/
def flip24 (t : Nat × Nat × Nat) (k : Nat) : Nat × Nat × Nat :=
  if k < 8 then (t.1 ^^^ 1 <<< k, t.2.1, t.2.2)
  else if k < 16 then (t.1, t.2.1 ^^^ 1 <<< (k - 8), t.2.2)
  else (t.1, t.2.1, t.2.2 ^^^ 1 <<< (k - 16))

/-- `vbi_unham24p` on a triplet -/
def unham24t (t : Nat × Nat × Nat) : Option Nat := unham24p t.1 t.2.1 t.2.2

/-- syndrome contribution of transmitted bit `k` -/
def synOf (k : Nat) : Nat := if k < 8 then s0 k else if k < 16 then s1 (k - 8) else s2 (k - 16)

def IsTriplet (t : Nat × Nat × Nat) : Prop := t.1 < 256 ∧ t.2.1 < 256 ∧ t.2.2 < 256

theorem flip_byte_lt {x j : Nat} (hx : x < 256) (hj : j < 8) : x ^^^ 1 <<< j < 256 :=
  Nat.xor_lt_two_pow (n := 8) hx (one_shl_lt hj)

theorem flip24_triplet (t : Nat × Nat × Nat) (ht : IsTriplet t) (k : Nat) (hk : k < 24) :
    IsTriplet (flip24 t k) := by
  obtain ⟨h0, h1, h2⟩ := ht
  unfold flip24
  split
  · exact ⟨flip_byte_lt h0 (by omega), h1, h2⟩
  · split
    · exact ⟨h0, flip_byte_lt h1 (by omega), h2⟩
    · exact ⟨h0, h1, flip_byte_lt h2 (by omega)⟩

/-- the syndrome is linear in the transmitted bits -/
theorem triSyn_flip24 (t : Nat × Nat × Nat) (ht : IsTriplet t) (k : Nat) (hk : k < 24) :
    triSyn (flip24 t k).1 (flip24 t k).2.1 (flip24 t k).2.2 = triSyn t.1 t.2.1 t.2.2 ^^^ synOf k := by
  obtain ⟨h0, h1, h2⟩ := ht
  unfold flip24 synOf triSyn
  split
  · rw [par0_flip _ h0 k (by omega)]; ac_rfl
  · split
    · rw [par1_flip _ h1 (k - 8) (by omega)]; ac_rfl
    · rw [par2_flip _ h2 (k - 16) (by omega)]; ac_rfl

/-- One flipped bit anywhere in the 24 transmitted bits of an encoded value is corrected. -/
theorem unham24_single_from_data (c : Nat) (hc : c < 2 ^ 18) (k : Nat) (hk : k < 24) :
    unham24t (flip24 (ham24p c) k) = some c := by
  obtain ⟨h0, h1, h2, hs, hd⟩ := ham24p_valid c hc
  unfold unham24t flip24
  split
  · rw [unham24p_single0 _ _ _ h0 hs k (by omega), hd]
  · split
    · rw [unham24p_single1 _ _ _ h0 h1 hs (k - 8) (by omega), hd]
    · rw [unham24p_single2 _ _ _ h0 h2 hs (k - 16) (by omega), hd]

/-- the error table flags the syndrome of every pair of distinct bit positions -/
theorem err_double : ∀ j < 24, ∀ k < 24, j ≠ k →
    (hamm24InvErr (synOf j ^^^ synOf k) &&& 0x80000000 != 0) = true := by decide +kernel

/-- Two flipped bits in a zero-syndrome triplet are detected (`vbi_unham24p` < 0), never
    miscorrected. -/
theorem unham24_double_detected (t : Nat × Nat × Nat) (ht : IsTriplet t)
    (hs : triSyn t.1 t.2.1 t.2.2 = 0) (j k : Nat) (hj : j < 24) (hk : k < 24) (hne : j ≠ k) :
    unham24t (flip24 (flip24 t j) k) = none := by
  have h1 := triSyn_flip24 t ht j hj
  have h2 := triSyn_flip24 (flip24 t j) (flip24_triplet t ht j hj) k hk
  rw [h1, hs, Nat.zero_xor] at h2
  unfold unham24t unham24p
  simp only [h2, err_double j hj k hk hne, if_true]

theorem unham24_double_from_data (c : Nat) (hc : c < 2 ^ 18) (j k : Nat) (hj : j < 24) (hk : k < 24)
    (hne : j ≠ k) : unham24t (flip24 (flip24 (ham24p c) j) k) = none := by
  obtain ⟨h0, h1, h2, hs, _⟩ := ham24p_valid c hc
  exact unham24_double_detected _ ⟨h0, h1, h2⟩ hs j k hj hk hne

end Zvbi.Hamm
