import ZvbiModel.Hamm.Model
/-!
# Facts about the Hamming / parity layer, proved from the generated tables.
All table-wide facts are `decide` over the complete table (a proof, the
quantifier is finite); the 24/18 single-error theorem is structural.
-/
namespace Zvbi.Hamm
open Zvbi.Gen

/-- the bit-reverse table really reverses bits -/
def revBits8 (c : Nat) : Nat :=
  (List.range 8).foldl (fun acc k => acc ||| (((c >>> k) &&& 1) <<< (7 - k))) 0

theorem rev8_spec : ∀ c < 256, rev8 c = revBits8 c := by decide +kernel
theorem rev8_involutive : ∀ c < 256, rev8 (rev8 c) = c := by decide +kernel
theorem rev8_lt : ∀ c < 256, rev8 c < 256 := by decide +kernel

theorem ham8_lt : ∀ n < 16, ham8 n < 256 := by decide +kernel
theorem unham8_ham8 : ∀ n < 16, unham8 (ham8 n) = some n := by decide +kernel
/-- one flipped bit of a Hamming 8/4 codeword is corrected -/
theorem unham8_single : ∀ n < 16, ∀ k < 8, unham8 (ham8 n ^^^ (1 <<< k)) = some n := by
  decide +kernel
/-- two flipped bits are detected, never miscorrected -/
theorem unham8_double : ∀ n < 16, ∀ j < 8, ∀ k < 8, j ≠ k →
    unham8 (ham8 n ^^^ (1 <<< j) ^^^ (1 <<< k)) = none := by decide +kernel
theorem unham8_range : ∀ c < 256, ∀ v, unham8 c = some v → v < 16 := by
  intro c hc v h
  have : ∀ c < 256, (unham8 c).all (· < 16) = true := by decide +kernel
  have := this c hc
  simp [h] at this
  exact this

/-- number of one bits of a byte, mod 2 -/
def parityBit (c : Nat) : Nat := (List.range 8).foldl (fun acc k => acc ^^^ ((c >>> k) &&& 1)) 0

theorem oddPar_spec : ∀ c < 256, oddPar c = (parityBit c == 1) := by decide +kernel
theorem unpar8_par8 : ∀ c < 128, unpar8 (par8 c) = some c := by decide +kernel
theorem par8_low : ∀ c < 256, par8 c &&& 127 = c &&& 127 := by decide +kernel
/-- one flipped bit in an odd-parity byte is detected -/
theorem unpar8_single : ∀ c < 256, oddPar c = true → ∀ k < 8, unpar8 (c ^^^ (1 <<< k)) = none := by
  decide +kernel
theorem unpar8_some : ∀ c < 256, ∀ v, unpar8 c = some v → v = c &&& 127 ∧ oddPar c = true := by
  intro c _ v h
  unfold unpar8 at h
  split at h
  · simp_all
  · simp at h

end Zvbi.Hamm
