import ZvbiModel.Generated.HammTables
/-!
# Model of src/hamm.h, src/hamm.c

Transcription conventions (DESIGN.md section 3): a C `int` result that callers
only test with `< 0` is an `Option Nat` (`none` = negative).  Tables come from
`Generated/HammTables.lean`, i.e. from the current `src/hamm-tables.h`.
-/
namespace Zvbi.Hamm
open Zvbi.Gen

/-- `vbi_rev8`: `_vbi_bit_reverse[(uint8_t) c]` -/
def rev8 (c : Nat) : Nat := bitReverse (c % 256)

/-- `vbi_rev16` -/
def rev16 (c : Nat) : Nat := bitReverse (c % 256) * 256 + bitReverse ((c >>> 8) % 256)

/-- `vbi_ham8` -/
def ham8 (c : Nat) : Nat := hamm8Fwd (c &&& 15)

/-- `vbi_unham8`: `_vbi_hamm8_inv[(uint8_t) c]`, an `int8_t`: raw >= 128 is negative -/
def unham8 (c : Nat) : Option Nat :=
  let v := hamm8Inv (c % 256)
  if v < 128 then some v else none

/-- `vbi_unham16p`: `inv[p0] | inv[p1] << 4`; negative iff either is negative -/
def unham16p (p0 p1 : Nat) : Option Nat :=
  match unham8 p0, unham8 p1 with
  | some a, some b => some (a ||| (b <<< 4))
  | _, _ => none

/-- odd-parity flag of a byte: `_vbi_hamm24_inv_par[0][c] & 32` -/
def oddPar (c : Nat) : Bool := hamm24InvPar0 (c % 256) &&& 32 != 0

/-- `vbi_par8`: `c &= 255; c ^= 128 & ~(inv_par[0][c] << 2)` -/
def par8 (c : Nat) : Nat :=
  let c := c % 256
  if oddPar c then c else c ^^^ 128

/-- `vbi_unpar8` -/
def unpar8 (c : Nat) : Option Nat :=
  if oddPar c then some (c &&& 127) else none

/-- `vbi_unpar` over a byte list: (all bytes odd parity?, bytes with msb cleared) -/
def unpar (p : List Nat) : Bool × List Nat :=
  (p.all oddPar, p.map (· &&& 127))

/-- `vbi_ham24p`, returning the three bytes -/
def ham24p (c : Nat) : Nat × Nat × Nat :=
  let byte0 := hamm24Fwd0 (c &&& 0xFF) ^^^ hamm24Fwd1 ((c >>> 8) &&& 0xFF)
                ^^^ hamm24Fwd2 ((c >>> 16) &&& 0x03)
  let d5_d11 := (c >>> 4) &&& 0x7F
  let d12_d18 := (c >>> 11) &&& 0x7F
  -- P5 = 0x80 & ~(inv_par[0][D12_D18] << 2)
  let p5 := if hamm24InvPar0 d12_d18 &&& 32 != 0 then 0 else 0x80
  -- P6 = 0x80 & ((inv_par[0][Byte_0] ^ inv_par[0][D5_D11]) << 2)
  let p6 := if (hamm24InvPar0 byte0 ^^^ hamm24InvPar0 d5_d11) &&& 32 != 0 then 0x80 else 0
  (byte0, d5_d11 ||| p5, d12_d18 ||| p6)

/-- data bits of a triplet before correction -/
def triD (p0 p1 p2 : Nat) : Nat :=
  hamm24InvD1D4 (p0 >>> 2) ||| ((p1 &&& 0x7F) <<< 4) ||| ((p2 &&& 0x7F) <<< 11)

/-- syndrome `ABCDEF` -/
def triSyn (p0 p1 p2 : Nat) : Nat :=
  hamm24InvPar0 p0 ^^^ hamm24InvPar1 p1 ^^^ hamm24InvPar2 p2

/-- `vbi_unham24p` on bytes `p0 p1 p2 < 256`: `d ^ (int) inv_err[ABCDEF]`;
    the `int32_t` entry 0x80000000 makes the result negative. -/
def unham24p (p0 p1 p2 : Nat) : Option Nat :=
  let e := hamm24InvErr (triSyn p0 p1 p2)
  if e &&& 0x80000000 != 0 then none else some (triD p0 p1 p2 ^^^ e)

end Zvbi.Hamm
