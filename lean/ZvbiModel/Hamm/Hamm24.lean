import ZvbiModel.Hamm.Lemmas
namespace Zvbi.Hamm
open Zvbi.Gen

theorem or_xor_disjoint (a b c : Nat) (h1 : a &&& b = 0) (h2 : c &&& b = 0) :
    (a ||| b) ^^^ c = (a ^^^ c) ||| b := by
  apply Nat.eq_of_testBit_eq
  intro i
  have e1 := congrArg (fun x => x.testBit i) h1
  have e2 := congrArg (fun x => x.testBit i) h2
  simp only [Nat.testBit_and, Nat.zero_testBit] at e1 e2
  simp only [Nat.testBit_xor, Nat.testBit_or]
  cases ha : a.testBit i <;> cases hb : b.testBit i <;> cases hc : c.testBit i <;> simp_all

/-- bits of `a` live in `[lo, hi)` -/
def BitsIn (a lo hi : Nat) : Prop := ∀ i, a.testBit i = true → lo ≤ i ∧ i < hi

theorem bitsIn_of_lt {a n : Nat} (h : a < 2 ^ n) : BitsIn a 0 n := by
  intro i hi
  refine ⟨Nat.zero_le _, ?_⟩
  rcases Nat.lt_or_ge i n with hc | hc
  · exact hc
  · have : a < 2 ^ i := Nat.lt_of_lt_of_le h (Nat.pow_le_pow_right (by decide) hc)
    rw [Nat.testBit_lt_two_pow this] at hi
    exact absurd hi (by decide)

theorem bitsIn_shift {a n s : Nat} (h : a < 2 ^ n) : BitsIn (a <<< s) s (s + n) := by
  intro i hi
  rw [Nat.testBit_shiftLeft] at hi
  simp only [Bool.and_eq_true, decide_eq_true_eq] at hi
  have := (bitsIn_of_lt h (i - s) hi.2).2
  omega

theorem bitsIn_or {a b lo hi lo' hi' : Nat} (ha : BitsIn a lo hi) (hb : BitsIn b lo' hi') :
    BitsIn (a ||| b) (min lo lo') (max hi hi') := by
  intro i hi
  rw [Nat.testBit_or] at hi
  simp only [Bool.or_eq_true] at hi
  rcases hi with h | h
  · have := ha i h; omega
  · have := hb i h; omega

theorem bitsIn_xor {a b lo hi : Nat} (ha : BitsIn a lo hi) (hb : BitsIn b lo hi) :
    BitsIn (a ^^^ b) lo hi := by
  intro i hi
  rw [Nat.testBit_xor] at hi
  cases h1 : a.testBit i <;> cases h2 : b.testBit i <;> simp_all
  · exact hb i h2
  · exact ha i h1

theorem and_zero_of_bitsIn {a b lo hi lo' hi' : Nat} (ha : BitsIn a lo hi) (hb : BitsIn b lo' hi')
    (hd : hi ≤ lo' ∨ hi' ≤ lo) : a &&& b = 0 := by
  apply Nat.eq_of_testBit_eq
  intro i
  rw [Nat.testBit_and, Nat.zero_testBit]
  cases h1 : a.testBit i <;> cases h2 : b.testBit i <;> simp
  have := ha i h1; have := hb i h2; omega

end Zvbi.Hamm
namespace Zvbi.Hamm
open Zvbi.Gen

theorem xor_fix (a b m : Nat) (h1 : (a ^^^ m) &&& b = 0) (h2 : m &&& b = 0) :
    ((a ^^^ m) ||| b) ^^^ m = a ||| b := by
  rw [or_xor_disjoint _ _ _ h1 h2, Nat.xor_assoc, Nat.xor_self, Nat.xor_zero]

def f0 (p0 : Nat) : Nat := hamm24InvD1D4 (p0 >>> 2)
def F1 (p1 : Nat) : Nat := (p1 &&& 0x7F) <<< 4
def F2 (p2 : Nat) : Nat := (p2 &&& 0x7F) <<< 11
theorem triD_eq (p0 p1 p2 : Nat) : triD p0 p1 p2 = f0 p0 ||| F1 p1 ||| F2 p2 := rfl

/-- syndrome change caused by flipping bit `k` of byte 0 / 1 / 2 -/
def s0 (k : Nat) : Nat := hamm24InvPar0 (1 <<< k) ^^^ hamm24InvPar0 0
def s1 (k : Nat) : Nat := hamm24InvPar1 (1 <<< k) ^^^ hamm24InvPar1 0
def s2 (k : Nat) : Nat := hamm24InvPar2 (1 <<< k) ^^^ hamm24InvPar2 0

theorem par0_flip : ∀ a < 256, ∀ k < 8, hamm24InvPar0 (a ^^^ 1 <<< k) = hamm24InvPar0 a ^^^ s0 k := by
  decide +kernel
theorem par1_flip : ∀ a < 256, ∀ k < 8, hamm24InvPar1 (a ^^^ 1 <<< k) = hamm24InvPar1 a ^^^ s1 k := by
  decide +kernel
theorem par2_flip : ∀ a < 256, ∀ k < 8, hamm24InvPar2 (a ^^^ 1 <<< k) = hamm24InvPar2 a ^^^ s2 k := by
  decide +kernel
theorem f0_flip : ∀ a < 256, ∀ k < 8, f0 (a ^^^ 1 <<< k) = f0 a ^^^ hamm24InvErr (s0 k) := by
  decide +kernel
theorem F1_flip : ∀ a < 256, ∀ k < 8, F1 (a ^^^ 1 <<< k) = F1 a ^^^ hamm24InvErr (s1 k) := by
  decide +kernel
theorem F2_flip : ∀ a < 256, ∀ k < 8, F2 (a ^^^ 1 <<< k) = F2 a ^^^ hamm24InvErr (s2 k) := by
  decide +kernel
theorem f0_lt : ∀ a < 256, f0 a < 2 ^ 4 := by decide +kernel
theorem err0_ok : ∀ k < 8, hamm24InvErr (s0 k) < 2 ^ 4 := by decide +kernel
theorem err1_ok : ∀ k < 8, hamm24InvErr (s1 k) = ((hamm24InvErr (s1 k) >>> 4) % 2 ^ 7) <<< 4 := by
  decide +kernel
theorem err2_ok : ∀ k < 8, hamm24InvErr (s2 k) = ((hamm24InvErr (s2 k) >>> 11) % 2 ^ 7) <<< 11 := by
  decide +kernel
theorem err_zero : hamm24InvErr 0 = 0 := by decide +kernel

theorem and7f_lt (x : Nat) : x &&& 0x7F < 2 ^ 7 := Nat.and_lt_two_pow x (by decide : 0x7F < 2 ^ 7)

theorem F1_bits (p : Nat) : BitsIn (F1 p) 4 11 := bitsIn_shift (and7f_lt p)
theorem F2_bits (p : Nat) : BitsIn (F2 p) 11 18 := bitsIn_shift (and7f_lt p)
theorem err1_bits (k : Nat) (hk : k < 8) : BitsIn (hamm24InvErr (s1 k)) 4 11 := by
  rw [err1_ok k hk]; exact bitsIn_shift (Nat.mod_lt _ (by decide))
theorem err2_bits (k : Nat) (hk : k < 8) : BitsIn (hamm24InvErr (s2 k)) 11 18 := by
  rw [err2_ok k hk]; exact bitsIn_shift (Nat.mod_lt _ (by decide))

theorem unham24p_valid (p0 p1 p2 : Nat) (hv : triSyn p0 p1 p2 = 0) :
    unham24p p0 p1 p2 = some (triD p0 p1 p2) := by
  simp [unham24p, hv, err_zero]

/-- A triplet with zero syndrome decodes to the same value after any single
    bit of its first byte is flipped. -/
theorem unham24p_single0 (p0 p1 p2 : Nat) (h0 : p0 < 256) (hv : triSyn p0 p1 p2 = 0)
    (k : Nat) (hk : k < 8) : unham24p (p0 ^^^ 1 <<< k) p1 p2 = some (triD p0 p1 p2) := by
  have hs : triSyn (p0 ^^^ 1 <<< k) p1 p2 = s0 k := by
    unfold triSyn at *
    rw [par0_flip p0 h0 k hk]
    have : hamm24InvPar0 p0 ^^^ s0 k ^^^ hamm24InvPar1 p1 ^^^ hamm24InvPar2 p2
        = (hamm24InvPar0 p0 ^^^ hamm24InvPar1 p1 ^^^ hamm24InvPar2 p2) ^^^ s0 k := by ac_rfl
    rw [this, hv, Nat.zero_xor]
  have hm := err0_ok k hk
  have hb : BitsIn (F1 p1 ||| F2 p2) 4 18 := bitsIn_or (F1_bits p1) (F2_bits p2)
  have hnosign : (hamm24InvErr (s0 k) &&& 0x80000000 != 0) = false := by
    have : ∀ k < 8, (hamm24InvErr (s0 k) &&& 0x80000000 != 0) = false := by decide +kernel
    exact this k hk
  unfold unham24p
  simp only [hs, hnosign, Bool.false_eq_true, if_false]
  congr 1
  rw [triD_eq, triD_eq, f0_flip p0 h0 k hk, Nat.or_assoc, Nat.or_assoc]
  apply xor_fix
  · exact and_zero_of_bitsIn (bitsIn_xor (bitsIn_of_lt (f0_lt p0 h0)) (bitsIn_of_lt hm)) hb (Or.inl (Nat.le_refl _))
  · exact and_zero_of_bitsIn (bitsIn_of_lt hm) hb (Or.inl (Nat.le_refl _))


theorem and_or_zero {x a b : Nat} (h1 : x &&& a = 0) (h2 : x &&& b = 0) : x &&& (a ||| b) = 0 := by
  rw [Nat.and_or_distrib_left, h1, h2]; rfl

theorem unham24p_single1 (p0 p1 p2 : Nat) (h0 : p0 < 256) (h1 : p1 < 256) (hv : triSyn p0 p1 p2 = 0)
    (k : Nat) (hk : k < 8) : unham24p p0 (p1 ^^^ 1 <<< k) p2 = some (triD p0 p1 p2) := by
  have hs : triSyn p0 (p1 ^^^ 1 <<< k) p2 = s1 k := by
    unfold triSyn at *
    rw [par1_flip p1 h1 k hk]
    have : hamm24InvPar0 p0 ^^^ (hamm24InvPar1 p1 ^^^ s1 k) ^^^ hamm24InvPar2 p2
        = (hamm24InvPar0 p0 ^^^ hamm24InvPar1 p1 ^^^ hamm24InvPar2 p2) ^^^ s1 k := by ac_rfl
    rw [this, hv, Nat.zero_xor]
  have hm := err1_bits k hk
  have hnosign : (hamm24InvErr (s1 k) &&& 0x80000000 != 0) = false := by
    have : ∀ k < 8, (hamm24InvErr (s1 k) &&& 0x80000000 != 0) = false := by decide +kernel
    exact this k hk
  have hf0 := bitsIn_of_lt (f0_lt p0 h0)
  unfold unham24p
  simp only [hs, hnosign, Bool.false_eq_true, if_false]
  congr 1
  rw [triD_eq, triD_eq, F1_flip p1 h1 k hk]
  have e1 : f0 p0 ||| (F1 p1 ^^^ hamm24InvErr (s1 k)) ||| F2 p2
      = (F1 p1 ^^^ hamm24InvErr (s1 k)) ||| (f0 p0 ||| F2 p2) := by ac_rfl
  have e2 : f0 p0 ||| F1 p1 ||| F2 p2 = F1 p1 ||| (f0 p0 ||| F2 p2) := by ac_rfl
  rw [e1, e2]
  apply xor_fix
  · exact and_or_zero
      (and_zero_of_bitsIn (bitsIn_xor (F1_bits p1) hm) hf0 (Or.inr (by decide)))
      (and_zero_of_bitsIn (bitsIn_xor (F1_bits p1) hm) (F2_bits p2) (Or.inl (Nat.le_refl _)))
  · exact and_or_zero
      (and_zero_of_bitsIn hm hf0 (Or.inr (by decide)))
      (and_zero_of_bitsIn hm (F2_bits p2) (Or.inl (Nat.le_refl _)))

theorem unham24p_single2 (p0 p1 p2 : Nat) (h0 : p0 < 256) (h2 : p2 < 256) (hv : triSyn p0 p1 p2 = 0)
    (k : Nat) (hk : k < 8) : unham24p p0 p1 (p2 ^^^ 1 <<< k) = some (triD p0 p1 p2) := by
  have hs : triSyn p0 p1 (p2 ^^^ 1 <<< k) = s2 k := by
    unfold triSyn at *
    rw [par2_flip p2 h2 k hk]
    have : hamm24InvPar0 p0 ^^^ hamm24InvPar1 p1 ^^^ (hamm24InvPar2 p2 ^^^ s2 k)
        = (hamm24InvPar0 p0 ^^^ hamm24InvPar1 p1 ^^^ hamm24InvPar2 p2) ^^^ s2 k := by ac_rfl
    rw [this, hv, Nat.zero_xor]
  have hm := err2_bits k hk
  have hnosign : (hamm24InvErr (s2 k) &&& 0x80000000 != 0) = false := by
    have : ∀ k < 8, (hamm24InvErr (s2 k) &&& 0x80000000 != 0) = false := by decide +kernel
    exact this k hk
  have hf0 := bitsIn_of_lt (f0_lt p0 h0)
  unfold unham24p
  simp only [hs, hnosign, Bool.false_eq_true, if_false]
  congr 1
  rw [triD_eq, triD_eq, F2_flip p2 h2 k hk]
  have e1 : f0 p0 ||| F1 p1 ||| (F2 p2 ^^^ hamm24InvErr (s2 k))
      = (F2 p2 ^^^ hamm24InvErr (s2 k)) ||| (f0 p0 ||| F1 p1) := by ac_rfl
  have e2 : f0 p0 ||| F1 p1 ||| F2 p2 = F2 p2 ||| (f0 p0 ||| F1 p1) := by ac_rfl
  rw [e1, e2]
  apply xor_fix
  · exact and_or_zero
      (and_zero_of_bitsIn (bitsIn_xor (F2_bits p2) hm) hf0 (Or.inr (by decide)))
      (and_zero_of_bitsIn (bitsIn_xor (F2_bits p2) hm) (F1_bits p1) (Or.inr (Nat.le_refl _)))
  · exact and_or_zero
      (and_zero_of_bitsIn hm hf0 (Or.inr (by decide)))
      (and_zero_of_bitsIn hm (F1_bits p1) (Or.inr (Nat.le_refl _)))

/-- `vbi_unham24p (vbi_ham24p c) = c` for every 18-bit `c`.  Proved in `Hamm/Hamm24Enc.lean`
    (`ham24p_unham24p`, structurally via XOR-linearity of every encoder stage); stated here because
    the single-error theorems above start from "syndrome = 0". -/
def ham24p_unham24p_statement : Prop :=
  ∀ c, c < 2 ^ 18 → unham24p (ham24p c).1 (ham24p c).2.1 (ham24p c).2.2 = some c

end Zvbi.Hamm
