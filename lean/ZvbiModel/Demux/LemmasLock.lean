import ZvbiModel.Demux.LemmasFeed
/-!
# A full line buffer is an absorbing state of the unchanged PES path  (finding C07-pes-lockup)

All of this is about the source before fix dvb-demux-full-frame (`cfg.lateOverflow = false`): with the
overflow test behind the new-frame tests a full buffer is no longer deaf (`lineAddress_full_closes`).
-/
namespace Zvbi.Demux

variable {cfg : SrcCfg}

def Full (f : Frame) : Prop := f.lines.length ≥ N_SLICED

/-- while the overflow test is the first statement of `line_address`, a full buffer answers every unit
with the error - also the unit that would have closed the frame (finding C07-full-frame) -/
theorem lineAddress_full (hlo : cfg.lateOverflow = false) (f : Frame) (lofp : Nat) (sys : Bool) (h : Full f) :
    lineAddress cfg f lofp sys = .err := by
  unfold lineAddress
  rw [if_pos ⟨hlo, h⟩]

/-- in either shape a full buffer never yields a slot: the result is the error or "new frame" -/
theorem lineAddress_full_no_slot (f : Frame) (lofp : Nat) (sys : Bool) (h : Full f) :
    ∀ f' line, lineAddress cfg f lofp sys ≠ .ok f' line := by
  intro f' line
  have h' : f.lines.length ≥ N_SLICED := h
  unfold lineAddress
  simp only [h', and_true, if_true]
  repeat' split
  all_goals (intro hc; cases hc)

/-- with the overflow test behind the new-frame tests (fix dvb-demux-full-frame) a full buffer is closed
by exactly the units that close a buffer with room: the first unit of a packet whose defined line is not
beyond the last line of the frame -/
theorem lineAddress_full_closes (hlo : cfg.lateOverflow = true) (f : Frame) (lofp : Nat) (sys : Bool)
    (hl : (lofpToLine lofp sys).2.2 ≠ 0) (hle : (lofpToLine lofp sys).2.2 ≤ f.lastFrameLine) (hn : f.nDu = 0) :
    lineAddress cfg f lofp sys = .newFrame := by
  unfold lineAddress
  rw [if_neg (by simp [hlo])]
  simp only [hl, ne_eq, not_false_eq_true, if_true, hle, hn, gt_iff_lt, Nat.lt_irrefl, if_false]

/-- with a full buffer a data unit is skipped or fails without touching the frame, never "new frame" -/
def FullDU (f : Frame) : DU → Prop
  | .skip => True
  | .store _ => False
  | .fail f' r => f' = f ∧ r ≠ .newFrame

theorem dataUnit_full (hlo : cfg.lateOverflow = false) (f : Frame) (d : Bytes) (id len : Nat) (h : Full f) : FullDU f (dataUnit cfg f d id len) := by
  have hla := fun lofp sys => lineAddress_full (cfg := cfg) hlo f lofp sys h
  unfold dataUnit
  simp only [hla]
  repeat' split
  all_goals first
    | trivial
    | exact ⟨rfl, by simp⟩

theorem extractLoop_full (hlo : cfg.lateOverflow = false) : ∀ (fuel : Nat) (f : Frame) (d : Bytes), Full f →
    (extractLoop cfg fuel f d).1.lines = f.lines ∧ (extractLoop cfg fuel f d).2.1 ≠ .newFrame := by
  intro fuel
  induction fuel with
  | zero => intro f d _; simp [extractLoop]
  | succ fuel ih =>
    intro f d h
    unfold extractLoop
    by_cases h2 : d.length ≤ 2
    · simp [h2]
    · rw [if_neg h2]
      rcases d with _ | ⟨id, _ | ⟨len, t⟩⟩
      · simp
      · simp
      · simp only []
        by_cases hl : len + 2 > (id :: len :: t).length
        · rw [if_pos hl]; simp
        · rw [if_neg hl]
          have hdu := dataUnit_full (cfg := cfg) hlo f (id :: len :: t) id len h
          cases hx : dataUnit cfg f (id :: len :: t) id len with
          | skip =>
            simp only []
            exact ih { f with lastDuId := id } _ h
          | store f' => rw [hx] at hdu; exact hdu.elim
          | fail f' r =>
            rw [hx] at hdu
            simp only []
            exact ⟨by rw [hdu.1], hdu.2⟩

theorem extract_full (hlo : cfg.lateOverflow = false) (f : Frame) (d : Bytes) (h : Full f) :
    (extract cfg f d).1.lines = f.lines ∧ (extract cfg f d).2.1 ≠ .newFrame := by
  unfold extract
  split
  · simp
  · exact extractLoop_full hlo _ f d h

/-- properties of the frame state that make the PES demux deaf -/
def Deaf (fs : FS) : Prop := Full fs.frame ∧ fs.newFrame = false

theorem pesPacketFrame_deaf (hlo : cfg.lateOverflow = false) (fuel : Nat) (cb se : Bool) (fs : FS) (d : Bytes) (h : Deaf fs) :
    (pesPacketFrame cfg (fuel + 1) cb se fs d).2.1 = [] ∧ Deaf (pesPacketFrame cfg (fuel + 1) cb se fs d).1 ∧
    (pesPacketFrame cfg (fuel + 1) cb se fs d).2.2.1 ≠ .callback := by
  obtain ⟨hf, hn⟩ := h
  unfold pesPacketFrame
  simp only [hn, Bool.false_eq_true, if_false]
  have hx := extract_full (cfg := cfg) hlo fs.frame d hf
  rcases he : extract cfg fs.frame d with ⟨f, r, rest⟩
  rw [he] at hx
  simp only at hx
  have hfull : Full f := by unfold Full; rw [hx.1]; exact hf
  cases r with
  | done => exact ⟨rfl, ⟨hfull, by first | rfl | exact hn⟩, by simp⟩
  | err => exact ⟨rfl, ⟨hfull, by first | rfl | exact hn⟩, by simp⟩
  | fault e => exact ⟨rfl, ⟨hfull, by first | rfl | exact hn⟩, by simp⟩
  | newFrame => exact absurd rfl hx.2

theorem validHeader_deaf (fs fs' : FS) (h : Bytes) (hd : Deaf fs) (hv : validHeader fs h = some fs') : Deaf fs' := by
  unfold validHeader at hv
  simp only [] at hv
  repeat' split at hv
  all_goals first
    | (cases hv; done)
    | (cases hv; exact hd)

theorem pesIter_deaf (hlo : cfg.lateOverflow = false) (hflag : cfg.pesDiscards = false) (sk la : Nat) (fs : FS) (win : Bytes)
    (h : Deaf fs) :
    (pesIter true cfg sk la fs win).2.2.1 = [] ∧ Deaf (pesIter true cfg sk la fs win).2.1 := by
  unfold pesIter
  simp only []
  split
  · split
    · exact ⟨rfl, h⟩
    · have hd0 : Deaf { fs with frame := { fs.frame with nDu := 0 } } := h
      have hp := pesPacketFrame_deaf (cfg := cfg) hlo 2 true cfg.corSkipsEmpty _ (win.take la) hd0
      rcases hpp : pesPacketFrame cfg 3 true cfg.corSkipsEmpty { fs with frame := { fs.frame with nDu := 0 } } (win.take la)
        with ⟨fs1, outs, r, rest⟩
      rw [hpp] at hp
      simp only at hp
      obtain ⟨h1, h2, h3⟩ := hp
      subst h1
      cases r with
      | done => exact ⟨rfl, h2⟩
      | err => exact ⟨rfl, by simp only [pesErrFs, hflag]; exact h2⟩
      | callback => exact absurd rfl h3
      | fault e => exact ⟨rfl, h2⟩
  · split
    · exact ⟨rfl, h⟩
    · split
      · exact ⟨rfl, h⟩
      · exact ⟨rfl, h⟩
      · split
        · exact ⟨rfl, h⟩
        · exact ⟨rfl, h⟩
      · split
        · exact ⟨rfl, h⟩
        · split
          · exact ⟨rfl, h⟩
          · split
            · exact ⟨rfl, h⟩
            · rename_i fs' hv
              exact ⟨rfl, validHeader_deaf fs fs' _ h hv⟩

/-- **lock-up.** On the unchanged tree a PES demux whose line buffer is full and which is not at a
frame start delivers nothing, whatever follows. -/
theorem arun_deaf (hlo : cfg.lateOverflow = false) (hflag : cfg.pesDiscards = false) (L : Bytes) :
    ∀ (c : Core), Deaf c.fs → (arun cfg c L).frames = [] ∧ Deaf (arun cfg c L).core.fs := by
  induction L with
  | nil => intro c h; exact ⟨rfl, h⟩
  | cons x L ih =>
    intro c h
    unfold arun
    split
    · exact ih _ h
    · split
      · exact ⟨rfl, h⟩
      · have hm := pesIter_deaf hlo hflag 0 c.lookahead c.fs ((x :: L).take c.lookahead) h
        unfold micro
        rcases hp : pesIter true cfg 0 c.lookahead c.fs ((x :: L).take c.lookahead) with ⟨⟨sk, la⟩, fs', outs, st⟩
        rw [hp] at hm
        simp only at hm
        obtain ⟨h1, h2⟩ := hm
        subst h1
        cases st with
        | some stop => exact ⟨rfl, h2⟩
        | none =>
          simp only []
          have := ih { skip := sk - 1, lookahead := la, fs := fs' } h2
          exact ⟨by simpa using this.1, this.2⟩

end Zvbi.Demux
