import ZvbiModel.Props.C07
import ZvbiModel.Mux.JoinFrames
/-!
# The joined round trip in the vocabulary of Props/C07.lean (`toLine`, `deliveredAs`)  (helper lemmas)
-/
namespace Zvbi.Demux
open Zvbi.Mux Zvbi.Mux.EnParse
open Zvbi.Props.C07 (toLine deliveredAs)

/-- reading a delivered line back into the multiplexer spec's vocabulary gives the line sent -/
theorem toLine_ofLine_canon (s : Zvbi.Mux.Sliced) (l : Line) (h : canon s = some l) : toLine (ofLine l) = some l := by
  unfold canon at h
  split at h
  · simp only [Option.some.injEq] at h; subst h; rfl
  · split at h
    · simp only [Option.some.injEq] at h; subst h; rfl
    · split at h
      · simp only [Option.some.injEq] at h; subst h
        simp only [ofLine, toLine, SL_WSS_625, SL_TELETEXT_B, SL_VPS, List.getD_cons_zero, List.getD_cons_succ]
        have : (s.byte 1 % 64 + 192) % 64 = s.byte 1 % 64 := by omega
        simp [this]
      · split at h
        · simp only [Option.some.injEq] at h; subst h; rfl
        · cases h

theorem filterMap_toLine (ls : List Line) (h : ∀ l ∈ ls, toLine (ofLine l) = some l) :
    (ls.map ofLine).filterMap toLine = ls := by
  induction ls with
  | nil => rfl
  | cons l ls ih =>
    simp only [List.map_cons, List.filterMap_cons, h l (List.mem_cons_self ..)]
    rw [ih (fun x hx => h x (List.mem_cons_of_mem _ hx))]

/-- every line of every accepted frame is the canonical form of an input line -/
theorem run_lines_canon (ops : List Op) :
    ∀ m, ∀ s ∈ (run m ops).2.2, ∀ l ∈ s.lines, ∃ x, canon x = some l := by
  induction ops with
  | nil => intro m s hs; simp [run] at hs
  | cons op ops ih =>
    intro m s hs
    simp only [run] at hs
    rcases List.mem_append.mp hs with hs | hs
    · cases op with
      | dataId d => simp [step] at hs
      | size a b => simp [step] at hs
      | frame lines mask pts =>
        simp only [step] at hs
        split at hs
        · simp only [List.mem_singleton] at hs
          subst hs
          intro l hl
          obtain ⟨x, _, _, hc⟩ := mem_sent mask lines l hl
          exact ⟨x, hc⟩
        · simp at hs
    · exact ih _ s hs

theorem deliveredAs_received (ss : List Sent) (h : ∀ s ∈ ss, ∀ l ∈ s.lines, ∃ x, canon x = some l) :
    deliveredAs (ss.map received) = ss.map (fun s => (s.pts, s.lines)) := by
  unfold deliveredAs
  rw [List.map_map]
  apply List.map_congr_left
  intro s hs
  simp only [Function.comp, received]
  rw [filterMap_toLine]
  intro l hl
  obtain ⟨x, hx⟩ := h s hs l hl
  exact toLine_ofLine_canon x l hx

end Zvbi.Demux
