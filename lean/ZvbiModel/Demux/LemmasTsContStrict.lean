import ZvbiModel.Demux.Ts
/-!
# TS path: `ts_continuity >= 0` vs. `> 0`  (helper lemmas for C07, round 6)

`tsContCheckStrict` is `tsContCheck` with the sign test of the surviving mutant (`if (dx->ts_continuity > 0)`).
The two agree on every expected counter that is unknown or at least 1; at 0 they differ.  (At 0 the model's
truncated `c - 1` would also differ from the C code's `unsigned int prev_cont = 0 - 1`; `ContOk` in
`Demux/LemmasTsContInv.lean` shows that 0 is never stored, for 1 <= c < 2^32 the two subtractions are the same.)
-/
namespace Zvbi.Demux

/-- `tsContCheck` with `if (dx->ts_continuity > 0)` in place of `>= 0` -/
def tsContCheckStrict (cont : Option Nat) (b3 : Nat) : ContV :=
  match cont with
  | none => .ok
  | some c =>
    if (c ^^^ b3) &&& 0x0F ≠ 0 then
      if 0 < c then
        if ((c - 1) ^^^ b3) &&& 0x0F = 0 then .repeated else .lost
      else .ok
    else .ok

theorem tsContCheckStrict_eq (o : Option Nat) (h : ∀ c, o = some c → 1 ≤ c) (b3 : Nat) :
    tsContCheckStrict o b3 = tsContCheck o b3 := by
  cases o with
  | none => rfl
  | some c =>
    have h0 : 0 < c := h c rfl
    show (if (c ^^^ b3) &&& 0x0F ≠ 0 then
            (if 0 < c then (if ((c - 1) ^^^ b3) &&& 0x0F = 0 then ContV.repeated else ContV.lost) else ContV.ok)
          else ContV.ok)
        = (if (c ^^^ b3) &&& 0x0F ≠ 0 then (if ((c - 1) ^^^ b3) &&& 0x0F = 0 then ContV.repeated else ContV.lost)
          else ContV.ok)
    rw [if_pos h0]

/-- at 0 (what the invariant excludes) the two tests differ -/
theorem tsContCheckStrict_differs_at_zero : tsContCheckStrict (some 0) 15 ≠ tsContCheck (some 0) 15 := by decide

end Zvbi.Demux
