import ZvbiModel.Demux.JoinPacket
/-!
# Parser equivalence, stream level  (join of C06 and C07)

A PES stream that the standards reader `EnParse.pesStream` accepts, whose packets are frames the
demultiplexer can tell apart (`SepFrom`), read by the stream machine `arun` from a packet boundary:
every packet but the last comes out as one frame with its PTS and lines; the last one is held in the
frame buffer (it is delivered when the next frame begins).
-/
namespace Zvbi.Demux
open Zvbi.Hamm (rev8)
open Zvbi.Mux.EnParse
variable {cfg : SrcCfg}

/-- the frame the demultiplexer is to deliver for a packet -/
def outOf (p : Pes) : FrameOut := ⟨p.pts, p.lines.map ofLine⟩

/-- the first line number of a frame (0 if it has no lines) -/
def firstLine (ls : List Line) : Nat := (ls.head?.map (·.line)).getD 0

/-- the largest frame the demultiplexer delivers: all 64 slots of `dx->sliced[64]` with fix
dvb-demux-full-frame; 63 before it (a 64th line can be stored, but the frame is then never closed:
`line_address` reports the overflow before it looks at the line number, finding C07-full-frame) -/
def frameCap (cfg : SrcCfg) : Nat := if cfg.lateOverflow = true then 64 else 63

theorem frameCap_le (cfg : SrcCfg) : frameCap cfg ≤ 64 := by unfold frameCap; split <;> omega
theorem frameCap_ge (cfg : SrcCfg) : 63 ≤ frameCap cfg := by unfold frameCap; split <;> omega
theorem frameCap_late (h : cfg.lateOverflow = true) : frameCap cfg = 64 := by simp [frameCap, h]
theorem frameCap_room (n : Nat) (h : n ≤ frameCap cfg) : cfg.lateOverflow = true ∨ n < 64 := by
  unfold frameCap at h
  split at h
  · left; assumption
  · right; omega

/-- the lines of one packet are one frame the demultiplexer can hold and close: at least one line, all
line numbers defined and strictly ascending, at most `frameCap` lines (64 with the repaired
`line_address`) -/
def FrameLinesOK (cfg : SrcCfg) (ls : List Line) : Prop := ls ≠ [] ∧ AscFrom 0 ls ∧ ls.length ≤ frameCap cfg

/-- consecutive packets are separable frames: each begins on a line not beyond the last line of the
one before (`x`: last line of the frame before the first packet) -/
def SepFrom (cfg : SrcCfg) : Nat → List (List Line) → Prop
  | _, [] => True
  | x, a :: r => FrameLinesOK cfg a ∧ firstLine a ≤ x ∧ SepFrom cfg (lastLineOf 0 a) r

/-- a whole stream of separable frames (nothing is required of the first frame's first line) -/
def Sep (cfg : SrcCfg) : List (List Line) → Prop
  | [] => True
  | a :: r => FrameLinesOK cfg a ∧ SepFrom cfg (lastLineOf 0 a) r

instance (cfg : SrcCfg) (ls : List Line) : Decidable (FrameLinesOK cfg ls) := by unfold FrameLinesOK; infer_instance
instance decSepFrom (cfg : SrcCfg) : ∀ x r, Decidable (SepFrom cfg x r)
  | _, [] => isTrue trivial
  | x, a :: r => by
    unfold SepFrom
    exact @instDecidableAnd _ _ _ (@instDecidableAnd _ _ _ (decSepFrom cfg (lastLineOf 0 a) r))
instance (cfg : SrcCfg) : ∀ r, Decidable (Sep cfg r)
  | [] => isTrue trivial
  | a :: r => by unfold Sep; infer_instance

/-- the stream machine at a packet boundary holding frame `q`, reading packets `pks` -/
theorem arun_stream_from : ∀ (pks : List (Bytes × Pes)) (fs : FS) (q : Pes),
    (∀ x ∈ pks, parsePes x.1 = some x.2) → (∀ x ∈ pks, ∀ b ∈ x.1, b < 256) →
    Holds fs q.pts q.lines → q.lines.length ≤ frameCap cfg → SepFrom cfg (lastLineOf 0 q.lines) (pks.map fun x => x.2.lines) →
    ∃ fsEnd, arun cfg { skip := 0, lookahead := 48, fs := fs } (pks.map Prod.fst).flatten
        = { core := { skip := 0, lookahead := 48, fs := fsEnd }, pend := [],
            frames := ((q :: pks.map Prod.snd).dropLast).map outOf, stop := none }
      ∧ Holds fsEnd ((q :: pks.map Prod.snd).getLast (by simp)).pts ((q :: pks.map Prod.snd).getLast (by simp)).lines := by
  intro pks
  induction pks with
  | nil =>
    intro fs q _ _ hh _ _
    exact ⟨fs, by simp [arun], by simpa using hh⟩
  | cons x pks ih =>
    intro fs q hp hb hh hq hsep
    have hcap64 := frameCap_le cfg
    obtain ⟨pk, p⟩ := x
    simp only [List.map_cons, SepFrom] at hsep
    obtain ⟨⟨hne, hasc, hlt⟩, hfirst, hsep'⟩ := hsep
    have hpp : parsePes pk = some p := hp (pk, p) (List.mem_cons_self ..)
    obtain ⟨us, hul, hstep, _⟩ := arun_packet (cfg := cfg) fs pk (pks.map Prod.fst).flatten p hpp
      (hb (pk, p) (List.mem_cons_self ..))
    obtain ⟨l, ls, hls⟩ := List.exists_cons_of_ne_nil hne
    rw [hls] at hul hasc hlt
    have hfl : firstLine p.lines = l.line := by simp [firstLine, hls]
    obtain ⟨fs', hpf, hh', _⟩ := pesPacketFrame_next cfg.corSkipsEmpty
      { fs with packetPts := p.pts, frame := { fs.frame with nDu := 0 } } us l ls hh.nf rfl
      (by show cfg.lateOverflow = true ∨ fs.frame.lines.length < 64
          rw [hh.lines, List.length_map]; exact frameCap_room _ hq)
      hul hasc (by omega) (by show l.line ≤ fs.frame.lastFrameLine; rw [hh.last, ← hfl]; exact hfirst)
    have hstep' := hstep fs' _ hpf
    obtain ⟨fsEnd, har, hend⟩ := ih fs' p (fun y hy => hp y (List.mem_cons_of_mem _ hy))
      (fun y hy => hb y (List.mem_cons_of_mem _ hy)) (by rw [hls]; exact hh') (by rw [hls]; exact hlt) hsep'
    refine ⟨fsEnd, ?_, ?_⟩
    · simp only [List.map_cons, List.flatten_cons]
      rw [hstep', har]
      simp only [ARes.pre, List.dropLast_cons_cons, List.map_cons, List.cons_append, List.nil_append, ARes.mk.injEq,
        true_and, and_true, List.cons.injEq]
      rw [hh.pts, hh.lines]; rfl
    · simpa [List.getLast_cons] using hend

/-- the same from a frame start (new demultiplexer, after a reset, after a discard): the first
packet only opens a frame -/
theorem arun_stream_start (x : Bytes × Pes) (pks : List (Bytes × Pes)) (fs : FS) (hnf : fs.newFrame = true)
    (hp : ∀ y ∈ x :: pks, parsePes y.1 = some y.2) (hb : ∀ y ∈ x :: pks, ∀ b ∈ y.1, b < 256)
    (hsep : Sep cfg ((x :: pks).map fun x => x.2.lines)) :
    ∃ fsEnd, arun cfg { skip := 0, lookahead := 48, fs := fs } ((x :: pks).map Prod.fst).flatten
        = { core := { skip := 0, lookahead := 48, fs := fsEnd }, pend := [],
            frames := (((x :: pks).map Prod.snd).dropLast).map outOf, stop := none }
      ∧ Holds fsEnd (((x :: pks).map Prod.snd).getLast (by simp)).pts (((x :: pks).map Prod.snd).getLast (by simp)).lines := by
  have hcap64 := frameCap_le cfg
  obtain ⟨pk, p⟩ := x
  simp only [List.map_cons, Sep] at hsep
  obtain ⟨⟨hne, hasc, hlt⟩, hsep'⟩ := hsep
  have hpp : parsePes pk = some p := hp (pk, p) (List.mem_cons_self ..)
  obtain ⟨us, hul, hstep, _⟩ := arun_packet (cfg := cfg) fs pk (pks.map Prod.fst).flatten p hpp
    (hb (pk, p) (List.mem_cons_self ..))
  obtain ⟨l, ls, hls⟩ := List.exists_cons_of_ne_nil hne
  rw [hls] at hul hasc hlt
  obtain ⟨fs', hpf, hh', _⟩ := pesPacketFrame_first cfg.corSkipsEmpty
    { fs with packetPts := p.pts, frame := { fs.frame with nDu := 0 } } us l ls hnf hul hasc (by omega)
  have hstep' := hstep fs' _ hpf
  obtain ⟨fsEnd, har, hend⟩ := arun_stream_from (cfg := cfg) pks fs' p (fun y hy => hp y (List.mem_cons_of_mem _ hy))
    (fun y hy => hb y (List.mem_cons_of_mem _ hy)) (by rw [hls]; exact hh') (by rw [hls]; exact hlt) hsep'
  refine ⟨fsEnd, ?_, hend⟩
  simp only [List.map_cons, List.flatten_cons]
  rw [hstep', har]
  simp [ARes.pre]

/-- a stream the reader accepts is a concatenation of packets it accepts -/
theorem pesStreamF_inv : ∀ (f : Nat) (bs : Bytes) (ps : List Pes), pesStreamF f bs = some ps →
    ∃ pks : List (Bytes × Pes), (∀ x ∈ pks, parsePes x.1 = some x.2) ∧ (pks.map Prod.fst).flatten = bs
      ∧ pks.map Prod.snd = ps := by
  intro f
  induction f with
  | zero =>
    intro bs ps h
    cases bs with
    | nil => simp only [pesStreamF, Option.some.injEq] at h; subst h; exact ⟨[], by simp, rfl, rfl⟩
    | cons b bs => simp [pesStreamF] at h
  | succ f ih =>
    intro bs ps h
    cases bs with
    | nil => simp only [pesStreamF, Option.some.injEq] at h; subst h; exact ⟨[], by simp, rfl, rfl⟩
    | cons b bs =>
      simp only [pesStreamF] at h
      split at h
      · cases h
      · split at h
        · rename_i p ps' hpp hrest
          simp only [Option.some.injEq] at h
          subst h
          obtain ⟨pks, h1, h2, h3⟩ := ih _ _ hrest
          refine ⟨((b :: bs).take ((b :: bs).getD 4 0 * 256 + (b :: bs).getD 5 0 + 6), p) :: pks, ?_, ?_, ?_⟩
          · intro x hx
            rcases List.mem_cons.mp hx with rfl | hx
            · exact hpp
            · exact h1 x hx
          · simp only [List.map_cons, List.flatten_cons, h2, List.take_append_drop]
          · simp only [List.map_cons, h3]
        · cases h

/-- **Parser equivalence (PES path).**  For every byte stream (bytes < 256) that the standards
reader accepts as a sequence of VBI PES packets `ps` which are separable frames (`Sep`): the
demultiplexer, as a function of the stream (`frames`), delivers exactly the packets but the last,
each as one frame with its PTS, its lines in order, their service ids, line numbers and payload
bits; it has consumed everything, stands at a packet boundary, and holds the last frame with its
PTS in the frame buffer. -/
theorem frames_of_pesStream (bs : Bytes) (ps : List Pes) (h : pesStream bs = some ps)
    (hb : ∀ b ∈ bs, b < 256) (hsep : Sep cfg (ps.map (·.lines))) :
    ∃ fsEnd, arun cfg Core.init bs
        = { core := { skip := 0, lookahead := 48, fs := fsEnd }, pend := [], frames := ps.dropLast.map outOf,
            stop := none }
      ∧ ∀ hne : ps ≠ [], Holds fsEnd (ps.getLast hne).pts (ps.getLast hne).lines := by
  obtain ⟨pks, h1, h2, h3⟩ := pesStreamF_inv _ bs ps h
  subst h2; subst h3
  cases pks with
  | nil => exact ⟨{}, by simp [arun, Core.init, PES_HEADER_LOOKAHEAD], fun hne => absurd rfl hne⟩
  | cons x pks =>
    have hb' : ∀ y ∈ x :: pks, ∀ b ∈ y.1, b < 256 := by
      intro y hy b hbm
      apply hb
      rw [List.mem_flatten]
      exact ⟨y.1, List.mem_map.mpr ⟨y, hy, rfl⟩, hbm⟩
    obtain ⟨fsEnd, har, hend⟩ := arun_stream_start (cfg := cfg) x pks {} rfl h1 hb'
      (by simpa [List.map_map, Function.comp_def] using hsep)
    exact ⟨fsEnd, har, fun _ => hend⟩

/-- the same from any context at a packet boundary that is at a frame start (`new_frame` set: after
`vbi_dvb_demux_reset`, after a discarded frame), whatever stale lines, counters and PTS it holds -/
theorem frames_of_pesStream_from (fs : FS) (hnf : fs.newFrame = true) (bs : Bytes) (ps : List Pes)
    (h : pesStream bs = some ps) (hb : ∀ b ∈ bs, b < 256) (hsep : Sep cfg (ps.map (·.lines))) (hne : ps ≠ []) :
    ∃ fsEnd, arun cfg { skip := 0, lookahead := 48, fs := fs } bs
        = { core := { skip := 0, lookahead := 48, fs := fsEnd }, pend := [], frames := ps.dropLast.map outOf,
            stop := none }
      ∧ Holds fsEnd (ps.getLast hne).pts (ps.getLast hne).lines := by
  obtain ⟨pks, h1, h2, h3⟩ := pesStreamF_inv _ bs ps h
  subst h2; subst h3
  cases pks with
  | nil => exact absurd rfl hne
  | cons x pks =>
    have hb' : ∀ y ∈ x :: pks, ∀ b ∈ y.1, b < 256 := by
      intro y hy b hbm
      apply hb
      rw [List.mem_flatten]
      exact ⟨y.1, List.mem_map.mpr ⟨y, hy, rfl⟩, hbm⟩
    exact arun_stream_start (cfg := cfg) x pks fs hnf h1 hb'
      (by simpa [List.map_map, Function.comp_def] using hsep)

end Zvbi.Demux
