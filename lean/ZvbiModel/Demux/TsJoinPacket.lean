import ZvbiModel.Demux.LemmasTs
/-!
# TS path joined with the multiplexer, TS packet level  (C06 / C07 `mux_demux_roundtrip_ts`)

One intact 188-byte TS packet `p` (sync byte 0x47) read by a demultiplexer that is in sync at a TS
packet boundary (`mkAt`), or as the very first packet of a stream by a new demultiplexer (sync
search, `feed_first`).  What the packet does to the part of the context that outlives it - frame
state, PES bytes collected so far, `ts_pes_todo`, expected continuity counter (`V`) - is described by
`PktEff`; the two feed lemmas say that `vbi_dvb_demux_feed` on exactly the bytes of that packet has
exactly that effect and is back at a TS packet boundary.
-/
namespace Zvbi.Demux
variable {cfg : SrcCfg}

/-- the part of a TS demultiplexer context that matters between TS packets -/
structure V where
  fs : FS
  pes : Bytes
  todo : Nat
  cont : Option Nat
  deriving DecidableEq, Repr

/-- new demultiplexer (`_vbi_dvb_ts_demux_new`, `vbi_dvb_demux_reset`) -/
def V.init : V := ⟨{}, [], 0, none⟩

/-- in sync at a TS packet boundary; `pre` = the first bytes (at most 9) of the next packet that are
already in `ts_buffer` -/
def mkAt (pid : Nat) (v : V) (pre : Bytes) : TsSt :=
  ⟨v.fs, pre, 0, 0, 10 - pre.length, true, [], v.pes, v.todo, v.cont, pid⟩

/-- `if (0 == dx->ts_pes_todo) { PES start expected } else { no PUSI allowed }` as a function of the
packet: (PES bytes collected before this packet's payload, bytes to go including this payload) -/
def startOf (pes : Bytes) (todo : Nat) (p : Bytes) : Option (Bytes × Nat) :=
  if todo = 0 then
    if (p.getD 4 0 ||| p.getD 5 0) ≠ 0 ∨ p.getD 6 0 ≠ 1 ∨ p.getD 7 0 ≠ PRIVATE_STREAM_1 then none
    else if (p.getD 8 0 % 256) * 256 + p.getD 9 0 % 256 < 178 then none
    else some ([], (p.getD 8 0 % 256) * 256 + p.getD 9 0 % 256 + 6)
  else if p.getD 1 0 &&& 0x40 ≠ 0 then none
  else some (pes, todo)

/-- what one intact TS packet does to `V`, and the frames it makes the demultiplexer deliver -/
inductive PktEff (cfg : SrcCfg) (pid : Nat) : V → Bytes → V → List FrameOut → Prop
  /-- another PID, or adaptation field only: nothing changes -/
  | skip (v : V) (p : Bytes) (h : tsHeaderCheck { pid := pid } p = some false) : PktEff cfg pid v p v []
  /-- a packet of the PID with the expected counter that does not complete the PES packet -/
  | part (v : V) (p : Bytes) (pes0 : Bytes) (todo0 : Nat)
      (hh : tsHeaderCheck { pid := pid } p = none) (hc : tsContCheck v.cont (p.getD 3 0) = .ok)
      (hs : startOf v.pes v.todo p = some (pes0, todo0)) (ht : 184 < todo0) (hcap : pes0.length + 184 ≤ PES_BUF_SIZE) :
      PktEff cfg pid v p ⟨v.fs, pes0 ++ p.drop 4, todo0 - 184, some (p.getD 3 0 + 1)⟩ []
  /-- ... that completes it: header check, data units, frames -/
  | last (v : V) (p : Bytes) (pes0 : Bytes) (fs' fs2 : FS) (outs : List FrameOut)
      (hh : tsHeaderCheck { pid := pid } p = none) (hc : tsContCheck v.cont (p.getD 3 0) = .ok)
      (hs : startOf v.pes v.todo p = some (pes0, 184)) (hcap : pes0.length + 184 ≤ PES_BUF_SIZE)
      (hv : validHeader v.fs ((pes0 ++ p.drop 4).take 46) = some fs')
      (hp : pesPacketFrame cfg 3 true false { fs' with frame := { fs'.frame with nDu := 0 } } ((pes0 ++ p.drop 4).drop 46)
              = (fs2, outs, .done, [])) :
      PktEff cfg pid v p ⟨fs2, pes0 ++ p.drop 4, 0, some (p.getD 3 0 + 1)⟩ outs

/-! ## the header tests read ten bytes -/

theorem tsHeaderCheck_congr (s t : TsSt) (q p : Bytes) (hp : s.pid = t.pid)
    (h : ∀ i, i < 10 → q.getD i 0 = p.getD i 0) : tsHeaderCheck s q = tsHeaderCheck t p := by
  unfold tsHeaderCheck
  simp only [h 1 (by omega), h 2 (by omega), h 3 (by omega), hp]

theorem tsStart_startOf (s : TsSt) (q p : Bytes) (h : ∀ i, i < 10 → q.getD i 0 = p.getD i 0) :
    tsStart s q = (startOf s.pes s.pesTodo p).map fun x => { s with pes := x.1, pesTodo := x.2 } := by
  unfold tsStart startOf
  simp only [h 1 (by omega), h 4 (by omega), h 5 (by omega), h 6 (by omega), h 7 (by omega), h 8 (by omega),
    h 9 (by omega)]
  split
  · split
    · rfl
    · split <;> rfl
  · split
    · rfl
    · rfl

theorem getD_take (p : Bytes) (n i : Nat) (h : i < n) : (p.take n).getD i 0 = p.getD i 0 := by
  simp [List.getD_eq_getElem?_getD, h]

theorem getD_append_left (a b : Bytes) (i : Nat) (h : i < a.length) : (a ++ b).getD i 0 = a.getD i 0 := by
  simp [List.getD_eq_getElem?_getD, List.getElem?_append_left h]


theorem take_split10 (p : Bytes) (k : Nat) (hk : k ≤ 10) : p.take k ++ (p.drop k).take (10 - k) = p.take 10 := by
  have : p.take 10 = (p.take 10).take k ++ (p.take 10).drop k := (List.take_append_drop k _).symm
  rw [this, List.take_take, List.drop_take, Nat.min_eq_left hk]

/-- first pass through the loop body at a TS packet boundary: the header bytes are completed in
`ts_buffer` and evaluated -/
theorem step_hdr (fs : FS) (pes : Bytes) (todo : Nat) (cont : Option Nat) (pid : Nat) (p : Bytes) (k : Nat)
    (hl : p.length = 188) (h47 : p.getD 0 0 = 0x47) (hk : k ≤ 9) :
    tsStep cfg true false ⟨fs, p.take k, 0, 0, 10 - k, true, [], pes, todo, cont, pid⟩ (p.drop k)
      = match tsHeader cfg ⟨fs, p.take 10, 0, 0, 10 - k, true, [], pes, todo, cont, pid⟩ (p.take 10) with
        | (s', none) => (s', [], 10 - k, .cont)
        | (s', some e) => (s', [], 10 - k, .stop (.fault e)) := by
  have hA : tsPhaseA ⟨fs, p.take k, 0, 0, 10 - k, true, [], pes, todo, cont, pid⟩ (p.drop k)
      = .go ⟨fs, p.take k, 0, 0, 10 - k, true, [], pes, todo, cont, pid⟩ 0 := tsPhaseA_reentry _ _ rfl
  have hB : tsPhaseB cfg true false ⟨fs, p.take k, 0, 0, 10 - k, true, [], pes, todo, cont, pid⟩
      = (⟨fs, p.take k, 0, 0, 10 - k, true, [], pes, todo, cont, pid⟩, [], none) := tsPhaseB_reentry _ _ _ rfl
  have hC : tsPhaseC ⟨fs, p.take k, 0, 0, 10 - k, true, [], pes, todo, cont, pid⟩ ((p.drop k).drop 0)
      = .go ⟨fs, p.take k, 0, 0, 10 - k, true, [], pes, todo, cont, pid⟩ 0 := tsPhaseC_reentry _ _ rfl
  have hD : tsPhaseD ⟨fs, p.take k, 0, 0, 10 - k, true, [], pes, todo, cont, pid⟩ ((p.drop k).drop (0 + 0))
      = .go ⟨fs, p.take 10, 0, 0, 10 - k, true, [], pes, todo, cont, pid⟩ (10 - k) := by
    unfold tsPhaseD
    simp only [Nat.add_zero, List.drop_zero, List.length_drop, List.length_take, hl, TS_BUF_SIZE]
    rw [if_neg (by omega), if_neg (by omega), take_split10 p k (by omega)]
  have hE : tsPhaseE cfg ⟨fs, p.take 10, 0, 0, 10 - k, true, [], pes, todo, cont, pid⟩
      = match tsHeader cfg ⟨fs, p.take 10, 0, 0, 10 - k, true, [], pes, todo, cont, pid⟩ (p.take 10) with
        | (s', none) => (s', .cont)
        | (s', some e) => (s', .stop (.fault e)) := by
    unfold tsPhaseE
    simp only [List.length_take, hl, TS_HEADER_LOOKAHEAD, if_true]
    rw [if_neg (by omega), getD_take p 10 0 (by omega), h47]
    rw [if_neg (by decide)]
    rcases tsHeader cfg ⟨fs, p.take 10, 0, 0, 10 - k, true, [], pes, todo, cont, pid⟩ (p.take 10) with ⟨s', _ | e⟩ <;> rfl
  unfold tsStep
  rw [hA]; dsimp only
  rw [hB]; dsimp only
  rw [hC]; dsimp only
  rw [hD]; dsimp only
  rw [hE]
  rcases tsHeader cfg ⟨fs, p.take 10, 0, 0, 10 - k, true, [], pes, todo, cont, pid⟩ (p.take 10) with ⟨s', _ | e⟩ <;> simp

/-! ## the header evaluation of an in-sync packet (10 bytes in `ts_buffer`) -/

theorem hdr_skip (fs : FS) (pes : Bytes) (todo la : Nat) (cont : Option Nat) (pid : Nat) (p : Bytes)
    (hl : p.length = 188) (h : tsHeaderCheck { pid := pid } p = some false) :
    tsHeader cfg ⟨fs, p.take 10, 0, 0, la, true, [], pes, todo, cont, pid⟩ (p.take 10)
      = (⟨fs, [], 178, 0, 10, true, [], pes, todo, cont, pid⟩, none) := by
  have hc : tsHeaderCheck ⟨fs, p.take 10, 0, 0, la, true, [], pes, todo, cont, pid⟩ (p.take 10) = some false := by
    exact (tsHeaderCheck_congr ⟨fs, p.take 10, 0, 0, la, true, [], pes, todo, cont, pid⟩ { pid := pid } (p.take 10) p rfl
      (fun i hi => getD_take p 10 i hi)).trans h
  unfold tsHeader
  rw [hc]
  simp only [tsSkipPacket, tsAdvance, List.length_take, hl, TS_HEADER_LOOKAHEAD]
  rfl

theorem hdr_copy (fs : FS) (pes : Bytes) (todo la : Nat) (cont : Option Nat) (pid : Nat) (p : Bytes)
    (pes0 : Bytes) (todo0 : Nat) (hl : p.length = 188)
    (hh : tsHeaderCheck { pid := pid } p = none) (hc : tsContCheck cont (p.getD 3 0) = .ok)
    (hs : startOf pes todo p = some (pes0, todo0)) (ht : 184 ≤ todo0)
    (hcap : pes0.length + 184 ≤ PES_BUF_SIZE) :
    tsHeader cfg ⟨fs, p.take 10, 0, 0, la, true, [], pes, todo, cont, pid⟩ (p.take 10)
      = (⟨fs, [], 0, 178, 10, true, [], pes0 ++ (p.drop 4).take 6, todo0 - 6, some (p.getD 3 0 + 1), pid⟩, none) := by
  have hc1 : tsHeaderCheck ⟨fs, p.take 10, 0, 0, la, true, [], pes, todo, cont, pid⟩ (p.take 10) = none := by
    exact (tsHeaderCheck_congr ⟨fs, p.take 10, 0, 0, la, true, [], pes, todo, cont, pid⟩ { pid := pid } (p.take 10) p rfl
      (fun i hi => getD_take p 10 i hi)).trans hh
  have h3 : (p.take 10).getD 3 0 = p.getD 3 0 := getD_take p 10 3 (by omega)
  unfold tsHeader
  rw [hc1]
  simp only [h3, hc]
  rw [tsStart_startOf _ (p.take 10) p (fun i hi => getD_take p 10 i hi)]
  simp only [hs, Option.map_some]
  unfold tsCopy
  simp only [List.length_take, hl]
  have e1 : min 10 188 ≤ 188 := by omega
  rw [if_pos e1]
  have e2 : min todo0 184 = 184 := by omega
  have e3 : min (min 10 188 - 4) 184 = 6 := by omega
  rw [e2, e3]
  rw [if_neg (by unfold PES_BUF_SIZE at hcap ⊢; omega)]
  unfold tsCopyFin tsCopyDone
  rw [if_neg (by intro h; have := h.2; simp only at this; omega)]
  simp only [tsAdvance, List.length_take, hl, TS_HEADER_LOOKAHEAD]
  rw [if_pos (by omega)]
  have e4 : (p.take 10).drop 4 = (p.drop 4).take 6 := by rw [List.drop_take]
  rw [e4, List.take_take]
  rfl

/-! ## the second pass: the rest of the packet -/

theorem step_skip (fs : FS) (pes : Bytes) (todo : Nat) (cont : Option Nat) (pid : Nat) (r : Bytes) (hr : r.length = 178) :
    tsStep cfg true false ⟨fs, [], 178, 0, 10, true, [], pes, todo, cont, pid⟩ r
      = (⟨fs, [], 0, 0, 10, true, [], pes, todo, cont, pid⟩, [], 178, .stop .needMore) := by
  unfold tsStep
  rw [tsPhaseA_reentry _ _ rfl]; dsimp only
  rw [tsPhaseB_reentry _ _ _ rfl]; dsimp only
  simp only [tsPhaseC, List.drop_zero, hr]
  rw [if_neg (by omega)]; dsimp only
  simp only [tsPhaseD, Nat.zero_add, List.length_drop, hr, TS_BUF_SIZE, List.length_nil]
  rw [if_pos (by omega), if_neg (by omega)]
  simp only [List.drop_of_length_le (show r.length ≤ 178 by omega), List.append_nil, Nat.sub_self, Nat.sub_zero]

theorem step_copy_part (fs : FS) (pesA : Bytes) (todoA : Nat) (cont : Option Nat) (pid : Nat) (r : Bytes)
    (hr : r.length = 178) (ht : 178 < todoA) (hcap : pesA.length + 178 ≤ PES_BUF_SIZE) :
    tsStep cfg true false ⟨fs, [], 0, 178, 10, true, [], pesA, todoA, cont, pid⟩ r
      = (⟨fs, [], 0, 0, 10, true, [], pesA ++ r, todoA - 178, cont, pid⟩, [], 178, .stop .needMore) := by
  unfold tsStep
  have hA : tsPhaseA ⟨fs, [], 0, 178, 10, true, [], pesA, todoA, cont, pid⟩ r
      = .go ⟨fs, [], 0, 0, 10, true, [], pesA ++ r, todoA - 178, cont, pid⟩ 178 := by
    unfold tsPhaseA
    simp only [hr]
    rw [if_pos (by omega), if_neg (by omega), if_neg (by omega), if_neg (by omega)]
    unfold tsPesDone
    simp only
    rw [if_neg (by omega), List.take_of_length_le (by omega)]
  rw [hA]; dsimp only
  rw [tsPhaseB_reentry _ _ _ rfl]; dsimp only
  rw [tsPhaseC_reentry _ _ rfl]; dsimp only
  simp only [tsPhaseD, Nat.add_zero, List.length_drop, hr, TS_BUF_SIZE, List.length_nil]
  rw [if_pos (by omega), if_neg (by omega)]
  simp only [List.drop_of_length_le (show r.length ≤ 178 by omega), List.append_nil, Nat.sub_self, Nat.sub_zero]

theorem step_copy_last (fs fs' fs2 : FS) (outs : List FrameOut) (pesA : Bytes) (cont : Option Nat) (pid : Nat) (r : Bytes)
    (hr : r.length = 178) (hcap : pesA.length + 178 ≤ PES_BUF_SIZE) (h46 : 46 ≤ pesA.length + 178)
    (hv : validHeader fs ((pesA ++ r).take 46) = some fs')
    (hp : pesPacketFrame cfg 3 true false { fs' with frame := { fs'.frame with nDu := 0 } } ((pesA ++ r).drop 46)
            = (fs2, outs, .done, [])) (hne : (pesA ++ r).drop 46 ≠ []) :
    tsStep cfg true false ⟨fs, [], 0, 178, 10, true, [], pesA, 178, cont, pid⟩ r
      = (⟨fs2, [], 0, 0, 10, true, [], pesA ++ r, 0, cont, pid⟩, outs, 178, .stop .needMore) := by
  unfold tsStep
  have hA : tsPhaseA ⟨fs, [], 0, 178, 10, true, [], pesA, 178, cont, pid⟩ r
      = .go ⟨{ fs' with frame := { fs'.frame with nDu := 0 } }, [], 0, 0, 10, true, (pesA ++ r).drop 46, pesA ++ r, 0, cont, pid⟩ 178 := by
    unfold tsPhaseA
    simp only [hr]
    rw [if_pos (by omega), if_neg (by omega), if_neg (by omega), if_neg (by omega)]
    unfold tsPesDone
    simp only [Nat.sub_self, List.take_of_length_le (show r.length ≤ 178 by omega)]
    rw [if_pos trivial, if_neg (by rw [List.length_append]; omega), hv]
  rw [hA]; dsimp only
  have hB : tsPhaseB cfg true false ⟨{ fs' with frame := { fs'.frame with nDu := 0 } }, [], 0, 0, 10, true, (pesA ++ r).drop 46, pesA ++ r, 0, cont, pid⟩
      = (⟨fs2, [], 0, 0, 10, true, [], pesA ++ r, 0, cont, pid⟩, outs, none) := by
    unfold tsPhaseB
    simp only
    rw [if_pos (List.length_pos_iff.mpr hne), hp]
  rw [hB]; dsimp only
  rw [tsPhaseC_reentry _ _ rfl]; dsimp only
  simp only [tsPhaseD, Nat.add_zero, List.length_drop, hr, TS_BUF_SIZE, List.length_nil]
  rw [if_pos (by omega), if_neg (by omega)]
  simp only [List.drop_of_length_le (show r.length ≤ 178 by omega), List.append_nil, Nat.sub_self, Nat.sub_zero]


/-! ## one feed call = one TS packet -/

theorem tsRun_two (f : Nat) (s s1 s2 : TsSt) (buf : Bytes) (n n2 : Nat) (outs : List FrameOut)
    (h1 : tsStep cfg true false s buf = (s1, [], n, .cont))
    (h2 : tsStep cfg true false s1 (buf.drop n) = (s2, outs, n2, .stop .needMore)) :
    tsRun cfg (f + 2) true false s buf = (s2, outs, n + n2, .needMore) := by
  rw [tsRun, h1]
  dsimp only
  rw [tsRun, h2]
  rfl

theorem tsFeed_of_run (s s2 : TsSt) (buf : Bytes) (outs : List FrameOut) (n : Nat) (hne : buf ≠ [])
    (h : ∀ f, tsRun cfg (f + 2) true false s buf = (s2, outs, n, .needMore)) :
    tsFeed cfg s buf = { st := s2, frames := outs } := by
  unfold tsFeed
  rw [if_neg (by intro h0; exact hne (List.eq_nil_of_length_eq_zero h0))]
  unfold tsLoop tsFuel
  simp only [List.drop_zero, Nat.sub_zero]
  rw [h]

/-- **one in-sync TS packet.**  A demultiplexer in sync at a TS packet boundary (`k <= 9` bytes of the
packet already in `ts_buffer`) that is fed the rest of an intact packet `p` delivers what `PktEff` says
and is at the next packet boundary. -/
theorem feed_at (pid : Nat) (v v' : V) (p : Bytes) (outs : List FrameOut) (k : Nat)
    (hl : p.length = 188) (h47 : p.getD 0 0 = 0x47) (hk : k ≤ 9) (he : PktEff cfg pid v p v' outs) :
    tsFeed cfg (mkAt pid v (p.take k)) (p.drop k) = { st := mkAt pid v' [], frames := outs } := by
  have hlk : (p.take k).length = k := by rw [List.length_take]; omega
  have hne : p.drop k ≠ [] := by
    intro h; have := congrArg List.length h; simp at this; omega
  have hdd : (p.drop k).drop (10 - k) = p.drop 10 := by rw [List.drop_drop]; congr 1; omega
  have hr : (p.drop 10).length = 178 := by simp [hl]
  have h10 : p.drop 4 = (p.drop 4).take 6 ++ p.drop 10 := by
    have : p.drop 10 = (p.drop 4).drop 6 := by rw [List.drop_drop]
    rw [this, List.take_append_drop]
  unfold mkAt
  rw [hlk]
  cases he with
  | skip h =>
    apply tsFeed_of_run _ _ _ _ (10 - k + 178) hne
    intro f
    apply tsRun_two
    · rw [step_hdr v.fs v.pes v.todo v.cont pid p k hl h47 hk, hdr_skip v.fs v.pes v.todo (10 - k) v.cont pid p hl h]
    · rw [hdd]; exact step_skip _ _ _ _ _ _ hr
  | part pes0 todo0 hh hc hs ht hcap =>
    apply tsFeed_of_run _ _ _ _ (10 - k + 178) hne
    intro f
    apply tsRun_two
    · rw [step_hdr v.fs v.pes v.todo v.cont pid p k hl h47 hk,
        hdr_copy v.fs v.pes v.todo (10 - k) v.cont pid p pes0 todo0 hl hh hc hs (by omega) hcap]
    · rw [hdd]
      have := step_copy_part (cfg := cfg) v.fs (pes0 ++ (p.drop 4).take 6) (todo0 - 6) (some (p.getD 3 0 + 1)) pid (p.drop 10) hr
        (by omega) (by rw [List.length_append, List.length_take, List.length_drop]; unfold PES_BUF_SIZE at hcap ⊢; omega)
      rw [this, List.append_assoc, ← h10]
      simp only [List.length_nil, Nat.sub_zero, Prod.mk.injEq, and_true]
      have e : todo0 - 6 - 178 = todo0 - 184 := by omega
      rw [e]
  | last pes0 fs' fs2 _ hh hc hs hcap hv hp =>
    apply tsFeed_of_run _ _ _ _ (10 - k + 178) hne
    intro f
    apply tsRun_two
    · rw [step_hdr v.fs v.pes v.todo v.cont pid p k hl h47 hk,
        hdr_copy v.fs v.pes v.todo (10 - k) v.cont pid p pes0 184 hl hh hc hs (by omega) hcap]
    · rw [hdd]
      have hpe : (pes0 ++ (p.drop 4).take 6) ++ p.drop 10 = pes0 ++ p.drop 4 := by rw [List.append_assoc, ← h10]
      have hlen : (pes0 ++ p.drop 4).length = pes0.length + 184 := by simp [hl]
      have := step_copy_last (cfg := cfg) v.fs fs' fs2 outs (pes0 ++ (p.drop 4).take 6) (some (p.getD 3 0 + 1)) pid (p.drop 10) hr
        (by rw [List.length_append, List.length_take, List.length_drop]; unfold PES_BUF_SIZE at hcap ⊢; omega)
        (by rw [List.length_append, List.length_take, List.length_drop]; omega)
        (by rw [hpe]; exact hv) (by rw [hpe]; exact hp)
        (by rw [hpe]; intro h; have := congrArg List.length h; rw [List.length_drop, hlen] at this; simp at this)
      rw [show (184 : Nat) - 6 = 178 from rfl, this, hpe]
      rfl


/-! ## the first TS packet of a stream: sync search -/

theorem tsSyncSearch_zero (b : Bytes) (h0 : b.getD 0 0 = 0x47) (hl : 188 < b.length) (h1 : b.getD 188 0 = 0x47) :
    tsSyncSearch b 189 0 = some 0 := by
  rw [tsSyncSearch]
  rw [if_neg (by omega)]
  simp only [Nat.zero_add, h0, h1, hl, true_and, true_or, if_true]

/-- first pass of a new demultiplexer over the first 197 bytes of a stream that begins with two TS packets -/
theorem step_first (pid : Nat) (b : Bytes) (hl : b.length = 197) (h0 : b.getD 0 0 = 0x47) (h1 : b.getD 188 0 = 0x47) :
    tsStep cfg true false (TsSt.init pid) b
      = match tsHeader cfg ⟨{}, b, 0, 0, 197, true, [], [], 0, none, pid⟩ b with
        | (s', none) => (s', [], 197, .cont)
        | (s', some e) => (s', [], 197, .stop (.fault e)) := by
  have hi : TsSt.init pid = ⟨{}, [], 0, 0, 197, false, [], [], 0, none, pid⟩ := rfl
  rw [hi]
  unfold tsStep
  rw [tsPhaseA_reentry _ _ rfl]; dsimp only
  rw [tsPhaseB_reentry _ _ _ rfl]; dsimp only
  rw [tsPhaseC_reentry _ _ rfl]; dsimp only
  have hD : tsPhaseD ⟨{}, [], 0, 0, 197, false, [], [], 0, none, pid⟩ (b.drop (0 + 0))
      = .go ⟨{}, b, 0, 0, 197, false, [], [], 0, none, pid⟩ 197 := by
    unfold tsPhaseD
    simp only [Nat.add_zero, List.drop_zero, hl, TS_BUF_SIZE, List.length_nil, List.nil_append]
    rw [if_neg (by omega), if_neg (by omega), List.take_of_length_le (by omega)]
  rw [hD]; dsimp only
  have hE : tsPhaseE cfg ⟨{}, b, 0, 0, 197, false, [], [], 0, none, pid⟩
      = match tsHeader cfg ⟨{}, b, 0, 0, 197, true, [], [], 0, none, pid⟩ b with
        | (s', none) => (s', .cont)
        | (s', some e) => (s', .stop (.fault e)) := by
    unfold tsPhaseE
    simp only [hl, TS_SYNC_SEARCH_LOOKAHEAD, TS_HEADER_LOOKAHEAD, Bool.false_eq_true, if_false]
    rw [if_neg (by omega), tsSyncSearch_zero b h0 (by omega) h1]
    simp only [List.drop_zero, hl]
    rw [if_neg (by omega)]
    rcases tsHeader cfg ⟨{}, b, 0, 0, 197, true, [], [], 0, none, pid⟩ b with ⟨s', _ | e⟩ <;> rfl
  rw [hE]
  rcases tsHeader cfg ⟨{}, b, 0, 0, 197, true, [], [], 0, none, pid⟩ b with ⟨s', _ | e⟩ <;> simp

theorem hdr_first_skip (pid : Nat) (x1 pre : Bytes) (hl : x1.length = 188) (hp : pre.length = 9)
    (h : tsHeaderCheck { pid := pid } x1 = some false) :
    tsHeader cfg ⟨{}, x1 ++ pre, 0, 0, 197, true, [], [], 0, none, pid⟩ (x1 ++ pre)
      = (⟨{}, pre, 0, 0, 1, true, [], [], 0, none, pid⟩, none) := by
  have hc : tsHeaderCheck ⟨{}, x1 ++ pre, 0, 0, 197, true, [], [], 0, none, pid⟩ (x1 ++ pre) = some false :=
    (tsHeaderCheck_congr ⟨{}, x1 ++ pre, 0, 0, 197, true, [], [], 0, none, pid⟩ { pid := pid } (x1 ++ pre) x1 rfl
      (fun i hi => getD_append_left x1 pre i (by omega))).trans h
  unfold tsHeader
  rw [hc]
  simp only [tsSkipPacket, tsAdvance, List.length_append, hl, hp, TS_HEADER_LOOKAHEAD]
  rw [if_neg (by omega)]
  simp only [List.drop_append_of_le_length (show 188 ≤ x1.length by omega), List.drop_of_length_le (show x1.length ≤ 188 by omega),
    List.nil_append]
  rfl

theorem hdr_first_copy (pid : Nat) (x1 pre : Bytes) (todo0 : Nat) (hl : x1.length = 188) (hp : pre.length = 9)
    (hh : tsHeaderCheck { pid := pid } x1 = none) (hs : startOf [] 0 x1 = some ([], todo0)) (ht : 184 < todo0) :
    tsHeader cfg ⟨{}, x1 ++ pre, 0, 0, 197, true, [], [], 0, none, pid⟩ (x1 ++ pre)
      = (⟨{}, pre, 0, 0, 1, true, [], x1.drop 4, todo0 - 184, some (x1.getD 3 0 + 1), pid⟩, none) := by
  have hc1 : tsHeaderCheck ⟨{}, x1 ++ pre, 0, 0, 197, true, [], [], 0, none, pid⟩ (x1 ++ pre) = none :=
    (tsHeaderCheck_congr ⟨{}, x1 ++ pre, 0, 0, 197, true, [], [], 0, none, pid⟩ { pid := pid } (x1 ++ pre) x1 rfl
      (fun i hi => getD_append_left x1 pre i (by omega))).trans hh
  have h3 : (x1 ++ pre).getD 3 0 = x1.getD 3 0 := getD_append_left x1 pre 3 (by omega)
  unfold tsHeader
  rw [hc1]
  simp only [h3, tsContCheck]
  rw [tsStart_startOf _ (x1 ++ pre) x1 (fun i hi => getD_append_left x1 pre i (by omega))]
  simp only [hs, Option.map_some]
  unfold tsCopy
  simp only [List.length_append, hl, hp]
  rw [if_neg (by omega)]
  have e2 : min todo0 184 = 184 := by omega
  rw [e2]
  rw [if_neg (by unfold PES_BUF_SIZE; simp)]
  unfold tsCopyFin tsCopyDone
  rw [if_neg (by intro h; have := h.2; simp only at this; omega)]
  simp only [tsAdvance, List.length_append, hl, hp, TS_HEADER_LOOKAHEAD]
  rw [if_neg (by omega)]
  have e4 : ((x1 ++ pre).drop 4).take 184 = x1.drop 4 := by
    rw [List.drop_append_of_le_length (by omega), List.take_append_of_le_length (by simp [hl]),
      List.take_of_length_le (by simp [hl])]
  have e5 : (x1 ++ pre).drop 188 = pre := by
    rw [List.drop_append_of_le_length (by omega), List.drop_of_length_le (by omega), List.nil_append]
  rw [e4, e5]
  rfl

theorem hdr_first_last (hflag : cfg.tsCompletesInHeader = true) (pid : Nat) (x1 pre : Bytes) (fs' : FS)
    (hl : x1.length = 188) (hp : pre.length = 9)
    (hh : tsHeaderCheck { pid := pid } x1 = none) (hs : startOf [] 0 x1 = some ([], 184))
    (hv : validHeader {} ((x1.drop 4).take 46) = some fs') :
    tsHeader cfg ⟨{}, x1 ++ pre, 0, 0, 197, true, [], [], 0, none, pid⟩ (x1 ++ pre)
      = (⟨{ fs' with frame := { fs'.frame with nDu := 0 } }, pre, 0, 0, 1, true, (x1.drop 4).drop 46, x1.drop 4, 0,
          some (x1.getD 3 0 + 1), pid⟩, none) := by
  have hc1 : tsHeaderCheck ⟨{}, x1 ++ pre, 0, 0, 197, true, [], [], 0, none, pid⟩ (x1 ++ pre) = none :=
    (tsHeaderCheck_congr ⟨{}, x1 ++ pre, 0, 0, 197, true, [], [], 0, none, pid⟩ { pid := pid } (x1 ++ pre) x1 rfl
      (fun i hi => getD_append_left x1 pre i (by omega))).trans hh
  have h3 : (x1 ++ pre).getD 3 0 = x1.getD 3 0 := getD_append_left x1 pre 3 (by omega)
  unfold tsHeader
  rw [hc1]
  simp only [h3, tsContCheck]
  rw [tsStart_startOf _ (x1 ++ pre) x1 (fun i hi => getD_append_left x1 pre i (by omega))]
  simp only [hs, Option.map_some]
  unfold tsCopy
  simp only [List.length_append, hl, hp]
  rw [if_neg (by omega)]
  rw [if_neg (by unfold PES_BUF_SIZE; simp)]
  have e4 : ((x1 ++ pre).drop 4).take 184 = x1.drop 4 := by
    rw [List.drop_append_of_le_length (by omega), List.take_append_of_le_length (by simp [hl]),
      List.take_of_length_le (by simp [hl])]
  have e5 : (x1 ++ pre).drop 188 = pre := by
    rw [List.drop_append_of_le_length (by omega), List.drop_of_length_le (by omega), List.nil_append]
  unfold tsCopyFin tsCopyDone
  simp only [Nat.min_self, Nat.sub_self, List.nil_append, e4]
  rw [if_pos ⟨hflag, trivial⟩]
  unfold tsComplete
  simp only [List.length_drop, hl]
  rw [if_neg (by omega), hv]
  simp only [tsAdvance, List.length_append, hl, hp, TS_HEADER_LOOKAHEAD]
  rw [if_neg (by omega), e5]
  rfl

/-- second pass after the first packet: data units of a PES packet that the header evaluation completed (if any),
then one more byte of look-ahead is wanted -/
theorem step_first2_none (fs : FS) (pre pes : Bytes) (todo : Nat) (cont : Option Nat) (pid : Nat) (hp : pre.length = 9) :
    tsStep cfg true false ⟨fs, pre, 0, 0, 1, true, [], pes, todo, cont, pid⟩ []
      = (⟨fs, pre, 0, 0, 1, true, [], pes, todo, cont, pid⟩, [], 0, .stop .needMore) := by
  unfold tsStep
  rw [tsPhaseA_reentry _ _ rfl]; dsimp only
  rw [tsPhaseB_reentry _ _ _ rfl]; dsimp only
  rw [tsPhaseC_reentry _ _ rfl]; dsimp only
  simp [tsPhaseD, TS_BUF_SIZE, hp]

theorem step_first2_frames (fs fs2 : FS) (outs : List FrameOut) (pre pes fr : Bytes) (todo : Nat) (cont : Option Nat)
    (pid : Nat) (hp : pre.length = 9) (hne : fr ≠ [])
    (hpf : pesPacketFrame cfg 3 true false fs fr = (fs2, outs, .done, [])) :
    tsStep cfg true false ⟨fs, pre, 0, 0, 1, true, fr, pes, todo, cont, pid⟩ []
      = (⟨fs2, pre, 0, 0, 1, true, [], pes, todo, cont, pid⟩, outs, 0, .stop .needMore) := by
  unfold tsStep
  rw [tsPhaseA_reentry _ _ rfl]; dsimp only
  have hB : tsPhaseB cfg true false ⟨fs, pre, 0, 0, 1, true, fr, pes, todo, cont, pid⟩
      = (⟨fs2, pre, 0, 0, 1, true, [], pes, todo, cont, pid⟩, outs, none) := by
    unfold tsPhaseB
    simp only
    rw [if_pos (List.length_pos_iff.mpr hne), hpf]
  rw [hB]; dsimp only
  rw [tsPhaseC_reentry _ _ rfl]; dsimp only
  simp [tsPhaseD, TS_BUF_SIZE, hp]

/-- **the first TS packet of a stream.**  A new demultiplexer that is fed the first TS packet `x1` of a stream
and nine bytes of the next packet `x2` (197 bytes: what the sync search asks for) finds the sync byte at
offset 0 (confirmed by the sync byte of `x2`), does to `x1` what `PktEff` says - with fix
dvb-demux-ts-first-packet also when `x1` alone is a whole PES packet - and is in sync at the boundary to `x2`. -/
theorem feed_first (hflag : cfg.tsCompletesInHeader = true) (pid : Nat) (v' : V) (x1 x2 : Bytes) (outs : List FrameOut)
    (hl1 : x1.length = 188) (h1 : x1.getD 0 0 = 0x47) (hl2 : x2.length = 188) (h2 : x2.getD 0 0 = 0x47)
    (he : PktEff cfg pid V.init x1 v' outs) :
    tsFeed cfg (TsSt.init pid) (x1 ++ x2.take 9) = { st := mkAt pid v' (x2.take 9), frames := outs } := by
  have hp : (x2.take 9).length = 9 := by rw [List.length_take]; omega
  have hb : (x1 ++ x2.take 9).length = 197 := by rw [List.length_append, hp, hl1]
  have hne : x1 ++ x2.take 9 ≠ [] := by intro h; have := congrArg List.length h; rw [hb] at this; simp at this
  have hb0 : (x1 ++ x2.take 9).getD 0 0 = 0x47 := by rw [getD_append_left x1 _ 0 (by omega), h1]
  have hb1 : (x1 ++ x2.take 9).getD 188 0 = 0x47 := by
    have : (x1 ++ x2.take 9).getD 188 0 = (x2.take 9).getD 0 0 := by
      simp [List.getD_eq_getElem?_getD, List.getElem?_append_right (show x1.length ≤ 188 by omega), hl1]
    rw [this, getD_take x2 9 0 (by omega), h2]
  have hdr : (x1 ++ x2.take 9).drop 197 = [] := List.drop_of_length_le (by omega)
  unfold mkAt
  rw [hp]
  cases he with
  | skip h =>
    apply tsFeed_of_run _ _ _ _ (197 + 0) hne
    intro f
    apply tsRun_two
    · rw [step_first pid _ hb hb0 hb1, hdr_first_skip pid x1 _ hl1 hp h]
    · rw [hdr]; exact step_first2_none _ _ _ _ _ _ hp
  | part pes0 todo0 hh hc hs ht hcap =>
    have hs' : startOf [] 0 x1 = some ([], todo0) ∧ pes0 = [] := by
      have : startOf [] 0 x1 = some (pes0, todo0) := hs
      unfold startOf at this ⊢
      rw [if_pos rfl] at this ⊢
      split at this
      · cases this
      · split at this
        · cases this
        · simp only [Option.some.injEq, Prod.mk.injEq] at this
          rw [if_neg (by assumption), if_neg (by assumption)]
          exact ⟨by rw [this.2], this.1.symm⟩
    obtain ⟨hs1, rfl⟩ := hs'
    apply tsFeed_of_run _ _ _ _ (197 + 0) hne
    intro f
    apply tsRun_two
    · rw [step_first pid _ hb hb0 hb1, hdr_first_copy pid x1 _ todo0 hl1 hp hh hs1 ht]
    · rw [hdr]; exact step_first2_none _ _ _ _ _ _ hp
  | last pes0 fs' fs2 _ hh hc hs hcap hv hpf =>
    have hs' : startOf [] 0 x1 = some ([], 184) ∧ pes0 = [] := by
      have : startOf [] 0 x1 = some (pes0, 184) := hs
      unfold startOf at this ⊢
      rw [if_pos rfl] at this ⊢
      split at this
      · cases this
      · split at this
        · cases this
        · simp only [Option.some.injEq, Prod.mk.injEq] at this
          rw [if_neg (by assumption), if_neg (by assumption)]
          exact ⟨by rw [this.2], this.1.symm⟩
    obtain ⟨hs1, rfl⟩ := hs'
    simp only [List.nil_append] at hv hpf
    apply tsFeed_of_run _ _ _ _ (197 + 0) hne
    intro f
    apply tsRun_two
    · rw [step_first pid _ hb hb0 hb1, hdr_first_last hflag pid x1 _ fs' hl1 hp hh hs1 hv]
    · rw [hdr]
      exact step_first2_frames _ _ _ _ _ _ _ _ _ hp
        (by intro h; have := congrArg List.length h; simp [hl1] at this) hpf

end Zvbi.Demux
