import ZvbiModel.Demux.Model
/-!
# Specification of the PES demultiplexer as a function of the concatenated byte stream

`arun c L` consumes the logical stream `L` byte by byte.  Its state `Core` is the part of the
demux context that is *not* buffer management: how many bytes are still to be skipped, how many
bytes the next decision needs to see (`lookahead`), and the frame / PTS state.  Whenever
`lookahead` bytes are available at the current position it performs one *micro step*: the body of
the outer loop of `demux_pes_packet` (`pesIter`) on the window of exactly those `lookahead` bytes,
i.e. one start-code scan position, one header evaluation or one packet payload.
There are no feed calls, no wrap buffer and no pointers here; `frames stream` is the property's
"function of the concatenated input bytes alone".
-/
namespace Zvbi.Demux

structure Core where
  skip : Nat
  lookahead : Nat
  fs : FS
  deriving DecidableEq, Repr

def Core.init : Core := { skip := 0, lookahead := PES_HEADER_LOOKAHEAD, fs := {} }

/-- abstraction of a PES demux context -/
def St.core (s : St) : Core := { skip := s.pw.skip, lookahead := s.pw.lookahead, fs := s.fs }

/-- the bytes the context still holds unconsumed (`bp - leftover .. bp`) -/
def St.pending (s : St) : Bytes := s.pw.pend

structure ARes where
  core : Core
  pend : Bytes
  frames : List FrameOut
  stop : Option Stop
  deriving DecidableEq, Repr

/-- one micro step on a window of exactly `lookahead` bytes -/
def micro (cfg : SrcCfg) (c : Core) (win : Bytes) : (Nat × Nat) × FS × List FrameOut × Option Stop :=
  pesIter true cfg 0 c.lookahead c.fs win

/-- the stream machine; structural recursion on the stream -/
def arun (cfg : SrcCfg) : Core → Bytes → ARes
  | c, [] => { core := c, pend := [], frames := [], stop := none }
  | c, x :: L =>
    if c.skip > 0 then arun cfg { c with skip := c.skip - 1 } L
    else if (x :: L).length < c.lookahead then { core := c, pend := x :: L, frames := [], stop := none }
    else
      match micro cfg c ((x :: L).take c.lookahead) with
      | (_, fs', outs, some stop) =>
        { core := { c with fs := fs' }, pend := x :: L, frames := outs, stop := some stop }
      | ((sk, la), fs', outs, none) =>
        let r := arun cfg { skip := sk - 1, lookahead := la, fs := fs' } L
        { r with frames := outs ++ r.frames }

/-- the frames a PES stream carries, as a function of the whole stream -/
def frames (cfg : SrcCfg) (stream : Bytes) : List FrameOut := (arun cfg Core.init stream).frames

/-- a PES packet start code `00 00 01 xx` with a stream_id `xx >= 0xBC` begins here -/
def isStart : Bytes → Bool
  | a :: b :: c :: d :: _ => a = 0 ∧ b = 0 ∧ c = 1 ∧ d ≥ 0xBC
  | _ => false

/-! ## Small stream builders for witnesses (EN 300 472 packets; used by `example`s and counterexamples) -/

/-- stuffing data unit, 46 bytes -/
def witStuffing : Bytes := 0xFF :: 0x2C :: List.replicate 0x2C 0xFF

/-- EBU Teletext data unit, 46 bytes: `lofp` = reserved/field_parity/line_offset byte, payload `fill` x 42 -/
def witTtxUnit (lofp fill : Nat) : Bytes := [0x02, 0x2C, lofp, 0xE4] ++ List.replicate 42 fill

/-- a VBI PES packet (N x 184 bytes, PTS `ptsLow` < 128, data_identifier 0x10) around `units`, padded with stuffing units -/
def witPacket (ptsLow : Nat) (units : Bytes) : Bytes :=
  let total := (46 + units.length + 183) / 184 * 184
  let body := units ++ (List.replicate ((total - 46 - units.length) / 46) witStuffing).flatten
  [0x00, 0x00, 0x01, 0xBD, (total - 6) / 256, (total - 6) % 256, 0x84, 0x80, 0x24,
   0x21, 0x00, 0x01, 0x00, 2 * ptsLow + 1] ++ List.replicate 31 0xFF ++ [0x10] ++ body

/-- `[stuffing unit] [Teletext unit, line_offset 0, second field]`: legal, 184 bytes -/
def livelockPacket : Bytes := witPacket 1 (witStuffing ++ witTtxUnit 0xC0 0x31)

/-- 70 Teletext units with an undefined line: more than `dx->sliced[64]` holds -/
def overflowPacket : Bytes := witPacket 2 (List.replicate 70 (witTtxUnit 0xE0 0x40)).flatten

/-- an ordinary frame: Teletext on line `line` (first field) -/
def linePacket (ptsLow line fill : Nat) : Bytes := witPacket ptsLow (witTtxUnit (0xE0 + line) fill)

/-- one TS packet (ISO 13818-1 2.4.3.2: sync byte, payload_unit_start_indicator set, PID, payload only,
continuity counter `cc`) carrying the 184 bytes `pes` -/
def tsOf (pid cc : Nat) (pes : Bytes) : Bytes := [0x47, 0x40 + pid / 256, pid % 256, 0x10 + cc % 16] ++ pes

/-- three frames (Teletext on line 7, PTS 3, 4, 5), each PES packet one TS packet long, PID 256: the
stream of `corpus/C06/ts-demux-first-pes.ops` in small (finding F30) -/
def tsThree : Bytes :=
  tsOf 256 0 (linePacket 3 7 0x55) ++ tsOf 256 1 (linePacket 4 7 0x66) ++ tsOf 256 2 (linePacket 5 7 0x77)

/-- `tsThree` with the continuity_counter of the first packet chosen freely (the following ones count on) -/
def tsThreeFrom (cc : Nat) : Bytes :=
  tsOf 256 cc (linePacket 3 7 0x55) ++ tsOf 256 (cc + 1) (linePacket 4 7 0x66) ++ tsOf 256 (cc + 2) (linePacket 5 7 0x77)

end Zvbi.Demux
