import ZvbiModel.Demux.Model
/-!
# Specification of the PES demultiplexer as a function of the concatenated byte stream

`arun c L` consumes the logical stream `L` byte by byte.  Its state `Core` is the part of the
demux context that is *not* buffer management: how many bytes are still to be skipped, how many
bytes the next decision needs to see (`lookahead`), and the frame / PTS state.  Whenever
`lookahead` bytes are available at the current position it performs one *micro step*: the body of
the outer loop of `demux_pes_packet` (`pesIter`) on the window of exactly those `lookahead` bytes,
i.e. one start-code scan position, one header evaluation or one packet payload.
There are no feed calls, no wrap buffer and no pointers here; `frames stream` is the property's
"function of the concatenated input bytes alone".
-/
namespace Zvbi.Demux

structure Core where
  skip : Nat
  lookahead : Nat
  fs : FS
  deriving DecidableEq, Repr

def Core.init : Core := { skip := 0, lookahead := PES_HEADER_LOOKAHEAD, fs := {} }

/-- abstraction of a PES demux context -/
def St.core (s : St) : Core := { skip := s.pw.skip, lookahead := s.pw.lookahead, fs := s.fs }

/-- the bytes the context still holds unconsumed (`bp - leftover .. bp`) -/
def St.pending (s : St) : Bytes := s.pw.pend

structure ARes where
  core : Core
  pend : Bytes
  frames : List FrameOut
  stop : Option Stop
  deriving DecidableEq, Repr

/-- one micro step on a window of exactly `lookahead` bytes -/
def micro (c : Core) (win : Bytes) : (Nat × Nat) × FS × List FrameOut × Option Stop :=
  pesIter true false 0 c.lookahead c.fs win

/-- the stream machine; structural recursion on the stream -/
def arun : Core → Bytes → ARes
  | c, [] => { core := c, pend := [], frames := [], stop := none }
  | c, x :: L =>
    if c.skip > 0 then arun { c with skip := c.skip - 1 } L
    else if (x :: L).length < c.lookahead then { core := c, pend := x :: L, frames := [], stop := none }
    else
      match micro c ((x :: L).take c.lookahead) with
      | (_, fs', outs, some stop) =>
        { core := { c with fs := fs' }, pend := x :: L, frames := outs, stop := some stop }
      | ((sk, la), fs', outs, none) =>
        let r := arun { skip := sk - 1, lookahead := la, fs := fs' } L
        { r with frames := outs ++ r.frames }

/-- the frames a PES stream carries, as a function of the whole stream -/
def frames (stream : Bytes) : List FrameOut := (arun Core.init stream).frames

/-- a PES packet start code `00 00 01 xx` with a stream_id `xx >= 0xBC` begins here -/
def isStart : Bytes → Bool
  | a :: b :: c :: d :: _ => a = 0 ∧ b = 0 ∧ c = 1 ∧ d ≥ 0xBC
  | _ => false

end Zvbi.Demux
