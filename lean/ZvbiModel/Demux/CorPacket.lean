import ZvbiModel.Demux.CorExtract
/-!
# Coroutine interface: `demux_pes_packet_frame` without a callback vs. with a callback  (helper lemmas for C07)
-/
namespace Zvbi.Demux

variable {cfg : SrcCfg}

/-- the frame state `demux_pes_packet_frame` starts a round with -/
def fsStart (fs : FS) : FS :=
  if fs.newFrame then { fs with frame := resetFrame fs.frame, framePts := fs.packetPts, newFrame := false } else fs

def xrPR : XR → PR
  | .done => .done
  | .err => .err
  | .fault e => .fault e
  | .newFrame => .done

/-- a round in which `extract_data_units` does not say -1 ends the function -/
theorem pesPacketFrame_round (n : Nat) (cb se : Bool) (fs : FS) (d : Bytes) (f : Frame) (r : XR) (rest : Bytes)
    (hx : extract cfg (fsStart fs).frame d = (f, r, rest)) (hr : r ≠ .newFrame) :
    pesPacketFrame cfg (n + 1) cb se fs d = ({ fsStart fs with frame := f }, [], xrPR r, rest) := by
  unfold pesPacketFrame
  simp only []
  unfold fsStart at hx
  rw [hx]
  cases r with
  | newFrame => exact absurd rfl hr
  | done => rfl
  | err => rfl
  | fault e => rfl

/-- a round in which it says -1 -/
theorem pesPacketFrame_nf (n : Nat) (cb se : Bool) (fs : FS) (d : Bytes) (f : Frame) (rest : Bytes)
    (hx : extract cfg (fsStart fs).frame d = (f, .newFrame, rest)) :
    pesPacketFrame cfg (n + 1) cb se fs d =
      (if !cb then
        if se ∧ f.lines.isEmpty then pesPacketFrame cfg n cb se { fsStart fs with frame := f, newFrame := true } rest
        else ({ fsStart fs with frame := f, newFrame := true }, [], .callback, rest)
      else
        ((pesPacketFrame cfg n cb se { fsStart fs with frame := f, newFrame := true } rest).1,
         { pts := (fsStart fs).framePts, lines := f.lines } ::
           (pesPacketFrame cfg n cb se { fsStart fs with frame := f, newFrame := true } rest).2.1,
         (pesPacketFrame cfg n cb se { fsStart fs with frame := f, newFrame := true } rest).2.2.1,
         (pesPacketFrame cfg n cb se { fsStart fs with frame := f, newFrame := true } rest).2.2.2)) := by
  conv => lhs; unfold pesPacketFrame
  simp only []
  unfold fsStart at hx ⊢
  rw [hx]

/-- frame state in the middle of a frame whose first packet had PTS `p` -/
def fsAt (p : Nat) (f : Frame) : FS := { frame := f, framePts := p, packetPts := p, newFrame := false }

theorem fsStart_new (fs : FS) (h : fs.newFrame = true) : fsStart fs = fsAt fs.packetPts {} := by
  unfold fsStart; rw [if_pos h]; rfl

theorem fsStart_ndu (fs : FS) : (fsStart { fs with frame := { fs.frame with nDu := 0 } }).frame.nDu = 0 := by
  unfold fsStart
  split <;> rfl

theorem fsStart_lines (fs : FS) (h : fs.frame.lines.length ≤ 64) : (fsStart fs).frame.lines.length ≤ 64 := by
  unfold fsStart
  split
  · exact Nat.zero_le _
  · exact h

/-- a round that starts at a frame start -/
theorem pesPacketFrame_new (n : Nat) (cb se : Bool) (fs : FS) (d : Bytes) (f : Frame) (r : XR) (rest : Bytes)
    (hn : fs.newFrame = true) (hx : extract cfg {} d = (f, r, rest)) (hr : r ≠ .newFrame) :
    pesPacketFrame cfg (n + 1) cb se fs d = (fsAt fs.packetPts f, [], xrPR r, rest) := by
  have := pesPacketFrame_round n cb se fs d f r rest (by rw [fsStart_new fs hn]; exact hx) hr
  rw [this, fsStart_new fs hn]
  rfl

/-- the frames that reach the application -/
def nonEmpty (f : FrameOut) : Bool := !f.lines.isEmpty

/-- what `demux_pes_packet` makes of the result of `demux_pes_packet_frame` -/
def payFin (cfg : SrcCfg) (la : Nat) (fs1 : FS) (outs : List FrameOut) :
    XR → (Nat × Nat) × FS × List FrameOut × Option Stop
  | .err => ((la, PES_HEADER_LOOKAHEAD), pesErrFs cfg fs1, outs, none)
  | _ => ((la, PES_HEADER_LOOKAHEAD), fs1, outs, none)

theorem payloadRes_fin (cb : Bool) (cfg : SrcCfg) (sk la : Nat) (fs fs1 : FS) (d : Bytes) (outs : List FrameOut)
    (r : XR) (rest : Bytes) (hr : r = .done ∨ r = .err)
    (h : pesPacketFrame cfg 3 cb cfg.corSkipsEmpty { fs with frame := { fs.frame with nDu := 0 } } d = (fs1, outs, xrPR r, rest)) :
    payloadRes cb cfg sk la fs d = payFin cfg la fs1 outs r := by
  unfold payloadRes
  rw [h]
  rcases hr with rfl | rfl <;> rfl

theorem extract_done_or_err (f : Frame) (d : Bytes) (f2 : Frame) (r : XR) (rest : Bytes) (hd : 2 ≤ d.length)
    (hx : extract cfg f d = (f2, r, rest)) (hnn : r ≠ .newFrame) : r = .done ∨ r = .err := by
  have hnf := extract_no_fault (cfg := cfg) f d hd
  rw [hx] at hnf
  cases r with
  | done => exact Or.inl rfl
  | err => exact Or.inr rfl
  | newFrame => exact absurd rfl hnn
  | fault e => exact absurd rfl (hnf e)

theorem pesErrFs_lines (cfg : SrcCfg) (fs : FS) : (pesErrFs cfg fs).frame = fs.frame := by
  unfold pesErrFs; split <;> rfl

theorem payFin_lines (cfg : SrcCfg) (la : Nat) (fs1 : FS) (outs : List FrameOut) (r : XR)
    (h : fs1.frame.lines.length ≤ 64) : (payFin cfg la fs1 outs r).2.1.frame.lines.length ≤ 64 := by
  cases r <;> simp only [payFin, pesErrFs_lines] <;> exact h

theorem payFin_shape (cfg : SrcCfg) (la : Nat) (fs1 : FS) (outs : List FrameOut) (r : XR) :
    payFin cfg la fs1 outs r = ((la, 48), (payFin cfg la fs1 outs r).2.1, outs, none) := by
  cases r <;> rfl

/-- **the call after a hand-over.**  `extract_data_units` said -1 at `rest` of the payload `d`.  A later
`demux_pes_packet` iteration on the same payload that starts at a frame start (`new_frame` set, any
stale frame) delivers no frame with lines and ends in the state in which the callback variant ends
when it continues at `rest` with a reset frame - up to what a frame start forgets. -/
theorem payload_restart (cfg : SrcCfg) (hse : cfg.corSkipsEmpty = true) (hpd : cfg.pesDiscards = true) (la : Nat)
    (f f1 : Frame) (d rest : Bytes) (hn : f.nDu = 0) (hx : extract cfg f d = (f1, .newFrame, rest)) :
    ∃ f2 r2 rest2, extract cfg {} rest = (f2, r2, rest2) ∧ (r2 = .done ∨ r2 = .err) ∧
      ∀ (fsH : FS) (sk2 : Nat) (cb : Bool), fsH.newFrame = true →
        ∃ fs'' outs'', payloadRes cb cfg sk2 la fsH d = ((la, 48), fs'', outs'', none) ∧
          outs''.filter nonEmpty = [] ∧
          FsForget 48 fs'' (payFin cfg la (fsAt fsH.packetPts f2) [] r2).2.1 ∧
          fs''.frame.lines.length ≤ 64 := by
  have haft := extract_after_newFrame f {} f1 d rest ⟨rfl, rfl, rfl, rfl⟩ hx
  rcases hx2 : extract cfg {} rest with ⟨f2, r2, rest2⟩
  rw [hx2] at haft
  have hr2 := extract_done_or_err {} rest f2 r2 rest2 haft.1 hx2 haft.2
  have hl2 : f2.lines.length ≤ 64 := by
    have := extract_lines (cfg := cfg) {} rest (Nat.zero_le _); rw [hx2] at this; exact this
  refine ⟨f2, r2, rest2, rfl, hr2, ?_⟩
  intro fsH sk2 cb hnew
  have hnew0 : ({ fsH with frame := { fsH.frame with nDu := 0 } } : FS).newFrame = true := hnew
  obtain ⟨x, hc | hc | ⟨f3, rest3, hc1, hc2⟩⟩ := extract_restart f d f1 rest hn hx
  · -- -1 again at `rest`, no lines: one more round from `rest` with a reset frame
    have hx' : extract cfg (fsStart { fsH with frame := { fsH.frame with nDu := 0 } }).frame d = (frX x, .newFrame, rest) := by
      rw [fsStart_new _ hnew0]; exact hc
    have hp := pesPacketFrame_nf 2 cb cfg.corSkipsEmpty _ d (frX x) rest hx'
    have hp2 := pesPacketFrame_new 1 cb cfg.corSkipsEmpty
      { fsStart { fsH with frame := { fsH.frame with nDu := 0 } } with frame := frX x, newFrame := true } rest f2 r2 rest2
      rfl hx2 haft.2
    rw [hp2] at hp
    have hpp : ({ fsStart { fsH with frame := { fsH.frame with nDu := 0 } } with frame := frX x, newFrame := true } : FS).packetPts
        = fsH.packetPts := by rw [fsStart_new _ hnew0]; rfl
    rw [hpp] at hp
    cases cb with
    | false =>
      have hcond : cfg.corSkipsEmpty = true ∧ (frX x).lines.isEmpty = true := ⟨hse, rfl⟩
      simp only [Bool.not_false, if_true] at hp
      rw [if_pos hcond] at hp
      have := payloadRes_fin false cfg sk2 la fsH _ d [] r2 rest2 hr2 hp
      refine ⟨_, [], ?_, rfl, Or.inl rfl, payFin_lines cfg la _ [] r2 hl2⟩
      rw [this]; exact payFin_shape cfg la _ [] r2
    | true =>
      simp only [Bool.not_true, Bool.false_eq_true, if_false] at hp
      generalize (fsStart { fsH with frame := { fsH.frame with nDu := 0 } }).framePts = q at hp
      have := payloadRes_fin true cfg sk2 la fsH _ d _ r2 rest2 hr2 hp
      refine ⟨(payFin cfg la (fsAt fsH.packetPts f2) [] r2).2.1, [{ pts := q, lines := (frX x).lines }], ?_, ?_,
        Or.inl rfl, payFin_lines cfg la _ [] r2 hl2⟩
      · rw [this]; cases r2 <;> rfl
      · simp [nonEmpty, frX]
  · -- the same as continuing at `rest`
    rw [hx2] at hc
    have hp := pesPacketFrame_new 2 cb cfg.corSkipsEmpty { fsH with frame := { fsH.frame with nDu := 0 } } d f2 r2 rest2
      hnew0 hc haft.2
    have := payloadRes_fin cb cfg sk2 la fsH _ d [] r2 rest2 hr2 hp
    refine ⟨_, [], ?_, rfl, Or.inl rfl, payFin_lines cfg la _ [] r2 hl2⟩
    rw [this]; exact payFin_shape cfg la _ [] r2
  · -- the unit at `rest` fails in both: the frames differ in `last_data_unit_id`, the error discards both
    rw [hx2] at hc1
    simp only [Prod.mk.injEq] at hc1
    obtain ⟨rfl, rfl, rfl⟩ := hc1
    have hp := pesPacketFrame_new 2 cb cfg.corSkipsEmpty { fsH with frame := { fsH.frame with nDu := 0 } } d
      { f2 with lastDuId := x } .err rest2 hnew0 hc2 (by simp)
    have := payloadRes_fin cb cfg sk2 la fsH _ d [] .err rest2 (Or.inr rfl) hp
    have hne : ∀ g : FS, (pesErrFs cfg g).newFrame = true := by
      intro g; unfold pesErrFs; rw [if_pos hpd]
    refine ⟨pesErrFs cfg (fsAt fsH.packetPts { f2 with lastDuId := x }), [], ?_, rfl,
      Or.inr ⟨hne _, hne _, fun h => absurd h (Nat.lt_irrefl 48)⟩, ?_⟩
    · rw [this]; rfl
    · show (pesErrFs cfg _).frame.lines.length ≤ 64
      rw [pesErrFs_lines]; exact hl2

/-- **one payload, without and with a callback** (repaired source).  Either both variants do the same
except that the callback variant also delivers a frame without lines; or the variant without callback
stops with `VBI_ERR_CALLBACK` holding the frame the callback variant delivers, and any later
iteration on the same payload from a frame start ends like the callback variant did. -/
theorem payload_cor (cfg : SrcCfg) (hse : cfg.corSkipsEmpty = true) (hpd : cfg.pesDiscards = true)
    (sk la : Nat) (fs : FS) (d : Bytes) (hd : 2 ≤ d.length) (hL : fs.frame.lines.length ≤ 64) :
    (∃ fs' outs, payloadRes true cfg sk la fs d = ((la, 48), fs', outs, none) ∧
        payloadRes false cfg sk la fs d = ((la, 48), fs', [], none) ∧
        outs.filter nonEmpty = [] ∧ fs'.frame.lines.length ≤ 64) ∨
    (∃ fs1 fs', payloadRes false cfg sk la fs d = ((sk, la), fs1, [], some .callback) ∧
        fs1.newFrame = true ∧ fs1.frame.lines ≠ [] ∧ fs1.frame.lines.length ≤ 64 ∧ fs'.frame.lines.length ≤ 64 ∧
        payloadRes true cfg sk la fs d = ((la, 48), fs', [{ pts := fs1.framePts, lines := fs1.frame.lines }], none) ∧
        ∀ (fsH : FS) (sk2 : Nat) (cb : Bool), fsH.newFrame = true → fsH.packetPts = fs1.packetPts →
          ∃ fs'' outs'', payloadRes cb cfg sk2 la fsH d = ((la, 48), fs'', outs'', none) ∧
            outs''.filter nonEmpty = [] ∧ FsForget 48 fs'' fs' ∧ fs''.frame.lines.length ≤ 64) := by
  rcases hx : extract cfg (fsStart { fs with frame := { fs.frame with nDu := 0 } }).frame d with ⟨f, r, rest⟩
  have hlf : f.lines.length ≤ 64 := by
    have := extract_lines (cfg := cfg) (fsStart { fs with frame := { fs.frame with nDu := 0 } }).frame d (fsStart_lines _ hL)
    rw [hx] at this; exact this
  by_cases hr : r = .newFrame
  · subst hr
    obtain ⟨f2, r2, rest2, hx2, hr2, hH⟩ := payload_restart cfg hse hpd la _ f d rest (fsStart_ndu fs) hx
    have hr2n : r2 ≠ .newFrame := by rcases hr2 with rfl | rfl <;> simp
    have hnf := fun cb => pesPacketFrame_nf 2 cb cfg.corSkipsEmpty _ d f rest hx
    have hnew := fun cb => pesPacketFrame_new 1 cb cfg.corSkipsEmpty
      { fsStart { fs with frame := { fs.frame with nDu := 0 } } with frame := f, newFrame := true } rest f2 r2 rest2
      rfl hx2 hr2n
    generalize hfs2 : ({ fsStart { fs with frame := { fs.frame with nDu := 0 } } with frame := f, newFrame := true } : FS)
      = fs2 at hnf hnew
    have hfs2n : fs2.newFrame = true := by rw [← hfs2]
    have hfs2f : fs2.frame = f := by rw [← hfs2]
    have hfs2p : fs2.framePts = (fsStart { fs with frame := { fs.frame with nDu := 0 } }).framePts := by rw [← hfs2]
    have ht := hnf true
    rw [hnew true] at ht
    simp only [Bool.not_true, Bool.false_eq_true, if_false] at ht
    have h1 := payloadRes_fin true cfg sk la fs _ d _ r2 rest2 hr2 ht
    have hf := hnf false
    simp only [Bool.not_false, if_true] at hf
    by_cases hemp : f.lines.isEmpty = true
    · left
      rw [if_pos ⟨hse, hemp⟩, hnew false] at hf
      have h2 := payloadRes_fin false cfg sk la fs _ d _ r2 rest2 hr2 hf
      refine ⟨(payFin cfg la (fsAt fs2.packetPts f2) [] r2).2.1,
        [{ pts := (fsStart { fs with frame := { fs.frame with nDu := 0 } }).framePts, lines := f.lines }],
        ?_, ?_, ?_, payFin_lines cfg la _ [] r2 ?_⟩
      · rw [h1]; rcases hr2 with rfl | rfl <;> rfl
      · rw [h2]; exact payFin_shape cfg la _ [] r2
      · simp [nonEmpty, hemp]
      · have := extract_lines (cfg := cfg) {} rest (Nat.zero_le _); rw [hx2] at this; exact this
    · right
      rw [if_neg (fun h => hemp h.2)] at hf
      have h2 : payloadRes false cfg sk la fs d = ((sk, la), fs2, [], some .callback) := by
        unfold payloadRes; rw [hf]
      have hne : fs2.frame.lines ≠ [] := by
        rw [hfs2f]; intro h; rw [h] at hemp; exact hemp rfl
      have hl2 : f2.lines.length ≤ 64 := by
        have := extract_lines (cfg := cfg) {} rest (Nat.zero_le _); rw [hx2] at this; exact this
      refine ⟨fs2, (payFin cfg la (fsAt fs2.packetPts f2) [] r2).2.1, h2, hfs2n, hne, by rw [hfs2f]; exact hlf,
        payFin_lines cfg la _ [] r2 hl2, ?_, ?_⟩
      · rw [h1, hfs2p, hfs2f]; rcases hr2 with rfl | rfl <;> rfl
      · intro fsH sk2 cb hn hp
        obtain ⟨fs'', outs'', e1, e2, e3, e4⟩ := hH fsH sk2 cb hn
        rw [hp] at e3
        exact ⟨fs'', outs'', e1, e2, e3, e4⟩
  · left
    have hr2 := extract_done_or_err _ d f r rest hd hx hr
    have hp := fun cb => pesPacketFrame_round 2 cb cfg.corSkipsEmpty _ d f r rest hx hr
    have h1 := payloadRes_fin true cfg sk la fs _ d [] r rest hr2 (hp true)
    have h2 := payloadRes_fin false cfg sk la fs _ d [] r rest hr2 (hp false)
    refine ⟨(payFin cfg la { fsStart { fs with frame := { fs.frame with nDu := 0 } } with frame := f } [] r).2.1, [],
      ?_, ?_, rfl, payFin_lines cfg la _ [] r hlf⟩
    · rw [h1]; exact payFin_shape cfg la _ [] r
    · rw [h2]; exact payFin_shape cfg la _ [] r

/-- an iteration on a payload that starts at a frame start never stops with `VBI_ERR_CALLBACK`
(the call after a hand-over always gets past the packet it was interrupted in) -/
theorem payload_new_no_callback (cfg : SrcCfg) (hse : cfg.corSkipsEmpty = true) (sk la : Nat) (fs : FS) (d : Bytes)
    (hd : 2 ≤ d.length) (hn : fs.newFrame = true) : (payloadRes false cfg sk la fs d).2.2.2 = none := by
  have hn0 : ({ fs with frame := { fs.frame with nDu := 0 } } : FS).newFrame = true := hn
  rcases hx : extract cfg {} d with ⟨f, r, rest⟩
  by_cases hr : r = .newFrame
  · subst hr
    have hl : f.lines = [] := extract_newFrame_lines {} d f rest rfl hx
    have haft := extract_after_newFrame {} {} f d rest ⟨rfl, rfl, rfl, rfl⟩ hx
    rcases hx2 : extract cfg {} rest with ⟨f2, r2, rest2⟩
    rw [hx2] at haft
    have hr2 := extract_done_or_err {} rest f2 r2 rest2 haft.1 hx2 haft.2
    have hx' : extract cfg (fsStart { fs with frame := { fs.frame with nDu := 0 } }).frame d = (f, .newFrame, rest) := by
      rw [fsStart_new _ hn0]; exact hx
    have hp := pesPacketFrame_nf 2 false cfg.corSkipsEmpty _ d f rest hx'
    have hp2 := pesPacketFrame_new 1 false cfg.corSkipsEmpty
      { fsStart { fs with frame := { fs.frame with nDu := 0 } } with frame := f, newFrame := true } rest f2 r2 rest2
      rfl hx2 haft.2
    simp only [Bool.not_false, if_true] at hp
    rw [if_pos ⟨hse, by rw [hl]; rfl⟩, hp2] at hp
    rw [payloadRes_fin false cfg sk la fs _ d [] r2 rest2 hr2 hp, payFin_shape]
  · have hr2 := extract_done_or_err {} d f r rest hd hx hr
    have hp := pesPacketFrame_new 2 false cfg.corSkipsEmpty _ d f r rest hn0 hx hr
    rw [payloadRes_fin false cfg sk la fs _ d [] r rest hr2 hp, payFin_shape]

end Zvbi.Demux
