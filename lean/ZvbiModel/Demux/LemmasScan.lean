import ZvbiModel.Demux.LemmasSpec
/-!
# The start code scan over a window equals position-by-position micro steps  (helper lemmas for C07)
-/
namespace Zvbi.Demux

variable {cfg : SrcCfg}

/-- header evaluation once a VBI start code was found at `p`; `h = p[0 .. 46)` -/
def foundRes (p : Nat) (fs : FS) (h : Bytes) : (Nat × Nat) × FS :=
  let packetLength := (h.getD 4 0 % 256) * 256 + h.getD 5 0 % 256
  if packetLength < 178 then ((p + 6 + packetLength, 48), fs)
  else match validHeader fs h with
    | none => ((p + 6 + packetLength, 48), fs)
    | some fs' => ((p + 9 + 36 + 1, packetLength - 3 - 36 - 1), fs')

/-- what `pesIter` makes of the result of the inner scan loop -/
def scanFinish (sk : Nat) (fs : FS) (win : Bytes) : ScanR → (Nat × Nat) × FS × List FrameOut × Option Stop
  | .fault e => ((sk, 48), fs, [], some (.fault e))
  | .notFound p => ((p, 48), fs, [], none)
  | .foreign p =>
    match win.drop (p + 4) with
    | l1 :: l2 :: _ => ((p + 6 + (l1 * 256 + l2), 48), fs, [], none)
    | _ => ((sk, 48), fs, [], some (.fault (.oob "pes_foreign_len")))
  | .found p =>
    let h := (win.drop p).take 46
    if h.length < 46 then ((sk, 48), fs, [], some (.fault (.oob "pes_header")))
    else ((foundRes p fs h).1, (foundRes p fs h).2, [], none)

theorem pesIter_scan (cb : Bool) (sk : Nat) (fs : FS) (win : Bytes) (h : 48 ≤ win.length) :
    pesIter cb cfg sk 48 fs win = scanFinish sk fs win (scanLoop (win.length + 1) win (win.length - 48) 0) := by
  unfold pesIter
  simp only [PES_HEADER_LOOKAHEAD, Nat.lt_irrefl, gt_iff_lt, if_false]
  rw [if_neg (by omega)]
  cases scanLoop (win.length + 1) win (win.length - 48) 0 with
  | fault e => rfl
  | notFound p => rfl
  | foreign p =>
    simp only [scanFinish]
    rcases win.drop (p + 4) with _ | ⟨l1, _ | ⟨l2, t⟩⟩ <;> rfl
  | found p =>
    simp only [scanFinish, foundRes]
    by_cases h46 : ((win.drop p).take 46).length < 46
    · rw [if_pos h46, if_pos h46]
    · rw [if_neg h46, if_neg h46]
      by_cases hp : (((win.drop p).take 46).getD 4 0 % 256) * 256 + ((win.drop p).take 46).getD 5 0 % 256 < 178
      · rw [if_pos hp, if_pos hp]
      · rw [if_neg hp, if_neg hp]
        cases validHeader fs ((win.drop p).take 46) <;> rfl

theorem foundRes_shift (p : Nat) (fs : FS) (h : Bytes) :
    foundRes p fs h = ((p + (foundRes 0 fs h).1.1, (foundRes 0 fs h).1.2), (foundRes 0 fs h).2) := by
  unfold foundRes
  simp only []
  generalize (h.getD 4 0 % 256) * 256 + h.getD 5 0 % 256 = pl
  split
  · simp; omega
  · split
    · simp; omega
    · simp

theorem foundRes_bounds (p : Nat) (fs : FS) (h : Bytes) :
    p + 6 ≤ (foundRes p fs h).1.1 ∧ 48 ≤ (foundRes p fs h).1.2 ∧ (foundRes p fs h).1.2 ≤ 65495 := by
  unfold foundRes
  simp only []
  have h1 : h.getD 4 0 % 256 < 256 := Nat.mod_lt _ (by decide)
  have h2 : h.getD 5 0 % 256 < 256 := Nat.mod_lt _ (by decide)
  generalize h.getD 4 0 % 256 = x at h1
  generalize h.getD 5 0 % 256 = y at h2
  split
  · refine ⟨?_, ?_, ?_⟩ <;> simp only [] <;> omega
  · split
    · refine ⟨?_, ?_, ?_⟩ <;> simp only [] <;> omega
    · refine ⟨?_, ?_, ?_⟩ <;> simp only [] <;> omega

theorem scanPos_adv (a b c d n : Nat) (h : scanPos a b c d = .adv n) : 1 ≤ n := by
  unfold scanPos at h
  split at h
  · cases h; decide
  · split at h
    · cases h; decide
    · split at h
      · cases h
      · split at h
        · cases h; decide
        · cases h

/-- micro step on a 48 byte window in scan mode -/
def scanStepRes (fs : FS) (a b c d : Nat) (r : Bytes) : (Nat × Nat) × FS × List FrameOut × Option Stop :=
  match scanPos a b c d with
  | .adv n => ((n, 48), fs, [], none)
  | .found => ((foundRes 0 fs ((a :: b :: c :: d :: r).take 46)).1, (foundRes 0 fs ((a :: b :: c :: d :: r).take 46)).2, [], none)
  | .foreign =>
    match r with
    | l1 :: l2 :: _ => ((0 + 6 + (l1 * 256 + l2), 48), fs, [], none)
    | _ => ((0, 48), fs, [], some (.fault (.oob "pes_foreign_len")))

theorem micro_scan48 (fs : FS) (a b c d : Nat) (r : Bytes) (hr : r.length = 44) :
    micro cfg { skip := 0, lookahead := 48, fs := fs } (a :: b :: c :: d :: r) = scanStepRes fs a b c d r := by
  unfold micro
  simp only []
  rw [pesIter_scan _ _ _ _ (by simp [hr])]
  have hl : (a :: b :: c :: d :: r).length = 48 := by simp [hr]
  rw [hl]
  unfold scanStepRes
  cases hsp : scanPos a b c d with
  | adv n => simp [scanLoop, hsp, scanFinish]
  | found =>
    have h46 : ¬ ((a :: b :: c :: d :: r).take 46).length < 46 := by simp [hr]
    simp only [scanLoop, List.drop_zero, hsp, scanFinish, if_neg h46]
  | foreign =>
    simp only [scanLoop, List.drop_zero, hsp, scanFinish]
    rcases r with _ | ⟨l1, _ | ⟨l2, t⟩⟩ <;> rfl

/-- the core reached from scan position `p` by the decision `dd` taken there -/
def scanCore (p : Nat) (fs : FS) (win : Bytes) : ScanD → Core
  | .adv n => { skip := p + n, lookahead := 48, fs := fs }
  | .found =>
    let r := foundRes p fs ((win.drop p).take 46)
    { skip := r.1.1, lookahead := r.1.2, fs := r.2 }
  | .foreign =>
    match win.drop (p + 4) with
    | l1 :: l2 :: _ => { skip := p + 6 + (l1 * 256 + l2), lookahead := 48, fs := fs }
    | _ => { skip := p, lookahead := 48, fs := fs }

theorem arun_scan_step (L win : Bytes) (fs : FS) (p : Nat) (hpre : win <+: L) (hp : p + 48 ≤ win.length)
    (a b c d : Nat) (rest : Bytes) (hd : win.drop p = a :: b :: c :: d :: rest) :
    arun cfg { skip := p, lookahead := 48, fs := fs } L = arun cfg (scanCore p fs win (scanPos a b c d)) L := by
  obtain ⟨t, rfl⟩ := hpre
  have hrl : rest.length = win.length - p - 4 := by
    have := congrArg List.length hd
    simp at this; omega
  -- the 48 byte window at p
  have hv : ((win ++ t).drop p).take 48 = a :: b :: c :: d :: rest.take 44 := by
    rw [List.drop_append_of_le_length (by omega), List.take_append_of_le_length (by simp; omega), hd]
    simp
  have hpL : p ≤ (win ++ t).length := by simp; omega
  have e0 := arun_skip (cfg := cfg) (win ++ t) p 0 48 fs hpL
  simp only [Nat.add_zero] at e0
  rw [e0]
  have hL48 : 48 ≤ ((win ++ t).drop p).length := by simp; omega
  have hm := micro_scan48 (cfg := cfg) fs a b c d (rest.take 44) (by simp; omega)
  rw [← hv] at hm
  -- back from the suffix to the whole stream
  have back : ∀ (sk la : Nat) (fs' : FS), arun cfg { skip := sk, lookahead := la, fs := fs' } ((win ++ t).drop p)
      = arun cfg { skip := p + sk, lookahead := la, fs := fs' } (win ++ t) := by
    intro sk la fs'; exact (arun_skip (cfg := cfg) (win ++ t) p sk la fs' hpL).symm
  unfold scanStepRes at hm
  cases hsp : scanPos a b c d with
  | adv n =>
    rw [hsp] at hm
    have hn := scanPos_adv _ _ _ _ _ hsp
    rw [arun_micro _ _ n 48 fs [] rfl hL48 (by omega) hm hn, ARes.pre_nil, back]
    rfl
  | found =>
    rw [hsp] at hm
    have h46 : (a :: b :: c :: d :: rest.take 44).take 46 = (win.drop p).take 46 := by
      rw [hd]; simp [List.take_take]
    rw [h46] at hm
    have hb := foundRes_bounds 0 fs ((win.drop p).take 46)
    rw [arun_micro _ _ (foundRes 0 fs ((win.drop p).take 46)).1.1 _ _ [] rfl hL48 (by omega) hm (by omega),
      ARes.pre_nil, back]
    simp only [scanCore]
    rw [foundRes_shift p]
  | foreign =>
    rw [hsp] at hm
    have hd4 : win.drop (p + 4) = rest := by
      rw [← List.drop_drop, hd]; rfl
    simp only [scanCore, hd4]
    rcases rest with _ | ⟨l1, _ | ⟨l2, t2⟩⟩
    · simp at hrl; omega
    · simp at hrl; omega
    · simp only [List.take_succ_cons] at hm
      rw [arun_micro _ _ (0 + 6 + (l1 * 256 + l2)) _ _ [] rfl hL48 (by omega) hm (by omega), ARes.pre_nil, back]
      simp only [Nat.zero_add, Nat.add_assoc]

theorem drop_four (l : Bytes) (p : Nat) (h : p + 4 ≤ l.length) :
    ∃ a b c d rest, l.drop p = a :: b :: c :: d :: rest := by
  have hl : (l.drop p).length = l.length - p := by simp
  rcases hd : l.drop p with _ | ⟨a, _ | ⟨b, _ | ⟨c, _ | ⟨d, rest⟩⟩⟩⟩
  all_goals first
    | exact ⟨_, _, _, _, _, rfl⟩
    | (rw [hd] at hl; simp at hl; omega)

/-- the inner scan loop over any window that is a prefix of the stream does exactly what the
stream machine does position by position; it never faults and always advances -/
theorem scanLoop_arun (L win : Bytes) (fs : FS) (sk0 : Nat) (hpre : win <+: L) (h48 : 48 ≤ win.length) :
    ∀ (fuel p : Nat), p ≤ win.length - 48 → win.length - 48 - p < fuel →
    ∃ sk la fs', scanFinish sk0 fs win (scanLoop fuel win (win.length - 48) p) = ((sk, la), fs', [], none)
      ∧ p + 1 ≤ sk ∧ 48 ≤ la ∧ la ≤ 65495
      ∧ arun cfg { skip := p, lookahead := 48, fs := fs } L = arun cfg { skip := sk, lookahead := la, fs := fs' } L := by
  intro fuel
  induction fuel with
  | zero => intro p _ h; omega
  | succ fuel ih =>
    intro p hp hf
    obtain ⟨a, b, c, d, rest, hd⟩ := drop_four win p (by omega)
    have hstep := arun_scan_step (cfg := cfg) L win fs p hpre (by omega) a b c d rest hd
    have hrl : rest.length = win.length - p - 4 := by
      have := congrArg List.length hd
      simp at this; omega
    cases hsp : scanPos a b c d with
    | found =>
      have e : scanLoop (fuel + 1) win (win.length - 48) p = .found p := by
        simp only [scanLoop, hd, hsp]
      have h46 : ¬ ((win.drop p).take 46).length < 46 := by simp; omega
      have hb := foundRes_bounds p fs ((win.drop p).take 46)
      refine ⟨(foundRes p fs ((win.drop p).take 46)).1.1, (foundRes p fs ((win.drop p).take 46)).1.2,
        (foundRes p fs ((win.drop p).take 46)).2, ?_, ?_, hb.2.1, hb.2.2, ?_⟩
      · rw [e]; simp only [scanFinish, if_neg h46]
      · omega
      · rw [hstep, hsp]; rfl
    | foreign =>
      have e : scanLoop (fuel + 1) win (win.length - 48) p = .foreign p := by
        simp only [scanLoop, hd, hsp]
      have hd4 : win.drop (p + 4) = rest := by
        rw [← List.drop_drop, hd]; rfl
      rcases rest with _ | ⟨l1, _ | ⟨l2, t2⟩⟩
      · simp at hrl; omega
      · simp at hrl; omega
      · refine ⟨p + 6 + (l1 * 256 + l2), 48, fs, ?_, by omega, by omega, by omega, ?_⟩
        · rw [e]; simp only [scanFinish, hd4]
        · rw [hstep, hsp]; simp only [scanCore, hd4]
    | adv n =>
      have hn := scanPos_adv _ _ _ _ _ hsp
      rw [hsp] at hstep
      by_cases hge : p + n ≥ win.length - 48
      · have e : scanLoop (fuel + 1) win (win.length - 48) p = .notFound (p + n) := by
          simp only [scanLoop, hd, hsp, if_pos hge]
        refine ⟨p + n, 48, fs, ?_, by omega, by omega, by omega, hstep⟩
        rw [e]; rfl
      · have e : scanLoop (fuel + 1) win (win.length - 48) p = scanLoop fuel win (win.length - 48) (p + n) := by
          simp only [scanLoop, hd, hsp, if_neg hge]
        obtain ⟨sk, la, fs', h1, h2, h3, h4, h5⟩ := ih (p + n) (by omega) (by omega)
        refine ⟨sk, la, fs', ?_, by omega, h3, h4, ?_⟩
        · rw [e]; exact h1
        · rw [hstep]; exact h5

/-! ## the skip-by-3 scan against the byte-by-byte definition -/

theorem scanPos_stop (a b c d : Nat) (rest : Bytes) (h : scanPos a b c d = .found ∨ scanPos a b c d = .foreign) :
    isStart (a :: b :: c :: d :: rest) = true := by
  unfold scanPos at h
  simp only [isStart]
  by_cases h1 : c &&& 0xFE ≠ 0
  · rw [if_pos h1] at h; simp at h
  · rw [if_neg h1] at h
    by_cases h2 : (a ||| b) ≠ 0 ∨ c ≠ 1
    · rw [if_pos h2] at h; simp at h
    · rw [if_neg h2] at h
      have hab : a ||| b = 0 := by
        by_cases hh : a ||| b = 0
        · exact hh
        · exact absurd (Or.inl hh) h2
      have hc : c = 1 := by
        by_cases hh : c = 1
        · exact hh
        · exact absurd (Or.inr hh) h2
      have ha : a = 0 := by
        have := Nat.or_eq_zero_iff.1 hab; exact this.1
      have hb : b = 0 := by
        have := Nat.or_eq_zero_iff.1 hab; exact this.2
      by_cases h3 : d = PRIVATE_STREAM_1
      · simp [ha, hb, hc, h3, PRIVATE_STREAM_1]
      · rw [if_neg h3] at h
        by_cases h4 : d < 0xBC
        · rw [if_pos h4] at h; simp at h
        · simp [ha, hb, hc]; omega

theorem scanPos_adv_noStart (a b c d n : Nat) (rest : Bytes) (h : scanPos a b c d = .adv n) :
    isStart (a :: b :: c :: d :: rest) = false ∧
    (n = 3 → isStart (b :: c :: d :: rest) = false ∧ isStart (c :: d :: rest) = false) ∧ (n = 1 ∨ n = 3) := by
  unfold scanPos at h
  by_cases h1 : c &&& 0xFE ≠ 0
  · rw [if_pos h1] at h
    have hn : n = 3 := by cases h; rfl
    have hc0 : c ≠ 0 := by intro hc; subst hc; simp at h1
    have hc1 : c ≠ 1 := by intro hc; subst hc; simp at h1
    refine ⟨by simp [isStart, hc1], fun _ => ⟨?_, ?_⟩, Or.inr hn⟩
    · rcases rest with _ | ⟨e, r⟩ <;> simp [isStart, hc0]
    · rcases rest with _ | ⟨e, _ | ⟨f, r⟩⟩ <;> simp [isStart, hc0]
  · rw [if_neg h1] at h
    by_cases h2 : (a ||| b) ≠ 0 ∨ c ≠ 1
    · rw [if_pos h2] at h
      have hn : n = 1 := by cases h; rfl
      refine ⟨?_, fun h3 => by omega, Or.inl hn⟩
      simp only [isStart]
      rcases h2 with h2 | h2
      · have : ¬ (a = 0 ∧ b = 0) := by
          intro ⟨ha, hb⟩; subst ha; subst hb; simp at h2
        simp; intro ha hb; exact absurd ⟨ha, hb⟩ this
      · simp; intro _ _ hc; exact absurd hc h2
    · rw [if_neg h2] at h
      by_cases h3 : d = PRIVATE_STREAM_1
      · rw [if_pos h3] at h; simp at h
      · rw [if_neg h3] at h
        by_cases h4 : d < 0xBC
        · rw [if_pos h4] at h
          have hn : n = 1 := by cases h; rfl
          refine ⟨?_, fun h3 => by omega, Or.inl hn⟩
          simp [isStart]; intro _ _ _; omega
        · rw [if_neg h4] at h; simp at h

/-- what the scan loop returns, stated against the byte-by-byte definition of a start code -/
def ScanFirst (win : Bytes) (p : Nat) : ScanR → Prop
  | .fault _ => False
  | .found q => p ≤ q ∧ isStart (win.drop q) = true ∧ ∀ r, p ≤ r → r < q → isStart (win.drop r) = false
  | .foreign q => p ≤ q ∧ isStart (win.drop q) = true ∧ ∀ r, p ≤ r → r < q → isStart (win.drop r) = false
  | .notFound q => p < q ∧ ∀ r, p ≤ r → r < q → isStart (win.drop r) = false

theorem scanLoop_first (win : Bytes) (scanEnd : Nat) (hse : scanEnd + 4 ≤ win.length) :
    ∀ (fuel p : Nat), p ≤ scanEnd → scanEnd - p < fuel → ScanFirst win p (scanLoop fuel win scanEnd p) := by
  intro fuel
  induction fuel with
  | zero => intro p _ h; omega
  | succ fuel ih =>
    intro p hp hf
    obtain ⟨a, b, c, d, rest, hd⟩ := drop_four win p (by omega)
    unfold scanLoop
    rw [hd]
    simp only []
    cases hsp : scanPos a b c d with
    | found =>
      simp only []
      exact ⟨Nat.le_refl _, by rw [hd]; exact scanPos_stop a b c d rest (Or.inl hsp), fun r h1 h2 => by omega⟩
    | foreign =>
      simp only []
      exact ⟨Nat.le_refl _, by rw [hd]; exact scanPos_stop a b c d rest (Or.inr hsp), fun r h1 h2 => by omega⟩
    | adv n =>
      obtain ⟨h0, h3, hn⟩ := scanPos_adv_noStart a b c d n rest hsp
      have hd1 : win.drop (p + 1) = b :: c :: d :: rest := by
        rw [← List.drop_drop, hd]; rfl
      have hd2 : win.drop (p + 2) = c :: d :: rest := by
        rw [← List.drop_drop, hd]; rfl
      have hnone : ∀ r, p ≤ r → r < p + n → isStart (win.drop r) = false := by
        intro r h1 h2
        rcases hn with hn | hn
        · have : r = p := by omega
          subst this; rw [hd]; exact h0
        · have : r = p ∨ r = p + 1 ∨ r = p + 2 := by omega
          rcases this with rfl | rfl | rfl
          · rw [hd]; exact h0
          · rw [hd1]; exact (h3 hn).1
          · rw [hd2]; exact (h3 hn).2
      simp only []
      by_cases hge : p + n ≥ scanEnd
      · rw [if_pos hge]
        exact ⟨by omega, hnone⟩
      · rw [if_neg hge]
        have hrec := ih (p + n) (by omega) (by omega)
        cases hr : scanLoop fuel win scanEnd (p + n) with
        | fault e => rw [hr] at hrec; exact hrec.elim
        | found q =>
          rw [hr] at hrec
          obtain ⟨h1, h2, h3'⟩ := hrec
          refine ⟨by omega, h2, fun r hr1 hr2 => ?_⟩
          by_cases hlt : r < p + n
          · exact hnone r hr1 hlt
          · exact h3' r (by omega) hr2
        | foreign q =>
          rw [hr] at hrec
          obtain ⟨h1, h2, h3'⟩ := hrec
          refine ⟨by omega, h2, fun r hr1 hr2 => ?_⟩
          by_cases hlt : r < p + n
          · exact hnone r hr1 hlt
          · exact h3' r (by omega) hr2
        | notFound q =>
          rw [hr] at hrec
          obtain ⟨h1, h3'⟩ := hrec
          refine ⟨by omega, fun r hr1 hr2 => ?_⟩
          by_cases hlt : r < p + n
          · exact hnone r hr1 hlt
          · exact h3' r (by omega) hr2

end Zvbi.Demux
