import ZvbiModel.Demux.LemmasIter
import ZvbiModel.Demux.LemmasWrap
/-!
# `demux_pes_packet` refines the stream machine  (helper lemmas for C07)
-/
namespace Zvbi.Demux

variable {cfg : SrcCfg}

/-- invariant of a PES demux context between calls -/
def PInv (s : St) : Prop :=
  s.pw.leftover ≤ s.pw.wb.length ∧ 48 ≤ s.pw.lookahead ∧ s.pw.lookahead ≤ 65495

theorem PInv_init : PInv St.init := by
  refine ⟨?_, ?_, ?_⟩ <;> decide

theorem pesLoop_refines : ∀ (fuel : Nat) (s : St) (buf hist : Bytes) (si : Nat),
    PInv s → si ≤ buf.length → s.pending <:+ hist ++ buf.take si →
    (s.pending ++ buf.drop si).length - s.pw.skip + 2 ≤ fuel →
    ∃ s' outs, pesLoop fuel true cfg s buf si buf.length = (s', outs, buf.length, .needMore)
      ∧ PInv s'
      ∧ arun cfg s.core (s.pending ++ buf.drop si)
          = { core := s'.core, pend := s'.pending, frames := outs, stop := none } := by
  intro fuel
  induction fuel with
  | zero => intro s buf hist si _ _ _ h; omega
  | succ fuel ih =>
    intro s buf hist si hinv hsi hsuf hfuel
    obtain ⟨hlo, hla1, hla2⟩ := hinv
    have hspec := wrapAround_spec PES_BUF_SIZE s.pw buf hist si buf.length hlo hsi (Nat.le_refl _)
      (by simp only [PES_BUF_SIZE]; omega) (by omega) hsuf
    unfold pesLoop
    cases hwr : wrapAround PES_BUF_SIZE s.pw buf si buf.length with
    | fault e => rw [hwr] at hspec; exact hspec.elim
    | more w' si' =>
      rw [hwr] at hspec
      have hm : WrapMore s.pw buf hist si w' si' := hspec
      refine ⟨{ s with pw := w' }, [], ?_, ⟨hm.lo, by rw [hm.la]; exact hla1, by rw [hm.la]; exact hla2⟩, ?_⟩
      · simp only [hm.si_eq]
      · have hsh : s.core.skip ≥ (s.pending ++ buf.drop si).length ∨
            ((s.pending ++ buf.drop si).drop s.core.skip).length < s.core.lookahead := by
          rcases hm.short with h | h
          · left; have := hm.skip; simp only [St.core, St.pending]; omega
          · right; rw [hm.pend] at h; exact h
        rw [arun_short _ _ hsh]
        simp only [St.core, St.pending, hm.skip, hm.la, hm.pend]
    | win w' si' win =>
      rw [hwr] at hspec
      have hw : WrapWin s.pw buf hist si w' si' win := hspec
      simp only []
      have hL1 : w'.pend ++ buf.drop si' = (s.pending ++ buf.drop si).drop s.pw.skip := hw.rest
      have hpre : win <+: w'.pend ++ buf.drop si' := by rw [hL1]; exact hw.pre
      obtain ⟨sk', la', fs', outs1, hit, hsk, hl1, hl2, har⟩ :=
        pesIter_arun (w'.pend ++ buf.drop si') win s.fs w'.skip w'.lookahead hpre
          (by rw [hw.la]; exact hla1) (by rw [hw.la]; exact hla2) (by rw [hw.la]; exact hw.len)
      rw [hit]
      simp only []
      -- the state the loop continues with
      have hpend1 : (St.mk { w' with skip := sk', lookahead := la' } fs').pending = w'.pend := rfl
      have hlen1 : (w'.pend ++ buf.drop si').length = (s.pending ++ buf.drop si).length - s.pw.skip := by
        rw [hL1, List.length_drop]
      have hwinlen : win.length ≤ (w'.pend ++ buf.drop si').length := hpre.length_le
      have hwl := hw.len
      obtain ⟨s2, outs2, hloop, hinv2, har2⟩ :=
        ih (St.mk { w' with skip := sk', lookahead := la' } fs') buf hist si'
          ⟨hw.lo, hl1, hl2⟩ hw.si_le (by rw [hpend1]; exact hw.suf)
          (by rw [hpend1, hlen1]; simp only []; omega)
      rw [hloop]
      refine ⟨s2, outs1 ++ outs2, rfl, hinv2, ?_⟩
      rw [hpend1] at har2
      have hskL := hw.skip_le
      have e0 := arun_skip (cfg := cfg) (s.pending ++ buf.drop si) s.pw.skip 0 s.pw.lookahead s.fs hskL
      simp only [Nat.add_zero] at e0
      have e1 : arun cfg s.core (s.pending ++ buf.drop si)
          = arun cfg { skip := 0, lookahead := w'.lookahead, fs := s.fs } (w'.pend ++ buf.drop si') := by
        rw [hL1, hw.la]; exact e0
      rw [e1, har]
      have e2 : arun cfg { skip := sk', lookahead := la', fs := fs' } (w'.pend ++ buf.drop si')
          = { core := s2.core, pend := s2.pending, frames := outs2, stop := none } := har2
      rw [e2]
      rfl

/-- the bytes a context still holds are not enough for another step of the stream machine -/
def Stuck (cfg : SrcCfg) (s : St) : Prop :=
  arun cfg s.core s.pending = { core := s.core, pend := s.pending, frames := [], stop := none }

/-- invariant of every reachable PES demux context -/
def Inv (cfg : SrcCfg) (s : St) : Prop := PInv s ∧ Stuck cfg s

theorem Inv_init : Inv cfg St.init := ⟨PInv_init, by simp [Stuck, St.pending, St.init, Wrap.pend, arun]⟩

theorem arun_idem (c : Core) (L : Bytes) (h : (arun cfg c L).stop = none) :
    arun cfg (arun cfg c L).core (arun cfg c L).pend
      = { core := (arun cfg c L).core, pend := (arun cfg c L).pend, frames := [], stop := none } := by
  have h1 := arun_append (cfg := cfg) L c [] h
  rw [List.append_nil] at h1
  unfold ARes.andThen at h1
  simp only [List.append_nil] at h1
  generalize arun cfg c L = r at h h1
  generalize arun cfg r.core r.pend = r2 at h1
  obtain ⟨c1, p1, f1, s1⟩ := r
  obtain ⟨c2, p2, f2, s2⟩ := r2
  simp only [ARes.mk.injEq] at h1 h
  obtain ⟨rfl, rfl, hf, rfl⟩ := h1
  have : f2 = [] := by simpa using hf
  subst this
  simp [h]

/-- one `vbi_dvb_demux_feed` call: no fault, invariant kept, and the call is the stream machine run
on `pending ++ buffer` -/
theorem pesFeed_refines (s : St) (buf : Bytes) (h : Inv cfg s) :
    (pesFeed cfg s buf).err = none ∧ Inv cfg (pesFeed cfg s buf).st ∧
    arun cfg s.core (s.pending ++ buf)
      = { core := (pesFeed cfg s buf).st.core, pend := (pesFeed cfg s buf).st.pending,
          frames := (pesFeed cfg s buf).frames, stop := none } := by
  have hpl : s.pending.length = s.pw.leftover := s.pw.pend_length h.1.1
  obtain ⟨s', outs, hloop, hinv, har⟩ := pesLoop_refines (cfg := cfg) (pesFuel s buf) s buf s.pending 0 h.1 (Nat.zero_le _)
    (by simp) (by simp only [pesFuel, List.drop_zero, List.length_append, hpl]; omega)
  rw [List.drop_zero] at har
  have hf : pesFeed cfg s buf = { st := s', frames := outs } := by
    unfold pesFeed; rw [hloop]
  rw [hf]
  refine ⟨rfl, ⟨hinv, ?_⟩, har⟩
  have hs : (arun cfg s.core (s.pending ++ buf)).stop = none := by rw [har]
  have := arun_idem (cfg := cfg) s.core (s.pending ++ buf) hs
  rw [har] at this
  exact this

/-- **feed_split_invariant** at the level of states: feeding `a` then `b` is feeding `a ++ b` -/
theorem pesFeed_split (s : St) (a b : Bytes) (h : Inv cfg s) :
    (pesFeed cfg s (a ++ b)).frames = (pesFeed cfg s a).frames ++ (pesFeed cfg (pesFeed cfg s a).st b).frames ∧
    (pesFeed cfg s (a ++ b)).st.core = (pesFeed cfg (pesFeed cfg s a).st b).st.core ∧
    (pesFeed cfg s (a ++ b)).st.pending = (pesFeed cfg (pesFeed cfg s a).st b).st.pending := by
  obtain ⟨_, hi1, h1⟩ := pesFeed_refines (cfg := cfg) s a h
  obtain ⟨_, _, h2⟩ := pesFeed_refines (cfg := cfg) (pesFeed cfg s a).st b hi1
  obtain ⟨_, _, h3⟩ := pesFeed_refines (cfg := cfg) s (a ++ b) h
  have hs : (arun cfg s.core (s.pending ++ a)).stop = none := by rw [h1]
  have happ := arun_append (cfg := cfg) (s.pending ++ a) s.core b hs
  rw [List.append_assoc, h3, h1] at happ
  unfold ARes.andThen at happ
  simp only [] at happ
  rw [h2] at happ
  simp only [ARes.mk.injEq] at happ
  exact ⟨happ.2.2.1, happ.1, happ.2.1⟩

/-- successive feed calls -/
def pesFeeds (cfg : SrcCfg) (s : St) : List Bytes → Res
  | [] => { st := s }
  | b :: bs =>
    let r := pesFeed cfg s b
    match r.err with
    | some e => { r with err := some e }
    | none => let r2 := pesFeeds cfg r.st bs; { r2 with frames := r.frames ++ r2.frames }

theorem pesFeeds_refines : ∀ (chunks : List Bytes) (s : St), Inv cfg s →
    (pesFeeds cfg s chunks).err = none ∧ Inv cfg (pesFeeds cfg s chunks).st ∧
    arun cfg s.core (s.pending ++ chunks.flatten)
      = { core := (pesFeeds cfg s chunks).st.core, pend := (pesFeeds cfg s chunks).st.pending,
          frames := (pesFeeds cfg s chunks).frames, stop := none } := by
  intro chunks
  induction chunks with
  | nil =>
    intro s h
    refine ⟨rfl, h, ?_⟩
    simp only [List.flatten_nil, List.append_nil, pesFeeds]
    exact h.2
  | cons b bs ih =>
    intro s h
    obtain ⟨he, hi1, h1⟩ := pesFeed_refines (cfg := cfg) s b h
    obtain ⟨he2, hi2, h2⟩ := ih (pesFeed cfg s b).st hi1
    have hs : (arun cfg s.core (s.pending ++ b)).stop = none := by rw [h1]
    have happ := arun_append (cfg := cfg) (s.pending ++ b) s.core bs.flatten hs
    rw [List.append_assoc, h1] at happ
    unfold ARes.andThen at happ
    simp only [] at happ
    rw [h2] at happ
    simp only [pesFeeds, he, List.flatten_cons]
    exact ⟨he2, hi2, happ⟩

end Zvbi.Demux
