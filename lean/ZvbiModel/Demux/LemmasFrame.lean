import ZvbiModel.Demux.Model
/-!
# Frame assembly never faults  (helper lemmas for C07)
-/
namespace Zvbi.Demux

variable {cfg : SrcCfg}

theorem dataUnit_no_fault (f : Frame) (d : Bytes) (id len : Nat) (h2 : 2 < d.length) (hl : len + 2 ≤ d.length) :
    ∀ f' e, dataUnit cfg f d id len ≠ .fail f' (.fault e) := by
  intro f' e
  have g2 : ∃ x, d[2]? = some x := ⟨d[2], by simp [h2]⟩
  obtain ⟨x2, hx2⟩ := g2
  unfold dataUnit
  simp only [hx2]
  repeat' split
  all_goals first
    | (intro h; cases h; done)
    | skip
  all_goals (exfalso; simp only [List.length_take, List.length_drop, List.getElem?_eq_none_iff] at *; omega)

theorem extractLoop_no_fault : ∀ (fuel : Nat) (f : Frame) (d : Bytes), d.length < fuel →
    ∀ e, (extractLoop cfg fuel f d).2.1 ≠ .fault e := by
  intro fuel
  induction fuel with
  | zero => intro f d h; omega
  | succ fuel ih =>
    intro f d h e
    unfold extractLoop
    by_cases h2 : d.length ≤ 2
    · simp [h2]
    · rw [if_neg h2]
      rcases d with _ | ⟨id, _ | ⟨len, t⟩⟩
      · simp at h2
      · simp at h2
      · simp only []
        by_cases hl : len + 2 > (id :: len :: t).length
        · rw [if_pos hl]; simp
        · rw [if_neg hl]
          have hnf := dataUnit_no_fault (cfg := cfg) f (id :: len :: t) id len (by omega) (by omega)
          have hdrop : ((id :: len :: t).drop (len + 2)).length < fuel := by
            simp only [List.length_drop]; omega
          cases hdu : dataUnit cfg f (id :: len :: t) id len with
          | skip => simp only []; exact ih _ _ hdrop e
          | store f' => simp only []; exact ih _ _ hdrop e
          | fail f' r =>
            simp only []
            intro hr
            exact hnf f' e (by rw [hdu, hr])

theorem extract_no_fault (f : Frame) (d : Bytes) (h : 2 ≤ d.length) : ∀ e, (extract cfg f d).2.1 ≠ .fault e := by
  intro e
  unfold extract
  rw [if_neg (by omega)]
  exact extractLoop_no_fault _ f d (by omega) e

/-- a frame right after `reset_frame` -/
def Fresh (f : Frame) : Prop := f.lines = [] ∧ f.lastFrameLine = 0 ∧ f.lastDuId = 0 ∧ f.lastField = 0

theorem lineAddress_fresh (f : Frame) (hf : Fresh f) (lofp : Nat) (sys : Bool) :
    ∃ f' line, lineAddress cfg f lofp sys = .ok f' line ∧ f'.nDu ≥ 1 := by
  obtain ⟨h1, h2, h3, h4⟩ := hf
  unfold lineAddress
  have hlen : ¬ (f.lines.length ≥ N_SLICED) := by simp [h1, N_SLICED]
  rw [if_neg (fun h => hlen h.2)]
  simp only [h2, h3, if_neg hlen]
  split
  · rw [if_neg (by omega)]; exact ⟨_, _, rfl, by simp⟩
  · simp

theorem lineAddress_ndu (f : Frame) (lofp : Nat) (sys : Bool) (h : f.nDu ≥ 1) :
    lineAddress cfg f lofp sys ≠ .newFrame ∧ ∀ f' line, lineAddress cfg f lofp sys = .ok f' line → f'.nDu ≥ 1 := by
  unfold lineAddress
  have hn : ¬ f.nDu = 0 := by omega
  have hp : f.nDu > 0 := by omega
  constructor
  · repeat' split
    all_goals first
      | (intro h; cases h; done)
      | (simp_all; done)
  · intro f' line
    repeat' split
    all_goals first
      | (intro h; cases h; done)
      | (intro h; cases h; simp; done)
      | (simp_all; done)

theorem dataUnit_ndu_nf (f : Frame) (d : Bytes) (id len : Nat) (h : f.nDu ≥ 1) :
    ∀ f', dataUnit cfg f d id len ≠ .fail f' .newFrame := by
  intro f'
  have hla := fun lofp sys => (lineAddress_ndu (cfg := cfg) f lofp sys h).1
  unfold dataUnit
  simp only []
  repeat' split
  all_goals first
    | (intro h; cases h; done)
    | (exfalso; rename_i heq; exact hla _ _ heq)

theorem dataUnit_ndu_store (f : Frame) (d : Bytes) (id len : Nat) (h : f.nDu ≥ 1) :
    ∀ f', dataUnit cfg f d id len = .store f' → f'.nDu ≥ 1 := by
  intro f'
  have hla := fun lofp sys => (lineAddress_ndu (cfg := cfg) f lofp sys h).2
  unfold dataUnit
  simp only []
  repeat' split
  all_goals first
    | (intro h; cases h; done)
    | (intro h; cases h; simp only [pushLine]; exact hla _ _ _ _ (by assumption))

theorem extractLoop_ndu : ∀ (fuel : Nat) (f : Frame) (d : Bytes), f.nDu ≥ 1 →
    (extractLoop cfg fuel f d).2.1 ≠ .newFrame := by
  intro fuel
  induction fuel with
  | zero => intro f d _; simp [extractLoop]
  | succ fuel ih =>
    intro f d h
    unfold extractLoop
    by_cases h2 : d.length ≤ 2
    · simp [h2]
    · rw [if_neg h2]
      rcases d with _ | ⟨id, _ | ⟨len, t⟩⟩
      · simp
      · simp
      · simp only []
        by_cases hl : len + 2 > (id :: len :: t).length
        · rw [if_pos hl]; simp
        · rw [if_neg hl]
          cases hdu : dataUnit cfg f (id :: len :: t) id len with
          | skip => simp only []; exact ih _ _ (by simpa using h)
          | store f' =>
            simp only []
            exact ih _ _ (by simpa using dataUnit_ndu_store f _ id len h f' hdu)
          | fail f' r =>
            simp only []
            intro hr
            exact dataUnit_ndu_nf f _ id len h f' (by rw [hdu, hr])

/-- when the loop stops with -1, `*src` points at a unit whose `line_address` said -1 -/
theorem extractLoop_newFrame_rest : ∀ (fuel : Nat) (f : Frame) (d : Bytes) (f1 : Frame) (rest : Bytes),
    extractLoop cfg fuel f d = (f1, .newFrame, rest) →
    ∃ fa id len t, rest = id :: len :: t ∧ 2 < rest.length ∧ len + 2 ≤ rest.length ∧
      dataUnit cfg fa rest id len = .fail f1 .newFrame := by
  intro fuel
  induction fuel with
  | zero => intro f d f1 rest h; simp [extractLoop] at h
  | succ fuel ih =>
    intro f d f1 rest h
    unfold extractLoop at h
    by_cases h2 : d.length ≤ 2
    · simp [h2] at h
    · rw [if_neg h2] at h
      rcases d with _ | ⟨id, _ | ⟨len, t⟩⟩
      · simp at h
      · simp at h
      · simp only [] at h
        by_cases hl : len + 2 > (id :: len :: t).length
        · rw [if_pos hl] at h; simp at h
        · rw [if_neg hl] at h
          cases hdu : dataUnit cfg f (id :: len :: t) id len with
          | skip => rw [hdu] at h; exact ih _ _ _ _ h
          | store f' => rw [hdu] at h; exact ih _ _ _ _ h
          | fail f' r =>
            rw [hdu] at h
            simp only [Prod.mk.injEq] at h
            obtain ⟨rfl, rfl, rfl⟩ := h
            exact ⟨f, id, len, t, rfl, by omega, by omega, hdu⟩

/-- what a data unit may do to a freshly reset frame when the same unit said -1 to another frame -/
def GoodDU : DU → Prop
  | .store f' => f'.nDu ≥ 1
  | .fail _ r => r ≠ .newFrame
  | .skip => False

set_option maxHeartbeats 800000 in
theorem dataUnit_fresh (f f0 f1 : Frame) (d : Bytes) (id len : Nat) (hf : Fresh f0)
    (h : dataUnit cfg f d id len = .fail f1 .newFrame) : GoodDU (dataUnit cfg f0 d id len) := by
  obtain ⟨ft, lt, hlt, hnt⟩ := lineAddress_fresh (cfg := cfg) f0 hf (d.getD 2 0) true
  obtain ⟨ff, lf, hlf, hnf⟩ := lineAddress_fresh (cfg := cfg) f0 hf (d.getD 2 0) false
  unfold dataUnit at h ⊢
  simp only [] at h ⊢
  cases hd2 : d[2]? with
  | none =>
    simp only [hd2] at h ⊢
    repeat' split
    all_goals first
      | (show _ ≠ _; simp; done)
      | (exfalso; simp_all; done)
  | some x2 =>
    have hx : d.getD 2 0 = x2 := by simp [List.getD, hd2]
    rw [hx] at hlt hlf
    simp only [hd2, hlt, hlf] at h ⊢
    repeat' split
    all_goals first
      | (show _ ≠ _; simp; done)
      | (show _ ≥ 1; simpa [pushLine] using hnt)
      | (show _ ≥ 1; simpa [pushLine] using hnf)
      | (exfalso; simp_all; done)

theorem fresh_reset (f : Frame) : Fresh (resetFrame f) := ⟨rfl, rfl, rfl, rfl⟩

theorem extract_after_newFrame (f f0 f1 : Frame) (d rest : Bytes) (hf : Fresh f0)
    (h : extract cfg f d = (f1, .newFrame, rest)) :
    2 ≤ rest.length ∧ (extract cfg f0 rest).2.1 ≠ .newFrame := by
  unfold extract at h
  by_cases hd : d.length < 2
  · rw [if_pos hd] at h; simp at h
  · rw [if_neg hd] at h
    obtain ⟨fa, id, len, t, hrest, h2, hl, hdu⟩ := extractLoop_newFrame_rest _ _ _ _ _ h
    refine ⟨by omega, ?_⟩
    have hg := dataUnit_fresh fa f0 f1 rest id len hf hdu
    unfold extract
    rw [if_neg (by omega)]
    unfold extractLoop
    rw [if_neg (by omega)]
    subst hrest
    simp only []
    rw [if_neg (by omega)]
    cases hdu0 : dataUnit cfg f0 (id :: len :: t) id len with
    | skip => rw [hdu0] at hg; exact hg.elim
    | store f' =>
      rw [hdu0] at hg
      simp only []
      exact extractLoop_ndu _ _ _ (by simpa [GoodDU] using hg)
    | fail f' r =>
      rw [hdu0] at hg
      simpa [GoodDU] using hg

/-- `demux_pes_packet_frame` with a callback: at most two rounds, never a fault, result 0 or an error -/
theorem pesPacketFrame_ok (se : Bool) (fs : FS) (d : Bytes) (hd : 2 ≤ d.length) :
    (pesPacketFrame cfg 3 true se fs d).2.2.1 = .done ∨ (pesPacketFrame cfg 3 true se fs d).2.2.1 = .err := by
  unfold pesPacketFrame
  simp only []
  generalize hfs1 : (if fs.newFrame = true then
      ({ fs with frame := resetFrame fs.frame, framePts := fs.packetPts, newFrame := false } : FS) else fs) = fs1
  have hnf := extract_no_fault (cfg := cfg) fs1.frame d hd
  rcases hx : extract cfg fs1.frame d with ⟨f, r, rest⟩
  rw [hx] at hnf
  cases r with
  | done => simp
  | err => simp
  | fault e => exact absurd rfl (hnf e)
  | newFrame =>
    simp only [Bool.not_true, Bool.false_eq_true, if_false]
    have h2 := extract_after_newFrame fs1.frame (resetFrame f) f d rest (fresh_reset f) hx
    unfold pesPacketFrame
    simp only [if_true]
    have hnf2 := extract_no_fault (cfg := cfg) (resetFrame f) rest h2.1
    rcases hx2 : extract cfg (resetFrame f) rest with ⟨f2, r2, rest2⟩
    rw [hx2] at hnf2
    have h3 := h2.2
    rw [hx2] at h3
    cases r2 with
    | done => simp
    | err => simp
    | fault e => exact absurd rfl (hnf2 e)
    | newFrame => exact absurd rfl h3

end Zvbi.Demux
