import ZvbiModel.Demux.CorWrap
/-!
# `demux_pes_packet` without a callback refines the stream machine up to the next frame with lines
(the second refinement; helper lemmas for C07 `cor_equals_feed`)
-/
namespace Zvbi.Demux

variable {cfg : SrcCfg}

/-- `dx->sliced[64]` holds the lines of the frame -/
def LinesOK (s : St) : Prop := s.fs.frame.lines.length ≤ 64

/-- `demux_pes_packet` (callback == NULL) returned 0: the buffer is consumed, and the stream machine run on
the same bytes ends in the same state having delivered only frames without lines -/
structure CorA (cfg : SrcCfg) (s : St) (L : Bytes) (s' : St) : Prop where
  inv : PInv s'
  j : JInv s'
  lines : LinesOK s'
  core : (arun cfg s.core L).core = s'.core
  pend : (arun cfg s.core L).pend = s'.pending
  stop : (arun cfg s.core L).stop = none
  quiet : (arun cfg s.core L).frames.filter nonEmpty = []

/-- `demux_pes_packet` (callback == NULL) returned `VBI_ERR_CALLBACK`: the context sits at a payload window
holding a frame with lines; the stream machine delivers that frame next and then goes on like the
stream machine restarted at this window from a frame start -/
structure CorB (cfg : SrcCfg) (s : St) (buf hist L : Bytes) (s' : St) (si' : Nat) : Prop where
  si_le : si' ≤ buf.length
  inv : PInv s'
  j : JInv s'
  suf : s'.pending <:+ hist ++ buf.take si'
  skip0 : s'.pw.skip = 0
  la : s'.pw.lookahead > 48
  nf : s'.fs.newFrame = true
  ne : s'.fs.frame.lines ≠ []
  le64 : s'.fs.frame.lines.length ≤ 64
  win : s'.pw.lookahead ≤ (s'.pending ++ buf.drop si').length
  /-- the window ends where the first window of the call ended, or later -/
  meas : (s'.pending ++ buf.drop si').length + s.pw.skip + s.pw.lookahead ≤ L.length + s'.pw.lookahead
  /-- a call that starts at a frame start gets past its first payload window -/
  meas2 : s.fs.newFrame = true → s.pw.lookahead > 48 →
    (s'.pending ++ buf.drop si').length + s.pw.skip + s.pw.lookahead < L.length + s'.pw.lookahead
  frames : ∀ fsH : FS, fsH.newFrame = true → fsH.packetPts = s'.fs.packetPts →
    (arun cfg s.core L).frames.filter nonEmpty =
      { pts := s'.fs.framePts, lines := s'.fs.frame.lines } ::
        (arun cfg { skip := 0, lookahead := s'.pw.lookahead, fs := fsH } (s'.pending ++ buf.drop si')).frames.filter nonEmpty
  last : (s'.pending ++ buf.drop si').length = s'.pw.lookahead →
    ∀ fsH : FS, fsH.newFrame = true → fsH.packetPts = s'.fs.packetPts →
      (arun cfg { skip := 0, lookahead := s'.pw.lookahead, fs := fsH } (s'.pending ++ buf.drop si')).frames.filter nonEmpty = []

theorem corLoop_refines (hse : cfg.corSkipsEmpty = true) (hpd : cfg.pesDiscards = true) :
    ∀ (fuel : Nat) (s : St) (buf hist : Bytes) (si srcSize : Nat),
    PInv s → JInv s → LinesOK s → si ≤ buf.length → srcSize ≤ buf.length → s.pending <:+ hist ++ buf.take si →
    (s.pending ++ buf.drop si).length - s.pw.skip + 2 ≤ fuel →
    (∃ s', pesLoop fuel false cfg s buf si srcSize = (s', [], buf.length, .needMore)
        ∧ CorA cfg s (s.pending ++ buf.drop si) s') ∨
    (∃ s' si', pesLoop fuel false cfg s buf si srcSize = (s', [], si', .callback)
        ∧ CorB cfg s buf hist (s.pending ++ buf.drop si) s' si') := by
  intro fuel
  induction fuel with
  | zero => intro s buf hist si srcSize _ _ _ _ _ _ h; omega
  | succ fuel ih =>
    intro s buf hist si srcSize hinv hj hlines hsi hsz hsuf hfuel
    obtain ⟨hlo, hla1, hla2⟩ := hinv
    have hspec := wrapAround_spec PES_BUF_SIZE s.pw buf hist si srcSize hlo hsi hsz
      (by simp only [PES_BUF_SIZE]; omega) (by omega) hsuf
    unfold pesLoop
    cases hwr : wrapAround PES_BUF_SIZE s.pw buf si srcSize with
    | fault e => rw [hwr] at hspec; exact hspec.elim
    | more w' si' =>
      rw [hwr] at hspec
      have hm : WrapMore s.pw buf hist si w' si' := hspec
      left
      have hsh : s.core.skip ≥ (s.pending ++ buf.drop si).length ∨
          ((s.pending ++ buf.drop si).drop s.core.skip).length < s.core.lookahead := by
        rcases hm.short with h | h
        · left; have := hm.skip; simp only [St.core, St.pending]; omega
        · right; rw [hm.pend] at h; exact h
      have har := arun_short (cfg := cfg) _ _ hsh
      have hpl' : w'.pend.length = w'.leftover := w'.pend_length hm.lo
      refine ⟨{ s with pw := w' }, by simp only [hm.si_eq], ⟨hm.lo, by rw [hm.la]; exact hla1, by rw [hm.la]; exact hla2⟩,
        ?_, hlines, ?_, ?_, ?_, ?_⟩
      · show w'.leftover ≤ w'.skip + w'.lookahead
        rcases hm.short with h | h
        · have h1 := hm.pend
          have h2 := hm.skip
          have : w'.pend = [] := by
            rw [h1]; apply List.drop_of_length_le; omega
          rw [this] at hpl'; simp at hpl'; omega
        · rw [hm.la]; omega
      · rw [har]; simp only [St.core, hm.skip, hm.la, St.pending]
      · rw [har]; simp only [St.core, St.pending, hm.pend]
      · rw [har]
      · rw [har]; rfl
    | win w' si' win =>
      rw [hwr] at hspec
      have hw : WrapWin s.pw buf hist si w' si' win := hspec
      simp only []
      have hL1 : w'.pend ++ buf.drop si' = (s.pending ++ buf.drop si).drop s.pw.skip := hw.rest
      have hpre : win <+: w'.pend ++ buf.drop si' := by rw [hL1]; exact hw.pre
      have hwl : w'.lookahead ≤ win.length := by rw [hw.la]; exact hw.len
      have hb1 : 48 ≤ w'.lookahead := by rw [hw.la]; exact hla1
      have hb2 : w'.lookahead ≤ 65495 := by rw [hw.la]; exact hla2
      have hlo' : w'.leftover ≤ w'.lookahead := by
        have hj' : s.pw.leftover ≤ s.pw.skip + s.pw.lookahead := hj
        rcases wrapAround_win_leftover _ _ _ _ _ _ _ _ hwr with h | h
        · rw [hw.la]; omega
        · rw [hw.la, h]; exact Nat.le_refl _
      have hlen1 : (w'.pend ++ buf.drop si').length = (s.pending ++ buf.drop si).length - s.pw.skip := by
        rw [hL1, List.length_drop]
      have hwinlen : win.length ≤ (w'.pend ++ buf.drop si').length := hpre.length_le
      have hskL := hw.skip_le
      have e0 := arun_skip (cfg := cfg) (s.pending ++ buf.drop si) s.pw.skip 0 s.pw.lookahead s.fs hskL
      simp only [Nat.add_zero] at e0
      have e1 : arun cfg s.core (s.pending ++ buf.drop si)
          = arun cfg { skip := 0, lookahead := w'.lookahead, fs := s.fs } (w'.pend ++ buf.drop si') := by
        rw [hL1, hw.la]; exact e0
      obtain ⟨sk', la', fs', outs1, hit, hsk, hl1, hl2, har⟩ :=
        pesIter_arun (cfg := cfg) (w'.pend ++ buf.drop si') win s.fs w'.skip w'.lookahead hpre hb1 hb2 hwl
      rcases pesIter_cor (cfg := cfg) hse hpd w'.skip w'.lookahead s.fs win hb1 hb2 hwl hlines with
        ⟨sk2, la2, fs2, outs2, ht, hf, hq, hl64, b1, b2, b3, b4⟩ | ⟨hp, fs1, fsF, hf, hn, hne, h64, _, ht, hH⟩
      · -- the loop goes on
        rw [hit] at ht
        simp only [Prod.mk.injEq] at ht
        obtain ⟨⟨rfl, rfl⟩, rfl, rfl, _⟩ := ht
        rw [hf]
        simp only []
        have hpend1 : (St.mk { w' with skip := sk', lookahead := la' } fs').pending = w'.pend := rfl
        have e2 : arun cfg s.core (s.pending ++ buf.drop si)
            = (arun cfg (St.mk { w' with skip := sk', lookahead := la' } fs').core (w'.pend ++ buf.drop si')).pre outs1 := by
          rw [e1, har]; rfl
        have hfil : ∀ r : ARes, (r.pre outs1).frames.filter nonEmpty = r.frames.filter nonEmpty := by
          intro r; simp only [ARes.pre, List.filter_append, hq, List.nil_append]
        rcases ih (St.mk { w' with skip := sk', lookahead := la' } fs') buf hist si' srcSize
            ⟨hw.lo, hl1, hl2⟩ (by show w'.leftover ≤ sk' + la'; omega) hl64 hw.si_le hsz
            (by rw [hpend1]; exact hw.suf) (by rw [hpend1, hlen1]; simp only []; omega) with
          ⟨s2, hloop, hA⟩ | ⟨s2, si2, hloop, hB⟩
        · left
          rw [hloop]
          rw [hpend1] at hA
          refine ⟨s2, rfl, hA.inv, hA.j, hA.lines, ?_, ?_, ?_, ?_⟩
          · rw [e2]; exact hA.core
          · rw [e2]; exact hA.pend
          · rw [e2]; exact hA.stop
          · rw [e2, hfil]; exact hA.quiet
        · right
          rw [hloop]
          rw [hpend1] at hB
          have hm := hB.meas
          have hm' : (s2.pending ++ buf.drop si2).length + sk' + la' ≤ (w'.pend ++ buf.drop si').length + s2.pw.lookahead := hm
          have hla' : s.pw.lookahead = w'.lookahead := hw.la.symm
          refine ⟨s2, si2, rfl, hB.si_le, hB.inv, hB.j, hB.suf, hB.skip0, hB.la, hB.nf, hB.ne, hB.le64, hB.win,
            by omega, fun _ _ => by omega, ?_, hB.last⟩
          intro fsH h1 h2
          rw [e2, hfil]
          exact hB.frames fsH h1 h2
      · -- VBI_ERR_CALLBACK in this iteration
        right
        rw [hf]
        simp only []
        rw [hit] at ht
        simp only [Prod.mk.injEq] at ht
        obtain ⟨⟨rfl, rfl⟩, rfl, rfl, _⟩ := ht
        refine ⟨{ pw := { w' with skip := w'.skip, lookahead := w'.lookahead }, fs := fs1 }, si', rfl, ?_⟩
        have hLt : (w'.pend ++ buf.drop si').take w'.lookahead = win.take w'.lookahead := by
          obtain ⟨t, ht⟩ := hpre; rw [← ht]; exact List.take_append_of_le_length hwl
        have hrestart : ∀ fsH : FS, fsH.newFrame = true → fsH.packetPts = fs1.packetPts →
            ∃ fs'' outs'', outs''.filter nonEmpty = [] ∧ FsForget 48 fs'' fs' ∧
              arun cfg { skip := 0, lookahead := w'.lookahead, fs := fsH } (w'.pend ++ buf.drop si')
                = (arun cfg { skip := w'.lookahead, lookahead := 48, fs := fs'' } (w'.pend ++ buf.drop si')).pre outs'' := by
          intro fsH h1 h2
          obtain ⟨fs'', outs'', e1, e2, e3, _⟩ := hH fsH 0 true ((w'.pend ++ buf.drop si').take w'.lookahead) h1 h2
            (by simp only [List.length_take]; omega) (by rw [List.take_take, Nat.min_self, hLt])
          refine ⟨fs'', outs'', e2, e3, ?_⟩
          exact arun_micro _ _ w'.lookahead 48 fs'' outs'' rfl (by simp only []; omega) (by omega) e1 (by omega)
        refine ⟨hw.si_le, ⟨hw.lo, hb1, hb2⟩, ?_, hw.suf, hw.skip0, hp, hn, hne, h64, ?_, ?_, ?_, ?_, ?_⟩
        · show w'.leftover ≤ w'.skip + w'.lookahead; omega
        · show w'.lookahead ≤ (w'.pend ++ buf.drop si').length; omega
        · show (w'.pend ++ buf.drop si').length + s.pw.skip + s.pw.lookahead ≤ _ + w'.lookahead
          rw [hw.la]; omega
        · intro hnew hla
          exfalso
          have := pesIter_new_no_callback (cfg := cfg) hse w'.skip w'.lookahead s.fs win hp hwl hnew
          rw [hf] at this
          simp at this
        · intro fsH h1 h2
          obtain ⟨fs'', outs'', e2, e3, e4⟩ := hrestart fsH h1 h2
          have hfg := arun_forget (cfg := cfg) (w'.pend ++ buf.drop si')
            { skip := w'.lookahead, lookahead := 48, fs := fs'' } { skip := w'.lookahead, lookahead := 48, fs := fs' }
            rfl rfl (Nat.le_refl _) (by omega) e3
          have hF : nonEmpty { pts := fs1.framePts, lines := fs1.frame.lines } = true := by
            simp only [nonEmpty]
            cases hl : fs1.frame.lines with
            | nil => exact absurd hl hne
            | cons a t => rfl
          show (arun cfg s.core _).frames.filter nonEmpty = _ :: (arun cfg _ (w'.pend ++ buf.drop si')).frames.filter nonEmpty
          rw [e1, har, e4]
          simp only [ARes.pre, List.filter_append, e2, List.nil_append, hfg.1]
          simp only [List.filter_cons, hF, if_true, List.filter_nil, List.singleton_append]
        · intro hlen fsH h1 h2
          obtain ⟨fs'', outs'', e2, e3, e4⟩ := hrestart fsH h1 h2
          show (arun cfg _ (w'.pend ++ buf.drop si')).frames.filter nonEmpty = []
          have hlen' : (w'.pend ++ buf.drop si').length = w'.lookahead := hlen
          rw [e4, arun_short _ _ (Or.inl (by simp only []; omega))]
          simp only [ARes.pre, List.append_nil, e2]

end Zvbi.Demux
