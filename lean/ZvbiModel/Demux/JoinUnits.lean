import ZvbiModel.Demux.LemmasFeed
import ZvbiModel.Mux.Spec
/-!
# Parser equivalence, data unit level  (join of C06 and C07)

`extract_data_units` (model: `extractLoop`) on a data unit region that the standards reader
`EnParse` (ZvbiModel/Mux/Spec.lean) accepts: every line unit is stored with the service id, line
number and payload bits the reader sees; stuffing is skipped; the only way to leave the loop early
is the frame boundary rule of `line_address`.  Lines with an undefined line number
(`line_offset` 0) are outside these lemmas: for them the reader drops the field parity on which
`line_address` decides.
-/
namespace Zvbi.Demux
open Zvbi.Hamm (rev8)
open Zvbi.Mux.EnParse (Line Svc DataUnit Pes unitLine unitsLines lofpLine encUnits parseUnits parseUnitsF allFF)

variable {cfg : SrcCfg}

/-- the `vbi_sliced` the demultiplexer delivers for a line of the stream: service id as libzvbi
reports it (Teletext B 3, VPS 4, WSS 0x400, Caption first field 8), the frame line, the payload
(WSS: the 14 bits and the two reserved bits, which the standard sets to 1) -/
def ofLine (l : Line) : Sliced :=
  match l.svc with
  | .ttx => ⟨SL_TELETEXT_B, l.line, l.data⟩
  | .vps => ⟨SL_VPS, l.line, l.data⟩
  | .wss => ⟨SL_WSS_625, l.line, [l.data.getD 0 0, l.data.getD 1 0 + 192]⟩
  | .cc => ⟨SL_CAPTION_625_F1, l.line, l.data⟩

def lofpCheck (lofp : Nat) : Bool :=
  match lofpLine lofp with
  | some l => l = 0 ∨ lofpToLine lofp true = (if l < 313 then 0 else 1, lofp % 32, l)
  | none => true

theorem lofpCheck_all : ∀ lofp < 256, lofpCheck lofp = true := by decide +kernel

theorem lofp_lt (lofp l : Nat) (h : lofpLine lofp = some l) : lofp < 256 := by
  unfold lofpLine at h
  split at h
  · cases h
  · omega

/-- the reader's line number of a `lofp` byte is `lofp_to_line`'s frame line -/
theorem lofp_agree (lofp l : Nat) (h : lofpLine lofp = some l) (h0 : l ≠ 0) :
    lofpToLine lofp true = (if l < 313 then 0 else 1, lofp % 32, l) := by
  have := lofpCheck_all lofp (lofp_lt lofp l h)
  unfold lofpCheck at this
  rw [h] at this
  simpa [h0] using this

theorem wss_top : ∀ c < 256, c % 4 = 3 → rev8 c % 64 + 192 = rev8 c := by decide +kernel

theorem rev8_mod (c : Nat) : rev8 c = rev8 (c % 256) := by
  unfold rev8; rw [Nat.mod_mod]

/-- the frame after `line_address` allocated a slot for defined line `l` -/
def addrFrame (f : Frame) (lofp l : Nat) : Frame :=
  { f with lastField := if l < 313 then 0 else 1, lastFieldLine := lofp % 32, lastFrameLine := l, nDu := f.nDu + 1 }

/-- `line_address` for a unit with a defined line number, both shapes of the source, any fill -/
theorem lineAddress_def (f : Frame) (lofp l : Nat) (h : lofpLine lofp = some l) (h0 : l ≠ 0) :
    lineAddress cfg f lofp true =
      if cfg.lateOverflow = false ∧ f.lines.length ≥ 64 then .err
      else if l ≤ f.lastFrameLine then (if f.nDu > 0 then .err else .newFrame)
      else if f.lines.length ≥ 64 then .err
      else .ok (addrFrame f lofp l) l := by
  unfold lineAddress
  rw [lofp_agree lofp l h h0]
  simp only [h0, ne_eq, not_false_eq_true, if_true, N_SLICED]
  rfl


/-- what storing line `l` does to the frame -/
def storeFrame (f : Frame) (lofp : Nat) (l : Line) : Frame :=
  pushLine (addrFrame f lofp l.line) (ofLine l).id l.line (ofLine l).data

/-- what a line unit with the defined line `l` does, in both shapes of `line_address`: the overflow
error comes first (old shape) or after the frame boundary / line order tests (fix dvb-demux-full-frame) -/
def lineRes (cfg : SrcCfg) (f : Frame) (lofp : Nat) (l : Line) : DU :=
  if cfg.lateOverflow = false ∧ f.lines.length ≥ 64 then .fail f .err
  else if l.line ≤ f.lastFrameLine then (if f.nDu > 0 then .fail f .err else .fail f .newFrame)
  else if f.lines.length ≥ 64 then .fail f .err
  else .store (storeFrame f lofp l)

/-- with room in the buffer the shape of the source does not matter -/
theorem lineRes_room (f : Frame) (lofp : Nat) (l : Line) (hf : f.lines.length < 64) :
    lineRes cfg f lofp l =
      if l.line ≤ f.lastFrameLine then (if f.nDu > 0 then .fail f .err else .fail f .newFrame)
      else .store (storeFrame f lofp l) := by
  unfold lineRes
  rw [if_neg (by omega)]
  split
  · rfl
  · rw [if_neg (by omega)]

/-- fix dvb-demux-full-frame: the first unit of a packet closes the frame under assembly also when the
buffer is full -/
theorem lineRes_closes (hlo : cfg.lateOverflow = true) (f : Frame) (lofp : Nat) (l : Line)
    (hle : l.line ≤ f.lastFrameLine) (hn : f.nDu = 0) : lineRes cfg f lofp l = .fail f .newFrame := by
  unfold lineRes
  rw [if_neg (by simp [hlo]), if_pos hle, if_neg (by omega)]

/-- the frame boundary rule, in whichever shape lets it be reached: room in the buffer, or the repaired
`line_address` -/
theorem lineRes_newFrame (f : Frame) (lofp : Nat) (l : Line) (hcap : cfg.lateOverflow = true ∨ f.lines.length < 64)
    (hle : l.line ≤ f.lastFrameLine) (hn : f.nDu = 0) : lineRes cfg f lofp l = .fail f .newFrame := by
  rcases hcap with hlo | hroom
  · exact lineRes_closes hlo f lofp l hle hn
  · rw [lineRes_room f lofp l hroom, if_pos hle, if_neg (by omega)]

/-- a full buffer and a line beyond the frame's last line: the overflow error, in both shapes -/
theorem lineRes_overflow (f : Frame) (lofp : Nat) (l : Line) (hf : f.lines.length ≥ 64)
    (hgt : f.lastFrameLine < l.line) : lineRes cfg f lofp l = .fail f .err := by
  have h1 : ¬ l.line ≤ f.lastFrameLine := by omega
  unfold lineRes
  simp only [h1, hf, if_true, if_false, ite_self]

theorem dataUnit_ttx (f : Frame) (id len p0 p1 : Nat) (r tail : Bytes) (l : Nat)
    (hid : id = 2 ∨ id = 3) (hlen : 44 ≤ len) (hr : 42 ≤ r.length) (hp1 : p1 = 0xE4)
    (hl : lofpLine p0 = some l) (h0 : l ≠ 0) (hoff : p0 % 32 = 0 ∨ (7 ≤ p0 % 32 ∧ p0 % 32 ≤ 22))
    :
    dataUnit cfg f (id :: len :: p0 :: p1 :: (r ++ tail)) id len
      = lineRes cfg f p0 ⟨.ttx, l, (r.take 42).map rev8⟩ := by
  unfold dataUnit lineRes
  simp only [DU_TTX_NON_SUBTITLE, DU_TTX_SUBTITLE, hid, if_true]
  rw [if_neg (by omega)]
  simp only [List.getElem?_cons_succ, List.getElem?_cons_zero, hp1, ne_eq, not_true_eq_false, if_false]
  rw [if_neg (by omega), lineAddress_def f p0 l hl h0]
  by_cases he : cfg.lateOverflow = false ∧ f.lines.length ≥ 64
  · simp only [he, and_self, if_true]
  rw [if_neg he, if_neg he]
  by_cases hle : l ≤ f.lastFrameLine
  · simp only [hle, if_true]
    by_cases hn : f.nDu > 0 <;> simp [hn]
  · simp only [hle, if_false]
    by_cases hfull : f.lines.length ≥ 64
    · simp only [hfull, if_true]
    rw [if_neg hfull, if_neg hfull]
    simp only []
    have hfl : (addrFrame f p0 l).lastFieldLine = p0 % 32 := rfl
    rw [hfl, if_neg (by omega)]
    have ht : ((id :: len :: p0 :: 228 :: (r ++ tail)).drop 4).take 42 = r.take 42 := by
      simp only [List.drop_succ_cons, List.drop_zero]
      exact List.take_append_of_le_length hr
    rw [ht, if_pos (by simp; omega)]
    rfl

theorem dataUnit_vps (f : Frame) (len p0 : Nat) (r tail : Bytes)
    (hlen : 14 ≤ len) (hr : 13 ≤ r.length)
    (hl : lofpLine p0 = some 16) :
    dataUnit cfg f (0xC3 :: len :: p0 :: (r ++ tail)) 0xC3 len
      = lineRes cfg f p0 ⟨.vps, 16, r.take 13⟩ := by
  unfold dataUnit lineRes
  simp only [DU_TTX_NON_SUBTITLE, DU_TTX_SUBTITLE, DU_VPS, Nat.reduceEqDiff, or_self, if_false, if_true]
  rw [if_neg (by omega)]
  simp only [List.getElem?_cons_succ, List.getElem?_cons_zero]
  rw [lineAddress_def f p0 16 hl (by decide)]
  by_cases he : cfg.lateOverflow = false ∧ f.lines.length ≥ 64
  · simp only [he, and_self, if_true]
  rw [if_neg he, if_neg he]
  by_cases hle : 16 ≤ f.lastFrameLine
  · simp only [hle, if_true]
    by_cases hn : f.nDu > 0 <;> simp [hn]
  · simp only [hle, if_false]
    by_cases hfull : f.lines.length ≥ 64
    · simp only [hfull, if_true]
    rw [if_neg hfull, if_neg hfull]
    simp only [ne_eq, not_true_eq_false, if_false]
    have ht : ((195 :: len :: p0 :: (r ++ tail)).drop 3).take 13 = r.take 13 := by
      simp only [List.drop_succ_cons, List.drop_zero]
      exact List.take_append_of_le_length hr
    rw [ht, if_pos (by simp; omega)]
    rfl

theorem dataUnit_wss (f : Frame) (len p0 p1 p2 : Nat) (r tail : Bytes)
    (hlen : 3 ≤ len) (hp2 : p2 % 4 = 3)
    (hl : lofpLine p0 = some 23) :
    dataUnit cfg f (0xC4 :: len :: p0 :: p1 :: p2 :: (r ++ tail)) 0xC4 len
      = lineRes cfg f p0 ⟨.wss, 23, [rev8 p1, rev8 p2 % 64]⟩ := by
  unfold dataUnit lineRes
  simp only [DU_TTX_NON_SUBTITLE, DU_TTX_SUBTITLE, DU_VPS, DU_WSS, Nat.reduceEqDiff, or_self, if_false, if_true]
  rw [if_neg (by omega)]
  simp only [List.getElem?_cons_succ, List.getElem?_cons_zero]
  rw [lineAddress_def f p0 23 hl (by decide)]
  by_cases he : cfg.lateOverflow = false ∧ f.lines.length ≥ 64
  · simp only [he, and_self, if_true]
  rw [if_neg he, if_neg he]
  by_cases hle : 23 ≤ f.lastFrameLine
  · simp only [hle, if_true]
    by_cases hn : f.nDu > 0 <;> simp [hn]
  · simp only [hle, if_false]
    by_cases hfull : f.lines.length ≥ 64
    · simp only [hfull, if_true]
    rw [if_neg hfull, if_neg hfull]
    simp only [ne_eq, not_true_eq_false, if_false]
    have hw : rev8 p2 % 64 + 192 = rev8 p2 := by
      rw [rev8_mod p2]
      exact wss_top (p2 % 256) (Nat.mod_lt _ (by decide)) (by omega)
    simp only [List.drop_succ_cons, List.drop_zero, List.take_succ_cons, List.take_zero, List.length_cons,
      List.length_nil, if_true, List.map_cons, List.map_nil]
    simp only [storeFrame, ofLine, List.getD_cons_zero, List.getD_cons_succ, hw]

theorem dataUnit_cc (f : Frame) (len p0 p1 p2 : Nat) (r tail : Bytes)
    (hlen : 3 ≤ len)
    (hl : lofpLine p0 = some 21) :
    dataUnit cfg f (0xC5 :: len :: p0 :: p1 :: p2 :: (r ++ tail)) 0xC5 len
      = lineRes cfg f p0 ⟨.cc, 21, [rev8 p1, rev8 p2]⟩ := by
  unfold dataUnit lineRes
  simp only [DU_TTX_NON_SUBTITLE, DU_TTX_SUBTITLE, DU_VPS, DU_WSS, DU_ZVBI_WSS_CPR1204, DU_ZVBI_CC_525, DU_CC,
    Nat.reduceEqDiff, or_self, if_false, if_true]
  rw [if_neg (by omega)]
  simp only [List.getElem?_cons_succ, List.getElem?_cons_zero]
  rw [lineAddress_def f p0 21 hl (by decide)]
  by_cases he : cfg.lateOverflow = false ∧ f.lines.length ≥ 64
  · simp only [he, and_self, if_true]
  rw [if_neg he, if_neg he]
  by_cases hle : 21 ≤ f.lastFrameLine
  · simp only [hle, if_true]
    by_cases hn : f.nDu > 0 <;> simp [hn]
  · simp only [hle, if_false]
    by_cases hfull : f.lines.length ≥ 64
    · simp only [hfull, if_true]
    rw [if_neg hfull, if_neg hfull]
    simp only [ne_eq, not_true_eq_false, if_false]
    simp only [List.drop_succ_cons, List.drop_zero, List.take_succ_cons, List.take_zero, List.length_cons,
      List.length_nil, if_true, List.map_cons, List.map_nil]
    rfl

theorem dataUnit_stuffing (f : Frame) (d : Bytes) (len : Nat) : dataUnit cfg f d 0xFF len = .skip := by
  unfold dataUnit
  simp [DU_TTX_NON_SUBTITLE, DU_TTX_SUBTITLE, DU_VPS, DU_WSS, DU_ZVBI_WSS_CPR1204, DU_ZVBI_CC_525, DU_CC]

/-- a line unit the reader accepts (defined line number) does to the frame what `lineRes` says -/
theorem dataUnit_line (f : Frame) (u : DataUnit) (l : Line) (tail : Bytes)
    (hu : unitLine u = some (some l)) (h0 : l.line ≠ 0) :
    ∃ lofp, dataUnit cfg f (u.id :: u.payload.length :: (u.payload ++ tail)) u.id u.payload.length = lineRes cfg f lofp l := by
  obtain ⟨id, p⟩ := u
  unfold unitLine at hu
  simp only at hu ⊢
  split at hu
  · split at hu <;> cases hu
  · split at hu
    · -- Teletext
      rename_i hid
      split at hu
      · cases hu
      · rename_i hc
        have hc1 : 44 ≤ p.length := by
          apply Decidable.byContradiction; intro h; exact hc (Or.inl (by omega))
        have hc3 : p.getD 1 0 = 0xE4 := by
          apply Decidable.byContradiction; intro h; exact hc (Or.inr (Or.inr h))
        split at hu
        · cases hu
        · rename_i lv hlv
          split at hu
          · cases hu
          · rename_i hoff
            simp only [Option.some.injEq] at hu
            subst hu
            rcases p with _ | ⟨p0, _ | ⟨p1, r⟩⟩
            · simp at hc1
            · simp at hc1
            · simp only [List.getD_cons_zero, List.getD_cons_succ, List.length_cons, List.drop_succ_cons,
                List.drop_zero] at hc1 hc3 hlv hoff ⊢
              refine ⟨p0, ?_⟩
              rw [List.cons_append, List.cons_append]
              exact dataUnit_ttx f id _ p0 p1 r tail lv hid hc1 (by omega) hc3 hlv h0 (by omega)
    · split at hu
      · -- VPS
        rename_i hid
        subst hid
        split at hu
        · cases hu
        · rename_i hc
          split at hu
          · cases hu
          · rename_i hlv
            simp only [Option.some.injEq] at hu
            subst hu
            have hc1 : 14 ≤ p.length := by
              apply Decidable.byContradiction; intro h; exact hc (Or.inl (by omega))
            rcases p with _ | ⟨p0, r⟩
            · simp at hc1
            · simp only [List.getD_cons_zero, List.length_cons, List.drop_succ_cons, List.drop_zero,
                ne_eq, Decidable.not_not] at hc1 hlv ⊢
              refine ⟨p0, ?_⟩
              rw [List.cons_append]
              exact dataUnit_vps f _ p0 r tail hc1 (by omega) hlv
      · split at hu
        · -- WSS
          rename_i hid
          subst hid
          split at hu
          · cases hu
          · rename_i hc
            split at hu
            · cases hu
            · rename_i hlv
              simp only [Option.some.injEq] at hu
              subst hu
              have hc1 : 3 ≤ p.length := by
                apply Decidable.byContradiction; intro h; exact hc (Or.inl (by omega))
              have hc3 : p.getD 2 0 % 4 = 3 := by
                apply Decidable.byContradiction; intro h; exact hc (Or.inr (Or.inr h))
              rcases p with _ | ⟨p0, _ | ⟨p1, _ | ⟨p2, r⟩⟩⟩
              · simp at hc1
              · simp at hc1
              · simp at hc1
              · simp only [List.getD_cons_zero, List.getD_cons_succ, List.length_cons,
                  ne_eq, Decidable.not_not] at hc1 hc3 hlv ⊢
                refine ⟨p0, ?_⟩
                simp only [List.cons_append]
                exact dataUnit_wss f _ p0 p1 p2 r tail hc1 hc3 hlv
        · split at hu
          · -- Caption
            rename_i hid
            subst hid
            split at hu
            · cases hu
            · rename_i hc
              split at hu
              · cases hu
              · rename_i hlv
                simp only [Option.some.injEq] at hu
                subst hu
                have hc1 : 3 ≤ p.length := by
                  apply Decidable.byContradiction; intro h; exact hc (Or.inl (by omega))
                rcases p with _ | ⟨p0, _ | ⟨p1, _ | ⟨p2, r⟩⟩⟩
                · simp at hc1
                · simp at hc1
                · simp at hc1
                · simp only [List.getD_cons_zero, List.getD_cons_succ, List.length_cons,
                    ne_eq, Decidable.not_not] at hc1 hlv ⊢
                  refine ⟨p0, ?_⟩
                  simp only [List.cons_append]
                  exact dataUnit_cc f _ p0 p1 p2 r tail hc1 hlv
          · cases hu

theorem dataUnit_stuff_unit (f : Frame) (u : DataUnit) (d : Bytes) (hu : unitLine u = some none) :
    dataUnit cfg f d u.id u.payload.length = .skip := by
  have hid : u.id = 0xFF := by
    unfold unitLine at hu
    simp only at hu
    repeat' split at hu
    all_goals first
      | assumption
      | cases hu
  rw [hid]; exact dataUnit_stuffing f d _

end Zvbi.Demux
