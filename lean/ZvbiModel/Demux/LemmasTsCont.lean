import ZvbiModel.Demux.Ts
/-!
# TS path: the continuity_counter rule  (helper lemmas for C07)

`tsContCheck cont b3` models `if (0 != ((dx->ts_continuity ^ b3) & 0x0F)) { if (dx->ts_continuity >= 0) { prev_cont =
dx->ts_continuity - 1; if (0 == ((prev_cont ^ b3) & 0x0F)) repeated else lost } }` of `demux_ts_packet`;
`cont = none` is `ts_continuity == -1` (stream start, after every loss of sync), `some c` the expected counter
(`b3 + 1` of the last accepted packet, not reduced modulo 16: only the low four bits are compared).
-/
namespace Zvbi.Demux

variable {cfg : SrcCfg}

theorem xor16 : ∀ x < 16, ∀ y < 16, (x ^^^ y = 0 ↔ x = y) := by decide

/-- `(a ^ b) & 0x0F == 0` compares the low four bits -/
theorem low4 (a b : Nat) : ((a ^^^ b) &&& 0x0F = 0) ↔ a % 16 = b % 16 := by
  have h : (a ^^^ b) &&& 0x0F = (a ^^^ b) % 2 ^ 4 := Nat.and_two_pow_sub_one_eq_mod _ 4
  rw [h, Nat.xor_mod_two_pow]
  exact xor16 _ (Nat.mod_lt _ (by decide)) _ (Nat.mod_lt _ (by decide))

/-- expected counter unknown: every counter value is accepted -/
theorem tsContCheck_none (b3 : Nat) : tsContCheck none b3 = .ok := rfl

/-- expected counter `c` known: accepted iff the low four bits agree -/
theorem tsContCheck_ok_iff (c b3 : Nat) : tsContCheck (some c) b3 = .ok ↔ b3 % 16 = c % 16 := by
  unfold tsContCheck
  simp only [ne_eq]
  by_cases h : (c ^^^ b3) &&& 0x0F = 0
  · rw [if_neg (by simpa using h)]
    have := (low4 c b3).1 h
    exact ⟨fun _ => this.symm, fun _ => rfl⟩
  · rw [if_pos h]
    have hne : ¬ c % 16 = b3 % 16 := fun e => h ((low4 c b3).2 e)
    split
    · exact ⟨(fun e => by cases e), fun e => absurd e.symm hne⟩
    · exact ⟨(fun e => by cases e), fun e => absurd e.symm hne⟩

/-- ... taken for a repeated packet iff it does not carry the expected counter but the one before it -/
theorem tsContCheck_repeated_iff (c b3 : Nat) :
    tsContCheck (some c) b3 = .repeated ↔ (b3 % 16 ≠ c % 16 ∧ b3 % 16 = (c - 1) % 16) := by
  unfold tsContCheck
  simp only [ne_eq]
  by_cases h : (c ^^^ b3) &&& 0x0F = 0
  · rw [if_neg (by simpa using h)]
    have := (low4 c b3).1 h
    exact ⟨(fun e => by cases e), fun e => absurd this.symm e.1⟩
  · rw [if_pos h]
    have hne : ¬ b3 % 16 = c % 16 := fun e => h ((low4 c b3).2 e.symm)
    by_cases h2 : ((c - 1) ^^^ b3) &&& 0x0F = 0
    · rw [if_pos h2]
      exact ⟨fun _ => ⟨hne, ((low4 (c - 1) b3).1 h2).symm⟩, fun _ => rfl⟩
    · rw [if_neg h2]
      exact ⟨(fun e => by cases e), fun e => absurd ((low4 (c - 1) b3).2 e.2.symm) h2⟩

/-- after a packet with header byte `p` was accepted (`ts_continuity = p + 1`): the next packet of the PID is
dropped as "Repeated TS packet" exactly when its counter equals that of the packet before -/
theorem tsContCheck_repeated_prev (p q : Nat) : tsContCheck (some (p + 1)) q = .repeated ↔ q % 16 = p % 16 := by
  rw [tsContCheck_repeated_iff, Nat.add_sub_cancel]
  constructor
  · exact fun h => h.2
  · intro h
    refine ⟨?_, h⟩
    omega

/-- ... and accepted exactly when it carries the next counter -/
theorem tsContCheck_ok_next (p q : Nat) : tsContCheck (some (p + 1)) q = .ok ↔ q % 16 = (p + 1) % 16 :=
  tsContCheck_ok_iff (p + 1) q

/-- header evaluation with the expected counter unknown: a packet of the PID that passes the TS header checks is
never skipped as repeated or as a continuity error - it goes on to the PES start test with the counter learned -/
theorem tsHeader_unknown (s : TsSt) (q : Bytes) (hc : s.cont = none) (hh : tsHeaderCheck s q = none) :
    tsHeader cfg s q =
      match tsStart { s with cont := some (q.getD 3 0 + 1) } q with
      | none => (tsSkipPesPacket { s with cont := some (q.getD 3 0 + 1) } q, none)
      | some s1 => tsCopy cfg s1 q := by
  unfold tsHeader
  rw [hh]
  simp only [hc, tsContCheck_none]
  cases tsStart { s with cont := some (q.getD 3 0 + 1) } q <;> rfl

/-- header evaluation of a repeated packet: it is skipped (`skip_ts_packet`) and nothing else changes - the
expected counter, the PES packet under assembly and the frame are kept -/
theorem tsHeader_repeated (s : TsSt) (q : Bytes) (c : Nat) (hc : s.cont = some c) (hh : tsHeaderCheck s q = none)
    (hr : q.getD 3 0 % 16 = (c - 1) % 16) (hn : q.getD 3 0 % 16 ≠ c % 16) :
    tsHeader cfg s q = (tsSkipPacket s q, none) := by
  unfold tsHeader
  rw [hh]
  simp only [hc, (tsContCheck_repeated_iff c (q.getD 3 0)).2 ⟨hn, hr⟩]

end Zvbi.Demux
