import ZvbiModel.Demux.Model
/-!
# `wrap_around`: the window it hands out is the logical stream  (helper lemmas for C07)

Logical stream of a wrap state at source offset `si`: `w.pend ++ buf.drop si`.
-/
namespace Zvbi.Demux

theorem Wrap.pend_length (w : Wrap) (h : w.leftover ≤ w.wb.length) : w.pend.length = w.leftover := by
  simp [Wrap.pend]; omega

theorem Wrap.pend_full (wb : Bytes) (sk la lo : Nat) (h : lo = wb.length) :
    ({ wb := wb, skip := sk, lookahead := la, leftover := lo } : Wrap).pend = wb := by
  simp [Wrap.pend, h]

/-- what `wrap_around` guarantees when it returns FALSE -/
structure WrapMore (w : Wrap) (buf hist : Bytes) (si : Nat) (w' : Wrap) (si' : Nat) : Prop where
  si_eq : si' = buf.length
  la : w'.lookahead = w.lookahead
  lo : w'.leftover ≤ w'.wb.length
  pend : w'.pend = (w.pend ++ buf.drop si).drop w.skip
  skip : w'.skip = w.skip - (w.pend ++ buf.drop si).length
  short : w'.skip > 0 ∨ w'.pend.length < w.lookahead
  suf : w'.pend <:+ hist ++ buf.take si'

/-- what `wrap_around` guarantees when it returns TRUE -/
structure WrapWin (w : Wrap) (buf hist : Bytes) (si : Nat) (w' : Wrap) (si' : Nat) (win : Bytes) : Prop where
  si_le : si' ≤ buf.length
  skip0 : w'.skip = 0
  la : w'.lookahead = w.lookahead
  lo : w'.leftover ≤ w'.wb.length
  skip_le : w.skip ≤ (w.pend ++ buf.drop si).length
  pre : win <+: (w.pend ++ buf.drop si).drop w.skip
  len : w.lookahead ≤ win.length
  rest : w'.pend ++ buf.drop si' = (w.pend ++ buf.drop si).drop w.skip
  suf : w'.pend <:+ hist ++ buf.take si'

/-- the contract of `wrap_around` as a predicate on its result -/
def WrapSpec (w : Wrap) (buf hist : Bytes) (si : Nat) : WR → Prop
  | .fault _ => False
  | .more w' si' => WrapMore w buf hist si w' si'
  | .win w' si' win => WrapWin w buf hist si w' si' win

theorem suffix_take_succ_append (p hist buf : Bytes) (si n : Nat) (h : p <:+ hist ++ buf.take si) :
    p ++ (buf.drop si).take n <:+ hist ++ buf.take (si + n) := by
  obtain ⟨t, ht⟩ := h
  refine ⟨t, ?_⟩
  have : buf.take (si + n) = buf.take si ++ (buf.drop si).take n := by
    rw [List.take_add]
  rw [this, ← List.append_assoc, ← List.append_assoc, ht]

theorem wrapFill_spec (cap : Nat) (w : Wrap) (buf hist : Bytes) (si srcSize : Nat)
    (hskip : w.skip = 0) (hlo : w.leftover ≤ w.wb.length) (hsi : si ≤ buf.length)
    (hsz : srcSize ≤ buf.length) (hcap : w.lookahead ≤ cap) (hla : 0 < w.lookahead)
    (hsuf : w.pend <:+ hist ++ buf.take si) :
    WrapSpec w buf hist si (wrapFill cap w buf si srcSize) := by
  have hpl := w.pend_length hlo
  unfold wrapFill
  simp only []
  split
  · -- must wrap
    split
    · -- need more data in the wrap buffer
      rw [if_neg (by omega)]
      split
      · -- not enough: copy all, FALSE
        rename_i h1 h2 h3
        rw [if_neg (by omega)]
        have hd : (buf.drop si).length = buf.length - si := by simp
        have hp' : ({ w with wb := w.pend ++ buf.drop si, leftover := w.leftover + (buf.length - si) } : Wrap).pend
                  = w.pend ++ buf.drop si := by
          apply Wrap.pend_full; simp [hpl]
        show WrapMore _ _ _ _ _ _
        refine ⟨by omega, rfl, ?_, ?_, ?_, ?_, ?_⟩
        · simp [hpl, hd]
        · rw [hp', hskip, List.drop_zero]
        · simp [hskip]
        · right; rw [hp']; simp [hpl, hd]; omega
        · rw [hp']
          have h := suffix_take_succ_append w.pend hist buf si (buf.length - si) hsuf
          have e : (buf.drop si).take (buf.length - si) = buf.drop si := by
            apply List.take_of_length_le; simp
          rw [e] at h
          exact h
      · -- copy `required` bytes, TRUE
        rename_i h1 h2 h3
        rw [if_neg (by omega)]
        have hd : ((buf.drop si).take (w.lookahead - w.leftover)).length = w.lookahead - w.leftover := by
          simp; omega
        rw [if_neg (by simp [hpl, hd]; omega)]
        have hwl : (w.pend ++ (buf.drop si).take (w.lookahead - w.leftover)).length = w.lookahead := by
          simp [hpl]; omega
        have hp' : ({ w with wb := w.pend ++ (buf.drop si).take (w.lookahead - w.leftover),
                             leftover := w.lookahead } : Wrap).pend
                  = w.pend ++ (buf.drop si).take (w.lookahead - w.leftover) := by
          apply Wrap.pend_full; exact hwl.symm
        show WrapWin _ _ _ _ _ _ _
        refine ⟨by omega, hskip, rfl, ?_, ?_, ?_, ?_, ?_, ?_⟩
        · simp only []; rw [hwl]; exact Nat.le_refl _
        · simp [hskip]
        · rw [hskip, List.drop_zero]
          exact (List.prefix_append_right_inj _).2 (List.take_prefix _ _)
        · rw [hwl]; exact Nat.le_refl _
        · rw [hp', hskip, List.drop_zero, List.append_assoc, ← List.drop_drop, List.take_append_drop]
        · rw [hp']; exact suffix_take_succ_append _ _ _ _ _ hsuf
    · -- enough in the wrap buffer already
      rename_i h1 h2
      rw [if_neg (by omega)]
      show WrapWin _ _ _ _ _ _ _
      refine ⟨hsi, hskip, rfl, hlo, by simp [hskip], ?_, by omega, by simp [hskip], hsuf⟩
      rw [hskip, List.drop_zero]; exact List.prefix_append _ _
  · -- in place
    rename_i h1
    have hle : w.leftover ≤ si := by omega
    rw [if_neg (by omega)]
    have hs2 : w.pend <:+ buf.take si := by
      apply List.suffix_of_suffix_length_le hsuf (List.suffix_append _ _)
      simp [hpl]; omega
    have heq : w.pend = (buf.take si).drop (si - w.leftover) := by
      have := List.suffix_iff_eq_drop.1 hs2
      rw [this]; simp [hpl]; congr 1; omega
    have hwin : buf.drop (si - w.leftover) = w.pend ++ buf.drop si := by
      rw [heq]
      have : buf.drop (si - w.leftover) = (buf.take si ++ buf.drop si).drop (si - w.leftover) := by
        rw [List.take_append_drop]
      rw [this, List.drop_append_of_le_length (by simp; omega)]
    show WrapWin _ _ _ _ _ _ _
    refine ⟨hsi, hskip, rfl, hlo, by simp [hskip], ?_, ?_, by simp [hskip], hsuf⟩
    · rw [hskip, List.drop_zero, hwin]; exact List.prefix_refl _
    · rw [hwin]; simp [hpl]; omega

theorem WrapSpec.transfer (w w1 : Wrap) (buf hist : Bytes) (si si1 : Nat) (r : WR)
    (h0 : w1.skip = 0) (hla : w1.lookahead = w.lookahead)
    (hL : w1.pend ++ buf.drop si1 = (w.pend ++ buf.drop si).drop w.skip)
    (hle : w.skip ≤ (w.pend ++ buf.drop si).length)
    (h : WrapSpec w1 buf hist si1 r) : WrapSpec w buf hist si r := by
  cases r with
  | fault e => exact h
  | more w' si' =>
    have h : WrapMore w1 buf hist si1 w' si' := h
    show WrapMore _ _ _ _ _ _
    refine ⟨h.si_eq, h.la.trans hla, h.lo, ?_, ?_, ?_, h.suf⟩
    · rw [h.pend, h0, List.drop_zero, hL]
    · rw [h.skip, h0]; omega
    · rw [← hla]; exact h.short
  | win w' si' win =>
    have h : WrapWin w1 buf hist si1 w' si' win := h
    show WrapWin _ _ _ _ _ _ _
    refine ⟨h.si_le, h.skip0, h.la.trans hla, h.lo, hle, ?_, ?_, ?_, h.suf⟩
    · have := h.pre; rwa [h0, List.drop_zero, hL] at this
    · rw [← hla]; exact h.len
    · rw [h.rest, h0, List.drop_zero, hL]

/-- **wrap_window**, general form (any source offset, coroutine re-entry included) -/
theorem wrapAround_spec (cap : Nat) (w : Wrap) (buf hist : Bytes) (si srcSize : Nat)
    (hlo : w.leftover ≤ w.wb.length) (hsi : si ≤ buf.length)
    (hsz : srcSize ≤ buf.length) (hcap : w.lookahead ≤ cap) (hla : 0 < w.lookahead)
    (hsuf : w.pend <:+ hist ++ buf.take si) :
    WrapSpec w buf hist si (wrapAround cap w buf si srcSize) := by
  have hpl := w.pend_length hlo
  unfold wrapAround wrapSkip
  simp only []
  by_cases hs : w.skip > 0
  · rw [if_pos hs]
    by_cases hs2 : w.skip > w.leftover
    · rw [if_pos hs2]
      by_cases hs3 : w.skip - w.leftover > buf.length - si
      · rw [if_pos hs3]
        show WrapMore _ _ _ _ _ _
        have hL : (w.pend ++ buf.drop si).length = w.leftover + (buf.length - si) := by simp [hpl]
        have hp' : ({ w with skip := w.skip - w.leftover - (buf.length - si), leftover := 0 } : Wrap).pend = [] := by
          simp [Wrap.pend]
        refine ⟨by omega, rfl, Nat.zero_le _, ?_, ?_, ?_, ?_⟩
        · rw [hp']; symm; apply List.drop_of_length_le; omega
        · rw [hL]; show w.skip - w.leftover - (buf.length - si) = _; omega
        · left; show w.skip - w.leftover - (buf.length - si) > 0; omega
        · rw [hp']; exact List.nil_suffix
      · rw [if_neg hs3]
        have hp1 : ({ w with skip := 0, leftover := 0 } : Wrap).pend = [] := by simp [Wrap.pend]
        show WrapSpec _ _ _ _ (wrapFill cap { w with skip := 0, leftover := 0 } buf (si + (w.skip - w.leftover)) srcSize)
        apply WrapSpec.transfer w { w with skip := 0, leftover := 0 } buf hist si (si + (w.skip - w.leftover)) _ rfl rfl
        · rw [hp1, List.nil_append, List.drop_append, List.drop_of_length_le (l := w.pend) (i := w.skip) (by omega),
            List.nil_append, hpl, List.drop_drop]
        · simp [hpl]; omega
        · apply wrapFill_spec cap { w with skip := 0, leftover := 0 } buf hist _ srcSize rfl (Nat.zero_le _)
            (by omega) hsz (by exact hcap) (by exact hla)
          rw [hp1]; exact List.nil_suffix
    · rw [if_neg hs2]
      have hp1 : ({ w with skip := 0, leftover := w.leftover - w.skip } : Wrap).pend = w.pend.drop w.skip := by
        simp only [Wrap.pend, List.drop_drop]; congr 1; omega
      show WrapSpec _ _ _ _ (wrapFill cap { w with skip := 0, leftover := w.leftover - w.skip } buf (si + 0) srcSize)
      apply WrapSpec.transfer w { w with skip := 0, leftover := w.leftover - w.skip } buf hist si (si + 0) _ rfl rfl
      · rw [hp1, Nat.add_zero, List.drop_append_of_le_length (by omega)]
      · simp [hpl]; omega
      · apply wrapFill_spec cap { w with skip := 0, leftover := w.leftover - w.skip } buf hist _ srcSize rfl
          (by show w.leftover - w.skip ≤ w.wb.length; omega) (by omega) hsz (by exact hcap) (by exact hla)
        rw [hp1, Nat.add_zero]
        exact (List.drop_suffix _ _).trans hsuf
  · rw [if_neg hs]
    have h0 : w.skip = 0 := by omega
    simpa using wrapFill_spec cap w buf hist si srcSize h0 hlo hsi hsz hcap hla hsuf

end Zvbi.Demux
