import ZvbiModel.Demux.CorPacket
/-!
# Coroutine interface: one iteration of `demux_pes_packet` without / with a callback  (helper lemmas for C07)
-/
namespace Zvbi.Demux

variable {cfg : SrcCfg}

theorem validHeader_frame (fs : FS) (h : Bytes) (fs' : FS) (hv : validHeader fs h = some fs') :
    fs'.frame = fs.frame := by
  unfold validHeader at hv
  simp only [] at hv
  repeat' split at hv
  all_goals first
    | (cases hv; done)
    | (cases hv; rfl)

theorem foundRes_frame (p : Nat) (fs : FS) (h : Bytes) : (foundRes p fs h).2.frame = fs.frame := by
  unfold foundRes
  simp only []
  split
  · rfl
  · split
    · rfl
    · rename_i fs' hv; exact validHeader_frame fs h fs' hv

theorem scanFinish_frame (sk : Nat) (fs : FS) (win : Bytes) (R : ScanR) :
    (scanFinish sk fs win R).2.1.frame = fs.frame ∧ (scanFinish sk fs win R).2.2.1 = [] := by
  cases R with
  | fault e => exact ⟨rfl, rfl⟩
  | notFound p => exact ⟨rfl, rfl⟩
  | foreign p =>
    simp only [scanFinish]
    split <;> exact ⟨rfl, rfl⟩
  | found p =>
    simp only [scanFinish]
    split
    · exact ⟨rfl, rfl⟩
    · exact ⟨foundRes_frame _ _ _, rfl⟩

/-- one loop body without / with a callback on the same window (repaired source) -/
theorem pesIter_cor (hse : cfg.corSkipsEmpty = true) (hpd : cfg.pesDiscards = true)
    (sk la : Nat) (fs : FS) (win : Bytes) (hla : 48 ≤ la) (hla2 : la ≤ 65495) (hw : la ≤ win.length)
    (hL : fs.frame.lines.length ≤ 64) :
    (∃ sk' la' fs' outs, pesIter true cfg sk la fs win = ((sk', la'), fs', outs, none) ∧
        pesIter false cfg sk la fs win = ((sk', la'), fs', [], none) ∧
        outs.filter nonEmpty = [] ∧ fs'.frame.lines.length ≤ 64 ∧
        1 ≤ sk' ∧ 48 ≤ la' ∧ la' ≤ 65495 ∧ la < sk' + la') ∨
    (la > 48 ∧ ∃ fs1 fs', pesIter false cfg sk la fs win = ((sk, la), fs1, [], some .callback) ∧
        fs1.newFrame = true ∧ fs1.frame.lines ≠ [] ∧ fs1.frame.lines.length ≤ 64 ∧ fs'.frame.lines.length ≤ 64 ∧
        pesIter true cfg sk la fs win = ((la, 48), fs', [{ pts := fs1.framePts, lines := fs1.frame.lines }], none) ∧
        ∀ (fsH : FS) (sk2 : Nat) (cb : Bool) (win2 : Bytes), fsH.newFrame = true → fsH.packetPts = fs1.packetPts →
          la ≤ win2.length → win2.take la = win.take la →
          ∃ fs'' outs'', pesIter cb cfg sk2 la fsH win2 = ((la, 48), fs'', outs'', none) ∧
            outs''.filter nonEmpty = [] ∧ FsForget 48 fs'' fs' ∧ fs''.frame.lines.length ≤ 64) := by
  by_cases hp : la > 48
  · have htl : 2 ≤ (win.take la).length := by simp only [List.length_take]; omega
    rcases payload_cor cfg hse hpd sk la fs (win.take la) htl hL with
      ⟨fs', outs, h1, h2, h3, h4⟩ | ⟨fs1, fs', h1, h2, h3, h4, h4', h5, h6⟩
    · left
      refine ⟨la, 48, fs', outs, ?_, ?_, h3, h4, by omega, by omega, by omega, by omega⟩
      · rw [pesIter_payload _ _ _ _ _ hp hw, h1]
      · rw [pesIter_payload _ _ _ _ _ hp hw, h2]
    · right
      refine ⟨hp, fs1, fs', ?_, h2, h3, h4, h4', ?_, ?_⟩
      · rw [pesIter_payload _ _ _ _ _ hp hw, h1]
      · rw [pesIter_payload _ _ _ _ _ hp hw, h5]
      · intro fsH sk2 cb win2 hn hpp hw2 htk
        rw [pesIter_payload _ _ _ _ _ hp hw2, htk]
        exact h6 fsH sk2 cb hn hpp
  · left
    have h48 : la = 48 := by omega
    subst h48
    obtain ⟨sk', la', fs', outs, h1, b1, b2, b3, _⟩ :=
      pesIter_arun (cfg := cfg) win win fs sk 48 (List.prefix_refl _) hla hla2 hw
    have hs := pesIter_scan (cfg := cfg) true sk fs win hw
    have hf := scanFinish_frame sk fs win (scanLoop (win.length + 1) win (win.length - 48) 0)
    rw [← hs, h1] at hf
    simp only [] at hf
    obtain ⟨hf1, rfl⟩ := hf
    refine ⟨sk', la', fs', [], h1, ?_, rfl, by rw [hf1]; exact hL, b1, b2, b3, by omega⟩
    rw [pesIter_scan false sk fs win hw, ← hs, h1]

theorem pesIter_new_no_callback (hse : cfg.corSkipsEmpty = true) (sk la : Nat) (fs : FS) (win : Bytes)
    (hp : la > 48) (hw : la ≤ win.length) (hn : fs.newFrame = true) :
    (pesIter false cfg sk la fs win).2.2.2 = none := by
  rw [pesIter_payload _ _ _ _ _ hp hw]
  exact payload_new_no_callback cfg hse sk la fs _ (by simp only [List.length_take]; omega) hn

end Zvbi.Demux
