import ZvbiModel.Demux.CorFeed
/-!
# Successive drained buffers = the same buffers fed, minus the frames without lines  (C07, repaired source)
-/
namespace Zvbi.Demux

variable {cfg : SrcCfg}

/-- `CorB.frames` for every continuation `X` of the stream -/
theorem corLoop_ext (hse : cfg.corSkipsEmpty = true) (hpd : cfg.pesDiscards = true) :
    ∀ (fuel : Nat) (s : St) (buf hist : Bytes) (si srcSize : Nat),
    PInv s → LinesOK s → si ≤ buf.length → srcSize ≤ buf.length → s.pending <:+ hist ++ buf.take si →
    ∀ (s' : St) (outs : List FrameOut) (si' : Nat),
    pesLoop fuel false cfg s buf si srcSize = (s', outs, si', .callback) →
    ∀ (X : Bytes) (fsH : FS), fsH.newFrame = true → fsH.packetPts = s'.fs.packetPts →
    (arun cfg s.core (s.pending ++ buf.drop si ++ X)).frames.filter nonEmpty =
      { pts := s'.fs.framePts, lines := s'.fs.frame.lines } ::
        (arun cfg { skip := 0, lookahead := s'.pw.lookahead, fs := fsH }
          (s'.pending ++ buf.drop si' ++ X)).frames.filter nonEmpty := by
  intro fuel
  induction fuel with
  | zero => intro s buf hist si srcSize _ _ _ _ _ s' outs si' h; simp [pesLoop] at h
  | succ fuel ih =>
    intro s buf hist si srcSize hinv hlines hsi hsz hsuf s' outs si1 hloop X fsH hH1 hH2
    obtain ⟨hlo, hla1, hla2⟩ := hinv
    have hspec := wrapAround_spec PES_BUF_SIZE s.pw buf hist si srcSize hlo hsi hsz
      (by simp only [PES_BUF_SIZE]; omega) (by omega) hsuf
    unfold pesLoop at hloop
    cases hwr : wrapAround PES_BUF_SIZE s.pw buf si srcSize with
    | fault e => rw [hwr] at hspec; exact hspec.elim
    | more w' si' => rw [hwr] at hloop; simp at hloop
    | win w' si' win =>
      rw [hwr] at hspec hloop
      have hw : WrapWin s.pw buf hist si w' si' win := hspec
      simp only [] at hloop
      have hpre0 : win <+: w'.pend ++ buf.drop si' := by rw [hw.rest]; exact hw.pre
      have hpre : win <+: w'.pend ++ buf.drop si' ++ X := hpre0.trans (List.prefix_append _ _)
      have hwl : w'.lookahead ≤ win.length := by rw [hw.la]; exact hw.len
      have hb1 : 48 ≤ w'.lookahead := by rw [hw.la]; exact hla1
      have hb2 : w'.lookahead ≤ 65495 := by rw [hw.la]; exact hla2
      have hskL : s.pw.skip ≤ (s.pending ++ buf.drop si).length := hw.skip_le
      have hL1X : w'.pend ++ buf.drop si' ++ X = (s.pending ++ buf.drop si ++ X).drop s.pw.skip := by
        rw [List.drop_append_of_le_length hskL]
        have hr : w'.pend ++ buf.drop si' = (s.pending ++ buf.drop si).drop s.pw.skip := hw.rest
        rw [hr]
      have e0 := arun_skip (cfg := cfg) (s.pending ++ buf.drop si ++ X) s.pw.skip 0 s.pw.lookahead s.fs
        (by rw [List.length_append]; omega)
      simp only [Nat.add_zero] at e0
      have e1 : arun cfg s.core (s.pending ++ buf.drop si ++ X)
          = arun cfg { skip := 0, lookahead := w'.lookahead, fs := s.fs } (w'.pend ++ buf.drop si' ++ X) := by
        rw [hL1X, hw.la]; exact e0
      have hwinlen : win.length ≤ (w'.pend ++ buf.drop si' ++ X).length := hpre.length_le
      obtain ⟨sk', la', fs', outs1, hit, hsk, hl1, hl2, har⟩ :=
        pesIter_arun (cfg := cfg) (w'.pend ++ buf.drop si' ++ X) win s.fs w'.skip w'.lookahead hpre hb1 hb2 hwl
      rcases pesIter_cor (cfg := cfg) hse hpd w'.skip w'.lookahead s.fs win hb1 hb2 hwl hlines with
        ⟨sk2, la2, fs2, outs2, ht, hf, hq, hl64, b1, b2, b3, b4⟩ | ⟨hp, fs1, fsF, hf, hn, hne, h64, _, ht, hH⟩
      · rw [hit] at ht
        simp only [Prod.mk.injEq] at ht
        obtain ⟨⟨rfl, rfl⟩, rfl, rfl, _⟩ := ht
        rw [hf] at hloop
        simp only [] at hloop
        rcases hrec : pesLoop fuel false cfg (St.mk { w' with skip := sk', lookahead := la' } fs') buf si' srcSize with
          ⟨s2, outs2, si2, stop⟩
        rw [hrec] at hloop
        simp only [Prod.mk.injEq] at hloop
        obtain ⟨rfl, _, rfl, rfl⟩ := hloop
        have hrec' := ih (St.mk { w' with skip := sk', lookahead := la' } fs') buf hist si' srcSize
          ⟨hw.lo, hl1, hl2⟩ hl64 hw.si_le hsz hw.suf s2 outs2 si2 hrec X fsH hH1 hH2
        have e2 : arun cfg s.core (s.pending ++ buf.drop si ++ X)
            = (arun cfg (St.mk { w' with skip := sk', lookahead := la' } fs').core (w'.pend ++ buf.drop si' ++ X)).pre outs1 := by
          rw [e1, har]; rfl
        rw [e2]
        simp only [ARes.pre, List.filter_append, hq, List.nil_append]
        exact hrec'
      · rw [hit] at ht
        simp only [Prod.mk.injEq] at ht
        obtain ⟨⟨rfl, rfl⟩, rfl, rfl, _⟩ := ht
        rw [hf] at hloop
        simp only [Prod.mk.injEq] at hloop
        obtain ⟨rfl, _, rfl, _⟩ := hloop
        have hLt : (w'.pend ++ buf.drop si' ++ X).take w'.lookahead = win.take w'.lookahead := by
          obtain ⟨t, ht⟩ := hpre; rw [← ht]; exact List.take_append_of_le_length hwl
        obtain ⟨fs'', outs'', m1, m2, m3, _⟩ := hH fsH 0 true ((w'.pend ++ buf.drop si' ++ X).take w'.lookahead) hH1 hH2
          (by simp only [List.length_take]; omega) (by rw [List.take_take, Nat.min_self, hLt])
        have e4 : arun cfg { skip := 0, lookahead := w'.lookahead, fs := fsH } (w'.pend ++ buf.drop si' ++ X)
            = (arun cfg { skip := w'.lookahead, lookahead := 48, fs := fs'' } (w'.pend ++ buf.drop si' ++ X)).pre outs'' :=
          arun_micro _ _ w'.lookahead 48 fs'' outs'' rfl (by simp only []; omega) (by omega) m1 (by omega)
        have hfg := arun_forget (cfg := cfg) (w'.pend ++ buf.drop si' ++ X)
          { skip := w'.lookahead, lookahead := 48, fs := fs'' } { skip := w'.lookahead, lookahead := 48, fs := fs' }
          rfl rfl (Nat.le_refl _) (by omega) m3
        have hF : nonEmpty { pts := fs1.framePts, lines := fs1.frame.lines } = true := by
          simp only [nonEmpty]
          cases hl : fs1.frame.lines with
          | nil => exact absurd hl hne
          | cons a t => rfl
        show (arun cfg s.core _).frames.filter nonEmpty
          = _ :: (arun cfg { skip := 0, lookahead := w'.lookahead, fs := fsH } (w'.pend ++ buf.drop si' ++ X)).frames.filter nonEmpty
        rw [e1, har, e4]
        simp only [ARes.pre, List.filter_append, m2, List.nil_append, hfg.1]
        simp only [List.filter_cons, hF, if_true, List.filter_nil, List.singleton_append]

/-- `pesCor_refines` with the continuation form of `CorB.frames` -/
theorem pesCor_ext (hse : cfg.corSkipsEmpty = true) (hpd : cfg.pesDiscards = true)
    (s : St) (buf hist : Bytes) (si : Nat) (hinv : PInv s) (hj : JInv s) (hl : LinesOK s) (hsi : si ≤ buf.length)
    (hsuf : s.pending <:+ hist ++ buf.take si) :
    (∃ s', pesCor cfg s buf si 64 = (s', buf.length, none, none) ∧ CorA cfg s (s.pending ++ buf.drop si) s') ∨
    (∃ s' si', pesCor cfg s buf si 64
        = (handOver s', si', some { pts := s'.fs.framePts, lines := s'.fs.frame.lines }, none) ∧
        CorB cfg s buf hist (s.pending ++ buf.drop si) s' si' ∧
        ∀ (X : Bytes) (fsH : FS), fsH.newFrame = true → fsH.packetPts = s'.fs.packetPts →
          (arun cfg s.core (s.pending ++ buf.drop si ++ X)).frames.filter nonEmpty =
            { pts := s'.fs.framePts, lines := s'.fs.frame.lines } ::
              (arun cfg { skip := 0, lookahead := s'.pw.lookahead, fs := fsH }
                (s'.pending ++ buf.drop si' ++ X)).frames.filter nonEmpty) := by
  have hpl : s.pending.length = s.pw.leftover := s.pw.pend_length hinv.1
  unfold pesCor
  rcases corLoop_refines (cfg := cfg) hse hpd (pesFuel s buf) s buf hist si (buf.length - si) hinv hj hl hsi
      (Nat.sub_le _ _) hsuf
      (by simp only [pesFuel, List.length_append, List.length_drop, hpl]; omega) with
    ⟨s', hloop, hA⟩ | ⟨s', si', hloop, hB⟩
  · left
    rw [hloop]
    exact ⟨s', rfl, hA⟩
  · right
    have hext := corLoop_ext (cfg := cfg) hse hpd (pesFuel s buf) s buf hist si (buf.length - si) hinv hl hsi
      (Nat.sub_le _ _) hsuf s' [] si' hloop
    rw [hloop]
    simp only []
    have hne := hB.ne
    have h64 := hB.le64
    have hmin : min s'.fs.frame.lines.length 64 = s'.fs.frame.lines.length := Nat.min_eq_left h64
    have hpos : s'.fs.frame.lines.length > 0 := by
      cases hl : s'.fs.frame.lines with
      | nil => exact absurd hl hne
      | cons a t => simp
    rw [hmin, if_pos hpos, List.take_length]
    exact ⟨s', si', rfl, hB, hext⟩

/-- nothing with lines is pending in the bytes the context holds -/
def Quiet (cfg : SrcCfg) (s : St) : Prop := (arun cfg s.core s.pending).frames.filter nonEmpty = []

/-- invariant of the contexts a drain loop leaves behind (weaker than `CorInv`: after a hand-over at the
very end of a buffer the context still sits at that packet's payload window) -/
def DrainInv (cfg : SrcCfg) (s : St) : Prop := PInv s ∧ JInv s ∧ LinesOK s ∧ Quiet cfg s

theorem DrainInv_of_CorInv (s : St) (h : CorInv cfg s) : DrainInv cfg s := by
  refine ⟨h.1.1, JInv_of_Inv s h.1, h.2, ?_⟩
  have hs : arun cfg s.core s.pending = _ := h.1.2
  unfold Quiet; rw [hs]; rfl

/-- the context after the drain continues like the stream machine after the same bytes -/
theorem corDrain_ext (hse : cfg.corSkipsEmpty = true) (hpd : cfg.pesDiscards = true) (buf hist : Bytes) :
    ∀ (fuel : Nat) (s : St) (si : Nat), PInv s → JInv s → LinesOK s → si ≤ buf.length →
    s.pending <:+ hist ++ buf.take si →
    corMeasure s (s.pending ++ buf.drop si).length + 2 ≤ fuel →
    (si = buf.length → Quiet cfg s) →
    DrainInv cfg (pesCorDrain fuel cfg 0 s buf si 64).st ∧
    ∀ X : Bytes, (arun cfg s.core (s.pending ++ buf.drop si ++ X)).frames.filter nonEmpty
      = (arun cfg s.core (s.pending ++ buf.drop si)).frames.filter nonEmpty ++
        (arun cfg (pesCorDrain fuel cfg 0 s buf si 64).st.core
          ((pesCorDrain fuel cfg 0 s buf si 64).st.pending ++ X)).frames.filter nonEmpty := by
  intro fuel
  induction fuel with
  | zero => intro s si _ _ _ _ _ h; omega
  | succ fuel ih =>
    intro s si hinv hj hl hsi hsuf hfuel hq
    unfold pesCorDrain
    by_cases hge : si ≥ buf.length
    · rw [if_pos hge]
      have : si = buf.length := by omega
      have hq' : (arun cfg s.core s.pending).frames.filter nonEmpty = [] := hq this
      refine ⟨⟨hinv, hj, hl, hq'⟩, fun X => ?_⟩
      rw [this, List.drop_length, List.append_nil, hq', List.nil_append]
    · rw [if_neg hge]
      rcases pesCor_ext (cfg := cfg) hse hpd s buf hist si hinv hj hl hsi hsuf with
        ⟨s', hcor, hA⟩ | ⟨s', si', hcor, hB, hext⟩
      · rw [hcor]
        have hne : ¬ (buf.length = si ∧ (none : Option FrameOut).isNone = true) := fun h => hge (by omega)
        simp only [if_neg hne, COR_STALL_LIMIT]
        rw [if_neg (by omega)]
        cases fuel with
        | zero => omega
        | succ k =>
          unfold pesCorDrain
          rw [if_pos (Nat.le_refl _)]
          show DrainInv cfg s' ∧ ∀ X : Bytes, _ = _ ++ (arun cfg s'.core (s'.pending ++ X)).frames.filter nonEmpty
          have hidem := arun_idem (cfg := cfg) s.core (s.pending ++ buf.drop si) hA.stop
          rw [hA.core, hA.pend] at hidem
          refine ⟨⟨hA.inv, hA.j, hA.lines, by unfold Quiet; rw [hidem]; rfl⟩, fun X => ?_⟩
          rw [arun_append (cfg := cfg) (s.pending ++ buf.drop si) s.core X hA.stop]
          simp only [ARes.andThen, List.filter_append, hA.core, hA.pend]
      · rw [hcor]
        have hne : ¬ (si' = si ∧ (some ({ pts := s'.fs.framePts, lines := s'.fs.frame.lines } : FrameOut)).isNone = true) :=
          fun h => by simp at h
        simp only [if_neg hne, COR_STALL_LIMIT]
        rw [if_neg (by omega)]
        have hpendH : (handOver s').pending = s'.pending := rfl
        have hcoreH := handOver_core s' hB.skip0
        have hplH : s'.pending.length = s'.pw.leftover := s'.pw.pend_length hB.inv.1
        have hjH : s'.pw.leftover ≤ s'.pw.skip + s'.pw.lookahead := hB.j
        have hmeas : corMeasure (handOver s') ((handOver s').pending ++ buf.drop si').length + 2 ≤ fuel := by
          have hf0 : corFlag (handOver s') = 0 := by
            unfold corFlag; rw [if_pos ⟨hB.nf, hB.la⟩]
          have h1 := hB.meas
          have h2 := hB.meas2
          have h3 := hB.win
          have h4 := hB.skip0
          rw [hpendH]
          unfold corMeasure at hfuel ⊢
          rw [hf0]
          show 2 * ((s'.pending ++ buf.drop si').length - (s'.pw.skip + s'.pw.lookahead)) + 0 + 2 ≤ fuel
          unfold corFlag at hfuel
          split at hfuel
          · rename_i hc
            have := h2 hc.1 hc.2
            omega
          · omega
        have hquiet : si' = buf.length → Quiet cfg (handOver s') := by
          intro hsi'
          have h3 := hB.win
          have h4 := hB.skip0
          rw [hsi', List.drop_length, List.append_nil] at h3
          have := hB.last (by rw [hsi', List.drop_length, List.append_nil]; omega) (handOver s').fs hB.nf rfl
          rw [hsi', List.drop_length, List.append_nil] at this
          unfold Quiet
          rw [hcoreH, hpendH]; exact this
        obtain ⟨e1, e2⟩ := ih (handOver s') si' hB.inv hB.j
          (by show ([] : List Sliced).length ≤ 64; exact Nat.zero_le _) hB.si_le hB.suf hmeas hquiet
        refine ⟨e1, fun X => ?_⟩
        have e2X := e2 X
        rw [hcoreH, hpendH] at e2X
        rw [hext X (handOver s').fs hB.nf rfl, hB.frames (handOver s').fs hB.nf rfl, e2X]
        rfl

/-- the coroutine-side context `sc` and the feed-side context `sf` deliver the same frames with lines on
every continuation of the stream (the coroutine side may lag inside its wrap window) -/
def CorSim (cfg : SrcCfg) (sc sf : St) : Prop :=
  ∀ X : Bytes, (arun cfg sc.core (sc.pending ++ X)).frames.filter nonEmpty
    = (arun cfg sf.core (sf.pending ++ X)).frames.filter nonEmpty

theorem CorSim.refl (s : St) : CorSim cfg s s := fun _ => rfl

/-- one drained buffer from related contexts: same frames, related contexts again -/
theorem corDrain_step (hse : cfg.corSkipsEmpty = true) (hpd : cfg.pesDiscards = true) (sc sf : St) (b : Bytes)
    (hc : DrainInv cfg sc) (hf : Inv cfg sf) (hsim : CorSim cfg sc sf) :
    (pesCorDrain (2 * b.length + 4) cfg 0 sc b 0 64).err = none ∧
    (pesCorDrain (2 * b.length + 4) cfg 0 sc b 0 64).stalled = false ∧
    (pesCorDrain (2 * b.length + 4) cfg 0 sc b 0 64).frames = (pesFeed cfg sf b).frames.filter nonEmpty ∧
    DrainInv cfg (pesCorDrain (2 * b.length + 4) cfg 0 sc b 0 64).st ∧
    CorSim cfg (pesCorDrain (2 * b.length + 4) cfg 0 sc b 0 64).st (pesFeed cfg sf b).st := by
  obtain ⟨hinv, hj, hl, hq⟩ := hc
  have hpl : sc.pending.length = sc.pw.leftover := sc.pw.pend_length hinv.1
  have hmeas : corMeasure sc (sc.pending ++ b.drop 0).length + 2 ≤ 2 * b.length + 4 := by
    have hj' : sc.pw.leftover ≤ sc.pw.skip + sc.pw.lookahead := hj
    have hfl : corFlag sc ≤ 1 := by unfold corFlag; split <;> omega
    unfold corMeasure
    simp only [List.drop_zero, List.length_append, hpl]
    omega
  have hd := corDrain_refines (cfg := cfg) hse hpd b sc.pending (2 * b.length + 4) sc 0 hinv hj hl (Nat.zero_le _)
    (by simp) hmeas (fun _ => hq)
  have hx := corDrain_ext (cfg := cfg) hse hpd b sc.pending (2 * b.length + 4) sc 0 hinv hj hl (Nat.zero_le _)
    (by simp) hmeas (fun _ => hq)
  rw [List.drop_zero] at hd hx
  obtain ⟨_, _, har⟩ := pesFeed_refines (cfg := cfg) sf b hf
  have hA : (arun cfg sc.core (sc.pending ++ b)).frames.filter nonEmpty = (pesFeed cfg sf b).frames.filter nonEmpty := by
    rw [hsim b, har]
  refine ⟨hd.1, hd.2.1, by rw [hd.2.2, hA], hx.1, fun X => ?_⟩
  have h1 := hx.2 X
  have h2 := hsim (b ++ X)
  rw [← List.append_assoc, h1, ← List.append_assoc,
    arun_append (cfg := cfg) (sf.pending ++ b) sf.core X (by rw [har]), har] at h2
  simp only [ARes.andThen, List.filter_append, hA] at h2
  exact List.append_cancel_left h2

/-- successive drained buffers from related contexts -/
theorem pesCorDrains_eq_feeds_from (hse : cfg.corSkipsEmpty = true) (hpd : cfg.pesDiscards = true) :
    ∀ (bufs : List Bytes) (sc sf : St), DrainInv cfg sc → Inv cfg sf → CorSim cfg sc sf →
    pesCorDrains cfg sc bufs = (pesFeeds cfg sf bufs).frames.filter (fun f => !f.lines.isEmpty) := by
  intro bufs
  induction bufs with
  | nil => intro sc sf _ _ _; rfl
  | cons b bs ih =>
    intro sc sf hc hf hsim
    obtain ⟨_, _, h3, h4, h5⟩ := corDrain_step (cfg := cfg) hse hpd sc sf b hc hf hsim
    obtain ⟨he, hi1, _⟩ := pesFeed_refines (cfg := cfg) sf b hf
    have hrec := ih _ _ h4 hi1 h5
    simp only [pesCorDrains, pesFeeds, he, List.filter_append]
    rw [h3, hrec]
    rfl

/-- **cor_equals_feed, composed** (`cor_equals_feed_composed_full`): draining successive buffers through
`vbi_dvb_demux_cor` returns the frames with lines that feeding the same buffers delivers (repaired source) -/
theorem cor_equals_feed_composed (cfg : SrcCfg) : cor_equals_feed_composed_full cfg := by
  intro hse hpd chunks bufs
  have hci := CorInv_feeds (cfg := cfg) hse hpd chunks
  exact pesCorDrains_eq_feeds_from hse hpd bufs _ _ (DrainInv_of_CorInv _ hci) hci.1 (CorSim.refl _)

/-- non-vacuity: the second buffer starts in a context that is not `CorInv` (hand-over at the very end of
the first buffer) and still yields its frames -/
example : (pesCorDrains SrcCfg.repaired St.init
      [linePacket 3 7 0x55 ++ linePacket 4 7 0x66, linePacket 5 7 0x77 ++ linePacket 6 7 0x11]).map
    (fun f => (f.pts, f.lines.length)) = [(3, 1), (4, 1), (5, 1)] := by decide +kernel

end Zvbi.Demux
