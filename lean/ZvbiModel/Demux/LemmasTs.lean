import ZvbiModel.Demux.Ts
/-!
# TS path: the loop body does not care where the input is cut  (helper lemmas for C07, TS part)
-/
namespace Zvbi.Demux

variable {cfg : SrcCfg}

def Ph.shift (k : Nat) : Ph → Ph
  | .stop s r => .stop s r
  | .go s n => .go s (k + n)

/-- not a fault -/
def Ph.ok : Ph → Prop
  | .stop _ (.fault _) => False
  | _ => True

/-! ## phase C (skip) -/

theorem tsPhaseC_go (s s' : TsSt) (x y : Bytes) (n : Nat) (h : tsPhaseC s x = .go s' n) :
    n ≤ x.length ∧ tsPhaseC s (x ++ y) = .go s' n ∧ s'.skip = 0 ∧ s'.consume = s.consume ∧ s'.frameRest = s.frameRest := by
  unfold tsPhaseC at h ⊢
  split at h
  · cases h
  · rename_i hle
    cases h
    refine ⟨by omega, ?_, rfl, rfl, rfl⟩
    rw [if_neg (by simp; omega)]

theorem tsPhaseC_more (s s' : TsSt) (x y : Bytes) (h : tsPhaseC s x = .stop s' .needMore) :
    tsPhaseC s (x ++ y) = (tsPhaseC s' y).shift x.length := by
  unfold tsPhaseC at h ⊢
  split at h
  · rename_i hgt
    cases h
    simp only [List.length_append]
    by_cases h2 : s.skip > x.length + y.length
    · rw [if_pos h2, if_pos (by omega)]
      simp only [Ph.shift]
      congr 2
      omega
    · rw [if_neg h2, if_neg (by omega)]
      simp only [Ph.shift]
      congr 1
      omega
  · cases h

theorem tsPhaseC_reentry (s : TsSt) (y : Bytes) (h : s.skip = 0) : tsPhaseC s y = .go s 0 := by
  unfold tsPhaseC
  rw [if_neg (by omega), h]
  cases s; simp_all

/-! ## phase D (lookahead bytes into ts_buffer) -/

theorem tsPhaseD_go (s s' : TsSt) (x y : Bytes) (n : Nat) (h : tsPhaseD s x = .go s' n) :
    n ≤ x.length ∧ tsPhaseD s (x ++ y) = .go s' n := by
  unfold tsPhaseD at h ⊢
  split at h
  · split at h <;> cases h
  · rename_i hle
    split at h
    · cases h
    · rename_i hcap
      cases h
      refine ⟨by omega, ?_⟩
      rw [if_neg (by simp; omega), if_neg hcap, List.take_append_of_le_length (by omega)]

/-- like `shift`, and the (dead) `lookahead` field of a completed copy holds the caller's value -/
def Ph.shiftLa (k la : Nat) : Ph → Ph
  | .stop s r => .stop s r
  | .go s n => .go { s with lookahead := la } (k + n)

theorem tsPhaseD_more (s s' : TsSt) (x y : Bytes) (h : tsPhaseD s x = .stop s' .needMore)
    (hok : (tsPhaseD s' y).ok) : tsPhaseD s (x ++ y) = (tsPhaseD s' y).shiftLa x.length s.lookahead := by
  -- what the first, partial attempt did
  have hfacts : s.lookahead > x.length ∧ ¬ s.tsBuf.length + x.length > TS_BUF_SIZE ∧
      s' = { s with tsBuf := s.tsBuf ++ x, lookahead := s.lookahead - x.length } := by
    unfold tsPhaseD at h
    split at h
    · rename_i hgt
      split at h
      · cases h
      · rename_i hcap; cases h; exact ⟨hgt, hcap, rfl⟩
    · split at h <;> cases h
  obtain ⟨hgt, hcap, hs'⟩ := hfacts
  have e1 : s'.lookahead = s.lookahead - x.length := by rw [hs']
  have e2 : s'.tsBuf.length = s.tsBuf.length + x.length := by rw [hs']; simp
  unfold tsPhaseD at hok ⊢
  simp only [List.length_append]
  by_cases h2 : s.lookahead > x.length + y.length
  · have h2' : s'.lookahead > y.length := by omega
    rw [if_pos h2]
    rw [if_pos h2'] at hok ⊢
    by_cases h3 : s.tsBuf.length + (x.length + y.length) > TS_BUF_SIZE
    · have h3' : s'.tsBuf.length + y.length > TS_BUF_SIZE := by omega
      rw [if_pos h3'] at hok
      exact hok.elim
    · have h3' : ¬ s'.tsBuf.length + y.length > TS_BUF_SIZE := by omega
      rw [if_neg h3, if_neg h3']
      subst hs'
      simp only [Ph.shiftLa, List.append_assoc, Nat.sub_sub]
  · have h2' : ¬ s'.lookahead > y.length := by omega
    rw [if_neg h2]
    rw [if_neg h2'] at hok ⊢
    by_cases h3 : s.tsBuf.length + s.lookahead > TS_BUF_SIZE
    · have h3' : s'.tsBuf.length + s'.lookahead > TS_BUF_SIZE := by omega
      rw [if_pos h3'] at hok
      exact hok.elim
    · have h3' : ¬ s'.tsBuf.length + s'.lookahead > TS_BUF_SIZE := by omega
      rw [if_neg h3, if_neg h3']
      have ht : (x ++ y).take s.lookahead = x ++ y.take (s.lookahead - x.length) := by
        rw [List.take_append, List.take_of_length_le (by omega)]
      subst hs'
      simp only [Ph.shiftLa, ht, List.append_assoc]
      congr 1
      omega

/-! ## phase A (payload bytes into pes_buffer) -/

theorem tsPesDone_shift (s1 : TsSt) (k n : Nat) : tsPesDone s1 (k + n) = (tsPesDone s1 n).shift k := by
  unfold tsPesDone
  split
  · split
    · rfl
    · split <;> rfl
  · rfl

theorem tsPesDone_consume (s1 s' : TsSt) (n m : Nat) (h : tsPesDone s1 n = .go s' m) :
    m = n ∧ s'.consume = s1.consume := by
  unfold tsPesDone at h
  split at h
  · split at h
    · cases h
    · split at h <;> (cases h; exact ⟨rfl, rfl⟩)
  · cases h; exact ⟨rfl, rfl⟩

theorem tsPhaseA_append_of_le (s : TsSt) (x y : Bytes) (h : s.consume ≤ x.length) :
    tsPhaseA s (x ++ y) = tsPhaseA s x := by
  unfold tsPhaseA
  by_cases hc : s.consume > 0
  · simp only [if_pos hc]
    rw [if_neg (show ¬ s.consume > (x ++ y).length by simp; omega),
      if_neg (show ¬ s.consume > x.length by omega), List.take_append_of_le_length h]
  · simp only [if_neg hc]

theorem tsPhaseA_go (s s' : TsSt) (x y : Bytes) (n : Nat) (h : tsPhaseA s x = .go s' n) :
    n ≤ x.length ∧ tsPhaseA s (x ++ y) = .go s' n ∧ s'.consume = 0 := by
  have hle : s.consume ≤ x.length ∧ n ≤ x.length ∧ s'.consume = 0 := by
    unfold tsPhaseA at h
    by_cases hc : s.consume > 0
    · rw [if_pos hc] at h
      by_cases hgt : s.consume > x.length
      · rw [if_pos hgt] at h
        split at h
        · cases h
        · split at h <;> cases h
      · rw [if_neg hgt] at h
        split at h
        · cases h
        · split at h
          · cases h
          · have := tsPesDone_consume _ _ _ _ h
            exact ⟨by omega, by omega, by rw [this.2]⟩
    · rw [if_neg hc] at h
      cases h
      exact ⟨by omega, Nat.zero_le _, by omega⟩
  exact ⟨hle.2.1, by rw [tsPhaseA_append_of_le s x y hle.1]; exact h, hle.2.2⟩

theorem tsPhaseA_reentry (s : TsSt) (y : Bytes) (h : s.consume = 0) : tsPhaseA s y = .go s 0 := by
  unfold tsPhaseA
  rw [if_neg (by omega)]

theorem tsPhaseA_more (s s' : TsSt) (x y : Bytes) (h : tsPhaseA s x = .stop s' .needMore)
    (hok : (tsPhaseA s' y).ok) : tsPhaseA s (x ++ y) = (tsPhaseA s' y).shift x.length := by
  have hfacts : s.consume > x.length ∧ ¬ s.pes.length + x.length > PES_BUF_SIZE ∧ ¬ s.pesTodo < x.length ∧
      s' = { s with pes := s.pes ++ x, pesTodo := s.pesTodo - x.length, consume := s.consume - x.length } := by
    unfold tsPhaseA at h
    by_cases hc : s.consume > 0
    · rw [if_pos hc] at h
      by_cases hgt : s.consume > x.length
      · rw [if_pos hgt] at h
        split at h
        · cases h
        · rename_i h1
          split at h
          · cases h
          · rename_i h2; cases h; exact ⟨hgt, h1, h2, rfl⟩
      · rw [if_neg hgt] at h
        split at h
        · cases h
        · split at h
          · cases h
          · exfalso
            unfold tsPesDone at h
            split at h
            · split at h
              · cases h
              · split at h <;> cases h
            · cases h
    · rw [if_neg hc] at h; cases h
  obtain ⟨hgt, hcap, hund, hs'⟩ := hfacts
  have e1 : s'.consume = s.consume - x.length := by rw [hs']
  have e2 : s'.pes.length = s.pes.length + x.length := by rw [hs']; simp
  have e3 : s'.pesTodo = s.pesTodo - x.length := by rw [hs']
  unfold tsPhaseA at hok ⊢
  simp only [List.length_append]
  have hc : s.consume > 0 := by omega
  have hc' : s'.consume > 0 := by omega
  rw [if_pos hc]
  rw [if_pos hc'] at hok ⊢
  by_cases h2 : s.consume > x.length + y.length
  · have h2' : s'.consume > y.length := by omega
    rw [if_pos h2]
    rw [if_pos h2'] at hok ⊢
    by_cases h3 : s.pes.length + (x.length + y.length) > PES_BUF_SIZE
    · rw [if_pos (show s'.pes.length + y.length > PES_BUF_SIZE by omega)] at hok
      exact hok.elim
    · rw [if_neg h3]
      rw [if_neg (show ¬ s'.pes.length + y.length > PES_BUF_SIZE by omega)] at hok ⊢
      by_cases h4 : s.pesTodo < x.length + y.length
      · rw [if_pos (show s'.pesTodo < y.length by omega)] at hok
        exact hok.elim
      · rw [if_neg h4, if_neg (show ¬ s'.pesTodo < y.length by omega)]
        subst hs'
        simp only [Ph.shift, List.append_assoc, Nat.sub_sub]
  · have h2' : ¬ s'.consume > y.length := by omega
    rw [if_neg h2]
    rw [if_neg h2'] at hok ⊢
    by_cases h3 : s.pes.length + s.consume > PES_BUF_SIZE
    · rw [if_pos (show s'.pes.length + s'.consume > PES_BUF_SIZE by omega)] at hok
      exact hok.elim
    · rw [if_neg h3]
      rw [if_neg (show ¬ s'.pes.length + s'.consume > PES_BUF_SIZE by omega)] at hok ⊢
      by_cases h4 : s.pesTodo < s.consume
      · rw [if_pos (show s'.pesTodo < s'.consume by omega)] at hok
        exact hok.elim
      · rw [if_neg h4, if_neg (show ¬ s'.pesTodo < s'.consume by omega)]
        have ht : (x ++ y).take s.consume = x ++ y.take (s.consume - x.length) := by
          rw [List.take_append, List.take_of_length_le (by omega)]
        have hn : s.consume = x.length + s'.consume := by omega
        have hs1 : ({ s with pes := s.pes ++ (x ++ y).take s.consume, pesTodo := s.pesTodo - s.consume,
                             consume := 0 } : TsSt)
            = { s' with pes := s'.pes ++ y.take s'.consume, pesTodo := s'.pesTodo - s'.consume, consume := 0 } := by
          subst hs'
          simp only [ht, List.append_assoc, TsSt.mk.injEq, true_and, and_true]
          omega
        rw [hs1]
        conv => lhs; rw [hn]
        exact tsPesDone_shift _ _ _

/-! ## phase E does not read `ts_wrap.lookahead` -/

/-- on a fault the (unchanged) state is handed back, `lookahead` included -/
def fixLa (l : Nat) (r : TsSt × Option Err) : TsSt × Option Err :=
  match r with
  | (s, none) => (s, none)
  | (s, some e) => ({ s with lookahead := l }, some e)

theorem tsAdvance_la (s : TsSt) (l : Nat) (q : Bytes) (b : Bool) :
    tsAdvance { s with lookahead := l } q b = tsAdvance s q b := by
  unfold tsAdvance
  split <;> rfl

theorem tsSkipPacket_la (s : TsSt) (l : Nat) (q : Bytes) :
    tsSkipPacket { s with lookahead := l } q = tsSkipPacket s q := tsAdvance_la s l q true

theorem tsSkipPesPacket_la (s : TsSt) (l : Nat) (q : Bytes) :
    tsSkipPesPacket { s with lookahead := l } q = tsSkipPesPacket s q :=
  tsAdvance_la { s with fs := { s.fs with newFrame := true }, pesTodo := 0, consume := 0 } l q true

theorem tsStart_la (s : TsSt) (l : Nat) (q : Bytes) :
    tsStart { s with lookahead := l } q = (tsStart s q).map (fun t => { t with lookahead := l }) := by
  unfold tsStart
  simp only []
  split
  · split
    · rfl
    · split <;> rfl
  · split <;> rfl

theorem tsAdvance_mk (fs : FS) (tsBuf : Bytes) (skip consume la la' : Nat) (inSync : Bool)
    (frameRest pes : Bytes) (pesTodo : Nat) (cont : Option Nat) (pid : Nat) (q : Bytes) (b : Bool) :
    tsAdvance ⟨fs, tsBuf, skip, consume, la, inSync, frameRest, pes, pesTodo, cont, pid⟩ q b
      = tsAdvance ⟨fs, tsBuf, skip, consume, la', inSync, frameRest, pes, pesTodo, cont, pid⟩ q b := by
  unfold tsAdvance
  split <;> rfl

theorem tsComplete_la (s : TsSt) (l : Nat) :
    tsComplete { s with lookahead := l } = ({ (tsComplete s).1 with lookahead := l }, (tsComplete s).2) := by
  unfold tsComplete
  dsimp only
  split
  · rfl
  · split <;> rfl

theorem tsCopyDone_la (s : TsSt) (l : Nat) :
    tsCopyDone cfg { s with lookahead := l } = ({ (tsCopyDone cfg s).1 with lookahead := l }, (tsCopyDone cfg s).2) := by
  unfold tsCopyDone
  dsimp only
  split
  · exact tsComplete_la s l
  · rfl

theorem tsCopyFin_la (sOrig s1 s1' : TsSt) (l : Nat) (q : Bytes) (h : s1' = { s1 with lookahead := l }) :
    tsCopyFin cfg { sOrig with lookahead := l } s1' q = fixLa l (tsCopyFin cfg sOrig s1 q) := by
  subst h
  unfold tsCopyFin
  rw [tsCopyDone_la]
  rcases tsCopyDone cfg s1 with ⟨s2, _ | e⟩
  · simp only [fixLa]
    exact congrArg (fun t => (t, (none : Option Err))) (tsAdvance_la s2 l q false)
  · rfl

theorem tsCopy_la (s : TsSt) (l : Nat) (q : Bytes) :
    tsCopy cfg { s with lookahead := l } q = fixLa l (tsCopy cfg s q) := by
  unfold tsCopy
  dsimp only
  split
  · split
    · rfl
    · exact tsCopyFin_la s _ _ l q rfl
  · split
    · rfl
    · exact tsCopyFin_la s _ _ l q rfl

theorem tsHeader_la (s : TsSt) (l : Nat) (q : Bytes) :
    tsHeader cfg { s with lookahead := l } q = fixLa l (tsHeader cfg s q) := by
  unfold tsHeader
  have hc : tsHeaderCheck { s with lookahead := l } q = tsHeaderCheck s q := rfl
  rw [hc]
  have h1 := tsSkipPacket_la s l q
  have h2 := tsSkipPesPacket_la s l q
  have h3 := tsSkipPesPacket_la { s with cont := some (q.getD 3 0 + 1) } l q
  have hs := tsStart_la { s with cont := some (q.getD 3 0 + 1) } l q
  dsimp only at h1 h2 h3 hs
  cases tsHeaderCheck s q with
  | some b =>
    cases b
    · simp only [fixLa, h1]
    · simp only [fixLa, h2]
  | none =>
    dsimp only
    cases tsContCheck s.cont (q.getD 3 0) with
    | repeated => simp only [fixLa, h1]
    | lost => simp only [fixLa, h3]
    | ok =>
      dsimp only
      rw [hs]
      cases tsStart { s with cont := some (q.getD 3 0 + 1) } q with
      | none => simp only [Option.map, fixLa, h3]
      | some s1 => simp only [Option.map]; exact tsCopy_la s1 l q

/-- the same for the whole block E -/
def fixLaK (l : Nat) (r : TsSt × TsK) : TsSt × TsK :=
  match r with
  | (s, .stop (.fault e)) => ({ s with lookahead := l }, .stop (.fault e))
  | r => r

theorem fixLaK_of_fixLa (l : Nat) (r : TsSt × Option Err) :
    (match fixLa l r with
      | (s', none) => (s', TsK.cont)
      | (s', some e) => (s', TsK.stop (.fault e)))
    = fixLaK l (match r with
      | (s', none) => (s', TsK.cont)
      | (s', some e) => (s', TsK.stop (.fault e))) := by
  rcases r with ⟨s', _ | e⟩ <;> rfl

theorem tsPhaseE_la (s : TsSt) (l : Nat) : tsPhaseE cfg { s with lookahead := l } = fixLaK l (tsPhaseE cfg s) := by
  unfold tsPhaseE
  have h1 := tsHeader_la (cfg := cfg) s l s.tsBuf
  dsimp only at h1 ⊢
  split
  · split
    · rfl
    · split
      · split <;> rfl
      · rw [h1]; exact fixLaK_of_fixLa l _
  · split
    · rfl
    · split
      · split <;> rfl
      · rename_i p hp
        split
        · rfl
        · have h2 := tsHeader_la (cfg := cfg) { s with inSync := true } l (s.tsBuf.drop p)
          dsimp only at h2
          rw [h2]; exact fixLaK_of_fixLa l _

/-! ## blocks D+E and C+D+E as functions of the unread input -/

def TsK.isFault : TsK → Prop
  | .stop (.fault _) => True
  | _ => False

/-- blocks D and E on `rest`: (state, bytes consumed, outcome) -/
def tsDE (s3 : TsSt) (rest : Bytes) : TsSt × Nat × TsK :=
  match tsPhaseD s3 rest with
  | .stop s4 k => (s4, rest.length, .stop k)
  | .go s4 n4 => ((tsPhaseE cfg s4).1, n4, (tsPhaseE cfg s4).2)

/-- blocks C, D and E on `rest` -/
def tsCDE (s2 : TsSt) (rest : Bytes) : TsSt × Nat × TsK :=
  match tsPhaseC s2 rest with
  | .stop s3 k => (s3, rest.length, .stop k)
  | .go s3 n3 => ((tsDE (cfg := cfg) s3 (rest.drop n3)).1, n3 + (tsDE (cfg := cfg) s3 (rest.drop n3)).2.1, (tsDE (cfg := cfg) s3 (rest.drop n3)).2.2)

theorem tsDE_cont (s3 s5 : TsSt) (x y : Bytes) (n : Nat) (h : tsDE (cfg := cfg) s3 x = (s5, n, .cont)) :
    n ≤ x.length ∧ tsDE (cfg := cfg) s3 (x ++ y) = (s5, n, .cont) := by
  unfold tsDE at h ⊢
  cases hD : tsPhaseD s3 x with
  | stop s4 k => rw [hD] at h; simp at h
  | go s4 n4 =>
    rw [hD] at h
    obtain ⟨hle, hgo⟩ := tsPhaseD_go s3 s4 x y n4 hD
    rw [hgo]
    simp only [Prod.mk.injEq] at h
    obtain ⟨h1, h2, h3⟩ := h
    subst h2
    exact ⟨hle, by simp [h1, h3]⟩

/-- D stopped for lack of input: with more input the result is that of resuming -/
theorem tsDE_more (s3 s4 : TsSt) (x y : Bytes) (n : Nat) (h : tsDE (cfg := cfg) s3 x = (s4, n, .stop .needMore))
    (hok : ¬ (tsDE (cfg := cfg) s4 y).2.2.isFault) :
    n = x.length ∧ tsDE (cfg := cfg) s3 (x ++ y) = ((tsDE (cfg := cfg) s4 y).1, x.length + (tsDE (cfg := cfg) s4 y).2.1, (tsDE (cfg := cfg) s4 y).2.2)
      ∧ s4.consume = s3.consume ∧ s4.frameRest = s3.frameRest ∧ s4.skip = s3.skip := by
  unfold tsDE at h
  cases hD : tsPhaseD s3 x with
  | go s4' n4 =>
    rw [hD] at h
    exfalso
    simp only [Prod.mk.injEq] at h
    have := h.2.2
    unfold tsPhaseE at this
    dsimp only at this
    repeat' split at this
    all_goals first
      | (cases this; done)
      | skip
  | stop s4' k =>
    rw [hD] at h
    simp only [Prod.mk.injEq, TsK.stop.injEq] at h
    obtain ⟨rfl, rfl, rfl⟩ := h
    have hokD : (tsPhaseD s4' y).ok := by
      unfold tsDE at hok
      cases hD2 : tsPhaseD s4' y with
      | go a b => trivial
      | stop a k =>
        rw [hD2] at hok
        cases k with
        | fault e => exact absurd trivial hok
        | needMore => trivial
        | callback => trivial
    have hm := tsPhaseD_more s3 s4' x y hD hokD
    have hpres : s4'.consume = s3.consume ∧ s4'.frameRest = s3.frameRest ∧ s4'.skip = s3.skip := by
      unfold tsPhaseD at hD
      split at hD
      · split at hD
        · cases hD
        · cases hD; exact ⟨rfl, rfl, rfl⟩
      · split at hD <;> cases hD
    refine ⟨rfl, ?_, hpres⟩
    unfold tsDE
    rw [hm]
    cases hD2 : tsPhaseD s4' y with
    | stop a k => simp [Ph.shiftLa]
    | go a b =>
      simp only [Ph.shiftLa]
      have hE := tsPhaseE_la (cfg := cfg) a s3.lookahead
      rw [hE]
      have hnf : ¬ (tsPhaseE cfg a).2.isFault := by
        unfold tsDE at hok
        rw [hD2] at hok
        exact hok
      rcases hr : tsPhaseE cfg a with ⟨s5, k⟩
      rw [hr] at hnf
      cases k with
      | cont => rfl
      | stop st =>
        cases st with
        | fault e => exact absurd trivial hnf
        | needMore => rfl
        | callback => rfl

theorem tsCDE_cont (s2 s5 : TsSt) (x y : Bytes) (n : Nat) (h : tsCDE (cfg := cfg) s2 x = (s5, n, .cont)) :
    n ≤ x.length ∧ tsCDE (cfg := cfg) s2 (x ++ y) = (s5, n, .cont) := by
  unfold tsCDE at h ⊢
  cases hC : tsPhaseC s2 x with
  | stop s3 k => rw [hC] at h; simp at h
  | go s3 n3 =>
    rw [hC] at h
    obtain ⟨hle, hgo, _⟩ := tsPhaseC_go s2 s3 x y n3 hC
    rw [hgo]
    dsimp only at h ⊢
    rcases hDE : tsDE s3 (x.drop n3) with ⟨a, m, k⟩
    rw [hDE] at h
    simp only [Prod.mk.injEq] at h
    obtain ⟨rfl, rfl, rfl⟩ := h
    have := tsDE_cont s3 a (x.drop n3) y m hDE
    rw [List.drop_append_of_le_length hle, this.2]
    have hl : (x.drop n3).length = x.length - n3 := by simp
    exact ⟨by omega, rfl⟩

theorem tsCDE_more (s2 s' : TsSt) (x y : Bytes) (n : Nat) (h : tsCDE (cfg := cfg) s2 x = (s', n, .stop .needMore))
    (hok : ¬ (tsCDE (cfg := cfg) s' y).2.2.isFault) :
    n = x.length ∧ tsCDE (cfg := cfg) s2 (x ++ y) = ((tsCDE (cfg := cfg) s' y).1, x.length + (tsCDE (cfg := cfg) s' y).2.1, (tsCDE (cfg := cfg) s' y).2.2)
      ∧ s'.consume = s2.consume ∧ s'.frameRest = s2.frameRest := by
  unfold tsCDE at h
  cases hC : tsPhaseC s2 x with
  | stop s3 k =>
    rw [hC] at h
    simp only [Prod.mk.injEq, TsK.stop.injEq] at h
    obtain ⟨rfl, rfl, rfl⟩ := h
    have hm := tsPhaseC_more s2 s3 x y hC
    have hpres : s3.consume = s2.consume ∧ s3.frameRest = s2.frameRest := by
      unfold tsPhaseC at hC
      split at hC
      · cases hC; exact ⟨rfl, rfl⟩
      · cases hC
    refine ⟨rfl, ?_, hpres⟩
    unfold tsCDE
    rw [hm]
    cases hC2 : tsPhaseC s3 y with
    | stop a k => simp [Ph.shift]
    | go a m =>
      simp only [Ph.shift]
      have hd : (x ++ y).drop (x.length + m) = y.drop m := by
        rw [← List.drop_drop, List.drop_append_length]
      rw [hd]
      simp only [Prod.mk.injEq, true_and, and_true]
      omega
  | go s3 n3 =>
    rw [hC] at h
    dsimp only at h
    obtain ⟨hle, hgo, hsk, hco, hfr⟩ := tsPhaseC_go s2 s3 x y n3 hC
    rcases hDE : tsDE s3 (x.drop n3) with ⟨a, m, k⟩
    rw [hDE] at h
    simp only [Prod.mk.injEq] at h
    obtain ⟨rfl, rfl, rfl⟩ := h
    -- resuming from `a`: block C is a no-op
    have hre : ∀ (hs : a.skip = 0), tsCDE (cfg := cfg) a y = ((tsDE (cfg := cfg) a y).1, (tsDE (cfg := cfg) a y).2.1, (tsDE (cfg := cfg) a y).2.2) := by
      intro hs
      unfold tsCDE
      rw [tsPhaseC_reentry a y hs]
      simp
    have hokDE : ¬ (tsDE (cfg := cfg) a y).2.2.isFault → True := fun _ => trivial
    have hl : (x.drop n3).length = x.length - n3 := by simp
    -- first get the preservation facts, they do not need `hok`
    have hpresD : a.consume = s3.consume ∧ a.frameRest = s3.frameRest ∧ a.skip = s3.skip := by
      unfold tsDE at hDE
      cases hD : tsPhaseD s3 (x.drop n3) with
      | go b c =>
        rw [hD] at hDE
        exfalso
        simp only [Prod.mk.injEq] at hDE
        have := hDE.2.2
        unfold tsPhaseE at this
        dsimp only at this
        repeat' split at this
        all_goals first
          | (cases this; done)
          | skip
      | stop b k =>
        rw [hD] at hDE
        simp only [Prod.mk.injEq, TsK.stop.injEq] at hDE
        obtain ⟨rfl, _, rfl⟩ := hDE
        unfold tsPhaseD at hD
        split at hD
        · split at hD
          · cases hD
          · cases hD; exact ⟨rfl, rfl, rfl⟩
        · split at hD <;> cases hD
    have hska : a.skip = 0 := by rw [hpresD.2.2, hsk]
    rw [hre hska] at hok ⊢
    have hmore := tsDE_more s3 a (x.drop n3) y m hDE hok
    refine ⟨by omega, ?_, by rw [hpresD.1, hco], by rw [hpresD.2.1, hfr]⟩
    unfold tsCDE
    rw [hgo]
    dsimp only
    rw [List.drop_append_of_le_length hle, hmore.2.1]
    simp only [Prod.mk.injEq, true_and, and_true]
    omega

/-! ## block B -/

theorem dataUnit_not_done (f : Frame) (d : Bytes) (id len : Nat) : ∀ f', dataUnit cfg f d id len ≠ .fail f' .done := by
  intro f'
  unfold dataUnit
  simp only []
  repeat' split
  all_goals first
    | (intro h; cases h; done)
    | skip

theorem extractLoop_done_rest : ∀ (fuel : Nat) (f : Frame) (d : Bytes),
    (extractLoop cfg fuel f d).2.1 = .done → (extractLoop cfg fuel f d).2.2 = [] := by
  intro fuel
  induction fuel with
  | zero => intro f d h; simp [extractLoop] at h
  | succ fuel ih =>
    intro f d
    unfold extractLoop
    by_cases h2 : d.length ≤ 2
    · rw [if_pos h2]; intro _; rfl
    · rw [if_neg h2]
      rcases d with _ | ⟨id, _ | ⟨len, t⟩⟩
      · simp at h2
      · simp at h2
      · dsimp only
        by_cases hl : len + 2 > (id :: len :: t).length
        · rw [if_pos hl]; intro h; simp at h
        · rw [if_neg hl]
          cases hdu : dataUnit cfg f (id :: len :: t) id len with
          | skip => exact ih _ _
          | store f' => exact ih _ _
          | fail f' r =>
            dsimp only
            intro h
            subst h
            exact absurd hdu (dataUnit_not_done f _ id len f')

theorem pesPacketFrame_done_rest : ∀ (n : Nat) (cb se : Bool) (fs : FS) (d : Bytes),
    (pesPacketFrame cfg n cb se fs d).2.2.1 = .done → (pesPacketFrame cfg n cb se fs d).2.2.2 = [] := by
  intro n
  induction n with
  | zero => intro cb se fs d h; simp [pesPacketFrame] at h
  | succ n ih =>
    intro cb se fs d
    unfold pesPacketFrame
    dsimp only
    generalize hfs1 : (if fs.newFrame = true then
      ({ fs with frame := resetFrame fs.frame, framePts := fs.packetPts, newFrame := false } : FS) else fs) = fs1
    rcases hx : extract cfg fs1.frame d with ⟨f, r, rest⟩
    cases r with
    | done =>
      intro _
      dsimp only
      have : (extract cfg fs1.frame d).2.1 = .done := by rw [hx]
      unfold extract at this hx
      split at hx
      · rw [if_pos (by assumption)] at this; simp at this
      · rw [if_neg (by assumption)] at this
        have := extractLoop_done_rest _ _ _ this
        rw [hx] at this
        exact this
    | err => intro h; simp at h
    | fault e => intro h; simp at h
    | newFrame =>
      dsimp only
      split
      · split
        · exact ih _ _ _ _
        · intro h; simp at h
      · exact ih _ _ _ _

theorem tsPhaseB_none (cb se : Bool) (s s2 : TsSt) (o : List FrameOut) (h : tsPhaseB cfg cb se s = (s2, o, none)) :
    s2.frameRest = [] ∧ s2.consume = s.consume := by
  unfold tsPhaseB at h
  split at h
  · rcases hp : pesPacketFrame cfg 3 cb se s.fs s.frameRest with ⟨fs1, outs, r, rest⟩
    rw [hp] at h
    cases r with
    | callback => simp at h
    | fault e => simp at h
    | err => simp only [Prod.mk.injEq] at h; obtain ⟨rfl, _, _⟩ := h; exact ⟨rfl, rfl⟩
    | done =>
      simp only [Prod.mk.injEq] at h
      obtain ⟨rfl, _, _⟩ := h
      have := pesPacketFrame_done_rest 3 cb se s.fs s.frameRest (by rw [hp])
      rw [hp] at this
      exact ⟨this, rfl⟩
  · rename_i hl
    simp only [Prod.mk.injEq] at h
    obtain ⟨rfl, _, _⟩ := h
    exact ⟨List.eq_nil_of_length_eq_zero (by omega), rfl⟩

theorem tsPhaseB_reentry (cb se : Bool) (s : TsSt) (h : s.frameRest = []) : tsPhaseB cfg cb se s = (s, [], none) := by
  unfold tsPhaseB
  rw [if_neg (by simp [h])]

theorem tsPhaseB_some (cb se : Bool) (s s2 : TsSt) (o : List FrameOut) (k : Stop)
    (h : tsPhaseB cfg cb se s = (s2, o, some k)) : k ≠ .needMore := by
  unfold tsPhaseB at h
  split at h
  · rcases hp : pesPacketFrame cfg 3 cb se s.fs s.frameRest with ⟨fs1, outs, r, rest⟩
    rw [hp] at h
    cases r <;> simp at h <;> (obtain ⟨_, _, rfl⟩ := h; simp)
  · simp at h

/-! ## the loop body -/

/-- the loop body with blocks C, D, E folded into `tsCDE` -/
theorem tsStep_eq (cb se : Bool) (s : TsSt) (rest : Bytes) :
    tsStep cfg cb se s rest =
      match tsPhaseA s rest with
      | .stop s' k => (s', [], rest.length, .stop k)
      | .go s1 n1 =>
        match tsPhaseB cfg cb se s1 with
        | (s2, outs, some k) => (s2, outs, n1, .stop k)
        | (s2, outs, none) =>
          ((tsCDE (cfg := cfg) s2 (rest.drop n1)).1, outs, n1 + (tsCDE (cfg := cfg) s2 (rest.drop n1)).2.1, (tsCDE (cfg := cfg) s2 (rest.drop n1)).2.2) := by
  unfold tsStep
  cases hA : tsPhaseA s rest with
  | stop s' k => rfl
  | go s1 n1 =>
    have hle := (tsPhaseA_go s s1 rest [] n1 hA).1
    dsimp only
    rcases hB : tsPhaseB cfg cb se s1 with ⟨s2, outs, _ | k⟩
    · dsimp only
      have hl : (rest.drop n1).length = rest.length - n1 := by simp
      unfold tsCDE
      cases hC : tsPhaseC s2 (rest.drop n1) with
      | stop s3 k =>
        dsimp only
        simp only [Prod.mk.injEq, true_and, and_true]
        omega
      | go s3 n3 =>
        dsimp only
        have hle3 := (tsPhaseC_go s2 s3 (rest.drop n1) [] n3 hC).1
        unfold tsDE
        rw [List.drop_drop]
        cases hD : tsPhaseD s3 (rest.drop (n1 + n3)) with
        | stop s4 k =>
          dsimp only
          simp only [Prod.mk.injEq, true_and, and_true, List.length_drop]
          omega
        | go s4 n4 =>
          dsimp only
          simp only [Prod.mk.injEq, true_and, and_true]
          omega
    · rfl

theorem tsStep_cont (cb se : Bool) (s s' : TsSt) (x y : Bytes) (o : List FrameOut) (n : Nat)
    (h : tsStep cfg cb se s x = (s', o, n, .cont)) :
    n ≤ x.length ∧ tsStep cfg cb se s (x ++ y) = (s', o, n, .cont) := by
  rw [tsStep_eq] at h ⊢
  cases hA : tsPhaseA s x with
  | stop a k => rw [hA] at h; simp at h
  | go s1 n1 =>
    rw [hA] at h
    obtain ⟨hle, hgo, _⟩ := tsPhaseA_go s s1 x y n1 hA
    rw [hgo]
    dsimp only at h ⊢
    rcases hB : tsPhaseB cfg cb se s1 with ⟨s2, outs, _ | k⟩
    · rw [hB] at h
      dsimp only at h ⊢
      rcases hT : tsCDE s2 (x.drop n1) with ⟨a, m, k⟩
      rw [hT] at h
      simp only [Prod.mk.injEq] at h
      obtain ⟨rfl, rfl, rfl, rfl⟩ := h
      have := tsCDE_cont s2 a (x.drop n1) y m hT
      rw [List.drop_append_of_le_length hle, this.2]
      have hl : (x.drop n1).length = x.length - n1 := by simp
      exact ⟨by omega, rfl⟩
    · rw [hB] at h; simp at h

theorem tsStep_more (cb se : Bool) (s s' : TsSt) (x y : Bytes) (o : List FrameOut) (n : Nat)
    (h : tsStep cfg cb se s x = (s', o, n, .stop .needMore)) (hok : ¬ (tsStep cfg cb se s' y).2.2.2.isFault) :
    n = x.length ∧ tsStep cfg cb se s (x ++ y)
      = ((tsStep cfg cb se s' y).1, o ++ (tsStep cfg cb se s' y).2.1, x.length + (tsStep cfg cb se s' y).2.2.1,
         (tsStep cfg cb se s' y).2.2.2) := by
  rw [tsStep_eq] at h
  cases hA : tsPhaseA s x with
  | stop a k =>
    rw [hA] at h
    simp only [Prod.mk.injEq, TsK.stop.injEq] at h
    obtain ⟨rfl, rfl, rfl, rfl⟩ := h
    have hokA : (tsPhaseA a y).ok := by
      rw [tsStep_eq] at hok
      cases hA2 : tsPhaseA a y with
      | go b c => trivial
      | stop b k =>
        rw [hA2] at hok
        cases k with
        | fault e => exact absurd trivial hok
        | needMore => trivial
        | callback => trivial
    have hm := tsPhaseA_more s a x y hA hokA
    refine ⟨rfl, ?_⟩
    rw [tsStep_eq, tsStep_eq, hm]
    cases hA2 : tsPhaseA a y with
    | stop b k => simp [Ph.shift]
    | go b c =>
      simp only [Ph.shift]
      have hd : (x ++ y).drop (x.length + c) = y.drop c := by
        rw [← List.drop_drop, List.drop_append_length]
      rw [hd]
      rcases tsPhaseB cfg cb se b with ⟨s2, outs, _ | k⟩
      · simp only [List.nil_append, Prod.mk.injEq, true_and, and_true]
        omega
      · simp
  | go s1 n1 =>
    rw [hA] at h
    dsimp only at h
    obtain ⟨hle, hgo, hc0⟩ := tsPhaseA_go s s1 x y n1 hA
    rcases hB : tsPhaseB cfg cb se s1 with ⟨s2, outs, _ | k⟩
    · rw [hB] at h
      dsimp only at h
      rcases hT : tsCDE s2 (x.drop n1) with ⟨a, m, k⟩
      rw [hT] at h
      simp only [Prod.mk.injEq] at h
      obtain ⟨rfl, rfl, rfl, rfl⟩ := h
      obtain ⟨hfr, hco⟩ := tsPhaseB_none cb se s1 s2 outs hB
      have hl : (x.drop n1).length = x.length - n1 := by simp
      -- preservation through C/D does not need `hok`; get it from a fault-free dummy continuation
      have hpres : a.consume = s2.consume ∧ a.frameRest = s2.frameRest := by
        unfold tsCDE at hT
        cases hC : tsPhaseC s2 (x.drop n1) with
        | stop c k =>
          rw [hC] at hT
          simp only [Prod.mk.injEq, TsK.stop.injEq] at hT
          obtain ⟨rfl, _, rfl⟩ := hT
          unfold tsPhaseC at hC
          split at hC
          · cases hC; exact ⟨rfl, rfl⟩
          · cases hC
        | go c n3 =>
          rw [hC] at hT
          dsimp only at hT
          obtain ⟨_, _, _, hco3, hfr3⟩ := tsPhaseC_go s2 c (x.drop n1) [] n3 hC
          rcases hDE : tsDE c ((x.drop n1).drop n3) with ⟨b, m', k'⟩
          rw [hDE] at hT
          simp only [Prod.mk.injEq] at hT
          obtain ⟨rfl, _, rfl⟩ := hT
          unfold tsDE at hDE
          cases hD : tsPhaseD c ((x.drop n1).drop n3) with
          | go e f =>
            rw [hD] at hDE
            exfalso
            simp only [Prod.mk.injEq] at hDE
            have := hDE.2.2
            unfold tsPhaseE at this
            dsimp only at this
            repeat' split at this
            all_goals first
              | (cases this; done)
              | skip
          | stop e k =>
            rw [hD] at hDE
            simp only [Prod.mk.injEq, TsK.stop.injEq] at hDE
            obtain ⟨rfl, _, rfl⟩ := hDE
            unfold tsPhaseD at hD
            split at hD
            · split at hD
              · cases hD
              · cases hD; exact ⟨by rw [← hco3], by rw [← hfr3]⟩
            · split at hD <;> cases hD
      have ha0 : a.consume = 0 := by rw [hpres.1, hco, hc0]
      have hafr : a.frameRest = [] := by rw [hpres.2, hfr]
      -- resuming from `a`: blocks A and B are no-ops
      have hre : tsStep cfg cb se a y = ((tsCDE (cfg := cfg) a y).1, [], (tsCDE (cfg := cfg) a y).2.1, (tsCDE (cfg := cfg) a y).2.2) := by
        rw [tsStep_eq, tsPhaseA_reentry a y ha0]
        dsimp only
        rw [tsPhaseB_reentry cb se a hafr]
        simp
      rw [hre] at hok ⊢
      have hmore := tsCDE_more s2 a (x.drop n1) y m hT hok
      refine ⟨by omega, ?_⟩
      rw [tsStep_eq, hgo]
      dsimp only
      rw [hB]
      dsimp only
      rw [List.drop_append_of_le_length hle, hmore.2.1]
      simp only [List.append_nil, Prod.mk.injEq, true_and, and_true]
      omega
    · rw [hB] at h
      simp only [Prod.mk.injEq, TsK.stop.injEq] at h
      exact absurd h.2.2.2 (tsPhaseB_some cb se s1 s2 outs k hB)

/-! ## the loop -/

def Stop.isFault : Stop → Prop
  | .fault _ => True
  | _ => False

theorem tsRun_mono (cb se : Bool) : ∀ (f : Nat) (s : TsSt) (x : Bytes) (k : Nat),
    ¬ (tsRun cfg f cb se s x).2.2.2.isFault → tsRun cfg (f + k) cb se s x = tsRun cfg f cb se s x := by
  intro f
  induction f with
  | zero => intro s x k h; exact absurd trivial h
  | succ f ih =>
    intro s x k h
    have e : f + 1 + k = (f + k) + 1 := by omega
    rw [e]
    unfold tsRun at h ⊢
    rcases hs : tsStep cfg cb se s x with ⟨s', o, n, kk⟩
    rw [hs] at h
    cases kk with
    | stop r => rfl
    | cont =>
      dsimp only at h ⊢
      rw [ih s' (x.drop n) k h]

theorem tsRun_append (cb se : Bool) : ∀ (f1 : Nat) (s s1 : TsSt) (x : Bytes) (o1 : List FrameOut) (n1 : Nat),
    tsRun cfg f1 cb se s x = (s1, o1, n1, .needMore) →
    ∀ (f2 : Nat) (y : Bytes), ¬ (tsRun cfg f2 cb se s1 y).2.2.2.isFault →
    n1 = x.length ∧
    tsRun cfg (f1 + f2) cb se s (x ++ y)
      = ((tsRun cfg f2 cb se s1 y).1, o1 ++ (tsRun cfg f2 cb se s1 y).2.1, x.length + (tsRun cfg f2 cb se s1 y).2.2.1,
         (tsRun cfg f2 cb se s1 y).2.2.2) := by
  intro f1
  induction f1 with
  | zero => intro s s1 x o1 n1 h; simp [tsRun] at h
  | succ f1 ih =>
    intro s s1 x o1 n1 h f2 y hok
    unfold tsRun at h
    rcases hs : tsStep cfg cb se s x with ⟨s', o, n, kk⟩
    rw [hs] at h
    cases kk with
    | stop r =>
      simp only [Prod.mk.injEq] at h
      obtain ⟨rfl, rfl, rfl, rfl⟩ := h
      cases f2 with
      | zero => exact absurd trivial hok
      | succ f2 =>
        -- the resumed run begins with a step that is not a fault
        have hstep : ¬ (tsStep cfg cb se s' y).2.2.2.isFault := by
          unfold tsRun at hok
          rcases hs2 : tsStep cfg cb se s' y with ⟨a, b, c, kk⟩
          rw [hs2] at hok
          cases kk with
          | cont => exact fun h => h
          | stop r =>
            cases r with
            | fault e => exact absurd trivial hok
            | needMore => exact fun h => h
            | callback => exact fun h => h
        have hm := tsStep_more cb se s s' x y o n hs hstep
        refine ⟨hm.1, ?_⟩
        have e : f1 + 1 + (f2 + 1) = (f2 + (f1 + 1)) + 1 := by omega
        rw [e]
        unfold tsRun at hok ⊢
        rw [hm.2]
        rcases hs2 : tsStep cfg cb se s' y with ⟨a, b, c, kk⟩
        rw [hs2] at hok
        cases kk with
        | stop r => rfl
        | cont =>
          dsimp only at hok ⊢
          have hd : (x ++ y).drop (x.length + c) = y.drop c := by
            rw [← List.drop_drop, List.drop_append_length]
          rw [hd, tsRun_mono cb se f2 a (y.drop c) (f1 + 1) hok]
          simp only [List.append_assoc, Prod.mk.injEq, true_and, and_true]
          omega
    | cont =>
      dsimp only at h
      rcases hr : tsRun cfg f1 cb se s' (x.drop n) with ⟨a, b, c, r⟩
      rw [hr] at h
      simp only [Prod.mk.injEq] at h
      obtain ⟨rfl, rfl, rfl, rfl⟩ := h
      obtain ⟨hle, hcont⟩ := tsStep_cont cb se s s' x y o n hs
      obtain ⟨hc, hrun⟩ := ih s' a (x.drop n) b c hr f2 y hok
      have hl : (x.drop n).length = x.length - n := by simp
      refine ⟨by omega, ?_⟩
      have e : f1 + 1 + f2 = (f1 + f2) + 1 := by omega
      rw [e]
      conv => lhs; unfold tsRun
      rw [hcont]
      dsimp only
      rw [List.drop_append_of_le_length hle, hrun]
      simp only [List.append_assoc, Prod.mk.injEq, true_and, and_true]
      omega

/-! ## `vbi_dvb_demux_feed` on a TS demux -/

theorem pesPacketFrame_true_no_callback : ∀ (n : Nat) (se : Bool) (fs : FS) (d : Bytes),
    (pesPacketFrame cfg n true se fs d).2.2.1 ≠ .callback := by
  intro n
  induction n with
  | zero => intro se fs d; simp [pesPacketFrame]
  | succ n ih =>
    intro se fs d
    unfold pesPacketFrame
    dsimp only
    generalize (if fs.newFrame = true then
      ({ fs with frame := resetFrame fs.frame, framePts := fs.packetPts, newFrame := false } : FS) else fs) = fs1
    rcases extract cfg fs1.frame d with ⟨f, r, rest⟩
    cases r with
    | done => simp
    | err => simp
    | fault e => simp
    | newFrame =>
      simp only [Bool.not_true, Bool.false_eq_true, if_false]
      exact ih _ _ _

theorem tsStep_true_no_callback (se : Bool) (s : TsSt) (x : Bytes) :
    (tsStep cfg true se s x).2.2.2 ≠ .stop .callback := by
  rw [tsStep_eq]
  cases hA : tsPhaseA s x with
  | stop a k =>
    dsimp only
    intro h
    simp only [TsK.stop.injEq] at h
    subst h
    unfold tsPhaseA at hA
    repeat' split at hA
    all_goals first
      | (cases hA; done)
      | skip
    all_goals
      (unfold tsPesDone at hA
       repeat' split at hA
       all_goals first
         | (cases hA; done)
         | skip)
  | go s1 n1 =>
    dsimp only
    rcases hB : tsPhaseB cfg true se s1 with ⟨s2, outs, _ | k⟩
    · dsimp only
      unfold tsCDE
      cases hC : tsPhaseC s2 (x.drop n1) with
      | stop c k =>
        dsimp only
        intro h; simp only [TsK.stop.injEq] at h; subst h
        unfold tsPhaseC at hC
        split at hC <;> cases hC
      | go c n3 =>
        dsimp only
        unfold tsDE
        cases hD : tsPhaseD c ((x.drop n1).drop n3) with
        | stop e k =>
          dsimp only
          intro h; simp only [TsK.stop.injEq] at h; subst h
          unfold tsPhaseD at hD
          repeat' split at hD
          all_goals first
            | (cases hD; done)
            | skip
        | go e n4 =>
          dsimp only
          intro h
          unfold tsPhaseE at h
          dsimp only at h
          repeat' split at h
          all_goals first
            | (cases h; done)
            | skip
    · dsimp only
      intro h; simp only [TsK.stop.injEq] at h; subst h
      unfold tsPhaseB at hB
      split at hB
      · have := pesPacketFrame_true_no_callback (cfg := cfg) 3 se s1.fs s1.frameRest
        rcases hp : pesPacketFrame cfg 3 true se s1.fs s1.frameRest with ⟨fs1, o, r, rest⟩
        rw [hp] at hB this
        cases r <;> simp at hB this
      · simp at hB

theorem tsRun_true_no_callback (se : Bool) : ∀ (f : Nat) (s : TsSt) (x : Bytes),
    (tsRun cfg f true se s x).2.2.2 ≠ .callback := by
  intro f
  induction f with
  | zero => intro s x; simp [tsRun]
  | succ f ih =>
    intro s x
    unfold tsRun
    have hs := tsStep_true_no_callback (cfg := cfg) se s x
    rcases hst : tsStep cfg true se s x with ⟨s', o, n, k⟩
    rw [hst] at hs
    cases k with
    | cont => dsimp only; exact ih _ _
    | stop r =>
      dsimp only
      intro h; subst h; exact hs rfl

/-- a fault-free feed call is a run that ends with "need more data" -/
theorem tsFeed_ok (s : TsSt) (buf : Bytes) (hne : buf.length ≠ 0) (h : (tsFeed cfg s buf).err = none) :
    ∃ s' o n, tsRun cfg (buf.length + 2) true false s buf = (s', o, n, .needMore) ∧
      tsFeed cfg s buf = { st := s', frames := o } := by
  unfold tsFeed at h ⊢
  rw [if_neg hne] at h ⊢
  unfold tsLoop tsFuel at h ⊢
  simp only [List.drop_zero, Nat.sub_zero, Nat.zero_add] at h ⊢
  have hnc := tsRun_true_no_callback (cfg := cfg) false (buf.length + 2) s buf
  rcases hr : tsRun cfg (buf.length + 2) true false s buf with ⟨s', o, n, r⟩
  rw [hr] at h hnc
  cases r with
  | fault e => simp at h
  | callback => exact absurd rfl hnc
  | needMore => exact ⟨s', o, n, rfl, rfl⟩

/-- **ts_feed_split_invariant (provided no call reports a fault).** -/
theorem tsFeed_split (s : TsSt) (a b : Bytes)
    (h1 : (tsFeed cfg s a).err = none) (h2 : (tsFeed cfg (tsFeed cfg s a).st b).err = none)
    (h3 : (tsFeed cfg s (a ++ b)).err = none) :
    (tsFeed cfg s (a ++ b)).frames = (tsFeed cfg s a).frames ++ (tsFeed cfg (tsFeed cfg s a).st b).frames ∧
    (tsFeed cfg s (a ++ b)).st = (tsFeed cfg (tsFeed cfg s a).st b).st := by
  by_cases ha : a.length = 0
  · have : a = [] := List.eq_nil_of_length_eq_zero ha
    subst this
    simp [tsFeed]
  · by_cases hb : b.length = 0
    · have : b = [] := List.eq_nil_of_length_eq_zero hb
      subst this
      simp [tsFeed]
    · have hab : (a ++ b).length ≠ 0 := by rw [List.length_append]; omega
      obtain ⟨s1, o1, n1, r1, e1⟩ := tsFeed_ok s a ha h1
      rw [e1] at h2 ⊢
      obtain ⟨s2, o2, n2, r2, e2⟩ := tsFeed_ok s1 b hb h2
      obtain ⟨s3, o3, n3, r3, e3⟩ := tsFeed_ok s (a ++ b) hab h3
      rw [e2, e3]
      have hok2 : ¬ (tsRun cfg (b.length + 2) true false s1 b).2.2.2.isFault := by rw [r2]; exact fun h => h
      have happ := (tsRun_append true false (a.length + 2) s s1 a o1 n1 r1 (b.length + 2) b hok2).2
      rw [r2] at happ
      have hok3 : ¬ (tsRun cfg ((a ++ b).length + 2) true false s (a ++ b)).2.2.2.isFault := by
        rw [r3]; exact fun h => h
      have hm := tsRun_mono true false ((a ++ b).length + 2) s (a ++ b) 2 hok3
      have e : (a ++ b).length + 2 + 2 = a.length + 2 + (b.length + 2) := by rw [List.length_append]; omega
      rw [e, happ, r3] at hm
      simp only [Prod.mk.injEq] at hm
      exact ⟨hm.2.1.symm, hm.1.symm⟩

end Zvbi.Demux
