import ZvbiModel.Demux.Model
/-!
# Model of src/dvb_demux.c - the TS path (`demux_ts_packet`, `_vbi_dvb_ts_demux_new`)

Transcribed block by block; the frame / PES header logic is shared with `Demux/Model.lean`.
`tsBuf` = bytes `ts_buffer .. ts_wrap.bp`, `pes` = bytes `pes_buffer .. ts_pes_bp`,
`frameRest` = bytes `ts_frame_bp .. ts_frame_bp + ts_frame_todo`.
Unsigned subtractions that would wrap in C are explicit `.assertFail "..._underflow"` results.

Public names: `TsSt`, `TsSt.init pid`, `tsFeed`, `tsCor`, `tsCorDrain`, `TsRes`.
-/
namespace Zvbi.Demux

/-- `sizeof (dx->ts_buffer)` = `ALIGN (TS_SYNC_SEARCH_LOOKAHEAD)` -/
def TS_BUF_SIZE : Nat := 208
def TS_HEADER_LOOKAHEAD : Nat := 10
def TS_SYNC_SEARCH_LOOKAHEAD : Nat := 188 + 10 - 1

structure TsSt where
  fs : FS := {}
  tsBuf : Bytes := []
  skip : Nat := 0
  consume : Nat := 0
  lookahead : Nat := TS_SYNC_SEARCH_LOOKAHEAD
  inSync : Bool := false
  frameRest : Bytes := []
  pes : Bytes := []
  pesTodo : Nat := 0
  /-- `ts_continuity`; `none` = -1 -/
  cont : Option Nat := none
  pid : Nat := 0
  deriving DecidableEq, Repr

def TsSt.init (pid : Nat) : TsSt := { pid := pid }

/-- `_vbi_dvb_ts_demux_new` refuses these PIDs -/
def tsPidOk (pid : Nat) : Bool := ¬ (pid ≤ 0x000F ∨ pid ≥ 0x1FFF)

/-- outcome of one pass through the body of the `for (;;)` -/
inductive TsK where
  | cont            -- next iteration
  | stop (r : Stop)
  deriving DecidableEq, Repr

/-- the tail shared by `skip_ts_packet`, `skip_ts_pes_packet` and the payload copy: what happens to
`ts_buffer` once the TS packet at `q = tsBuf.drop p` (`avail = q.length`) has been dealt with -/
def tsAdvance (s : TsSt) (q : Bytes) (setSkip : Bool) : TsSt :=
  let avail := q.length
  if avail ≤ 188 then
    { s with skip := if setSkip then 188 - avail else s.skip, tsBuf := [], lookahead := TS_HEADER_LOOKAHEAD }
  else
    let la := avail - 188
    { s with tsBuf := q.drop 188, lookahead := TS_HEADER_LOOKAHEAD - min la TS_HEADER_LOOKAHEAD }

def tsSkipPacket (s : TsSt) (q : Bytes) : TsSt := tsAdvance s q true

def tsSkipPesPacket (s : TsSt) (q : Bytes) : TsSt :=
  tsAdvance { s with fs := { s.fs with newFrame := true }, pesTodo := 0, consume := 0 } q true

/-- sync_byte search over `ts_buffer[0 .. 188)`; `some p` = found at `p` -/
def tsSyncSearch (b : Bytes) : Nat → Nat → Option Nat
  | 0, _ => none
  | fuel + 1, p =>
    if p ≥ 188 then none
    else
      let ok :=
        b.getD p 0 = 0x47 ∧
        ((p + 188 < b.length ∧ b.getD (p + 188) 0 = 0x47) ∨
         (p + 7 < b.length ∧ (b.getD (p + 4) 0 ||| b.getD (p + 5) 0) = 0 ∧ b.getD (p + 6) 0 = 1
            ∧ b.getD (p + 7) 0 = PRIVATE_STREAM_1))
      if ok then some p else tsSyncSearch b fuel (p + 1)

/-- first checks on the TS header `q[1..3]`: `some true` = `goto skip_ts_pes_packet`,
`some false` = `goto skip_ts_packet`, `none` = go on with the continuity_counter -/
def tsHeaderCheck (s : TsSt) (q : Bytes) : Option Bool :=
  let g (i : Nat) := q.getD i 0
  let b1 := g 1
  let pid := (b1 * 256 + g 2) &&& 0x1FFF
  let b3 := g 3
  if b1 &&& 0x80 ≠ 0 then some true                 -- transport_error_indicator
  else if pid ≠ s.pid then some false
  else if b3 &&& 0xC0 ≠ 0 then some true            -- transport_scrambling_control
  else
    let afc := b3 &&& 0x30
    if afc = 0x20 then some false                   -- adaptation_field only
    else if afc ≠ 0x10 then some true
    else none

/-- verdict of the continuity_counter test -/
inductive ContV | ok | repeated | lost
  deriving DecidableEq, Repr

/-- `if (0 != ((ts_continuity ^ b3) & 0x0F)) { ... }` -/
def tsContCheck (cont : Option Nat) (b3 : Nat) : ContV :=
  match cont with
  | none => .ok                                     -- -1: first continuity_counter we see
  | some c =>
    if (c ^^^ b3) &&& 0x0F ≠ 0 then
      if ((c - 1) ^^^ b3) &&& 0x0F = 0 then .repeated else .lost
    else .ok

/-- `if (0 == ts_pes_todo) { start of a PES packet expected } else { no PUSI allowed }`;
`none` = `goto skip_ts_pes_packet` -/
def tsStart (s : TsSt) (q : Bytes) : Option TsSt :=
  let g (i : Nat) := q.getD i 0
  if s.pesTodo = 0 then
    if (g 4 ||| g 5) ≠ 0 ∨ g 6 ≠ 1 ∨ g 7 ≠ PRIVATE_STREAM_1 then none
    else
      -- `p[8] * 256 + p[9]` with `uint8_t` reads (the model's byte lists are over Nat)
      let packetLength := (g 8 % 256) * 256 + g 9 % 256
      if packetLength < 178 then none
      else some { s with pes := [], pesTodo := packetLength + 6 }
  else if g 1 &&& 0x40 ≠ 0 then none
  else some s

/-- the "PES packet complete" step (`ts_pes_packet_complete` since fix dvb-demux-ts-first-packet; inline in
the copy loop before): look at the header in `pes_buffer`, set up `ts_frame_bp / ts_frame_todo` -/
def tsComplete (s1 : TsSt) : TsSt × Option Err :=
  if s1.pes.length < 46 then (s1, some (.oob "ts_pes_header"))
  else match validHeader s1.fs (s1.pes.take 46) with
    | none => ({ s1 with fs := { s1.fs with newFrame := true }, frameRest := [] }, none)
    | some fs' => ({ s1 with fs := { fs' with frame := { fs'.frame with nDu := 0 } }, frameRest := s1.pes.drop 46 }, none)

/-- end of the header evaluation of a TS packet with payload: `if (0 == dx->ts_pes_todo)
ts_pes_packet_complete (dx);` - present only with fix dvb-demux-ts-first-packet (F30) -/
def tsCopyDone (cfg : SrcCfg) (s1 : TsSt) : TsSt × Option Err :=
  if cfg.tsCompletesInHeader = true ∧ s1.pesTodo = 0 then tsComplete s1 else (s1, none)

/-- the end of both branches of the payload copy: completion step, `ts_buffer` bookkeeping -/
def tsCopyFin (cfg : SrcCfg) (sOrig s1 : TsSt) (q : Bytes) : TsSt × Option Err :=
  match tsCopyDone cfg s1 with
  | (s2, none) => (tsAdvance s2 q false, none)
  | (_, some e) => (sOrig, some e)

/-- copy the payload bytes that are already in `ts_buffer` (`q[4 ..]`).  (The C code does the `ts_buffer`
bookkeeping `tsAdvance` before the completion step; the two touch disjoint fields, the model does the
completion first so that a fault hands back the unchanged state like the other faults.) -/
def tsCopy (cfg : SrcCfg) (s : TsSt) (q : Bytes) : TsSt × Option Err :=
  let avail := q.length
  if avail ≤ 188 then
    let consume := min s.pesTodo 184
    let fragment := min (avail - 4) consume
    if s.pes.length + fragment > PES_BUF_SIZE then (s, some (.oob "ts_pes_copy_header"))
    else
      tsCopyFin cfg s { s with pes := s.pes ++ (q.drop 4).take fragment, pesTodo := s.pesTodo - fragment,
                               consume := consume - fragment } q
  else
    let fragment := min s.pesTodo 184
    if s.pes.length + fragment > PES_BUF_SIZE then (s, some (.oob "ts_pes_copy_resync"))
    else
      tsCopyFin cfg s { s with pes := s.pes ++ (q.drop 4).take fragment, pesTodo := s.pesTodo - fragment } q

/-- header evaluation of the TS packet `q` (`q.length = avail >= 10`), from `b1 = p[1]` on -/
def tsHeader (cfg : SrcCfg) (s : TsSt) (q : Bytes) : TsSt × Option Err :=
  match tsHeaderCheck s q with
  | some true => (tsSkipPesPacket s q, none)
  | some false => (tsSkipPacket s q, none)
  | none =>
    let b3 := q.getD 3 0
    match tsContCheck s.cont b3 with
    | .repeated => (tsSkipPacket s q, none)
    | .lost => (tsSkipPesPacket { s with cont := some (b3 + 1) } q, none)
    | .ok =>
      match tsStart { s with cont := some (b3 + 1) } q with
      | none => (tsSkipPesPacket { s with cont := some (b3 + 1) } q, none)
      | some s1 => tsCopy cfg s1 q

/-- outcome of one input-consuming block of the loop body on the unread input `rest` -/
inductive Ph where
  /-- the function returns: "need more data" (all of `rest` was consumed) or a fault -/
  | stop (s : TsSt) (k : Stop)
  /-- `n` bytes of `rest` consumed, fall through to the next block -/
  | go (s : TsSt) (n : Nat)
  deriving DecidableEq, Repr

/-- end of block A once all payload of the TS packet was copied (`s1`, `n` bytes consumed):
`if (0 == ts_pes_todo)` the PES packet is complete: look at its header, set up
`ts_frame_bp / ts_frame_todo` -/
def tsPesDone (s1 : TsSt) (n : Nat) : Ph :=
  if s1.pesTodo = 0 then
    if s1.pes.length < 46 then .stop s1 (.fault (.oob "ts_pes_header"))
    else match validHeader s1.fs (s1.pes.take 46) with
      | none => .go { s1 with fs := { s1.fs with newFrame := true }, frameRest := [] } n
      | some fs' =>
        .go { s1 with fs := { fs' with frame := { fs'.frame with nDu := 0 } }, frameRest := s1.pes.drop 46 } n
  else .go s1 n

/-- A. `if (consume > 0) { ... }`: copy TS payload into `pes_buffer` -/
def tsPhaseA (s : TsSt) (rest : Bytes) : Ph :=
  if s.consume > 0 then
    if s.consume > rest.length then
      if s.pes.length + rest.length > PES_BUF_SIZE then .stop s (.fault (.oob "ts_pes_copy_all"))
      else if s.pesTodo < rest.length then .stop s (.fault (.assertFail "ts_pes_todo_underflow"))
      else .stop { s with pes := s.pes ++ rest, pesTodo := s.pesTodo - rest.length,
                          consume := s.consume - rest.length } .needMore
    else
      if s.pes.length + s.consume > PES_BUF_SIZE then .stop s (.fault (.oob "ts_pes_copy"))
      else if s.pesTodo < s.consume then .stop s (.fault (.assertFail "ts_pes_todo_underflow"))
      else
        tsPesDone { s with pes := s.pes ++ rest.take s.consume, pesTodo := s.pesTodo - s.consume, consume := 0 }
          s.consume
  else .go s 0

/-- B. `if (ts_frame_todo > 0) { ... }`: extract data units from the PES packet in `pes_buffer` -/
def tsPhaseB (cfg : SrcCfg) (hasCb skipEmpty : Bool) (s : TsSt) : TsSt × List FrameOut × Option Stop :=
  if s.frameRest.length > 0 then
    match pesPacketFrame cfg 3 hasCb skipEmpty s.fs s.frameRest with
    | (fs1, outs, .callback, rest) => ({ s with fs := fs1, frameRest := rest }, outs, some .callback)
    | (fs1, outs, .fault e, rest) => ({ s with fs := fs1, frameRest := rest }, outs, some (.fault e))
    | (fs1, outs, .err, _) => ({ s with fs := { fs1 with newFrame := true }, frameRest := [] }, outs, none)
    | (fs1, outs, .done, rest) => ({ s with fs := fs1, frameRest := rest }, outs, none)
  else (s, [], none)

/-- C. skip over `ts_wrap.skip` bytes -/
def tsPhaseC (s : TsSt) (rest : Bytes) : Ph :=
  if s.skip > rest.length then .stop { s with skip := s.skip - rest.length } .needMore
  else .go { s with skip := 0 } s.skip

/-- D. copy `ts_wrap.lookahead` bytes into `ts_buffer` -/
def tsPhaseD (s : TsSt) (rest : Bytes) : Ph :=
  if s.lookahead > rest.length then
    if s.tsBuf.length + rest.length > TS_BUF_SIZE then .stop s (.fault (.oob "ts_buf_copy_all"))
    else .stop { s with tsBuf := s.tsBuf ++ rest, lookahead := s.lookahead - rest.length } .needMore
  else if s.tsBuf.length + s.lookahead > TS_BUF_SIZE then .stop s (.fault (.oob "ts_buf_copy"))
  else .go { s with tsBuf := s.tsBuf ++ rest.take s.lookahead } s.lookahead

/-- E. everything after the copy: sync check / sync search, header evaluation (no input is read) -/
def tsPhaseE (cfg : SrcCfg) (s : TsSt) : TsSt × TsK :=
  let avail := s.tsBuf.length
  if s.inSync then
    if avail < TS_HEADER_LOOKAHEAD then (s, .stop (.fault (.oob "ts_header_read")))
    else if s.tsBuf.getD 0 0 ≠ 0x47 then
      if avail > TS_SYNC_SEARCH_LOOKAHEAD then (s, .stop (.fault (.assertFail "ts_lookahead_underflow")))
      else
        ({ s with inSync := false, fs := { s.fs with newFrame := true }, pesTodo := 0, consume := 0,
                  cont := none, lookahead := TS_SYNC_SEARCH_LOOKAHEAD - avail }, .cont)
    else
      match tsHeader cfg s s.tsBuf with
      | (s', none) => (s', .cont)
      | (s', some e) => (s', .stop (.fault e))
  else
    if avail < TS_SYNC_SEARCH_LOOKAHEAD then
      (s, .stop (.fault (.assertFail "ts_sync_avail")))   -- assert (avail >= ...)
    else
      match tsSyncSearch s.tsBuf 189 0 with
      | none =>
        let avail := avail - 188
        if avail > TS_SYNC_SEARCH_LOOKAHEAD then (s, .stop (.fault (.assertFail "ts_lookahead_underflow")))
        else ({ s with tsBuf := s.tsBuf.drop 188, lookahead := TS_SYNC_SEARCH_LOOKAHEAD - avail }, .cont)
      | some p =>
        let q := s.tsBuf.drop p
        if q.length < TS_HEADER_LOOKAHEAD then (s, .stop (.fault (.oob "ts_header_read_sync")))
        else
          match tsHeader cfg { s with inSync := true } q with
          | (s', none) => (s', .cont)
          | (s', some e) => (s', .stop (.fault e))

/-- one pass through the `for (;;)` body of `demux_ts_packet` on the unread input `rest`:
(state, frames, bytes consumed, outcome) -/
def tsStep (cfg : SrcCfg) (hasCb skipEmpty : Bool) (s : TsSt) (rest : Bytes) : TsSt × List FrameOut × Nat × TsK :=
  match tsPhaseA s rest with
  | .stop s' k => (s', [], rest.length, .stop k)
  | .go s1 n1 =>
    match tsPhaseB cfg hasCb skipEmpty s1 with
    | (s2, outs, some k) => (s2, outs, n1, .stop k)
    | (s2, outs, none) =>
      match tsPhaseC s2 (rest.drop n1) with
      | .stop s3 k => (s3, outs, rest.length, .stop k)
      | .go s3 n3 =>
        match tsPhaseD s3 (rest.drop (n1 + n3)) with
        | .stop s4 k => (s4, outs, rest.length, .stop k)
        | .go s4 n4 =>
          match tsPhaseE cfg s4 with
          | (s5, k) => (s5, outs, n1 + n3 + n4, k)

/-- `demux_ts_packet` on the unread input `rest`: (state, frames, bytes consumed, how it returned) -/
def tsRun (cfg : SrcCfg) : Nat → Bool → Bool → TsSt → Bytes → TsSt × List FrameOut × Nat × Stop
  | 0, _, _, s, _ => (s, [], 0, .fault (.assertFail "ts_loop_fuel"))
  | fuel + 1, hasCb, skipEmpty, s, rest =>
    match tsStep cfg hasCb skipEmpty s rest with
    | (s', outs, n, .stop r) => (s', outs, n, r)
    | (s', outs, n, .cont) =>
      let (s2, outs2, n2, r) := tsRun cfg fuel hasCb skipEmpty s' (rest.drop n)
      (s2, outs ++ outs2, n + n2, r)

/-- `demux_ts_packet (dx, &src, &src_left)` with `*src = buf + si` -/
def tsLoop (cfg : SrcCfg) (fuel : Nat) (hasCb skipEmpty : Bool) (s : TsSt) (buf : Bytes) (si : Nat) :
    TsSt × List FrameOut × Nat × Stop :=
  match tsRun cfg fuel hasCb skipEmpty s (buf.drop si) with
  | (s', outs, n, r) => (s', outs, si + n, r)

structure TsRes where
  st : TsSt
  frames : List FrameOut := []
  err : Option Err := none
  stalled : Bool := false
  deriving DecidableEq, Repr

def tsFuel (buf : Bytes) (si : Nat) : Nat := (buf.length - si) + 2

/-- `vbi_dvb_demux_feed` on a TS demux whose callback returns TRUE -/
def tsFeed (cfg : SrcCfg) (s : TsSt) (buf : Bytes) : TsRes :=
  if buf.length = 0 then { st := s }        -- if (0 == s_left) return 0
  else match tsLoop cfg (tsFuel buf 0) true false s buf 0 with
    | (s', outs, _, .fault e) => { st := s', frames := outs, err := some e }
    | (s', outs, _, _) => { st := s', frames := outs }

/-- one `vbi_dvb_demux_cor` call on a TS demux -/
def tsCor (cfg : SrcCfg) (skipEmpty : Bool) (s : TsSt) (buf : Bytes) (si maxLines : Nat) :
    TsSt × Nat × Option FrameOut × Option Err :=
  if buf.length - si = 0 then (s, si, none, none)
  else match tsLoop cfg (tsFuel buf si) false skipEmpty s buf si with
    | (s', _, si', .fault e) => (s', si', none, some e)
    | (s', _, si', .needMore) => (s', si', none, none)
    | (s', _, si', .callback) =>
      let n := min s'.fs.frame.lines.length maxLines
      if n > 0 then
        ({ s' with fs := { s'.fs with frame := { s'.fs.frame with lines := [] } } }, si',
         some { pts := s'.fs.framePts, lines := s'.fs.frame.lines.take n }, none)
      else (s', si', none, none)

def tsCorDrain (cfg : SrcCfg) : Nat → Bool → Nat → TsSt → Bytes → Nat → Nat → TsRes
  | 0, _, _, s, _, _, _ => { st := s, err := some (.assertFail "cor_drain_fuel") }
  | fuel + 1, skipEmpty, stall, s, buf, si, maxLines =>
    if si ≥ buf.length then { st := s }
    else
      match tsCor cfg skipEmpty s buf si maxLines with
      | (s', _, _, some e) => { st := s', err := some e }
      | (s', si', fo, none) =>
        let stall' := if si' = si ∧ fo.isNone then stall + 1 else 0
        if stall' ≥ COR_STALL_LIMIT then { st := s', stalled := true }
        else
          let r := tsCorDrain cfg fuel skipEmpty stall' s' buf si' maxLines
          { r with frames := fo.toList ++ r.frames }

end Zvbi.Demux
