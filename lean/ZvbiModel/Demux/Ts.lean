import ZvbiModel.Demux.Model
/-!
# Model of src/dvb_demux.c - the TS path (`demux_ts_packet`, `_vbi_dvb_ts_demux_new`)

Transcribed block by block; the frame / PES header logic is shared with `Demux/Model.lean`.
`tsBuf` = bytes `ts_buffer .. ts_wrap.bp`, `pes` = bytes `pes_buffer .. ts_pes_bp`,
`frameRest` = bytes `ts_frame_bp .. ts_frame_bp + ts_frame_todo`.
Unsigned subtractions that would wrap in C are explicit `.assertFail "..._underflow"` results.

Public names: `TsSt`, `TsSt.init pid`, `tsFeed`, `tsCor`, `tsCorDrain`, `TsRes`.
-/
namespace Zvbi.Demux

/-- `sizeof (dx->ts_buffer)` = `ALIGN (TS_SYNC_SEARCH_LOOKAHEAD)` -/
def TS_BUF_SIZE : Nat := 208
def TS_HEADER_LOOKAHEAD : Nat := 10
def TS_SYNC_SEARCH_LOOKAHEAD : Nat := 188 + 10 - 1

structure TsSt where
  fs : FS := {}
  tsBuf : Bytes := []
  skip : Nat := 0
  consume : Nat := 0
  lookahead : Nat := TS_SYNC_SEARCH_LOOKAHEAD
  inSync : Bool := false
  frameRest : Bytes := []
  pes : Bytes := []
  pesTodo : Nat := 0
  /-- `ts_continuity`; `none` = -1 -/
  cont : Option Nat := none
  pid : Nat := 0
  deriving DecidableEq, Repr

def TsSt.init (pid : Nat) : TsSt := { pid := pid }

/-- `_vbi_dvb_ts_demux_new` refuses these PIDs -/
def tsPidOk (pid : Nat) : Bool := ¬ (pid ≤ 0x000F ∨ pid ≥ 0x1FFF)

/-- outcome of one pass through the body of the `for (;;)` -/
inductive TsK where
  | cont            -- next iteration
  | stop (r : Stop)
  deriving DecidableEq, Repr

/-- the tail shared by `skip_ts_packet`, `skip_ts_pes_packet` and the payload copy: what happens to
`ts_buffer` once the TS packet at `q = tsBuf.drop p` (`avail = q.length`) has been dealt with -/
def tsAdvance (s : TsSt) (q : Bytes) (setSkip : Bool) : TsSt :=
  let avail := q.length
  if avail ≤ 188 then
    { s with skip := if setSkip then 188 - avail else s.skip, tsBuf := [], lookahead := TS_HEADER_LOOKAHEAD }
  else
    let la := avail - 188
    { s with tsBuf := q.drop 188, lookahead := TS_HEADER_LOOKAHEAD - min la TS_HEADER_LOOKAHEAD }

def tsSkipPacket (s : TsSt) (q : Bytes) : TsSt := tsAdvance s q true

def tsSkipPesPacket (s : TsSt) (q : Bytes) : TsSt :=
  tsAdvance { s with fs := { s.fs with newFrame := true }, pesTodo := 0, consume := 0 } q true

/-- sync_byte search over `ts_buffer[0 .. 188)`; `some p` = found at `p` -/
def tsSyncSearch (b : Bytes) : Nat → Nat → Option Nat
  | 0, _ => none
  | fuel + 1, p =>
    if p ≥ 188 then none
    else
      let ok :=
        b.getD p 0 = 0x47 ∧
        ((p + 188 < b.length ∧ b.getD (p + 188) 0 = 0x47) ∨
         (p + 7 < b.length ∧ (b.getD (p + 4) 0 ||| b.getD (p + 5) 0) = 0 ∧ b.getD (p + 6) 0 = 1
            ∧ b.getD (p + 7) 0 = PRIVATE_STREAM_1))
      if ok then some p else tsSyncSearch b fuel (p + 1)

/-- header evaluation of the TS packet `q` (`q.length = avail >= 10`), from `b1 = p[1]` on -/
def tsHeader (s : TsSt) (q : Bytes) : TsSt × Option Err :=
  let g (i : Nat) := q.getD i 0
  let b1 := g 1
  let pid := (b1 * 256 + g 2) &&& 0x1FFF
  let b3 := g 3
  if b1 &&& 0x80 ≠ 0 then (tsSkipPesPacket s q, none)
  else if pid ≠ s.pid then (tsSkipPacket s q, none)
  else if b3 &&& 0xC0 ≠ 0 then (tsSkipPesPacket s q, none)
  else
    let afc := b3 &&& 0x30
    if afc = 0x20 then (tsSkipPacket s q, none)
    else if afc ≠ 0x10 then (tsSkipPesPacket s q, none)
    else
      -- continuity_counter
      let contRes : Option TsSt :=       -- none: go on with the payload
        match s.cont with
        | none => none
        | some c =>
          if (c ^^^ b3) &&& 0x0F ≠ 0 then
            if ((c - 1) ^^^ b3) &&& 0x0F = 0 then some (tsSkipPacket s q)
            else some (tsSkipPesPacket { s with cont := some (b3 + 1) } q)
          else none
      match contRes with
      | some s' => (s', none)
      | none =>
        let s := { s with cont := some (b3 + 1) }
        let start : Option TsSt :=         -- none: skip_ts_pes_packet
          if s.pesTodo = 0 then
            if (g 4 ||| g 5) ≠ 0 ∨ g 6 ≠ 1 ∨ g 7 ≠ PRIVATE_STREAM_1 then none
            else
              let packetLength := g 8 * 256 + g 9
              if packetLength < 178 then none
              else some { s with pes := [], pesTodo := packetLength + 6 }
          else if b1 &&& 0x40 ≠ 0 then none
          else some s
        match start with
        | none => (tsSkipPesPacket s q, none)
        | some s =>
          let avail := q.length
          if avail ≤ 188 then
            let consume := min s.pesTodo 184
            let fragment := min (avail - 4) consume
            if s.pes.length + fragment > PES_BUF_SIZE then (s, some (.oob "ts_pes_copy_header"))
            else
              (tsAdvance { s with pes := s.pes ++ (q.drop 4).take fragment, pesTodo := s.pesTodo - fragment,
                                  consume := consume - fragment } q false, none)
          else
            let fragment := min s.pesTodo 184
            if s.pes.length + fragment > PES_BUF_SIZE then (s, some (.oob "ts_pes_copy_resync"))
            else
              (tsAdvance { s with pes := s.pes ++ (q.drop 4).take fragment, pesTodo := s.pesTodo - fragment }
                 q false, none)

/-- one pass through the `for (;;)` body of `demux_ts_packet`: (state, frames, new offset, outcome) -/
def tsIter (hasCb skipEmpty : Bool) (s : TsSt) (buf : Bytes) (si : Nat) : TsSt × List FrameOut × Nat × TsK :=
  let sLeft := buf.length - si
  -- A. copy TS payload into pes_buffer
  let a : TsSt × Nat × Option TsK :=
    if s.consume > 0 then
      if s.consume > sLeft then
        if s.pes.length + sLeft > PES_BUF_SIZE then (s, si, some (.stop (.fault (.oob "ts_pes_copy_all"))))
        else if s.pesTodo < sLeft then (s, si, some (.stop (.fault (.assertFail "ts_pes_todo_underflow"))))
        else ({ s with pes := s.pes ++ buf.drop si, pesTodo := s.pesTodo - sLeft, consume := s.consume - sLeft },
              si + sLeft, some (.stop .needMore))
      else
        if s.pes.length + s.consume > PES_BUF_SIZE then (s, si, some (.stop (.fault (.oob "ts_pes_copy"))))
        else if s.pesTodo < s.consume then (s, si, some (.stop (.fault (.assertFail "ts_pes_todo_underflow"))))
        else
          let s1 := { s with pes := s.pes ++ (buf.drop si).take s.consume, pesTodo := s.pesTodo - s.consume,
                             consume := 0 }
          let si1 := si + s.consume
          if s1.pesTodo = 0 then
            if s1.pes.length < 46 then (s1, si1, some (.stop (.fault (.oob "ts_pes_header"))))
            else match validHeader s1.fs (s1.pes.take 46) with
              | none => ({ s1 with fs := { s1.fs with newFrame := true }, frameRest := [] }, si1, none)
              | some fs' =>
                ({ s1 with fs := { fs' with frame := { fs'.frame with nDu := 0 } }, frameRest := s1.pes.drop 46 },
                 si1, none)
          else (s1, si1, none)
    else (s, si, none)
  match a with
  | (s, si, some k) => (s, [], si, k)
  | (s, si, none) =>
    -- B. extract data units from the PES packet in pes_buffer
    let b : TsSt × List FrameOut × Option TsK :=
      if s.frameRest.length > 0 then
        match pesPacketFrame 3 hasCb skipEmpty s.fs s.frameRest with
        | (fs1, outs, .callback, rest) => ({ s with fs := fs1, frameRest := rest }, outs, some (.stop .callback))
        | (fs1, outs, .fault e, rest) => ({ s with fs := fs1, frameRest := rest }, outs, some (.stop (.fault e)))
        | (fs1, outs, .err, _) => ({ s with fs := { fs1 with newFrame := true }, frameRest := [] }, outs, none)
        | (fs1, outs, .done, rest) => ({ s with fs := fs1, frameRest := rest }, outs, none)
      else (s, [], none)
    match b with
    | (s, outs, some k) => (s, outs, si, k)
    | (s, outs, none) =>
      let sLeft := buf.length - si
      -- C. skip
      if s.skip > sLeft then ({ s with skip := s.skip - sLeft }, outs, si + sLeft, .stop .needMore)
      else
        let si := si + s.skip
        let sLeft := sLeft - s.skip
        let s := { s with skip := 0 }
        -- D. lookahead bytes into ts_buffer
        let lookahead := s.lookahead
        if lookahead > sLeft then
          if s.tsBuf.length + sLeft > TS_BUF_SIZE then (s, outs, si, .stop (.fault (.oob "ts_buf_copy_all")))
          else ({ s with tsBuf := s.tsBuf ++ buf.drop si, lookahead := lookahead - sLeft }, outs, si + sLeft,
                .stop .needMore)
        else if s.tsBuf.length + lookahead > TS_BUF_SIZE then (s, outs, si, .stop (.fault (.oob "ts_buf_copy")))
        else
          let s := { s with tsBuf := s.tsBuf ++ (buf.drop si).take lookahead }
          let si := si + lookahead
          let avail := s.tsBuf.length
          if s.inSync then
            if avail < TS_HEADER_LOOKAHEAD then (s, outs, si, .stop (.fault (.oob "ts_header_read")))
            else if s.tsBuf.getD 0 0 ≠ 0x47 then
              if avail > TS_SYNC_SEARCH_LOOKAHEAD then
                (s, outs, si, .stop (.fault (.assertFail "ts_lookahead_underflow")))
              else
                ({ s with inSync := false, fs := { s.fs with newFrame := true }, pesTodo := 0, consume := 0,
                          cont := none, lookahead := TS_SYNC_SEARCH_LOOKAHEAD - avail }, outs, si, .cont)
            else
              match tsHeader s s.tsBuf with
              | (s', none) => (s', outs, si, .cont)
              | (s', some e) => (s', outs, si, .stop (.fault e))
          else
            if avail < TS_SYNC_SEARCH_LOOKAHEAD then
              (s, outs, si, .stop (.fault (.assertFail "ts_sync_avail")))   -- assert (avail >= ...)
            else
              match tsSyncSearch s.tsBuf 189 0 with
              | none =>
                let avail := avail - 188
                if avail > TS_SYNC_SEARCH_LOOKAHEAD then
                  (s, outs, si, .stop (.fault (.assertFail "ts_lookahead_underflow")))
                else
                  ({ s with tsBuf := s.tsBuf.drop 188, lookahead := TS_SYNC_SEARCH_LOOKAHEAD - avail },
                   outs, si, .cont)
              | some p =>
                let q := s.tsBuf.drop p
                if q.length < TS_HEADER_LOOKAHEAD then (s, outs, si, .stop (.fault (.oob "ts_header_read_sync")))
                else
                  match tsHeader { s with inSync := true } q with
                  | (s', none) => (s', outs, si, .cont)
                  | (s', some e) => (s', outs, si, .stop (.fault e))

/-- `demux_ts_packet` -/
def tsLoop : Nat → Bool → Bool → TsSt → Bytes → Nat → TsSt × List FrameOut × Nat × Stop
  | 0, _, _, s, _, si => (s, [], si, .fault (.assertFail "ts_loop_fuel"))
  | fuel + 1, hasCb, skipEmpty, s, buf, si =>
    match tsIter hasCb skipEmpty s buf si with
    | (s', outs, si', .stop r) => (s', outs, si', r)
    | (s', outs, si', .cont) =>
      let (s2, outs2, si2, r) := tsLoop fuel hasCb skipEmpty s' buf si'
      (s2, outs ++ outs2, si2, r)

structure TsRes where
  st : TsSt
  frames : List FrameOut := []
  err : Option Err := none
  deriving DecidableEq, Repr

def tsFuel (buf : Bytes) (si : Nat) : Nat := (buf.length - si) + 2

/-- `vbi_dvb_demux_feed` on a TS demux whose callback returns TRUE -/
def tsFeed (s : TsSt) (buf : Bytes) : TsRes :=
  if buf.length = 0 then { st := s }        -- if (0 == s_left) return 0
  else match tsLoop (tsFuel buf 0) true false s buf 0 with
    | (s', outs, _, .fault e) => { st := s', frames := outs, err := some e }
    | (s', outs, _, _) => { st := s', frames := outs }

/-- one `vbi_dvb_demux_cor` call on a TS demux -/
def tsCor (skipEmpty : Bool) (s : TsSt) (buf : Bytes) (si maxLines : Nat) :
    TsSt × Nat × Option FrameOut × Option Err :=
  if buf.length - si = 0 then (s, si, none, none)
  else match tsLoop (tsFuel buf si) false skipEmpty s buf si with
    | (s', _, si', .fault e) => (s', si', none, some e)
    | (s', _, si', .needMore) => (s', si', none, none)
    | (s', _, si', .callback) =>
      let n := min s'.fs.frame.lines.length maxLines
      if n > 0 then
        ({ s' with fs := { s'.fs with frame := { s'.fs.frame with lines := [] } } }, si',
         some { pts := s'.fs.framePts, lines := s'.fs.frame.lines.take n }, none)
      else (s', si', none, none)

def tsCorDrain : Nat → Bool → Nat → TsSt → Bytes → Nat → Nat → TsRes
  | 0, _, _, s, _, _, _ => { st := s, err := some (.assertFail "cor_drain_fuel") }
  | fuel + 1, skipEmpty, stall, s, buf, si, maxLines =>
    if si ≥ buf.length then { st := s }
    else
      match tsCor skipEmpty s buf si maxLines with
      | (s', _, _, some e) => { st := s', err := some e }
      | (s', si', fo, none) =>
        let stall' := if si' = si ∧ fo.isNone then stall + 1 else 0
        if stall' ≥ COR_STALL_LIMIT then { st := s', err := some (.assertFail "cor_livelock") }
        else
          let r := tsCorDrain fuel skipEmpty stall' s' buf si' maxLines
          { r with frames := fo.toList ++ r.frames }

end Zvbi.Demux
