import ZvbiModel.Hamm.Model
import ZvbiModel.Generated.DemuxCfg
/-!
# Model of src/dvb_demux.c - frame assembly and the PES path  (property C07, shared with C06)

Statement-by-statement transcription of
`wrap_around`, `lofp_to_line`, `line_address`, `extract_data_units` (sliced units; the demux
context never has a raw buffer: `vbi_dvb_demux_reset` leaves `frame.raw == NULL`),
`reset_frame`, `decode_timestamp`, `valid_vbi_pes_packet_header`, `demux_pes_packet_frame`,
`demux_pes_packet`, `vbi_dvb_demux_feed`, `vbi_dvb_demux_cor`, `vbi_dvb_demux_reset`.
The TS path (`demux_ts_packet`) is in `ZvbiModel/Demux/Ts.lean` and reuses everything here.

## Public names (kept stable; `ZvbiModel.Mux` imports this file)

* `Bytes`                      = `List Nat` (every element < 256 on all paths driven by the driver)
* `Sliced {id line data}`      one `vbi_sliced` (data = the payload bytes the demux wrote: 42/13/2/3)
* `FrameOut {pts lines}`       one callback invocation / one coroutine result
* `Frame`, `FS`                `struct frame` and the frame/PTS part of `vbi_dvb_demux`
* `lineAddress`, `extract`     `line_address`, `extract_data_units`
* `pesPacketFrame`             `demux_pes_packet_frame`
* `Wrap`, `wrapAround`         `struct wrap`, `wrap_around`
* `St`, `St.init`              PES demux context after `vbi_dvb_pes_demux_new`
* `SrcCfg`, `SrcCfg.current`   shape of the three repaired statements of the source (parameter of `lineAddress` .. `pesFeed`)
* `pesFeed cfg s buf`          `vbi_dvb_demux_feed` with a callback that returns TRUE -> `Res`
* `pesCor cfg s buf si maxLines` one `vbi_dvb_demux_cor` call; `pesCorDrain` loops it over a buffer
* `Res {st frames err}`        new state, frames delivered in order, `some e` iff the C code would
                               have left an object (`.oob`) or failed an `assert` (`.assertFail`)

## Conventions

* A C buffer `buffer .. bp` is the list of its bytes (`Wrap.wb`); writing past the extent
  `PES_BUF_SIZE` is `.oob`.  A window `dst .. (scan_end + lookahead)` handed out by `wrap_around` is
  the list of bytes it points at; it is computed from the *same* object the C pointer points into
  (the caller's buffer or the wrap buffer), never from a logical stream.
* `unsigned int` values never exceed 2^32 here (lengths of one feed buffer), they are `Nat`.
-/
namespace Zvbi.Demux
open Zvbi.Hamm (rev8)

abbrev Bytes := List Nat

inductive Err where
  | oob (site : String)
  | assertFail (site : String)
  deriving DecidableEq, Repr

/-- `sizeof (dx->pes_buffer)` = `ALIGN (6 + 65536)`; cross-checked by the harness op `consts` -/
def PES_BUF_SIZE : Nat := 65552
/-- `PES_HEADER_LOOKAHEAD` -/
def PES_HEADER_LOOKAHEAD : Nat := 48
/-- `N_ELEMENTS (dx->sliced)` -/
def N_SLICED : Nat := 64

-- data_unit_id values (src/dvb.h) and VBI_SLICED_* (src/sliced.h); cross-checked by `consts`
def DU_STUFFING : Nat := 0xFF
def DU_TTX_NON_SUBTITLE : Nat := 0x02
def DU_TTX_SUBTITLE : Nat := 0x03
def DU_VPS : Nat := 0xC3
def DU_WSS : Nat := 0xC4
def DU_CC : Nat := 0xC5
def DU_MONO : Nat := 0xC6
def DU_ZVBI_WSS_CPR1204 : Nat := 0xB4
def DU_ZVBI_CC_525 : Nat := 0xB5
def DU_ZVBI_MONO_525 : Nat := 0xB6
def PRIVATE_STREAM_1 : Nat := 0xBD
def SL_TELETEXT_B : Nat := 0x3
def SL_VPS : Nat := 0x4
def SL_VPS_F2 : Nat := 0x1000
def SL_CAPTION_625_F1 : Nat := 0x8
def SL_CAPTION_625_F2 : Nat := 0x10
def SL_WSS_625 : Nat := 0x400
def SL_CAPTION_525_F1 : Nat := 0x20
def SL_CAPTION_525_F2 : Nat := 0x40
def SL_WSS_CPR1204 : Nat := 0x800

/-- The statements of dvb_demux.c whose shape `translate/gen_demux.py` reads from the current
source.  Every function that depends on them takes the shape as a parameter, so that theorems can
be stated for the repaired and for the unrepaired source alike; the driver passes `SrcCfg.current`. -/
structure SrcCfg where
  /-- `demux_pes_packet_frame`: with `callback == NULL` a frame without lines is skipped (`continue`) -/
  corSkipsEmpty : Bool
  /-- `demux_pes_packet`: a data unit error discards the lines collected so far (`0 != err`, not `err < 0`) -/
  pesDiscards : Bool
  /-- `line_address`: VBI_ERR_SLICED_BUFFER_OVERFLOW is tested only where a line is stored, i.e. after
  the new-frame tests of both branches (fix dvb-demux-full-frame); `false` while it is the first
  statement of the function -/
  lateOverflow : Bool
  /-- `demux_ts_packet`: a PES packet that is complete after the header evaluation of a TS packet (all of its
  payload was already in `ts_buffer`: first packet after (re)synchronisation) gets the "PES packet complete"
  step there (fix dvb-demux-ts-first-packet, F30); `false` while only the copy loop has that step -/
  tsCompletesInHeader : Bool
  deriving DecidableEq, Repr

/-- the source as it is now (regenerated from /repo on every run) -/
def SrcCfg.current : SrcCfg :=
  { corSkipsEmpty := Zvbi.Gen.demuxCorSkipsEmptyFrame, pesDiscards := Zvbi.Gen.demuxPesDiscardsOnError,
    lateOverflow := Zvbi.Gen.demuxLateOverflowTest, tsCompletesInHeader := Zvbi.Gen.demuxTsCompletesInHeader }
/-- the tree before the fix commits 776a0f0 / 7c6e61c -/
def SrcCfg.unrepaired : SrcCfg := { corSkipsEmpty := false, pesDiscards := false, lateOverflow := false, tsCompletesInHeader := false }
/-- the tree with 776a0f0 and 7c6e61c but with the overflow test of `line_address` in front (finding C07-full-frame) -/
def SrcCfg.earlyOverflow : SrcCfg := { corSkipsEmpty := true, pesDiscards := true, lateOverflow := false, tsCompletesInHeader := false }
/-- all four repairs -/
def SrcCfg.repaired : SrcCfg :=
  { corSkipsEmpty := true, pesDiscards := true, lateOverflow := true, tsCompletesInHeader := true }

structure Sliced where
  id : Nat
  line : Nat
  data : Bytes
  deriving DecidableEq, Repr

structure FrameOut where
  pts : Nat
  lines : List Sliced
  deriving DecidableEq, Repr

/-- `struct frame` restricted to what is live when `raw == NULL` (`raw_offset` stays 0, `rp == raw`).
`lines` is `sliced_begin .. sp`. -/
structure Frame where
  lines : List Sliced := []
  lastField : Nat := 0
  lastFieldLine : Nat := 0
  lastFrameLine : Nat := 0
  lastDuId : Nat := 0
  nDu : Nat := 0
  deriving DecidableEq, Repr

/-- `reset_frame` -/
def resetFrame (_f : Frame) : Frame := {}

/-- `lofp_to_line` : (field, field_line, frame_line) -/
def lofpToLine (lofp : Nat) (sys625 : Bool) : Nat × Nat × Nat :=
  let field := if lofp &&& 32 = 0 then 1 else 0
  let lineOffset := lofp &&& 31
  if lineOffset > 0 then
    let start := if field = 0 then 0 else (if sys625 then 313 else 263)
    (field, lineOffset, start + lineOffset)
  else (field, 0, 0)

/-- result of `line_address (f, &s, NULL, lofp, system)` -/
inductive LA where
  /-- 0: slot allocated (`*spp = f->sp++`); the caller fills it; `line` is `(*spp)->line` -/
  | ok (f : Frame) (line : Nat)
  /-- -1 -/
  | newFrame
  /-- `VBI_ERR_SLICED_BUFFER_OVERFLOW` / `VBI_ERR_DU_LINE_NUMBER` -/
  | err
  deriving DecidableEq, Repr

/-- `line_address` with `rpp == NULL`.  The slot push itself is done by the caller (`pushLine`),
because the C callers either fill the slot or undo the allocation (`--f->sp`).
`cfg.lateOverflow = false`: `f->sp >= f->sliced_end` is the first test; `true` (fix
dvb-demux-full-frame): it stands in both branches after the new-frame / line-order tests, where the
slot is allocated.  (The two late tests are written unconditionally: in the old shape they are
never reached with a full buffer.) -/
def lineAddress (cfg : SrcCfg) (f : Frame) (lofp : Nat) (sys625 : Bool) : LA :=
  if cfg.lateOverflow = false ∧ f.lines.length ≥ N_SLICED then .err
  else
    let (field, fieldLine, frameLine) := lofpToLine lofp sys625
    if frameLine ≠ 0 then
      if frameLine ≤ f.lastFrameLine then
        if f.nDu > 0 then .err
        else .newFrame     -- both `<` and `==` (rpp == NULL) return -1
      else if f.lines.length ≥ N_SLICED then .err
      else
        .ok { f with lastField := field, lastFieldLine := fieldLine, lastFrameLine := frameLine,
                     nDu := f.nDu + 1 } frameLine
    else
      if f.lastDuId ≠ 0 ∧ field ≠ f.lastField ∧ f.nDu = 0 then .newFrame
      else if f.lastDuId ≠ 0 ∧ field ≠ f.lastField ∧ field < f.lastField then .err
      else if f.lines.length ≥ N_SLICED then .err
      else .ok { f with lastField := field, lastFieldLine := fieldLine, nDu := f.nDu + 1 } 0

def pushLine (f : Frame) (id line : Nat) (data : Bytes) : Frame :=
  { f with lines := f.lines ++ [{ id := id, line := line, data := data }] }

/-- result of `extract_data_units` -/
inductive XR where
  | done          -- 0, *src_left = 0
  | newFrame      -- -1
  | err           -- > 0 (all VBI_ERR_* look the same to the callers)
  | fault (e : Err)
  deriving DecidableEq, Repr

/-- what one data unit does: `none` = `break` out of the switch without touching the frame -/
inductive DU where
  | skip
  | fail (f : Frame) (r : XR)
  | store (f : Frame)
  deriving DecidableEq, Repr

/-- the `switch (data_unit_id)` body for a unit `d = p[0 .. ]` whose `2 + len <= d.length` was checked -/
def dataUnit (cfg : SrcCfg) (f : Frame) (d : Bytes) (id len : Nat) : DU :=
  let addr (minLen : Nat) (sys625 : Bool) (k : Frame → Nat → DU) : DU :=
    if len < minLen then .fail f .err
    else match d[2]? with
      | none => .fail f (.fault (.oob "du_lofp"))
      | some lofp =>
        match lineAddress cfg f lofp sys625 with
        | .err => .fail f .err
        | .newFrame => .fail f .newFrame
        | .ok f' line => k f' line
  let payload (off n : Nat) (k : Bytes → DU) : DU :=
    let b := (d.drop off).take n
    if b.length = n then k b else .fail f (.fault (.oob "du_payload"))
  if id = DU_TTX_NON_SUBTITLE ∨ id = DU_TTX_SUBTITLE then
    if len < 1 + 1 + 42 then .fail f .err
    else match d[3]? with
      | none => .fail f (.fault (.oob "du_framing"))
      | some fc =>
        if fc ≠ 0xE4 then .skip
        else addr 44 true fun f' line =>
          if f'.lastFieldLine > 0 ∧ (f'.lastFieldLine < 7 ∨ f'.lastFieldLine - 7 ≥ 23 - 7) then .fail f' .err
          else payload 4 42 fun b => .store (pushLine f' SL_TELETEXT_B line (b.map rev8))
  else if id = DU_VPS then
    addr (1 + 13) true fun f' line =>
      if line ≠ 16 then .fail f' .err
      else payload 3 13 fun b => .store (pushLine f' (if f'.lastField = 0 then SL_VPS else SL_VPS_F2) line b)
  else if id = DU_WSS then
    addr (1 + 2) true fun f' line =>
      if line ≠ 23 then .fail f' .err
      else payload 3 2 fun b => .store (pushLine f' SL_WSS_625 line (b.map rev8))
  else if id = DU_ZVBI_WSS_CPR1204 then
    addr (1 + 3) false fun f' line =>
      payload 3 3 fun b => .store (pushLine f' SL_WSS_CPR1204 line b)
  else if id = DU_ZVBI_CC_525 then
    addr (1 + 2) false fun f' line =>
      payload 3 2 fun b =>
        .store (pushLine f' (if f'.lastField = 0 then SL_CAPTION_525_F1 else SL_CAPTION_525_F2) line (b.map rev8))
  else if id = DU_CC then
    addr (1 + 2) true fun f' line =>
      if line ≠ 21 then .fail f' .err
      else payload 3 2 fun b =>
        .store (pushLine f' (if f'.lastField = 0 then SL_CAPTION_625_F1 else SL_CAPTION_625_F2) line (b.map rev8))
  else .skip   -- stuffing, monochrome samples (raw == NULL), unknown ids

/-- `extract_data_units (f, &src, &src_left)`: `d` = `*src .. *src + *src_left`.
Returns the frame, the result and the new `*src .. ` (empty on success).
`fuel`: every iteration removes >= 2 bytes; `extract` below supplies `d.length + 1`. -/
def extractLoop (cfg : SrcCfg) : Nat → Frame → Bytes → Frame × XR × Bytes
  | 0, f, d => (f, .fault (.assertFail "extract_fuel"), d)
  | fuel + 1, f, d =>
    if d.length ≤ 2 then (f, .done, [])       -- while (p < p_end_m2) ; *src_left = 0
    else
      match d with
      | id :: len :: _ =>
        if len + 2 > d.length then (f, .err, d)      -- p + data_unit_length > p_end_m2
        else
          match dataUnit cfg f d id len with
          | .fail f' r => (f', r, d)
          | .skip => extractLoop cfg fuel { f with lastDuId := id } (d.drop (len + 2))
          | .store f' => extractLoop cfg fuel { f' with lastDuId := id } (d.drop (len + 2))
      | _ => (f, .fault (.oob "du_header"), d)

def extract (cfg : SrcCfg) (f : Frame) (d : Bytes) : Frame × XR × Bytes :=
  if d.length < 2 then (f, .fault (.assertFail "extract_src_left"), d)    -- assert (*src_left >= 2)
  else extractLoop cfg (d.length + 1) f d

/-- frame / PTS part of `struct _vbi_dvb_demux` -/
structure FS where
  frame : Frame := {}
  framePts : Nat := 0
  packetPts : Nat := 0
  newFrame : Bool := true
  deriving DecidableEq, Repr

/-- result of `demux_pes_packet_frame` -/
inductive PR where
  | done        -- 0
  | err         -- error in a data unit (> 0, not VBI_ERR_CALLBACK)
  | callback    -- VBI_ERR_CALLBACK (no callback installed: coroutine interface)
  | fault (e : Err)
  deriving DecidableEq, Repr

/-- `demux_pes_packet_frame (dx, &src, &src_left)`; `hasCb` = `dx->callback != NULL` (it returns TRUE).
`skipEmpty` describes the source: `true` iff the `callback == NULL` branch skips a frame without lines
(`Zvbi.Gen.demuxCorSkipsEmptyFrame`, regenerated from /repo; `false` on the unchanged tree).
The `for (;;)` runs at most twice (theorem `pesPacketFrame_two_rounds`); the third round is the
unreachable `assert (0)`. Returns new frame state, frames delivered, result, new `*src ..`. -/
def pesPacketFrame (cfg : SrcCfg) : Nat → Bool → Bool → FS → Bytes → FS × List FrameOut × PR × Bytes
  | 0, _, _, fs, d => (fs, [], .fault (.assertFail "pes_packet_frame_loop"), d)
  | fuel + 1, hasCb, skipEmpty, fs, d =>
    let fs1 : FS := if fs.newFrame then
        { fs with frame := resetFrame fs.frame, framePts := fs.packetPts, newFrame := false } else fs
    match extract cfg fs1.frame d with
    | (f, .done, rest) => ({ fs1 with frame := f }, [], .done, rest)
    | (f, .err, rest) => ({ fs1 with frame := f }, [], .err, rest)
    | (f, .fault e, rest) => ({ fs1 with frame := f }, [], .fault e, rest)
    | (f, .newFrame, rest) =>
      let fs2 : FS := { fs1 with frame := f, newFrame := true }
      if !hasCb then
        if skipEmpty ∧ f.lines.isEmpty then pesPacketFrame cfg fuel hasCb skipEmpty fs2 rest
        else (fs2, [], .callback, rest)
      else
        let out : FrameOut := { pts := fs2.framePts, lines := f.lines }
        let (fs3, outs, r, rest') := pesPacketFrame cfg fuel hasCb skipEmpty fs2 rest
        (fs3, out :: outs, r, rest')

/-- `decode_timestamp` (the mark check is disabled in the C code) -/
def decodeTimestamp (p : Bytes) : Nat :=
  let b (i : Nat) := p.getD i 0
  let t := (b 1 <<< 22) ||| ((b 2 &&& 0xFE) <<< 14) ||| (b 3 <<< 7) ||| (b 4 >>> 1)
  t ||| ((b 0 &&& 0x0E) <<< 29)

/-- `valid_vbi_pes_packet_header (dx, p)`; `h` = `p[0 .. 46)` (length checked by the callers).
`none` = FALSE; `some fs'` = TRUE with `packet_pts` possibly updated. -/
def validHeader (fs : FS) (h : Bytes) : Option FS :=
  let b (i : Nat) := h.getD i 0
  if b 8 ≠ 36 then none
  else
    let di := b (9 + 36)
    if ¬ ((0x10 ≤ di ∧ di ≤ 0x1F) ∨ (0x99 ≤ di ∧ di ≤ 0x9B)) then none
    else if (b 6 &&& 0xF4) ≠ 0x84 then none
    else
      let m := b 7 >>> 6
      if m = 2 ∨ m = 3 then some { fs with packetPts := decodeTimestamp (h.drop 9) }
      else if fs.newFrame then none
      else some fs

/-- `struct wrap` for the PES buffer: `wb` = bytes `buffer .. bp` -/
structure Wrap where
  wb : Bytes := []
  skip : Nat := 0
  lookahead : Nat := PES_HEADER_LOOKAHEAD
  leftover : Nat := 0
  deriving DecidableEq, Repr

/-- result of `wrap_around`: new wrap state, new source offset, and on TRUE the window
`*dst .. *scan_end + lookahead` -/
inductive WR where
  | more (w : Wrap) (si : Nat)                  -- FALSE, *src_left == 0
  | win (w : Wrap) (si : Nat) (win : Bytes)     -- TRUE
  | fault (e : Err)
  deriving DecidableEq, Repr

/-- the unconsumed bytes `bp - leftover .. bp` of the wrap buffer -/
def Wrap.pend (w : Wrap) : Bytes := w.wb.drop (w.wb.length - w.leftover)

/-- first block of `wrap_around`: `if (w->skip > 0) { ... }`.
`none` = `return FALSE` from inside the block (everything consumed);
`some (w', adv)` = fall through with `*src += adv`. -/
def wrapSkip (w : Wrap) (srcLeft : Nat) : Option (Wrap × Nat) :=
  if w.skip > 0 then
    if w.skip > w.leftover then
      let skip := w.skip - w.leftover
      if skip > srcLeft then none
      else some ({ w with skip := 0, leftover := 0 }, skip)
    else some ({ w with skip := 0, leftover := w.leftover - w.skip }, 0)
  else some (w, 0)

/-- second block of `wrap_around` (from `available = ...` on), `*src = buf + si` -/
def wrapFill (cap : Nat) (w : Wrap) (buf : Bytes) (si srcSize : Nat) : WR :=
  let srcLeft := buf.length - si
  let available := w.leftover + srcLeft
  let required := w.lookahead
  if required > available ∨ available > srcSize then
    if required > w.leftover then
      -- memmove (w->buffer, w->bp - w->leftover, w->leftover); w->bp = w->buffer + w->leftover
      if w.leftover > w.wb.length then .fault (.oob "wrap_memmove")
      else
        let wb := w.pend
        let required := required - w.leftover
        if required > srcLeft then
          if wb.length + srcLeft > cap then .fault (.oob "wrap_memcpy_all")
          else .more { w with wb := wb ++ buf.drop si, leftover := w.leftover + srcLeft } (si + srcLeft)
        else
          if wb.length + required > cap then .fault (.oob "wrap_memcpy")
          else
            let wb := wb ++ (buf.drop si).take required
            -- *dst = w->buffer; *scan_end = w->bp - w->lookahead
            if w.lookahead > wb.length then .fault (.oob "wrap_scan_end")
            else .win { w with wb := wb, leftover := w.lookahead } (si + required) wb
    else
      -- *dst = w->bp - w->leftover; *scan_end = w->bp - w->lookahead
      if w.leftover > w.wb.length then .fault (.oob "wrap_dst")
      else .win w si w.pend
  else
    -- *dst = *src - w->leftover; *scan_end = *src + *src_left - w->lookahead
    if w.leftover > si then .fault (.oob "wrap_inplace")
    else .win w si (buf.drop (si - w.leftover))

/-- `wrap_around (w, &dst, &scan_end, &src, &src_left, src_size)` where the source buffer is
`buf`, `*src = buf + si`, `*src_left = buf.length - si`.  `srcSize` is the C argument `src_size`
(`*src_left` of the *call* of `demux_pes_packet`, which is smaller than `buf.length` when the
coroutine interface re-enters in the middle of a buffer). -/
def wrapAround (cap : Nat) (w : Wrap) (buf : Bytes) (si srcSize : Nat) : WR :=
  let srcLeft := buf.length - si
  match wrapSkip w srcLeft with
  | none => .more { w with skip := w.skip - w.leftover - srcLeft, leftover := 0 } (si + srcLeft)
  | some (w', adv) => wrapFill cap w' buf (si + adv) srcSize

/-- decision of the start code scan at one position from `p[0..3]` -/
inductive ScanD where
  | adv (n : Nat)
  | found
  | foreign
  deriving DecidableEq, Repr

def scanPos (a b c d : Nat) : ScanD :=
  if c &&& 0xFE ≠ 0 then .adv 3                 -- p[2] & ~1 (bytes are < 256)
  else if (a ||| b) ≠ 0 ∨ c ≠ 1 then .adv 1
  else if d = PRIVATE_STREAM_1 then .found
  else if d < 0xBC then .adv 1
  else .foreign

inductive ScanR where
  | found (p : Nat)
  | foreign (p : Nat)
  | notFound (p : Nat)
  | fault (e : Err)
  deriving DecidableEq, Repr

/-- the inner `for (;;)` of `demux_pes_packet` over the window `win`, `p` relative to `scan_begin` -/
def scanLoop : Nat → Bytes → Nat → Nat → ScanR
  | 0, _, _, _ => .fault (.assertFail "scan_fuel")
  | fuel + 1, win, scanEnd, p =>
    match win.drop p with
    | a :: b :: c :: d :: _ =>
      match scanPos a b c d with
      | .found => .found p
      | .foreign => .foreign p
      | .adv n => if p + n ≥ scanEnd then .notFound (p + n) else scanLoop fuel win scanEnd (p + n)
    | _ => .fault (.oob "scan_read")

/-- PES demux context (`vbi_dvb_pes_demux_new`) -/
structure St where
  pw : Wrap := {}
  fs : FS := {}
  deriving DecidableEq, Repr

def St.init : St := {}

structure Res where
  st : St
  frames : List FrameOut := []
  err : Option Err := none
  /-- only set by `pesCorDrain`: the caller loop of the coroutine interface made no progress -/
  stalled : Bool := false
  deriving DecidableEq, Repr

/-- how `demux_pes_packet` returned -/
inductive Stop where
  | needMore         -- 0
  | callback         -- VBI_ERR_CALLBACK
  | fault (e : Err)
  deriving DecidableEq, Repr

/-- frame state after `demux_pes_packet_frame` reported a data unit error in the PES path -/
def pesErrFs (cfg : SrcCfg) (fs : FS) : FS :=
  if cfg.pesDiscards then { fs with newFrame := true } else fs

/-- what one iteration of the outer `for (;;)` does once `wrap_around` returned TRUE with `win`:
new `(pes_wrap.skip, pes_wrap.lookahead)`, frame state, frames; `none` result = continue,
`some` = return.  (`skip` is 0 here; it is passed so that the early exits return it unchanged.) -/
def pesIter (hasCb : Bool) (cfg : SrcCfg) (skip lookahead : Nat) (fs : FS) (win : Bytes) :
    (Nat × Nat) × FS × List FrameOut × Option Stop :=
  if lookahead > PES_HEADER_LOOKAHEAD then
    -- data units: p .. p + lookahead
    let left := lookahead
    if left > win.length then ((skip, lookahead), fs, [], some (.fault (.oob "pes_payload")))
    else
      let fs0 : FS := { fs with frame := { fs.frame with nDu := 0 } }
      match pesPacketFrame cfg 3 hasCb cfg.corSkipsEmpty fs0 (win.take left) with
      | (fs1, outs, .callback, _) => ((skip, lookahead), fs1, outs, some .callback)
      | (fs1, outs, .fault e, _) => ((skip, lookahead), fs1, outs, some (.fault e))
      | (fs1, outs, .err, _) =>
        -- unchanged tree: `else if (err < 0) dx->new_frame = TRUE;` is dead code (every VBI_ERR_* value is
        -- positive, demux_pes_packet_frame never returns -1): the lines collected so far are kept, unlike in
        -- the TS path (`cfg.pesDiscards = false`); repaired by commit 7c6e61c.
        ((lookahead, PES_HEADER_LOOKAHEAD), pesErrFs cfg fs1, outs, none)
      | (fs1, outs, .done, _) => ((lookahead, PES_HEADER_LOOKAHEAD), fs1, outs, none)
  else
    if lookahead > win.length then ((skip, lookahead), fs, [], some (.fault (.oob "pes_scan_end")))
    else
    match scanLoop (win.length + 1) win (win.length - lookahead) 0 with
    | .fault e => ((skip, lookahead), fs, [], some (.fault e))
    | .notFound p => ((p, lookahead), fs, [], none)
    | .foreign p =>
      match win.drop (p + 4) with
      | l1 :: l2 :: _ => ((p + 6 + (l1 * 256 + l2), lookahead), fs, [], none)
      | _ => ((skip, lookahead), fs, [], some (.fault (.oob "pes_foreign_len")))
    | .found p =>
      let h := (win.drop p).take 46
      if h.length < 46 then ((skip, lookahead), fs, [], some (.fault (.oob "pes_header")))
      else
        -- `p[4] * 256 + p[5]` with `uint8_t` reads (the model's byte lists are over Nat)
        let packetLength := (h.getD 4 0 % 256) * 256 + h.getD 5 0 % 256
        if packetLength < 178 then ((p + 6 + packetLength, lookahead), fs, [], none)
        else match validHeader fs h with
          | none => ((p + 6 + packetLength, lookahead), fs, [], none)
          | some fs' => ((p + 9 + 36 + 1, packetLength - 3 - 36 - 1), fs', [], none)

/-- `demux_pes_packet (dx, &src, &src_left)`: source `buf` from offset `si`; `srcSize` = `*src_left`
at entry. Returns state, frames, new offset, stop reason. -/
def pesLoop : Nat → Bool → SrcCfg → St → Bytes → Nat → Nat → St × List FrameOut × Nat × Stop
  | 0, _, _, s, _, si, _ => (s, [], si, .fault (.assertFail "pes_loop_fuel"))
  | fuel + 1, hasCb, cfg, s, buf, si, srcSize =>
    match wrapAround PES_BUF_SIZE s.pw buf si srcSize with
    | .fault e => (s, [], si, .fault e)
    | .more w si' => ({ s with pw := w }, [], si', .needMore)
    | .win w si' win =>
      match pesIter hasCb cfg w.skip w.lookahead s.fs win with
      | ((sk, la), fs', outs, some stop) => ({ pw := { w with skip := sk, lookahead := la }, fs := fs' }, outs, si', stop)
      | ((sk, la), fs', outs, none) =>
        let (s2, outs2, si2, stop) :=
          pesLoop fuel hasCb cfg { pw := { w with skip := sk, lookahead := la }, fs := fs' } buf si' srcSize
        (s2, outs ++ outs2, si2, stop)

/-- fuel that always suffices (theorem `pesFeed_fuel`): every iteration but the first is preceded by
a skip of >= 1 byte of `leftover ++ buf` -/
def pesFuel (s : St) (buf : Bytes) : Nat := s.pw.leftover + buf.length + 2

/-- `vbi_dvb_demux_feed (dx, buffer, buffer_size)` on a PES demux whose callback returns TRUE -/
def pesFeed (cfg : SrcCfg) (s : St) (buf : Bytes) : Res :=
  match pesLoop (pesFuel s buf) true cfg s buf 0 buf.length with
  | (s', outs, _, .fault e) => { st := s', frames := outs, err := some e }
  | (s', outs, _, _) => { st := s', frames := outs }

/-- one `vbi_dvb_demux_cor (dx, sliced, max_lines, &pts, &buffer, &buffer_left)` call with
`*buffer = buf + si`: (state, new offset, returned frame if the return value is > 0, fault) -/
def pesCor (cfg : SrcCfg) (s : St) (buf : Bytes) (si maxLines : Nat) :
    St × Nat × Option FrameOut × Option Err :=
  match pesLoop (pesFuel s buf) false cfg s buf si (buf.length - si) with
  | (s', _, si', .fault e) => (s', si', none, some e)
  | (s', _, si', .needMore) => (s', si', none, none)
  | (s', _, si', .callback) =>
    let n := min s'.fs.frame.lines.length maxLines
    if n > 0 then
      ({ s' with fs := { s'.fs with frame := { s'.fs.frame with lines := [] } } }, si',
       some { pts := s'.fs.framePts, lines := s'.fs.frame.lines.take n }, none)
    else (s', si', none, none)

/-- calls without any progress after which the caller loop is declared stuck -/
def COR_STALL_LIMIT : Nat := 3

/-- `while (left > 0) n = vbi_dvb_demux_cor (...)`, collecting the frames with n > 0.
A call that neither consumes input nor returns a frame is a *stall*; `COR_STALL_LIMIT` stalls in a
row end the loop with `stalled := true` (the harness does the same, so that a livelock
of the real code is an output line and not a watchdog timeout).
`fuel`: number of calls allowed; `2 * buf.length + 4` suffices when nothing stalls. -/
def pesCorDrain : Nat → SrcCfg → Nat → St → Bytes → Nat → Nat → Res
  | 0, _, _, s, _, _, _ => { st := s, err := some (.assertFail "cor_drain_fuel") }
  | fuel + 1, cfg, stall, s, buf, si, maxLines =>
    if si ≥ buf.length then { st := s }
    else
      match pesCor cfg s buf si maxLines with
      | (s', _, _, some e) => { st := s', err := some e }
      | (s', si', fo, none) =>
        let stall' := if si' = si ∧ fo.isNone then stall + 1 else 0
        if stall' ≥ COR_STALL_LIMIT then { st := s', stalled := true }
        else
          let r := pesCorDrain fuel cfg stall' s' buf si' maxLines
          { r with frames := fo.toList ++ r.frames }

/-- `vbi_dvb_demux_reset` -/
def pesReset (_s : St) : St := St.init

end Zvbi.Demux
