import ZvbiModel.Demux.CorFrame
/-!
# Coroutine interface: `extract_data_units` restarted at the packet start  (helper lemmas for C07)
-/
namespace Zvbi.Demux

variable {cfg : SrcCfg}

/-- `dx->sliced[64]` never overflows -/
theorem extractLoop_lines : ∀ (fuel : Nat) (f : Frame) (d : Bytes), f.lines.length ≤ 64 →
    (extractLoop cfg fuel f d).1.lines.length ≤ 64 := by
  intro fuel
  induction fuel with
  | zero => intro f d h; exact h
  | succ fuel ih =>
    intro f d h
    unfold extractLoop
    by_cases h2 : d.length ≤ 2
    · rw [if_pos h2]; exact h
    · rw [if_neg h2]
      rcases d with _ | ⟨id, _ | ⟨len, t⟩⟩
      · exact h
      · exact h
      · simp only []
        by_cases hl : len + 2 > (id :: len :: t).length
        · rw [if_pos hl]; exact h
        · rw [if_neg hl]
          cases hdu : dataUnit cfg f (id :: len :: t) id len with
          | skip => exact ih _ _ h
          | store f' => exact ih _ _ (dataUnit_store_props f _ id len f' hdu).2
          | fail f' r =>
            show f'.lines.length ≤ 64
            rw [dataUnit_fail_lines f _ id len f' r hdu]; exact h

theorem extract_lines (f : Frame) (d : Bytes) (h : f.lines.length ≤ 64) : (extract cfg f d).1.lines.length ≤ 64 := by
  unfold extract
  split
  · exact h
  · exact extractLoop_lines _ f d h

/-- when `extract_data_units` said -1 at `rest`, every unit before `rest` was stepped over without
looking at the frame: any other frame arrives at `rest` too, changed only in `last_data_unit_id` -/
theorem extractLoop_restart : ∀ (fuel : Nat) (f : Frame) (d : Bytes) (f1 : Frame) (rest : Bytes),
    d.length < fuel → f.nDu = 0 → extractLoop cfg fuel f d = (f1, .newFrame, rest) →
    ∃ k, rest.length < k ∧ ∀ g : Frame, ∃ x, extractLoop cfg fuel g d = extractLoop cfg k { g with lastDuId := x } rest := by
  intro fuel
  induction fuel with
  | zero => intro f d f1 rest h; omega
  | succ fuel ih =>
    intro f d f1 rest hfu hn h
    unfold extractLoop at h
    by_cases h2 : d.length ≤ 2
    · rw [if_pos h2] at h; simp at h
    · rw [if_neg h2] at h
      rcases d with _ | ⟨id, _ | ⟨len, t⟩⟩
      · simp at h2
      · simp at h2
      · simp only [] at h
        by_cases hl : len + 2 > (id :: len :: t).length
        · rw [if_pos hl] at h; simp at h
        · rw [if_neg hl] at h
          have hdrop : ((id :: len :: t).drop (len + 2)).length < fuel := by
            simp only [List.length_drop]; omega
          cases hdu : dataUnit cfg f (id :: len :: t) id len with
          | skip =>
            rw [hdu] at h
            obtain ⟨k, hk, hg⟩ := ih _ _ _ _ hdrop (by exact hn) h
            refine ⟨k, hk, fun g => ?_⟩
            obtain ⟨x, hx⟩ := hg { g with lastDuId := id }
            refine ⟨x, ?_⟩
            rw [← hx]
            conv => lhs; unfold extractLoop
            rw [if_neg h2]
            simp only []
            rw [if_neg hl, dataUnit_skip_indep f g _ id len hdu]
          | store f' =>
            rw [hdu] at h
            exfalso
            have := extractLoop_ndu (cfg := cfg) fuel { f' with lastDuId := id } ((id :: len :: t).drop (len + 2))
              (dataUnit_store_props f _ id len f' hdu).1
            exact this (congrArg (fun r => r.2.1) h)
          | fail f' r =>
            rw [hdu] at h
            simp only [Prod.mk.injEq] at h
            obtain ⟨rfl, rfl, rfl⟩ := h
            exact ⟨fuel + 1, hfu, fun g => ⟨g.lastDuId, rfl⟩⟩

theorem dataUnit_fail_ne_done (f : Frame) (d : Bytes) (id len : Nat) (f' : Frame) :
    dataUnit cfg f d id len ≠ .fail f' .done := by
  unfold dataUnit
  simp only []
  repeat' split
  all_goals (intro h; cases h)

/-- the reset frame with a stale `last_data_unit_id` at a unit: -1 with the frame untouched, or the same
as the reset frame, or the same failure with frames that differ in `last_data_unit_id` only -/
theorem extractLoop_frX (k x : Nat) (rest : Bytes) (hk : rest.length < k) (h2 : 2 < rest.length) :
    extractLoop cfg k (frX x) rest = (frX x, .newFrame, rest) ∨
    extractLoop cfg k (frX x) rest = extractLoop cfg k {} rest ∨
    ∃ f2 r, r ≠ .done ∧ extractLoop cfg k {} rest = (f2, r, rest) ∧
      extractLoop cfg k (frX x) rest = ({ f2 with lastDuId := x }, r, rest) := by
  cases k with
  | zero => omega
  | succ k =>
    unfold extractLoop
    rw [if_neg (by omega), if_neg (by omega)]
    rcases rest with _ | ⟨id, _ | ⟨len, t⟩⟩
    · simp at h2
    · simp at h2
    · simp only []
      by_cases hl : len + 2 > (id :: len :: t).length
      · rw [if_pos hl, if_pos hl]
        exact Or.inr (Or.inr ⟨{}, .err, by simp, rfl, rfl⟩)
      · rw [if_neg hl, if_neg hl]
        rcases dataUnit_frX x (id :: len :: t) id len with hs | hm
        · rw [hs]; exact Or.inl rfl
        · rw [hm]
          cases hdu : dataUnit cfg {} (id :: len :: t) id len with
          | skip => exact Or.inr (Or.inl rfl)
          | store f' => exact Or.inr (Or.inl rfl)
          | fail f' r =>
            refine Or.inr (Or.inr ⟨f', r, ?_, rfl, rfl⟩)
            intro hr
            rw [hr] at hdu
            exact dataUnit_fail_ne_done _ _ _ _ _ hdu

/-- **restart.**  `extract_data_units` said -1 at `rest` (frame counter `n_data_units` 0 at entry).
Extracting the packet again from its start with a reset frame: -1 at `rest` again with no line stored,
or exactly what extracting from `rest` with a reset frame gives, or the same data unit error with
frames that differ in `last_data_unit_id` only. -/
theorem extract_restart (f : Frame) (d : Bytes) (f1 : Frame) (rest : Bytes) (hn : f.nDu = 0)
    (h : extract cfg f d = (f1, .newFrame, rest)) :
    ∃ x, extract cfg {} d = (frX x, .newFrame, rest) ∨ extract cfg {} d = extract cfg {} rest ∨
      ∃ f2 rest2, extract cfg {} rest = (f2, .err, rest2) ∧ extract cfg {} d = ({ f2 with lastDuId := x }, .err, rest2) := by
  have haft := extract_after_newFrame f {} f1 d rest ⟨rfl, rfl, rfl, rfl⟩ h
  have hnf := extract_no_fault (cfg := cfg) {} rest haft.1
  unfold extract at h
  by_cases hd : d.length < 2
  · rw [if_pos hd] at h; simp at h
  · rw [if_neg hd] at h
    obtain ⟨_, _, _, _, _, h2, _, _⟩ := extractLoop_newFrame_rest _ _ _ _ _ h
    obtain ⟨k, hk, hg⟩ := extractLoop_restart _ _ _ _ _ (Nat.lt_succ_self _) hn h
    obtain ⟨x, hx⟩ := hg {}
    have e1 : extract cfg {} d = extractLoop cfg k (frX x) rest := by
      unfold extract; rw [if_neg hd]; exact hx
    have e2 : extract cfg {} rest = extractLoop cfg k {} rest := by
      unfold extract; rw [if_neg (by omega)]
      exact extractLoop_fuel _ _ _ _ (Nat.lt_succ_self _) hk
    refine ⟨x, ?_⟩
    rw [e1, e2]
    rcases extractLoop_frX k x rest hk h2 with h1 | h1 | ⟨f2, r, hr, h3, h4⟩
    · exact Or.inl h1
    · exact Or.inr (Or.inl h1)
    · refine Or.inr (Or.inr ⟨f2, rest, ?_, ?_⟩)
      · rw [e2, h3] at haft hnf
        cases r with
        | done => exact absurd rfl hr
        | newFrame => exact absurd rfl haft.2
        | fault e => exact absurd rfl (hnf e)
        | err => exact h3
      · rw [e2, h3] at haft hnf
        cases r with
        | done => exact absurd rfl hr
        | newFrame => exact absurd rfl haft.2
        | fault e => exact absurd rfl (hnf e)
        | err => exact h4

/-- -1 is only said while no line of this packet was stored: the frame holds the lines it held at entry -/
theorem extractLoop_newFrame_lines : ∀ (fuel : Nat) (f : Frame) (d : Bytes) (f1 : Frame) (rest : Bytes),
    f.nDu = 0 → extractLoop cfg fuel f d = (f1, .newFrame, rest) → f1.lines = f.lines := by
  intro fuel
  induction fuel with
  | zero => intro f d f1 rest _ h; simp [extractLoop] at h
  | succ fuel ih =>
    intro f d f1 rest hn h
    unfold extractLoop at h
    by_cases h2 : d.length ≤ 2
    · rw [if_pos h2] at h; simp at h
    · rw [if_neg h2] at h
      rcases d with _ | ⟨id, _ | ⟨len, t⟩⟩
      · simp at h2
      · simp at h2
      · simp only [] at h
        by_cases hl : len + 2 > (id :: len :: t).length
        · rw [if_pos hl] at h; simp at h
        · rw [if_neg hl] at h
          cases hdu : dataUnit cfg f (id :: len :: t) id len with
          | skip =>
            rw [hdu] at h
            exact ih { f with lastDuId := id } _ _ _ hn h
          | store f' =>
            rw [hdu] at h
            exfalso
            have := extractLoop_ndu (cfg := cfg) fuel { f' with lastDuId := id } ((id :: len :: t).drop (len + 2))
              (dataUnit_store_props f _ id len f' hdu).1
            exact this (congrArg (fun r => r.2.1) h)
          | fail f' r =>
            rw [hdu] at h
            simp only [Prod.mk.injEq] at h
            obtain ⟨rfl, rfl, rfl⟩ := h
            exact dataUnit_fail_lines f _ id len _ _ hdu

theorem extract_newFrame_lines (f : Frame) (d : Bytes) (f1 : Frame) (rest : Bytes) (hn : f.nDu = 0)
    (h : extract cfg f d = (f1, .newFrame, rest)) : f1.lines = f.lines := by
  unfold extract at h
  split at h
  · simp at h
  · exact extractLoop_newFrame_lines _ _ _ _ _ hn h

end Zvbi.Demux
