import ZvbiModel.Demux.LemmasFeed
/-!
# A frame start forgets everything: stale lines, stale PTS  (helper lemmas for C07 `resync`)
-/
namespace Zvbi.Demux

variable {cfg : SrcCfg}

/-- two frame states that the demultiplexer cannot tell apart when `lookahead = la`: equal, or both
at a frame start (and, once a header was accepted, with the same packet PTS) -/
def FsForget (la : Nat) (a b : FS) : Prop :=
  a = b ∨ (a.newFrame = true ∧ b.newFrame = true ∧ (la > 48 → a.packetPts = b.packetPts))

theorem FsForget.rfl' (la : Nat) (a : FS) : FsForget la a a := Or.inl rfl

theorem pesPacketFrame_forget (fuel : Nat) (cb se : Bool) (a b : FS) (d : Bytes)
    (ha : a.newFrame = true) (hb : b.newFrame = true) (hp : a.packetPts = b.packetPts) :
    pesPacketFrame cfg (fuel + 1) cb se a d = pesPacketFrame cfg (fuel + 1) cb se b d := by
  unfold pesPacketFrame
  simp only [ha, hb, if_true, hp, resetFrame]

theorem payloadRes_forget (sk la : Nat) (a b : FS) (d : Bytes)
    (ha : a.newFrame = true) (hb : b.newFrame = true) (hp : a.packetPts = b.packetPts) :
    payloadRes true cfg sk la a d = payloadRes true cfg sk la b d := by
  unfold payloadRes
  rw [pesPacketFrame_forget 2 true cfg.corSkipsEmpty
    { a with frame := { a.frame with nDu := 0 } } { b with frame := { b.frame with nDu := 0 } } d ha hb hp]

theorem validHeader_forget (a b : FS) (h : Bytes) (ha : a.newFrame = true) (hb : b.newFrame = true) :
    (validHeader a h = none ∧ validHeader b h = none) ∨
    ∃ t, validHeader a h = some { a with packetPts := t } ∧ validHeader b h = some { b with packetPts := t } := by
  unfold validHeader
  simp only [ha, hb, if_true]
  repeat' split
  all_goals first
    | exact Or.inl ⟨rfl, rfl⟩
    | exact Or.inr ⟨_, rfl, rfl⟩

theorem foundRes_forget (p : Nat) (a b : FS) (h : Bytes) (ha : a.newFrame = true) (hb : b.newFrame = true) :
    (foundRes p a h).1 = (foundRes p b h).1 ∧ FsForget (foundRes p a h).1.2 (foundRes p a h).2 (foundRes p b h).2 := by
  unfold foundRes
  simp only []
  split
  · exact ⟨rfl, Or.inr ⟨ha, hb, fun h => absurd h (Nat.lt_irrefl 48)⟩⟩
  · rcases validHeader_forget a b h ha hb with ⟨h1, h2⟩ | ⟨t, h1, h2⟩
    · rw [h1, h2]
      exact ⟨rfl, Or.inr ⟨ha, hb, fun h => absurd h (Nat.lt_irrefl 48)⟩⟩
    · rw [h1, h2]
      exact ⟨rfl, Or.inr ⟨ha, hb, fun _ => rfl⟩⟩

theorem scanFinish_forget (sk : Nat) (a b : FS) (win : Bytes) (R : ScanR)
    (ha : a.newFrame = true) (hb : b.newFrame = true) :
    (scanFinish sk a win R).1 = (scanFinish sk b win R).1 ∧
    (scanFinish sk a win R).2.2 = (scanFinish sk b win R).2.2 ∧
    FsForget (scanFinish sk a win R).1.2 (scanFinish sk a win R).2.1 (scanFinish sk b win R).2.1 := by
  have hf : FsForget 48 a b := Or.inr ⟨ha, hb, fun h => by omega⟩
  cases R with
  | fault e => exact ⟨rfl, rfl, hf⟩
  | notFound p => exact ⟨rfl, rfl, hf⟩
  | foreign p =>
    simp only [scanFinish]
    split
    · exact ⟨rfl, rfl, hf⟩
    · exact ⟨rfl, rfl, hf⟩
  | found p =>
    simp only [scanFinish]
    split
    · exact ⟨rfl, rfl, hf⟩
    · have := foundRes_forget p a b ((win.drop p).take 46) ha hb
      exact ⟨this.1, rfl, this.2⟩

/-- one loop body on states that differ only in what a frame start forgets: same skip / lookahead,
same frames, same stop reason, and the resulting states again differ only in that way -/
theorem pesIter_forget (sk la : Nat) (a b : FS) (win : Bytes) (hla : 48 ≤ la) (hw : la ≤ win.length)
    (h : FsForget la a b) :
    (pesIter true cfg sk la a win).1 = (pesIter true cfg sk la b win).1 ∧
    (pesIter true cfg sk la a win).2.2 = (pesIter true cfg sk la b win).2.2 ∧
    FsForget (pesIter true cfg sk la a win).1.2 (pesIter true cfg sk la a win).2.1
      (pesIter true cfg sk la b win).2.1 := by
  rcases h with rfl | ⟨ha, hb, hp⟩
  · exact ⟨rfl, rfl, Or.inl rfl⟩
  · by_cases hpl : la > 48
    · rw [pesIter_payload _ _ _ _ _ hpl hw, pesIter_payload _ _ _ _ _ hpl hw,
        payloadRes_forget sk la a b _ ha hb (hp hpl)]
      exact ⟨rfl, rfl, Or.inl rfl⟩
    · have : la = 48 := by omega
      subst this
      rw [pesIter_scan _ _ _ _ hw, pesIter_scan _ _ _ _ hw]
      exact scanFinish_forget sk a b win _ ha hb

/-- **forgetting.** Two stream machines at the same position whose frame states differ only in what a
frame start throws away produce the same frames on every continuation. -/
theorem arun_forget (L : Bytes) : ∀ (c1 c2 : Core), c1.skip = c2.skip → c1.lookahead = c2.lookahead →
    48 ≤ c1.lookahead → c1.lookahead ≤ 65495 → FsForget c1.lookahead c1.fs c2.fs →
    (arun cfg c1 L).frames = (arun cfg c2 L).frames ∧ (arun cfg c1 L).stop = (arun cfg c2 L).stop := by
  induction L with
  | nil => intro c1 c2 _ _ _ _ _; exact ⟨rfl, rfl⟩
  | cons x L ih =>
    intro c1 c2 hs hl h48 h65 hf
    obtain ⟨s1, l1, f1⟩ := c1
    obtain ⟨s2, l2, f2⟩ := c2
    simp only at hs hl h48 h65 hf
    subst hs; subst hl
    unfold arun
    simp only []
    split
    · exact ih _ _ rfl rfl h48 h65 hf
    · split
      · exact ⟨rfl, rfl⟩
      · rename_i hlen
        have hw : l1 ≤ ((x :: L).take l1).length := by
          simp only [List.length_take, List.length_cons] at hlen ⊢; omega
        have hit := pesIter_forget (cfg := cfg) 0 l1 f1 f2 ((x :: L).take l1) h48 hw hf
        obtain ⟨sk', la', fs', outs, e1, hsk, hl1, hl2, _⟩ :=
          pesIter_arun (cfg := cfg) ((x :: L).take l1) ((x :: L).take l1) f1 0 l1 (List.prefix_refl _) h48 h65 hw
        unfold micro
        simp only []
        rw [e1] at hit ⊢
        rcases e2 : pesIter true cfg 0 l1 f2 ((x :: L).take l1) with ⟨⟨sk2, la2⟩, fs2, outs2, st2⟩
        rw [e2] at hit
        simp only [Prod.mk.injEq] at hit
        obtain ⟨⟨rfl, rfl⟩, ⟨rfl, rfl⟩, hf'⟩ := hit
        simp only []
        have := ih { skip := sk' - 1, lookahead := la', fs := fs' } { skip := sk' - 1, lookahead := la', fs := fs2 }
          rfl rfl hl1 hl2 hf'
        exact ⟨by rw [this.1], this.2⟩

end Zvbi.Demux
