import ZvbiModel.Demux.Spec
/-!
# The stream machine does not care where the stream is cut  (helper lemmas for C07)
-/
namespace Zvbi.Demux

variable {cfg : SrcCfg}

/-- continue a run with more bytes -/
def ARes.andThen (cfg : SrcCfg) (r : ARes) (b : Bytes) : ARes :=
  let r2 := arun cfg r.core (r.pend ++ b)
  { r2 with frames := r.frames ++ r2.frames }

theorem arun_append (a : Bytes) : ∀ (c : Core) (b : Bytes), (arun cfg c a).stop = none →
    arun cfg c (a ++ b) = (arun cfg c a).andThen cfg b := by
  induction a with
  | nil =>
    intro c b _
    simp [arun, ARes.andThen]
  | cons x a ih =>
    intro c b hstop
    rw [List.cons_append]
    by_cases hs : c.skip > 0
    · have e1 : arun cfg c (x :: (a ++ b)) = arun cfg { c with skip := c.skip - 1 } (a ++ b) := by
        simp [arun, hs]
      have e2 : arun cfg c (x :: a) = arun cfg { c with skip := c.skip - 1 } a := by
        simp [arun, hs]
      rw [e1, e2]
      rw [e2] at hstop
      exact ih _ b hstop
    · by_cases hl : (x :: a).length < c.lookahead
      · have e2 : arun cfg c (x :: a) = { core := c, pend := x :: a, frames := [], stop := none } := by
          simp only [arun, if_neg hs, if_pos hl]
        rw [e2]
        simp [ARes.andThen]
      · have hl' : ¬ (x :: (a ++ b)).length < c.lookahead := by
          simp only [List.length_cons, List.length_append] at hl ⊢; omega
        have ht : (x :: (a ++ b)).take c.lookahead = (x :: a).take c.lookahead := by
          rw [← List.cons_append]
          apply List.take_append_of_le_length
          omega
        have e1 : arun cfg c (x :: (a ++ b)) =
            (match micro cfg c ((x :: a).take c.lookahead) with
             | (_, fs', outs, some stop) =>
               { core := { c with fs := fs' }, pend := x :: (a ++ b), frames := outs, stop := some stop }
             | ((sk, la), fs', outs, none) =>
               let r := arun cfg { skip := sk - 1, lookahead := la, fs := fs' } (a ++ b)
               { r with frames := outs ++ r.frames }) := by
          simp only [arun, if_neg hs, if_neg hl', ht]; rfl
        have e2 : arun cfg c (x :: a) =
            (match micro cfg c ((x :: a).take c.lookahead) with
             | (_, fs', outs, some stop) =>
               { core := { c with fs := fs' }, pend := x :: a, frames := outs, stop := some stop }
             | ((sk, la), fs', outs, none) =>
               let r := arun cfg { skip := sk - 1, lookahead := la, fs := fs' } a
               { r with frames := outs ++ r.frames }) := by
          simp only [arun, if_neg hs, if_neg hl]; rfl
        rw [e1, e2]
        rw [e2] at hstop
        generalize micro cfg c ((x :: a).take c.lookahead) = m at hstop ⊢
        obtain ⟨⟨sk, la⟩, fs', outs, st⟩ := m
        cases st with
        | some stop => simp at hstop
        | none =>
          simp only at hstop ⊢
          rw [ih _ b hstop]
          simp [ARes.andThen, List.append_assoc]

/-- prefix frames to a result -/
def ARes.pre (outs : List FrameOut) (r : ARes) : ARes := { r with frames := outs ++ r.frames }

@[simp] theorem ARes.pre_nil (r : ARes) : r.pre [] = r := by cases r; rfl

theorem arun_skip (L : Bytes) : ∀ (k j la : Nat) (fs : FS), k ≤ L.length →
    arun cfg { skip := k + j, lookahead := la, fs := fs } L = arun cfg { skip := j, lookahead := la, fs := fs } (L.drop k) := by
  induction L with
  | nil => intro k j la fs h; simp at h; subst h; simp
  | cons x L ih =>
    intro k j la fs h
    cases k with
    | zero => simp
    | succ k =>
      have e : arun cfg { skip := k + 1 + j, lookahead := la, fs := fs } (x :: L)
          = arun cfg { skip := k + j, lookahead := la, fs := fs } L := by
        have : k + 1 + j - 1 = k + j := by omega
        simp [arun, this]
      rw [e, List.drop_succ_cons]
      exact ih k j la fs (by simpa using h)

theorem arun_short (L : Bytes) : ∀ (c : Core), (c.skip ≥ L.length ∨ (L.drop c.skip).length < c.lookahead) →
    arun cfg c L = { core := { c with skip := c.skip - L.length }, pend := L.drop c.skip, frames := [], stop := none } := by
  induction L with
  | nil => intro c _; simp [arun]
  | cons x L ih =>
    intro c h
    by_cases hs : c.skip > 0
    · have e : arun cfg c (x :: L) = arun cfg { c with skip := c.skip - 1 } L := by simp [arun, hs]
      rw [e, ih]
      · obtain ⟨sk, la, fs⟩ := c
        simp only at hs
        have : sk = (sk - 1) + 1 := by omega
        rw [this, List.drop_succ_cons]
        simp
      · obtain ⟨sk, la, fs⟩ := c
        simp only at hs h ⊢
        rcases h with h | h
        · left; simp at h; omega
        · right
          have : sk = (sk - 1) + 1 := by omega
          rw [this, List.drop_succ_cons] at h
          exact h
    · have h0 : c.skip = 0 := by omega
      rw [h0] at h
      have hl : (x :: L).length < c.lookahead := by
        rcases h with h | h
        · simp at h
        · simpa using h
      simp only [arun, if_neg hs, if_pos hl, h0]
      obtain ⟨sk, la, fs⟩ := c
      simp at h0
      simp [h0]

theorem arun_micro (c : Core) (L : Bytes) (sk la : Nat) (fs' : FS) (outs : List FrameOut)
    (h0 : c.skip = 0) (hl : c.lookahead ≤ L.length) (hpos : 0 < L.length)
    (hm : micro cfg c (L.take c.lookahead) = ((sk, la), fs', outs, none)) (hsk : 1 ≤ sk) :
    arun cfg c L = (arun cfg { skip := sk, lookahead := la, fs := fs' } L).pre outs := by
  cases L with
  | nil => simp at hpos
  | cons x L =>
    have hs : ¬ c.skip > 0 := by omega
    have hl' : ¬ (x :: L).length < c.lookahead := by omega
    have e1 : arun cfg c (x :: L) = (arun cfg { skip := sk - 1, lookahead := la, fs := fs' } L).pre outs := by
      simp only [arun, if_neg hs, if_neg hl', hm]; rfl
    have e2 : arun cfg { skip := sk, lookahead := la, fs := fs' } (x :: L)
        = arun cfg { skip := sk - 1, lookahead := la, fs := fs' } L := by
      have : sk > 0 := by omega
      simp [arun, this]
    rw [e1, e2]

end Zvbi.Demux
