import ZvbiModel.Demux.CorLoop
/-!
# Draining a buffer through `vbi_dvb_demux_cor` = feeding it to `vbi_dvb_demux_feed`, minus the frames
without lines  (C07 `cor_equals_feed`, repaired source)
-/
namespace Zvbi.Demux

variable {cfg : SrcCfg}

/-- `vbi_dvb_demux_cor` after it copied the frame out: `dx->frame.sp = dx->frame.sliced_begin` -/
def handOver (s : St) : St := { s with fs := { s.fs with frame := { s.fs.frame with lines := [] } } }

/-- one `vbi_dvb_demux_cor` call (max_lines = 64): it consumes the buffer without a frame, or returns the
complete frame the context held -/
theorem pesCor_refines (hse : cfg.corSkipsEmpty = true) (hpd : cfg.pesDiscards = true)
    (s : St) (buf hist : Bytes) (si : Nat) (hinv : PInv s) (hj : JInv s) (hl : LinesOK s) (hsi : si ≤ buf.length)
    (hsuf : s.pending <:+ hist ++ buf.take si) :
    (∃ s', pesCor cfg s buf si 64 = (s', buf.length, none, none) ∧ CorA cfg s (s.pending ++ buf.drop si) s') ∨
    (∃ s' si', pesCor cfg s buf si 64
        = (handOver s', si', some { pts := s'.fs.framePts, lines := s'.fs.frame.lines }, none) ∧
        CorB cfg s buf hist (s.pending ++ buf.drop si) s' si') := by
  have hpl : s.pending.length = s.pw.leftover := s.pw.pend_length hinv.1
  unfold pesCor
  rcases corLoop_refines (cfg := cfg) hse hpd (pesFuel s buf) s buf hist si (buf.length - si) hinv hj hl hsi
      (Nat.sub_le _ _) hsuf
      (by simp only [pesFuel, List.length_append, List.length_drop, hpl]; omega) with
    ⟨s', hloop, hA⟩ | ⟨s', si', hloop, hB⟩
  · left
    rw [hloop]
    exact ⟨s', rfl, hA⟩
  · right
    rw [hloop]
    simp only []
    have hne := hB.ne
    have h64 := hB.le64
    have hmin : min s'.fs.frame.lines.length 64 = s'.fs.frame.lines.length := Nat.min_eq_left h64
    have hpos : s'.fs.frame.lines.length > 0 := by
      cases hl : s'.fs.frame.lines with
      | nil => exact absurd hl hne
      | cons a t => simp
    rw [hmin, if_pos hpos, List.take_length]
    exact ⟨s', si', rfl, hB⟩

/-- 0 when the next payload window cannot end in `VBI_ERR_CALLBACK` (the call after a hand-over) -/
def corFlag (s : St) : Nat := if s.fs.newFrame = true ∧ s.pw.lookahead > 48 then 0 else 1

/-- bound on the number of `vbi_dvb_demux_cor` calls that return a frame: twice the number of stream
bytes behind the end of the next window, plus one unless the next window cannot return a frame -/
def corMeasure (s : St) (n : Nat) : Nat := 2 * (n - (s.pw.skip + s.pw.lookahead)) + corFlag s

theorem handOver_core (s : St) (h0 : s.pw.skip = 0) :
    (handOver s).core = { skip := 0, lookahead := s.pw.lookahead, fs := (handOver s).fs } := by
  simp only [St.core, handOver, h0]

theorem corDrain_refines (hse : cfg.corSkipsEmpty = true) (hpd : cfg.pesDiscards = true) (buf hist : Bytes) :
    ∀ (fuel : Nat) (s : St) (si : Nat), PInv s → JInv s → LinesOK s → si ≤ buf.length →
    s.pending <:+ hist ++ buf.take si →
    corMeasure s (s.pending ++ buf.drop si).length + 2 ≤ fuel →
    (si = buf.length → (arun cfg s.core s.pending).frames.filter nonEmpty = []) →
    (pesCorDrain fuel cfg 0 s buf si 64).err = none ∧ (pesCorDrain fuel cfg 0 s buf si 64).stalled = false ∧
    (pesCorDrain fuel cfg 0 s buf si 64).frames
      = (arun cfg s.core (s.pending ++ buf.drop si)).frames.filter nonEmpty := by
  intro fuel
  induction fuel with
  | zero => intro s si _ _ _ _ _ h; omega
  | succ fuel ih =>
    intro s si hinv hj hl hsi hsuf hfuel hq
    unfold pesCorDrain
    by_cases hge : si ≥ buf.length
    · rw [if_pos hge]
      have : si = buf.length := by omega
      have hq' := hq this
      rw [this, List.drop_length, List.append_nil, hq']
      exact ⟨rfl, rfl, rfl⟩
    · rw [if_neg hge]
      rcases pesCor_refines (cfg := cfg) hse hpd s buf hist si hinv hj hl hsi hsuf with
        ⟨s', hcor, hA⟩ | ⟨s', si', hcor, hB⟩
      · -- the call consumed the rest of the buffer without a frame
        rw [hcor]
        have hne : ¬ (buf.length = si ∧ (none : Option FrameOut).isNone = true) := fun h => hge (by omega)
        simp only [if_neg hne, COR_STALL_LIMIT]
        rw [if_neg (by omega)]
        cases fuel with
        | zero => omega
        | succ k =>
          unfold pesCorDrain
          rw [if_pos (Nat.le_refl _)]
          simp only [Option.toList, List.nil_append]
          exact ⟨trivial, trivial, hA.quiet.symm⟩
      · -- the call returned a frame
        rw [hcor]
        have hne : ¬ (si' = si ∧ (some ({ pts := s'.fs.framePts, lines := s'.fs.frame.lines } : FrameOut)).isNone = true) :=
          fun h => by simp at h
        simp only [if_neg hne, COR_STALL_LIMIT]
        rw [if_neg (by omega)]
        have hpendH : (handOver s').pending = s'.pending := rfl
        have hcoreH := handOver_core s' hB.skip0
        have hplH : s'.pending.length = s'.pw.leftover := s'.pw.pend_length hB.inv.1
        have hjH : s'.pw.leftover ≤ s'.pw.skip + s'.pw.lookahead := hB.j
        have hmeas : corMeasure (handOver s') ((handOver s').pending ++ buf.drop si').length + 2 ≤ fuel := by
          have hf0 : corFlag (handOver s') = 0 := by
            unfold corFlag; rw [if_pos ⟨hB.nf, hB.la⟩]
          have h1 := hB.meas
          have h2 := hB.meas2
          have h3 := hB.win
          have h4 := hB.skip0
          rw [hpendH]
          unfold corMeasure at hfuel ⊢
          rw [hf0]
          show 2 * ((s'.pending ++ buf.drop si').length - (s'.pw.skip + s'.pw.lookahead)) + 0 + 2 ≤ fuel
          unfold corFlag at hfuel
          split at hfuel
          · rename_i hc
            have := h2 hc.1 hc.2
            omega
          · omega
        have hquiet : si' = buf.length →
            (arun cfg (handOver s').core (handOver s').pending).frames.filter nonEmpty = [] := by
          intro hsi'
          have h3 := hB.win
          have h4 := hB.skip0
          rw [hsi', List.drop_length, List.append_nil] at h3
          have := hB.last (by rw [hsi', List.drop_length, List.append_nil]; omega) (handOver s').fs hB.nf rfl
          rw [hsi', List.drop_length, List.append_nil] at this
          rw [hcoreH, hpendH]; exact this
        obtain ⟨e1, e2, e3⟩ := ih (handOver s') si' hB.inv hB.j
          (by show ([] : List Sliced).length ≤ 64; exact Nat.zero_le _) hB.si_le hB.suf hmeas hquiet
        refine ⟨e1, e2, ?_⟩
        show [_] ++ _ = _
        rw [e3, hcoreH, hpendH]
        exact (hB.frames (handOver s').fs hB.nf rfl).symm

/-- the stream machine keeps at most 64 lines in a frame -/
theorem arun_lines (hse : cfg.corSkipsEmpty = true) (hpd : cfg.pesDiscards = true) :
    ∀ (L : Bytes) (c : Core), c.fs.frame.lines.length ≤ 64 → 48 ≤ c.lookahead → c.lookahead ≤ 65495 →
    (arun cfg c L).core.fs.frame.lines.length ≤ 64 := by
  intro L
  induction L with
  | nil => intro c h _ _; exact h
  | cons x L ih =>
    intro c h h1 h2
    unfold arun
    simp only []
    split
    · exact ih _ h h1 h2
    · split
      · exact h
      · rename_i hlen
        have hw : c.lookahead ≤ ((x :: L).take c.lookahead).length := by
          simp only [List.length_take, List.length_cons] at hlen ⊢; omega
        unfold micro
        rcases pesIter_cor (cfg := cfg) hse hpd 0 c.lookahead c.fs ((x :: L).take c.lookahead) h1 h2 hw h with
          ⟨sk', la', fs', outs, ht, _, _, hl', _, b2, b3, _⟩ | ⟨_, fs1, fs', _, _, _, _, hl', ht, _⟩
        · rw [ht]; exact ih _ hl' b2 b3
        · rw [ht]; exact ih _ hl' (Nat.le_refl _) (by show 48 ≤ 65495; omega)

/-- what a context must satisfy for the drain theorem: the invariant of every reachable context, and at
most 64 lines collected -/
def CorInv (cfg : SrcCfg) (s : St) : Prop := Inv cfg s ∧ LinesOK s

theorem CorInv_init : CorInv cfg St.init := ⟨Inv_init, by simp [LinesOK, St.init]⟩

/-- `CorInv` holds after any sequence of `vbi_dvb_demux_feed` calls -/
theorem CorInv_feeds (hse : cfg.corSkipsEmpty = true) (hpd : cfg.pesDiscards = true) (chunks : List Bytes) :
    CorInv cfg (pesFeeds cfg St.init chunks).st := by
  obtain ⟨_, hi, har⟩ := pesFeeds_refines (cfg := cfg) chunks St.init Inv_init
  refine ⟨hi, ?_⟩
  have hl := arun_lines (cfg := cfg) hse hpd (St.init.pending ++ chunks.flatten) St.init.core
    (by simp [St.core, St.init]) (by simp [St.core, St.init, PES_HEADER_LOOKAHEAD])
    (by simp [St.core, St.init, PES_HEADER_LOOKAHEAD])
  rw [har] at hl
  exact hl

/-- **cor_equals_feed**, from any context satisfying `CorInv` (repaired source): the drain loop over
`vbi_dvb_demux_cor` ends without fault and without stall within `2 * length + 4` calls and returns
exactly the frames with at least one line that `vbi_dvb_demux_feed` passes to its callback -/
theorem pesCorDrain_eq_feed_from (hse : cfg.corSkipsEmpty = true) (hpd : cfg.pesDiscards = true)
    (s : St) (h : CorInv cfg s) (buf : Bytes) :
    (pesCorDrain (2 * buf.length + 4) cfg 0 s buf 0 64).err = none ∧
    (pesCorDrain (2 * buf.length + 4) cfg 0 s buf 0 64).stalled = false ∧
    (pesCorDrain (2 * buf.length + 4) cfg 0 s buf 0 64).frames
      = (pesFeed cfg s buf).frames.filter (fun f => !f.lines.isEmpty) := by
  obtain ⟨hi, hl⟩ := h
  have hj := JInv_of_Inv (cfg := cfg) s hi
  have hpl : s.pending.length = s.pw.leftover := s.pw.pend_length hi.1.1
  obtain ⟨_, _, har⟩ := pesFeed_refines (cfg := cfg) s buf hi
  have hd := corDrain_refines (cfg := cfg) hse hpd buf s.pending (2 * buf.length + 4) s 0 hi.1 hj hl (Nat.zero_le _)
    (by simp) ?_ ?_
  · rw [List.drop_zero, har] at hd
    exact hd
  · have hj' : s.pw.leftover ≤ s.pw.skip + s.pw.lookahead := hj
    have hf : corFlag s ≤ 1 := by unfold corFlag; split <;> omega
    unfold corMeasure
    simp only [List.drop_zero, List.length_append, hpl]
    omega
  · intro _
    have hs : arun cfg s.core s.pending = _ := hi.2
    rw [hs]; rfl

/-- non-vacuity: three packets in one buffer; the drained coroutine returns the two frames that are
complete (the third packet's frame is still open), the same as feed -/
example : ((pesCorDrain (2 * (linePacket 3 7 0x55 ++ linePacket 4 7 0x66 ++ linePacket 5 7 0x77).length + 4)
      SrcCfg.repaired 0 St.init (linePacket 3 7 0x55 ++ linePacket 4 7 0x66 ++ linePacket 5 7 0x77) 0 64).frames.map
    fun f => (f.pts, f.lines.map fun l => (l.id, l.line))) = [(3, [(3, 7)]), (4, [(3, 7)])] := by decide +kernel

/-- non-vacuity: `livelockPacket` makes feed deliver a frame without lines, which the filter removes and the
coroutine never returns; the frame after it (two lines) is returned by both -/
example : (pesFeed SrcCfg.repaired St.init (livelockPacket ++ linePacket 3 7 0x55 ++ linePacket 4 7 0x66)).frames.map
      (fun f => (f.pts, f.lines.length)) = [(1, 0), (1, 2)] ∧
    (pesCorDrain (2 * (livelockPacket ++ linePacket 3 7 0x55 ++ linePacket 4 7 0x66).length + 4) SrcCfg.repaired 0 St.init
      (livelockPacket ++ linePacket 3 7 0x55 ++ linePacket 4 7 0x66) 0 64).frames.map
      (fun f => (f.pts, f.lines.length)) = [(1, 2)] := by decide +kernel

/-- **cor_equals_feed** (the open statement `cor_equals_feed_full` of `Props/C07.lean`) for the repaired source -/
theorem pesCorDrain_eq_feed (cfg : SrcCfg) (hse : cfg.corSkipsEmpty = true) (hpd : cfg.pesDiscards = true)
    (chunks : List Bytes) (buf : Bytes) :
    let s := (pesFeeds cfg St.init chunks).st
    let r := pesCorDrain (2 * buf.length + 4) cfg 0 s buf 0 64
    r.err = none ∧ r.stalled = false ∧ r.frames = (pesFeed cfg s buf).frames.filter (fun f => !f.lines.isEmpty) :=
  pesCorDrain_eq_feed_from hse hpd _ (CorInv_feeds hse hpd chunks) buf

/-- non-vacuity of the hypotheses: the generated shape of the current source is the repaired one -/
example : SrcCfg.repaired.corSkipsEmpty = true ∧ SrcCfg.repaired.pesDiscards = true := ⟨rfl, rfl⟩

/-- five packets (920 bytes): line 7 | stuffing + Teletext line 3 of the first field (a line number error) |
Teletext, undefined line, second field | line 7 | line 7 -/
def corNoDiscardWitness : Bytes :=
  linePacket 1 7 0x11 ++ witPacket 2 (witStuffing ++ witTtxUnit 0xE3 0x22) ++ witPacket 3 (witTtxUnit 0xC0 0x33) ++
    linePacket 4 7 0x44 ++ linePacket 5 7 0x55

/-- **`hpd` is necessary.**  With the `continue` of 776a0f0 but without the discard of 7c6e61c the drained
coroutine and feed deliver different frames: the second frame has the PTS of packet 3 from the coroutine
and of packet 2 from feed (the restart after the hand-over leaves `last_data_unit_id` = stuffing in the
frame that the failed unit of packet 2 does not discard, so the undefined-line unit of packet 3 starts a
new frame in the coroutine only). -/
theorem cor_ne_feed_without_discard :
    let cfg : SrcCfg := { corSkipsEmpty := true, pesDiscards := false, lateOverflow := false, tsCompletesInHeader := false }
    let r := pesCorDrain (2 * corNoDiscardWitness.length + 4) cfg 0 St.init corNoDiscardWitness 0 64
    r.err = none ∧ r.stalled = false ∧
    r.frames.map (fun f => (f.pts, f.lines.map fun l => l.line)) = [(1, [7]), (3, [0, 7])] ∧
    ((pesFeed cfg St.init corNoDiscardWitness).frames.filter (fun f => !f.lines.isEmpty)).map
      (fun f => (f.pts, f.lines.map fun l => l.line)) = [(1, [7]), (2, [0, 7])] := by decide +kernel

/-- non-vacuity: a context in the middle of a packet (100 bytes fed before), rest drained -/
example : ((pesCorDrain (2 * ((linePacket 3 7 0x55).drop 100 ++ linePacket 4 7 0x66).length + 4) SrcCfg.repaired 0
      (pesFeeds SrcCfg.repaired St.init [(linePacket 3 7 0x55).take 100]).st
      ((linePacket 3 7 0x55).drop 100 ++ linePacket 4 7 0x66) 0 64).frames.map
    fun f => (f.pts, f.lines.map fun l => (l.id, l.line))) = [(3, [(3, 7)])] := by decide +kernel

/-! ## Not proved: successive drained buffers

`pesCorDrain_eq_feed_from` starts from a context that satisfies `CorInv`, i.e. one left behind by
`vbi_dvb_demux_feed` calls.  The context a *drain* leaves behind need not satisfy it: when the last call
returned a frame exactly at the end of the buffer, the context still sits at that packet's payload window
(`pending` = the whole window, `new_frame` set, `Stuck` fails).  `corDrain_refines` does apply to such a
context (it needs `PInv`, `JInv`, `LinesOK` and "no frame with lines pending"), so the drain of the next
buffer equals the stream machine run *from the coroutine context*; what is missing is that this run and the
run from the context feed left behind deliver the same frames for every continuation, i.e. `CorB.frames`
for `L ++ b` instead of `L` (same proof with `pesIter_arun` / `arun_skip` on the longer stream) and
`arun_append` to cancel the common prefix. -/

/-- successive drain loops over one context -/
def pesCorDrains (cfg : SrcCfg) (s : St) : List Bytes → List FrameOut
  | [] => []
  | b :: bs =>
    let r := pesCorDrain (2 * b.length + 4) cfg 0 s b 0 64
    r.frames ++ pesCorDrains cfg r.st bs

/-- open: draining successive buffers = feeding them, minus the frames without lines -/
def cor_equals_feed_composed_full (cfg : SrcCfg) : Prop :=
  cfg.corSkipsEmpty = true → cfg.pesDiscards = true →
  ∀ (chunks bufs : List Bytes),
    pesCorDrains cfg (pesFeeds cfg St.init chunks).st bufs
      = (pesFeeds cfg (pesFeeds cfg St.init chunks).st bufs).frames.filter (fun f => !f.lines.isEmpty)

/-- the one-buffer instance of the composed statement is `pesCorDrain_eq_feed` -/
theorem cor_equals_feed_composed_partial (cfg : SrcCfg) (hse : cfg.corSkipsEmpty = true) (hpd : cfg.pesDiscards = true)
    (chunks : List Bytes) (buf : Bytes) :
    pesCorDrains cfg (pesFeeds cfg St.init chunks).st [buf]
      = (pesFeeds cfg (pesFeeds cfg St.init chunks).st [buf]).frames.filter (fun f => !f.lines.isEmpty) := by
  have h := pesCorDrain_eq_feed cfg hse hpd chunks buf
  have hi := (CorInv_feeds (cfg := cfg) hse hpd chunks).1
  have he := (pesFeed_refines (cfg := cfg) _ buf hi).1
  simp only [pesCorDrains, pesFeeds, he, List.append_nil]
  exact h.2.2

/-- instance of the open statement evaluated in the kernel: two drained buffers, the first ending exactly
at the end of a packet whose frame was just handed over -/
example : pesCorDrains SrcCfg.repaired St.init
      [linePacket 3 7 0x55 ++ linePacket 4 7 0x66, linePacket 5 7 0x77 ++ linePacket 6 7 0x11]
    = (pesFeeds SrcCfg.repaired St.init
        [linePacket 3 7 0x55 ++ linePacket 4 7 0x66, linePacket 5 7 0x77 ++ linePacket 6 7 0x11]).frames.filter
        (fun f => !f.lines.isEmpty) := by decide +kernel

end Zvbi.Demux
