import ZvbiModel.Demux.LemmasTs
import ZvbiModel.Demux.LemmasFrame
/-!
# TS path: no fault, progress  (helper lemmas for C07, TS part)
-/
namespace Zvbi.Demux

variable {cfg : SrcCfg}

/-- invariant of a TS demux context between loop iterations (callback installed) -/
structure TsInv (s : TsSt) : Prop where
  bufSync : s.inSync = true → s.tsBuf.length + s.lookahead = 10
  bufSearch : s.inSync = false → s.tsBuf.length + s.lookahead = 197
  la : 1 ≤ s.lookahead
  con : s.consume ≤ s.pesTodo
  cap : s.pes.length + s.pesTodo ≤ 65541
  low : s.pesTodo > 0 → 184 ≤ s.pes.length + s.pesTodo
  /-- no data units are waiting in `pes_buffer` - except (fix dvb-demux-ts-first-packet) those of a PES packet
  that the header evaluation of the last TS packet completed; nothing is left to copy then -/
  fr : s.frameRest = [] ∨ (2 ≤ s.frameRest.length ∧ s.consume = 0)

theorem TsInv_init (pid : Nat) : TsInv (TsSt.init pid) := by
  refine ⟨?_, ?_, ?_, ?_, ?_, ?_, ?_⟩ <;> simp [TsSt.init, TS_SYNC_SEARCH_LOOKAHEAD]

/-- the part of the invariant that blocks A..D keep while `frameRest` is in use -/
structure TsInvA (s : TsSt) : Prop where
  bufSync : s.inSync = true → s.tsBuf.length + s.lookahead = 10
  bufSearch : s.inSync = false → s.tsBuf.length + s.lookahead = 197
  la : 1 ≤ s.lookahead
  con : s.consume ≤ s.pesTodo
  cap : s.pes.length + s.pesTodo ≤ 65541
  low : s.pesTodo > 0 → 184 ≤ s.pes.length + s.pesTodo

theorem TsInv.toA {s : TsSt} (h : TsInv s) : TsInvA s := ⟨h.bufSync, h.bufSearch, h.la, h.con, h.cap, h.low⟩

theorem tsPesDone_safe (s1 : TsSt) (n : Nat) (h : TsInvA s1) (h0 : s1.consume = 0)
    (hl : s1.pesTodo = 0 → 184 ≤ s1.pes.length) :
    ∃ s2, tsPesDone s1 n = .go s2 n ∧ TsInvA s2 ∧ s2.consume = 0 ∧ (s2.frameRest = s1.frameRest ∨ s2.frameRest = [] ∨ 2 ≤ s2.frameRest.length) := by
  unfold tsPesDone
  split
  · rename_i hz
    have := hl hz
    rw [if_neg (by omega)]
    split
    · exact ⟨_, rfl, ⟨h.bufSync, h.bufSearch, h.la, h.con, h.cap, h.low⟩, h0, Or.inr (Or.inl rfl)⟩
    · refine ⟨_, rfl, ⟨h.bufSync, h.bufSearch, h.la, h.con, h.cap, h.low⟩, h0, Or.inr (Or.inr ?_)⟩
      simp only [List.length_drop]; omega
  · exact ⟨s1, rfl, h, h0, Or.inl rfl⟩

theorem tsPhaseA_safe (s : TsSt) (x : Bytes) (h : TsInv s) :
    (∃ s', tsPhaseA s x = .stop s' .needMore ∧ TsInv s') ∨
    (∃ s1 n, tsPhaseA s x = .go s1 n ∧ TsInvA s1 ∧ s1.consume = 0 ∧ (s1.frameRest = [] ∨ 2 ≤ s1.frameRest.length)) := by
  unfold tsPhaseA
  by_cases hc : s.consume > 0
  · rw [if_pos hc]
    have hfr0 : s.frameRest = [] := by
      rcases h.fr with h0 | ⟨_, h0⟩
      · exact h0
      · omega
    have hcon := h.con
    have hcap := h.cap
    have hlow := h.low (by omega)
    by_cases hgt : s.consume > x.length
    · rw [if_pos hgt, if_neg (by simp only [PES_BUF_SIZE]; omega), if_neg (by omega)]
      left
      refine ⟨_, rfl, ⟨h.bufSync, h.bufSearch, h.la, ?_, ?_, ?_, Or.inl hfr0⟩⟩
      · show s.consume - x.length ≤ s.pesTodo - x.length; omega
      · show (s.pes ++ x).length + (s.pesTodo - x.length) ≤ 65541; simp; omega
      · intro _; show 184 ≤ (s.pes ++ x).length + (s.pesTodo - x.length); simp; omega
    · rw [if_neg hgt, if_neg (by simp only [PES_BUF_SIZE]; omega), if_neg (by omega)]
      right
      have hlen : (s.pes ++ x.take s.consume).length = s.pes.length + s.consume := by simp; omega
      obtain ⟨s2, e, hi, h0, hfr⟩ := tsPesDone_safe
        { s with pes := s.pes ++ x.take s.consume, pesTodo := s.pesTodo - s.consume, consume := 0 } s.consume
        ⟨h.bufSync, h.bufSearch, h.la, Nat.zero_le _,
          by show (s.pes ++ x.take s.consume).length + (s.pesTodo - s.consume) ≤ 65541; rw [hlen]; omega,
          fun hp => by
            have hp : s.pesTodo - s.consume > 0 := hp
            show 184 ≤ (s.pes ++ x.take s.consume).length + (s.pesTodo - s.consume); rw [hlen]; omega⟩ rfl
        (fun hz => by
          have hz : s.pesTodo - s.consume = 0 := hz
          show 184 ≤ (s.pes ++ x.take s.consume).length; rw [hlen]; omega)
      refine ⟨s2, s.consume, e, hi, h0, ?_⟩
      rcases hfr with hfr | hfr | hfr
      · left; rw [hfr]; exact hfr0
      · left; exact hfr
      · right; exact hfr
  · rw [if_neg hc]
    right
    exact ⟨s, 0, rfl, h.toA, by omega, h.fr.imp id (fun h => h.1)⟩

theorem tsPhaseB_safe (se : Bool) (s1 : TsSt) (hfr : s1.frameRest = [] ∨ 2 ≤ s1.frameRest.length) :
    ∃ fs2 o, tsPhaseB cfg true se s1 = ({ s1 with fs := fs2, frameRest := [] }, o, none) := by
  unfold tsPhaseB
  by_cases hl : s1.frameRest.length > 0
  · rw [if_pos hl]
    have h2 : 2 ≤ s1.frameRest.length := by
      rcases hfr with h | h
      · rw [h] at hl; simp at hl
      · exact h
    have hok := pesPacketFrame_ok (cfg := cfg) se s1.fs s1.frameRest h2
    have hdr := pesPacketFrame_done_rest (cfg := cfg) 3 true se s1.fs s1.frameRest
    rcases hp : pesPacketFrame cfg 3 true se s1.fs s1.frameRest with ⟨fs1, outs, r, rest⟩
    rw [hp] at hok hdr
    simp only at hok hdr
    rcases hok with rfl | rfl
    · have : rest = [] := hdr rfl
      subst this
      exact ⟨fs1, outs, rfl⟩
    · exact ⟨{ fs1 with newFrame := true }, outs, rfl⟩
  · rw [if_neg hl]
    have : s1.frameRest = [] := List.eq_nil_of_length_eq_zero (by omega)
    refine ⟨s1.fs, [], ?_⟩
    cases s1; simp_all

theorem tsAdvance_inv (t : TsSt) (q : Bytes) (b : Bool) (hs : t.inSync = true)
    (hq1 : 10 ≤ q.length) (hq2 : q.length ≤ 197) (hcon : t.consume ≤ t.pesTodo)
    (hcap : t.pes.length + t.pesTodo ≤ 65541) (hlow : t.pesTodo > 0 → 184 ≤ t.pes.length + t.pesTodo)
    (hfr : t.frameRest = [] ∨ (2 ≤ t.frameRest.length ∧ t.consume = 0)) : TsInv (tsAdvance t q b) := by
  unfold tsAdvance
  dsimp only
  split
  · refine ⟨fun _ => ?_, fun h => ?_, ?_, hcon, hcap, hlow, hfr⟩
    · simp [TS_HEADER_LOOKAHEAD]
    · exact absurd (hs.symm.trans h) (by simp)
    · simp [TS_HEADER_LOOKAHEAD]
  · rename_i hgt
    refine ⟨fun _ => ?_, fun h => ?_, ?_, hcon, hcap, hlow, hfr⟩
    · simp only [List.length_drop, TS_HEADER_LOOKAHEAD]; omega
    · exact absurd (hs.symm.trans h) (by simp)
    · simp only [TS_HEADER_LOOKAHEAD]; omega

theorem tsSyncSearch_lt (b : Bytes) : ∀ (fuel p q : Nat), tsSyncSearch b fuel p = some q → q < 188 := by
  intro fuel
  induction fuel with
  | zero => intro p q h; simp [tsSyncSearch] at h
  | succ fuel ih =>
    intro p q h
    unfold tsSyncSearch at h
    split at h
    · cases h
    · rename_i hp
      dsimp only at h
      split at h
      · cases h; omega
      · exact ih _ _ h

/-- the completion step at the end of the header evaluation (fix dvb-demux-ts-first-packet): never reads
`pes_buffer` beyond what was copied (a complete packet has at least 184 bytes), touches only the frame
state and `ts_frame_bp / ts_frame_todo` -/
theorem tsCopyDone_safe (s1 : TsSt) (hfr : s1.frameRest = []) (hcon : s1.consume ≤ s1.pesTodo)
    (hl : s1.pesTodo = 0 → 184 ≤ s1.pes.length) :
    ∃ fs2 fr2, tsCopyDone cfg s1 = ({ s1 with fs := fs2, frameRest := fr2 }, none)
      ∧ (fr2 = [] ∨ (2 ≤ fr2.length ∧ s1.consume = 0)) := by
  unfold tsCopyDone
  split
  · rename_i hz
    have h184 := hl hz.2
    unfold tsComplete
    rw [if_neg (by omega)]
    split
    · exact ⟨_, _, rfl, Or.inl rfl⟩
    · refine ⟨_, _, rfl, Or.inr ⟨?_, by omega⟩⟩
      simp only [List.length_drop]; omega
  · refine ⟨s1.fs, [], ?_, Or.inl rfl⟩
    cases s1; simp_all

theorem tsHeader_inv (t : TsSt) (q : Bytes) (hs : t.inSync = true)
    (hq1 : 10 ≤ q.length) (hq2 : q.length ≤ 197) (hc0 : t.consume = 0)
    (hcap : t.pes.length + t.pesTodo ≤ 65541) (hlow : t.pesTodo > 0 → 184 ≤ t.pes.length + t.pesTodo)
    (hfr : t.frameRest = []) : ∃ r, tsHeader cfg t q = (r, none) ∧ TsInv r := by
  have hskipPkt : ∀ (u : TsSt), u.inSync = true → u.consume = 0 → u.pes.length + u.pesTodo ≤ 65541 →
      (u.pesTodo > 0 → 184 ≤ u.pes.length + u.pesTodo) → u.frameRest = [] → TsInv (tsSkipPacket u q) :=
    fun u h1 h2 h3 h4 h5 => tsAdvance_inv u q true h1 hq1 hq2 (by omega) h3 h4 (Or.inl h5)
  have hskipPes : ∀ (u : TsSt), u.inSync = true → u.pes.length + u.pesTodo ≤ 65541 → u.frameRest = [] →
      TsInv (tsSkipPesPacket u q) :=
    fun u h1 h3 h5 => tsAdvance_inv _ q true h1 hq1 hq2 (Nat.le_refl _) (by show u.pes.length + 0 ≤ 65541; omega)
      (fun h => absurd h (by simp)) (Or.inl h5)
  unfold tsHeader
  cases tsHeaderCheck t q with
  | some b =>
    cases b
    · exact ⟨_, rfl, hskipPkt t hs hc0 hcap hlow hfr⟩
    · exact ⟨_, rfl, hskipPes t hs hcap hfr⟩
  | none =>
    dsimp only
    cases tsContCheck t.cont (q.getD 3 0) with
    | repeated => exact ⟨_, rfl, hskipPkt t hs hc0 hcap hlow hfr⟩
    | lost => exact ⟨_, rfl, hskipPes { t with cont := some (q.getD 3 0 + 1) } hs hcap hfr⟩
    | ok =>
      dsimp only
      cases hst : tsStart { t with cont := some (q.getD 3 0 + 1) } q with
      | none => exact ⟨_, rfl, hskipPes { t with cont := some (q.getD 3 0 + 1) } hs hcap hfr⟩
      | some s1 =>
        dsimp only
        -- what `tsStart` guarantees
        have hs1 : s1.inSync = true ∧ s1.consume = 0 ∧ s1.frameRest = [] ∧ s1.pesTodo > 0 ∧
            s1.pes.length + s1.pesTodo ≤ 65541 ∧ 184 ≤ s1.pes.length + s1.pesTodo := by
          unfold tsStart at hst
          dsimp only at hst
          split at hst
          · split at hst
            · cases hst
            · split at hst
              · cases hst
              · cases hst
                have h1 : q.getD 8 0 % 256 < 256 := Nat.mod_lt _ (by decide)
                have h2 : q.getD 9 0 % 256 < 256 := Nat.mod_lt _ (by decide)
                rename_i hlen
                refine ⟨hs, hc0, hfr, ?_, ?_, ?_⟩
                · show q.getD 8 0 % 256 * 256 + q.getD 9 0 % 256 + 6 > 0; omega
                · show ([] : Bytes).length + (q.getD 8 0 % 256 * 256 + q.getD 9 0 % 256 + 6) ≤ 65541
                  simp only [List.length_nil]; omega
                · show 184 ≤ ([] : Bytes).length + (q.getD 8 0 % 256 * 256 + q.getD 9 0 % 256 + 6)
                  simp only [List.length_nil]; omega
          · rename_i hne
            split at hst
            · cases hst
            · cases hst
              have hp : t.pesTodo > 0 := by omega
              exact ⟨hs, hc0, hfr, hp, hcap, hlow hp⟩
        obtain ⟨h1, h2, h3, h4, h5, h6⟩ := hs1
        unfold tsCopy
        dsimp only
        split
        · rw [if_neg (by simp only [PES_BUF_SIZE]; omega)]
          have hlen : (s1.pes ++ (q.drop 4).take (min (q.length - 4) (min s1.pesTodo 184))).length
              = s1.pes.length + min (q.length - 4) (min s1.pesTodo 184) := by
            simp only [List.length_append, List.length_take, List.length_drop]; omega
          obtain ⟨fs2, fr2, e, hfr2⟩ := tsCopyDone_safe (cfg := cfg)
            { s1 with pes := s1.pes ++ (q.drop 4).take (min (q.length - 4) (min s1.pesTodo 184)),
                      pesTodo := s1.pesTodo - min (q.length - 4) (min s1.pesTodo 184),
                      consume := min s1.pesTodo 184 - min (q.length - 4) (min s1.pesTodo 184) } h3
            (by show min s1.pesTodo 184 - min (q.length - 4) (min s1.pesTodo 184)
                  ≤ s1.pesTodo - min (q.length - 4) (min s1.pesTodo 184); omega)
            (fun hz => by
              have hz : s1.pesTodo - min (q.length - 4) (min s1.pesTodo 184) = 0 := hz
              show 184 ≤ (s1.pes ++ (q.drop 4).take (min (q.length - 4) (min s1.pesTodo 184))).length
              rw [hlen]; omega)
          unfold tsCopyFin
          rw [e]
          refine ⟨_, rfl, tsAdvance_inv _ q false h1 hq1 hq2 ?_ ?_ ?_ hfr2⟩
          · show min s1.pesTodo 184 - min (q.length - 4) (min s1.pesTodo 184)
              ≤ s1.pesTodo - min (q.length - 4) (min s1.pesTodo 184)
            omega
          · show (s1.pes ++ (q.drop 4).take (min (q.length - 4) (min s1.pesTodo 184))).length
              + (s1.pesTodo - min (q.length - 4) (min s1.pesTodo 184)) ≤ 65541
            rw [hlen]; omega
          · intro _
            show 184 ≤ (s1.pes ++ (q.drop 4).take (min (q.length - 4) (min s1.pesTodo 184))).length
              + (s1.pesTodo - min (q.length - 4) (min s1.pesTodo 184))
            rw [hlen]; omega
        · rw [if_neg (by simp only [PES_BUF_SIZE]; omega)]
          rename_i hq188
          have hlen : (s1.pes ++ (q.drop 4).take (min s1.pesTodo 184)).length = s1.pes.length + min s1.pesTodo 184 := by
            simp only [List.length_append, List.length_take, List.length_drop]; omega
          obtain ⟨fs2, fr2, e, hfr2⟩ := tsCopyDone_safe (cfg := cfg)
            { s1 with pes := s1.pes ++ (q.drop 4).take (min s1.pesTodo 184), pesTodo := s1.pesTodo - min s1.pesTodo 184 } h3
            (by show s1.consume ≤ s1.pesTodo - min s1.pesTodo 184; omega)
            (fun hz => by
              have hz : s1.pesTodo - min s1.pesTodo 184 = 0 := hz
              show 184 ≤ (s1.pes ++ (q.drop 4).take (min s1.pesTodo 184)).length
              rw [hlen]; omega)
          unfold tsCopyFin
          rw [e]
          refine ⟨_, rfl, tsAdvance_inv _ q false h1 hq1 hq2 ?_ ?_ ?_ hfr2⟩
          · show s1.consume ≤ s1.pesTodo - min s1.pesTodo 184; omega
          · show (s1.pes ++ (q.drop 4).take (min s1.pesTodo 184)).length + (s1.pesTodo - min s1.pesTodo 184) ≤ 65541
            rw [hlen]; omega
          · intro _
            show 184 ≤ (s1.pes ++ (q.drop 4).take (min s1.pesTodo 184)).length + (s1.pesTodo - min s1.pesTodo 184)
            rw [hlen]; omega

theorem tsPhaseE_safe (s4 : TsSt) (hsync : s4.inSync = true → s4.tsBuf.length = 10)
    (hsearch : s4.inSync = false → s4.tsBuf.length = 197) (hc0 : s4.consume = 0)
    (hcap : s4.pes.length + s4.pesTodo ≤ 65541) (hlow : s4.pesTodo > 0 → 184 ≤ s4.pes.length + s4.pesTodo)
    (hfr : s4.frameRest = []) : ∃ s5, tsPhaseE cfg s4 = (s5, .cont) ∧ TsInv s5 := by
  unfold tsPhaseE
  dsimp only
  by_cases hs : s4.inSync = true
  · have hl := hsync hs
    rw [if_pos hs, if_neg (by simp only [TS_HEADER_LOOKAHEAD]; omega)]
    split
    · rw [if_neg (by simp only [TS_SYNC_SEARCH_LOOKAHEAD]; omega)]
      refine ⟨_, rfl, ⟨fun h => absurd h (by simp), fun _ => ?_, ?_, Nat.le_refl _, ?_, fun h => absurd h (by simp), Or.inl hfr⟩⟩
      · simp only [TS_SYNC_SEARCH_LOOKAHEAD]; omega
      · simp only [TS_SYNC_SEARCH_LOOKAHEAD]; omega
      · show s4.pes.length + 0 ≤ 65541; omega
    · obtain ⟨r, e, hi⟩ := tsHeader_inv s4 s4.tsBuf hs (by omega) (by omega) hc0 hcap hlow hfr
      rw [e]
      exact ⟨r, rfl, hi⟩
  · have hsf : s4.inSync = false := by cases h : s4.inSync <;> simp_all
    have hl := hsearch hsf
    rw [if_neg hs, if_neg (by simp only [TS_SYNC_SEARCH_LOOKAHEAD]; omega)]
    cases hss : tsSyncSearch s4.tsBuf 189 0 with
    | none =>
      dsimp only
      rw [if_neg (by simp only [TS_SYNC_SEARCH_LOOKAHEAD]; omega)]
      refine ⟨_, rfl, ⟨fun h => absurd (hsf.symm.trans h) (by simp), fun _ => ?_, ?_,
        by show s4.consume ≤ s4.pesTodo; omega, hcap, hlow, Or.inl hfr⟩⟩
      · simp only [List.length_drop, TS_SYNC_SEARCH_LOOKAHEAD]; omega
      · simp only [TS_SYNC_SEARCH_LOOKAHEAD]; omega
    | some p =>
      dsimp only
      have hp := tsSyncSearch_lt _ _ _ _ hss
      have hq : (s4.tsBuf.drop p).length = 197 - p := by simp [hl]
      rw [if_neg (by simp only [TS_HEADER_LOOKAHEAD]; omega)]
      obtain ⟨r, e, hi⟩ := tsHeader_inv { s4 with inSync := true } (s4.tsBuf.drop p) rfl (by omega) (by omega)
        hc0 hcap hlow hfr
      rw [e]
      exact ⟨r, rfl, hi⟩

/-- the loop body with a callback, from a context satisfying the invariant: no fault, invariant kept,
either "need more data" (everything consumed) or at least one byte consumed -/
theorem tsStep_safe (se : Bool) (s : TsSt) (x : Bytes) (h : TsInv s) :
    ∃ s' o n, TsInv s' ∧
      (tsStep cfg true se s x = (s', o, n, .stop .needMore) ∨ (tsStep cfg true se s x = (s', o, n, .cont) ∧ 1 ≤ n)) := by
  unfold tsStep
  rcases tsPhaseA_safe s x h with ⟨s', e, hi⟩ | ⟨s1, n1, e, hiA, hc0, hfr⟩
  · rw [e]; exact ⟨s', [], _, hi, Or.inl rfl⟩
  · rw [e]
    dsimp only
    obtain ⟨fs2, o, eB⟩ := tsPhaseB_safe se s1 hfr
    rw [eB]
    dsimp only
    -- block C
    by_cases hsk : s1.skip > (x.drop n1).length
    · have eC : tsPhaseC { s1 with fs := fs2, frameRest := [] } (x.drop n1)
          = .stop { s1 with fs := fs2, frameRest := [], skip := s1.skip - (x.drop n1).length } .needMore := by
        unfold tsPhaseC; rw [if_pos hsk]
      rw [eC]
      exact ⟨{ s1 with fs := fs2, frameRest := [], skip := s1.skip - (x.drop n1).length }, o, _,
        ⟨hiA.bufSync, hiA.bufSearch, hiA.la, hiA.con, hiA.cap, hiA.low, Or.inl rfl⟩, Or.inl rfl⟩
    · have eC : tsPhaseC { s1 with fs := fs2, frameRest := [] } (x.drop n1)
          = .go { s1 with fs := fs2, frameRest := [], skip := 0 } s1.skip := by
        unfold tsPhaseC; rw [if_neg hsk]
      rw [eC]
      dsimp only
      -- block D
      have hsum : s1.tsBuf.length + s1.lookahead ≤ 197 := by
        cases hsy : s1.inSync
        · have := hiA.bufSearch hsy; omega
        · have := hiA.bufSync hsy; omega
      have hla := hiA.la
      by_cases hgt : s1.lookahead > (x.drop (n1 + s1.skip)).length
      · have eD : tsPhaseD { s1 with fs := fs2, frameRest := [], skip := 0 } (x.drop (n1 + s1.skip))
            = .stop { s1 with fs := fs2, frameRest := [], skip := 0,
                              tsBuf := s1.tsBuf ++ x.drop (n1 + s1.skip),
                              lookahead := s1.lookahead - (x.drop (n1 + s1.skip)).length } .needMore := by
          unfold tsPhaseD
          rw [if_pos hgt, if_neg (by simp only [TS_BUF_SIZE]; show ¬ s1.tsBuf.length + _ > 208; omega)]
        rw [eD]
        refine ⟨{ s1 with fs := fs2, frameRest := [], skip := 0,
                          tsBuf := s1.tsBuf ++ x.drop (n1 + s1.skip),
                          lookahead := s1.lookahead - (x.drop (n1 + s1.skip)).length }, o, _,
          ⟨?_, ?_, ?_, hiA.con, hiA.cap, hiA.low, Or.inl rfl⟩, Or.inl rfl⟩
        · intro hsy
          have := hiA.bufSync hsy
          show (s1.tsBuf ++ x.drop (n1 + s1.skip)).length + (s1.lookahead - (x.drop (n1 + s1.skip)).length) = 10
          simp only [List.length_append]; omega
        · intro hsy
          have := hiA.bufSearch hsy
          show (s1.tsBuf ++ x.drop (n1 + s1.skip)).length + (s1.lookahead - (x.drop (n1 + s1.skip)).length) = 197
          simp only [List.length_append]; omega
        · show 1 ≤ s1.lookahead - (x.drop (n1 + s1.skip)).length; omega
      · have eD : tsPhaseD { s1 with fs := fs2, frameRest := [], skip := 0 } (x.drop (n1 + s1.skip))
            = .go { s1 with fs := fs2, frameRest := [], skip := 0,
                            tsBuf := s1.tsBuf ++ (x.drop (n1 + s1.skip)).take s1.lookahead } s1.lookahead := by
          unfold tsPhaseD
          rw [if_neg hgt, if_neg (by simp only [TS_BUF_SIZE]; show ¬ s1.tsBuf.length + s1.lookahead > 208; omega)]
        rw [eD]
        dsimp only
        have hlen : (s1.tsBuf ++ (x.drop (n1 + s1.skip)).take s1.lookahead).length
            = s1.tsBuf.length + s1.lookahead := by
          simp only [List.length_append, List.length_take]; omega
        obtain ⟨s5, eE, hi5⟩ := tsPhaseE_safe
          { s1 with fs := fs2, frameRest := [], skip := 0,
                    tsBuf := s1.tsBuf ++ (x.drop (n1 + s1.skip)).take s1.lookahead }
          (fun hsy => by
            have := hiA.bufSync hsy
            show (s1.tsBuf ++ (x.drop (n1 + s1.skip)).take s1.lookahead).length = 10; rw [hlen]; omega)
          (fun hsy => by
            have := hiA.bufSearch hsy
            show (s1.tsBuf ++ (x.drop (n1 + s1.skip)).take s1.lookahead).length = 197; rw [hlen]; omega)
          hc0 hiA.cap hiA.low rfl
        rw [eE]
        exact ⟨s5, o, _, hi5, Or.inr ⟨rfl, by omega⟩⟩

theorem tsRun_safe (se : Bool) : ∀ (f : Nat) (s : TsSt) (x : Bytes), TsInv s → x.length < f →
    ∃ s' o n, tsRun cfg f true se s x = (s', o, n, .needMore) ∧ TsInv s' := by
  intro f
  induction f with
  | zero => intro s x _ h; omega
  | succ f ih =>
    intro s x hi hf
    obtain ⟨s', o, n, hi', hst⟩ := tsStep_safe se s x hi
    unfold tsRun
    rcases hst with e | ⟨e, hn⟩
    · rw [e]; exact ⟨s', o, n, rfl, hi'⟩
    · rw [e]
      dsimp only
      have hle := (tsStep_cont true se s s' x [] o n e).1
      obtain ⟨s2, o2, n2, e2, hi2⟩ := ih s' (x.drop n) hi' (by simp only [List.length_drop]; omega)
      rw [e2]
      exact ⟨s2, o ++ o2, n + n2, rfl, hi2⟩

/-- **TS garbage_safe + progress**, one call -/
theorem tsFeed_safe (s : TsSt) (buf : Bytes) (h : TsInv s) :
    (tsFeed cfg s buf).err = none ∧ TsInv (tsFeed cfg s buf).st := by
  unfold tsFeed
  split
  · exact ⟨rfl, h⟩
  · unfold tsLoop tsFuel
    simp only [List.drop_zero, Nat.sub_zero]
    obtain ⟨s', o, n, e, hi⟩ := tsRun_safe false (buf.length + 2) s buf h (by omega)
    rw [e]
    exact ⟨rfl, hi⟩

end Zvbi.Demux
