import ZvbiModel.Demux.LemmasFeed
/-!
# The header stage and the `lookahead` encoding of the PES state  (helper lemmas for C07)

`demux_pes_packet` has no state variable: "payload state" is `pes_wrap.lookahead > 48`.  The
encoding is sound because the header stage rejects every `PES_packet_length < 178`, so the payload
lookahead `PES_packet_length - 40` is at least 138; everywhere else the lookahead is exactly 48,
the number of bytes the scan and `valid_vbi_pes_packet_header` read (`p[0] .. p[45]`, `p + 3 < end`).
-/
namespace Zvbi.Demux

variable {cfg : SrcCfg}

/-- the lookahead values of the PES state machine: 48 (start code scan / header), or a payload length -/
def LaOK (la : Nat) : Prop := la = 48 ∨ (138 ≤ la ∧ la ≤ 65495)

/-- `PES_packet_length` as the header stage reads it -/
def packetLengthOf (h : Bytes) : Nat := (h.getD 4 0 % 256) * 256 + h.getD 5 0 % 256

/-- the header stage rejects every packet shorter than 178: the packet is skipped by its own length,
the lookahead stays 48 and the frame / PTS state is untouched, whatever the rest of the header says -/
theorem foundRes_short (p : Nat) (fs : FS) (h : Bytes) (hl : packetLengthOf h < 178) :
    foundRes p fs h = ((p + 6 + packetLengthOf h, 48), fs) := by
  unfold foundRes packetLengthOf at *
  simp only []
  rw [if_pos hl]

/-- an accepted header: the payload lookahead is `PES_packet_length - 40 >= 138` -/
theorem foundRes_accept (p : Nat) (fs fs' : FS) (h : Bytes) (sk la : Nat) (he : foundRes p fs h = ((sk, la), fs'))
    (hla : la ≠ 48) : 178 ≤ packetLengthOf h ∧ la = packetLengthOf h - 40 ∧ sk = p + 46 ∧ validHeader fs h = some fs' := by
  unfold foundRes at he
  unfold packetLengthOf
  simp only [] at he
  split at he
  · simp only [Prod.mk.injEq] at he; exact absurd he.1.2.symm hla
  · split at he
    · simp only [Prod.mk.injEq] at he; exact absurd he.1.2.symm hla
    · rename_i fs1 hv
      simp only [Prod.mk.injEq] at he
      obtain ⟨⟨h1, h2⟩, h3⟩ := he
      subst h3
      exact ⟨by omega, by omega, by omega, hv⟩

theorem foundRes_la (p : Nat) (fs : FS) (h : Bytes) : LaOK (foundRes p fs h).1.2 := by
  have := foundRes_bounds p fs h
  unfold foundRes at *
  simp only [] at *
  have h1 : h.getD 4 0 % 256 < 256 := Nat.mod_lt _ (by decide)
  have h2 : h.getD 5 0 % 256 < 256 := Nat.mod_lt _ (by decide)
  split
  · exact Or.inl rfl
  · split
    · exact Or.inl rfl
    · right; simp only []; omega

/-- one iteration of `demux_pes_packet` keeps the lookahead encoding -/
theorem pesIter_la (cb : Bool) (sk la : Nat) (fs : FS) (win : Bytes) (h : LaOK la) :
    LaOK (pesIter cb cfg sk la fs win).1.2 := by
  unfold pesIter
  dsimp only
  split
  · split
    · exact h
    · rcases pesPacketFrame cfg 3 cb cfg.corSkipsEmpty { fs with frame := { fs.frame with nDu := 0 } } (win.take la)
        with ⟨a, b, r, c⟩
      cases r
      · exact Or.inl rfl
      · exact Or.inl rfl
      · exact h
      · exact h
  · split
    · exact h
    · split
      · exact h
      · exact h
      · split
        · exact h
        · exact h
      · split
        · exact h
        · rename_i p _ _
          have hf := foundRes_la p fs ((win.drop p).take 46)
          unfold foundRes at hf
          simp only [] at hf
          split
          · exact h
          · split
            · exact h
            · rename_i hnl _ fs' hv
              rw [if_neg hnl, hv] at hf
              exact hf

/-- the stream machine keeps the lookahead encoding -/
theorem arun_la (L : Bytes) : ∀ (c : Core), LaOK c.lookahead → LaOK (arun cfg c L).core.lookahead := by
  induction L with
  | nil => intro c h; simpa [arun] using h
  | cons x L ih =>
    intro c h
    rw [arun]
    split
    · exact ih _ h
    · split
      · exact h
      · have hm := pesIter_la (cfg := cfg) true 0 c.lookahead c.fs ((x :: L).take c.lookahead) h
        unfold micro
        rcases hp : pesIter true cfg 0 c.lookahead c.fs ((x :: L).take c.lookahead) with ⟨⟨sk, la⟩, fs', outs, st⟩
        rw [hp] at hm
        cases st with
        | some stop => exact h
        | none => exact ih _ hm

/-- every reachable PES demux context: the lookahead is 48, or a payload length of at least 138 -/
theorem pesFeeds_la (chunks : List Bytes) : LaOK (pesFeeds cfg St.init chunks).st.pw.lookahead := by
  have h := (pesFeeds_refines (cfg := cfg) chunks St.init Inv_init).2.2
  have := arun_la (cfg := cfg) (St.init.pending ++ chunks.flatten) St.init.core (Or.inl rfl)
  rw [h] at this
  exact this


/-- at a VBI start code `00 00 01 BD` with `PES_packet_length < 178` one iteration of `demux_pes_packet`
skips the packet by its own length and changes nothing else, whatever the rest of the header says -/
theorem pesIter_short (cb : Bool) (sk : Nat) (fs : FS) (hi lo : Nat) (rest : Bytes) (hlen : 42 ≤ rest.length)
    (hpl : (hi % 256) * 256 + lo % 256 < 178) :
    pesIter cb cfg sk 48 fs (0 :: 0 :: 1 :: 0xBD :: hi :: lo :: rest)
      = ((6 + ((hi % 256) * 256 + lo % 256), 48), fs, [], none) := by
  rw [pesIter_scan _ _ _ _ (by simp only [List.length_cons]; omega)]
  have hs : scanLoop ((0 :: 0 :: 1 :: 0xBD :: hi :: lo :: rest).length + 1) (0 :: 0 :: 1 :: 0xBD :: hi :: lo :: rest)
      ((0 :: 0 :: 1 :: 0xBD :: hi :: lo :: rest).length - 48) 0 = .found 0 := by
    rw [scanLoop]
    simp only [List.drop_zero]
    have : scanPos 0 0 1 189 = .found := by decide
    rw [this]
  rw [hs]
  unfold scanFinish
  simp only [List.drop_zero]
  have h46 : ¬ ((0 :: 0 :: 1 :: 0xBD :: hi :: lo :: rest).take 46).length < 46 := by
    simp only [List.length_take, List.length_cons]; omega
  rw [if_neg h46]
  have hpl' : packetLengthOf ((0 :: 0 :: 1 :: 0xBD :: hi :: lo :: rest).take 46) < 178 := by
    simpa [packetLengthOf] using hpl
  rw [foundRes_short 0 fs _ hpl']
  simp [packetLengthOf]

end Zvbi.Demux
