import ZvbiModel.Demux.LemmasScan
import ZvbiModel.Demux.LemmasFrame
/-!
# One iteration of `demux_pes_packet` on any window = micro steps of the stream machine
-/
namespace Zvbi.Demux

variable {cfg : SrcCfg}

/-- payload branch of `pesIter` as a function of the payload bytes -/
def payloadRes (cb : Bool) (cfg : SrcCfg) (sk la : Nat) (fs : FS) (data : Bytes) :
    (Nat × Nat) × FS × List FrameOut × Option Stop :=
  match pesPacketFrame cfg 3 cb cfg.corSkipsEmpty { fs with frame := { fs.frame with nDu := 0 } } data with
  | (fs1, outs, .callback, _) => ((sk, la), fs1, outs, some .callback)
  | (fs1, outs, .fault e, _) => ((sk, la), fs1, outs, some (.fault e))
  | (fs1, outs, .err, _) => ((la, PES_HEADER_LOOKAHEAD), pesErrFs cfg fs1, outs, none)
  | (fs1, outs, .done, _) => ((la, PES_HEADER_LOOKAHEAD), fs1, outs, none)

theorem pesIter_payload (cb : Bool) (sk la : Nat) (fs : FS) (win : Bytes) (h1 : la > 48) (h2 : la ≤ win.length) :
    pesIter cb cfg sk la fs win = payloadRes cb cfg sk la fs (win.take la) := by
  unfold pesIter payloadRes
  simp only []
  rw [if_pos (by simpa [PES_HEADER_LOOKAHEAD] using h1), if_neg (by omega)]
  generalize pesPacketFrame cfg 3 cb _ _ _ = x
  obtain ⟨a, b, r, c⟩ := x
  cases r <;> rfl

theorem payloadRes_ok (cfg : SrcCfg) (sk la : Nat) (fs : FS) (data : Bytes) (h : 2 ≤ data.length) :
    ∃ fs1 outs, payloadRes true cfg sk la fs data = ((la, 48), fs1, outs, none) := by
  unfold payloadRes
  have hok := pesPacketFrame_ok (cfg := cfg) cfg.corSkipsEmpty { fs with frame := { fs.frame with nDu := 0 } } data h
  rcases hp : pesPacketFrame cfg 3 true cfg.corSkipsEmpty { fs with frame := { fs.frame with nDu := 0 } } data with ⟨fs1, outs, r, rest⟩
  rw [hp] at hok
  simp only at hok
  rcases hok with rfl | rfl
  · exact ⟨fs1, outs, rfl⟩
  · exact ⟨pesErrFs cfg fs1, outs, rfl⟩

/-- **iteration = micro steps**: whatever window (a prefix of the logical stream, at least
`lookahead` long) `wrap_around` hands out, the loop body never faults, sets a skip of at least one
byte, and moves the stream machine exactly as its byte-wise definition does -/
theorem pesIter_arun (L win : Bytes) (fs : FS) (sk la : Nat) (hpre : win <+: L)
    (hla : 48 ≤ la) (hla2 : la ≤ 65495) (hwin : la ≤ win.length) :
    ∃ sk' la' fs' outs, pesIter true cfg sk la fs win = ((sk', la'), fs', outs, none)
      ∧ 1 ≤ sk' ∧ 48 ≤ la' ∧ la' ≤ 65495
      ∧ arun cfg { skip := 0, lookahead := la, fs := fs } L
          = (arun cfg { skip := sk', lookahead := la', fs := fs' } L).pre outs := by
  have hLlen : win.length ≤ L.length := hpre.length_le
  by_cases hp : la > 48
  · -- payload
    have htl : (win.take la).length = la := by simp; omega
    obtain ⟨fs1, outs, hr⟩ := payloadRes_ok cfg sk la fs (win.take la) (by omega)
    refine ⟨la, 48, fs1, outs, ?_, by omega, by omega, by omega, ?_⟩
    · rw [pesIter_payload _ _ _ _ _ hp hwin, hr]
    · obtain ⟨fs1', outs', hr'⟩ := payloadRes_ok cfg 0 la fs (win.take la) (by omega)
      have hsame : fs1' = fs1 ∧ outs' = outs := by
        unfold payloadRes at hr hr'
        rcases hpp : pesPacketFrame cfg 3 true cfg.corSkipsEmpty { fs with frame := { fs.frame with nDu := 0 } } (win.take la)
          with ⟨a, b, r, c⟩
        rw [hpp] at hr hr'
        cases r <;> simp_all
      obtain ⟨rfl, rfl⟩ := hsame
      have hLt : L.take la = win.take la := by
        obtain ⟨t, rfl⟩ := hpre
        exact List.take_append_of_le_length hwin
      apply arun_micro _ L la 48 fs1' outs' rfl (by simp; omega) (by omega) _ (by omega)
      show pesIter true cfg 0 la fs (L.take la) = _
      rw [hLt, pesIter_payload _ _ _ _ _ hp (by omega), List.take_take, Nat.min_self, hr']
  · -- start code scan
    have h48 : la = 48 := by omega
    subst h48
    obtain ⟨sk', la', fs', h1, h2, h3, h4, h5⟩ :=
      scanLoop_arun L win fs sk hpre hwin (win.length + 1) 0 (Nat.zero_le _) (by omega)
    refine ⟨sk', la', fs', [], ?_, by omega, h3, h4, ?_⟩
    · rw [pesIter_scan _ _ _ _ hwin]; exact h1
    · rw [ARes.pre_nil]; exact h5

end Zvbi.Demux
