import ZvbiModel.Demux.TsJoinPes
/-!
# TS path joined with the multiplexer: a whole TS stream of accepted PES packets

`tsAll pid cc pks` = the TS packets the multiplexer makes of the PES packets `pks` one after the other
(continuity counter running on from `cc`).  With foreign packets interleaved anywhere and fed to a new
TS demultiplexer, the frames delivered are the PES packets but the last (which is held), exactly as in the
PES path (`arun_stream_from` / `arun_stream_start` in `JoinStream.lean`) - from the FIRST packet on when
the source has fix dvb-demux-ts-first-packet (F30).
-/
namespace Zvbi.Demux
open Zvbi.Mux.EnParse
variable {cfg : SrcCfg}

/-- the TS packets of a sequence of PES packets (`vbi_dvb_mux_feed` in TS mode, one call per packet) -/
def tsAll (pid : Nat) : Nat → List Bytes → List Bytes
  | _, [] => []
  | cc, pk :: pks => Zvbi.Mux.tsLoop pid (pk.length / 184) true cc pk ++ tsAll pid ((cc + pk.length / 184) % 2 ^ 32) pks

theorem tsLoop_tsPkt (pid : Nat) : ∀ (n : Nat) (first : Bool) (cc : Nat) (rest : Bytes), rest.length = 184 * n →
    ∀ x ∈ Zvbi.Mux.tsLoop pid n first cc rest, TsPkt x := by
  intro n
  induction n with
  | zero => intro first cc rest _ x hx; cases hx
  | succ n ih =>
    intro first cc rest hl x hx
    rw [tsLoop_succ] at hx
    rcases List.mem_cons.mp hx with rfl | hx
    · exact muxPkt_tsPkt pid cc first _ (by rw [List.length_take]; omega)
    · exact ih false _ (rest.drop 184) (by rw [List.length_drop]; omega) x hx

theorem parsePes_len (pk : Bytes) (p : Pes) (h : parsePes pk = some p) : pk.length = 184 * (pk.length / 184) ∧ 1 ≤ pk.length / 184 := by
  obtain ⟨_, h184, hpos⟩ := Zvbi.Mux.parsePes_sizefield pk p h
  omega

theorem tsAll_tsPkt (pid : Nat) : ∀ (pks : List (Bytes × Pes)) (cc : Nat), (∀ x ∈ pks, parsePes x.1 = some x.2) →
    ∀ y ∈ tsAll pid cc (pks.map Prod.fst), TsPkt y := by
  intro pks
  induction pks with
  | nil => intro cc _ y hy; cases hy
  | cons x pks ih =>
    intro cc hp y hy
    simp only [List.map_cons, tsAll] at hy
    rcases List.mem_append.mp hy with hy | hy
    · exact tsLoop_tsPkt pid _ true cc x.1 (parsePes_len x.1 x.2 (hp x (List.mem_cons_self ..))).1 y hy
    · exact ih _ (fun z hz => hp z (List.mem_cons_of_mem _ hz)) y hy

theorem tsLoop_length' (pid : Nat) : ∀ (n : Nat) (first : Bool) (cc : Nat) (pes : Bytes),
    (Zvbi.Mux.tsLoop pid n first cc pes).length = n := Zvbi.Mux.tsLoop_length pid

theorem tsAll_length (pid : Nat) : ∀ (pks : List (Bytes × Pes)) (cc : Nat), (∀ x ∈ pks, parsePes x.1 = some x.2) →
    pks.length ≤ (tsAll pid cc (pks.map Prod.fst)).length := by
  intro pks
  induction pks with
  | nil => intro _ _; simp [tsAll]
  | cons x pks ih =>
    intro cc hp
    have h1 := (parsePes_len x.1 x.2 (hp x (List.mem_cons_self ..))).2
    have h2 := ih ((cc + x.1.length / 184) % 2 ^ 32) (fun z hz => hp z (List.mem_cons_of_mem _ hz))
    simp only [List.map_cons, tsAll, List.length_append, tsLoop_length', List.length_cons]
    omega

theorem Merge.length_le {pid : Nat} : ∀ {xs ps : List Bytes}, Merge pid ps xs → ps.length ≤ xs.length := by
  intro xs
  induction xs with
  | nil => intro ps h; cases h; simp
  | cons x xs ih =>
    intro ps h
    cases h with
    | own p ps' _ h' => have := ih h'; simp only [List.length_cons]; omega
    | other _ _ _ _ h' => have := ih h'; simp only [List.length_cons]; omega

theorem contOK_next (c' cc n : Nat) (h : c' % 16 = (cc + n) % 16) : ContOK (some c') ((cc + n) % 2 ^ 32) :=
  Or.inr ⟨c', rfl, by omega⟩

/-- the TS demultiplexer holding frame `q`, waiting for a PES packet start, reading the TS packets of `pks` -/
theorem effs_stream_from (pid : Nat) (hpid : pid < 0x2000) : ∀ (pks : List (Bytes × Pes)) (fs : FS) (q : Pes)
    (xs : List Bytes) (pesOld : Bytes) (cont : Option Nat) (cc : Nat),
    (∀ x ∈ pks, parsePes x.1 = some x.2) → (∀ x ∈ pks, ∀ b ∈ x.1, b < 256) →
    Holds fs q.pts q.lines → q.lines.length ≤ frameCap cfg → SepFrom cfg (lastLineOf 0 q.lines) (pks.map fun x => x.2.lines) →
    ContOK cont cc → Merge pid (tsAll pid cc (pks.map Prod.fst)) xs →
    ∃ fsEnd pesEnd contEnd, Effs cfg pid ⟨fs, pesOld, 0, cont⟩ xs ⟨fsEnd, pesEnd, 0, contEnd⟩ (((q :: pks.map Prod.snd).dropLast).map outOf)
      ∧ Holds fsEnd ((q :: pks.map Prod.snd).getLast (by simp)).pts ((q :: pks.map Prod.snd).getLast (by simp)).lines := by
  intro pks
  induction pks with
  | nil =>
    intro fs q xs pesOld cont cc _ _ hh _ _ _ hm
    exact ⟨fs, pesOld, cont, by simpa [tsAll] using effs_foreign (cfg := cfg) pid ⟨fs, pesOld, 0, cont⟩ xs hm, by simpa using hh⟩
  | cons x pks ih =>
    intro fs q xs pesOld cont cc hp hb hh hq hsep hcont hm
    have hcap64 := frameCap_le cfg
    obtain ⟨pk, p⟩ := x
    simp only [List.map_cons, SepFrom] at hsep
    obtain ⟨⟨hne, hasc, hlt⟩, hfirst, hsep'⟩ := hsep
    have hpp : parsePes pk = some p := hp (pk, p) (List.mem_cons_self ..)
    have hbb := hb (pk, p) (List.mem_cons_self ..)
    obtain ⟨us, hul, hdrop, _⟩ := pes_shape pk p hpp hbb
    obtain ⟨l, ls, hls⟩ := List.exists_cons_of_ne_nil hne
    rw [hls] at hul hasc hlt
    have hfl : firstLine p.lines = l.line := by simp [firstLine, hls]
    obtain ⟨fs', hpf, hh', _⟩ := pesPacketFrame_next (cfg := cfg) false
      { fs with packetPts := p.pts, frame := { fs.frame with nDu := 0 } } us l ls hh.nf rfl
      (by show cfg.lateOverflow = true ∨ fs.frame.lines.length < 64
          rw [hh.lines, List.length_map]; exact frameCap_room _ hq)
      hul hasc (by omega) (by show l.line ≤ fs.frame.lastFrameLine; rw [hh.last, ← hfl]; exact hfirst)
    simp only [List.map_cons, tsAll] at hm
    obtain ⟨xa, xb, rfl, hma, hmb⟩ := Merge.split hm
    obtain ⟨c', hea, hc'⟩ := effs_pes (cfg := cfg) pid hpid fs fs' _ pk p hpp hbb (by rw [hdrop]; exact hpf) xa pesOld cont cc hcont hma
    obtain ⟨fsEnd, pesEnd, contEnd, heb, hend⟩ := ih fs' p xb pk (some c') ((cc + pk.length / 184) % 2 ^ 32)
      (fun y hy => hp y (List.mem_cons_of_mem _ hy)) (fun y hy => hb y (List.mem_cons_of_mem _ hy))
      (by rw [hls]; exact hh') (by rw [hls]; exact hlt) hsep' (contOK_next c' cc _ hc') hmb
    refine ⟨fsEnd, pesEnd, contEnd, ?_, ?_⟩
    · have := Effs.append hea heb
      simp only [List.map_cons, List.dropLast_cons_cons, List.map_cons]
      have e : (⟨fs.framePts, fs.frame.lines⟩ : FrameOut) = outOf q := by rw [hh.pts, hh.lines]; rfl
      rw [← e]
      simpa using this
    · simpa [List.getLast_cons] using hend

/-- the same from a frame start (new demultiplexer): the first PES packet only opens a frame -/
theorem effs_stream_start (pid : Nat) (hpid : pid < 0x2000) (x : Bytes × Pes) (pks : List (Bytes × Pes)) (fs : FS)
    (hnf : fs.newFrame = true) (xs : List Bytes) (pesOld : Bytes) (cont : Option Nat) (cc : Nat)
    (hp : ∀ y ∈ x :: pks, parsePes y.1 = some y.2) (hb : ∀ y ∈ x :: pks, ∀ b ∈ y.1, b < 256)
    (hsep : Sep cfg ((x :: pks).map fun x => x.2.lines)) (hcont : ContOK cont cc)
    (hm : Merge pid (tsAll pid cc ((x :: pks).map Prod.fst)) xs) :
    ∃ fsEnd pesEnd contEnd, Effs cfg pid ⟨fs, pesOld, 0, cont⟩ xs ⟨fsEnd, pesEnd, 0, contEnd⟩ ((((x :: pks).map Prod.snd).dropLast).map outOf)
      ∧ Holds fsEnd (((x :: pks).map Prod.snd).getLast (by simp)).pts (((x :: pks).map Prod.snd).getLast (by simp)).lines := by
  have hcap64 := frameCap_le cfg
  obtain ⟨pk, p⟩ := x
  simp only [List.map_cons, Sep] at hsep
  obtain ⟨⟨hne, hasc, hlt⟩, hsep'⟩ := hsep
  have hpp : parsePes pk = some p := hp (pk, p) (List.mem_cons_self ..)
  have hbb := hb (pk, p) (List.mem_cons_self ..)
  obtain ⟨us, hul, hdrop, _⟩ := pes_shape pk p hpp hbb
  obtain ⟨l, ls, hls⟩ := List.exists_cons_of_ne_nil hne
  rw [hls] at hul hasc hlt
  obtain ⟨fs', hpf, hh', _⟩ := pesPacketFrame_first (cfg := cfg) false
    { fs with packetPts := p.pts, frame := { fs.frame with nDu := 0 } } us l ls hnf hul hasc (by omega)
  simp only [List.map_cons, tsAll] at hm
  obtain ⟨xa, xb, rfl, hma, hmb⟩ := Merge.split hm
  obtain ⟨c', hea, hc'⟩ := effs_pes (cfg := cfg) pid hpid fs fs' _ pk p hpp hbb (by rw [hdrop]; exact hpf) xa pesOld cont cc hcont hma
  obtain ⟨fsEnd, pesEnd, contEnd, heb, hend⟩ := effs_stream_from (cfg := cfg) pid hpid pks fs' p xb pk (some c') ((cc + pk.length / 184) % 2 ^ 32)
    (fun y hy => hp y (List.mem_cons_of_mem _ hy)) (fun y hy => hb y (List.mem_cons_of_mem _ hy))
    (by rw [hls]; exact hh') (by rw [hls]; exact hlt) hsep' (contOK_next c' cc _ hc') hmb
  refine ⟨fsEnd, pesEnd, contEnd, ?_, hend⟩
  have := Effs.append hea heb
  simpa using this


/-- fewer than 197 bytes into a new demultiplexer: it still collects bytes for the sync search -/
theorem tsFeed_short (pid : Nat) (b : Bytes) (h : b.length < 197) : (tsFeed cfg (TsSt.init pid) b).frames = [] := by
  unfold tsFeed
  split
  · rfl
  · rename_i hne
    have hi : TsSt.init pid = ⟨{}, [], 0, 0, 197, false, [], [], 0, none, pid⟩ := rfl
    have hstep : tsStep cfg true false (TsSt.init pid) b
        = (⟨{}, b, 0, 0, 197 - b.length, false, [], [], 0, none, pid⟩, [], b.length, .stop .needMore) := by
      rw [hi]
      unfold tsStep
      rw [tsPhaseA_reentry _ _ rfl]; dsimp only
      rw [tsPhaseB_reentry _ _ _ rfl]; dsimp only
      rw [tsPhaseC_reentry _ _ rfl]; dsimp only
      simp only [tsPhaseD, Nat.add_zero, List.drop_zero, TS_BUF_SIZE, List.length_nil, List.nil_append, Nat.zero_add]
      rw [if_pos (by omega), if_neg (by omega)]
    unfold tsLoop tsFuel
    simp only [List.drop_zero, Nat.sub_zero]
    rw [show b.length + 2 = (b.length + 1) + 1 from rfl, tsRun, hstep]

/-- **a TS stream of accepted PES packets through a new TS demultiplexer (whole).**  PES packets `pks` the
standards reader accepts (bytes < 256) that are separable frames, packetised as the multiplexer does it from
any continuity counter `cc`, foreign packets interleaved anywhere (`Merge`), source with fix
dvb-demux-ts-first-packet: the frames delivered are the packets but the last, from the first one on; with at
least two TS packets in the stream the demultiplexer ends in sync at a TS packet boundary, waits for a PES
packet start and holds the last frame. -/
theorem ts_stream_frames (hflag : cfg.tsCompletesInHeader = true) (pid : Nat) (hpid : pid < 0x2000)
    (pks : List (Bytes × Pes)) (cc : Nat) (xs : List Bytes)
    (hp : ∀ y ∈ pks, parsePes y.1 = some y.2) (hb : ∀ y ∈ pks, ∀ b ∈ y.1, b < 256)
    (hsep : Sep cfg (pks.map fun x => x.2.lines)) (hm : Merge pid (tsAll pid cc (pks.map Prod.fst)) xs) :
    (tsFeed cfg (TsSt.init pid) xs.flatten).frames = ((pks.map Prod.snd).dropLast).map outOf
    ∧ (2 ≤ xs.length → ∃ v', (tsFeed cfg (TsSt.init pid) xs.flatten).st = mkAt pid v' [] ∧ v'.todo = 0
        ∧ ∀ hne : pks.map Prod.snd ≠ [], Holds v'.fs ((pks.map Prod.snd).getLast hne).pts ((pks.map Prod.snd).getLast hne).lines) := by
  have hpk : ∀ x ∈ xs, TsPkt x := merge_tsPkt hm (tsAll_tsPkt pid pks cc hp)
  have hlen := Nat.le_trans (tsAll_length pid pks cc hp) (Merge.length_le hm)
  -- the effects of the whole stream
  have heff : ∃ v', Effs cfg pid V.init xs v' (((pks.map Prod.snd).dropLast).map outOf) ∧ v'.todo = 0
      ∧ ∀ hne : pks.map Prod.snd ≠ [], Holds v'.fs ((pks.map Prod.snd).getLast hne).pts ((pks.map Prod.snd).getLast hne).lines := by
    cases pks with
    | nil =>
      refine ⟨V.init, ?_, rfl, fun hne => absurd rfl hne⟩
      simpa [tsAll] using effs_foreign (cfg := cfg) pid V.init xs (by simpa [tsAll] using hm)
    | cons x pks =>
      obtain ⟨fsEnd, pesEnd, contEnd, he, hend⟩ := effs_stream_start (cfg := cfg) pid hpid x pks {} rfl xs [] none cc hp hb hsep
        (Or.inl rfl) hm
      exact ⟨⟨fsEnd, pesEnd, 0, contEnd⟩, he, rfl, fun _ => hend⟩
  obtain ⟨v', he, hv0, hend⟩ := heff
  rcases xs with _ | ⟨x1, _ | ⟨x2, rest⟩⟩
  · refine ⟨?_, fun h => by simp at h⟩
    have : pks = [] := List.eq_nil_of_length_eq_zero (by simpa using hlen)
    subst this
    simp [tsFeed]
  · refine ⟨?_, fun h => by simp at h⟩
    rw [tsFeed_short pid _ (by simp [(hpk x1 (List.mem_cons_self ..)).1])]
    have h1 : pks.length ≤ 1 := by simpa using hlen
    rcases pks with _ | ⟨a, _ | ⟨b, t⟩⟩
    · rfl
    · rfl
    · simp at h1
  · obtain ⟨hst, hfr⟩ := tsFeed_stream (cfg := cfg) hflag pid x1 x2 rest v' _ hpk he
    exact ⟨hfr, fun _ => ⟨v', hst, hv0, hend⟩⟩

end Zvbi.Demux
