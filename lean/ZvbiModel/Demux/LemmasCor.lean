import ZvbiModel.Demux.Model
/-!
# The coroutine interface always makes progress on the repaired tree  (helper lemmas for C07)
-/
namespace Zvbi.Demux

variable {cfg : SrcCfg}

/-- with `skipEmpty`, `demux_pes_packet_frame` returns VBI_ERR_CALLBACK only with lines to deliver -/
theorem pesPacketFrame_callback_lines : ∀ (n : Nat) (cb : Bool) (fs : FS) (d : Bytes),
    (pesPacketFrame cfg n cb true fs d).2.2.1 = .callback →
    (pesPacketFrame cfg n cb true fs d).1.frame.lines ≠ [] := by
  intro n
  induction n with
  | zero => intro cb fs d h; simp [pesPacketFrame] at h
  | succ n ih =>
    intro cb fs d
    unfold pesPacketFrame
    dsimp only
    generalize (if fs.newFrame = true then
      ({ fs with frame := resetFrame fs.frame, framePts := fs.packetPts, newFrame := false } : FS) else fs) = fs1
    rcases extract cfg fs1.frame d with ⟨f, r, rest⟩
    cases r with
    | done => intro h; simp at h
    | err => intro h; simp at h
    | fault e => intro h; simp at h
    | newFrame =>
      dsimp only
      split
      · split
        · exact ih _ _ _
        · rename_i hne
          intro _
          dsimp only
          intro hl
          apply hne
          simp [hl]
      · exact ih _ _ _

theorem pesIter_callback_lines (cfg : SrcCfg) (hse : cfg.corSkipsEmpty = true) (cb : Bool) (sk la : Nat) (fs : FS)
    (win : Bytes) (h : (pesIter cb cfg sk la fs win).2.2.2 = some .callback) :
    (pesIter cb cfg sk la fs win).2.1.frame.lines ≠ [] := by
  unfold pesIter at h ⊢
  dsimp only at h ⊢
  split
  · rename_i hp
    rw [if_pos hp] at h
    split
    · rename_i hl; rw [if_pos hl] at h; simp at h
    · rename_i hl
      rw [if_neg hl] at h
      rw [hse] at h ⊢
      have := pesPacketFrame_callback_lines (cfg := cfg) 3 cb { fs with frame := { fs.frame with nDu := 0 } } (win.take la)
      rcases hp : pesPacketFrame cfg 3 cb true { fs with frame := { fs.frame with nDu := 0 } } (win.take la)
        with ⟨fs1, outs, r, rest⟩
      rw [hp] at h this
      cases r with
      | callback => exact this rfl
      | fault e => simp at h
      | err => simp at h
      | done => simp at h
  · rename_i hp
    rw [if_neg hp] at h
    exfalso
    repeat' split at h
    all_goals first
      | (simp at h; done)
      | skip

theorem pesIter_stop_ne_needMore (cfg : SrcCfg) (cb : Bool) (sk la : Nat) (fs : FS) (win : Bytes) :
    (pesIter cb cfg sk la fs win).2.2.2 ≠ some .needMore := by
  unfold pesIter
  dsimp only
  split
  · split
    · simp
    · rcases pesPacketFrame cfg 3 cb cfg.corSkipsEmpty { fs with frame := { fs.frame with nDu := 0 } } (win.take la)
        with ⟨a, b, r, c⟩
      cases r <;> simp
  · repeat' split
    all_goals simp

/-- `demux_pes_packet` with `callback == NULL`: "need more data" means the buffer is exhausted,
VBI_ERR_CALLBACK means there are lines to hand over -/
theorem pesLoop_cor_progress (cfg : SrcCfg) (hse : cfg.corSkipsEmpty = true) :
    ∀ (fuel : Nat) (s : St) (buf : Bytes) (si srcSize : Nat),
    ((pesLoop fuel false cfg s buf si srcSize).2.2.2 = .needMore →
        buf.length ≤ (pesLoop fuel false cfg s buf si srcSize).2.2.1) ∧
    ((pesLoop fuel false cfg s buf si srcSize).2.2.2 = .callback →
        (pesLoop fuel false cfg s buf si srcSize).1.fs.frame.lines ≠ []) := by
  intro fuel
  induction fuel with
  | zero => intro s buf si srcSize; simp [pesLoop]
  | succ fuel ih =>
    intro s buf si srcSize
    unfold pesLoop
    cases hw : wrapAround PES_BUF_SIZE s.pw buf si srcSize with
    | fault e => simp
    | more w si' =>
      dsimp only
      refine ⟨fun _ => ?_, fun h => by simp at h⟩
      -- FALSE from wrap_around: *src_left == 0
      unfold wrapAround at hw
      dsimp only at hw
      cases hsk : wrapSkip s.pw (buf.length - si) with
      | none => rw [hsk] at hw; cases hw; omega
      | some p =>
        obtain ⟨w1, adv⟩ := p
        rw [hsk] at hw
        dsimp only at hw
        unfold wrapFill at hw
        dsimp only at hw
        repeat' split at hw
        all_goals first
          | (cases hw; done)
          | (cases hw; omega)
    | win w si' win =>
      dsimp only
      have hcb := pesIter_callback_lines cfg hse false w.skip w.lookahead s.fs win
      rcases hp : pesIter false cfg w.skip w.lookahead s.fs win with ⟨⟨sk, la⟩, fs', outs, st⟩
      rw [hp] at hcb
      cases st with
      | some stop =>
        dsimp only
        refine ⟨fun h => ?_, fun h => ?_⟩
        · exfalso
          have := pesIter_stop_ne_needMore cfg false w.skip w.lookahead s.fs win
          rw [hp, h] at this
          exact this rfl
        · subst h; exact hcb rfl
      | none =>
        dsimp only
        exact ih _ _ _ _

/-- one `vbi_dvb_demux_cor` call that does not fault either returns a frame or exhausts the buffer -/
theorem pesCor_progress (cfg : SrcCfg) (hse : cfg.corSkipsEmpty = true) (s : St) (buf : Bytes) (si maxLines : Nat)
    (hm : 1 ≤ maxLines) (he : (pesCor cfg s buf si maxLines).2.2.2 = none) :
    (pesCor cfg s buf si maxLines).2.2.1.isSome = true ∨ buf.length ≤ (pesCor cfg s buf si maxLines).2.1 := by
  unfold pesCor at he ⊢
  have hp := pesLoop_cor_progress cfg hse (pesFuel s buf) s buf si (buf.length - si)
  rcases hl : pesLoop (pesFuel s buf) false cfg s buf si (buf.length - si) with ⟨s', o, si', stop⟩
  rw [hl] at he hp
  cases stop with
  | fault e => simp at he
  | needMore => right; exact hp.1 rfl
  | callback =>
    left
    have hne := hp.2 rfl
    dsimp only at hne ⊢
    have hpos : 0 < s'.fs.frame.lines.length := List.length_pos_iff.2 hne
    rw [if_pos (by omega)]
    rfl

/-- **no livelock on the repaired tree**: draining a buffer through the coroutine interface never ends
with three calls in a row that neither consume input nor return a frame - from any context -/
theorem pesCorDrain_no_livelock (cfg : SrcCfg) (hse : cfg.corSkipsEmpty = true) (maxLines : Nat) (hm : 1 ≤ maxLines) :
    ∀ (fuel stall : Nat) (s : St) (buf : Bytes) (si : Nat),
    (pesCorDrain fuel cfg stall s buf si maxLines).stalled = false := by
  intro fuel
  induction fuel with
  | zero => intro stall s buf si; simp [pesCorDrain]
  | succ fuel ih =>
    intro stall s buf si
    unfold pesCorDrain
    by_cases hsi : si ≥ buf.length
    · rw [if_pos hsi]
    · rw [if_neg hsi]
      have hp := pesCor_progress cfg hse s buf si maxLines hm
      rcases hc : pesCor cfg s buf si maxLines with ⟨s', si', fo, e⟩
      rw [hc] at hp
      cases e with
      | some e => rfl
      | none =>
        dsimp only at hp ⊢
        have hp := hp rfl
        have hst : (if si' = si ∧ fo.isNone = true then stall + 1 else 0) = 0 := by
          rw [if_neg]
          intro ⟨h1, h2⟩
          rcases hp with h | h
          · cases fo <;> simp_all
          · omega
        rw [hst, if_neg (by simp [COR_STALL_LIMIT])]
        exact ih _ _ _ _

end Zvbi.Demux
