import ZvbiModel.Demux.JoinFrame
import ZvbiModel.Mux.LemmasStream
/-!
# Parser equivalence, PES packet level  (join of C06 and C07)

One packet that the standards reader accepts (`EnParse.parsePes pk = some p`, bytes < 256), seen by
the stream machine `arun` at a packet boundary (`skip = 0`, `lookahead = 48`): the start code is
found at once, the header is valid, the PTS the demultiplexer decodes is the reader's PTS, the
payload is the data unit region, and afterwards the machine is at the next packet boundary.
-/
namespace Zvbi.Demux
open Zvbi.Hamm (rev8)
open Zvbi.Mux.EnParse

theorem parseUnitsF_inv : ∀ (f : Nat) (bs : Bytes) (us : List DataUnit), parseUnitsF f bs = some us → encUnits us = bs := by
  intro f
  induction f with
  | zero =>
    intro bs us h
    cases bs with
    | nil => simp only [parseUnitsF, Option.some.injEq] at h; subst h; rfl
    | cons b bs => simp [parseUnitsF] at h
  | succ f ih =>
    intro bs us h
    rcases bs with _ | ⟨id, _ | ⟨len, rest⟩⟩
    · simp only [parseUnitsF, Option.some.injEq] at h; subst h; rfl
    · simp [parseUnitsF] at h
    · simp only [parseUnitsF] at h
      split at h
      · rename_i hle
        cases hr : parseUnitsF f (rest.drop len) with
        | none => rw [hr] at h; simp at h
        | some us' =>
          rw [hr] at h
          simp only [Option.some.injEq] at h
          subst h
          have := ih _ _ hr
          simp only [encUnits, this, List.length_take, Nat.min_eq_left hle, List.take_append_drop]
      · cases h

theorem parseUnits_inv (bs : Bytes) (us : List DataUnit) (h : parseUnits bs = some us) : encUnits us = bs :=
  parseUnitsF_inv _ bs us h

theorem andFE : ∀ x < 256, x &&& 0xFE = x / 2 * 2 := by decide +kernel

/-- `decode_timestamp` computes the number ISO 13818-1 2.4.3.7 defines (`EnParse.parsePts`) -/
theorem decodeTimestamp_eq (p0 p1 p2 p3 p4 : Nat) (rest : Bytes) (h1 : p1 < 256) (h2 : p2 < 256) (h3 : p3 < 256)
    (h4 : p4 < 256) :
    decodeTimestamp (p0 :: p1 :: p2 :: p3 :: p4 :: rest)
      = p0 / 2 % 8 * 2 ^ 30 + p1 * 2 ^ 22 + p2 / 2 * 2 ^ 15 + p3 * 2 ^ 7 + p4 / 2 := by
  unfold decodeTimestamp
  simp only [List.getD_cons_zero, List.getD_cons_succ]
  rw [andFE p2 h2, Zvbi.Mux.and14 p0]
  have s3 : (p3 <<< 7) ||| (p4 >>> 1) = p3 * 128 + p4 / 2 := by
    rw [← Nat.shiftLeft_add_eq_or_of_lt (by rw [Nat.shiftRight_eq_div_pow]; omega)]
    rw [Nat.shiftLeft_eq, Nat.shiftRight_eq_div_pow]
  have s2 : ((p2 / 2 * 2) <<< 14) ||| (p3 * 128 + p4 / 2) = p2 / 2 * 32768 + (p3 * 128 + p4 / 2) := by
    have e : (p2 / 2 * 2) <<< 14 = (p2 / 2) <<< 15 := by
      rw [Nat.shiftLeft_eq, Nat.shiftLeft_eq]; omega
    rw [e, ← Nat.shiftLeft_add_eq_or_of_lt (by omega), Nat.shiftLeft_eq]
  have s1 : (p1 <<< 22) ||| (p2 / 2 * 32768 + (p3 * 128 + p4 / 2))
      = p1 * 4194304 + (p2 / 2 * 32768 + (p3 * 128 + p4 / 2)) := by
    rw [← Nat.shiftLeft_add_eq_or_of_lt (by omega), Nat.shiftLeft_eq]
  have hT : p1 <<< 22 ||| (p2 / 2 * 2) <<< 14 ||| p3 <<< 7 ||| p4 >>> 1
      = p1 * 4194304 + (p2 / 2 * 32768 + (p3 * 128 + p4 / 2)) := by
    rw [Nat.or_assoc, Nat.or_assoc, s3, s2, s1]
  rw [hT, Nat.or_comm]
  have e0 : (p0 % 16 / 2 * 2) <<< 29 = (p0 % 16 / 2) <<< 30 := by
    rw [Nat.shiftLeft_eq, Nat.shiftLeft_eq]; omega
  rw [e0, ← Nat.shiftLeft_add_eq_or_of_lt (by omega), Nat.shiftLeft_eq]
  omega

theorem decodeTimestamp_parsePts (T rest : Bytes) (v : Nat) (hb : ∀ b ∈ T, b < 256) (h : parsePts T = some v) :
    decodeTimestamp (T ++ rest) = v := by
  unfold parsePts at h
  split at h
  · rename_i p0 p1 p2 p3 p4
    split at h
    · simp only [Option.some.injEq] at h
      subst h
      exact decodeTimestamp_eq p0 p1 p2 p3 p4 rest (hb p1 (by simp)) (hb p2 (by simp)) (hb p3 (by simp)) (hb p4 (by simp))
    · cases h
  · cases h

def flagsCheck (b : Nat) : Bool := !(b / 64 = 2 ∧ b / 16 % 4 = 0 ∧ b / 4 % 2 = 1) || (b &&& 0xF4 = 0x84)
theorem flagsCheck_all : ∀ b < 256, flagsCheck b = true := by decide +kernel

/-- the reader's conditions on the first PES flag byte are the demultiplexer's mask test -/
theorem flags_agree (b : Nat) (h1 : b / 64 = 2) (h2 : b / 16 % 4 = 0) (h3 : b / 4 % 2 = 1) : b &&& 0xF4 = 0x84 := by
  have := flagsCheck_all b (by omega)
  simpa [flagsCheck, h1, h2, h3] using this

/-- the shape of a packet the reader accepts -/
theorem parsePes_inv (bs : Bytes) (p : Pes) (h : parsePes bs = some p) :
    ∃ lenHi lenLo b6 T did us,
      bs = 0x00 :: 0x00 :: 0x01 :: 0xBD :: lenHi :: lenLo :: b6 :: 0x80 :: 0x24 :: (T ++ (List.replicate 31 0xFF ++ did :: encUnits us))
      ∧ T.length = 5 ∧ lenHi * 256 + lenLo + 6 = bs.length ∧ bs.length % 184 = 0
      ∧ b6 &&& 0xF4 = 0x84 ∧ validDataId did = true ∧ parsePts T = some p.pts ∧ unitsLines us = some p.lines
      ∧ p.size = bs.length ∧ p.dataId = did := by
  unfold parsePes at h
  split at h
  · rename_i lenHi lenLo b6 b7 b8 rest
    simp only [] at h
    split at h
    · cases h
    · rename_i hc1
      split at h
      · cases h
      · rename_i hc2
        split at h
        · cases h
        · rename_i hc3
          split at h
          · rename_i pts us hpts hus
            split at h
            · cases h
            · split at h
              · rename_i ls hls
                simp only [Option.some.injEq] at h
                subst h
                have h7 : b7 = 0x80 := by
                  apply Decidable.byContradiction; intro hh; exact hc2 (Or.inr (Or.inr (Or.inr (Or.inl hh))))
                have h8 : b8 = 0x24 := by
                  apply Decidable.byContradiction; intro hh; exact hc2 (Or.inr (Or.inr (Or.inr (Or.inr hh))))
                have h6a : b6 / 64 = 2 := by
                  apply Decidable.byContradiction; intro hh; exact hc2 (Or.inl hh)
                have h6b : b6 / 16 % 4 = 0 := by
                  apply Decidable.byContradiction; intro hh; exact hc2 (Or.inr (Or.inl hh))
                have h6c : b6 / 4 % 2 = 1 := by
                  apply Decidable.byContradiction; intro hh; exact hc2 (Or.inr (Or.inr (Or.inl hh)))
                have hlen : 37 ≤ rest.length := by
                  apply Decidable.byContradiction; intro hh; exact hc3 (Or.inl (by omega))
                have hst : (rest.drop 5).take 31 = List.replicate 31 0xFF := by
                  apply Decidable.byContradiction; intro hh; exact hc3 (Or.inr (Or.inl hh))
                have hdid : validDataId ((rest.drop 36).getD 0 0) = true := by
                  apply Decidable.byContradiction; intro hh; exact hc3 (Or.inr (Or.inr hh))
                have hsz : lenHi * 256 + lenLo + 6 = (0 :: 0 :: 1 :: 189 :: lenHi :: lenLo :: b6 :: b7 :: b8 :: rest).length
                    ∧ (0 :: 0 :: 1 :: 189 :: lenHi :: lenLo :: b6 :: b7 :: b8 :: rest).length % 184 = 0 := by
                  constructor
                  · apply Decidable.byContradiction; intro hh; exact hc1 (Or.inl hh)
                  · apply Decidable.byContradiction; intro hh; exact hc1 (Or.inr hh)
                subst h7; subst h8
                refine ⟨lenHi, lenLo, b6, rest.take 5, (rest.drop 36).getD 0 0, us, ?_, by simp; omega, hsz.1, hsz.2,
                  flags_agree b6 h6a h6b h6c, hdid, hpts, hls, rfl, rfl⟩
                have hbody := parseUnits_inv _ _ hus
                rw [hbody, ← hst]
                have e1 : rest.drop 36 = (rest.drop 36).getD 0 0 :: rest.drop 37 := by
                  have : rest.drop 36 ≠ [] := by
                    intro hn; have := congrArg List.length hn; simp at this; omega
                  obtain ⟨x, xs, hx⟩ := List.exists_cons_of_ne_nil this
                  have h37 : rest.drop 37 = xs := by
                    have : rest.drop 37 = (rest.drop 36).drop 1 := by rw [List.drop_drop]
                    rw [this, hx]; rfl
                  rw [h37, hx]; rfl
                have e2 : rest = rest.take 5 ++ ((rest.drop 5).take 31 ++ rest.drop 36) := by
                  have a : rest.drop 36 = (rest.drop 5).drop 31 := by rw [List.drop_drop]
                  rw [a, List.take_append_drop, List.take_append_drop]
                rw [← e1, ← e2]
              · cases h
          · cases h
  · cases h

variable {cfg : SrcCfg}

/-- the 46 header bytes of a VBI PES packet (start code .. data_identifier) -/
def hdr46 (lenHi lenLo b6 t0 t1 t2 t3 t4 did : Nat) : Bytes :=
  [0x00, 0x00, 0x01, 0xBD, lenHi, lenLo, b6, 0x80, 0x24, t0, t1, t2, t3, t4,
   0xFF, 0xFF, 0xFF, 0xFF, 0xFF, 0xFF, 0xFF, 0xFF, 0xFF, 0xFF, 0xFF, 0xFF, 0xFF, 0xFF, 0xFF, 0xFF,
   0xFF, 0xFF, 0xFF, 0xFF, 0xFF, 0xFF, 0xFF, 0xFF, 0xFF, 0xFF, 0xFF, 0xFF, 0xFF, 0xFF, 0xFF, did]

theorem hdr46_eq (lenHi lenLo b6 t0 t1 t2 t3 t4 did : Nat) (body : Bytes) :
    0x00 :: 0x00 :: 0x01 :: 0xBD :: lenHi :: lenLo :: b6 :: 0x80 :: 0x24 :: ([t0, t1, t2, t3, t4] ++ (List.replicate 31 0xFF ++ did :: body))
      = hdr46 lenHi lenLo b6 t0 t1 t2 t3 t4 did ++ body := by
  simp [hdr46, List.replicate]

/-- header step: at a packet boundary the start code is found at offset 0 and the header is valid -/
theorem micro_header (fs : FS) (lenHi lenLo b6 t0 t1 t2 t3 t4 did x y : Nat)
    (hHi : lenHi < 256) (hLo : lenLo < 256) (hlen : 178 ≤ lenHi * 256 + lenLo)
    (h6 : b6 &&& 0xF4 = 0x84) (hdid : validDataId did = true) :
    micro cfg { skip := 0, lookahead := 48, fs := fs } (hdr46 lenHi lenLo b6 t0 t1 t2 t3 t4 did ++ [x, y])
      = ((46, lenHi * 256 + lenLo - 40), { fs with packetPts := decodeTimestamp [t0, t1, t2, t3, t4] }, [], none) := by
  have hv : validDataId did = true := hdid
  unfold validDataId at hv
  simp only [Bool.or_eq_true, Bool.and_eq_true, decide_eq_true_eq] at hv
  simp only [hdr46, List.cons_append, List.nil_append]
  rw [micro_scan48 _ _ _ _ _ _ (by simp)]
  unfold scanStepRes
  have hsp : scanPos 0 0 1 189 = .found := by decide
  rw [hsp]
  simp only [List.take_succ_cons, List.take_zero]
  unfold foundRes
  simp only [List.getD_cons_zero, List.getD_cons_succ, Nat.mod_eq_of_lt hHi, Nat.mod_eq_of_lt hLo]
  rw [if_neg (by omega)]
  unfold validHeader
  simp only [List.getD_cons_zero, List.getD_cons_succ, h6]
  simp only [ne_eq, not_true_eq_false, if_false]
  rw [if_neg (fun h => h hv), if_pos (Or.inl (by decide))]
  simp only [List.drop_succ_cons, List.drop_zero]
  have hd : ∀ r : Bytes, decodeTimestamp (t0 :: t1 :: t2 :: t3 :: t4 :: r) = decodeTimestamp [t0, t1, t2, t3, t4] := by
    intro r; rfl
  rw [hd]
  have e : lenHi * 256 + lenLo - 3 - 36 - 1 = lenHi * 256 + lenLo - 40 := by omega
  rw [e]

/-- one accepted packet at a packet boundary: header step, skip to the payload, payload step, skip to
the next packet boundary - for whatever the payload step (`payloadRes`: `demux_pes_packet_frame` and
the error handling behind it) does to the frame state, as long as it does not stop the loop. -/
theorem arun_packet_res (fs : FS) (pk rest : Bytes) (p : Pes) (hp : parsePes pk = some p) (hb : ∀ b ∈ pk, b < 256) :
    ∃ us, unitsLines us = some p.lines ∧
      ∀ fs2 outs,
        payloadRes true cfg 0 (encUnits us).length { fs with packetPts := p.pts } (encUnits us)
            = (((encUnits us).length, 48), fs2, outs, none) →
        arun cfg { skip := 0, lookahead := 48, fs := fs } (pk ++ rest)
          = (arun cfg { skip := 0, lookahead := 48, fs := fs2 } rest).pre outs := by
  obtain ⟨lenHi, lenLo, b6, T, did, us, hpk, hT, hlen, h184, h6, hdid, hpts, hul, _, _⟩ := parsePes_inv pk p hp
  refine ⟨us, hul, ?_⟩
  intro fs2 outs hpf
  rcases T with _ | ⟨t0, _ | ⟨t1, _ | ⟨t2, _ | ⟨t3, _ | ⟨t4, _ | ⟨t5, T⟩⟩⟩⟩⟩⟩ <;> simp at hT
  rw [hdr46_eq] at hpk
  have hh : (hdr46 lenHi lenLo b6 t0 t1 t2 t3 t4 did).length = 46 := rfl
  have hpl : pk.length = 46 + (encUnits us).length := by rw [hpk, List.length_append, hh]
  have hHi : lenHi < 256 := hb _ (by rw [hpk]; simp [hdr46])
  have hLo : lenLo < 256 := hb _ (by rw [hpk]; simp [hdr46])
  have hbT : ∀ b ∈ [t0, t1, t2, t3, t4], b < 256 := by
    intro b hbm; apply hb; rw [hpk]
    simp only [List.mem_cons, List.not_mem_nil, or_false] at hbm
    rcases hbm with rfl | rfl | rfl | rfl | rfl <;> simp [hdr46]
  have hv : decodeTimestamp [t0, t1, t2, t3, t4] = p.pts := by
    have := decodeTimestamp_parsePts [t0, t1, t2, t3, t4] [] p.pts hbT hpts
    simpa using this
  -- sizes
  have hbody : 138 ≤ (encUnits us).length := by omega
  have hla : lenHi * 256 + lenLo - 40 = (encUnits us).length := by omega
  -- the first two payload bytes
  obtain ⟨x, y, tl, hxy⟩ : ∃ x y tl, encUnits us = x :: y :: tl := by
    rcases hb2 : encUnits us with _ | ⟨x, _ | ⟨y, tl⟩⟩
    · rw [hb2] at hbody; simp at hbody
    · rw [hb2] at hbody; simp at hbody
    · exact ⟨x, y, tl, rfl⟩
  -- step 1: header
  have hL : pk ++ rest = hdr46 lenHi lenLo b6 t0 t1 t2 t3 t4 did ++ (encUnits us ++ rest) := by
    rw [hpk, List.append_assoc]
  have ht48 : (pk ++ rest).take 48 = hdr46 lenHi lenLo b6 t0 t1 t2 t3 t4 did ++ [x, y] := by
    rw [hL, hxy]
    simp [hdr46]
  have s1 := arun_micro (cfg := cfg) { skip := 0, lookahead := 48, fs := fs } (pk ++ rest) 46
    (lenHi * 256 + lenLo - 40) { fs with packetPts := decodeTimestamp [t0, t1, t2, t3, t4] } [] rfl
    (by simp only [List.length_append]; omega) (by simp only [List.length_append]; omega)
    (by show micro cfg _ ((pk ++ rest).take 48) = _
        rw [ht48]; exact micro_header fs lenHi lenLo b6 t0 t1 t2 t3 t4 did x y hHi hLo (by omega) h6 hdid)
    (by omega)
  rw [s1, ARes.pre_nil, hv, hla]
  -- step 2: skip the header
  have s2 := arun_skip (cfg := cfg) (pk ++ rest) 46 0 (encUnits us).length { fs with packetPts := p.pts }
    (by simp only [List.length_append]; omega)
  have hd46 : (pk ++ rest).drop 46 = encUnits us ++ rest := by
    rw [hL, List.drop_append_of_le_length (by rw [hh]; exact Nat.le_refl _), List.drop_of_length_le (by rw [hh]; exact Nat.le_refl _)]
    rfl
  rw [Nat.add_zero, hd46] at s2
  rw [s2]
  -- step 3: payload
  have s3 := arun_micro (cfg := cfg) { skip := 0, lookahead := (encUnits us).length, fs := { fs with packetPts := p.pts } }
    (encUnits us ++ rest) (encUnits us).length 48 fs2 outs rfl
    (by simp only [List.length_append]; omega) (by simp only [List.length_append]; omega)
    (by show pesIter true cfg 0 (encUnits us).length _ ((encUnits us ++ rest).take (encUnits us).length) = _
        rw [List.take_append_of_le_length (Nat.le_refl _), List.take_of_length_le (Nat.le_refl _)]
        rw [pesIter_payload _ _ _ _ _ (by omega) (Nat.le_refl _), List.take_of_length_le (Nat.le_refl _)]
        exact hpf)
    (by omega)
  rw [s3]
  -- step 4: skip the payload
  have s4 := arun_skip (cfg := cfg) (encUnits us ++ rest) (encUnits us).length 0 48 fs2
    (by simp only [List.length_append]; omega)
  rw [Nat.add_zero, List.drop_append_of_le_length (Nat.le_refl _), List.drop_of_length_le (Nat.le_refl _),
    List.nil_append] at s4
  rw [s4]

/-- ... when the payload step succeeds (result 0).  What it does to the frame state is left to the
caller (`pesPacketFrame_first` / `pesPacketFrame_next`). -/
theorem arun_packet (fs : FS) (pk rest : Bytes) (p : Pes) (hp : parsePes pk = some p) (hb : ∀ b ∈ pk, b < 256) :
    ∃ us, unitsLines us = some p.lines ∧
      (∀ fs2 outs,
        pesPacketFrame cfg 3 true cfg.corSkipsEmpty
            { fs with packetPts := p.pts, frame := { fs.frame with nDu := 0 } } (encUnits us) = (fs2, outs, .done, []) →
        arun cfg { skip := 0, lookahead := 48, fs := fs } (pk ++ rest)
          = (arun cfg { skip := 0, lookahead := 48, fs := fs2 } rest).pre outs)
      ∧ (∀ fs2 outs rest',
        pesPacketFrame cfg 3 true cfg.corSkipsEmpty
            { fs with packetPts := p.pts, frame := { fs.frame with nDu := 0 } } (encUnits us) = (fs2, outs, .err, rest') →
        arun cfg { skip := 0, lookahead := 48, fs := fs } (pk ++ rest)
          = (arun cfg { skip := 0, lookahead := 48, fs := pesErrFs cfg fs2 } rest).pre outs) := by
  obtain ⟨us, hul, h⟩ := arun_packet_res (cfg := cfg) fs pk rest p hp hb
  refine ⟨us, hul, ?_, ?_⟩
  · intro fs2 outs hpf
    apply h
    unfold payloadRes
    rw [hpf]; rfl
  · intro fs2 outs rest' hpf
    apply h
    unfold payloadRes
    rw [hpf]; rfl

end Zvbi.Demux
