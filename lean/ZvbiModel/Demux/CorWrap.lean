import ZvbiModel.Demux.CorIter
/-!
# Coroutine interface: the wrap buffer never holds more than skip + lookahead  (helper lemmas for C07)
-/
namespace Zvbi.Demux

variable {cfg : SrcCfg}

theorem wrapFill_win_leftover (cap : Nat) (w : Wrap) (buf : Bytes) (si srcSize : Nat) (w' : Wrap) (si' : Nat)
    (win : Bytes) (h : wrapFill cap w buf si srcSize = .win w' si' win) :
    w'.leftover = w.leftover ∨ w'.leftover = w.lookahead := by
  unfold wrapFill at h
  simp only [] at h
  repeat' split at h
  all_goals first
    | (cases h; done)
    | (cases h; exact Or.inl rfl)
    | (cases h; exact Or.inr rfl)

/-- after `wrap_around` returned TRUE the wrap buffer holds what it held minus the skip, or exactly
`lookahead` bytes -/
theorem wrapAround_win_leftover (cap : Nat) (w : Wrap) (buf : Bytes) (si srcSize : Nat) (w' : Wrap) (si' : Nat)
    (win : Bytes) (h : wrapAround cap w buf si srcSize = .win w' si' win) :
    w'.leftover ≤ w.leftover - w.skip ∨ w'.leftover = w.lookahead := by
  unfold wrapAround wrapSkip at h
  simp only [] at h
  by_cases hs : w.skip > 0
  · rw [if_pos hs] at h
    by_cases hs2 : w.skip > w.leftover
    · rw [if_pos hs2] at h
      by_cases hs3 : w.skip - w.leftover > buf.length - si
      · rw [if_pos hs3] at h; cases h
      · rw [if_neg hs3] at h
        rcases wrapFill_win_leftover _ _ _ _ _ _ _ _ h with e | e
        · left; rw [e]; exact Nat.zero_le _
        · right; exact e
    · rw [if_neg hs2] at h
      rcases wrapFill_win_leftover _ _ _ _ _ _ _ _ h with e | e
      · left; rw [e]; exact Nat.le_refl _
      · right; exact e
  · rw [if_neg hs] at h
    rcases wrapFill_win_leftover _ _ _ _ _ _ _ _ h with e | e
    · left; rw [e]; omega
    · right; exact e

theorem arun_pend_le : ∀ (L : Bytes) (c : Core), (arun cfg c L).pend.length ≤ L.length := by
  intro L
  induction L with
  | nil => intro c; simp [arun]
  | cons x L ih =>
    intro c
    unfold arun
    simp only []
    split
    · exact Nat.le_succ_of_le (ih _)
    · split
      · exact Nat.le_refl _
      · split
        · exact Nat.le_refl _
        · exact Nat.le_succ_of_le (ih _)

/-- a context that cannot make a step holds no bytes, or fewer than `lookahead` with nothing to skip -/
theorem stuck_short (c : Core) (L : Bytes)
    (h : arun cfg c L = { core := c, pend := L, frames := [], stop := none }) :
    L = [] ∨ (c.skip = 0 ∧ L.length < c.lookahead) := by
  cases L with
  | nil => exact Or.inl rfl
  | cons x L =>
    right
    unfold arun at h
    simp only [] at h
    split at h
    · have := arun_pend_le (cfg := cfg) L { c with skip := c.skip - 1 }
      rw [h] at this
      simp at this
      omega
    · rename_i hs
      split at h
      · exact ⟨by omega, by assumption⟩
      · split at h
        · simp at h
        · rename_i sk la fs' outs _
          have := arun_pend_le (cfg := cfg) L { skip := sk - 1, lookahead := la, fs := fs' }
          have hp := congrArg ARes.pend h
          simp only [] at hp
          rw [hp] at this
          simp at this
          omega

/-- the wrap buffer holds at most `skip + lookahead` bytes -/
def JInv (s : St) : Prop := s.pw.leftover ≤ s.pw.skip + s.pw.lookahead

theorem JInv_of_Inv (s : St) (h : Inv cfg s) : JInv s := by
  have hpl : s.pending.length = s.pw.leftover := s.pw.pend_length h.1.1
  rcases stuck_short (cfg := cfg) s.core s.pending h.2 with h0 | ⟨_, h1⟩
  · rw [h0] at hpl; simp at hpl; unfold JInv; omega
  · unfold JInv; simp only [St.core] at h1; omega

end Zvbi.Demux
